import Enc.Base.Univ
import Enc.Gen.Consts
/-!
Model of /repo/thrift: the binary (strict / non-strict) and compact Writers and Readers, `TypeOf`,
`forEachStructField` (tags), the struct encoder (id-sorted, zero elision, delta decision, bool coalescing) and
decoder (table by id, required check, unknown-field skipping), slices, maps, sets, pointers, `Unmarshal`.

The model describes the code AS IT IS: the binary protocol writes the *compact* type codes (the `Type` enum
values regenerated from thrift.go), compact doubles are big-endian, message headers as coded.
Unions (a struct with a field tagged `thrift:",union"`): Enc/Model/ThriftUnion.lean (`encodeU`, `decodeU`, …), of which the
functions of this file are the restriction to types without a union field (Lemmas/ThriftUnionCons.lean, ThriftUnionDec.lean).
Not modelled: the io.Reader plumbing (the model reads from a byte list = bytes.Reader), embedded
(anonymous) struct flattening, unsupported kinds (unsigned integers, which `encodeFuncOf` rejects with a panic),
types that contain themselves (`type L []L`: the model's types are finite trees), the text of error messages.

Nesting depth: the decoder counts the structs, lists, sets and maps it has entered (`flags.depth()`, `flags.nested()`,
the `depth` argument of `skip`); the parameter `d` of `skip … decodeStruct` below is that counter and `tooDeep` is the
test against `maxDepth` (regenerated constant `Gen.c_thrift_maxDepth`).
-/
namespace Enc.Model.Thrift
open Enc

inductive Proto where
  | binary (strict : Bool)       -- strict only changes the message header
  | compact
  deriving DecidableEq, Repr

def Proto.delta : Proto → Bool | .compact => true | _ => false       -- UseDeltaEncoding
def Proto.coalesce : Proto → Bool | .compact => true | _ => false    -- CoalesceBoolFields

inductive TType where
  | stop | true_ | bool | i8 | i16 | i32 | i64 | double | binary | list | set | map | struct | unknown (n : Nat)
  deriving DecidableEq, Repr

/-- numeric value of a `thrift.Type` (regenerated from the `const ( STOP Type = iota …)` block) -/
def TType.code : TType → Nat
  | .stop => Gen.c_thrift_STOP | .true_ => Gen.c_thrift_TRUE | .bool => Gen.c_thrift_BOOL
  | .i8 => Gen.c_thrift_I8 | .i16 => Gen.c_thrift_I16 | .i32 => Gen.c_thrift_I32 | .i64 => Gen.c_thrift_I64
  | .double => Gen.c_thrift_DOUBLE | .binary => Gen.c_thrift_BINARY | .list => Gen.c_thrift_LIST
  | .set => Gen.c_thrift_SET | .map => Gen.c_thrift_MAP | .struct => Gen.c_thrift_STRUCT
  | .unknown n => n

def TType.ofCode (n : Nat) : TType :=
  if n == Gen.c_thrift_STOP then .stop else if n == Gen.c_thrift_TRUE then .true_
  else if n == Gen.c_thrift_BOOL then .bool else if n == Gen.c_thrift_I8 then .i8
  else if n == Gen.c_thrift_I16 then .i16 else if n == Gen.c_thrift_I32 then .i32
  else if n == Gen.c_thrift_I64 then .i64 else if n == Gen.c_thrift_DOUBLE then .double
  else if n == Gen.c_thrift_BINARY then .binary else if n == Gen.c_thrift_LIST then .list
  else if n == Gen.c_thrift_SET then .set else if n == Gen.c_thrift_MAP then .map
  else if n == Gen.c_thrift_STRUCT then .struct else .unknown n

def isEmptyStruct : Ty → Bool
  | .struct .nil => true
  | _ => false

-- go: thrift.TypeOf
def typeOf : Ty → TType
  | .bool => .bool
  | .int .i8 | .int .u8 => .i8
  | .int .i16 | .int .u16 => .i16
  | .int .i32 | .int .u32 => .i32
  | .int _ => .i64
  | .f32 | .f64 => .double
  | .str | .bytes => .binary
  | .slice (.int .u8) => .binary
  | .slice _ => .list
  | .map _ v => if isEmptyStruct v then .set else .map
  | .struct _ => .struct
  | .ptr t => typeOf t
  | .named _ t => typeOf t
  | .arr _ _ | .any => .unknown 255

/-! ## primitive writers -/
def be (n k : Nat) : Bytes := (List.range k).reverse.map fun i => UInt8.ofNat (n / 256 ^ i % 256)
def twos (i : Int) (bits : Nat) : Nat := (i % (2 ^ bits : Int)).toNat

/-- Go `binary.PutUvarint` -/
def uvarint (n : Nat) : Bytes :=
  if h : n < 128 then [UInt8.ofNat n] else UInt8.ofNat (n % 128 + 128) :: uvarint (n / 128)
termination_by n
decreasing_by omega
/-- Go `binary.PutVarint`: zig-zag then uvarint -/
def zigzag64 (i : Int) : Nat := if i ≥ 0 then (2 * i).toNat else (-2 * i - 1).toNat
def varint (i : Int) : Bytes := uvarint (zigzag64 i)

def wBool (_ : Proto) (b : Bool) : Bytes := [if b then 1 else 0]
def wI8 (_ : Proto) (i : Int) : Bytes := [UInt8.ofNat (twos i 8)]
def wI16 : Proto → Int → Bytes | .compact, i => varint i | _, i => be (twos i 16) 2
def wI32 : Proto → Int → Bytes | .compact, i => varint i | _, i => be (twos i 32) 4
def wI64 : Proto → Int → Bytes | .compact, i => varint i | _, i => be (twos i 64) 8
def wDouble (_ : Proto) (bits : Nat) : Bytes := be bits 8             -- as coded: big-endian in BOTH protocols
def wLength : Proto → Nat → Bytes | .compact, n => uvarint n | _, n => be n 4
def wBytes (p : Proto) (b : Bytes) : Bytes := wLength p b.length ++ b

-- go: binaryWriter.WriteField / compactWriter.WriteField  (`id` holds the delta when `delta` (= Field.Delta) is set;
-- the short form only for `f.Delta && f.ID > 0 && f.ID <= 15`, every other field in the long form)
def wField (p : Proto) (t : TType) (id : Int) (delta : Bool) : Bytes :=
  match p with
  | .compact =>
    if t == .stop then [0]
    else if delta && decide (0 < id) && decide (id ≤ 15) then [UInt8.ofNat ((twos id 16 * 16 + t.code) % 256)]
    else [UInt8.ofNat t.code] ++ varint id
  | _ => [UInt8.ofNat t.code] ++ be (twos id 16) 2
def wStop (_ : Proto) : Bytes := [0]          -- binary: byte(STOP) then … no: WriteField(Field{Type: STOP})
-- go: WriteList / WriteSet
def wList (p : Proto) (t : TType) (n : Nat) : Bytes :=
  match p with
  | .compact => if n ≤ 14 then [UInt8.ofNat ((n * 16 + t.code) % 256)] else [UInt8.ofNat (0xF0 ||| t.code)] ++ uvarint n
  | _ => [UInt8.ofNat t.code] ++ be n 4
-- go: WriteMap
def wMap (p : Proto) (k v : TType) (n : Nat) : Bytes :=
  match p with
  | .compact => uvarint n ++ (if n == 0 then [] else [UInt8.ofNat ((k.code * 16 % 256) ||| v.code)])
  | _ => [UInt8.ofNat k.code, UInt8.ofNat v.code] ++ be n 4

/-- binary WriteField(STOP) writes the type byte AND the 2-byte id 0 -/
def wStopField (p : Proto) : Bytes :=
  match p with
  | .compact => [0]
  | _ => [0, 0, 0]

/-! ## struct field descriptors -/
structure FieldDesc where
  pos : Nat            -- position in the Go struct
  id : Int
  required : Bool
  enum : Bool
  ty : Ty

/-- `thrift:"<id>[,opt…]"` value of a Go struct tag -/
def tagValue (tag : String) : Option String :=
  match tag.splitOn "thrift:\"" with
  | _ :: after :: _ => some ((after.splitOn "\"").headD "")
  | _ => none

-- go: thrift.forEachStructField (no union / embedding in the modelled universe)
def fieldDescs (fs : Fields) : List FieldDesc :=
  let rec go (fs : Fields) (pos : Nat) : List FieldDesc :=
    match fs with
    | .nil => []
    | .cons _ tag _ t rest =>
      match tagValue tag with
      | none => go rest (pos + 1)
      | some v =>
        if v == "" then go rest (pos + 1) else
        let parts := v.splitOn ","
        let opts := parts.drop 1
        match (parts.headD "").toInt? with
        | some id => { pos := pos, id := id, required := opts.contains "required", enum := opts.contains "enum", ty := t } :: go rest (pos + 1)
        | none => go rest (pos + 1)
  go fs 0

def insertById (f : FieldDesc) : List FieldDesc → List FieldDesc
  | [] => [f]
  | g :: rest => if f.id < g.id then f :: g :: rest else g :: insertById f rest
/-- stable sort by id (sort.SliceStable) -/
def sortById (fs : List FieldDesc) : List FieldDesc := fs.foldr insertById []

def Vals.get : Vals → Nat → Val
  | .nil, _ => .nil
  | .cons v _, 0 => v
  | .cons _ r, n + 1 => Vals.get r n
def Vals.set : Vals → Nat → Val → Vals
  | .nil, _, _ => .nil
  | .cons _ r, 0, x => .cons x r
  | .cons v r, n + 1, x => .cons v (Vals.set r n x)

mutual
/-- reflect.Value.IsZero -/
def isZero : Val → Bool
  | .bool b => !b
  | .int i => i == 0
  | .float b => b == 0 || b == 2 ^ 63 || b == 2 ^ 31     -- `v.Float() == 0`: both signed zeros (float64 / float32 bit patterns)
  | .str s => s.isEmpty
  | .nil => true
  | .ptr _ => false
  | .list _ => false                -- non-nil slice (arrays are not in the thrift universe)
  | .map _ => false
  | .struct vs => allZero vs
def allZero : Vals → Bool
  | .nil => true
  | .cons v r => isZero v && allZero r
end

-- zero value of a type
mutual
def zeroOf : Ty → Val
  | .bool => .bool false
  | .int _ => .int 0
  | .f32 | .f64 => .float 0
  | .str => .str []
  | .bytes | .any | .ptr _ | .slice _ | .map _ _ => .nil
  | .arr n t => .list (Vals.ofList (List.replicate n (zeroOf t)))
  | .named _ t => zeroOf t
  | .struct fs => .struct (zeroFields fs)
def zeroFields : Fields → Vals
  | .nil => .nil
  | .cons _ _ _ t rest => .cons (zeroOf t) (zeroFields rest)
end

mutual
/-- reflect.Value.IsZero, type-directed: a non-nil empty `[]byte` is NOT zero, an empty string is -/
def isZeroAt : Ty → Val → Bool
  | .bytes, v | .slice (.int .u8), v => (match v with | .nil => true | _ => false)
  | .struct fs, v => (match v with | .struct vs => isZeroFields fs vs | _ => true)
  | .named _ t, v => isZeroAt t v
  | _, v => isZero v
def isZeroFields : Fields → Vals → Bool
  | .cons _ _ _ t fr, .cons v vr => isZeroAt t v && isZeroFields fr vr
  | _, _ => true
end

/-! ## encoder -/
def derefVal : Val → Val
  | .ptr v => derefVal v
  | v => v
def baseOf : Ty → Ty
  | .ptr t => baseOf t
  | .named _ t => baseOf t
  | t => t
def wrap32 (i : Int) : Int := let m := i % (2 ^ 32 : Int); if m ≥ 2 ^ 31 then m - 2 ^ 32 else m

def pairsOf : List Val → List (Val × Val)
  | k :: v :: rest => (k, v) :: pairsOf rest
  | _ => []

/-- one struct field ready to be emitted: id, thrift type, whether the value is `true`, its encoded value -/
structure FieldRec where
  id : Int
  t : TType
  isTrue : Bool
  body : Bytes

def FieldRec.ins (f : FieldRec) : List FieldRec → List FieldRec
  | [] => [f]
  | g :: rest => if f.id < g.id then f :: g :: rest else g :: FieldRec.ins f rest
/-- stable sort by id (sort.SliceStable) -/
def sortRecs (rs : List FieldRec) : List FieldRec := rs.foldr (fun f acc => FieldRec.ins f acc) []
/-- the header part of structEncoder.encode: delta decision, bool coalescing; `last` = lastFieldID -/
def emitFields (p : Proto) : List FieldRec → Int → Bytes
  | [], _ => []
  | f :: rest, last =>
    let delta := f.id - last
    let useDelta := p.delta && decide (delta ≤ 15)          -- `field.ID = delta; field.Delta = true`
    let idOut := if useDelta then delta else f.id
    let skipValue := p.coalesce && f.t == .bool
    let tOut := if skipValue && f.isTrue then TType.true_ else f.t
    wField p tOut idOut useDelta ++ (if skipValue then [] else f.body) ++ emitFields p rest f.id

mutual
-- go: encodeFuncOf (structural on the type)
def encode (p : Proto) : Ty → Val → Bytes
  | .bool, v => (match v with | .bool b => wBool p b | _ => [])
  | .int .i8, v => (match v with | .int i => wI8 p i | _ => [])
  | .int .i16, v => (match v with | .int i => wI16 p i | _ => [])
  | .int .i32, v => (match v with | .int i => wI32 p i | _ => [])
  | .int _, v => (match v with | .int i => wI64 p i | _ => [])
  | .f32, v | .f64, v => (match v with | .float b => wDouble p b | _ => [])
  | .str, v | .bytes, v => (match v with | .str s => wBytes p s | _ => wBytes p [])
  | .slice (.int .u8), v => (match v with | .str s => wBytes p s | _ => wBytes p [])
  | .slice t, v =>
    (match v with
     | .list vs => wList p (typeOf t) vs.length ++ (vs.toList.map (encode p t)).flatten
     | _ => wList p (typeOf t) 0)
  | .map k v, x =>
    let ps := match x with | .map kvs => pairsOf kvs.toList | _ => []
    if isEmptyStruct v then wList p (typeOf k) ps.length ++ (ps.map fun kv => encode p k kv.1).flatten
    else wMap p (typeOf k) (typeOf v) ps.length ++ (ps.map fun kv => encode p k kv.1 ++ encode p v kv.2).flatten
  | .struct fs, v =>
    (match v with
     | .struct vs => emitFields p (sortRecs (fieldRecs p fs vs)) 0 ++ wStopField p
     | _ => wStopField p)
  | .ptr t, v =>
    (match v with
     | .ptr x => encode p t x
     | _ => encode p t (zeroOf t))           -- encodeFuncPtrOf: nil encodes the zero value
  | .named _ t, v => encode p t v
  | .arr _ _, _ | .any, _ => []
/-- the per-field part of structEncoder.encode: which fields are emitted (nil pointers and non-required zero values are
skipped) and their encoded values; declaration order -/
def fieldRecs (p : Proto) : Fields → Vals → List FieldRec
  | .cons _ tag _ t rest, .cons x vs =>
    let tl := fieldRecs p rest vs
    match tagValue tag with
    | none => tl
    | some v =>
      if v == "" then tl else
      let parts := v.splitOn ","
      let opts := parts.drop 1
      match (parts.headD "").toInt? with
      | none => tl
      | some id =>
        let required := opts.contains "required"
        let enum := opts.contains "enum"
        let isNilPtr := match t, x with | .ptr _, .nil => true | _, _ => false
        if isNilPtr then tl
        else if !required && isZeroAt t x then tl
        else
          let isTrue := match derefVal x with | .bool true => true | _ => false
          let body :=
            if enum then (match derefVal x with | .int i => wI32 p (wrap32 i) | _ => encode p t x) else encode p t x
          { id := id, t := typeOf t, isTrue := isTrue, body := body } :: tl
  | _, _ => []
end

/-! ## reader -/
abbrev R (α : Type) := Res (α × Bytes)

def eofOr (atStart : Bool) : String := if atStart then "eof" else "unexpectedEof"

/-- `io.ReadFull(r, buf[:n])` on a byte list: n bytes or an error (`eof` if nothing was left, else `unexpectedEof`) -/
def readN (b : Bytes) (n : Nat) : R Bytes :=
  if hasAtLeast b n then .ok (b.take n, b.drop n)
  else if b.isEmpty then .err "eof" else .err "unexpectedEof"

def beNat : Bytes → Nat := fun b => b.foldl (fun acc c => acc * 256 + c.toNat) 0
def toSigned (n bits : Nat) : Int := if n < 2 ^ (bits - 1) then n else (n : Int) - 2 ^ bits

/-- Go `binary.ReadUvarint` (error classes: eof on empty, unexpectedEof mid-way, overflow) -/
def readUvarintGo (b : Bytes) : R Nat :=
  let rec go (b : Bytes) (i : Nat) (x : Nat) (s : Nat) : R Nat :=
    if i == 10 then .err "overflow"            -- MaxVarintLen64: the loop ends after ten bytes without reading another
    else match b with
    | [] => if i == 0 then .err "eof" else .err "unexpectedEof"
    | c :: rest =>
      if c.toNat < 128 then
        if i == 9 ∧ c.toNat > 1 then .err "overflow" else .ok (x + c.toNat * 2 ^ s, rest)
      else go rest (i + 1) (x + (c.toNat - 128) * 2 ^ s) (s + 7)
  go b 0 0 0

def unzigzag (n : Nat) : Int := if n % 2 = 0 then (n / 2 : Nat) else -((n / 2 : Nat) : Int) - 1

def rByte (b : Bytes) : R UInt8 :=
  match b with
  | [] => .err "eof"
  | c :: rest => .ok (c, rest)

def rFixed (b : Bytes) (n : Nat) : R Nat := (readN b n).bind fun (x, rest) => .ok (beNat x, rest)

def rVarint (b : Bytes) (bits : Nat) : R Int :=
  (readUvarintGo b).bind fun (u, rest) =>
    let v := unzigzag u
    if v < -(2 ^ (bits - 1) : Int) ∨ v > (2 ^ (bits - 1) : Int) - 1 then .err "range" else .ok (v, rest)

def rBool (_ : Proto) (b : Bytes) : R Bool := (rByte b).bind fun (c, r) => .ok (c != 0, r)
def rI8 (_ : Proto) (b : Bytes) : R Int := (rByte b).bind fun (c, r) => .ok (toSigned c.toNat 8, r)
def rI16 : Proto → Bytes → R Int
  | .compact, b => rVarint b 16
  | _, b => (rFixed b 2).bind fun (n, r) => .ok (toSigned n 16, r)
def rI32 : Proto → Bytes → R Int
  | .compact, b => rVarint b 32
  | _, b => (rFixed b 4).bind fun (n, r) => .ok (toSigned n 32, r)
def rI64 : Proto → Bytes → R Int
  | .compact, b => rVarint b 64
  | _, b => (rFixed b 8).bind fun (n, r) => .ok (toSigned n 64, r)
def rDouble (_ : Proto) (b : Bytes) : R Nat := rFixed b 8
-- go: ReadLength
def rLength : Proto → Bytes → R Nat
  | .compact, b => (readUvarintGo b).bind fun (n, r) => if n > 2147483647 then .err "range" else .ok (n, r)
  | _, b => (rFixed b 4).bind fun (n, r) => if n > 2147483647 then .err "range" else .ok (n, r)
def dontExpectEOF {α} : R α → R α
  | .err "eof" => .err "unexpectedEof"
  | x => x

/-- ReadBytes: length then `io.ReadFull`; once the length prefix has been read, a missing payload is an unexpected EOF
(`dontExpectEOF(err)`, both protocols) -/
def rBytes (p : Proto) (b : Bytes) : R Bytes :=
  (rLength p b).bind fun (n, r) =>
    if n == 0 then .ok ([], r) else dontExpectEOF (readN r n)

structure FieldHdr where
  t : TType
  id : Int
  delta : Bool

-- go: ReadField
def rField (p : Proto) (b : Bytes) : R FieldHdr :=
  match p with
  | .compact =>
    (rByte b).bind fun (c, r) =>
      if c.toNat == Gen.c_thrift_STOP then .ok ({ t := .stop, id := 0, delta := false }, r)
      else if c.toNat / 16 != 0 then .ok ({ t := TType.ofCode (c.toNat % 16), id := c.toNat / 16, delta := true }, r)
      else (dontExpectEOF (rI16 p r)).bind fun (i, r) => .ok ({ t := TType.ofCode c.toNat, id := i, delta := false }, r)
  | _ =>
    (rI8 p b).bind fun (t, r) =>
      (dontExpectEOF (rI16 p r)).bind fun (i, r) => .ok ({ t := TType.ofCode (twos t 8), id := i, delta := false }, r)

-- go: ReadList / ReadSet
def rList (p : Proto) (b : Bytes) : R (TType × Nat) :=
  match p with
  | .compact =>
    (rByte b).bind fun (c, r) =>
      if c.toNat / 16 != 15 then .ok ((TType.ofCode (c.toNat % 16), c.toNat / 16), r)
      else (dontExpectEOF ((readUvarintGo r).bind fun (n, r) => if n > 2147483647 then .err "range" else .ok (n, r))).bind
        fun (n, r) => .ok ((TType.ofCode (c.toNat % 16), n), r)
  | _ =>
    (rI8 p b).bind fun (t, r) =>
      (dontExpectEOF (rI32 p r)).bind fun (n, r) =>
        if n < 0 then .err "range" else .ok ((TType.ofCode (twos t 8), n.toNat), r)

-- go: ReadMap
def rMap (p : Proto) (b : Bytes) : R (TType × TType × Nat) :=
  match p with
  | .compact =>
    ((readUvarintGo b).bind fun (n, r) => if n > 2147483647 then .err "range" else .ok (n, r)).bind fun (n, r) =>
      if n == 0 then .ok ((.stop, .stop, 0), r)
      else (dontExpectEOF (rByte r)).bind fun (c, r) => .ok ((TType.ofCode (c.toNat / 16), TType.ofCode (c.toNat % 16), n), r)
  | _ =>
    (rByte b).bind fun (k, r) =>
      (dontExpectEOF (rByte r)).bind fun (v, r) =>
        (dontExpectEOF (rI32 p r)).bind fun (n, r) =>
          if n < 0 then .err "range" else .ok ((TType.ofCode k.toNat, TType.ofCode v.toNat, n.toNat), r)

def wrap16 (i : Int) : Int := let m := i % 65536; if m ≥ 32768 then m - 65536 else m

/-! ### skipping -/
/-- `depth >= maxDepth` (skip) / `f.depth() >= maxDepth` (flags.nested) -/
def tooDeep (d : Nat) : Bool := decide (Gen.c_thrift_maxDepth ≤ d)

mutual
-- go: skip(r, t, depth); `d` = depth. The Go test `depth >= maxDepth && (t == LIST || t == SET || t == MAP || t == STRUCT)`
-- sits in the four container branches here (the other branches do not depend on it)
def skip (p : Proto) (d : Nat) : Nat → TType → Bytes → R Unit
  | 0, _, _ => .err "fuel"
  | fuel + 1, t, b =>
    match t with
    | .true_ | .bool => (rBool p b).bind fun (_, r) => .ok ((), r)
    | .i8 => (rI8 p b).bind fun (_, r) => .ok ((), r)
    | .i16 => (rI16 p b).bind fun (_, r) => .ok ((), r)
    | .i32 => (rI32 p b).bind fun (_, r) => .ok ((), r)
    | .i64 => (rI64 p b).bind fun (_, r) => .ok ((), r)
    | .double => (rDouble p b).bind fun (_, r) => .ok ((), r)
    | .binary =>
      (rLength p b).bind fun (n, r) =>
        if n == 0 then .ok ((), r)
        else if hasAtLeast r n then .ok ((), r.drop n) else .err "unexpectedEof"
    -- skipList / skipSet / skipMap / skipStruct (r, depth+1)
    | .list | .set => if tooDeep d then .err "maxDepth" else (rList p b).bind fun ((et, n), r) => skipN p (d + 1) fuel et n r
    | .map => if tooDeep d then .err "maxDepth" else (rMap p b).bind fun ((kt, vt, n), r) => skipPairs p (d + 1) fuel kt vt n r
    | .struct => if tooDeep d then .err "maxDepth" else skipStruct p (d + 1) fuel b 0 0
    | .stop | .unknown _ => .err "unsupportedType"
-- go: readList(r, skip(·, t, depth)) after the header; also skipValues(r, n, depth-1, t)
def skipN (p : Proto) (d : Nat) : Nat → TType → Nat → Bytes → R Unit
  | 0, _, _, _ => .err "fuel"
  | _, _, 0, b => .ok ((), b)
  | fuel + 1, t, n + 1, b => (dontExpectEOF (skip p d fuel t b)).bind fun (_, r) => skipN p d fuel t n r
-- go: readMap(r, …skip k, skip v…) after the header; also skipValues(r, n, depth-1, k, v)
def skipPairs (p : Proto) (d : Nat) : Nat → TType → TType → Nat → Bytes → R Unit
  | 0, _, _, _, _ => .err "fuel"
  | _, _, _, 0, b => .ok ((), b)
  | fuel + 1, kt, vt, n + 1, b =>
    (dontExpectEOF (skip p d fuel kt b)).bind fun (_, r) =>
      (dontExpectEOF (skip p d fuel vt r)).bind fun (_, r) => skipPairs p d fuel kt vt n r
-- go: readStruct(r, skipField(·, ·, depth))
def skipStruct (p : Proto) (d : Nat) : Nat → Bytes → Int → Nat → R Unit
  | 0, _, _, _ => .err "fuel"
  | fuel + 1, b, last, num =>
    match rField p b with
    | .err e => if num > 0 ∧ e == "eof" then .err "unexpectedEof" else .err e
    | .panic e => .panic e
    | .ok (h, r) =>
      if h.t == .stop then (if h.delta then .err "deltaStop" else .ok ((), r))   -- compact: only the byte 0 is the stop field
      else
        let id := if h.delta then h.id + last else h.id
        let sk : R Unit :=      -- skipField
          if (h.t == .true_ || h.t == .bool) && p.coalesce then .ok ((), r) else skip p d fuel h.t r
        (dontExpectEOF sk).bind fun (_, r) => skipStruct p d fuel r (wrap16 id) (num + 1)
end

def findById (fs : List FieldDesc) (id : Int) : Option FieldDesc := fs.find? (·.id == id)

def mapPut (kvs : Vals) (k v : Val) : Vals :=
  match kvs with
  | .cons k0 (.cons v0 rest) => if k0.show == k.show then .cons k0 (.cons v rest) else .cons k0 (.cons v0 (mapPut rest k v))
  | _ => .cons k (.cons v .nil)

def wrapTo (bits : Nat) (i : Int) : Int :=
  let m := i % (2 ^ bits : Int); if m ≥ (2 ^ (bits - 1) : Int) then m - (2 ^ bits : Int) else m

def wrapPtr : Ty → Val → Val
  | .ptr t, v => .ptr (wrapPtr t v)
  | .named _ t, v => wrapPtr t v
  | _, v => v

/-! ## decoder (`strict` = Decoder.SetStrict; `d` = flags.depth()) -/
mutual
-- go: decodeFuncOf; `cur` is the current value of the target
def decode (p : Proto) (strict : Bool) (d : Nat) : Nat → Ty → Bytes → Val → R Val
  | 0, _, _, _ => .err "fuel"
  | fuel + 1, t, b, cur =>
    match t with
    | .bool => (rBool p b).bind fun (x, r) => .ok (.bool x, r)
    | .int .i8 => (rI8 p b).bind fun (x, r) => .ok (.int x, r)
    | .int .i16 => (rI16 p b).bind fun (x, r) => .ok (.int x, r)
    | .int .i32 => (rI32 p b).bind fun (x, r) => .ok (.int x, r)
    | .int .i64 | .int .int => (rI64 p b).bind fun (x, r) => .ok (.int x, r)
    | .f64 | .f32 => (rDouble p b).bind fun (x, r) => .ok (.float x, r)
    | .str => (rBytes p b).bind fun (x, r) => .ok (.str x, r)
    | .bytes | .slice (.int .u8) => (rBytes p b).bind fun (x, r) => .ok (.str x, r)
    | .slice et =>
      (rList p b).bind fun ((lt, n), r) =>
        let lt := if lt == .true_ then TType.bool else lt
        if typeOf et != lt then
          (if strict then .err "typeMismatch"
           else (skipN p (d + 1) fuel lt n r).bind fun (_, r) => .ok (cur, r))      -- skipValues(r, l.Size, flags.depth(), l.Type)
        else if tooDeep d then .err "maxDepth"                                        -- flags.nested()
        else decodeList p strict (d + 1) fuel et n r []
    | .map kt vt =>
      if isEmptyStruct vt then
        (rList p b).bind fun ((st, n), r) =>
          let st := if st == .true_ then TType.bool else st
          if n == 0 then .ok (.map .nil, r)
          else if typeOf kt != st then
            (if strict then .err "typeMismatch"
             else (skipN p (d + 1) fuel st n r).bind fun (_, r) => .ok (.map .nil, r))
          else if tooDeep d then .err "maxDepth"
          else decodeSet p strict (d + 1) fuel kt n r .nil
      else
        (rMap p b).bind fun ((k, v, n), r) =>
          let k := if k == .true_ then TType.bool else k        -- `if m.Key == TRUE { m.Key = BOOL }`
          let v := if v == .true_ then TType.bool else v        -- `if m.Value == TRUE { m.Value = BOOL }`
          if n == 0 then .ok (.map .nil, r)
          else if typeOf kt != k then
            (if strict then .err "typeMismatch"
             else (skipPairs p (d + 1) fuel k v n r).bind fun (_, r) => .ok (.map .nil, r))   -- skipValues(…, m.Key, m.Value)
          else if typeOf vt != v then
            (if strict then .err "typeMismatch"
             else (skipPairs p (d + 1) fuel k v n r).bind fun (_, r) => .ok (.map .nil, r))
          else if tooDeep d then .err "maxDepth"
          else decodeMap p strict (d + 1) fuel kt vt n r .nil
    | .struct fs =>
      if tooDeep d then .err "maxDepth"                           -- structDecoder.decode starts with flags.nested()
      else
      match cur with
      | .struct vs =>
        let descs := fieldDescs fs
        (decodeStruct p strict (d + 1) fuel descs b vs 0 0 []).bind fun ((vs', seen), r) =>
          -- required check
          if descs.any (fun fd => fd.required && !seen.contains fd.id) then .err "missingField"
          else .ok (.struct vs', r)
      | _ => .err "modelType"
    | .ptr et =>
      let tgt := match cur with | .ptr v => v | _ => zeroOf et
      (decode p strict d fuel et b tgt).bind fun (v, r) => .ok (.ptr v, r)
    | .named _ t' => decode p strict d fuel t' b cur
    | _ => .panic "unsupportedType"
def decodeList (p : Proto) (strict : Bool) (d : Nat) : Nat → Ty → Nat → Bytes → List Val → R Val
  | 0, _, _, _, _ => .err "fuel"
  | _, _, 0, b, acc => .ok (.list (Vals.ofList acc.reverse), b)
  | fuel + 1, et, n + 1, b, acc =>
    (dontExpectEOF (decode p strict d fuel et b (zeroOf et))).bind fun (v, r) => decodeList p strict d fuel et n r (v :: acc)
def decodeSet (p : Proto) (strict : Bool) (d : Nat) : Nat → Ty → Nat → Bytes → Vals → R Val
  | 0, _, _, _, _ => .err "fuel"
  | _, _, 0, b, acc => .ok (.map acc, b)
  | fuel + 1, kt, n + 1, b, acc =>
    (dontExpectEOF (decode p strict d fuel kt b (zeroOf kt))).bind fun (k, r) =>
      decodeSet p strict d fuel kt n r (mapPut acc k (.struct .nil))
def decodeMap (p : Proto) (strict : Bool) (d : Nat) : Nat → Ty → Ty → Nat → Bytes → Vals → R Val
  | 0, _, _, _, _, _ => .err "fuel"
  | _, _, _, 0, b, acc => .ok (.map acc, b)
  | fuel + 1, kt, vt, n + 1, b, acc =>
    (dontExpectEOF (decode p strict d fuel kt b (zeroOf kt))).bind fun (k, r) =>
      (dontExpectEOF (decode p strict d fuel vt r (zeroOf vt))).bind fun (v, r) =>
        decodeMap p strict d fuel kt vt n r (mapPut acc k v)
-- go: structDecoder.decode via readStruct (`d` = the depth after flags.nested()); returns the new field values and the ids seen
def decodeStruct (p : Proto) (strict : Bool) (d : Nat) : Nat → List FieldDesc → Bytes → Vals → Int → Nat → List Int → R (Vals × List Int)
  | 0, _, _, _, _, _, _ => .err "fuel"
  | fuel + 1, descs, b, vs, last, num, seen =>
    match rField p b with
    | .err e => if num > 0 ∧ e == "eof" then .err "unexpectedEof" else .err e
    | .panic e => .panic e
    | .ok (h, r) =>
      if h.t == .stop then (if h.delta then .err "deltaStop" else .ok ((vs, seen), r))   -- compact: only the byte 0 is the stop field
      else
        let id := wrap16 (if h.delta then h.id + last else h.id)
        -- skipField(r, f, flags.depth()): the value of a compact bool field is part of the header
        let sk : R Unit :=
          if (h.t == .true_ || h.t == .bool) && p.coalesce then .ok ((), r) else skip p d fuel h.t r
        match findById descs id with
        | none =>
          (dontExpectEOF sk).bind fun (_, r) => decodeStruct p strict d fuel descs r vs id (num + 1) seen
        | some fd =>
          let seen := id :: seen
          let ft := typeOf fd.ty
          if h.t != ft && !(h.t == .true_ && ft == .bool) then
            if strict then .err "typeMismatch"
            else (dontExpectEOF sk).bind fun (_, r) => decodeStruct p strict d fuel descs r vs id (num + 1) seen
          else if p.coalesce && (h.t == .true_ || h.t == .bool) then
            decodeStruct p strict d fuel descs r (Vals.set vs fd.pos (wrapPtr fd.ty (.bool (h.t == .true_)))) id (num + 1) seen
          else
            let res : R Val :=
              if fd.enum then
                (match baseOf fd.ty with
                 | .int k => (rI32 p r).bind fun (x, r) => .ok (wrapPtr fd.ty (.int (wrapTo k.bits x)), r)   -- reflect SetInt truncates
                 | _ => decode p strict d fuel fd.ty r (Vals.get vs fd.pos))
              else decode p strict d fuel fd.ty r (Vals.get vs fd.pos)
            (dontExpectEOF res).bind fun (v, r) =>
              decodeStruct p strict d fuel descs r (Vals.set vs fd.pos v) id (num + 1) seen
end

/-! ## entry points -/
-- go: thrift.Marshal
def marshal (p : Proto) (t : Ty) (v : Val) : Bytes := encode p t v

mutual
/-- nesting depth of a type (every `decode` level costs one unit of fuel, collections and structs two); Go recurses on
the type without a budget, so the model's budget grows with it -/
def depth : Ty → Nat
  | .slice t => 2 + depth t
  | .map k v => 2 + max (depth k) (depth v)
  | .struct fs => 2 + depthFields fs
  | .ptr t => 1 + depth t
  | .named _ t => 1 + depth t
  | .bool | .int _ | .f32 | .f64 | .str | .bytes | .any | .arr _ _ => 1
def depthFields : Fields → Nat
  | .nil => 0
  | .cons _ _ _ t rest => max (depth t) (depthFields rest)
end

mutual
/-- number of nested structs, lists, sets and maps of a type — what the decoder's depth counter (`flags.nested()`) reaches
while decoding a value of the type (a `[]byte` is a binary, not a list; a `map[K]struct{}` is a set of K) -/
def nest : Ty → Nat
  | .slice (.int .u8) => 0
  | .slice t => 1 + nest t
  | .map k v => 1 + (if isEmptyStruct v then nest k else max (nest k) (nest v))
  | .struct fs => 1 + nestFields fs
  | .ptr t => nest t
  | .named _ t => nest t
  | .bool | .int _ | .f32 | .f64 | .str | .bytes | .any | .arr _ _ => 0
def nestFields : Fields → Nat
  | .nil => 0
  | .cons _ _ _ t rest => max (nest t) (nestFields rest)
end

-- go: thrift.Unmarshal (target: pointer to a zero value of t)
def unmarshal (p : Proto) (strict : Bool) (t : Ty) (b : Bytes) : Res Val :=
  match decode p strict 0 (4 * b.length + 64 + depth t) t b (zeroOf t) with
  | .ok (v, rest) => if rest.isEmpty then .ok v else .err "trailing"
  | .err e => .err e
  | .panic e => .panic e

/-! ## message headers -/
-- go: WriteMessage
def wMessage (p : Proto) (mtype : Nat) (name : Bytes) (seq : Int) : Bytes :=
  match p with
  | .binary false => wBytes p name ++ [UInt8.ofNat (mtype % 256)] ++ wI32 p seq
  | .binary true => [0x80, 0, 0, UInt8.ofNat (mtype % 8)] ++ be name.length 4 ++ name ++ wI32 p seq
  | .compact => [0x82, UInt8.ofNat (mtype % 256)] ++ uvarint (twos seq 32) ++ wBytes p name   -- uint64(uint32(m.SeqID))

structure Msg where
  mtype : Nat
  name : Bytes
  seq : Int

-- go: binaryReader.ReadMessage / compactReader.ReadMessage
def rMessage (p : Proto) (b : Bytes) : R Msg :=
  match p with
  | .compact =>
    (rByte b).bind fun (b0, r) =>
      if b0.toNat != 0x82 then .err "protocolId"
      else
        (dontExpectEOF (rByte r)).bind fun (b1, r) =>
          -- readUvarint("seq id", math.MaxUint32): a negative id is written as its 32-bit two's complement
          (dontExpectEOF ((readUvarintGo r).bind fun (n, r) => if n > 4294967295 then .err "range" else .ok (n, r))).bind
            fun (s, r) =>
              (dontExpectEOF (rBytes p r)).bind fun (nm, r) =>
                .ok ({ mtype := b1.toNat % 8, name := nm, seq := toSigned s 32 }, r)
  | _ =>      -- the reader tells strict from non-strict by the first bit of the input, not by the protocol setting
    (readN b 4).bind fun (w, r) =>
      if w.headD 0 < 128 then
        (dontExpectEOF (readN r (beNat w))).bind fun (nm, r) =>
          (dontExpectEOF (rI8 p r)).bind fun (t, r) =>
            (dontExpectEOF (rI32 p r)).bind fun (s, r) => .ok ({ mtype := twos t 8 % 8, name := nm, seq := s }, r)
      else
        (dontExpectEOF (rBytes p r)).bind fun (nm, r) =>
          (dontExpectEOF (rI32 p r)).bind fun (s, r) => .ok ({ mtype := (w.getD 3 0).toNat % 8, name := nm, seq := s }, r)

end Enc.Model.Thrift
