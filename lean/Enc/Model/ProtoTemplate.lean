import Enc.Model.ProtoRewrite
import Enc.Model.Json.DecAny
/-!
# Model of `proto.ParseRewriteTemplate` (/repo/proto/rewrite.go) and of `proto.TypeOf` as far as templates look at it

* `TType` / `TFields`: a message type as `proto.TypeOf` PRESENTS it (`proto.Type`): the 15 primitive kinds (with the
  zig-zag and fixed-width variants), `map<K,V>`, messages with fields `{Name, Number, Repeated, Type}`.
  `typeOf : Ty → Option TType` mirrors `typeOf` / `structTypeOf` / `mapTypeOf` of /repo/proto/reflect.go on the
  project's Go type universe (`none` = the Go function panics, or the type is an opaque `Message`).
* The template is a generic JSON value `GV` (Model/Json/DecAny.lean): the Go code decodes the template with the json
  package — first into `map[string]json.RawMessage`, then every raw member again into the Go type its field asks for
  (`bool`, `int32`, …, `string`, `[]json.RawMessage`, `map[string]json.RawMessage`). On a `GV` these second decodes are
  the `gv*` functions below: `null` leaves the zero value, a number literal is decoded by the model of the json package's
  integer decoders (`Model.Json.unmarshalInt`), a float literal by `strconv.ParseFloat` (shared external parameter `PF`:
  literal, bit size ↦ IEEE bits, `none` = range error), everything else is an `UnmarshalTypeError`.
* `parseOne / parseStruct / parseMembers / parseElems / parseMap / parseEntries` mirror `parseRewriteTemplate`,
  `parseRewriteTemplateStruct` (its two loops), `parseRewriteTemplateMap` (its two loops) AS WRITTEN; the result is a
  rewriter tree `RwT`.
* `RwT` = the six constructors of `Rw` (Model/ProtoRewrite.lean) + `bitOr` (`bitOrRW[T]`). `Rw` itself is NOT extended
  (the 2.8 k lines of C19 proofs about it stay untouched); `rewriteT` is `rewrite` with the extra leaf, `RwT.toRw?`
  embeds the `bitOr`-free trees (all trees built without `BitOr` rules) into `Rw`, and
  `Lemmas.ProtoTemplate.rewriteT_eq_rewrite` shows the two interpreters agree on them.

Go map iteration order: `parseRewriteTemplateStruct` ranges over the template map in Go's random order; the table it
fills is indexed by field number, so the tree does not depend on the order (only WHICH error is returned does, when
there are several). `parseRewriteTemplateMap` ranges over the template map too and its order IS visible: the entries
of a templated map are written in Go's random iteration order. The model lists them in the canonical order of `GMs`
(sorted by key bytes); the harness asks the real parser again until it has produced that order.
-/
namespace Enc.Model.Proto
open Enc Enc.Model.Json

/-! ## the type as `proto.TypeOf` presents it -/

-- go: proto.Kind
inductive PKind where
  | bool | int32 | int64 | sint32 | sint64 | uint32 | uint64 | fix32 | fix64 | sfix32 | sfix64
  | float | double | string | bytes
  deriving DecidableEq, Repr

mutual
-- go: proto.Type  (primitiveType / mapType / structType)
inductive TType where
  | prim (k : PKind)
  | map (key elem : TType)
  | msg (fs : TFields)
-- go: []proto.Field  {Name, Number, Repeated, Type}
inductive TFields where
  | nil
  | cons (name : Bytes) (number : Nat) (repeated : Bool) (t : TType) (rest : TFields)
end

def strBytes (s : String) : Bytes := s.toUTF8.toList

-- go: primitiveType.ZigZag   (none = panics)
def zigzagOf : TType → Option TType
  | .prim .int32 => some (.prim .sint32)
  | .prim .int64 => some (.prim .sint64)
  | .prim .uint32 => some (.prim .sint32)
  | .prim .uint64 => some (.prim .sint64)
  | .prim .fix32 => some (.prim .sfix32)
  | .prim .fix64 => some (.prim .sfix64)
  | _ => none

/-- `name=` option of a protobuf struct tag (`structTag.name`; the last one wins, "" when absent) -/
def tagName (tag : String) : String :=
  ((tag.splitOn ",").drop 3).foldl (fun acc f =>
    match f.splitOn "=" with
    | n :: v :: _ => if n == "name" then v else acc               -- (strings.TrimSpace: tags are written without spaces)
    | [n] => if n == "name" then "" else acc
    | [] => acc) ""

/-- reflect.Kind looks through defined types (but `RawMessage` is a Message: opaque, outside this model) -/
def kindTy : Ty → Ty
  | .named "RawMessage" t => .named "RawMessage" t
  | .named _ t => kindTy t
  | t => t

def elemIsU8 (t : Ty) : Bool := match kindTy t with | .int .u8 => true | _ => false

/-- the Go type that `structTypeOf` hands to `typeOf` / `baseKindOf` for a field: the element type of a slice field -/
def fieldElemTy (t : Ty) : Bool × Ty :=
  match kindTy t with
  | .slice e => if elemIsU8 e then (false, t) else (true, e)
  | _ => (false, t)

mutual
-- go: proto.typeOf
def typeOf : Ty → Option TType
  | .bool => some (.prim .bool)
  | .int .int => some (.prim .int64)
  | .int .i32 => some (.prim .int32)
  | .int .i64 => some (.prim .int64)
  | .int .uint => some (.prim .uint64)
  | .int .u32 => some (.prim .uint32)
  | .int .u64 => some (.prim .uint64)
  | .int _ => none
  | .f32 => some (.prim .float)
  | .f64 => some (.prim .double)
  | .str => some (.prim .string)
  | .bytes => some (.prim .bytes)
  | .slice e => if elemIsU8 e then some (.prim .bytes) else none
  | .arr _ e => if elemIsU8 e then some (.prim .bytes) else none
  | .map k v =>
    match typeOf k, typeOf v with
    | some a, some b => some (.map a b)
    | _, _ => none
  | .struct fs => (structFieldsOf fs 0 0 0).map .msg
  | .ptr t => typeOf t
  | .named "RawMessage" _ => none
  | .named _ t => typeOf t
  | .any => none
/-- the type of a struct field: `(repeated, typeOf(elem))` — a slice field (not of bytes) is repeated and described by
its element type -/
def fieldTypeOf : Ty → Option (Bool × TType)
  | .slice e => if elemIsU8 e then some (false, .prim .bytes) else (typeOf e).map fun t => (true, t)
  | .named "RawMessage" _ => none
  | .named _ t => fieldTypeOf t
  | .bool => some (false, .prim .bool)
  | .int k => (typeOf (.int k)).map fun t => (false, t)
  | .f32 => some (false, .prim .float)
  | .f64 => some (false, .prim .double)
  | .str => some (false, .prim .string)
  | .bytes => some (false, .prim .bytes)
  | .arr n e => (typeOf (.arr n e)).map fun t => (false, t)
  | .map k v => (typeOf (.map k v)).map fun t => (false, t)
  | .struct fs => (typeOf (.struct fs)).map fun t => (false, t)
  | .ptr t => (typeOf t).map fun t => (false, t)
  | .any => none
-- go: proto.structTypeOf   (the loop; `fieldNumber`, `taggedFields`, `len(st.fields)`)
def structFieldsOf : Fields → Nat → Nat → Nat → Option TFields
  | .nil, _, _, _ => some .nil
  | .cons name tag _ t rest, fieldNumber, taggedFields, count =>
    match fieldTypeOf t with
    | none => none
    | some (rep0, fty) =>
      match lookupProtobuf tag with
      | some tg =>
        if fieldNumber != taggedFields then none                   -- panic: conflicting use of struct tag and naked fields
        else match parseStructTag tg with
          | none => none                                            -- panic(err)
          | some st =>
            let fty1 : TType :=
              if rep0 then fty
              else match st.wire, baseTy (fieldElemTy t).2 with
                | .fixed32, .int .u32 => .prim .fix32
                | .fixed32, .int .i32 => .prim .sfix32
                | .fixed64, .int .u64 => .prim .fix64
                | .fixed64, .int .i64 => .prim .sfix64
                | _, _ => fty
            let number := st.number.toNat
            let isMap := match kindTy (fieldElemTy t).2 with | .map _ _ => true | _ => false
            let rep := st.repeated && !isMap
            match (if st.zigzag then zigzagOf fty1 else some fty1) with
            | none => none                                          -- ZigZag panics
            | some fty2 =>
              (structFieldsOf rest number number (count + 1)).map fun r => .cons (strBytes (tagName tg)) number rep fty2 r
      | none =>
        if fieldNumber == 0 && count != 0 then none                 -- panic: conflicting use …
        else (structFieldsOf rest (fieldNumber + 1) taggedFields (count + 1)).map fun r =>
          .cons (strBytes name) (fieldNumber + 1) rep0 fty r
end

-- go: `fieldsByName[f.Name] = f` over all fields, then `fieldsByName[k]`: the LAST field of that name
def lookupFieldByName : TFields → Bytes → Option (Nat × Bool × TType)
  | .nil, _ => none
  | .cons name number rep t rest, k =>
    match lookupFieldByName rest k with
    | some r => some r
    | none => if name == k then some (number, rep, t) else none

/-! ## rules -/

mutual
/-- a value of a `RewriterRules` map: `BitOr[T]{}`, a nested `RewriterRules`, or anything else (not a `Rewriterer`, not
rules: it only makes `rule != nil`). Custom `Rewriterer`s are arbitrary code and outside the model. -/
inductive Rule where
  | bitOr (t : ITy)
  | sub (rs : Rules)
  | other
inductive Rules where
  | nil
  | cons (name : Bytes) (r : Rule) (rest : Rules)
end

def Rules.lookup : Rules → Bytes → Option Rule
  | .nil, _ => none
  | .cons n r rest, k => if n == k then some r else Rules.lookup rest k

-- go: `for i := range rules { if r, ok := rules[i][f.Name]; ok { rule = r; break } }`
def findRule : List Rules → Bytes → Option Rule
  | [], _ => none
  | rs :: rest, k => match rs.lookup k with | some r => some r | none => findRule rest k

/-! ## rewriter trees with the BitOr leaf -/

inductive RwT where
  | raw (b : Bytes)
  | multi (rs : List RwT)
  | message (len : Nat) (rs : List (Nat × RwT))
  | embedded (number : Nat) (len : Nat) (rs : List (Nat × RwT))
  | embeddedMerge (number : Nat) (len : Nat) (rs : List (Nat × RwT))
  | replacement (r : RwT)
  | bitOr (t : ITy) (mask : BitVec 64) (kind : PKind) (number : Nat)     -- bitOrRW[T]{mask, t, f}

mutual
/-- the `bitOr`-free trees are the trees of `Rw` -/
def RwT.toRw? : RwT → Option Rw
  | .raw b => some (.raw b)
  | .multi rs => (RwT.listToRw? rs).map .multi
  | .message len rs => (RwT.entsToRw? rs).map (.message len)
  | .embedded n len rs => (RwT.entsToRw? rs).map (.embedded n len)
  | .embeddedMerge n len rs => (RwT.entsToRw? rs).map (.embeddedMerge n len)
  | .replacement r => (RwT.toRw? r).map .replacement
  | .bitOr .. => none
def RwT.listToRw? : List RwT → Option (List Rw)
  | [] => some []
  | r :: rs => match RwT.toRw? r, RwT.listToRw? rs with
    | some a, some b => some (a :: b)
    | _, _ => none
def RwT.entsToRw? : List (Nat × RwT) → Option (List (Nat × Rw))
  | [] => some []
  | (i, r) :: rs => match RwT.toRw? r, RwT.entsToRw? rs with
    | some a, some b => some ((i, a) :: b)
    | _, _ => none
end

def ityKind : ITy → IntKind
  | .i8 => .i8 | .i16 => .i16 | .i32 => .i32 | .i64 => .i64 | .int => .int
  | .u8 => .u8 | .u16 => .u16 | .u32 => .u32 | .u64 => .u64 | .uint => .uint

-- go: proto.encodeZigZag32   `(uint32(v) << 1) ^ uint32(v >> 31)`
def encodeZigZag32 (v : BitVec 32) : BitVec 32 := (v <<< 1) ^^^ (v.sshiftRight 31)

-- go: FieldNumber.Uint64 / AppendVarint(nil, f, v)
def fieldVarint (f : Nat) (v : BitVec 64) : Bytes := appendField f 0 (encodeVarint v)
-- go: FieldNumber.Fixed32 / Fixed64 / Bytes
def fieldFixed32 (f : Nat) (v : BitVec 32) : Bytes := appendField f 5 (le32 v)
def fieldFixed64 (f : Nat) (v : BitVec 64) : Bytes := appendField f 1 (le64 v)
def fieldVarlen (f : Nat) (b : Bytes) : Bytes := appendField f 2 b

/-- Go's `int32(v)` seen as an int64 again: truncate to 32 bits and sign-extend -/
def asInt32 (v : BitVec 64) : BitVec 64 := (v.truncate 32).signExtend 64

-- go: bitOrRW[T].Rewrite.  `v` is kept as the 64-bit extension of the T value (sign-extended for signed T, zero-extended
-- for unsigned T); the `|` of two extended values is the extension of the `|` in T.
def bitOrRewrite (t : ITy) (mask : BitVec 64) (kind : PKind) (f : Nat) (inp : Bytes) : Res Bytes :=
  match unmarshal (.int (ityKind t)) inp with                          -- `var v T; Unmarshal(in, &v)`
  | .err e => .err e
  | .panic e => .panic e
  | .ok val =>
    let old : BitVec 64 := match val with | .int i => BitVec.ofInt 64 i | _ => 0#64
    let v := old ||| mask
    match kind with
    | .int32 => .ok (fieldVarint f (asInt32 v))                       -- f.Int32(int32(v))
    | .int64 => .ok (fieldVarint f v)
    | .sint32 => .ok (fieldVarint f ((encodeZigZag32 (v.truncate 32)).zeroExtend 64))
    | .sint64 => .ok (fieldVarint f (encodeZigZag64 v))
    | .uint32 | .uint64 => .ok (fieldVarint f v)                      -- f.Uint64(uint64(v))
    | .fix32 => .ok (fieldFixed32 f (v.truncate 32))
    | .fix64 => .ok (fieldFixed64 f v)
    | .sfix32 => .ok (fieldFixed32 f (encodeZigZag32 (v.truncate 32)))
    | .sfix64 => .ok (fieldFixed64 f (encodeZigZag64 v))
    | _ => .panic "unreachable"

/-- `mergeInput` for `RwT` -/
def mergeInputT (r : RwT) (f t : Nat) (v m : Bytes) : Bytes :=
  match r with
  | .embeddedMerge .. => if t == 2 then mergeOccurrences m.length f v m else v
  | _ => v

def getRwT (rs : List (Nat × RwT)) (i : Nat) : Option RwT := (rs.find? (·.1 == i)).map (·.2)

mutual
/-- `Rewriter.Rewrite` for the trees templates build: `rewrite` of Model/ProtoRewrite.lean plus the `bitOr` leaf -/
def rewriteT : Nat → RwT → Bytes → Res Bytes
  | 0, _, _ => .err "fuel"
  | _ + 1, .raw b, _ => .ok b
  | fuel + 1, .multi rs, inp => rewriteMultiT fuel rs inp
  | fuel + 1, .message len rs, inp =>
    if seenWords len * 64 < len then .panic "indexOutOfRange"
    else (rewriteLoopT fuel len rs inp []).bind fun (out, seen) => (rewriteAbsentT fuel rs seen).bind fun tl => .ok (out ++ tl)
  | fuel + 1, .embedded number len rs, inp =>
    (rewriteT fuel (.message len rs) inp).bind fun body =>
      if body.isEmpty then .ok []
      else .ok (encodeVarint (BitVec.ofNat 64 (number * 8 + 2)) ++ encodeVarint (BitVec.ofNat 64 body.length) ++ body)
  | fuel + 1, .embeddedMerge number len rs, inp =>
    (rewriteT fuel (.message len rs) inp).bind fun body =>
      if body.isEmpty then .ok []
      else .ok (encodeVarint (BitVec.ofNat 64 (number * 8 + 2)) ++ encodeVarint (BitVec.ofNat 64 body.length) ++ body)
  | fuel + 1, .replacement r, _ => rewriteT fuel r []
  | _ + 1, .bitOr t mask kind number, inp => bitOrRewrite t mask kind number inp
def rewriteMultiT : Nat → List RwT → Bytes → Res Bytes
  | 0, _, _ => .err "fuel"
  | _, [], _ => .ok []
  | fuel + 1, r :: rs, inp => (rewriteT fuel r inp).bind fun a => (rewriteMultiT fuel rs inp).bind fun b => .ok (a ++ b)
def rewriteLoopT : Nat → Nat → List (Nat × RwT) → Bytes → List Nat → Res (Bytes × List Nat)
  | 0, _, _, _, _ => .err "fuel"
  | fuel + 1, len, rs, inp, seen =>
    if inp.isEmpty then .ok ([], seen)
    else
      (parseField inp).bind fun (f, t, v, m) =>
        match (if f < len then getRwT rs f else none) with
        | some r =>
          if seen.contains f then rewriteLoopT fuel len rs m seen
          else (rewriteT fuel r (mergeInputT r f t v m)).bind fun a =>
            (rewriteLoopT fuel len rs m (f :: seen)).bind fun (b, s) => .ok (a ++ b, s)
        | none => (rewriteLoopT fuel len rs m seen).bind fun (b, s) => .ok (appendField f t v ++ b, s)
def rewriteAbsentT : Nat → List (Nat × RwT) → List Nat → Res Bytes
  | 0, _, _ => .err "fuel"
  | _, [], _ => .ok []
  | fuel + 1, (i, r) :: rest, seen =>
    if seen.contains i then rewriteAbsentT fuel rest seen
    else (rewriteT fuel r []).bind fun a => (rewriteAbsentT fuel rest seen).bind fun b => .ok (a ++ b)
end

/-! ## decoding the raw members of the template (`json.Unmarshal(j, &v)` for the Go types the parser uses) -/

/-- strconv.ParseFloat(literal, bitSize) as IEEE bits (32 or 64 wide); `none` = it returns an error (ErrRange) -/
abbrev PF := Bytes → Nat → Option Nat

def gvBool : GV → Option Bool
  | .null => some false
  | .bool b => some b
  | _ => none
def gvInt (t : ITy) : GV → Option Int
  | .null => some 0
  | .num lit _ => unmarshalInt t lit
  | _ => none
def gvFloat (pf : PF) (bits : Nat) : GV → Option Nat
  | .null => some 0
  | .num lit _ => pf lit bits
  | _ => none
def gvString : GV → Option Bytes
  | .null => some []
  | .str s => some s
  | _ => none
def GVs.toList : GVs → List GV
  | .nil => []
  | .cons v r => v :: GVs.toList r
/-- `[]json.RawMessage` -/
def gvList : GV → Option (List GV)
  | .null => some []
  | .arr vs => some (GVs.toList vs)
  | _ => none
/-- `map[string]json.RawMessage` -/
def gvObj : GV → Option GMs
  | .null => some .nil
  | .obj ms => some ms
  | _ => none

/-- `v == 0` for a float given by its bits: +0 and -0 -/
def floatIsZero (bits width : Nat) : Bool := bits % 2 ^ (width - 1) == 0

-- go: parseRewriteTemplateBool … parseRewriteTemplateBytes: `nil, err` for a decode error, `nil, nil` for the zero value
def parseLeaf (pf : PF) (k : PKind) (f : Nat) (j : GV) : Res (Option RwT) :=
  let int (t : ITy) (enc : Int → Bytes) : Res (Option RwT) :=
    match gvInt t j with
    | none => .err "json"
    | some v => if v == 0 then .ok none else .ok (some (.raw (enc v)))
  match k with
  | .bool =>
    match gvBool j with
    | none => .err "json"
    | some v => if !v then .ok none else .ok (some (.raw (fieldVarint f 1#64)))
  | .int32 => int .i32 fun v => fieldVarint f (BitVec.ofInt 64 v)
  | .int64 => int .i64 fun v => fieldVarint f (BitVec.ofInt 64 v)
  | .sint32 => int .i32 fun v => fieldVarint f ((encodeZigZag32 (BitVec.ofInt 32 v)).zeroExtend 64)
  | .sint64 => int .i64 fun v => fieldVarint f (encodeZigZag64 (BitVec.ofInt 64 v))
  | .uint32 => int .u32 fun v => fieldVarint f (BitVec.ofInt 64 v)      -- parseRewriteTemplateUint32 (commit 1e0f504; was …Uint64)
  | .uint64 => int .u64 fun v => fieldVarint f (BitVec.ofInt 64 v)
  | .fix32 => int .u32 fun v => fieldFixed32 f (BitVec.ofInt 32 v)
  | .fix64 => int .u64 fun v => fieldFixed64 f (BitVec.ofInt 64 v)
  | .sfix32 => int .i32 fun v => fieldFixed32 f (BitVec.ofInt 32 v)
  | .sfix64 => int .i64 fun v => fieldFixed64 f (BitVec.ofInt 64 v)
  | .float =>
    match gvFloat pf 32 j with
    | none => .err "json"
    | some b => if floatIsZero b 32 then .ok none else .ok (some (.raw (fieldFixed32 f (BitVec.ofNat 32 b))))
  | .double =>
    match gvFloat pf 64 j with
    | none => .err "json"
    | some b => if floatIsZero b 64 then .ok none else .ok (some (.raw (fieldFixed64 f (BitVec.ofNat 64 b))))
  | .string | .bytes =>
    match gvString j with
    | none => .err "json"
    | some s => if s.isEmpty then .ok none else .ok (some (.raw (fieldVarlen f s)))

-- go: proto.MultiRewriter
def multiOfT : List RwT → RwT
  | [r] => r
  | rs => .multi rs

/-- `message[f.Number] = …` on the table kept as its non-nil entries in ascending index order (an entry already there —
from a template key that sorts later — is kept; two keys never name the same field of a legal type) -/
def insertEnt (i : Nat) (r : RwT) : List (Nat × RwT) → List (Nat × RwT)
  | [] => [(i, r)]
  | (j, q) :: rest => if i < j then (i, r) :: (j, q) :: rest else if i == j then (j, q) :: rest else (j, q) :: insertEnt i r rest

/-- `len(message)` at the end: every assignment grows the table to `f.Number+1` -/
def tableLen (ents : List (Nat × RwT)) : Nat := ents.foldl (fun m p => max m (p.1 + 1)) 0

def isIntKind : PKind → Bool
  | .int32 | .int64 | .sint32 | .sint64 | .uint32 | .uint64 | .fix32 | .fix64 | .sfix32 | .sfix64 => true
  | _ => false

def defaultDyn : DynFlags := { useNumber := false, useBigInt := false, useInt64 := false, useUint64 := false }

def keyName : Bytes := [0x6b, 0x65, 0x79]            -- "key"
def valueName : Bytes := [0x76, 0x61, 0x6c, 0x75, 0x65] -- "value"

mutual
-- go: proto.parseRewriteTemplate   (`none` = a nil Rewriter)
def parseOne (pf : PF) : Nat → TType → Nat → GV → Option Rule → Res (Option RwT)
  | 0, _, _, _, _ => .err "fuel"
  | fuel + 1, t, f, j, rule =>
    match rule with
    | some (.bitOr T) =>                                            -- BitOr[T].Rewriter, then BitOrRewriter
      match gvInt T j with
      | none => .err "json"
      | some v =>
        match t with
        | .prim k => if isIntKind k then .ok (some (.bitOr T (BitVec.ofInt 64 v) k f)) else .err "cannotConstruct"
        | _ => .err "cannotConstruct"
    | _ =>
      match t with
      | .prim k => parseLeaf pf k f j
      | .map kt vt => (parseMap pf fuel kt vt f j).bind fun r => .ok (some r)
      | .msg fs =>
        let sub : List Rules := match rule with | some (.sub rs) => [rs] | _ => []
        (parseStruct pf fuel fs f j sub).bind fun r => .ok (some r)
-- go: proto.parseRewriteTemplateStruct
def parseStruct (pf : PF) : Nat → TFields → Nat → GV → List Rules → Res RwT
  | 0, _, _, _, _ => .err "fuel"
  | fuel + 1, fs, f, j, rules =>
    match gvObj j with
    | none => .err "json"
    | some ms =>
      (parseMembers pf fuel fs ms rules).bind fun ents =>
        if f != 0 then .ok (.embedded f (tableLen ents) ents) else .ok (.message (tableLen ents) ents)
/-- `for k, v := range template` of parseRewriteTemplateStruct -/
def parseMembers (pf : PF) : Nat → TFields → GMs → List Rules → Res (List (Nat × RwT))
  | 0, _, _, _ => .err "fuel"
  | _ + 1, _, .nil, _ => .ok []
  | fuel + 1, fs, .cons k v rest, rules =>
    match lookupFieldByName fs k with
    | none => .err "invalidFieldName"
    | some (number, rep, t) =>
      match (if rep then gvList v else some [v]) with
      | none => .err "json"
      | some fields =>
        let rule := findRule rules k
        (parseElems pf fuel t number rep fields rule).bind fun rws =>
          let m := multiOfT rws
          let isMap := match t with | .map _ _ => true | _ => false
          let m := if rule.isNone && (rep || isMap) then RwT.replacement m else m
          (parseMembers pf fuel fs rest rules).bind fun ents => .ok (insertEnt number m ents)
/-- `for _, v := range fields` of parseRewriteTemplateStruct: nil rewriters are dropped, a `*embddedRewriter` of a
non-repeated field gets `merge = true` -/
def parseElems (pf : PF) : Nat → TType → Nat → Bool → List GV → Option Rule → Res (List RwT)
  | 0, _, _, _, _, _ => .err "fuel"
  | _ + 1, _, _, _, [], _ => .ok []
  | fuel + 1, t, number, rep, v :: vs, rule =>
    (parseOne pf fuel t number v rule).bind fun rw =>
      (parseElems pf fuel t number rep vs rule).bind fun rest =>
        match rw with
        | none => .ok rest
        | some (.embedded n len es) => if !rep then .ok (.embeddedMerge n len es :: rest) else .ok (.embedded n len es :: rest)
        | some r => .ok (r :: rest)
-- go: proto.parseRewriteTemplateMap
def parseMap (pf : PF) : Nat → TType → TType → Nat → GV → Res RwT
  | 0, _, _, _, _ => .err "fuel"
  | fuel + 1, kt, vt, f, j =>
    match gvObj j with
    | none => .err "json"
    | some ms => (parseEntries pf fuel kt vt f ms).bind fun rws => .ok (multiOfT rws)
/-- the two loops of parseRewriteTemplateMap fused: entry `{"key": k, "value": v}` against the synthetic two-field
message type. A string key is re-quoted (`json.Marshal(key)`) and decodes back to itself; any other key text is used as
raw JSON (`json.RawMessage(key)`), which `json.Marshal` validates. -/
def parseEntries (pf : PF) : Nat → TType → TType → Nat → GMs → Res (List RwT)
  | 0, _, _, _, _ => .err "fuel"
  | _ + 1, _, _, _, .nil => .ok []
  | fuel + 1, kt, vt, f, .cons key value rest =>
    let k : Option GV :=
      match kt with
      | .prim .string => some (.str key)
      | _ => match unmarshalAny defaultDyn key with | .ok v => some v | _ => none
    match k with
    | none => .err "marshal"
    | some kgv =>
      let st : TFields := .cons keyName 1 false kt (.cons valueName 2 false vt .nil)
      let entry : GV := .obj (.cons keyName kgv (.cons valueName value .nil))
      (parseStruct pf fuel st f entry []).bind fun r =>
        (parseEntries pf fuel kt vt f rest).bind fun rs => .ok (r :: rs)
end

-- go: proto.ParseRewriteTemplate   (the template already decoded to a generic value)
def parseTemplate (pf : PF) (fuel : Nat) (t : TType) (j : GV) (rules : List Rules) : Res RwT :=
  match t with
  | .msg fs => parseStruct pf fuel fs 0 j rules
  | _ => .err "nonStruct"

mutual
def GV.size : GV → Nat
  | .arr vs => 1 + GVs.size vs
  | .obj ms => 1 + GMs.size ms
  | _ => 1
def GVs.size : GVs → Nat
  | .nil => 0
  | .cons v r => GV.size v + GVs.size r + 1
def GMs.size : GMs → Nat
  | .nil => 0
  | .cons _ v r => GV.size v + GMs.size r + 1
end

/-- enough fuel for `parseTemplate` on the template `j` -/
def templateFuel (j : GV) : Nat := 8 * GV.size j + 16

/-- `ParseRewriteTemplate(typ, jsonTemplate, rules...)` on the template text -/
def parseTemplateBytes (pf : PF) (t : TType) (doc : Bytes) (rules : List Rules) : Res RwT :=
  match unmarshalAny defaultDyn doc with
  | .ok j => parseTemplate pf (templateFuel j) t j rules
  | _ => .err "json"

end Enc.Model.Proto
