import Enc.Model.Proto
/-!
Model of the wire-level API of /repo/proto (message.go, with what it calls in decode.go / encode.go):
`Parse`, `Scan`, the `RawValue` accessors, `DecodeTag` / `EncodeTag`, `WireType.String`, `Append*`, `FieldNumber.*`.

The functions mirror the Go code AS WRITTEN. Go's `int` is the 64-bit two's-complement `int64` of the platform the
library is verified on: every `int` expression goes through `wrapInt` (wrap-around), every `uint64(·)` / `int(·)`
conversion through `u64OfInt` / `intOfU64`, and every slice expression `m[lo:hi]` through `goSlice`, which faults
(`.panic "sliceBounds"`) exactly when Go's run-time check `0 ≤ lo ≤ hi ≤ len(m)` fails (the slices handed to these
functions are treated as having `cap = len`, the stricter reading).

Outcomes: `.ok` = the Go function returned with a nil error, `.err cls` = it returned a non-nil error of class `cls`,
`.panic cls` = a run-time fault.
-/
namespace Enc.Model.ProtoScan
open Enc Enc.Model.Proto

/-! ## Go integer and slice primitives -/

/-- a mathematical integer reduced to Go's `int` (int64, wrap-around) -/
def wrapInt (x : Int) : Int := (BitVec.ofInt 64 x).toInt
/-- `uint64(x)` for an `int` x -/
def u64OfInt (x : Int) : BitVec 64 := BitVec.ofInt 64 x
/-- `int(l)` for a `uint64` l (reinterpretation: values ≥ 2^63 become negative) -/
def intOfU64 (l : BitVec 64) : Int := l.toInt

/-- Go slice expression `m[lo:hi]` -/
def goSlice (m : Bytes) (lo hi : Int) : Res Bytes :=
  if 0 ≤ lo ∧ lo ≤ hi ∧ hi ≤ (m.length : Int) then .ok ((m.drop lo.toNat).take (hi.toNat - lo.toNat))
  else .panic "sliceBounds"

/-! ## tags and wire types -/

-- go: proto.DecodeTag   `FieldNumber(tag >> 3), WireType(tag & 7)`
def decodeTag (tag : BitVec 64) : Nat × Nat := ((tag >>> 3).toNat, (tag &&& 7#64).toNat)

-- go: proto.EncodeTag   `uint64(f)<<3 | uint64(t)`  (f, t are 64-bit `uint`s: the three top bits of f are lost)
def encodeTagWord (f t : BitVec 64) : BitVec 64 := (f <<< 3) ||| t

-- go: proto.wireType.String / proto.WireType.String
def wireTypeString (t : Nat) : String :=
  if t == Gen.c_proto_varint then "varint"
  else if t == Gen.c_proto_varlen then "varlen"
  else if t == Gen.c_proto_fixed32 then "fixed32"
  else if t == Gen.c_proto_fixed64 then "fixed64"
  else "unknown"

/-- the wire types `Parse` has a case for -/
def validWireType (t : Nat) : Bool :=
  t == Gen.c_proto_Varint || t == Gen.c_proto_Varlen || t == Gen.c_proto_Fixed32 || t == Gen.c_proto_Fixed64

/-! ## Parse -/

/-- the five results of `Parse`: field number, wire type, value (`none` = nil RawValue), remaining message, error -/
structure Parsed where
  f : Nat
  t : Nat
  v : Option Bytes
  m : Bytes
  err : Option String
  deriving Repr, DecidableEq

-- go: proto.Parse — the `switch t` after the tag has been read (`m` is the message after the tag)
def parseBody (f t : Nat) (m : Bytes) : Res Parsed :=
  if t == Gen.c_proto_Varint then
    match decodeVarint m with
    | .panic e => .panic e
    | .err e => .ok ⟨f, t, none, m, some e⟩
    | .ok (_, n) =>
      if (m.length : Int) < n then .ok ⟨f, t, none, m, some "unexpectedEof"⟩
      else
        (goSlice m 0 n).bind fun v =>                                      -- m[:n]
        (goSlice m n m.length).bind fun rest =>                            -- m[n:]
        .ok ⟨f, t, some v, rest, none⟩
  else if t == Gen.c_proto_Varlen then
    match decodeVarint m with
    | .panic e => .panic e
    | .err e => .ok ⟨f, t, none, m, some e⟩
    | .ok (l, n) =>
      -- `uint64(len(m)-n) < l`
      if u64OfInt (wrapInt ((m.length : Int) - n)) < l then .ok ⟨f, t, none, m, some "unexpectedEof"⟩
      else
        let hi := wrapInt ((n : Int) + intOfU64 l)                         -- n+int(l)
        (goSlice m n hi).bind fun v =>                                     -- m[n : n+int(l)]
        (goSlice m hi m.length).bind fun rest =>                           -- m[n+int(l):]
        .ok ⟨f, t, some v, rest, none⟩
  else if t == Gen.c_proto_Fixed32 then
    if m.length < 4 then .ok ⟨f, t, none, m, some "unexpectedEof"⟩
    else (goSlice m 0 4).bind fun v => (goSlice m 4 m.length).bind fun rest => .ok ⟨f, t, some v, rest, none⟩
  else if t == Gen.c_proto_Fixed64 then
    if m.length < 8 then .ok ⟨f, t, none, m, some "unexpectedEof"⟩
    else (goSlice m 0 8).bind fun v => (goSlice m 8 m.length).bind fun rest => .ok ⟨f, t, some v, rest, none⟩
  else .ok ⟨f, t, none, m, some "invalidWireType"⟩

-- go: proto.Parse  (all five results; `.panic` only for a run-time fault)
def parseX (m0 : Bytes) : Res Parsed :=
  match decodeVarint m0 with
  | .panic e => .panic e
  | .err e => .ok ⟨0, 0, none, m0, some e⟩                                  -- "decoding protobuf field number"
  | .ok (tag, n) =>
    (goSlice m0 n m0.length).bind fun m =>                                   -- m = m[n:]
    parseBody (decodeTag tag).1 (decodeTag tag).2 m                          -- f, t := DecodeTag(tag); switch t

/-- one parsed field: number, wire type, value, remaining message -/
abbrev Field := Nat × Nat × Bytes × Bytes

/-- `Parse` as callers use it: the four values when `err == nil`, the error class otherwise -/
def parse (m : Bytes) : Res Field :=
  match parseX m with
  | .panic e => .panic e
  | .err e => .err e
  | .ok p =>
    match p.err with
    | some e => .err e
    | none => .ok (p.f, p.t, p.v.getD [], p.m)

/-! ## Scan -/

/-- a Scan callback over a state `σ` (what the Go closure captures): returns the new state, `ok`, `err` -/
abbrev Callback (σ : Type) := σ → Nat → Nat → Bytes → σ × Bool × Option String

-- go: proto.Scan   (`fuel` bounds the `for len(b) != 0` loop; `scan` supplies enough: see `scan_ne_fuel`)
def scanLoop {σ : Type} (fn : Callback σ) : Nat → Bytes → σ → σ × Res Unit
  | 0, _, s => (s, .err "fuel")
  | fuel + 1, b, s =>
    if b.length == 0 then (s, .ok ())
    else
      match parse b with
      | .panic e => (s, .panic e)
      | .err e => (s, .err e)
      | .ok (f, t, v, m) =>
        let (s', ok, err) := fn s f t v
        if !ok then
          match err with
          | some e => (s', .err e)
          | none => (s', .ok ())
        else scanLoop fn fuel m s'

def scan {σ : Type} (b : Bytes) (fn : Callback σ) (s : σ) : σ × Res Unit := scanLoop fn (b.length + 1) b s

/-- the callback that records every field and never stops -/
def collect : Callback (List (Nat × Nat × Bytes)) := fun acc f t v => (acc ++ [(f, t, v)], true, none)

/-- the fields enumerated by `Scan` with a callback that always continues, and Scan's result -/
def scanList (b : Bytes) : List (Nat × Nat × Bytes) × Res Unit := scan b collect []

/-- the same enumeration by a loop over `Parse` (`for len(b) != 0 { f, t, v, b, err = Parse(b) … }`) -/
def parseList : Nat → Bytes → List (Nat × Nat × Bytes) × Res Unit
  | 0, _ => ([], .err "fuel")
  | fuel + 1, b =>
    if b.length == 0 then ([], .ok ())
    else
      match parse b with
      | .panic e => ([], .panic e)
      | .err e => ([], .err e)
      | .ok (f, t, v, m) =>
        let (tl, r) := parseList fuel m
        ((f, t, v) :: tl, r)

/-! ## RawValue accessors -/

/-- what `decodeVarint` returns as its first result when it fails with `io.ErrUnexpectedEOF`: the bits gathered so far -/
def varintPartial : Bytes → BitVec 64 → Nat → BitVec 64
  | [], x, _ => x
  | c :: cs, x, s => varintPartial cs (x ||| (((c.toBitVec &&& 0x7f#8).zeroExtend 64) <<< s)) (s + 7)

-- go: proto.RawValue.Varint   `u, _, _ := decodeVarint(v); return u`
def rawVarint (v : Bytes) : BitVec 64 :=
  match decodeVarint v with
  | .ok (u, _) => u
  | .err "unexpectedEof" => varintPartial v 0#64 0
  | _ => 0#64                                                                -- errVarintOverflow: `return 0, i, err`

-- go: proto.RawValue.Fixed32   `binary.LittleEndian.Uint32(v)` (index out of range on fewer than 4 bytes)
def rawFixed32 (v : Bytes) : Res (BitVec 32) :=
  match unLE32 v with
  | some x => .ok x
  | none => .panic "indexOutOfRange"

-- go: proto.RawValue.Fixed64
def rawFixed64 (v : Bytes) : Res (BitVec 64) :=
  match unLE64 v with
  | some x => .ok x
  | none => .panic "indexOutOfRange"

/-! ## Append / FieldNumber constructors -/

-- go: proto.Append  (f, t: 64-bit `uint`s; `encodeVarint` on a 20-byte scratch buffer cannot fail)
def append (m : Bytes) (f t : BitVec 64) (v : Bytes) : Bytes :=
  m ++ encodeVarint (encodeTagWord f t)
    ++ (if t.toNat == Gen.c_proto_Varlen then encodeVarint (BitVec.ofNat 64 v.length) else []) ++ v

-- go: proto.AppendVarint / AppendVarlen / AppendFixed32 / AppendFixed64
def appendVarint (m : Bytes) (f : BitVec 64) (v : BitVec 64) : Bytes :=
  append m f (BitVec.ofNat 64 Gen.c_proto_Varint) (encodeVarint v)
def appendVarlen (m : Bytes) (f : BitVec 64) (v : Bytes) : Bytes := append m f (BitVec.ofNat 64 Gen.c_proto_Varlen) v
def appendFixed32 (m : Bytes) (f : BitVec 64) (v : BitVec 32) : Bytes :=
  append m f (BitVec.ofNat 64 Gen.c_proto_Fixed32) (le32 v)
def appendFixed64 (m : Bytes) (f : BitVec 64) (v : BitVec 64) : Bytes :=
  append m f (BitVec.ofNat 64 Gen.c_proto_Fixed64) (le64 v)

-- go: proto.FieldNumber.Bool / Int64 (Int, Int32) / Uint64 (Uint, Uint32) / Fixed32 (Float32) / Fixed64 (Float64) / Bytes (String)
def fnBool (f : BitVec 64) (v : Bool) : Bytes := appendVarint [] f (if v then 1#64 else 0#64)
def fnInt64 (f : BitVec 64) (v : Int) : Bytes := appendVarint [] f (BitVec.ofInt 64 v)
def fnUint64 (f : BitVec 64) (v : BitVec 64) : Bytes := appendVarint [] f v
def fnFixed32 (f : BitVec 64) (v : BitVec 32) : Bytes := appendFixed32 [] f v
def fnFixed64 (f : BitVec 64) (v : BitVec 64) : Bytes := appendFixed64 [] f v
def fnBytes (f : BitVec 64) (v : Bytes) : Bytes := appendVarlen [] f v

end Enc.Model.ProtoScan
