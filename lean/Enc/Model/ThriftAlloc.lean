import Enc.Model.Thrift
import Enc.Base.Layout
/-!
Allocation accounting for the decoders of /repo/thrift that allocate FROM A NUMBER READ OFF THE WIRE, before the bytes that
number announces have been seen (known finding `thrift-wire-size-alloc`, C08):

  * `binaryReader.ReadBytes` / `compactReader.ReadBytes`   `b := make([]byte, n)` then `io.ReadFull` — `n` = ReadLength ≤ 2^31−1
  * `decodeFuncSliceOf`     `v.Set(reflect.MakeSlice(t, int(l.Size), int(l.Size)))` before the first element is decoded
  * `decodeFuncMapOf`       `v.Set(reflect.MakeMapWithSize(mapType, int(m.Size)))` before the emptiness / type checks
  * `decodeFuncMapAsSetOf`  `v.Set(reflect.MakeMapWithSize(t, int(s.Size)))` likewise
  * `decodeFuncPtrOf`, the struct decoder  `reflect.New(elem)` behind a nil pointer; `reflect.New(key)`, `reflect.New(elem)` scratch

`allocD p strict d fuel t b cur` = the bytes these sites request while `decode p strict d fuel t b cur` (Enc/Model/Thrift.lean)
runs, on success and on every error path. It follows the control flow of `decode` and calls `decode` itself for the
continuation (the bytes left after an element), so the value / error side is the existing model by construction:
`unmarshalA = (unmarshal, alloc)`. Not counted: error values, the `seen` bitmap, runtime map buckets beyond keys + elements
(`mapHint` = the bucket array of `MakeMapWithSize`; later growth is not counted), size-class rounding — the statement proved about this count is a
LOWER bound on what the code reserves (`Props.C08.thrift_alloc_unbounded`).
-/
namespace Enc.Model.Thrift
open Enc

/-- go1.23 `runtime.makemap`: the `B` a hint of `n` entries selects (`overLoadFactor`: `n > 8 && n > 6.5·2^B`) -/
def mapB (n : Nat) : Nat → Nat → Nat
  | 0, bb => bb
  | fuel + 1, bb => if n > 8 ∧ 2 * n > 13 * 2 ^ bb then mapB n fuel (bb + 1) else bb
/-- keys and elements larger than 128 bytes are stored indirectly -/
def mapSlot (sz : Nat) : Nat := if sz > 128 then 8 else sz
/-- `reflect.MakeMapWithSize(t, n)`: the bucket array `makeBucketArray` allocates at creation — `2^B` buckets (plus `2^(B-4)`
overflow buckets when `B ≥ 4`) of 8 tophash bytes, 8 keys, 8 elements and the overflow pointer; nothing when `B = 0`.
(TODO extractor: none — constants of the Go runtime, go1.23 `runtime/map.go`.) -/
def mapHint (n ksz vsz : Nat) : Nat :=
  let bb := mapB n 40 0
  48 + (if bb == 0 then 0                                              -- the header `hmap`; `B = 0`: the bucket comes with the first insert
        else (2 ^ bb + (if bb ≥ 4 then 2 ^ (bb - 4) else 0)) * (16 + 8 * (mapSlot ksz + mapSlot vsz)))
/-- the single bucket a map created with `B = 0` allocates on its first `SetMapIndex` -/
def mapFirst (n ksz vsz : Nat) : Nat :=
  if mapB n 40 0 == 0 then 16 + 8 * (mapSlot ksz + mapSlot vsz) else 0

/-- pointees allocated to reach the scalar behind a (chain of) nil pointer(s) -/
def ptrAlloc : Ty → Val → Nat
  | .ptr t, .ptr v => ptrAlloc t v
  | .ptr t, _ => sizeOfTy t + ptrAlloc t .nil
  | .named _ t, v => ptrAlloc t v
  | _, _ => 0

mutual
-- go: decodeFuncOf — the bytes requested by the allocation sites listed above
def allocD (p : Proto) (strict : Bool) (d : Nat) : Nat → Ty → Bytes → Val → Nat
  | 0, _, _, _ => 0
  | fuel + 1, t, b, cur =>
    match t with
    -- go: ReadBytes `n, err := r.ReadLength(); …; b := make([]byte, n)` — before `io.ReadFull`
    | .str => (match rLength p b with | .ok (n, _) => n | _ => 0)
    | .bytes | .slice (.int .u8) => (match rLength p b with | .ok (n, _) => n | _ => 0)
    | .slice et =>
      match rList p b with
      | .ok ((lt, n), r) =>
        let lt := if lt == .true_ then TType.bool else lt
        if typeOf et != lt then 0                                  -- skipValues: nothing is stored
        else if tooDeep d then 0
        -- go: decodeFuncSliceOf `v.Set(reflect.MakeSlice(t, int(l.Size), int(l.Size)))`
        else n * sizeOfTy et + allocList p strict (d + 1) fuel et n r
      | _ => 0
    | .map kt vt =>
      if isEmptyStruct vt then
        match rList p b with
        | .ok ((st, n), r) =>
          let st := if st == .true_ then TType.bool else st
          -- go: decodeFuncMapAsSetOf `v.Set(reflect.MakeMapWithSize(t, int(s.Size)))` — before `s.Size == 0` and the type check
          let a0 := mapHint n (sizeOfTy kt) 0
          if n == 0 then a0
          else if typeOf kt != st then a0
          else if tooDeep d then a0
          else a0 + mapFirst n (sizeOfTy kt) 0 + sizeOfTy kt + allocSet p strict (d + 1) fuel kt n r   -- `tmp := reflect.New(key).Elem()`
        | _ => 0
      else
        match rMap p b with
        | .ok ((k, v, n), r) =>
          let k := if k == .true_ then TType.bool else k
          let v := if v == .true_ then TType.bool else v
          -- go: decodeFuncMapOf `v.Set(reflect.MakeMapWithSize(mapType, int(m.Size)))` — before `m.Size == 0` and the type checks
          let a0 := mapHint n (sizeOfTy kt) (sizeOfTy vt)
          if n == 0 then a0
          else if typeOf kt != k then a0
          else if typeOf vt != v then a0
          else if tooDeep d then a0
          else a0 + mapFirst n (sizeOfTy kt) (sizeOfTy vt) + sizeOfTy kt + sizeOfTy vt + allocMap p strict (d + 1) fuel kt vt n r   -- tmpKey, tmpElem
        | _ => 0
    | .struct fs =>
      if tooDeep d then 0
      else
        match cur with
        | .struct vs => allocStruct p strict (d + 1) fuel (fieldDescs fs) b vs 0 0
        | _ => 0
    | .ptr et =>
      -- go: decodeFuncPtrOf `if v.IsNil() { v.Set(reflect.New(elem)) }`
      (match cur with | .ptr _ => 0 | _ => sizeOfTy et)
        + allocD p strict d fuel et b (match cur with | .ptr v => v | _ => zeroOf et)
    | .named _ t' => allocD p strict d fuel t' b cur
    | _ => 0
def allocList (p : Proto) (strict : Bool) (d : Nat) : Nat → Ty → Nat → Bytes → Nat
  | 0, _, _, _ => 0
  | _, _, 0, _ => 0
  | fuel + 1, et, n + 1, b =>
    allocD p strict d fuel et b (zeroOf et)
      + (match decode p strict d fuel et b (zeroOf et) with
         | .ok (_, r) => allocList p strict d fuel et n r
         | _ => 0)
def allocSet (p : Proto) (strict : Bool) (d : Nat) : Nat → Ty → Nat → Bytes → Nat
  | 0, _, _, _ => 0
  | _, _, 0, _ => 0
  | fuel + 1, kt, n + 1, b =>
    allocD p strict d fuel kt b (zeroOf kt)
      + (match decode p strict d fuel kt b (zeroOf kt) with
         | .ok (_, r) => allocSet p strict d fuel kt n r
         | _ => 0)
def allocMap (p : Proto) (strict : Bool) (d : Nat) : Nat → Ty → Ty → Nat → Bytes → Nat
  | 0, _, _, _, _ => 0
  | _, _, _, 0, _ => 0
  | fuel + 1, kt, vt, n + 1, b =>
    allocD p strict d fuel kt b (zeroOf kt)
      + (match decode p strict d fuel kt b (zeroOf kt) with
         | .ok (_, r) =>
           allocD p strict d fuel vt r (zeroOf vt)
             + (match decode p strict d fuel vt r (zeroOf vt) with
                | .ok (_, r) => allocMap p strict d fuel kt vt n r
                | _ => 0)
         | _ => 0)
-- go: structDecoder.decode via readStruct, same control flow as `decodeStruct`
def allocStruct (p : Proto) (strict : Bool) (d : Nat) : Nat → List FieldDesc → Bytes → Vals → Int → Nat → Nat
  | 0, _, _, _, _, _ => 0
  | fuel + 1, descs, b, vs, last, num =>
    match rField p b with
    | .ok (h, r) =>
      if h.t == .stop then 0
      else
        let id := wrap16 (if h.delta then h.id + last else h.id)
        let sk : R Unit :=
          if (h.t == .true_ || h.t == .bool) && p.coalesce then .ok ((), r) else skip p d fuel h.t r
        -- skipField: nothing is stored (a function: evaluated only on the paths that skip)
        let skipped : Unit → Nat := fun _ =>
          match dontExpectEOF sk with
          | .ok (_, r) => allocStruct p strict d fuel descs r vs id (num + 1)
          | _ => 0
        match findById descs id with
        | none => skipped ()
        | some fd =>
          let ft := typeOf fd.ty
          if h.t != ft && !(h.t == .true_ && ft == .bool) then
            (if strict then 0 else skipped ())
          else if p.coalesce && (h.t == .true_ || h.t == .bool) then
            -- `for x.Kind() == reflect.Ptr { if x.IsNil() { x.Set(reflect.New(x.Type().Elem())) }; x = x.Elem() }`
            ptrAlloc fd.ty (Vals.get vs fd.pos)
              + allocStruct p strict d fuel descs r (Vals.set vs fd.pos (wrapPtr fd.ty (.bool (h.t == .true_)))) id (num + 1)
          else
            let isEnumInt : Bool := fd.enum && (match baseOf fd.ty with | .int _ => true | _ => false)
            let a : Nat :=
              if isEnumInt then ptrAlloc fd.ty (Vals.get vs fd.pos)
              else allocD p strict d fuel fd.ty r (Vals.get vs fd.pos)
            let res : R Val :=
              if fd.enum then
                (match baseOf fd.ty with
                 | .int k => (rI32 p r).bind fun (x, r) => .ok (wrapPtr fd.ty (.int (wrapTo k.bits x)), r)
                 | _ => decode p strict d fuel fd.ty r (Vals.get vs fd.pos))
              else decode p strict d fuel fd.ty r (Vals.get vs fd.pos)
            a + (match dontExpectEOF res with
                 | .ok (v, r) => allocStruct p strict d fuel descs r (Vals.set vs fd.pos v) id (num + 1)
                 | _ => 0)
    | _ => 0
end

-- go: thrift.Unmarshal, with the bytes its wire-sized allocation sites request: (result of `unmarshal`, bytes)
def unmarshalA (p : Proto) (strict : Bool) (t : Ty) (b : Bytes) : Res Val × Nat :=
  (unmarshal p strict t b, allocD p strict 0 (4 * b.length + 64 + depth t) t b (zeroOf t))

end Enc.Model.Thrift
