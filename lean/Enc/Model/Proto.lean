import Enc.Base.Univ
import Enc.Gen.Consts
/-!
Model of /repo/proto — the codec tree exactly as `codecOf` builds it, interpreted over `Ty`/`Val`.
The model describes the code AS IT IS (defects included: slice elements lose the zigzag flag, field numbers
are truncated to uint16, …).

The `inline` flag is modelled only where it changes behaviour (a nil map reached with `inline` writes nothing,
without it the empty-map marker). Not modelled: recursive types (the `seen` map), unsafe layout. Those are exercised by the harness only
(the nesting limit on a recursive type: unrolled in `Enc/Driver/Proto.lean` (`proto.deep`) and `Enc/Lemmas/ProtoDeepChain.lean`).
-/
namespace Enc.Model.Proto
open Enc

/-! ## wire primitives -/

-- go: proto.sizeOfVarint  `(bits.Len64(v|1) + 6) / 7`
def sizeOfVarint (v : BitVec 64) : Nat := ((64 - (v ||| 1#64).clz.toNat) + 6) / 7

/-- byte `i` of the varint of `v` with `n` bytes in total (the 10-case switch of `encodeVarint`) -/
def varintByte (v : BitVec 64) (n i : Nat) : UInt8 :=
  let b : BitVec 8 := (v >>> (7 * i)).truncate 8
  if i + 1 < n then ⟨b ||| 0x80#8⟩ else ⟨b⟩

-- go: proto.encodeVarint
def encodeVarint (v : BitVec 64) : Bytes :=
  let n := sizeOfVarint v
  (List.range n).map (varintByte v n)

-- go: proto.decodeVarint (the loop; the 1-byte fast path is the i = 0 case of the same rule)
def decodeVarintLoop : Bytes → (x : BitVec 64) → (s i : Nat) → Res (BitVec 64 × Nat)
  | [], _, _, _ => .err "unexpectedEof"
  | c :: cs, x, s, i =>
    if c < 0x80 then
      if i > 9 ∨ (i = 9 ∧ c > 1) then .err "varintOverflow"
      else .ok (x ||| ((c.toBitVec.zeroExtend 64) <<< s), i + 1)
    else decodeVarintLoop cs (x ||| (((c.toBitVec &&& 0x7f#8).zeroExtend 64) <<< s)) (s + 7) (i + 1)

def decodeVarint (b : Bytes) : Res (BitVec 64 × Nat) := decodeVarintLoop b 0#64 0 0

-- go: proto.encodeZigZag64 / decodeZigZag64
def encodeZigZag64 (v : BitVec 64) : BitVec 64 := (v <<< 1) ^^^ (v.sshiftRight 63)
def decodeZigZag64 (v : BitVec 64) : BitVec 64 := (v >>> 1) ^^^ (-(v &&& 1#64))

def le32 (v : BitVec 32) : Bytes :=
  [⟨v.truncate 8⟩, ⟨(v >>> 8).truncate 8⟩, ⟨(v >>> 16).truncate 8⟩, ⟨(v >>> 24).truncate 8⟩]
def le64 (v : BitVec 64) : Bytes :=
  [⟨v.truncate 8⟩, ⟨(v >>> 8).truncate 8⟩, ⟨(v >>> 16).truncate 8⟩, ⟨(v >>> 24).truncate 8⟩,
   ⟨(v >>> 32).truncate 8⟩, ⟨(v >>> 40).truncate 8⟩, ⟨(v >>> 48).truncate 8⟩, ⟨(v >>> 56).truncate 8⟩]

def unLE32 : Bytes → Option (BitVec 32)
  | a :: b :: c :: d :: _ => some (d.toBitVec ++ c.toBitVec ++ b.toBitVec ++ a.toBitVec)
  | _ => none
def unLE64 : Bytes → Option (BitVec 64)
  | a :: b :: c :: d :: e :: f :: g :: h :: _ =>
    some (h.toBitVec ++ g.toBitVec ++ f.toBitVec ++ e.toBitVec ++ d.toBitVec ++ c.toBitVec ++ b.toBitVec ++ a.toBitVec)
  | _ => none

inductive Wire where
  | varint | fixed64 | varlen | fixed32
  deriving DecidableEq, Repr

def Wire.num : Wire → Nat
  | .varint => Gen.c_proto_varint | .fixed64 => Gen.c_proto_fixed64
  | .varlen => Gen.c_proto_varlen | .fixed32 => Gen.c_proto_fixed32

def tagWord (number : Nat) (w : Wire) : BitVec 64 := BitVec.ofNat 64 (number * 8 + w.num)
def sizeOfTag (number : Nat) (w : Wire) : Nat := sizeOfVarint (tagWord number w)
def encodeTag (number : Nat) (w : Wire) : Bytes := encodeVarint (tagWord number w)
def sizeOfVarlen (n : Nat) : Nat := sizeOfVarint (BitVec.ofNat 64 n) + n

/-! ## struct tags -/

structure StructTag where
  wire : Wire := .varint
  number : Int := 0
  repeated : Bool := false
  zigzag : Bool := false

-- go: proto.parseStructTag   (none = returned an error ⇒ the caller ignores the tag completely)
def parseStructTag (tag : String) : Option StructTag :=
  let fs := tag.splitOn ","
  let rec go (i : Nat) (fs : List String) (t : StructTag) : Option StructTag :=
    match fs with
    | [] => some t
    | f :: rest =>
      match i with
      | 0 =>
        match f with
        | "varint" => go 1 rest { t with wire := .varint }
        | "bytes" => go 1 rest { t with wire := .varlen }
        | "fixed32" => go 1 rest { t with wire := .fixed32 }
        | "fixed64" => go 1 rest { t with wire := .fixed64 }
        | "zigzag32" => go 1 rest { t with wire := .varint, zigzag := true }
        | "zigzag64" => go 1 rest { t with wire := .varint, zigzag := true }
        | _ => none
      | 1 =>
        match f.toInt? with
        | some n => go 2 rest { t with number := n }
        | none => none
      | 2 =>
        match f with
        | "opt" => go 3 rest t
        | "req" => go 3 rest t
        | "rep" => go 3 rest { t with repeated := true }
        | _ => none
      | _ => some t      -- name=, json=, proto3 …: never an error
  go 0 fs {}

/-- value of the `protobuf:"…"` key of a Go struct tag (`reflect.StructTag.Lookup`), conventional form only -/
def lookupProtobuf (tag : String) : Option String :=
  match tag.splitOn "protobuf:\"" with
  | _ :: after :: _ => some ((after.splitOn "\"").headD "")
  | _ => none

/-! ## codec tree -/

mutual
inductive Codec where
  | bool | int | int32 | int64 | uint | uint32 | uint64 | fixed32 | fixed64 | sfixed32 | sfixed64 | float32 | float64
  | string | bytes
  | byteArray (n : Nat)
  | message                                   -- a type implementing proto.Message (RawMessage in the corpus)
  | ptr (c : Codec)
  | struct (fs : CFields)
  | slice (elem : Codec) (number : Nat) (wire : Wire) (embedded : Bool)
  | map (number : Nat) (k v : Codec) (kEmb vEmb : Bool) (entry : Codec)
  | unsupported
inductive CFields where
  | nil
  | cons (number : Nat) (embedded repeated zigzag : Bool) (c : Codec) (rest : CFields)
end

mutual
/-- nesting height of a codec tree = number of `decode`/`decodeStruct` frames needed on empty input
(used only to size the fuel of `unmarshal`; Go has no such bound) -/
def Codec.height : Codec → Nat
  | .ptr c => Codec.height c + 1
  | .struct fs => CFields.height fs + 2
  | .slice e _ _ _ => Codec.height e + 1
  | .map _ _ _ _ _ entry => Codec.height entry + 1
  | _ => 1
def CFields.height : CFields → Nat
  | .nil => 0
  | .cons _ _ _ _ c rest => max (Codec.height c) (CFields.height rest)
end

mutual
/-- number of message levels on the deepest path of a codec tree: what `flags >> depthShift` can reach while a value of
this type is decoded (structs count, the entry struct of a map included; pointers and slices do not) -/
def Codec.nesting : Codec → Nat
  | .ptr c => Codec.nesting c
  | .struct fs => CFields.nesting fs + 1
  | .slice e _ _ _ => Codec.nesting e
  | .map _ _ _ _ _ entry => Codec.nesting entry
  | _ => 0
def CFields.nesting : CFields → Nat
  | .nil => 0
  | .cons _ _ _ _ c rest => max (Codec.nesting c) (CFields.nesting rest)
end

def Codec.wire : Codec → Wire
  | .bool | .int | .int32 | .int64 | .uint | .uint32 | .uint64 => .varint
  | .fixed32 | .sfixed32 | .float32 => .fixed32
  | .fixed64 | .sfixed64 | .float64 => .fixed64
  | .string | .bytes | .byteArray _ | .message | .struct _ | .map .. | .unsupported => .varlen
  | .ptr c => c.wire
  | .slice _ _ w _ => w

-- go: proto.baseTypeOf
def baseTy : Ty → Ty
  | .ptr t => baseTy t
  | .named _ t => baseTy t
  | t => t

/-- go: proto.pointersTo — the scalar codec chosen by a fixed32/fixed64 tag, wrapped in the pointer codec(s) of the field type -/
def wrapPtrs : Ty → Codec → Codec
  | .ptr t, c => .ptr (wrapPtrs t c)
  | .named _ t, c => wrapPtrs t c
  | _, c => c

/-- go: proto.baseTypeOf followed by the `encodedByMethods` test of proto.embeddedStruct (commits 0de7c43, e71f28a): pointers
and defined types are looked through, a type encoded through its methods (NAME "RawMessage", see `isMessage`) is not -/
def embBase : Ty → Ty
  | .ptr t => embBase t
  | .named "RawMessage" t => .named "RawMessage" t
  | .named _ t => embBase t
  | t => t
-- go: proto.embeddedStruct — a struct, or pointer(s) to one, encoded by structCodecOf (the one codec that leaves the length
-- prefix to its caller); Message / custom types of struct kind write their prefix themselves
def isStructBase (t : Ty) : Bool := match embBase t with | .struct _ => true | _ => false
def isMessage : Ty → Bool
  | .named "RawMessage" _ => true
  | _ => false

def isByteSlice : Ty → Bool
  | .slice (.int .u8) => true
  | .bytes => true
  | _ => false

mutual
-- go: proto.codecOf
def codecOf : Ty → Codec
  | .named "RawMessage" _ => .message
  | .named _ t => codecOf t
  | .bool => .bool
  | .int .int => .int | .int .i32 => .int32 | .int .i64 => .int64
  | .int .uint => .uint | .int .u32 => .uint32 | .int .u64 => .uint64
  | .int _ => .unsupported
  | .f32 => .float32 | .f64 => .float64
  | .str => .string
  | .bytes => .bytes
  | .arr n (.int .u8) => .byteArray n
  | .arr _ _ => .unsupported
  | .slice (.int .u8) => .bytes
  | .slice _ => .unsupported
  | .map _ _ => .unsupported
  | .any => .unsupported
  | .ptr t => .ptr (codecOf t)
  | .struct fs => .struct (fieldsOf 1 fs)
/-- the `if field.codec == nil { switch baseKindOf(f.Type) … }` part of structCodecOf:
(embedded, repeated, codec) for a field of type `t` numbered `num` -/
def fieldCodecOf (num : Nat) : Ty → Bool × Bool × Codec
  | .slice (.int .u8) => (false, false, .bytes)
  | .slice elem =>
    let emb := isStructBase elem
    let ec := codecOf elem
    (emb, true, .slice ec num ec.wire emb)
  | .map k v =>
    let kc := codecOf k
    let vc := codecOf v
    let (ke, kr, kfc) := fieldCodecOf 1 k
    let (ve, vr, vfc) := fieldCodecOf 2 v
    let entry := Codec.struct (.cons 1 ke kr false kfc (.cons 2 ve vr false vfc .nil))
    (true, true, .map num kc vc (isStructBase k) (isStructBase v) entry)
  -- `f.Type.Kind()` looks through defined types: a field of type `type Ints []int32` / `type M map[K]V` is a repeated / map
  -- field like one of the underlying type (a type with Message methods is taken by `encodedByMethods` before the kind switch)
  | .named "RawMessage" t => (false, false, codecOf (.named "RawMessage" t))
  | .named _ t => fieldCodecOf num t
  | t => (isStructBase t, false, codecOf t)
-- go: proto.structCodecOf  (the loop over t.Field(i); `number` is the running declaration-order number)
def fieldsOf (number : Nat) : Fields → CFields
  | .nil => .nil
  | .cons _name tag _emb t rest =>
    let st : Option StructTag := (lookupProtobuf tag).bind parseStructTag
    -- field.number = uint16(number) / uint16(t.fieldNumber)
    let num : Nat := match st with
      | some s => (s.number % 65536).toNat
      | none => number % 65536
    let zz := match st with | some s => s.zigzag | none => false
    let rep0 := match st with | some s => s.repeated | none => false
    -- wire-type override from the tag
    let override : Option Codec := match st with
      | some s =>
        match s.wire, baseTy t with
        | .fixed32, .int .u32 => some .fixed32
        | .fixed32, .int .i32 => some .sfixed32      -- sfixed32: same four bytes, read back as signed
        | .fixed32, .f32 => some .float32
        | .fixed64, .int .u64 => some .fixed64
        | .fixed64, .int .i64 => some .sfixed64
        | .fixed64, .f64 => some .float64
        | _, _ => none
      | none => none
    match override with
    | some c => .cons num false rep0 zz (wrapPtrs t c) (fieldsOf (number + 1) rest)
    | none =>
      let (emb, rep, c) := fieldCodecOf num t
      .cons num emb (rep0 || rep) zz c (fieldsOf (number + 1) rest)
end

/-! ## flags -/
structure Flags where
  inline : Bool := false        -- the unsafe.Pointer IS the pointer/map (top-level pointer-shaped values only)
  wantzero : Bool := false
  zigzag : Bool := false
  toplevel : Bool := false
  deriving DecidableEq, Repr

def Flags.u64 (f : Flags) (i : Int) : BitVec 64 :=
  if f.zigzag then encodeZigZag64 (BitVec.ofInt 64 i) else BitVec.ofInt 64 i
def Flags.i64 (f : Flags) (u : BitVec 64) : Int :=
  if f.zigzag then (decodeZigZag64 u).toInt else u.toInt

def wz : Flags := { wantzero := true }

mutual
-- go: proto.inlined  (on the codec tree: pointer, map, or single-field struct of such)
def inlinedC : Codec → Bool
  | .ptr _ => true
  | .map .. => true
  | .struct fs => inlinedFields fs
  | _ => false
def inlinedFields : CFields → Bool
  | .cons _ _ _ _ c .nil => inlinedC c
  | _ => false
end

def isZeroBytes (b : Bytes) : Bool := b.all (· == 0)

/-- contents of a `[n]byte` array value: always exactly `n` bytes in Go; the model totalises by pad/truncate -/
def fixLen (n : Nat) (s : Bytes) : Bytes := (s ++ List.replicate n 0).take n

/-- size of one map entry body. The encoder adds `len(keyTag)` = `len(valTag)` = 1 per present part, the size function
`sizeOfTag(1|2, wire)`, which is 1 for every wire type (`sizeOfTag_one/_two` in Lemmas/Proto). -/
def entrySize (ks vs : Nat) (kEmb vEmb : Bool) : Nat :=
  (if ks > 0 then 1 + ks + (if kEmb then sizeOfVarint (BitVec.ofNat 64 ks) else 0) else 0)
  + (if vs > 0 then 1 + vs + (if vEmb then sizeOfVarint (BitVec.ofNat 64 vs) else 0) else 0)

/-! ## size and encode (pure: the bytes written when the buffer is large enough) -/
mutual
-- go: the `size` functions of every codec
def size : Codec → Val → Flags → Nat
  | .bool, .bool b, fl => if b || fl.wantzero then 1 else 0
  | .int, .int i, fl | .int32, .int i, fl | .int64, .int i, fl =>
    if i != 0 || fl.wantzero then sizeOfVarint (fl.u64 i) else 0
  | .uint, .int i, fl | .uint32, .int i, fl | .uint64, .int i, fl =>
    if i != 0 || fl.wantzero then sizeOfVarint (BitVec.ofInt 64 i) else 0
  | .fixed32, .int i, fl | .sfixed32, .int i, fl => if i != 0 || fl.wantzero then 4 else 0
  | .fixed64, .int i, fl | .sfixed64, .int i, fl => if i != 0 || fl.wantzero then 8 else 0
  | .float32, .float b, fl => if b != 0 || fl.wantzero then 4 else 0
  | .float64, .float b, fl => if b != 0 || fl.wantzero then 8 else 0
  | .string, .str s, fl => if !s.isEmpty || fl.wantzero then sizeOfVarlen s.length else 0
  | .bytes, .str s, _ => sizeOfVarlen s.length                 -- non-nil slice
  | .bytes, .nil, fl => if fl.wantzero then sizeOfVarlen 0 else 0
  | .byteArray n, .str s, fl => if fl.wantzero || !isZeroBytes s then sizeOfVarlen n else 0
  | .message, .str s, fl => if fl.toplevel then s.length else sizeOfVarlen s.length
  | .message, .nil, fl => if fl.toplevel then 0 else sizeOfVarlen 0
  | .ptr _, .nil, _ => 0
  | .ptr c, .ptr v, fl => size c v { fl with wantzero := true, inline := false }
  | .struct fs, .struct vs, fl =>
    let fl := { fl with toplevel := false, inline := fl.inline && inlinedFields fs }
    let (n, fl') := sizeUnique fs vs fl
    n + sizeRepeated fs vs fl'
  | .slice elem number wire emb, .list vs, _ => sizeSlice elem (sizeOfTag number wire) emb vs
  | .slice .., .nil, _ => 0
  | .map number k v kEmb vEmb _, .map kvs, _ =>
    let n := sizeMap (sizeOfTag number .varlen) k v kEmb vEmb kvs
    if n == 0 then sizeOfTag number .varlen + Gen.c_proto_zeroSize else n
  | .map number .., .nil, fl => if fl.inline then 0 else sizeOfTag number .varlen + Gen.c_proto_zeroSize
  | _, _, _ => 0
/-- first loop of structSizeFuncOf: non-repeated fields; returns the flags after `wantzero` clearing -/
def sizeUnique : CFields → Vals → Flags → Nat × Flags
  | .cons number emb false zz c rest, .cons v vs, fl =>
    let s := size c v { fl with zigzag := fl.zigzag || zz }
    if s > 0 then
      let (n, fl') := sizeUnique rest vs { fl with wantzero := false }
      (sizeOfTag number c.wire + s + (if emb then sizeOfVarint (BitVec.ofNat 64 s) else 0) + n, fl')
    else sizeUnique rest vs fl
  | .cons _ _ true _ _ rest, .cons _ vs, fl => sizeUnique rest vs fl
  | _, _, fl => (0, fl)
/-- second loop: repeated fields -/
def sizeRepeated : CFields → Vals → Flags → Nat
  | .cons _ _ true zz c rest, .cons v vs, fl =>
    let s := size c v { fl with zigzag := fl.zigzag || zz }
    s + sizeRepeated rest vs (if s > 0 then { fl with wantzero := false } else fl)
  | .cons _ _ false _ _ rest, .cons _ vs, fl => sizeRepeated rest vs fl
  | _, _, _ => 0
def sizeSlice (elem : Codec) (tagSize : Nat) (emb : Bool) : Vals → Nat
  | .cons v vs =>
    let s := size elem v wz
    tagSize + s + (if emb then sizeOfVarint (BitVec.ofNat 64 s) else 0) + sizeSlice elem tagSize emb vs
  | .nil => 0
def sizeMap (mapTagSize : Nat) (k v : Codec) (kEmb vEmb : Bool) : Vals → Nat
  | .cons key (.cons val rest) =>
    let ks := size k key wz
    let vs := size v val wz
    let elemSize := entrySize ks vs kEmb vEmb
    mapTagSize + sizeOfVarint (BitVec.ofNat 64 elemSize) + elemSize
    + sizeMap mapTagSize k v kEmb vEmb rest
  | _ => 0
end

mutual
-- go: the `encode` functions of every codec, given a buffer that is large enough
def encode : Codec → Val → Flags → Bytes
  | .bool, .bool b, fl => if b || fl.wantzero then [if b then 1 else 0] else []
  | .int, .int i, fl | .int32, .int i, fl | .int64, .int i, fl =>
    if i != 0 || fl.wantzero then encodeVarint (fl.u64 i) else []
  | .uint, .int i, fl | .uint32, .int i, fl | .uint64, .int i, fl =>
    if i != 0 || fl.wantzero then encodeVarint (BitVec.ofInt 64 i) else []
  | .fixed32, .int i, fl | .sfixed32, .int i, fl => if i != 0 || fl.wantzero then le32 (BitVec.ofInt 32 i) else []
  | .fixed64, .int i, fl | .sfixed64, .int i, fl => if i != 0 || fl.wantzero then le64 (BitVec.ofInt 64 i) else []
  | .float32, .float b, fl => if b != 0 || fl.wantzero then le32 (BitVec.ofNat 32 b) else []
  | .float64, .float b, fl => if b != 0 || fl.wantzero then le64 (BitVec.ofNat 64 b) else []
  | .string, .str s, fl =>
    if !s.isEmpty || fl.wantzero then encodeVarint (BitVec.ofNat 64 s.length) ++ s else []
  | .bytes, .str s, _ => encodeVarint (BitVec.ofNat 64 s.length) ++ s
  | .bytes, .nil, fl => if fl.wantzero then encodeVarint 0#64 else []
  | .byteArray n, .str s, fl =>
    if fl.wantzero || !isZeroBytes s then encodeVarint (BitVec.ofNat 64 n) ++ fixLen n s else []
  | .message, .str s, fl => if fl.toplevel then s else encodeVarint (BitVec.ofNat 64 s.length) ++ s
  | .message, .nil, fl => if fl.toplevel then [] else encodeVarint 0#64
  | .ptr _, .nil, _ => []
  | .ptr c, .ptr v, fl => encode c v { fl with wantzero := true, inline := false }
  | .struct fs, .struct vs, fl =>
    let fl := { fl with toplevel := false, inline := fl.inline && inlinedFields fs }
    let (b, fl') := encodeUnique fs vs fl
    b ++ encodeRepeated fs vs fl'
  | .slice elem number wire emb, .list vs, _ => encodeSlice elem (encodeTag number wire) emb vs
  | .slice .., .nil, _ => []
  | .map number k v kEmb vEmb _, .map kvs, _ =>
    let b := encodeMap (encodeTag number .varlen) k v kEmb vEmb kvs
    if b.isEmpty then encodeTag number .varlen ++ [0] else b
  | .map number .., .nil, fl => if fl.inline then [] else encodeTag number .varlen ++ [0]
  | _, _, _ => []
def encodeUnique : CFields → Vals → Flags → Bytes × Flags
  | .cons number emb false zz c rest, .cons v vs, fl =>
    let ffl := { fl with zigzag := fl.zigzag || zz }
    let s := size c v ffl
    if s > 0 then
      let (b, fl') := encodeUnique rest vs { fl with wantzero := false }
      (encodeTag number c.wire ++ (if emb then encodeVarint (BitVec.ofNat 64 s) else []) ++ encode c v ffl ++ b, fl')
    else encodeUnique rest vs fl
  | .cons _ _ true _ _ rest, .cons _ vs, fl => encodeUnique rest vs fl
  | _, _, fl => ([], fl)
def encodeRepeated : CFields → Vals → Flags → Bytes
  | .cons _ _ true zz c rest, .cons v vs, fl =>
    let b := encode c v { fl with zigzag := fl.zigzag || zz }
    b ++ encodeRepeated rest vs (if b.length > 0 then { fl with wantzero := false } else fl)
  | .cons _ _ false _ _ rest, .cons _ vs, fl => encodeRepeated rest vs fl
  | _, _, _ => []
def encodeSlice (elem : Codec) (tag : Bytes) (emb : Bool) : Vals → Bytes
  | .cons v vs =>
    let s := size elem v wz
    tag ++ (if emb then encodeVarint (BitVec.ofNat 64 s) else []) ++ encode elem v wz ++ encodeSlice elem tag emb vs
  | .nil => []
def encodeMap (mapTag : Bytes) (k v : Codec) (kEmb vEmb : Bool) : Vals → Bytes
  | .cons key (.cons val rest) =>
    let ks := size k key wz
    let vs := size v val wz
    let elemSize := entrySize ks vs kEmb vEmb
    mapTag ++ encodeVarint (BitVec.ofNat 64 elemSize)
      ++ (if ks > 0 then encodeTag 1 k.wire ++ (if kEmb then encodeVarint (BitVec.ofNat 64 ks) else []) ++ encode k key wz else [])
      ++ (if vs > 0 then encodeTag 2 v.wire ++ (if vEmb then encodeVarint (BitVec.ofNat 64 vs) else []) ++ encode v val wz else [])
      ++ encodeMap mapTag k v kEmb vEmb rest
  | _ => []
end

/-! ## zero values and decode -/
mutual
def zeroOf : Ty → Val
  | .bool => .bool false
  | .int _ => .int 0
  | .f32 | .f64 => .float 0
  | .str => .str []
  | .bytes | .any | .ptr _ | .slice _ | .map _ _ => .nil
  | .arr n (.int .u8) => .str (List.replicate n 0)
  | .arr n t => .list (Vals.ofList (List.replicate n (zeroOf t)))
  | .named "RawMessage" _ => .nil
  | .named _ t => zeroOf t
  | .struct fs => .struct (zeroFields fs)
def zeroFields : Fields → Vals
  | .nil => .nil
  | .cons _ _ _ t rest => .cons (zeroOf t) (zeroFields rest)
end

-- go: proto.decodeVarlen
def decodeVarlen (b : Bytes) : Res (Bytes × Nat) :=
  match decodeVarint b with
  | .ok (v, n) =>
    if !hasAtLeast (b.drop n) v.toNat then .err "unexpectedEof"
    else .ok ((b.drop n).take v.toNat, n + v.toNat)
  | .err e => .err e
  | .panic e => .panic e

def Vals.set : Vals → Nat → Val → Vals
  | .nil, _, _ => .nil
  | .cons _ r, 0, x => .cons x r
  | .cons v r, n + 1, x => .cons v (Vals.set r n x)
def Vals.get : Vals → Nat → Val
  | .nil, _ => .nil
  | .cons v _, 0 => v
  | .cons _ r, n + 1 => Vals.get r n

/-- `fieldIndex[number]`: the LAST declared field with that number wins (later entries overwrite). Returns its
position and descriptor. -/
def lookupField (fs : CFields) (number : Nat) : Option (Nat × Bool × Bool × Codec) :=
  let rec go (fs : CFields) (i : Nat) (acc : Option (Nat × Bool × Bool × Codec)) :=
    match fs with
    | .nil => acc
    | .cons n emb _ zz c rest => go rest (i + 1) (if n == number then some (i, emb, zz, c) else acc)
  go fs 0 none

/-- type of each codec's target, needed to allocate a zero value behind a nil pointer -/
def zeroOfCodec : Codec → Val
  | .bool => .bool false
  | .int | .int32 | .int64 | .uint | .uint32 | .uint64 | .fixed32 | .fixed64 | .sfixed32 | .sfixed64 => .int 0
  | .float32 | .float64 => .float 0
  | .string => .str []
  | .bytes | .message | .ptr _ | .slice .. | .map .. | .unsupported => .nil
  | .byteArray n => .str (List.replicate n 0)
  | .struct fs => .struct (zeroCFields fs)
where zeroCFields : CFields → Vals
  | .nil => .nil
  | .cons _ _ _ _ c rest => .cons (zeroOfCodec c) (zeroCFields rest)

/-- insert or overwrite a key in an alternating key/value list (MapAssign) -/
def mapAssign (kvs : Vals) (k v : Val) (eq : Val → Val → Bool) : Vals :=
  match kvs with
  | .cons k0 (.cons v0 rest) => if eq k0 k then .cons k0 (.cons v rest) else .cons k0 (.cons v0 (mapAssign rest k v eq))
  | _ => .cons k (.cons v .nil)

def valEqShow (a b : Val) : Bool := a.show == b.show

/-- skip of an undeclared field in structDecodeFuncOf: returns the number of bytes to skip -/
def skipUnknown (w : Nat) (b : Bytes) (lenB : Nat) : Res Nat :=
  -- `b` is b[offset:], `lenB` is len(b) of the whole struct buffer (the code compares `size > len(b)-skip`)
  let r : Res Nat :=
    if w == 0 then (decodeVarint b).bind fun (_, n) => .ok n
    else if w == 2 then
      (decodeVarint b).bind fun (sz, n) =>
        if sz.toNat > lenB - n then .err "unexpectedEof" else .ok (n + sz.toNat)
    else if w == 5 then (if b.length < 4 then .err "unexpectedEof" else .ok 4)
    else if w == 1 then (if b.length < 8 then .err "unexpectedEof" else .ok 8)
    else .err "wireTypeUnknown"
  r.bind fun skip => if skip ≤ b.length then .ok skip else .err "unexpectedEof"

mutual
-- go: the `decode` functions; returns the new value of the target and the number of bytes consumed.
-- `d` = `flags >> depthShift`, the number of messages being decoded around the value (commit b70a382): incremented by
-- every struct decoder — top-level message, embedded message, repeated element, the synthetic {Key, Elem} struct of a
-- map entry — and by nothing else (pointers pass the flags on; slices and maps keep only the counter, `flags.depth()`).
-- A struct decoder entered with `d + 1 > maxDepth` fails with errNestingTooDeep before it reads a byte.
def decode : Nat → Nat → Codec → Bytes → Val → Flags → Res (Val × Nat)
  | 0, _, _, _, _, _ => .err "fuel"
  | fuel + 1, d, c, b, cur, fl =>
    match c with
    | .bool => (decodeVarint b).bind fun (u, n) => .ok (.bool (u != 0#64), n)
    | .int => (decodeVarint b).bind fun (u, n) => .ok (.int (fl.i64 u), n)
    | .int64 => (decodeVarint b).bind fun (u, n) => .ok (.int (fl.i64 u), n)
    | .int32 =>
      -- range check happens before the varint error is looked at
      match decodeVarint b with
      | .ok (u, n) =>
        let v := fl.i64 u
        if v < -2147483648 ∨ v > 2147483647 then .err "overflow" else .ok (.int v, n)
      | .err e => .err e
      | .panic e => .panic e
    | .uint | .uint64 => (decodeVarint b).bind fun (u, n) => .ok (.int u.toNat, n)
    | .uint32 => (decodeVarint b).bind fun (u, n) =>
        if u.toNat > 4294967295 then .err "overflow" else .ok (.int u.toNat, n)
    | .fixed32 => match unLE32 b with
      | some v => .ok (.int v.toNat, 4)
      | none => .err "unexpectedEof"
    | .fixed64 => match unLE64 b with
      | some v => .ok (.int v.toNat, 8)
      | none => .err "unexpectedEof"
    | .sfixed32 => match unLE32 b with
      | some v => .ok (.int v.toInt, 4)
      | none => .err "unexpectedEof"
    | .sfixed64 => match unLE64 b with
      | some v => .ok (.int v.toInt, 8)
      | none => .err "unexpectedEof"
    | .float32 => match unLE32 b with
      | some v => .ok (.float v.toNat, 4)
      | none => .err "unexpectedEof"
    | .float64 => match unLE64 b with
      | some v => .ok (.float v.toNat, 8)
      | none => .err "unexpectedEof"
    | .string => (decodeVarlen b).bind fun (v, n) => .ok (.str v, n)
    | .bytes => (decodeVarlen b).bind fun (v, n) => .ok (.str v, n)
    | .byteArray k => (decodeVarlen b).bind fun (v, n) =>
        if v.length < k then .err "arraySize" else .ok (.str (v.take k), n)   -- copy(...) != n ⇔ len(v) < n
    | .message =>
      if fl.toplevel then .ok (.str b, b.length)
      else (decodeVarlen b).bind fun (v, n) => .ok (.str v, n)
    | .ptr c' =>
      let tgt := match cur with | .ptr v => v | _ => zeroOfCodec c'
      (decode fuel d c' b tgt fl).bind fun (v, n) => .ok (.ptr v, n)      -- pointerDecodeFuncOf passes the flags on unchanged
    | .struct fs =>
      -- `flags = flags.without(toplevel) + 1<<depthShift; if flags>>depthShift > maxDepth { return 0, errNestingTooDeep }`
      if d + 1 > Gen.c_proto_maxDepth then .err "nestingTooDeep"
      else
        match cur with
        | .struct vs => (decodeStruct fuel (d + 1) fs b b.length vs { fl with toplevel := false } 0).bind fun (vs', n) => .ok (.struct vs', n)
        | _ => .err "modelType"
    | .slice elem _ _ _ =>
      let cur' : Vals := match cur with | .list vs => vs | _ => .nil
      match decode fuel d elem b (zeroOfCodec elem) {} with          -- `flags.depth()`: only the counter survives
      | .ok (v, n) => .ok (.list (Vals.ofList (cur'.toList ++ [v])), n)
      | .err e => .err e
      | .panic e => .panic e
    | .map _ _ _ _ _ entry =>
      let cur' : Vals := match cur with | .map kvs => kvs | _ => .nil
      if b.isEmpty then .ok (.map cur', 0)
      else
        match decode fuel d entry b (zeroOfCodec entry) {} with      -- `flags.depth()`; the entry struct is one more level
        | .ok (.struct (.cons k (.cons v .nil)), n) => .ok (.map (mapAssign cur' k v valEqShow), n)
        | .ok _ => .err "modelType"
        | .err e => .err e
        | .panic e => .panic e
    | .unsupported => .panic "unsupportedType"
-- go: structDecodeFuncOf — the `for offset < len(b)` loop; `b` is b[offset:], `lenB` = len of the whole buffer
def decodeStruct : Nat → Nat → CFields → Bytes → Nat → Vals → Flags → Nat → Res (Vals × Nat)
  | 0, _, _, _, _, _, _, _ => .err "fuel"
  | fuel + 1, d, fs, b, lenB, vs, fl, offset =>
    if b.isEmpty then .ok (vs, offset)
    else
      match decodeVarint b with
      | .err e => .err e
      | .panic e => .panic e
      | .ok (tag, n) =>
        let number := (tag >>> 3).toNat
        let w := (tag &&& 7#64).toNat
        let b1 := b.drop n
        let off1 := offset + n
        match lookupField fs number with
        | none =>
          (skipUnknown w b1 lenB).bind fun skip =>
            decodeStruct fuel d fs (b1.drop skip) lenB vs fl (off1 + skip)
        | some (i, emb, zz, c) =>
          if w != c.wire.num then .err "wireType"
          else
            -- carve `data`
            let carve : Res (Bytes × Nat) :=          -- (data, bytes skipped before data)
              if w == 0 then (decodeVarint b1).bind fun (_, k) => .ok (b1.take k, 0)
              else if w == 2 then
                (decodeVarint b1).bind fun (l, k) =>
                  if l.toNat > lenB - (off1 + k) then .err "unexpectedEof"
                  else if emb then .ok ((b1.drop k).take l.toNat, k) else .ok (b1.take (k + l.toNat), 0)
              else if w == 5 then (if b1.length < 4 then .err "unexpectedEof" else .ok (b1.take 4, 0))
              else if w == 1 then (if b1.length < 8 then .err "unexpectedEof" else .ok (b1.take 8, 0))
              else .err "wireTypeUnknown"
            carve.bind fun (data, pre) =>
              (decode fuel d c data (Vals.get vs i) { fl with zigzag := fl.zigzag || zz }).bind fun (v, m) =>
                decodeStruct fuel d fs (b1.drop (pre + m)) lenB (Vals.set vs i v) fl (off1 + pre + m)
end

/-! ## entry points -/

-- go: proto.Size / proto.Marshal
def marshalSize (t : Ty) (v : Val) : Nat := size (codecOf t) v { toplevel := true, inline := true }
def marshal (t : Ty) (v : Val) : Bytes := encode (codecOf t) v { toplevel := true, inline := true }

-- go: proto.Unmarshal (target = pointer to a zero value of `t`)
def unmarshal (t : Ty) (b : Bytes) : Res Val :=
  if b.isEmpty then .ok (zeroOf t)
  else
    match decode (2 * b.length + 8 + Codec.height (codecOf t)) 0 (codecOf t) b (zeroOf t) { toplevel := true } with
    | .ok (v, n) => if n < b.length then .err "trailing" else .ok v
    | .err e => .err e
    | .panic e => .panic e

end Enc.Model.Proto
