import Enc.Model.Thrift
/-!
Model of /repo/thrift WITH UNIONS: the struct encoder and decoder of `Enc.Model.Thrift` extended by what the Go code does
for a struct type that has a field tagged `thrift:",union"`.

What a union is in the Go package (struct.go `forEachStructField`): an ordinary struct whose MEMBERS are ordinary fields
with ids (value- or pointer-typed, any supported kind), plus ONE extra field of INTERFACE type with the tag option `union`
and an EMPTY id part (`F any `thrift:",union"``; any other shape panics when the codec is built — like the other tag
validation panics this is not modelled: the model reads the tag the way `fieldDescs` does, and a tag with an empty id part is
not a member because `"".toInt? = none`). `structEncoder.union / unionIndex` and `structDecoder.union` remember that field
(the last one if several carry the option).

Representation of the interface field in the shared `Val` universe (nothing is added to `Ty`/`Val`): `.nil` = nil interface,
`.ptr (.int k)` = a pointer to the field at declaration position `k` of the SAME struct value (dynamic type `*T_k`) — what
the decoder stores (`v.FieldByIndex(dec.union).Set(lastField.Addr())`) and what a user writes (`u.F = &u.B`). Text form:
`p i <k>`. The encoder looks at the interface for two things only: nil or not, and its dynamic type.

encode.go (after fix fb0bd25):
  * `zeroMember`: when the union field is not nil, EVERY member holds its zero value and EXACTLY ONE member has the type the
    interface points to, that member is written although it is zero. (Two members of the same Go type: none is written —
    recorded as a finding; characterised exactly by `zeroMember_none_iff` / `zeroMember_ambiguous_witness` in
    Lemmas/ThriftUnionZm.lean.)
  * more than one field written ⇒ `Marshal` returns an error (after writing; the bytes are not modelled then).
decode.go: a member that arrives with the expected type first RESETS the whole struct to its zero value (`v.Set(dec.zero)`:
earlier members, untagged fields and the union field are gone), is then decoded, and is remembered (`lastField`); at the end
the union field is set to the address of the last such member: the last member on the wire wins. Unknown ids and (non-strict)
mismatching types are skipped without touching the struct.

`Enc.Model.Thrift.encode / decode` are the restriction of `encodeU / decodeU` to types without a union field:
`Lemmas.ThriftUnionCons.encodeU_eq_encode`, `decodeU_eq_decode` (hypothesis `noUnion ty`). The driver runs the functions of
this file for every thrift op.
-/
namespace Enc.Model.Thrift
open Enc

/-! ## Go type identity on the universe (reflect.Type `==`: struct types are identical when their field lists — names, types,
tags, embedding — are; defined types by name) -/
mutual
def tyEq : Ty → Ty → Bool
  | .bool, .bool | .f32, .f32 | .f64, .f64 | .str, .str | .bytes, .bytes | .any, .any => true
  | .int a, .int b => a == b
  | .arr n a, .arr m b => n == m && tyEq a b
  | .ptr a, .ptr b => tyEq a b
  | .slice a, .slice b => tyEq a b
  | .map k v, .map k' v' => tyEq k k' && tyEq v v'
  | .struct fs, .struct gs => fieldsEq fs gs
  | .named n a, .named m b => n == m && tyEq a b
  | _, _ => false
def fieldsEq : Fields → Fields → Bool
  | .nil, .nil => true
  | .cons n tag e t r, .cons n' tag' e' t' r' => n == n' && tag == tag' && e == e' && tyEq t t' && fieldsEq r r'
  | _, _ => false
end

/-! ## the union field -/
/-- the tag carries the option `union` (struct.go: `case "union": flags = flags.with(union)`) -/
def isUnionTag (tag : String) : Bool :=
  match tagValue tag with
  | none => false
  | some v => if v == "" then false else ((v.splitOn ",").drop 1).contains "union"

/-- `enc.unionIndex` / `dec.union`: declaration position of the (last) field tagged `union`; `pos` = position of the head -/
def unionPos : Fields → Nat → Option Nat
  | .nil, _ => none
  | .cons _ tag _ _ rest, pos =>
    match unionPos rest (pos + 1) with
    | some q => some q
    | none => if isUnionTag tag then some pos else none

/-- id of a member field, read as `fieldRecs` / `fieldDescs` read it -/
def memberId (tag : String) : Option Int :=
  match tagValue tag with
  | none => none
  | some v => if v == "" then none else ((v.splitOn ",").headD "").toInt?

def tyAt : Fields → Nat → Option Ty
  | .nil, _ => none
  | .cons _ _ _ t _, 0 => some t
  | .cons _ _ _ _ r, n + 1 => tyAt r n

/-- the loop of `zeroMember`: `none` = some member holds a non-zero value (`return -1`), `some l` = the positions of the
members whose type is `ut` (`reflect.PointerTo(x.Type()) == u.Elem().Type()`) -/
def zmScan (ut : Ty) : Fields → Vals → Nat → Option (List Nat)
  | .cons _ tag _ t rest, .cons x vs, pos =>
    match memberId tag with
    | none => zmScan ut rest vs (pos + 1)
    | some _ =>
      if !isZeroAt t x then none
      else (zmScan ut rest vs (pos + 1)).map fun l => if tyEq t ut then pos :: l else l
  | _, _, _ => some []

-- go: structEncoder.zeroMember (result: the declaration position of the member instead of its index in enc.fields)
def zeroMember (fs : Fields) (vs : Vals) : Option Nat :=
  match unionPos fs 0 with
  | none => none                                    -- `if enc.union { … }`
  | some u =>
    match Vals.get vs u with
    | .ptr (.int k) =>                              -- u is not nil; its dynamic type is *T_k
      if k < 0 then none else
      (match tyAt fs k.toNat with
       | none => none
       | some ut =>
         match zmScan ut fs vs 0 with
         | some [m] => some m
         | _ => none)
    | _ => none                                     -- `u.IsNil()`

/-- first error wins, else the concatenation -/
def seqBytes : List (Res Bytes) → Res Bytes
  | [] => .ok []
  | r :: rest => r.bind fun b => (seqBytes rest).bind fun bs => .ok (b ++ bs)

/-! ## encoder -/
mutual
-- go: encodeFuncOf; an error is the union error of some struct inside
def encodeU (p : Proto) : Ty → Val → Res Bytes
  | .slice (.int .u8), v => .ok (encode p (.slice (.int .u8)) v)
  | .slice t, v =>
    (match v with
     | .list vs => (seqBytes (vs.toList.map (encodeU p t))).bind fun body => .ok (wList p (typeOf t) vs.length ++ body)
     | _ => .ok (wList p (typeOf t) 0))
  | .map k v, x =>
    let ps := match x with | .map kvs => pairsOf kvs.toList | _ => []
    if isEmptyStruct v then
      (seqBytes (ps.map fun kv => encodeU p k kv.1)).bind fun body => .ok (wList p (typeOf k) ps.length ++ body)
    else
      (seqBytes (ps.map fun kv => (encodeU p k kv.1).bind fun a => (encodeU p v kv.2).bind fun b => .ok (a ++ b))).bind
        fun body => .ok (wMap p (typeOf k) (typeOf v) ps.length ++ body)
  | .struct fs, v =>
    (match v with
     | .struct vs =>
       (fieldRecsU p (zeroMember fs vs) fs vs 0).bind fun recs =>
         -- `if numFields > 1 && enc.union { return fmt.Errorf(…) }` (after the stop field has been written)
         if (unionPos fs 0).isSome && decide (1 < recs.length) then .err "unionMultiple"
         else .ok (emitFields p (sortRecs recs) 0 ++ wStopField p)
     | _ => .ok (wStopField p))
  | .ptr t, v =>
    (match v with
     | .ptr x => encodeU p t x
     | _ => encodeU p t (zeroOf t))
  | .named _ t, v => encodeU p t v
  | .bool, v => .ok (encode p .bool v)
  | .int k, v => .ok (encode p (.int k) v)
  | .f32, v => .ok (encode p .f32 v)
  | .f64, v => .ok (encode p .f64 v)
  | .str, v => .ok (encode p .str v)
  | .bytes, v => .ok (encode p .bytes v)
  | .arr _ _, _ | .any, _ => .ok []
/-- the per-field part of structEncoder.encode; `zm` = zeroMember(v) as a declaration position, `pos` = position of the head -/
def fieldRecsU (p : Proto) (zm : Option Nat) : Fields → Vals → Nat → Res (List FieldRec)
  | .cons _ tag _ t rest, .cons x vs, pos =>
    (fieldRecsU p zm rest vs (pos + 1)).bind fun tl =>
    match tagValue tag with
    | none => .ok tl
    | some v =>
      if v == "" then .ok tl else
      let parts := v.splitOn ","
      let opts := parts.drop 1
      match (parts.headD "").toInt? with
      | none => .ok tl                                -- includes the union field itself: its id part is empty
      | some id =>
        let required := opts.contains "required"
        let enum := opts.contains "enum"
        let isNilPtr := match t, x with | .ptr _, .nil => true | _, _ => false
        if isNilPtr then .ok tl
        else if !required && isZeroAt t x && zm != some pos then .ok tl      -- `… && x.IsZero() && i != zeroMember`
        else
          let isTrue := match derefVal x with | .bool true => true | _ => false
          let body : Res Bytes :=
            if enum then (match derefVal x with | .int i => .ok (wI32 p (wrap32 i)) | _ => encodeU p t x) else encodeU p t x
          body.bind fun body => .ok ({ id := id, t := typeOf t, isTrue := isTrue, body := body } :: tl)
  | _, _, _ => .ok []
end

/-! ## decoder -/
/-- `if union { v.Set(dec.zero) }` -/
def resetTo (zero : Option Vals) (vs : Vals) : Vals := match zero with | some z => z | none => vs

/-- what decodeStructU hands back: field values, ids seen, position of `lastField` -/
abbrev StructOut := Vals × List Int × Option Nat

mutual
-- go: decodeFuncOf
def decodeU (p : Proto) (strict : Bool) (d : Nat) : Nat → Ty → Bytes → Val → R Val
  | 0, _, _, _ => .err "fuel"
  | fuel + 1, t, b, cur =>
    match t with
    | .slice (.int .u8) => decode p strict d (fuel + 1) t b cur
    | .slice et =>
      (rList p b).bind fun ((lt, n), r) =>
        let lt := if lt == .true_ then TType.bool else lt
        if typeOf et != lt then
          (if strict then .err "typeMismatch"
           else (skipN p (d + 1) fuel lt n r).bind fun (_, r) => .ok (cur, r))
        else if tooDeep d then .err "maxDepth"
        else decodeListU p strict (d + 1) fuel et n r []
    | .map kt vt =>
      if isEmptyStruct vt then
        (rList p b).bind fun ((st, n), r) =>
          let st := if st == .true_ then TType.bool else st
          if n == 0 then .ok (.map .nil, r)
          else if typeOf kt != st then
            (if strict then .err "typeMismatch"
             else (skipN p (d + 1) fuel st n r).bind fun (_, r) => .ok (.map .nil, r))
          else if tooDeep d then .err "maxDepth"
          else decodeSetU p strict (d + 1) fuel kt n r .nil
      else
        (rMap p b).bind fun ((k, v, n), r) =>
          let k := if k == .true_ then TType.bool else k
          let v := if v == .true_ then TType.bool else v
          if n == 0 then .ok (.map .nil, r)
          else if typeOf kt != k then
            (if strict then .err "typeMismatch"
             else (skipPairs p (d + 1) fuel k v n r).bind fun (_, r) => .ok (.map .nil, r))
          else if typeOf vt != v then
            (if strict then .err "typeMismatch"
             else (skipPairs p (d + 1) fuel k v n r).bind fun (_, r) => .ok (.map .nil, r))
          else if tooDeep d then .err "maxDepth"
          else decodeMapU p strict (d + 1) fuel kt vt n r .nil
    | .struct fs =>
      if tooDeep d then .err "maxDepth"
      else
      match cur with
      | .struct vs =>
        let descs := fieldDescs fs
        let up := unionPos fs 0                                     -- `union := len(dec.union) > 0`
        let zero := up.map fun _ => zeroFields fs                   -- `dec.zero`
        (decodeStructU p strict (d + 1) fuel descs zero b vs 0 0 [] none).bind fun ((vs', seen, lastF), r) =>
          if descs.any (fun fd => fd.required && !seen.contains fd.id) then .err "missingField"
          else
            match up, lastF with
            | some u, some k => .ok (.struct (Vals.set vs' u (.ptr (.int k))), r)   -- `v.FieldByIndex(dec.union).Set(lastField.Addr())`
            | _, _ => .ok (.struct vs', r)
      | _ => .err "modelType"
    | .ptr et =>
      let tgt := match cur with | .ptr v => v | _ => zeroOf et
      (decodeU p strict d fuel et b tgt).bind fun (v, r) => .ok (.ptr v, r)
    | .named _ t' => decodeU p strict d fuel t' b cur
    | _ => decode p strict d (fuel + 1) t b cur                      -- scalars, strings, binaries, unsupported kinds
def decodeListU (p : Proto) (strict : Bool) (d : Nat) : Nat → Ty → Nat → Bytes → List Val → R Val
  | 0, _, _, _, _ => .err "fuel"
  | _, _, 0, b, acc => .ok (.list (Vals.ofList acc.reverse), b)
  | fuel + 1, et, n + 1, b, acc =>
    (dontExpectEOF (decodeU p strict d fuel et b (zeroOf et))).bind fun (v, r) => decodeListU p strict d fuel et n r (v :: acc)
def decodeSetU (p : Proto) (strict : Bool) (d : Nat) : Nat → Ty → Nat → Bytes → Vals → R Val
  | 0, _, _, _, _ => .err "fuel"
  | _, _, 0, b, acc => .ok (.map acc, b)
  | fuel + 1, kt, n + 1, b, acc =>
    (dontExpectEOF (decodeU p strict d fuel kt b (zeroOf kt))).bind fun (k, r) =>
      decodeSetU p strict d fuel kt n r (mapPut acc k (.struct .nil))
def decodeMapU (p : Proto) (strict : Bool) (d : Nat) : Nat → Ty → Ty → Nat → Bytes → Vals → R Val
  | 0, _, _, _, _, _ => .err "fuel"
  | _, _, _, 0, b, acc => .ok (.map acc, b)
  | fuel + 1, kt, vt, n + 1, b, acc =>
    (dontExpectEOF (decodeU p strict d fuel kt b (zeroOf kt))).bind fun (k, r) =>
      (dontExpectEOF (decodeU p strict d fuel vt r (zeroOf vt))).bind fun (v, r) =>
        decodeMapU p strict d fuel kt vt n r (mapPut acc k v)
-- go: structDecoder.decode via readStruct; `zero` = `some dec.zero` for a union, `lastF` = position of `lastField`
def decodeStructU (p : Proto) (strict : Bool) (d : Nat) :
    Nat → List FieldDesc → Option Vals → Bytes → Vals → Int → Nat → List Int → Option Nat → R StructOut
  | 0, _, _, _, _, _, _, _, _ => .err "fuel"
  | fuel + 1, descs, zero, b, vs, last, num, seen, lastF =>
    match rField p b with
    | .err e => if num > 0 ∧ e == "eof" then .err "unexpectedEof" else .err e
    | .panic e => .panic e
    | .ok (h, r) =>
      if h.t == .stop then (if h.delta then .err "deltaStop" else .ok ((vs, seen, lastF), r))
      else
        let id := wrap16 (if h.delta then h.id + last else h.id)
        let sk : R Unit :=
          if (h.t == .true_ || h.t == .bool) && p.coalesce then .ok ((), r) else skip p d fuel h.t r
        match findById descs id with
        | none =>
          (dontExpectEOF sk).bind fun (_, r) => decodeStructU p strict d fuel descs zero r vs id (num + 1) seen lastF
        | some fd =>
          let seen := id :: seen
          let ft := typeOf fd.ty
          if h.t != ft && !(h.t == .true_ && ft == .bool) then
            if strict then .err "typeMismatch"
            else (dontExpectEOF sk).bind fun (_, r) => decodeStructU p strict d fuel descs zero r vs id (num + 1) seen lastF
          else
            let vs := resetTo zero vs                                    -- `if union { v.Set(dec.zero) }`
            let lastF := some fd.pos                                     -- `lastField = x`
            if p.coalesce && (h.t == .true_ || h.t == .bool) then
              decodeStructU p strict d fuel descs zero r (Vals.set vs fd.pos (wrapPtr fd.ty (.bool (h.t == .true_)))) id (num + 1) seen lastF
            else
              let res : R Val :=
                if fd.enum then
                  (match baseOf fd.ty with
                   | .int k => (rI32 p r).bind fun (x, r) => .ok (wrapPtr fd.ty (.int (wrapTo k.bits x)), r)
                   | _ => decodeU p strict d fuel fd.ty r (Vals.get vs fd.pos))
                else decodeU p strict d fuel fd.ty r (Vals.get vs fd.pos)
              (dontExpectEOF res).bind fun (v, r) =>
                decodeStructU p strict d fuel descs zero r (Vals.set vs fd.pos v) id (num + 1) seen lastF
end

/-! ## entry points -/
-- go: thrift.Marshal (`err` = Marshal returned an error; the bytes written before it are not modelled)
def marshalU (p : Proto) (t : Ty) (v : Val) : Res Bytes := encodeU p t v

-- go: thrift.Unmarshal (target: pointer to a zero value of t)
def unmarshalU (p : Proto) (strict : Bool) (t : Ty) (b : Bytes) : Res Val :=
  match decodeU p strict 0 (4 * b.length + 64 + depth t) t b (zeroOf t) with
  | .ok (v, rest) => if rest.isEmpty then .ok v else .err "trailing"
  | .err e => .err e
  | .panic e => .panic e

mutual
/-- no struct inside the type has a union field -/
def noUnion : Ty → Bool
  | .arr _ t | .ptr t | .slice t | .named _ t => noUnion t
  | .map k v => noUnion k && noUnion v
  | .struct fs => (unionPos fs 0).isNone && noUnionF fs
  | _ => true
def noUnionF : Fields → Bool
  | .nil => true
  | .cons _ _ _ t r => noUnion t && noUnionF r
end

end Enc.Model.Thrift
