import Enc.Model.Thrift
/-!
Embedded (anonymous) struct fields of /repo/thrift: `forEachStructField` flattens them (value and pointer embedding),
every promoted field carries its index path (`append(index, i)`, clipped with `fieldIndex[:len:len]`), the struct
encoder and decoder reach the field by walking the path (`structEncoder.encode`: a nil embedded pointer on the way makes
the encoder SKIP the field, before the `required` test; `structDecoder.decode`: a nil embedded pointer on the way is
allocated, `x.Set(reflect.New(x.Type().Elem()))`).

`Fields.cons name tag emb t rest`: `emb` is the `Anonymous` flag, ignored by Enc/Model/Thrift.lean; here it is obeyed for
the OUTER struct (through `named` / `ptr` at the top); the types of the promoted fields themselves are encoded / decoded by
`Model.Thrift.encode` / `decode` (no embedding below a leaf field), unions are not in this file (Model/ThriftUnion.lean).
`blocked` = the `CanSet` tests of the decoder's walk (a nil embedded pointer to an UNEXPORTED struct type cannot be
allocated: error "cannot set embedded field of unexported type"). Not modelled: the panics of `forEachStructField` on
malformed tags (as in Model/Thrift.lean: such a field is skipped).

Second part: the index paths as Go slices with a capacity (`goAppend` shares the backing array when the capacity permits),
`flattenS clip`: `clip = true` is the code as written, `clip = false` the code before the fix (sibling paths alias).
-/
namespace Enc.Model.Thrift
open Enc

/-- the tag part of `forEachStructField` (`thrift:"<id>[,required][,enum]"`), the same parsing as `fieldDescs` /
`fieldRecs` of Model/Thrift.lean: (id, required, enum) -/
def tagOf (tag : String) : Option (Int × Bool × Bool) :=
  match tagValue tag with
  | none => none
  | some v =>
    if v == "" then none else
    let parts := v.splitOn ","
    let opts := parts.drop 1
    match (parts.headD "").toInt? with
    | some id => some (id, opts.contains "required", opts.contains "enum")
    | none => none

/-- `structField` (+ the name and the tag text, to rebuild the flat struct type) -/
structure FlatField where
  name : String
  tag : String
  ty : Ty
  index : List Nat
  id : Int
  required : Bool
  enum : Bool

/-- `f.PkgPath == ""` -/
def isExported (name : String) : Bool :=
  match name.toList with
  | c :: _ => c.isUpper
  | [] => false

mutual
/-- the `if f.Anonymous { for fieldType.Kind() == reflect.Ptr {…}; if fieldType.Kind() == reflect.Struct { recurse } }`
part: `none` = not a struct after stripping the pointers (the field is then an ordinary one) -/
def flattenEmb : Ty → List Nat → Option (List FlatField)
  | .ptr t, index => flattenEmb t index
  | .named _ t, index => flattenEmb t index          -- Kind() looks through the type's name
  | .struct fs, index => some (flatten fs index 0)
  | _, _ => none
-- go: thrift.forEachStructField (the third argument is the loop variable `i`)
def flatten : Fields → List Nat → Nat → List FlatField
  | .nil, _, _ => []
  | .cons name tag emb t rest, index, i =>
    let tl := flatten rest index (i + 1)
    if !isExported name && !emb then tl else          -- unexported
    let fieldIndex := index ++ [i]                      -- append(index, i)[:len:len]
    match (if emb then flattenEmb t fieldIndex else none) with
    | some l => l ++ tl
    | none =>
      match tagOf tag with
      | none => tl
      | some (id, req, en) =>
        { name := name, tag := tag, ty := t, index := fieldIndex, id := id, required := req, enum := en } :: tl
end

/-- the flat struct type: the promoted fields in flattening order, none of them embedded -/
def fieldsOf : List FlatField → Fields
  | [] => .nil
  | ff :: r => .cons ff.name ff.tag false ff.ty (fieldsOf r)
def flatFields (fs : Fields) : Fields := fieldsOf (flatten fs [] 0)

/-- `fieldDescs` for a struct with embedding: `structEncoderField` / `structDecoderField` before sorting (index path
instead of the position) -/
def fieldDescsE (fs : Fields) : List FlatField := flatten fs [] 0

/-! ## encoder -/
/-- one step of the index walk: `if x.Kind() == reflect.Ptr { x = x.Elem() }; x = x.Field(i)` (a value that is not a
struct there: reflect panics; unreachable for values of the type, the model answers nil) -/
def stepField (x : Val) (i : Nat) : Val :=
  match (match x with | .ptr y => y | y => y) with
  | .struct vs => Vals.get vs i
  | _ => .nil

/-- the index walk of `structEncoder.encode`: `none` = `continue encodeFields` at a nil pointer on the way (every step but
the last yields an embedded struct or a pointer to one, so nil there is a nil pointer; the nil test on the LAST step is the
`isNilPtr` test of the per-field part, which knows the type) -/
def walk : Val → List Nat → Option Val
  | x, [] => some x
  | x, [i] => some (stepField x i)
  | x, i :: rest =>
    match stepField x i with
    | .nil => none
    | y => walk y rest

/-- the per-field part of structEncoder.encode once the value `x` has been located (= the body of `fieldRecs`) -/
def recOf (p : Proto) (ff : FlatField) (x : Val) : Option FieldRec :=
  let isNilPtr := match ff.ty, x with | .ptr _, .nil => true | _, _ => false
  if isNilPtr then none
  else if !ff.required && isZeroAt ff.ty x then none
  else
    let isTrue := match derefVal x with | .bool true => true | _ => false
    let body :=
      if ff.enum then (match derefVal x with | .int i => wI32 p (wrap32 i) | _ => encode p ff.ty x) else encode p ff.ty x
    some { id := ff.id, t := typeOf ff.ty, isTrue := isTrue, body := body }

/-- structEncoder.encode, the loop over `enc.fields` (declaration = flattening order; sorted by the caller) -/
def fieldRecsE (p : Proto) (ffs : List FlatField) (root : Val) : List FieldRec :=
  ffs.filterMap fun ff => (walk root ff.index).bind (recOf p ff)

-- go: encodeFuncStructOf / structEncoder.encode for a struct type with embedded fields (reached through names and pointers)
def encodeE (p : Proto) : Ty → Val → Bytes
  | .struct fs, v =>
    (match v with
     | .struct vs => emitFields p (sortRecs (fieldRecsE p (fieldDescsE fs) (.struct vs))) 0 ++ wStopField p
     | _ => wStopField p)
  | .ptr t, v =>
    (match v with
     | .ptr x => encodeE p t x
     | _ => encodeE p t (zeroOf t))
  | .named _ t, v => encodeE p t v
  | t, v => encode p t v

def marshalE (p : Proto) (t : Ty) (v : Val) : Bytes := encodeE p t v

/-- `FieldByIndex` for the flat picture: the value of a promoted field, the zero value of its type behind a nil
embedded pointer -/
def flatVal (root : Val) (ff : FlatField) : Val := (walk root ff.index).getD (zeroOf ff.ty)
def flatValsOf (ffs : List FlatField) (root : Val) : Vals := Vals.ofList (ffs.map (flatVal root))
/-- the value of the flat struct -/
def flatVals (fs : Fields) (vs : Vals) : Vals := flatValsOf (flatten fs [] 0) (.struct vs)

/-- what makes embedding transparent for a value: no REQUIRED field behind a nil embedded pointer (the encoder skips such
a field before it looks at `required`; the flat struct writes it) -/
def Transparent (fs : Fields) (vs : Vals) : Bool :=
  (flatten fs [] 0).all fun ff =>
    (walk (.struct vs) ff.index).isSome || (!ff.required && isZeroAt ff.ty (zeroOf ff.ty))

/-! ## decoder -/
def tyAtF : Fields → Nat → Ty
  | .nil, _ => .bool
  | .cons _ _ _ t _, 0 => t
  | .cons _ _ _ _ r, n + 1 => tyAtF r n
/-- the struct type an embedded field leads to -/
def structOf : Ty → Fields
  | .struct fs => fs
  | .ptr t => structOf t
  | .named _ t => structOf t
  | _ => .nil

/-- the index walk of `structDecoder.decode`, reading: the current value of the field; a nil embedded pointer on the way
has just been allocated (`x.Set(reflect.New(x.Type().Elem()))`), its fields are zero -/
def getPathA : Fields → Vals → List Nat → Val
  | _, _, [] => .nil
  | _, vs, [i] => Vals.get vs i
  | fs, vs, i :: rest =>
    let sub := structOf (tyAtF fs i)
    match Vals.get vs i with
    | .struct ws => getPathA sub ws rest
    | .ptr (.struct ws) => getPathA sub ws rest
    | _ => getPathA sub (zeroFields sub) rest
/-- the same walk, writing (with the allocations) -/
def setPathA : Fields → Vals → List Nat → Val → Vals
  | _, vs, [], _ => vs
  | _, vs, [i], v => Vals.set vs i v
  | fs, vs, i :: rest, v =>
    let sub := structOf (tyAtF fs i)
    match Vals.get vs i with
    | .struct ws => Vals.set vs i (.struct (setPathA sub ws rest v))
    | .ptr (.struct ws) => Vals.set vs i (.ptr (.struct (setPathA sub ws rest v)))
    | _ => Vals.set vs i (.ptr (.struct (setPathA sub (zeroFields sub) rest v)))

def nameAtF : Fields → Nat → String
  | .nil, _ => ""
  | .cons n _ _ _ _, 0 => n
  | .cons _ _ _ _ r, n + 1 => nameAtF r n
/-- `!x.CanSet()` in the walk of `structDecoder.decode`: reflect does not let the decoder allocate a nil embedded pointer
whose (type) name is unexported (`break` at the nil pointer, then the error "cannot set embedded field of unexported
type"), nor set a promoted leaf that is itself an unexported embedded field; the exported fields of an unexported embedded
struct VALUE, or behind a non-nil unexported embedded pointer, are settable (`flagEmbedRO` is not inherited by `Field`) -/
def blocked : Fields → Vals → List Nat → Bool
  | _, _, [] => false
  | fs, _, [i] => !isExported (nameAtF fs i)
  | fs, vs, i :: rest =>
    ((match Vals.get vs i with | .nil => true | _ => false) && !isExported (nameAtF fs i)) ||
      blocked (structOf (tyAtF fs i))
        (match Vals.get vs i with | .struct ws => ws | .ptr (.struct ws) => ws | _ => zeroFields (structOf (tyAtF fs i))) rest

def findByIdE (ffs : List FlatField) (id : Int) : Option FlatField := ffs.find? (·.id == id)

-- go: structDecoder.decode via readStruct, fields located by their index paths (cf. `decodeStruct`)
def decodeStructE (p : Proto) (strict : Bool) (d : Nat) (fs : Fields) (descs : List FlatField) :
    Nat → Bytes → Vals → Int → Nat → List Int → R (Vals × List Int)
  | 0, _, _, _, _, _ => .err "fuel"
  | fuel + 1, b, vs, last, num, seen =>
    match rField p b with
    | .err e => if num > 0 ∧ e == "eof" then .err "unexpectedEof" else .err e
    | .panic e => .panic e
    | .ok (h, r) =>
      if h.t == .stop then (if h.delta then .err "deltaStop" else .ok ((vs, seen), r))
      else
        let id := wrap16 (if h.delta then h.id + last else h.id)
        let sk : R Unit :=
          if (h.t == .true_ || h.t == .bool) && p.coalesce then .ok ((), r) else skip p d fuel h.t r
        match findByIdE descs id with
        | none =>
          (dontExpectEOF sk).bind fun (_, r) => decodeStructE p strict d fs descs fuel r vs id (num + 1) seen
        | some fd =>
          let seen := id :: seen
          let ft := typeOf fd.ty
          if h.t != ft && !(h.t == .true_ && ft == .bool) then
            if strict then .err "typeMismatch"
            else (dontExpectEOF sk).bind fun (_, r) => decodeStructE p strict d fs descs fuel r vs id (num + 1) seen
          else if blocked fs vs fd.index then .err "cannotSet"
          else if p.coalesce && (h.t == .true_ || h.t == .bool) then
            decodeStructE p strict d fs descs fuel r (setPathA fs vs fd.index (wrapPtr fd.ty (.bool (h.t == .true_)))) id (num + 1) seen
          else
            let res : R Val :=
              if fd.enum then
                (match baseOf fd.ty with
                 | .int k => (rI32 p r).bind fun (x, r) => .ok (wrapPtr fd.ty (.int (wrapTo k.bits x)), r)
                 | _ => decode p strict d fuel fd.ty r (getPathA fs vs fd.index))
              else decode p strict d fuel fd.ty r (getPathA fs vs fd.index)
            (dontExpectEOF res).bind fun (v, r) =>
              decodeStructE p strict d fs descs fuel r (setPathA fs vs fd.index v) id (num + 1) seen

-- go: decodeFuncStructOf / structDecoder.decode for a struct type with embedded fields (reached through names and pointers)
def decodeE (p : Proto) (strict : Bool) (d : Nat) : Nat → Ty → Bytes → Val → R Val
  | 0, _, _, _ => .err "fuel"
  | fuel + 1, t, b, cur =>
    match t with
    | .struct fs =>
      if tooDeep d then .err "maxDepth"
      else
      match cur with
      | .struct vs =>
        let descs := fieldDescsE fs
        (decodeStructE p strict (d + 1) fs descs fuel b vs 0 0 []).bind fun ((vs', seen), r) =>
          if descs.any (fun fd => fd.required && !seen.contains fd.id) then .err "missingField"
          else .ok (.struct vs', r)
      | _ => .err "modelType"
    | .ptr et =>
      let tgt := match cur with | .ptr v => v | _ => zeroOf et
      (decodeE p strict d fuel et b tgt).bind fun (v, r) => .ok (.ptr v, r)
    | .named _ t' => decodeE p strict d fuel t' b cur
    | t => decode p strict d (fuel + 1) t b cur

-- go: thrift.Unmarshal
def unmarshalE (p : Proto) (strict : Bool) (t : Ty) (b : Bytes) : Res Val :=
  match decodeE p strict 0 (4 * b.length + 64 + depth t) t b (zeroOf t) with
  | .ok (v, rest) => if rest.isEmpty then .ok v else .err "trailing"
  | .err e => .err e
  | .panic e => .panic e

/-- scatter: the flat values written back along the index paths, in flattening order, the way the decoder stores a field
(nil embedded pointers on the way are allocated) -/
def scatter (fs : Fields) : List FlatField → Nat → Vals → Vals → Vals
  | [], _, _, vs => vs
  | ff :: r, k, ws, vs => scatter fs r (k + 1) ws (setPathA fs vs ff.index (Vals.get ws k))
/-- the inverse of `flatVals` on top of a target `vs`: `flatVals fs (unflatVals fs vs ws) = ws` (Lemmas: `flat_unflat`) -/
def unflatVals (fs : Fields) (vs ws : Vals) : Vals := scatter fs (fieldDescsE fs) 0 ws vs

/-! ## the index paths as Go slices -/
/-- the backing arrays, by number -/
structure Heap where
  arrs : List (List Nat)
  deriving Repr, DecidableEq
/-- a slice header: backing array, length, capacity (offset 0: the code only appends and reslices from 0) -/
structure GoSlice where
  arr : Nat
  len : Nat
  cap : Nat
  deriving Repr, DecidableEq

def GoSlice.nil : GoSlice := { arr := 0, len := 0, cap := 0 }
def Heap.empty : Heap := { arrs := [] }
def Heap.read (h : Heap) (s : GoSlice) : List Nat := ((h.arrs.getD s.arr []).take s.len)
/-- runtime.growslice for `[]int` below 256 elements: double, or the needed length if that is more (the size classes
8, 16, 32, 64, 128 … bytes are exactly the doubled capacities 1, 2, 4, 8, 16) -/
def growCap (old need : Nat) : Nat := if need > 2 * old then need else 2 * old
-- go: the builtin append(s, x) on []int
def goAppend (h : Heap) (s : GoSlice) (x : Nat) : Heap × GoSlice :=
  if s.len < s.cap then
    ({ arrs := h.arrs.set s.arr ((h.arrs.getD s.arr []).set s.len x) }, { s with len := s.len + 1 })
  else
    let cap' := growCap s.cap (s.len + 1)
    let a := h.read s ++ [x] ++ List.replicate (cap' - (s.len + 1)) 0
    ({ arrs := h.arrs ++ [a] }, { arr := h.arrs.length, len := s.len + 1, cap := cap' })
/-- `s[:len(s):len(s)]` -/
def GoSlice.clip (s : GoSlice) : GoSlice := { s with cap := s.len }

mutual
def flattenEmbS (clip : Bool) : Ty → GoSlice → Heap → Option (List (String × GoSlice) × Heap)
  | .ptr t, index, h => flattenEmbS clip t index h
  | .named _ t, index, h => flattenEmbS clip t index h
  | .struct fs, index, h => some (flattenS clip fs index 0 h)
  | _, _, _ => none
-- go: thrift.forEachStructField with the index slices in a heap; `clip = false`: without `fieldIndex[:len:len]`
def flattenS (clip : Bool) : Fields → GoSlice → Nat → Heap → List (String × GoSlice) × Heap
  | .nil, _, _, h => ([], h)
  | .cons name tag emb t rest, index, i, h =>
    if !isExported name && !emb then flattenS clip rest index (i + 1) h else
    let (h1, fi) := goAppend h index i
    let fieldIndex := if clip then fi.clip else fi
    match (if emb then flattenEmbS clip t fieldIndex h1 else none) with
    | some (l, h2) =>
      let (tl, h3) := flattenS clip rest index (i + 1) h2
      (l ++ tl, h3)
    | none =>
      match tagOf tag with
      | none => flattenS clip rest index (i + 1) h1
      | some _ =>
        let (tl, h3) := flattenS clip rest index (i + 1) h1
        ((name, fieldIndex) :: tl, h3)
end

/-- the index paths the encoder / decoder see afterwards (read from the heap once the whole type has been walked) -/
def pathsS (clip : Bool) (fs : Fields) : List (String × List Nat) :=
  let (l, h) := flattenS clip fs GoSlice.nil 0 Heap.empty
  l.map fun (n, s) => (n, h.read s)
/-- the code as written -/
def flattenClipped (fs : Fields) : List (String × List Nat) := pathsS true fs
/-- the code before the fix -/
def flattenAliased (fs : Fields) : List (String × List Nat) := pathsS false fs

end Enc.Model.Thrift
