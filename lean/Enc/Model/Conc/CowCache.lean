/-!
# Model of the lock-free copy-on-write codec caches (C09)

json/codec.go `cache` (atomic.Pointer to a map) + Append/Parse + constructCachedCodec + cacheStore;
proto/proto.go `codecCache` (atomic.Value) + cachedCodecOf; thrift/encode.go `encoderCache`, thrift/decode.go
`decoderCache` (atomic.Value) in Encoder.Encode / Decoder.Decode — all four follow one protocol:

    snap  := cache.Load()                       -- atomic
    c, ok := snap[t];  if ok { use c }          -- local
    c      = construct(t)                       -- local, deterministic; a private `seen` map resolves recursive types
    next  := copy(snap); next[t] = c (and the entries built along the way, e.g. *T for proto)
    cache.Store(next)                           -- atomic: replaces the map wholesale; updates published by other
                                                --   goroutines since `Load` are LOST (deliberately tolerated)
    use c

Threads are interleaved at the granularity of the atomic operations; the scheduler is an arbitrary list of thread
indices. `codecOf` is the deterministic construction (a parameter).
-/
namespace Enc.Model.Conc

variable {Ty Codec : Type} [DecidableEq Ty]

abbrev Cache (Ty Codec : Type) := List (Ty × Codec)

def lookup (m : Cache Ty Codec) (t : Ty) : Option Codec :=
  match m with
  | [] => none
  | (k, c) :: rest => if k = t then some c else lookup rest t

inductive PC (Ty Codec : Type) where
  | idle                                            -- the call has not started
  | loaded (snap : Cache Ty Codec)                  -- after cache.Load()
  | built (snap : Cache Ty Codec) (c : Codec)       -- miss: codec constructed, nothing published yet
  | done (c : Codec)                                -- the codec this call encodes / decodes with

structure Thread (Ty Codec : Type) where
  ty : Ty                  -- the type of the value passed to Marshal / Unmarshal / …
  extra : List Ty          -- further types whose codecs the construction publishes together with `ty` (proto: *T)
  pc : PC Ty Codec

structure State (Ty Codec : Type) where
  cache : Cache Ty Codec
  threads : List (Thread Ty Codec)

/-- the entries a construction publishes: the requested type first, then the extras, each with ITS codec -/
def entries (codecOf : Ty → Codec) (th : Thread Ty Codec) : Cache Ty Codec :=
  (th.ty :: th.extra).map fun t => (t, codecOf t)

/-- one atomic step of one thread -/
def stepThread (codecOf : Ty → Codec) (cache : Cache Ty Codec) (th : Thread Ty Codec) : Cache Ty Codec × Thread Ty Codec :=
  match th.pc with
  | .idle => (cache, { th with pc := .loaded cache })
  | .loaded snap =>
    match lookup snap th.ty with
    | some c => (cache, { th with pc := .done c })
    | none => (cache, { th with pc := .built snap (codecOf th.ty) })
  | .built snap c => (entries codecOf th ++ snap, { th with pc := .done c })      -- Store(copy(snap) + new entries)
  | .done _ => (cache, th)

def setNth {α : Type} : List α → Nat → α → List α
  | [], _, _ => []
  | _ :: r, 0, x => x :: r
  | a :: r, n + 1, x => a :: setNth r n x

/-- the scheduler runs thread `i` for one atomic step (an index outside the thread table does nothing) -/
def step (codecOf : Ty → Codec) (s : State Ty Codec) (i : Nat) : State Ty Codec :=
  match s.threads[i]? with
  | none => s
  | some th =>
    let (cache', th') := stepThread codecOf s.cache th
    { cache := cache', threads := setNth s.threads i th' }

def run (codecOf : Ty → Codec) (s : State Ty Codec) (sched : List Nat) : State Ty Codec :=
  sched.foldl (step codecOf) s

/-- the initial state: whatever correct cache earlier calls left behind, all calls not yet started -/
def initState (cache : Cache Ty Codec) (calls : List (Ty × List Ty)) : State Ty Codec :=
  { cache := cache, threads := calls.map fun (t, ex) => { ty := t, extra := ex, pc := .idle } }

end Enc.Model.Conc
