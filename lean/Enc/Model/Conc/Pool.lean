/-!
# Model of sync.Pool usage (C09, last sentence: pooled values are never visible to two callers at once)

The Go extractor (`tools/extract/pools.go`) regenerates `Enc/Gen/Pools.lean` from /repo's working tree: for every
function (or closure) that obtains a pooled object it emits the SKELETON of that function as a `PProg` over pool
events, with statement order, branches, loops and early returns preserved.  This file gives

* the skeleton language `PProg`,
* the concurrent semantics: a pool is a multiset of free objects; any number of goroutines, each performing a sequence
  of calls of sites' skeletons, interleaved at event granularity by an arbitrary scheduler (an LTS like CowCache's),
* the decidable discipline predicate `Disciplined` computed on the skeleton (an abstract interpretation that follows
  every path).

The theorem "all sites disciplined ⇒ exclusivity in every reachable state" is in `Enc/Lemmas/ConcPool.lean`.
-/
namespace Enc.Model.Conc.Pool

/-- a place that can hold a reference to a pooled object: a local variable of the current call (dies at `ret`), or a
field of the longer-lived value the goroutine is working on (the Tokenizer's `stack`; survives across calls) -/
inductive Ref where
  | var (n : Nat)
  | field (n : Nat)
  deriving DecidableEq, Repr

inductive Ev where
  | get (pool : Nat) (r : Ref)      -- r = P.Get(): pops any free object of pool P or creates a fresh one
  | put (pool : Nat) (r : Ref)      -- P.Put(r)
  | use (r : Ref)                   -- a read/write through r or through an alias assigned from it (b := buf.data)
  | callOut (r : Ref)               -- r or an alias is handed to code outside the package (enc.writer.Write(b), sort.Sort(s))
  | store (r : Ref)                 -- r or an alias is stored in a longer-lived place / captured by a closure / `go`
  | clear (r : Ref)                 -- r = nil
  deriving DecidableEq, Repr

/-- skeleton programs -/
inductive PProg where
  | skip
  | ev (e : Ev)
  | ret (escapes : List Ref)        -- return; `escapes` = the refs the returned values mention (not fresh copies)
  | seq (a b : PProg)
  | alt (a b : PProg)               -- if/else, switch: either alternative
  | loop (body : PProg)             -- zero or more iterations
  | call (body : PProg)             -- an inlined in-package callee: a `ret` inside returns to here
  deriving DecidableEq, Repr

def PProg.seqs : List PProg → PProg
  | [] => .skip
  | [p] => p
  | p :: ps => .seq p (seqs ps)

def PProg.alts : List PProg → PProg
  | [] => .skip
  | [p] => p
  | p :: ps => .alt p (alts ps)

/-! ## control: shared by the concrete and the abstract machine -/

inductive Frame where
  | run (p : PProg)
  | mark                            -- bottom of an inlined callee
  deriving DecidableEq, Repr

inductive Action where
  | tau
  | ev (e : Ev)
  | ret (escapes : List Ref)
  | startCall                       -- a new call of the goroutine begins: its local variables are fresh
  deriving DecidableEq, Repr

/-- drop the continuation up to and including the innermost callee mark (everything, at top level) -/
def unwind : List Frame → List Frame
  | [] => []
  | .mark :: k => k
  | .run _ :: k => unwind k

/-- one control step. `c` resolves the nondeterminism (alt: 0 = left; loop: 0 = exit). `none` = nothing left to do. -/
def next (todo : List Frame) (calls : List PProg) (c : Nat) : Option (Action × List Frame × List PProg) :=
  match todo with
  | [] =>
    match calls with
    | [] => none
    | p :: cs => some (.startCall, [.run p], cs)
  | .mark :: k => some (.tau, k, calls)
  | .run .skip :: k => some (.tau, k, calls)
  | .run (.ev e) :: k => some (.ev e, k, calls)
  | .run (.ret esc) :: k => some (.ret esc, unwind k, calls)
  | .run (.seq a b) :: k => some (.tau, .run a :: .run b :: k, calls)
  | .run (.alt a b) :: k => some (.tau, (if c = 0 then .run a else .run b) :: k, calls)
  | .run (.loop b) :: k => some (.tau, if c = 0 then k else .run b :: .run (.loop b) :: k, calls)
  | .run (.call b) :: k => some (.tau, .run b :: .mark :: k, calls)

/-! ## concrete semantics -/

abbrev Obj := Nat

/-- a goroutine: performs the calls `calls` one after the other -/
structure Thread where
  todo : List Frame := []
  calls : List PProg
  vars : List (Option Obj)          -- local variables of the current call (positional)
  flds : List (Option Obj)          -- fields of the goroutine's long-lived value (positional)
  held : List Obj := []             -- objects obtained by Get and not (yet) Put by this goroutine
  kept : List Obj := []             -- objects that somebody outside the call references for good: returned to the
                                    --   caller un-copied, stored in a longer-lived place, captured
  deriving Repr

structure State where
  free : List (Nat × Obj) := []     -- the pools: (pool id, object), a multiset
  fresh : Nat := 0                  -- next never-used object id
  threads : List Thread
  deriving Repr

def Thread.lookup (th : Thread) : Ref → Option Obj
  | .var n => (th.vars[n]?).join
  | .field n => (th.flds[n]?).join

def Thread.bind (th : Thread) (r : Ref) (o : Option Obj) : Thread :=
  match r with
  | .var n => { th with vars := th.vars.set n o }
  | .field n => { th with flds := th.flds.set n o }

def lookupAll (th : Thread) (rs : List Ref) : List Obj := rs.filterMap th.lookup

/-- the free entries of pool `p` -/
def cands (free : List (Nat × Obj)) (p : Nat) : List (Nat × Obj) := free.filter (·.1 = p)

/-- effect of an action of thread `th`. `c` picks the free object a Get returns (c ≥ number of free objects of that
pool: a fresh one is created). -/
def act (free : List (Nat × Obj)) (fresh : Nat) (th : Thread) (a : Action) (c : Nat) :
    List (Nat × Obj) × Nat × Thread :=
  match a with
  | .tau => (free, fresh, th)
  | .startCall => (free, fresh, { th with vars := th.vars.map fun _ => none })
  | .ret esc => (free, fresh, { th with kept := lookupAll th esc ++ th.kept })
  | .ev (.get p r) =>
    match (cands free p)[c]? with
    | some e => (free.erase e, fresh, { th.bind r (some e.2) with held := e.2 :: th.held })
    | none => (free, fresh + 1, { th.bind r (some fresh) with held := fresh :: th.held })
  | .ev (.put p r) =>
    match th.lookup r with
    | some o => ((p, o) :: free, fresh, { th with held := th.held.filter (· ≠ o) })
    | none => (free, fresh, th)
  | .ev (.use _) => (free, fresh, th)
  | .ev (.callOut _) => (free, fresh, th)
  | .ev (.store r) => (free, fresh, { th with kept := lookupAll th [r] ++ th.kept })
  | .ev (.clear r) => (free, fresh, th.bind r none)

/-- the object an action touches (reads, writes, hands out or gives back) -/
def touched (th : Thread) : Action → List Obj
  | .ev (.put _ r) => lookupAll th [r]
  | .ev (.use r) => lookupAll th [r]
  | .ev (.callOut r) => lookupAll th [r]
  | .ev (.store r) => lookupAll th [r]
  | .ret esc => lookupAll th esc
  | _ => []

def setNth {α : Type} : List α → Nat → α → List α
  | [], _, _ => []
  | _ :: r, 0, x => x :: r
  | a :: r, n + 1, x => a :: setNth r n x

/-- the scheduler runs thread `i` for one event, resolving its choice with `c` -/
def step (s : State) (ic : Nat × Nat) : State :=
  match s.threads[ic.1]? with
  | none => s
  | some th =>
    match next th.todo th.calls ic.2 with
    | none => s
    | some (a, todo', calls') =>
      let (free', fresh', th') := act s.free s.fresh { th with todo := todo', calls := calls' } a ic.2
      { free := free', fresh := fresh', threads := setNth s.threads ic.1 th' }

def run (s : State) (sched : List (Nat × Nat)) : State := sched.foldl step s

/-- any number of goroutines; goroutine i performs the calls `progs[i]` in order; `nV`/`nF` = number of variable /
field slots; the pools start empty (objects left by earlier calls are the ones finished goroutines have Put) -/
def initState (nV nF : Nat) (progs : List (List PProg)) : State :=
  { threads := progs.map fun cs => { calls := cs, vars := List.replicate nV none, flds := List.replicate nF none } }

/-- what thread `th` is about to touch under choice `c` -/
def aboutToTouch (th : Thread) (c : Nat) : List Obj :=
  match next th.todo th.calls c with
  | none => []
  | some (a, _, _) => touched th a

/-! ## observable violations (used by the negative witnesses) -/

/-- goroutine i is about to touch (under choice c) an object it does not own and that goroutine j owns -/
def touchesForeign (s : State) (i j c : Nat) : Bool :=
  match s.threads[i]?, s.threads[j]? with
  | some ti, some tj => (aboutToTouch ti c).any fun o => tj.held.contains o && !ti.held.contains o
  | _, _ => false

/-- goroutine i is about to touch an object that lies free in a pool -/
def touchesFree (s : State) (i c : Nat) : Bool :=
  match s.threads[i]? with
  | some ti => (aboutToTouch ti c).any fun o => (s.free.map (·.2)).contains o
  | none => false

/-- an object the caller of goroutine i still references has been handed to goroutine j -/
def keptHandedTo (s : State) (i j : Nat) : Bool :=
  match s.threads[i]?, s.threads[j]? with
  | some ti, some tj => ti.kept.any fun o => tj.held.contains o
  | _, _ => false

/-- an object the caller of goroutine i still references lies free in a pool -/
def keptIsFree (s : State) (i : Nat) : Bool :=
  match s.threads[i]? with
  | some ti => ti.kept.any fun o => (s.free.map (·.2)).contains o
  | none => false

/-! ## the discipline: an abstract interpretation of the skeleton -/

inductive St where
  | unbound      -- nil / never assigned
  | held         -- refers to an object this call owns
  | released     -- refers to an object that has been Put (dangling)
  | kept         -- refers to an owned object that has escaped for good; must never be Put
  deriving DecidableEq, Repr

structure A where
  vars : List St
  flds : List St
  deriving DecidableEq, Repr

def A.get (σ : A) : Ref → St
  | .var n => σ.vars[n]?.getD .unbound
  | .field n => σ.flds[n]?.getD .unbound

def A.set (σ : A) (r : Ref) (s : St) : A :=
  match r with
  | .var n => { σ with vars := σ.vars.set n s }
  | .field n => { σ with flds := σ.flds.set n s }

def A.inRange (σ : A) : Ref → Bool
  | .var n => n < σ.vars.length
  | .field n => n < σ.flds.length

/-- abstract effect of an event; `none` = the discipline is violated -/
def aev (σ : A) : Ev → Option A
  | .get _ r => if σ.inRange r then some (σ.set r .held) else none   -- an object the ref held before leaks: safe
  | .put _ r =>
    match σ.get r with
    | .held => some (σ.set r .released)
    | .unbound => some σ               -- Put of nil: no object involved
    | .released => none                -- double Put
    | .kept => none                    -- Put of an object somebody else references for good
  | .use r => if σ.get r = .released then none else some σ
  | .callOut r => if σ.get r = .released then none else some σ
  | .store r =>
    match σ.get r with
    | .held => some (σ.set r .kept)
    | .kept => some σ
    | .unbound => some σ
    | .released => none
  | .clear r => some (σ.set r .unbound)

/-- abstract effect of `return` with the given escaping refs -/
def aret (σ : A) : List Ref → Option A
  | [] => some σ
  | r :: rs =>
    match σ.get r with
    | .held => aret (σ.set r .kept) rs
    | .kept => aret σ rs
    | .unbound => aret σ rs
    | .released => none

/-- at a call boundary every field is nil or refers to an owned, un-escaped object -/
def goodFlds (σ : A) : Bool := σ.flds.all fun s => s = .unbound || s = .held

def aact (σ : A) : Action → Option A
  | .tau => some σ
  | .ev e => aev σ e
  | .ret esc => aret σ esc
  | .startCall => if goodFlds σ then some { σ with vars := σ.vars.map fun _ => .unbound } else none

/-- run `f` from every state of the list and collect the exits; `none` if any fails -/
def execAll (f : A → Option (List A × List A)) : List A → Option (List A × List A)
  | [] => some ([], [])
  | x :: xs =>
    match f x, execAll f xs with
    | some (n, r), some (ns, rs) => some (n ++ ns, r ++ rs)
    | _, _ => none

/-- `exec p σ = some (N, R)`: no path of `p` from σ violates the discipline; N = states at normal completion,
R = states at `return` (after the escapes) -/
def exec : PProg → A → Option (List A × List A)
  | .skip, σ => some ([σ], [])
  | .ev e, σ => (aev σ e).map fun σ' => ([σ'], [])
  | .ret esc, σ => (aret σ esc).map fun σ' => ([], [σ'])
  | .seq a b, σ =>
    match exec a σ with
    | none => none
    | some (na, ra) =>
      match execAll (exec b) na with
      | none => none
      | some (nb, rb) => some (nb, ra ++ rb)
  | .alt a b, σ =>
    match exec a σ, exec b σ with
    | some (na, ra), some (nb, rb) => some (na ++ nb, ra ++ rb)
    | _, _ => none
  | .loop b, σ =>
    -- invariant set I = σ :: (exits of one iteration from σ); required: I is closed under the body
    match exec b σ with
    | none => none
    | some (n1, _) =>
      let I := σ :: n1
      match execAll (exec b) I with
      | none => none
      | some (n2, r2) => if n2.all (I.contains ·) then some (I, r2) else none
  | .call b, σ =>
    match exec b σ with
    | none => none
    | some (n, r) => some (n ++ r, [])

/-- refs mentioned by a skeleton stay inside the slot tables -/
def refOK (nV nF : Nat) : Ref → Bool
  | .var n => n < nV
  | .field n => n < nF

def evRef : Ev → Ref
  | .get _ r | .put _ r | .use r | .callOut r | .store r | .clear r => r

def wf (nV nF : Nat) : PProg → Bool
  | .skip => true
  | .ev e => refOK nV nF (evRef e)
  | .ret esc => esc.all (refOK nV nF)
  | .seq a b => wf nV nF a && wf nV nF b
  | .alt a b => wf nV nF a && wf nV nF b
  | .loop b => wf nV nF b
  | .call b => wf nV nF b

/-- all field tables of length n over {nil, held} -/
def goodTables : Nat → List (List St)
  | 0 => [[]]
  | n + 1 => (goodTables n).flatMap fun t => [.unbound :: t, .held :: t]

/-- **the discipline predicate.** From every legal state at a call boundary (locals fresh, each field nil or owned)
no path of the skeleton uses, hands out, stores, returns or Puts again an object after its Put, nor Puts an object
that escaped; and at every exit (normal or return) each field is again nil or owned (and the slot tables kept their
shape). -/
def Disciplined (nV nF : Nat) (p : PProg) : Bool :=
  wf nV nF p &&
  (goodTables nF).all fun ft =>
    match exec p { vars := List.replicate nV .unbound, flds := ft } with
    | none => false
    | some (n, r) => (n ++ r).all fun σ' => goodFlds σ' && σ'.vars.length = nV && σ'.flds.length = nF

end Enc.Model.Conc.Pool
