import Enc.Base.Bytes
import Enc.Gen.Consts
import Enc.Gen.AsmConsts
import Enc.Model.Ascii
/-!
Model of the amd64 ASSEMBLY kernels of github.com/segmentio/asm/ascii v1.1.3 (the default, non-`purego` build that
/repo/ascii forwards to): `valid_amd64.s`, `valid_print_amd64.s`, `equal_fold_amd64.s` (avo output).

Hand-written, executable and total; it follows the control flow of each .s file LABEL BY LABEL: one def per label /
loop, tagged `-- asm: <file>:<label>`; every line of a def carries the instruction(s) it stands for.

Conventions
* Memory: the only readable memory is the argument string(s); the pointer register is an INDEX `p` into the `Bytes`
  (`byteAt s p`; an index past the end reads 0 — the kernels never do that, all loads stay inside the string, see the
  invariants `p + n = length` in `Enc/Lemmas/AsciiAsm*.lean`).
* Length / index registers (CX, DX, AX-as-index) are natural numbers. Go lengths are < 2^63, so `CMPQ`+`JB` (unsigned)
  and `CMPQ`+`JLE` (signed) are `<` / `≤` on ℕ; the `cmp_tail` sequence `SUBQ $16,CX ; ADDQ CX,AX` (CX wraps to a
  negative value, AX+CX wraps back) is `p + n - 16`, exact because `p + n ≥ 16` whenever the AVX path is entered.
* Data registers are `BitVec 64/32/16/8`; loads pack little-endian.
* Vector registers are lists of byte lanes (lane 0 = lowest address = least significant), 32 lanes for Y, 16 for X;
  `xmm y` is the architectural low half of a Y register. Each vector instruction used by the kernels has ONE def with
  its Intel SDM lane semantics (signed where the instruction is signed). Operand order is the Go assembler's
  (sources first, destination last — the reverse of the SDM).
* Flags: only ZF is ever consumed (`JNZ/JNE`, `JE`, `SETEQ`); it is a `Bool` handed to the `done` label.
* Every immediate / displacement comes from `Enc/Gen/AsmConsts.lean` (`imm lits_asm_<file>_<label> i`); the
  `asm_shape_*` / `asm_text_*` facts at the end pin the instruction sequence of every block mirrored here, so an
  edited .s file breaks a proof instead of silently leaving a stale model.
-/
namespace Enc.Model.AsciiAsm
open Enc Enc.Gen

/-- the `i`-th immediate (or displacement) of a label block -/
def imm (l : List Nat) (i : Nat) : Nat := l.getD i 0

/-- byte at address `base + i` -/
def byteAt (s : Bytes) (i : Nat) : UInt8 := s.getD i 0

/-! ### scalar loads (little-endian) -/
def load8 (s : Bytes) (p : Nat) : BitVec 8 := (byteAt s p).toBitVec
def load16 (s : Bytes) (p : Nat) : BitVec 16 := (byteAt s (p + 1)).toBitVec ++ (byteAt s p).toBitVec
def load32 (s : Bytes) (p : Nat) : BitVec 32 :=
  Model.Ascii.le32 (byteAt s p) (byteAt s (p + 1)) (byteAt s (p + 2)) (byteAt s (p + 3))
def load64 (s : Bytes) (p : Nat) : BitVec 64 :=
  Model.Ascii.le64 (byteAt s p) (byteAt s (p + 1)) (byteAt s (p + 2)) (byteAt s (p + 3))
    (byteAt s (p + 4)) (byteAt s (p + 5)) (byteAt s (p + 6)) (byteAt s (p + 7))

/-! ### vector registers and the vector instructions used by the three kernels -/
abbrev Vec := List UInt8

/-- `VMOVDQU k-byte-memory, reg` (also the memory operand of `VPOR`/`VPTEST`): `k` consecutive bytes from `p` -/
def vload (s : Bytes) (p : Nat) : Nat → Vec
  | 0 => []
  | k + 1 => byteAt s p :: vload s (p + 1) k

/-- low 128 bits of a Y register (register aliasing X_i ⊂ Y_i) -/
def xmm (y : Vec) : Vec := y.take 16

/-- an XMM register whose previous content is irrelevant (it is overwritten / only its inserted lanes are read) -/
def zeroX : Vec := List.replicate 16 0

def bytes64 (x : BitVec 64) : Vec := (List.range 8).map (fun i => UInt8.ofBitVec ((x >>> (8 * i)).truncate 8))

/-- `PINSRQ $i, r64, X`: replace quadword `i` of X by the register -/
def pinsrq (i : Nat) (r : BitVec 64) (x : Vec) : Vec := x.take (8 * i) ++ bytes64 r ++ x.drop (8 * i + 8)
/-- `PINSRB $i, r32, X`: replace byte `i` of X by the low byte of the register -/
def pinsrb (i : Nat) (r : UInt8) (x : Vec) : Vec := x.take i ++ [r] ++ x.drop (i + 1)
/-- `VPBROADCASTQ X, Y`: the low quadword of X in all four quadwords of Y -/
def vpbroadcastq (x : Vec) : Vec := x.take 8 ++ x.take 8 ++ x.take 8 ++ x.take 8
/-- `VPBROADCASTB X, Y`: the low byte of X in all 32 bytes of Y -/
def vpbroadcastb (x : Vec) : Vec := List.replicate 32 (x.headD 0)

/-- `VPOR a, b, dst` / `VORPD`: lane-wise (bitwise) OR -/
def vpor (a b : Vec) : Vec := List.zipWith (· ||| ·) a b
/-- `VPAND a, b, dst`: bitwise AND -/
def vpand (a b : Vec) : Vec := List.zipWith (· &&& ·) a b
/-- `VXORPD a, b, dst` (= `VPXOR`): bitwise XOR -/
def vpxor (a b : Vec) : Vec := List.zipWith (· ^^^ ·) a b
/-- `VPANDN b, a, dst` (Go order; SDM `VPANDN dst, a, b`): `dst = (NOT a) AND b` -/
def vpandn (b a : Vec) : Vec := List.zipWith (fun x y => ~~~x &&& y) a b
/-- `VPADDB a, b, dst`: lane-wise addition modulo 256 -/
def vpaddb (a b : Vec) : Vec := List.zipWith (· + ·) a b
/-- `VPCMPGTB b, a, dst` (Go order; SDM `VPCMPGTB dst, a, b`): lane = 0xFF if `a > b` as SIGNED bytes, else 0 -/
def vpcmpgtb (b a : Vec) : Vec :=
  List.zipWith (fun x y => if BitVec.slt y.toBitVec x.toBitVec then (0xff : UInt8) else 0) a b
/-- `VPCMPEQB b, a, dst`: lane = 0xFF if equal, else 0 -/
def vpcmpeqb (b a : Vec) : Vec := List.zipWith (fun x y => if x == y then (0xff : UInt8) else 0) a b
/-- `VPSLLW $k, a, dst`: each 16-bit WORD (two lanes, little-endian) shifted left by `k`, bits leaving the word dropped -/
def vpsllw (k : Nat) : Vec → Vec
  | lo :: hi :: rest =>
    let w : BitVec 16 := (hi.toBitVec ++ lo.toBitVec) <<< k
    UInt8.ofBitVec (w.truncate 8) :: UInt8.ofBitVec ((w >>> 8).truncate 8) :: vpsllw k rest
  | r => r
/-- `VPTEST m, r`: ZF := ((m AND r) = 0)  (CF is not read by these kernels) -/
def vptestZF (m r : Vec) : Bool := (List.zipWith (· &&& ·) m r).all (· == 0)
/-- the mask of `VPMOVMSKB`: bit `i` = most significant bit of lane `i` -/
def mskNat : Vec → Nat
  | [] => 0
  | x :: xs => x.toNat / 128 + 2 * mskNat xs
/-- `VPMOVMSKB reg, r32` (32 or 16 lanes, zero-extended into the 32-bit register) -/
def vpmovmskb (a : Vec) : BitVec 32 := BitVec.ofNat 32 (mskNat a)

/-- the AVX2 bit of `cpu.X86` (github.com/segmentio/asm/cpu/x86: `AVX2 Feature = 1 << 8`) -/
def c_x86_AVX2 : Nat := Gen.c_asm_x86_AVX2   -- regenerated from cpu/x86/x86.go

/-! ## valid_amd64.s — func ValidString(s string) bool -/
namespace Valid

-- asm: valid_amd64.s:done
def done (zf : Bool) : Bool := zf                                   -- SETEQ ret+16(FP) ; RET
-- asm: valid_amd64.s:invalid
def invalid : Bool := imm lits_asm_valid_invalid 0 != 0             -- MOVB $0x00, ret+16(FP) ; RET

-- asm: valid_amd64.s:cmp1
def cmp1 (s : Bytes) (p n : Nat) : Bool :=
  if n == imm lits_asm_valid_cmp1 0 then done true                  -- CMPQ CX, $0x00 ; JE done   (ZF = 1 from the CMPQ)
  else done ((load8 s p &&& BitVec.ofNat 8 (imm lits_asm_valid_cmp1 1)) == 0)     -- TESTB $0x80, (AX) ; (falls into done)

-- asm: valid_amd64.s:cmp2
def cmp2 (s : Bytes) (p n : Nat) : Bool :=
  if n < imm lits_asm_valid_cmp2 0 then cmp1 s p n                  -- CMPQ CX, $0x02 ; JB cmp1
  else done ((load16 s p &&& BitVec.ofNat 16 (imm lits_asm_valid_cmp2 1)) == 0)   -- TESTW $0x8080, (AX) ; JMP done

-- asm: valid_amd64.s:cmp3   (the 3-byte tail: a 16-bit load ORed with an 8-bit load shifted by 16)
def cmp3 (s : Bytes) (p n : Nat) : Bool :=
  if n < imm lits_asm_valid_cmp3 0 then cmp2 s p n else             -- CMPQ CX, $0x03 ; JB cmp2
  let cx : BitVec 32 := (load16 s p).zeroExtend 32                  -- MOVWLZX (AX), CX     (CX is dead as a counter now)
  let ax : BitVec 32 := (load8 s (p + imm disp_asm_valid_cmp3 0)).zeroExtend 32   -- MOVBLZX 2(AX), AX
  let ax := ax <<< imm lits_asm_valid_cmp3 1                        -- SHLL $0x10, AX
  let ax := ax ||| cx                                               -- ORL CX, AX
  done ((ax &&& BitVec.ofNat 32 (imm lits_asm_valid_cmp3 2)) == 0)  -- TESTL $0x80808080, AX ; JMP done

-- asm: valid_amd64.s:cmp4   (not a loop: falls into cmp3)
def cmp4 (s : Bytes) (p n : Nat) : Bool :=
  if n < imm lits_asm_valid_cmp4 0 then cmp3 s p n else             -- CMPQ CX, $0x04 ; JB cmp3
  if (load32 s p &&& BitVec.ofNat 32 (imm lits_asm_valid_cmp4 1)) != 0 then invalid   -- TESTL $0x80808080, (AX) ; JNZ invalid
  else cmp3 s (p + imm lits_asm_valid_cmp4 2) (n - imm lits_asm_valid_cmp4 3)         -- ADDQ $0x04, AX ; SUBQ $0x04, CX

theorem cmp8_lits : imm lits_asm_valid_cmp8 0 = 8 ∧ imm lits_asm_valid_cmp8 1 = 8 ∧ imm lits_asm_valid_cmp8 2 = 8 := by decide

-- asm: valid_amd64.s:cmp8   (loop)
def cmp8 (dx : BitVec 64) (s : Bytes) (p n : Nat) : Bool :=
  if _h : n < imm lits_asm_valid_cmp8 0 then cmp4 s p n else         -- CMPQ CX, $0x08 ; JB cmp4
  if (load64 s p &&& dx) != 0 then invalid                          -- TESTQ DX, (AX) ; JNZ invalid
  else cmp8 dx s (p + imm lits_asm_valid_cmp8 1) (n - imm lits_asm_valid_cmp8 2)      -- ADDQ $0x08, AX ; SUBQ $0x08, CX ; JMP cmp8
termination_by n
decreasing_by have := cmp8_lits; omega

-- asm: valid_amd64.s:cmp_tail   (the OVERLAPPING final load: the last 16 bytes of the string, wherever the loop stopped)
def cmp_tail (y4 : Vec) (s : Bytes) (p n : Nat) : Bool :=
  let p := p + n - imm lits_asm_valid_cmp_tail 0                    -- SUBQ $0x10, CX ; ADDQ CX, AX
  done (vptestZF (vload s p 16) (xmm y4))                           -- VPTEST (AX), X4 ; JMP done

-- asm: valid_amd64.s:cmp16
def cmp16 (y4 : Vec) (s : Bytes) (p n : Nat) : Bool :=
  if n ≤ imm lits_asm_valid_cmp16 0 then cmp_tail y4 s p n else     -- CMPQ CX, $0x10 ; JLE cmp_tail
  if !vptestZF (vload s p 16) (xmm y4) then invalid                 -- VPTEST (AX), X4 ; JNZ invalid
  else cmp_tail y4 s (p + imm lits_asm_valid_cmp16 1) (n - imm lits_asm_valid_cmp16 2)   -- ADDQ $0x10, AX ; SUBQ $0x10, CX

-- asm: valid_amd64.s:cmp32
def cmp32 (y4 : Vec) (s : Bytes) (p n : Nat) : Bool :=
  if n < imm lits_asm_valid_cmp32 0 then cmp16 y4 s p n else        -- CMPQ CX, $0x20 ; JB cmp16
  if !vptestZF (vload s p 32) y4 then invalid                       -- VPTEST (AX), Y4 ; JNZ invalid
  else cmp16 y4 s (p + imm lits_asm_valid_cmp32 1) (n - imm lits_asm_valid_cmp32 2)      -- ADDQ $0x20, AX ; SUBQ $0x20, CX

-- asm: valid_amd64.s:cmp64
def cmp64 (y4 : Vec) (s : Bytes) (p n : Nat) : Bool :=
  if n < imm lits_asm_valid_cmp64 0 then cmp32 y4 s p n else        -- CMPQ CX, $0x40 ; JB cmp32
  let y0 := vload s p 32                                            -- VMOVDQU (AX), Y0
  let y0 := vpor (vload s (p + imm disp_asm_valid_cmp64 0) 32) y0   -- VPOR 32(AX), Y0, Y0
  if !vptestZF y0 y4 then invalid                                   -- VPTEST Y0, Y4 ; JNZ invalid
  else cmp32 y4 s (p + imm lits_asm_valid_cmp64 1) (n - imm lits_asm_valid_cmp64 2)      -- ADDQ $0x40, AX ; SUBQ $0x40, CX

-- asm: valid_amd64.s:cmp128
def cmp128 (y4 : Vec) (s : Bytes) (p n : Nat) : Bool :=
  if n < imm lits_asm_valid_cmp128 0 then cmp64 y4 s p n else       -- CMPQ CX, $0x80 ; JB cmp64
  let y0 := vload s p 32                                            -- VMOVDQU (AX), Y0
  let y0 := vpor (vload s (p + imm disp_asm_valid_cmp128 0) 32) y0  -- VPOR 32(AX), Y0, Y0
  let y1 := vload s (p + imm disp_asm_valid_cmp128 1) 32            -- VMOVDQU 64(AX), Y1
  let y1 := vpor (vload s (p + imm disp_asm_valid_cmp128 2) 32) y1  -- VPOR 96(AX), Y1, Y1
  let y0 := vpor y1 y0                                              -- VPOR Y1, Y0, Y0
  if !vptestZF y0 y4 then invalid                                   -- VPTEST Y0, Y4 ; JNZ invalid
  else cmp64 y4 s (p + imm lits_asm_valid_cmp128 1) (n - imm lits_asm_valid_cmp128 2)    -- ADDQ $0x80, AX ; SUBQ $0x80, CX

theorem cmp256_lits : imm lits_asm_valid_cmp256 0 = 256 ∧ imm lits_asm_valid_cmp256 1 = 256 ∧
    imm lits_asm_valid_cmp256 2 = 256 := by decide

-- asm: valid_amd64.s:cmp256   (loop)
def cmp256 (y4 : Vec) (s : Bytes) (p n : Nat) : Bool :=
  if _h : n < imm lits_asm_valid_cmp256 0 then cmp128 y4 s p n else  -- CMPQ CX, $0x00000100 ; JB cmp128
  let y0 := vload s p 32                                            -- VMOVDQU (AX), Y0
  let y0 := vpor (vload s (p + imm disp_asm_valid_cmp256 0) 32) y0  -- VPOR 32(AX), Y0, Y0
  let y1 := vload s (p + imm disp_asm_valid_cmp256 1) 32            -- VMOVDQU 64(AX), Y1
  let y1 := vpor (vload s (p + imm disp_asm_valid_cmp256 2) 32) y1  -- VPOR 96(AX), Y1, Y1
  let y2 := vload s (p + imm disp_asm_valid_cmp256 3) 32            -- VMOVDQU 128(AX), Y2
  let y2 := vpor (vload s (p + imm disp_asm_valid_cmp256 4) 32) y2  -- VPOR 160(AX), Y2, Y2
  let y3 := vload s (p + imm disp_asm_valid_cmp256 5) 32            -- VMOVDQU 192(AX), Y3
  let y3 := vpor (vload s (p + imm disp_asm_valid_cmp256 6) 32) y3  -- VPOR 224(AX), Y3, Y3
  let y0 := vpor y1 y0                                              -- VPOR Y1, Y0, Y0
  let y2 := vpor y3 y2                                              -- VPOR Y3, Y2, Y2
  let y0 := vpor y2 y0                                              -- VPOR Y2, Y0, Y0
  if !vptestZF y0 y4 then invalid                                   -- VPTEST Y0, Y4 ; JNZ invalid
  else cmp256 y4 s (p + imm lits_asm_valid_cmp256 1) (n - imm lits_asm_valid_cmp256 2)   -- ADDQ $0x100, AX ; SUBQ $0x100, CX ; JMP cmp256
termination_by n
decreasing_by have := cmp256_lits; omega

-- asm: valid_amd64.s:init_avx
def init_avx (dx : BitVec 64) (s : Bytes) (p n : Nat) : Bool :=
  let x4 := pinsrq (imm lits_asm_valid_init_avx 0) dx zeroX         -- PINSRQ $0x00, DX, X4
  let y4 := vpbroadcastq x4                                         -- VPBROADCASTQ X4, Y4
  cmp256 y4 s p n                                                   -- (falls into cmp256)

-- asm: valid_amd64.s:ValidString   (TEXT ·ValidString; `cpuX86` = the word github.com/segmentio/asm/cpu.X86)
def entry (cpuX86 : Nat) (s : Bytes) : Bool :=
  let ax := 0                                                       -- MOVQ s_base+0(FP), AX
  let cx := s.length                                                -- MOVQ s_len+8(FP), CX
  let dx := BitVec.ofNat 64 (imm lits_asm_valid_ValidString 0)      -- MOVQ $0x8080808080808080, DX
  if cx < imm lits_asm_valid_ValidString 1 then cmp8 dx s ax cx     -- CMPQ CX, $0x10 ; JB cmp8
  else if cpuX86.testBit (imm lits_asm_valid_ValidString 2) then init_avx dx s ax cx   -- BTL $0x08, cpu·X86 ; JCS init_avx
  else cmp8 dx s ax cx                                              -- (falls into cmp8)

end Valid

/-- `ascii.ValidString` of the assembly build, on a CPU with / without AVX2 -/
def asmValidString (hasAVX2 : Bool) (s : Bytes) : Bool := Valid.entry (if hasAVX2 then c_x86_AVX2 else 0) s

/-! ## valid_print_amd64.s — func ValidPrintString(s string) bool -/
namespace ValidPrint

-- asm: valid_print_amd64.s:done
def done (zf : Bool) : Bool := zf                                   -- SETEQ ret+16(FP) ; RET

-- asm: valid_print_amd64.s:final   (32-bit hasLess(x,0x20) | hasMore(x,0x7e) on the padded tail word)
def final (ax : BitVec 32) : Bool :=
  let cx := ax                                                      -- MOVL AX, CX
  let dx := ax + BitVec.ofNat 32 (imm disp_asm_valid_print_final 0) -- LEAL 3755991008(AX), DX
  let cx := ~~~cx                                                   -- NOTL CX
  let dx := dx &&& cx                                               -- ANDL CX, DX
  let cx := ax + BitVec.ofNat 32 (imm disp_asm_valid_print_final 1) -- LEAL 16843009(AX), CX
  let ax := ax ||| cx                                               -- ORL CX, AX
  let ax := ax ||| dx                                               -- ORL DX, AX
  done ((ax &&& BitVec.ofNat 32 (imm lits_asm_valid_print_final 0)) == 0)   -- TESTL $0x80808080, AX ; (falls into done)

-- asm: valid_print_amd64.s:cmp1
def cmp1 (s : Bytes) (p n : Nat) : Bool :=
  if n == imm lits_asm_valid_print_cmp1 0 then done true else       -- CMPQ CX, $0x00 ; JE done   (ZF = 1)
  let ax : BitVec 32 := (load8 s p).zeroExtend 32                   -- MOVBLZX (AX), AX
  final (ax ||| BitVec.ofNat 32 (imm lits_asm_valid_print_cmp1 1))  -- ORL $0x20202000, AX ; (falls into final)

-- asm: valid_print_amd64.s:cmp2
def cmp2 (s : Bytes) (p n : Nat) : Bool :=
  if n < imm lits_asm_valid_print_cmp2 0 then cmp1 s p n else       -- CMPQ CX, $0x02 ; JB cmp1
  let ax : BitVec 32 := (load16 s p).zeroExtend 32                  -- MOVWLZX (AX), AX
  final (ax ||| BitVec.ofNat 32 (imm lits_asm_valid_print_cmp2 1))  -- ORL $0x20200000, AX ; JMP final

-- asm: valid_print_amd64.s:cmp3
def cmp3 (s : Bytes) (p n : Nat) : Bool :=
  if n < imm lits_asm_valid_print_cmp3 0 then cmp2 s p n else       -- CMPQ CX, $0x03 ; JB cmp2
  let dx : BitVec 32 := (load16 s p).zeroExtend 32                  -- MOVWLZX (AX), DX
  let ax : BitVec 32 := (load8 s (p + imm disp_asm_valid_print_cmp3 0)).zeroExtend 32    -- MOVBLZX 2(AX), AX
  let ax := ax <<< imm lits_asm_valid_print_cmp3 1                  -- SHLL $0x10, AX
  let ax := ax ||| dx                                               -- ORL DX, AX
  final (ax ||| BitVec.ofNat 32 (imm lits_asm_valid_print_cmp3 2))  -- ORL $0x20000000, AX ; JMP final

-- asm: valid_print_amd64.s:cmp4
def cmp4 (s : Bytes) (p n : Nat) : Bool :=
  if n < imm lits_asm_valid_print_cmp4 0 then cmp3 s p n else       -- CMPQ CX, $0x04 ; JB cmp3
  let dx := load32 s p                                              -- MOVL (AX), DX
  let bx := dx                                                      -- MOVL DX, BX
  let si := dx + BitVec.ofNat 32 (imm disp_asm_valid_print_cmp4 0)  -- LEAL 3755991008(DX), SI
  let bx := ~~~bx                                                   -- NOTL BX
  let si := si &&& bx                                               -- ANDL BX, SI
  let bx := dx + BitVec.ofNat 32 (imm disp_asm_valid_print_cmp4 1)  -- LEAL 16843009(DX), BX
  let dx := dx ||| bx                                               -- ORL BX, DX
  let dx := dx ||| si                                               -- ORL SI, DX
  let p := p + imm lits_asm_valid_print_cmp4 1                      -- ADDQ $0x04, AX
  let n := n - imm lits_asm_valid_print_cmp4 2                      -- SUBQ $0x04, CX
  if (dx &&& BitVec.ofNat 32 (imm lits_asm_valid_print_cmp4 3)) != 0 then done false     -- TESTL $0x80808080, DX ; JNE done (ZF = 0)
  else cmp3 s p n                                                   -- (falls into cmp3)

theorem cmp8_lits : imm lits_asm_valid_print_cmp8 0 = 8 ∧ imm lits_asm_valid_print_cmp8 1 = 8 ∧
    imm lits_asm_valid_print_cmp8 2 = 8 := by decide

-- asm: valid_print_amd64.s:cmp8   (do-while loop: entered only with CX ≥ 8; DX, BX, SI hold the three constants)
def cmp8 (dx bx si : BitVec 64) (s : Bytes) (p n : Nat) : Bool :=
  let di := load64 s p                                              -- MOVQ (AX), DI
  let r8 := di                                                      -- MOVQ DI, R8
  let r9 := di + dx                                                 -- LEAQ (DI)(DX*1), R9
  let r8 := ~~~r8                                                   -- NOTQ R8
  let r9 := r9 &&& r8                                               -- ANDQ R8, R9
  let r8 := di + bx                                                 -- LEAQ (DI)(BX*1), R8
  let di := di ||| r8                                               -- ORQ R8, DI
  let di := di ||| r9                                               -- ORQ R9, DI
  let p' := p + imm lits_asm_valid_print_cmp8 0                     -- ADDQ $0x08, AX
  let n' := n - imm lits_asm_valid_print_cmp8 1                     -- SUBQ $0x08, CX
  if (di &&& si) != 0 then done false                               -- TESTQ SI, DI ; JNE done (ZF = 0)
  else if _h : n' < imm lits_asm_valid_print_cmp8 2 then cmp4 s p' n'    -- CMPQ CX, $0x08 ; JB cmp4
  else cmp8 dx bx si s p' n'                                        -- JMP cmp8
termination_by n
decreasing_by have := cmp8_lits; omega

-- asm: valid_print_amd64.s:init_x86
def init_x86 (s : Bytes) (p n : Nat) : Bool :=
  if n < imm lits_asm_valid_print_init_x86 0 then cmp4 s p n else   -- CMPQ CX, $0x08 ; JB cmp4
  let dx := BitVec.ofNat 64 (imm lits_asm_valid_print_init_x86 1)   -- MOVQ $0xdfdfdfdfdfdfdfe0, DX
  let bx := BitVec.ofNat 64 (imm lits_asm_valid_print_init_x86 2)   -- MOVQ $0x0101010101010101, BX
  let si := BitVec.ofNat 64 (imm lits_asm_valid_print_init_x86 3)   -- MOVQ $0x8080808080808080, SI
  cmp8 dx bx si s p n                                               -- (falls into cmp8)

/-- the three-instruction group applied to every loaded vector `v` (Y8 = 0x1f lanes, Y9 = 0x7e lanes):
lane = 0xFF iff `0x1f < v` and not `0x7e < v` as SIGNED bytes (so bytes ≥ 0x80, negative, fail the first test) -/
def printMask (y8 y9 v : Vec) : Vec :=
  let t := vpcmpgtb y8 v                                            -- VPCMPGTB Y8, Y0, Y4
  let u := vpcmpgtb y9 v                                            -- VPCMPGTB Y9, Y0, Y0
  vpandn t u                                                        -- VPANDN Y4, Y0, Y0

-- asm: valid_print_amd64.s:cmp_tail   (overlapping final 16-byte load)
def cmp_tail (y8 y9 : Vec) (s : Bytes) (p n : Nat) : Bool :=
  let p := p + n - imm lits_asm_valid_print_cmp_tail 0              -- SUBQ $0x10, CX ; ADDQ CX, AX
  let x0 := printMask (xmm y8) (xmm y9) (vload s p 16)              -- VMOVDQU (AX), X0 ; VPCMPGTB X8,X0,X1 ; VPCMPGTB X9,X0,X0 ; VPANDN X1,X0,X0
  let dx := vpmovmskb x0                                            -- VPMOVMSKB X0, DX
  done ((dx ^^^ BitVec.ofNat 32 (imm lits_asm_valid_print_cmp_tail 1)) == 0)   -- XORL $0x0000ffff, DX ; JMP done

-- asm: valid_print_amd64.s:cmp16
def cmp16 (y8 y9 : Vec) (s : Bytes) (p n : Nat) : Bool :=
  if n ≤ imm lits_asm_valid_print_cmp16 0 then cmp_tail y8 y9 s p n else   -- CMPQ CX, $0x10 ; JLE cmp_tail
  let x0 := printMask (xmm y8) (xmm y9) (vload s p 16)              -- VMOVDQU (AX), X0 ; VPCMPGTB ×2 ; VPANDN
  let p' := p + imm lits_asm_valid_print_cmp16 1                    -- ADDQ $0x10, AX
  let n' := n - imm lits_asm_valid_print_cmp16 2                    -- SUBQ $0x10, CX
  let dx := vpmovmskb x0                                            -- VPMOVMSKB X0, DX
  if (dx ^^^ BitVec.ofNat 32 (imm lits_asm_valid_print_cmp16 3)) != 0 then done false   -- XORL $0x0000ffff, DX ; JNE done
  else cmp_tail y8 y9 s p' n'

-- asm: valid_print_amd64.s:cmp32
def cmp32 (y8 y9 : Vec) (s : Bytes) (p n : Nat) : Bool :=
  if n < imm lits_asm_valid_print_cmp32 0 then cmp16 y8 y9 s p n else      -- CMPQ CX, $0x20 ; JB cmp16
  let y0 := printMask y8 y9 (vload s p 32)                          -- VMOVDQU (AX), Y0 ; VPCMPGTB ×2 ; VPANDN
  let p' := p + imm lits_asm_valid_print_cmp32 1                    -- ADDQ $0x20, AX
  let n' := n - imm lits_asm_valid_print_cmp32 2                    -- SUBQ $0x20, CX
  let dx := vpmovmskb y0                                            -- VPMOVMSKB Y0, DX
  if (dx ^^^ BitVec.ofNat 32 (imm lits_asm_valid_print_cmp32 3)) != 0 then done false   -- XORL $0xffffffff, DX ; JNE done
  else cmp16 y8 y9 s p' n'

-- asm: valid_print_amd64.s:cmp64
def cmp64 (y8 y9 : Vec) (s : Bytes) (p n : Nat) : Bool :=
  if n < imm lits_asm_valid_print_cmp64 0 then cmp32 y8 y9 s p n else      -- CMPQ CX, $0x40 ; JB cmp32
  let y0 := printMask y8 y9 (vload s p 32)                                          -- VMOVDQU (AX), Y0 ; group
  let y1 := printMask y8 y9 (vload s (p + imm disp_asm_valid_print_cmp64 0) 32)     -- VMOVDQU 32(AX), Y1 ; group
  let y0 := vpand y1 y0                                             -- VPAND Y1, Y0, Y0
  let p' := p + imm lits_asm_valid_print_cmp64 1                    -- ADDQ $0x40, AX
  let n' := n - imm lits_asm_valid_print_cmp64 2                    -- SUBQ $0x40, CX
  let dx := vpmovmskb y0                                            -- VPMOVMSKB Y0, DX
  if (dx ^^^ BitVec.ofNat 32 (imm lits_asm_valid_print_cmp64 3)) != 0 then done false   -- XORL $0xffffffff, DX ; JNE done
  else cmp32 y8 y9 s p' n'

theorem cmp128_lits : imm lits_asm_valid_print_cmp128 0 = 128 ∧ imm lits_asm_valid_print_cmp128 1 = 128 ∧
    imm lits_asm_valid_print_cmp128 2 = 128 := by decide

-- asm: valid_print_amd64.s:cmp128   (loop)
def cmp128 (y8 y9 : Vec) (s : Bytes) (p n : Nat) : Bool :=
  if _h : n < imm lits_asm_valid_print_cmp128 0 then cmp64 y8 y9 s p n else -- CMPQ CX, $0x80 ; JB cmp64
  let y0 := printMask y8 y9 (vload s p 32)                                          -- VMOVDQU (AX), Y0 ; group
  let y1 := printMask y8 y9 (vload s (p + imm disp_asm_valid_print_cmp128 0) 32)    -- VMOVDQU 32(AX), Y1 ; group
  let y2 := printMask y8 y9 (vload s (p + imm disp_asm_valid_print_cmp128 1) 32)    -- VMOVDQU 64(AX), Y2 ; group
  let y3 := printMask y8 y9 (vload s (p + imm disp_asm_valid_print_cmp128 2) 32)    -- VMOVDQU 96(AX), Y3 ; group
  let y0 := vpand y1 y0                                             -- VPAND Y1, Y0, Y0
  let y2 := vpand y3 y2                                             -- VPAND Y3, Y2, Y2
  let y0 := vpand y2 y0                                             -- VPAND Y2, Y0, Y0
  let p' := p + imm lits_asm_valid_print_cmp128 1                   -- ADDQ $0x80, AX
  let n' := n - imm lits_asm_valid_print_cmp128 2                   -- SUBQ $0x80, CX
  let dx := vpmovmskb y0                                            -- VPMOVMSKB Y0, DX
  if (dx ^^^ BitVec.ofNat 32 (imm lits_asm_valid_print_cmp128 3)) != 0 then done false  -- XORL $0xffffffff, DX ; JNE done
  else cmp128 y8 y9 s p' n'                                         -- JMP cmp128
termination_by n
decreasing_by have := cmp128_lits; omega

-- asm: valid_print_amd64.s:init_avx
def init_avx (s : Bytes) (p n : Nat) : Bool :=
  let dl := UInt8.ofNat (imm lits_asm_valid_print_init_avx 0)       -- MOVB $0x1f, DL
  let x8 := pinsrb (imm lits_asm_valid_print_init_avx 1) dl zeroX   -- PINSRB $0x00, DX, X8
  let y8 := vpbroadcastb x8                                         -- VPBROADCASTB X8, Y8
  let dl := UInt8.ofNat (imm lits_asm_valid_print_init_avx 2)       -- MOVB $0x7e, DL
  let x9 := pinsrb (imm lits_asm_valid_print_init_avx 3) dl zeroX   -- PINSRB $0x00, DX, X9
  let y9 := vpbroadcastb x9                                         -- VPBROADCASTB X9, Y9
  cmp128 y8 y9 s p n                                                -- (falls into cmp128)

-- asm: valid_print_amd64.s:ValidPrintString
def entry (cpuX86 : Nat) (s : Bytes) : Bool :=
  let ax := 0                                                       -- MOVQ s_base+0(FP), AX
  let cx := s.length                                                -- MOVQ s_len+8(FP), CX
  if cx < imm lits_asm_valid_print_ValidPrintString 0 then init_x86 s ax cx           -- CMPQ CX, $0x10 ; JB init_x86
  else if cpuX86.testBit (imm lits_asm_valid_print_ValidPrintString 1) then init_avx s ax cx   -- BTL $0x08, cpu·X86 ; JCS init_avx
  else init_x86 s ax cx                                             -- (falls into init_x86)

end ValidPrint

def asmValidPrintString (hasAVX2 : Bool) (s : Bytes) : Bool := ValidPrint.entry (if hasAVX2 then c_x86_AVX2 else 0) s

/-! ## equal_fold_amd64.s — func EqualFoldString(a string, b string) bool -/
namespace EqualFold

-- asm: equal_fold_amd64.s:done
def done (zf : Bool) : Bool := zf                                   -- SETEQ ret+32(FP) ; RET
-- asm: equal_fold_amd64.s:success
def success : Bool := imm lits_asm_equal_fold_success 0 != 0        -- MOVB $0x01, ret+32(FP) ; RET

/-- the five-instruction group of the scalar path, for the byte at offset `da` / `db` from the index AX
(R9 = &lowerCase, the 256-byte table of the Go source, `Gen.t_asmascii_lowerCase`) -/
def step (a b : Bytes) (ax da db : Nat) (si : UInt8) : UInt8 :=
  let di := byteAt a (ax + da)                                      -- MOVBLZX da(CX)(AX*1), DI
  let r8 := byteAt b (ax + db)                                      -- MOVBLZX db(BX)(AX*1), R8
  let di := Model.Ascii.lowerCase di                                -- MOVB (R9)(DI*1), DI
  let di := di ^^^ Model.Ascii.lowerCase r8                         -- XORB (R9)(R8*1), DI
  si ||| di                                                         -- ORB DI, SI

-- asm: equal_fold_amd64.s:cmp1
def cmp1 (a b : Bytes) (ax dx : Nat) (si : UInt8) : Bool :=
  if dx < imm lits_asm_equal_fold_cmp1 0 then success else          -- CMPQ DX, $0x01 ; JB success
  done (step a b ax 0 0 si == 0)                                    -- group at (CX)(AX*1) ; (falls into done: ZF of the ORB)

-- asm: equal_fold_amd64.s:cmp2
def cmp2 (a b : Bytes) (ax dx : Nat) (si : UInt8) : Bool :=
  if dx < imm lits_asm_equal_fold_cmp2 0 then cmp1 a b ax dx si else                  -- CMPQ DX, $0x02 ; JB cmp1
  cmp1 a b ax dx (step a b ax (imm disp_asm_equal_fold_cmp2 0) (imm disp_asm_equal_fold_cmp2 1) si)   -- group at 1(..)
-- asm: equal_fold_amd64.s:cmp3
def cmp3 (a b : Bytes) (ax dx : Nat) (si : UInt8) : Bool :=
  if dx < imm lits_asm_equal_fold_cmp3 0 then cmp2 a b ax dx si else                  -- CMPQ DX, $0x03 ; JB cmp2
  cmp2 a b ax dx (step a b ax (imm disp_asm_equal_fold_cmp3 0) (imm disp_asm_equal_fold_cmp3 1) si)   -- group at 2(..)
-- asm: equal_fold_amd64.s:cmp4
def cmp4 (a b : Bytes) (ax dx : Nat) (si : UInt8) : Bool :=
  if dx < imm lits_asm_equal_fold_cmp4 0 then cmp3 a b ax dx si else                  -- CMPQ DX, $0x04 ; JB cmp3
  cmp3 a b ax dx (step a b ax (imm disp_asm_equal_fold_cmp4 0) (imm disp_asm_equal_fold_cmp4 1) si)   -- group at 3(..)
-- asm: equal_fold_amd64.s:cmp5
def cmp5 (a b : Bytes) (ax dx : Nat) (si : UInt8) : Bool :=
  if dx < imm lits_asm_equal_fold_cmp5 0 then cmp4 a b ax dx si else                  -- CMPQ DX, $0x05 ; JB cmp4
  cmp4 a b ax dx (step a b ax (imm disp_asm_equal_fold_cmp5 0) (imm disp_asm_equal_fold_cmp5 1) si)   -- group at 4(..)
-- asm: equal_fold_amd64.s:cmp6
def cmp6 (a b : Bytes) (ax dx : Nat) (si : UInt8) : Bool :=
  if dx < imm lits_asm_equal_fold_cmp6 0 then cmp5 a b ax dx si else                  -- CMPQ DX, $0x06 ; JB cmp5
  cmp5 a b ax dx (step a b ax (imm disp_asm_equal_fold_cmp6 0) (imm disp_asm_equal_fold_cmp6 1) si)   -- group at 5(..)
-- asm: equal_fold_amd64.s:cmp7
def cmp7 (a b : Bytes) (ax dx : Nat) (si : UInt8) : Bool :=
  if dx < imm lits_asm_equal_fold_cmp7 0 then cmp6 a b ax dx si else                  -- CMPQ DX, $0x07 ; JB cmp6
  cmp6 a b ax dx (step a b ax (imm disp_asm_equal_fold_cmp7 0) (imm disp_asm_equal_fold_cmp7 1) si)   -- group at 6(..)

theorem cmp8_lits : imm lits_asm_equal_fold_cmp8 0 = 8 ∧ imm lits_asm_equal_fold_cmp8 1 = 8 ∧
    imm lits_asm_equal_fold_cmp8 2 = 8 := by decide

-- asm: equal_fold_amd64.s:cmp8   (loop; eight groups, then one test of the OR-accumulator)
def cmp8 (a b : Bytes) (ax dx : Nat) (si : UInt8) : Bool :=
  if _h : dx < imm lits_asm_equal_fold_cmp8 0 then cmp7 a b ax dx si else              -- CMPQ DX, $0x08 ; JB cmp7
  let D := disp_asm_equal_fold_cmp8
  let si := step a b ax 0 0 si                                      -- group at (CX)(AX*1) / (BX)(AX*1)
  let si := step a b ax (imm D 0) (imm D 1) si                      -- group at 1(..)
  let si := step a b ax (imm D 2) (imm D 3) si                      -- group at 2(..)
  let si := step a b ax (imm D 4) (imm D 5) si                      -- group at 3(..)
  let si := step a b ax (imm D 6) (imm D 7) si                      -- group at 4(..)
  let si := step a b ax (imm D 8) (imm D 9) si                      -- group at 5(..)
  let si := step a b ax (imm D 10) (imm D 11) si                    -- group at 6(..)
  let si := step a b ax (imm D 12) (imm D 13) si                    -- group at 7(..)
  if si != 0 then done false                                        -- JNE done   (ZF = 0 from the last ORB DI, SI)
  else cmp8 a b (ax + imm lits_asm_equal_fold_cmp8 1) (dx - imm lits_asm_equal_fold_cmp8 2) si   -- ADDQ $0x08, AX ; SUBQ $0x08, DX ; JMP cmp8
termination_by dx
decreasing_by have := cmp8_lits; omega

-- asm: equal_fold_amd64.s:init_x86
def init_x86 (a b : Bytes) (ax dx : Nat) : Bool :=
  let si : UInt8 := 0                                               -- LEAQ ascii·lowerCase+0(SB), R9 ; XORL SI, SI
  cmp8 a b ax dx si                                                 -- (falls into cmp8)

/-- the nine-instruction group applied to a pair of loaded vectors (Y12 = 0x20, Y13 = 0x1f, Y14 = 0x9a, Y15 = 0x01 lanes):
lane = 0xFF iff `a ^ b` equals 0x20 when (`a ^ b = 0x20` and `a|0x20` is a letter) and 0 otherwise -/
def foldMask (y12 y13 y14 y15 : Vec) (k : Nat) (va vb : Vec) : Vec :=
  let d := vpxor va vb                                              -- VXORPD Y0, Y4, Y4
  let e := vpcmpeqb y12 d                                           -- VPCMPEQB Y12, Y4, Y8
  let t := vpor y12 va                                              -- VORPD Y12, Y0, Y0
  let t := vpaddb y13 t                                             -- VPADDB Y13, Y0, Y0
  let t := vpcmpgtb t y14                                           -- VPCMPGTB Y0, Y14, Y0     (Y14 > Y0, signed)
  let t := vpand e t                                                -- VPAND Y8, Y0, Y0
  let t := vpand y15 t                                              -- VPAND Y15, Y0, Y0
  let t := vpsllw k t                                               -- VPSLLW $0x05, Y0, Y0
  vpcmpeqb d t                                                      -- VPCMPEQB Y4, Y0, Y0

structure K where
  y12 : Vec
  y13 : Vec
  y14 : Vec
  y15 : Vec

def K.x (c : K) : K := ⟨xmm c.y12, xmm c.y13, xmm c.y14, xmm c.y15⟩

-- asm: equal_fold_amd64.s:cmp_tail
def cmp_tail (c : K) (a b : Bytes) (ax dx : Nat) : Bool :=
  let ax := ax + dx - imm lits_asm_equal_fold_cmp_tail 0            -- SUBQ $0x10, DX ; ADDQ DX, AX
  let x0 := foldMask c.x.y12 c.x.y13 c.x.y14 c.x.y15 (imm lits_asm_equal_fold_cmp_tail 1)
              (vload a ax 16) (vload b ax 16)                       -- VMOVDQU (CX)(AX*1), X0 ; VMOVDQU (BX)(AX*1), X1 ; group
  let r := vpmovmskb x0                                             -- VPMOVMSKB X0, AX
  done ((r ^^^ BitVec.ofNat 32 (imm lits_asm_equal_fold_cmp_tail 2)) == 0)   -- XORL $0x0000ffff, AX ; JMP done

-- asm: equal_fold_amd64.s:cmp16
def cmp16 (c : K) (a b : Bytes) (ax dx : Nat) : Bool :=
  if dx ≤ imm lits_asm_equal_fold_cmp16 0 then cmp_tail c a b ax dx else               -- CMPQ DX, $0x10 ; JLE cmp_tail
  let x0 := foldMask c.x.y12 c.x.y13 c.x.y14 c.x.y15 (imm lits_asm_equal_fold_cmp16 1)
              (vload a ax 16) (vload b ax 16)                       -- VMOVDQU ×2 ; group
  let ax' := ax + imm lits_asm_equal_fold_cmp16 2                   -- ADDQ $0x10, AX
  let dx' := dx - imm lits_asm_equal_fold_cmp16 3                   -- SUBQ $0x10, DX
  let si := vpmovmskb x0                                            -- VPMOVMSKB X0, SI
  if (si ^^^ BitVec.ofNat 32 (imm lits_asm_equal_fold_cmp16 4)) != 0 then done false   -- XORL $0x0000ffff, SI ; JNE done
  else cmp_tail c a b ax' dx'

-- asm: equal_fold_amd64.s:cmp32
def cmp32 (c : K) (a b : Bytes) (ax dx : Nat) : Bool :=
  if dx < imm lits_asm_equal_fold_cmp32 0 then cmp16 c a b ax dx else                  -- CMPQ DX, $0x20 ; JB cmp16
  let y0 := foldMask c.y12 c.y13 c.y14 c.y15 (imm lits_asm_equal_fold_cmp32 1)
              (vload a ax 32) (vload b ax 32)                       -- VMOVDQU (CX)(AX*1), Y0 ; VMOVDQU (BX)(AX*1), Y1 ; group
  let ax' := ax + imm lits_asm_equal_fold_cmp32 2                   -- ADDQ $0x20, AX
  let dx' := dx - imm lits_asm_equal_fold_cmp32 3                   -- SUBQ $0x20, DX
  let si := vpmovmskb y0                                            -- VPMOVMSKB Y0, SI
  if (si ^^^ BitVec.ofNat 32 (imm lits_asm_equal_fold_cmp32 4)) != 0 then done false   -- XORL $0xffffffff, SI ; JNE done
  else cmp16 c a b ax' dx'

-- asm: equal_fold_amd64.s:cmp64
def cmp64 (c : K) (a b : Bytes) (ax dx : Nat) : Bool :=
  if dx < imm lits_asm_equal_fold_cmp64 0 then cmp32 c a b ax dx else                  -- CMPQ DX, $0x40 ; JB cmp32
  let D := disp_asm_equal_fold_cmp64
  let L := lits_asm_equal_fold_cmp64
  let y0 := foldMask c.y12 c.y13 c.y14 c.y15 (imm L 1) (vload a ax 32) (vload b ax 32)                         -- loads (CX)/(BX) ; group
  let y1 := foldMask c.y12 c.y13 c.y14 c.y15 (imm L 2) (vload a (ax + imm D 0) 32) (vload b (ax + imm D 1) 32) -- loads 32(CX)/32(BX) ; group
  let y0 := vpand y1 y0                                             -- VPAND Y1, Y0, Y0
  let ax' := ax + imm L 3                                           -- ADDQ $0x40, AX
  let dx' := dx - imm L 4                                           -- SUBQ $0x40, DX
  let si := vpmovmskb y0                                            -- VPMOVMSKB Y0, SI
  if (si ^^^ BitVec.ofNat 32 (imm L 5)) != 0 then done false        -- XORL $0xffffffff, SI ; JNE done
  else cmp32 c a b ax' dx'

theorem cmp128_lits : imm lits_asm_equal_fold_cmp128 0 = 128 ∧ imm lits_asm_equal_fold_cmp128 5 = 128 ∧
    imm lits_asm_equal_fold_cmp128 6 = 128 := by decide

-- asm: equal_fold_amd64.s:cmp128   (loop)
def cmp128 (c : K) (a b : Bytes) (ax dx : Nat) : Bool :=
  if _h : dx < imm lits_asm_equal_fold_cmp128 0 then cmp64 c a b ax dx else             -- CMPQ DX, $0x80 ; JB cmp64
  let D := disp_asm_equal_fold_cmp128
  let L := lits_asm_equal_fold_cmp128
  -- loads: VMOVDQU (CX)(AX*1),Y0 ; 32(CX),Y1 ; 64(CX),Y2 ; 96(CX),Y3 ; (BX),Y4 ; 32(BX),Y5 ; 64(BX),Y6 ; 96(BX),Y7
  let y0 := foldMask c.y12 c.y13 c.y14 c.y15 (imm L 1) (vload a ax 32) (vload b ax 32)
  let y1 := foldMask c.y12 c.y13 c.y14 c.y15 (imm L 2) (vload a (ax + imm D 0) 32) (vload b (ax + imm D 3) 32)
  let y2 := foldMask c.y12 c.y13 c.y14 c.y15 (imm L 3) (vload a (ax + imm D 1) 32) (vload b (ax + imm D 4) 32)
  let y3 := foldMask c.y12 c.y13 c.y14 c.y15 (imm L 4) (vload a (ax + imm D 2) 32) (vload b (ax + imm D 5) 32)
  let y0 := vpand y1 y0                                             -- VPAND Y1, Y0, Y0
  let y2 := vpand y3 y2                                             -- VPAND Y3, Y2, Y2
  let y0 := vpand y2 y0                                             -- VPAND Y2, Y0, Y0
  let ax' := ax + imm L 5                                           -- ADDQ $0x80, AX
  let dx' := dx - imm L 6                                           -- SUBQ $0x80, DX
  let si := vpmovmskb y0                                            -- VPMOVMSKB Y0, SI
  if (si ^^^ BitVec.ofNat 32 (imm L 7)) != 0 then done false        -- XORL $0xffffffff, SI ; JNE done
  else cmp128 c a b ax' dx'                                         -- JMP cmp128
termination_by dx
decreasing_by have := cmp128_lits; omega

-- asm: equal_fold_amd64.s:init_avx
def init_avx (a b : Bytes) (ax dx : Nat) : Bool :=
  let L := lits_asm_equal_fold_init_avx
  let y12 := vpbroadcastb (pinsrb (imm L 1) (UInt8.ofNat (imm L 0)) zeroX)    -- MOVB $0x20, SI ; PINSRB $0x00, SI, X12 ; VPBROADCASTB X12, Y12
  let y13 := vpbroadcastb (pinsrb (imm L 3) (UInt8.ofNat (imm L 2)) zeroX)    -- MOVB $0x1f, SI ; PINSRB $0x00, SI, X13 ; VPBROADCASTB X13, Y13
  let y14 := vpbroadcastb (pinsrb (imm L 5) (UInt8.ofNat (imm L 4)) zeroX)    -- MOVB $0x9a, SI ; PINSRB $0x00, SI, X14 ; VPBROADCASTB X14, Y14
  let y15 := vpbroadcastb (pinsrb (imm L 7) (UInt8.ofNat (imm L 6)) zeroX)    -- MOVB $0x01, SI ; PINSRB $0x00, SI, X15 ; VPBROADCASTB X15, Y15
  cmp128 ⟨y12, y13, y14, y15⟩ a b ax dx                             -- (falls into cmp128)

-- asm: equal_fold_amd64.s:EqualFoldString
def entry (cpuX86 : Nat) (a b : Bytes) : Bool :=
  let dx := a.length                                                -- MOVQ a_base+0(FP), CX ; MOVQ a_len+8(FP), DX ; MOVQ b_base+16(FP), BX
  if dx != b.length then done false else                            -- CMPQ DX, b_len+24(FP) ; JNE done   (ZF = 0)
  let ax := 0                                                       -- XORQ AX, AX
  if dx < imm lits_asm_equal_fold_EqualFoldString 0 then init_x86 a b ax dx            -- CMPQ DX, $0x10 ; JB init_x86
  else if cpuX86.testBit (imm lits_asm_equal_fold_EqualFoldString 1) then init_avx a b ax dx   -- BTL $0x08, cpu·X86 ; JCS init_avx
  else init_x86 a b ax dx                                           -- (falls into init_x86)

end EqualFold

def asmEqualFoldString (hasAVX2 : Bool) (a b : Bytes) : Bool := EqualFold.entry (if hasAVX2 then c_x86_AVX2 else 0) a b

/-! ## the instruction sequences this model mirrors (hand-copied snapshot of the three .s files, v1.1.3)

`asm_labels_*` pin the blocks of a file and their order (fall-through order), `asm_shape_*` the mnemonics of a block,
`asm_text_*` (in `Enc/Model/AsciiAsmPins.lean`) its complete instruction text (operands, registers, immediates,
displacements, jump targets). The right-hand
sides are literal copies; the left-hand sides are regenerated from the .s files — any edit of a kernel breaks the
corresponding fact. -/
namespace Pins

theorem asm_labels_equal_fold : labels_asm_equal_fold =
    ["EqualFoldString", "init_x86", "cmp8", "cmp7", "cmp6", "cmp5", "cmp4", "cmp3", "cmp2", "cmp1", "done", "success", "init_avx", "cmp128", "cmp64", "cmp32", "cmp16", "cmp_tail"] := by decide

theorem asm_labels_valid : labels_asm_valid =
    ["ValidString", "cmp8", "cmp4", "cmp3", "cmp2", "cmp1", "done", "invalid", "init_avx", "cmp256", "cmp128", "cmp64", "cmp32", "cmp16", "cmp_tail"] := by decide

theorem asm_labels_valid_print : labels_asm_valid_print =
    ["ValidPrintString", "init_x86", "cmp8", "cmp4", "cmp3", "cmp2", "cmp1", "final", "done", "init_avx", "cmp128", "cmp64", "cmp32", "cmp16", "cmp_tail"] := by decide

theorem asm_shape_equal_fold_EqualFoldString : ops_asm_equal_fold_EqualFoldString =
    ["MOVQ", "MOVQ", "MOVQ", "CMPQ", "JNE", "XORQ", "CMPQ", "JB", "BTL", "JCS"] := by decide

theorem asm_shape_equal_fold_init_x86 : ops_asm_equal_fold_init_x86 =
    ["LEAQ", "XORL"] := by decide

theorem asm_shape_equal_fold_cmp8 : ops_asm_equal_fold_cmp8 =
    ["CMPQ", "JB", "MOVBLZX", "MOVBLZX", "MOVB", "XORB", "ORB", "MOVBLZX", "MOVBLZX", "MOVB", "XORB", "ORB", "MOVBLZX", "MOVBLZX", "MOVB", "XORB", "ORB", "MOVBLZX", "MOVBLZX", "MOVB", "XORB", "ORB", "MOVBLZX", "MOVBLZX", "MOVB", "XORB", "ORB", "MOVBLZX", "MOVBLZX", "MOVB", "XORB", "ORB", "MOVBLZX", "MOVBLZX", "MOVB", "XORB", "ORB", "MOVBLZX", "MOVBLZX", "MOVB", "XORB", "ORB", "JNE", "ADDQ", "SUBQ", "JMP"] := by decide

theorem asm_shape_equal_fold_cmp7 : ops_asm_equal_fold_cmp7 =
    ["CMPQ", "JB", "MOVBLZX", "MOVBLZX", "MOVB", "XORB", "ORB"] := by decide

theorem asm_shape_equal_fold_cmp6 : ops_asm_equal_fold_cmp6 =
    ["CMPQ", "JB", "MOVBLZX", "MOVBLZX", "MOVB", "XORB", "ORB"] := by decide

theorem asm_shape_equal_fold_cmp5 : ops_asm_equal_fold_cmp5 =
    ["CMPQ", "JB", "MOVBLZX", "MOVBLZX", "MOVB", "XORB", "ORB"] := by decide

theorem asm_shape_equal_fold_cmp4 : ops_asm_equal_fold_cmp4 =
    ["CMPQ", "JB", "MOVBLZX", "MOVBLZX", "MOVB", "XORB", "ORB"] := by decide

theorem asm_shape_equal_fold_cmp3 : ops_asm_equal_fold_cmp3 =
    ["CMPQ", "JB", "MOVBLZX", "MOVBLZX", "MOVB", "XORB", "ORB"] := by decide

theorem asm_shape_equal_fold_cmp2 : ops_asm_equal_fold_cmp2 =
    ["CMPQ", "JB", "MOVBLZX", "MOVBLZX", "MOVB", "XORB", "ORB"] := by decide

theorem asm_shape_equal_fold_cmp1 : ops_asm_equal_fold_cmp1 =
    ["CMPQ", "JB", "MOVBLZX", "MOVBLZX", "MOVB", "XORB", "ORB"] := by decide

theorem asm_shape_equal_fold_done : ops_asm_equal_fold_done =
    ["SETEQ", "RET"] := by decide

theorem asm_shape_equal_fold_success : ops_asm_equal_fold_success =
    ["MOVB", "RET"] := by decide

theorem asm_shape_equal_fold_init_avx : ops_asm_equal_fold_init_avx =
    ["MOVB", "PINSRB", "VPBROADCASTB", "MOVB", "PINSRB", "VPBROADCASTB", "MOVB", "PINSRB", "VPBROADCASTB", "MOVB", "PINSRB", "VPBROADCASTB"] := by decide

theorem asm_shape_equal_fold_cmp128 : ops_asm_equal_fold_cmp128 =
    ["CMPQ", "JB", "VMOVDQU", "VMOVDQU", "VMOVDQU", "VMOVDQU", "VMOVDQU", "VMOVDQU", "VMOVDQU", "VMOVDQU", "VXORPD", "VPCMPEQB", "VORPD", "VPADDB", "VPCMPGTB", "VPAND", "VPAND", "VPSLLW", "VPCMPEQB", "VXORPD", "VPCMPEQB", "VORPD", "VPADDB", "VPCMPGTB", "VPAND", "VPAND", "VPSLLW", "VPCMPEQB", "VXORPD", "VPCMPEQB", "VORPD", "VPADDB", "VPCMPGTB", "VPAND", "VPAND", "VPSLLW", "VPCMPEQB", "VXORPD", "VPCMPEQB", "VORPD", "VPADDB", "VPCMPGTB", "VPAND", "VPAND", "VPSLLW", "VPCMPEQB", "VPAND", "VPAND", "VPAND", "ADDQ", "SUBQ", "VPMOVMSKB", "XORL", "JNE", "JMP"] := by decide

theorem asm_shape_equal_fold_cmp64 : ops_asm_equal_fold_cmp64 =
    ["CMPQ", "JB", "VMOVDQU", "VMOVDQU", "VMOVDQU", "VMOVDQU", "VXORPD", "VPCMPEQB", "VORPD", "VPADDB", "VPCMPGTB", "VPAND", "VPAND", "VPSLLW", "VPCMPEQB", "VXORPD", "VPCMPEQB", "VORPD", "VPADDB", "VPCMPGTB", "VPAND", "VPAND", "VPSLLW", "VPCMPEQB", "VPAND", "ADDQ", "SUBQ", "VPMOVMSKB", "XORL", "JNE"] := by decide

theorem asm_shape_equal_fold_cmp32 : ops_asm_equal_fold_cmp32 =
    ["CMPQ", "JB", "VMOVDQU", "VMOVDQU", "VXORPD", "VPCMPEQB", "VORPD", "VPADDB", "VPCMPGTB", "VPAND", "VPAND", "VPSLLW", "VPCMPEQB", "ADDQ", "SUBQ", "VPMOVMSKB", "XORL", "JNE"] := by decide

theorem asm_shape_equal_fold_cmp16 : ops_asm_equal_fold_cmp16 =
    ["CMPQ", "JLE", "VMOVDQU", "VMOVDQU", "VXORPD", "VPCMPEQB", "VORPD", "VPADDB", "VPCMPGTB", "VPAND", "VPAND", "VPSLLW", "VPCMPEQB", "ADDQ", "SUBQ", "VPMOVMSKB", "XORL", "JNE"] := by decide

theorem asm_shape_equal_fold_cmp_tail : ops_asm_equal_fold_cmp_tail =
    ["SUBQ", "ADDQ", "VMOVDQU", "VMOVDQU", "VXORPD", "VPCMPEQB", "VORPD", "VPADDB", "VPCMPGTB", "VPAND", "VPAND", "VPSLLW", "VPCMPEQB", "VPMOVMSKB", "XORL", "JMP"] := by decide

theorem asm_shape_valid_ValidString : ops_asm_valid_ValidString =
    ["MOVQ", "MOVQ", "MOVQ", "CMPQ", "JB", "BTL", "JCS"] := by decide

theorem asm_shape_valid_cmp8 : ops_asm_valid_cmp8 =
    ["CMPQ", "JB", "TESTQ", "JNZ", "ADDQ", "SUBQ", "JMP"] := by decide

theorem asm_shape_valid_cmp4 : ops_asm_valid_cmp4 =
    ["CMPQ", "JB", "TESTL", "JNZ", "ADDQ", "SUBQ"] := by decide

theorem asm_shape_valid_cmp3 : ops_asm_valid_cmp3 =
    ["CMPQ", "JB", "MOVWLZX", "MOVBLZX", "SHLL", "ORL", "TESTL", "JMP"] := by decide

theorem asm_shape_valid_cmp2 : ops_asm_valid_cmp2 =
    ["CMPQ", "JB", "TESTW", "JMP"] := by decide

theorem asm_shape_valid_cmp1 : ops_asm_valid_cmp1 =
    ["CMPQ", "JE", "TESTB"] := by decide

theorem asm_shape_valid_done : ops_asm_valid_done =
    ["SETEQ", "RET"] := by decide

theorem asm_shape_valid_invalid : ops_asm_valid_invalid =
    ["MOVB", "RET"] := by decide

theorem asm_shape_valid_init_avx : ops_asm_valid_init_avx =
    ["PINSRQ", "VPBROADCASTQ"] := by decide

theorem asm_shape_valid_cmp256 : ops_asm_valid_cmp256 =
    ["CMPQ", "JB", "VMOVDQU", "VPOR", "VMOVDQU", "VPOR", "VMOVDQU", "VPOR", "VMOVDQU", "VPOR", "VPOR", "VPOR", "VPOR", "VPTEST", "JNZ", "ADDQ", "SUBQ", "JMP"] := by decide

theorem asm_shape_valid_cmp128 : ops_asm_valid_cmp128 =
    ["CMPQ", "JB", "VMOVDQU", "VPOR", "VMOVDQU", "VPOR", "VPOR", "VPTEST", "JNZ", "ADDQ", "SUBQ"] := by decide

theorem asm_shape_valid_cmp64 : ops_asm_valid_cmp64 =
    ["CMPQ", "JB", "VMOVDQU", "VPOR", "VPTEST", "JNZ", "ADDQ", "SUBQ"] := by decide

theorem asm_shape_valid_cmp32 : ops_asm_valid_cmp32 =
    ["CMPQ", "JB", "VPTEST", "JNZ", "ADDQ", "SUBQ"] := by decide

theorem asm_shape_valid_cmp16 : ops_asm_valid_cmp16 =
    ["CMPQ", "JLE", "VPTEST", "JNZ", "ADDQ", "SUBQ"] := by decide

theorem asm_shape_valid_cmp_tail : ops_asm_valid_cmp_tail =
    ["SUBQ", "ADDQ", "VPTEST", "JMP"] := by decide

theorem asm_shape_valid_print_ValidPrintString : ops_asm_valid_print_ValidPrintString =
    ["MOVQ", "MOVQ", "CMPQ", "JB", "BTL", "JCS"] := by decide

theorem asm_shape_valid_print_init_x86 : ops_asm_valid_print_init_x86 =
    ["CMPQ", "JB", "MOVQ", "MOVQ", "MOVQ"] := by decide

theorem asm_shape_valid_print_cmp8 : ops_asm_valid_print_cmp8 =
    ["MOVQ", "MOVQ", "LEAQ", "NOTQ", "ANDQ", "LEAQ", "ORQ", "ORQ", "ADDQ", "SUBQ", "TESTQ", "JNE", "CMPQ", "JB", "JMP"] := by decide

theorem asm_shape_valid_print_cmp4 : ops_asm_valid_print_cmp4 =
    ["CMPQ", "JB", "MOVL", "MOVL", "LEAL", "NOTL", "ANDL", "LEAL", "ORL", "ORL", "ADDQ", "SUBQ", "TESTL", "JNE"] := by decide

theorem asm_shape_valid_print_cmp3 : ops_asm_valid_print_cmp3 =
    ["CMPQ", "JB", "MOVWLZX", "MOVBLZX", "SHLL", "ORL", "ORL", "JMP"] := by decide

theorem asm_shape_valid_print_cmp2 : ops_asm_valid_print_cmp2 =
    ["CMPQ", "JB", "MOVWLZX", "ORL", "JMP"] := by decide

theorem asm_shape_valid_print_cmp1 : ops_asm_valid_print_cmp1 =
    ["CMPQ", "JE", "MOVBLZX", "ORL"] := by decide

theorem asm_shape_valid_print_final : ops_asm_valid_print_final =
    ["MOVL", "LEAL", "NOTL", "ANDL", "LEAL", "ORL", "ORL", "TESTL"] := by decide

theorem asm_shape_valid_print_done : ops_asm_valid_print_done =
    ["SETEQ", "RET"] := by decide

theorem asm_shape_valid_print_init_avx : ops_asm_valid_print_init_avx =
    ["MOVB", "PINSRB", "VPBROADCASTB", "MOVB", "PINSRB", "VPBROADCASTB"] := by decide

theorem asm_shape_valid_print_cmp128 : ops_asm_valid_print_cmp128 =
    ["CMPQ", "JB", "VMOVDQU", "VMOVDQU", "VMOVDQU", "VMOVDQU", "VPCMPGTB", "VPCMPGTB", "VPANDN", "VPCMPGTB", "VPCMPGTB", "VPANDN", "VPCMPGTB", "VPCMPGTB", "VPANDN", "VPCMPGTB", "VPCMPGTB", "VPANDN", "VPAND", "VPAND", "VPAND", "ADDQ", "SUBQ", "VPMOVMSKB", "XORL", "JNE", "JMP"] := by decide

theorem asm_shape_valid_print_cmp64 : ops_asm_valid_print_cmp64 =
    ["CMPQ", "JB", "VMOVDQU", "VMOVDQU", "VPCMPGTB", "VPCMPGTB", "VPANDN", "VPCMPGTB", "VPCMPGTB", "VPANDN", "VPAND", "ADDQ", "SUBQ", "VPMOVMSKB", "XORL", "JNE"] := by decide

theorem asm_shape_valid_print_cmp32 : ops_asm_valid_print_cmp32 =
    ["CMPQ", "JB", "VMOVDQU", "VPCMPGTB", "VPCMPGTB", "VPANDN", "ADDQ", "SUBQ", "VPMOVMSKB", "XORL", "JNE"] := by decide

theorem asm_shape_valid_print_cmp16 : ops_asm_valid_print_cmp16 =
    ["CMPQ", "JLE", "VMOVDQU", "VPCMPGTB", "VPCMPGTB", "VPANDN", "ADDQ", "SUBQ", "VPMOVMSKB", "XORL", "JNE"] := by decide

theorem asm_shape_valid_print_cmp_tail : ops_asm_valid_print_cmp_tail =
    ["SUBQ", "ADDQ", "VMOVDQU", "VPCMPGTB", "VPCMPGTB", "VPANDN", "VPMOVMSKB", "XORL", "JMP"] := by decide

end Pins

end Enc.Model.AsciiAsm
