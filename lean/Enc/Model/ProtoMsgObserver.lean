import Enc.Model.ProtoMsg
/-!
An OBSERVER of the calls the decoder of `Model.ProtoMsg` makes to the user's `Unmarshal` — an instance of `UserOps` like `rawOps`
(no Go counterpart: an instrument of the verification, used by `Lemmas.ProtoMsgDecodeGuard` / `ProtoMsgRoundTripStrict` and by
the driver op `proto.msgroundtrip`, which runs it on every generated message).

`guardOps G`: `Unmarshal` accepts a byte string `q` only on a FRESH receiver (`.nil`, the zero value the decoder allocates) and
only when `G q`; it then stores `q` (as RawMessage does). So `unmarshalUsr (guardOps G) t b = unmarshal t b` says: while decoding
`b`, every call of a user `Unmarshal` was on a zero receiver (no slot holding a user value was written twice) with a byte string
in `G`.
-/
namespace Enc.Model.Proto
open Enc

/-- the observer: accepts `q` on a zero receiver when `G q`, stores it; rejects everything else -/
def guardOps (G : Bytes → Bool) : UserOps where
  size := rawOps.size
  marshal := rawOps.marshal
  unmarshal := fun cur q =>
    match cur with
    | .nil => if G q then .ok (.str q) else .err "observer: payload"
    | _ => .err "observer: receiver"

mutual
/-- the user values inside a value of the codec `c`, in field order -/
def leaves : Codec → Val → List Val
  | .message, u => [u]
  | .ptr c, .ptr v => leaves c v
  | .struct fs, .struct vs => leavesFs fs vs
  | .slice e _ _ _, .list vs => leavesL e vs
  | .map _ k v _ _ _, .map kvs => leavesM k v kvs
  | _, _ => []
def leavesFs : CFields → Vals → List Val
  | .cons _ _ _ _ c rest, .cons v vs => leaves c v ++ leavesFs rest vs
  | _, _ => []
def leavesL (e : Codec) : Vals → List Val
  | .cons v vs => leaves e v ++ leavesL e vs
  | .nil => []
def leavesM (k v : Codec) : Vals → List Val
  | .cons a (.cons b r) => leaves k a ++ (leaves v b ++ leavesM k v r)
  | _ => []
end

/-- the bytes the user's `Marshal` writes for the state `u` (nothing if it fails) -/
def payOf (ops : UserOps) (u : Val) : Bytes := match ops.marshal u with | .ok p => p | _ => []

/-- the byte strings `Marshal` writes for the user values of `u`: what the decoder must hand back to the user -/
def leafCalls (ops : UserOps) (c : Codec) (u : Val) : List Bytes := (leaves c u).map (payOf ops)

end Enc.Model.Proto
