import Enc.Model.Proto
import Enc.Model.ProtoTo
/-!
Model of /repo/proto for message types that contain USER-DEFINED types: implementers of `proto.Message`
(`Size() int`, `Marshal([]byte) error`, `Unmarshal([]byte) error`; message.go: `messageCodecOf`) and gogo-style custom types
(`Size() int`, `MarshalTo([]byte) (int, error)`, `Unmarshal([]byte) error`; custom.go: `customCodecOf`), after the fix commits
109a14e (pointers to such types go through `pointerCodecOf`), 0de7c43 (ONE length prefix: `embeddedStruct` excludes them, see
`Model.Proto.isStructBase`), e71f28a (`encodedByMethods` wins over the slice / map kind of a field type) and c525b92
(pointer-shaped implementers receive their address).

Such a type is an OPAQUE LEAF of the codec tree: `Codec.message`, chosen by `codecOf` for `Ty.named "RawMessage" _` — the NAME
marks "encoded through its methods" (`proto.RawMessage` is the one implementer inside the library; a user type `Z` travels as
`named RawMessage (named Z <underlying>)`, the inner wrapper is never looked at). The value of a leaf is an abstract STATE (any
`Val`; the harness uses `.str payload`), on which the user's three methods act: they are the PARAMETERS `UserOps` of this model.
Everything else — struct fields, tags, length prefixes, pointers, repeated fields, maps, the `wantzero` bookkeeping, the nesting
counter — is the code of `Model.Proto` / `Model.ProtoTo`, copied with the leaf replaced and the user's errors propagated
(`encodeToUsr` returns the first error a user `Marshal` returns; `decodeUsr` the first error of a user `Unmarshal`).

What the codec does with a user value (the three `message…FuncOf` closures; the custom ones are the same with `MarshalTo`):
  size    top level: `m.Size()`; elsewhere `sizeOfVarlen(m.Size())` — never 0, so a field of such a type is ALWAYS written
          (no zero-value test, an empty encoding is the record `tag 00`), a nil POINTER to one is elided by the pointer codec;
  encode  top level: `len(b) < size → ErrShortBuffer`, else `m.Marshal(b[:size])`; elsewhere `len(b) < vlen → ErrShortBuffer`,
          else the varint of `size`, then `m.Marshal(b[n:])`; the user's error is returned as it is;
  decode  top level: `m.Unmarshal(b)` on the whole input; elsewhere `decodeVarlen`, then `m.Unmarshal(payload)`.

USER CONTRACT (hypotheses of the theorems, `Lemmas.ProtoMsg.Contract`): `Marshal` fills exactly `Size()` bytes, and
`Unmarshal(Marshal(v))` restores `v`. Outside the contract the model says what the codec passes to the methods, not what a
misbehaving method leaves in the buffer: `marshal u` is by definition the content of the `Size()`-byte window after the call.
Not modelled: `p == nil` in an inlined position (a nil value of a pointer-shaped implementer — map kind, or a struct with one
pointer-shaped field — at top level or as the only field of an inlined struct is skipped without calling its methods);
the `fixed32`/`fixed64` struct-tag override looks at the kind BEFORE the methods (`baseTy`, as in Go).
-/
namespace Enc.Model.Proto
open Enc

/-- the methods of the user-defined types, on abstract states. One record serves every user type of a message: the state
spaces of different types are disjoint parts of `Val` (a sum type), so a family of methods is one function on the sum. -/
structure UserOps where
  /-- go: `m.Size()` -/
  size : Val → Nat
  /-- go: `m.Marshal(b)` / `m.MarshalTo(b)` on the `Size()`-byte window: the bytes it leaves there, or the error it returns -/
  marshal : Val → Res Bytes
  /-- go: `m.Unmarshal(b)` on the receiver in state `cur`: the new state, or the error -/
  unmarshal : (cur : Val) → Bytes → Res Val

/-- go: RawMessage.Size / Marshal / Unmarshal — identity on bytes (`.nil` = the nil slice) -/
def rawOps : UserOps where
  size := fun v => match v with | .str s => s.length | _ => 0
  marshal := fun v => match v with | .str s => .ok s | _ => .ok []
  unmarshal := fun _ b => .ok (.str b)

/-- the methods of the harness zoo (harness/protomsg.go) at the level of payloads: a value `.str p` marshals to `p`; a value
`.int n` is the failing implementer `ZFail{N: n, Fail: true}`: `Size()` = n, `Marshal` returns an error -/
def zooOps : UserOps where
  size := fun v => match v with | .str s => s.length | .int n => n.toNat | _ => 0
  marshal := fun v => match v with | .str s => .ok s | .int _ => .err "user" | _ => .ok []
  unmarshal := fun _ b => .ok (.str b)

/-! ## size -/
mutual
-- go: the `size` functions; messageSizeFuncOf / customSizeFuncOf at the leaf
def sizeUsr (ops : UserOps) : Codec → Val → Flags → Nat
  | .message, u, fl => if fl.toplevel then ops.size u else sizeOfVarlen (ops.size u)
  | .ptr _, .nil, _ => 0
  | .ptr c, .ptr v, fl => sizeUsr ops c v { fl with wantzero := true, inline := false }
  | .struct fs, .struct vs, fl =>
    let fl := { fl with toplevel := false, inline := fl.inline && inlinedFields fs }
    let (n, fl') := sizeUniqueUsr ops fs vs fl
    n + sizeRepeatedUsr ops fs vs fl'
  | .slice elem number wire emb, .list vs, _ => sizeSliceUsr ops elem (sizeOfTag number wire) emb vs
  | .map number k v kEmb vEmb _, .map kvs, _ =>
    let n := sizeMapUsr ops (sizeOfTag number .varlen) k v kEmb vEmb kvs
    if n == 0 then sizeOfTag number .varlen + Gen.c_proto_zeroSize else n
  | c, v, fl => size c v fl                    -- types without user methods: the functions of Model.Proto
def sizeUniqueUsr (ops : UserOps) : CFields → Vals → Flags → Nat × Flags
  | .cons number emb false zz c rest, .cons v vs, fl =>
    let s := sizeUsr ops c v { fl with zigzag := fl.zigzag || zz }
    if s > 0 then
      let (n, fl') := sizeUniqueUsr ops rest vs { fl with wantzero := false }
      (sizeOfTag number c.wire + s + (if emb then sizeOfVarint (BitVec.ofNat 64 s) else 0) + n, fl')
    else sizeUniqueUsr ops rest vs fl
  | .cons _ _ true _ _ rest, .cons _ vs, fl => sizeUniqueUsr ops rest vs fl
  | _, _, fl => (0, fl)
def sizeRepeatedUsr (ops : UserOps) : CFields → Vals → Flags → Nat
  | .cons _ _ true zz c rest, .cons v vs, fl =>
    let s := sizeUsr ops c v { fl with zigzag := fl.zigzag || zz }
    s + sizeRepeatedUsr ops rest vs (if s > 0 then { fl with wantzero := false } else fl)
  | .cons _ _ false _ _ rest, .cons _ vs, fl => sizeRepeatedUsr ops rest vs fl
  | _, _, _ => 0
def sizeSliceUsr (ops : UserOps) (elem : Codec) (tagSize : Nat) (emb : Bool) : Vals → Nat
  | .cons v vs =>
    let s := sizeUsr ops elem v wz
    tagSize + s + (if emb then sizeOfVarint (BitVec.ofNat 64 s) else 0) + sizeSliceUsr ops elem tagSize emb vs
  | .nil => 0
def sizeMapUsr (ops : UserOps) (mapTagSize : Nat) (k v : Codec) (kEmb vEmb : Bool) : Vals → Nat
  | .cons key (.cons val rest) =>
    let ks := sizeUsr ops k key wz
    let vs := sizeUsr ops v val wz
    let elemSize := entrySize ks vs kEmb vEmb
    mapTagSize + sizeOfVarint (BitVec.ofNat 64 elemSize) + elemSize
    + sizeMapUsr ops mapTagSize k v kEmb vEmb rest
  | _ => 0
end

/-! ## encode (buffer-checked, as in Model.ProtoTo: `avail` = `len(b)` of the slice the Go function receives) -/
mutual
-- go: the `encode` functions; messageEncodeFuncOf / customEncodeFuncOf at the leaf
def encodeToUsr (ops : UserOps) : Codec → Val → Flags → Nat → Res Bytes
  | .message, u, fl, avail =>
    let n := ops.size u
    if fl.toplevel then (if avail < n then short else ops.marshal u)
    else if avail < sizeOfVarlen n then short
    else (ops.marshal u).bind fun p => .ok (encodeVarint (BitVec.ofNat 64 n) ++ p)
  | .ptr _, .nil, _, _ => .ok []
  | .ptr c, .ptr v, fl, avail => encodeToUsr ops c v { fl with wantzero := true, inline := false } avail
  | .struct fs, .struct vs, fl, avail =>
    let fl := { fl with toplevel := false, inline := fl.inline && inlinedFields fs }
    (encodeUniqueToUsr ops fs vs fl avail).bind fun p =>
      (encodeRepeatedToUsr ops fs vs p.2 (avail - p.1.length)).bind fun r => .ok (p.1 ++ r)
  | .slice elem number wire emb, .list vs, _, avail => encodeSliceToUsr ops elem (encodeTag number wire) emb vs avail
  | .map number k v kEmb vEmb _, .map kvs, _, avail =>
    (encodeMapToUsr ops (encodeTag number .varlen) k v kEmb vEmb kvs avail).bind fun b =>
      if b.isEmpty then copyTo avail (encodeTag number .varlen ++ [0]) else .ok b
  | c, v, fl, avail => encodeTo c v fl avail    -- types without user methods: the functions of Model.ProtoTo
def encodeUniqueToUsr (ops : UserOps) : CFields → Vals → Flags → Nat → Res (Bytes × Flags)
  | .cons number emb false zz c rest, .cons v vs, fl, avail =>
    let ffl := { fl with zigzag := fl.zigzag || zz }
    let s := sizeUsr ops c v ffl
    if s > 0 then
      (encodeVarintTo avail (tagWord number c.wire)).bind fun tag =>
        let a1 := avail - tag.length
        (if emb then encodeVarintTo a1 (BitVec.ofNat 64 s) else .ok []).bind fun pre =>
          let a2 := a1 - pre.length
          if a2 < s then short
          else
            (encodeToUsr ops c v ffl s).bind fun body =>                       -- window b[offset:offset+size]
              (encodeUniqueToUsr ops rest vs { fl with wantzero := false } (a2 - body.length)).bind fun q =>
                .ok (tag ++ pre ++ body ++ q.1, q.2)
    else encodeUniqueToUsr ops rest vs fl avail
  | .cons _ _ true _ _ rest, .cons _ vs, fl, avail => encodeUniqueToUsr ops rest vs fl avail
  | _, _, fl, _ => .ok ([], fl)
def encodeRepeatedToUsr (ops : UserOps) : CFields → Vals → Flags → Nat → Res Bytes
  | .cons _ _ true zz c rest, .cons v vs, fl, avail =>
    (encodeToUsr ops c v { fl with zigzag := fl.zigzag || zz } avail).bind fun b =>
      (encodeRepeatedToUsr ops rest vs (if b.length > 0 then { fl with wantzero := false } else fl) (avail - b.length)).bind
        fun r => .ok (b ++ r)
  | .cons _ _ false _ _ rest, .cons _ vs, fl, avail => encodeRepeatedToUsr ops rest vs fl avail
  | _, _, _, _ => .ok []
def encodeSliceToUsr (ops : UserOps) (elem : Codec) (tag : Bytes) (emb : Bool) : Vals → Nat → Res Bytes
  | .cons v vs, avail =>
    let s := sizeUsr ops elem v wz
    (copyTo avail tag).bind fun t =>
      let a1 := avail - t.length
      (if emb then encodeVarintTo a1 (BitVec.ofNat 64 s) else .ok []).bind fun pre =>
        let a2 := a1 - pre.length
        if a2 < s then short
        else
          (encodeToUsr ops elem v wz s).bind fun body =>
            (encodeSliceToUsr ops elem tag emb vs (a2 - body.length)).bind fun r => .ok (t ++ pre ++ body ++ r)
  | .nil, _ => .ok []
def encodeMapToUsr (ops : UserOps) (mapTag : Bytes) (k v : Codec) (kEmb vEmb : Bool) : Vals → Nat → Res Bytes
  | .cons key (.cons val rest), avail =>
    let ks := sizeUsr ops k key wz
    let vs := sizeUsr ops v val wz
    let elemSize := entrySize ks vs kEmb vEmb
    (copyTo avail mapTag).bind fun t =>
      let a1 := avail - t.length
      (encodeVarintTo a1 (BitVec.ofNat 64 elemSize)).bind fun pre =>
        let a2 := a1 - pre.length
        let kp : Res Bytes :=
          if ks > 0 then
            (copyTo a2 (encodeTag 1 k.wire)).bind fun kt =>
              (if kEmb then encodeVarintTo (a2 - kt.length) (BitVec.ofNat 64 ks) else .ok []).bind fun kpre =>
                if a2 - kt.length - kpre.length < ks then short
                else (encodeToUsr ops k key wz ks).bind fun kb => .ok (kt ++ kpre ++ kb)
          else .ok []
        kp.bind fun kbytes =>
          let a3 := a2 - kbytes.length
          let vp : Res Bytes :=
            if vs > 0 then
              (copyTo a3 (encodeTag 2 v.wire)).bind fun vt =>
                (if vEmb then encodeVarintTo (a3 - vt.length) (BitVec.ofNat 64 vs) else .ok []).bind fun vpre =>
                  if a3 - vt.length - vpre.length < vs then short
                  else (encodeToUsr ops v val wz vs).bind fun vb => .ok (vt ++ vpre ++ vb)
            else .ok []
          vp.bind fun vbytes =>
            (encodeMapToUsr ops mapTag k v kEmb vEmb rest (a3 - vbytes.length)).bind fun r =>
              .ok (t ++ pre ++ kbytes ++ vbytes ++ r)
  | _, _ => .ok []
end

/-! ## decode -/
mutual
-- go: the `decode` functions; messageDecodeFuncOf / customDecodeFuncOf at the leaf
def decodeUsr (ops : UserOps) : Nat → Nat → Codec → Bytes → Val → Flags → Res (Val × Nat)
  | 0, _, _, _, _, _ => .err "fuel"
  | fuel + 1, d, c, b, cur, fl =>
    match c with
    | .message =>
      if fl.toplevel then (ops.unmarshal cur b).bind fun u => .ok (u, b.length)
      else (decodeVarlen b).bind fun (v, n) => (ops.unmarshal cur v).bind fun u => .ok (u, n)
    | .ptr c' =>
      let tgt := match cur with | .ptr v => v | _ => zeroOfCodec c'
      (decodeUsr ops fuel d c' b tgt fl).bind fun (v, n) => .ok (.ptr v, n)
    | .struct fs =>
      if d + 1 > Gen.c_proto_maxDepth then .err "nestingTooDeep"
      else
        match cur with
        | .struct vs =>
          (decodeStructUsr ops fuel (d + 1) fs b b.length vs { fl with toplevel := false } 0).bind fun (vs', n) => .ok (.struct vs', n)
        | _ => .err "modelType"
    | .slice elem _ _ _ =>
      let cur' : Vals := match cur with | .list vs => vs | _ => .nil
      (decodeUsr ops fuel d elem b (zeroOfCodec elem) {}).bind fun (v, n) => .ok (.list (Vals.ofList (cur'.toList ++ [v])), n)
    | .map _ _ _ _ _ entry =>
      let cur' : Vals := match cur with | .map kvs => kvs | _ => .nil
      if b.isEmpty then .ok (.map cur', 0)
      else
        (decodeUsr ops fuel d entry b (zeroOfCodec entry) {}).bind fun r =>
          match r with
          | (.struct (.cons k (.cons v .nil)), n) => .ok (.map (mapAssign cur' k v valEqShow), n)
          | _ => .err "modelType"
    | c => decode (fuel + 1) d c b cur fl         -- types without user methods: the functions of Model.Proto
-- go: structDecodeFuncOf
def decodeStructUsr (ops : UserOps) : Nat → Nat → CFields → Bytes → Nat → Vals → Flags → Nat → Res (Vals × Nat)
  | 0, _, _, _, _, _, _, _ => .err "fuel"
  | fuel + 1, d, fs, b, lenB, vs, fl, offset =>
    if b.isEmpty then .ok (vs, offset)
    else
      (decodeVarint b).bind fun (tag, n) =>
        let number := (tag >>> 3).toNat
        let w := (tag &&& 7#64).toNat
        let b1 := b.drop n
        let off1 := offset + n
        match lookupField fs number with
        | none =>
          (skipUnknown w b1 lenB).bind fun skip =>
            decodeStructUsr ops fuel d fs (b1.drop skip) lenB vs fl (off1 + skip)
        | some (i, emb, zz, c) =>
          if w != c.wire.num then .err "wireType"
          else
            let carve : Res (Bytes × Nat) :=
              if w == 0 then (decodeVarint b1).bind fun (_, k) => .ok (b1.take k, 0)
              else if w == 2 then
                (decodeVarint b1).bind fun (l, k) =>
                  if l.toNat > lenB - (off1 + k) then .err "unexpectedEof"
                  else if emb then .ok ((b1.drop k).take l.toNat, k) else .ok (b1.take (k + l.toNat), 0)
              else if w == 5 then (if b1.length < 4 then .err "unexpectedEof" else .ok (b1.take 4, 0))
              else if w == 1 then (if b1.length < 8 then .err "unexpectedEof" else .ok (b1.take 8, 0))
              else .err "wireTypeUnknown"
            carve.bind fun (data, pre) =>
              (decodeUsr ops fuel d c data (Vals.get vs i) { fl with zigzag := fl.zigzag || zz }).bind fun (v, m) =>
                decodeStructUsr ops fuel d fs (b1.drop (pre + m)) lenB (Vals.set vs i v) fl (off1 + pre + m)
end

/-! ## entry points -/

-- go: proto.Size
def marshalSizeUsr (ops : UserOps) (t : Ty) (v : Val) : Nat := sizeUsr ops (codecOf t) v { toplevel := true, inline := true }
-- go: proto.MarshalTo
def marshalToUsr (ops : UserOps) (t : Ty) (v : Val) (avail : Nat) : Res Bytes :=
  encodeToUsr ops (codecOf t) v { toplevel := true, inline := true } avail
-- go: proto.Marshal — `b := make([]byte, c.size(p, …)); _, err := c.encode(b, p, …)`
def marshalUsr (ops : UserOps) (t : Ty) (v : Val) : Res Bytes := marshalToUsr ops t v (marshalSizeUsr ops t v)

-- go: proto.Unmarshal (target = pointer to a zero value of `t`)
def unmarshalUsr (ops : UserOps) (t : Ty) (b : Bytes) : Res Val :=
  if b.isEmpty then .ok (zeroOf t)
  else
    match decodeUsr ops (2 * b.length + 8 + Codec.height (codecOf t)) 0 (codecOf t) b (zeroOf t) { toplevel := true } with
    | .ok (v, n) => if n < b.length then .err "trailing" else .ok v
    | .err e => .err e
    | .panic e => .panic e

end Enc.Model.Proto
