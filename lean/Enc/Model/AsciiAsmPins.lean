import Enc.Model.AsciiAsm
/-!
Complete instruction text of every block of `valid_amd64.s`, `valid_print_amd64.s`, `equal_fold_amd64.s`
(github.com/segmentio/asm v1.1.3) that `Enc/Model/AsciiAsm.lean` mirrors: a hand-copied snapshot (right-hand sides)
against the regenerated `Enc/Gen/AsmConsts.lean` (left-hand sides). Imported by `Enc/Lemmas/AsciiAsm.lean`, so a change
of any operand, register, immediate, displacement or jump target of a kernel fails the build of the C20 proofs.
-/
namespace Enc.Model.AsciiAsm.Pins
open Enc.Gen

theorem asm_text_equal_fold_EqualFoldString : ins_asm_equal_fold_EqualFoldString =
    ["MOVQ a_base+0(FP), CX",
     "MOVQ a_len+8(FP), DX",
     "MOVQ b_base+16(FP), BX",
     "CMPQ DX, b_len+24(FP)",
     "JNE done",
     "XORQ AX, AX",
     "CMPQ DX, $0x10",
     "JB init_x86",
     "BTL $0x08, github·com∕segmentio∕asm∕cpu·X86+0(SB)",
     "JCS init_avx"] := by decide

theorem asm_text_equal_fold_init_x86 : ins_asm_equal_fold_init_x86 =
    ["LEAQ github·com∕segmentio∕asm∕ascii·lowerCase+0(SB), R9",
     "XORL SI, SI"] := by decide

theorem asm_text_equal_fold_cmp8 : ins_asm_equal_fold_cmp8 =
    ["CMPQ DX, $0x08",
     "JB cmp7",
     "MOVBLZX (CX)(AX*1), DI",
     "MOVBLZX (BX)(AX*1), R8",
     "MOVB (R9)(DI*1), DI",
     "XORB (R9)(R8*1), DI",
     "ORB DI, SI",
     "MOVBLZX 1(CX)(AX*1), DI",
     "MOVBLZX 1(BX)(AX*1), R8",
     "MOVB (R9)(DI*1), DI",
     "XORB (R9)(R8*1), DI",
     "ORB DI, SI",
     "MOVBLZX 2(CX)(AX*1), DI",
     "MOVBLZX 2(BX)(AX*1), R8",
     "MOVB (R9)(DI*1), DI",
     "XORB (R9)(R8*1), DI",
     "ORB DI, SI",
     "MOVBLZX 3(CX)(AX*1), DI",
     "MOVBLZX 3(BX)(AX*1), R8",
     "MOVB (R9)(DI*1), DI",
     "XORB (R9)(R8*1), DI",
     "ORB DI, SI",
     "MOVBLZX 4(CX)(AX*1), DI",
     "MOVBLZX 4(BX)(AX*1), R8",
     "MOVB (R9)(DI*1), DI",
     "XORB (R9)(R8*1), DI",
     "ORB DI, SI",
     "MOVBLZX 5(CX)(AX*1), DI",
     "MOVBLZX 5(BX)(AX*1), R8",
     "MOVB (R9)(DI*1), DI",
     "XORB (R9)(R8*1), DI",
     "ORB DI, SI",
     "MOVBLZX 6(CX)(AX*1), DI",
     "MOVBLZX 6(BX)(AX*1), R8",
     "MOVB (R9)(DI*1), DI",
     "XORB (R9)(R8*1), DI",
     "ORB DI, SI",
     "MOVBLZX 7(CX)(AX*1), DI",
     "MOVBLZX 7(BX)(AX*1), R8",
     "MOVB (R9)(DI*1), DI",
     "XORB (R9)(R8*1), DI",
     "ORB DI, SI",
     "JNE done",
     "ADDQ $0x08, AX",
     "SUBQ $0x08, DX",
     "JMP cmp8"] := by decide

theorem asm_text_equal_fold_cmp7 : ins_asm_equal_fold_cmp7 =
    ["CMPQ DX, $0x07",
     "JB cmp6",
     "MOVBLZX 6(CX)(AX*1), DI",
     "MOVBLZX 6(BX)(AX*1), R8",
     "MOVB (R9)(DI*1), DI",
     "XORB (R9)(R8*1), DI",
     "ORB DI, SI"] := by decide

theorem asm_text_equal_fold_cmp6 : ins_asm_equal_fold_cmp6 =
    ["CMPQ DX, $0x06",
     "JB cmp5",
     "MOVBLZX 5(CX)(AX*1), DI",
     "MOVBLZX 5(BX)(AX*1), R8",
     "MOVB (R9)(DI*1), DI",
     "XORB (R9)(R8*1), DI",
     "ORB DI, SI"] := by decide

theorem asm_text_equal_fold_cmp5 : ins_asm_equal_fold_cmp5 =
    ["CMPQ DX, $0x05",
     "JB cmp4",
     "MOVBLZX 4(CX)(AX*1), DI",
     "MOVBLZX 4(BX)(AX*1), R8",
     "MOVB (R9)(DI*1), DI",
     "XORB (R9)(R8*1), DI",
     "ORB DI, SI"] := by decide

theorem asm_text_equal_fold_cmp4 : ins_asm_equal_fold_cmp4 =
    ["CMPQ DX, $0x04",
     "JB cmp3",
     "MOVBLZX 3(CX)(AX*1), DI",
     "MOVBLZX 3(BX)(AX*1), R8",
     "MOVB (R9)(DI*1), DI",
     "XORB (R9)(R8*1), DI",
     "ORB DI, SI"] := by decide

theorem asm_text_equal_fold_cmp3 : ins_asm_equal_fold_cmp3 =
    ["CMPQ DX, $0x03",
     "JB cmp2",
     "MOVBLZX 2(CX)(AX*1), DI",
     "MOVBLZX 2(BX)(AX*1), R8",
     "MOVB (R9)(DI*1), DI",
     "XORB (R9)(R8*1), DI",
     "ORB DI, SI"] := by decide

theorem asm_text_equal_fold_cmp2 : ins_asm_equal_fold_cmp2 =
    ["CMPQ DX, $0x02",
     "JB cmp1",
     "MOVBLZX 1(CX)(AX*1), DI",
     "MOVBLZX 1(BX)(AX*1), R8",
     "MOVB (R9)(DI*1), DI",
     "XORB (R9)(R8*1), DI",
     "ORB DI, SI"] := by decide

theorem asm_text_equal_fold_cmp1 : ins_asm_equal_fold_cmp1 =
    ["CMPQ DX, $0x01",
     "JB success",
     "MOVBLZX (CX)(AX*1), DI",
     "MOVBLZX (BX)(AX*1), R8",
     "MOVB (R9)(DI*1), DI",
     "XORB (R9)(R8*1), DI",
     "ORB DI, SI"] := by decide

theorem asm_text_equal_fold_done : ins_asm_equal_fold_done =
    ["SETEQ ret+32(FP)",
     "RET"] := by decide

theorem asm_text_equal_fold_success : ins_asm_equal_fold_success =
    ["MOVB $0x01, ret+32(FP)",
     "RET"] := by decide

theorem asm_text_equal_fold_init_avx : ins_asm_equal_fold_init_avx =
    ["MOVB $0x20, SI",
     "PINSRB $0x00, SI, X12",
     "VPBROADCASTB X12, Y12",
     "MOVB $0x1f, SI",
     "PINSRB $0x00, SI, X13",
     "VPBROADCASTB X13, Y13",
     "MOVB $0x9a, SI",
     "PINSRB $0x00, SI, X14",
     "VPBROADCASTB X14, Y14",
     "MOVB $0x01, SI",
     "PINSRB $0x00, SI, X15",
     "VPBROADCASTB X15, Y15"] := by decide

theorem asm_text_equal_fold_cmp128 : ins_asm_equal_fold_cmp128 =
    ["CMPQ DX, $0x80",
     "JB cmp64",
     "VMOVDQU (CX)(AX*1), Y0",
     "VMOVDQU 32(CX)(AX*1), Y1",
     "VMOVDQU 64(CX)(AX*1), Y2",
     "VMOVDQU 96(CX)(AX*1), Y3",
     "VMOVDQU (BX)(AX*1), Y4",
     "VMOVDQU 32(BX)(AX*1), Y5",
     "VMOVDQU 64(BX)(AX*1), Y6",
     "VMOVDQU 96(BX)(AX*1), Y7",
     "VXORPD Y0, Y4, Y4",
     "VPCMPEQB Y12, Y4, Y8",
     "VORPD Y12, Y0, Y0",
     "VPADDB Y13, Y0, Y0",
     "VPCMPGTB Y0, Y14, Y0",
     "VPAND Y8, Y0, Y0",
     "VPAND Y15, Y0, Y0",
     "VPSLLW $0x05, Y0, Y0",
     "VPCMPEQB Y4, Y0, Y0",
     "VXORPD Y1, Y5, Y5",
     "VPCMPEQB Y12, Y5, Y9",
     "VORPD Y12, Y1, Y1",
     "VPADDB Y13, Y1, Y1",
     "VPCMPGTB Y1, Y14, Y1",
     "VPAND Y9, Y1, Y1",
     "VPAND Y15, Y1, Y1",
     "VPSLLW $0x05, Y1, Y1",
     "VPCMPEQB Y5, Y1, Y1",
     "VXORPD Y2, Y6, Y6",
     "VPCMPEQB Y12, Y6, Y10",
     "VORPD Y12, Y2, Y2",
     "VPADDB Y13, Y2, Y2",
     "VPCMPGTB Y2, Y14, Y2",
     "VPAND Y10, Y2, Y2",
     "VPAND Y15, Y2, Y2",
     "VPSLLW $0x05, Y2, Y2",
     "VPCMPEQB Y6, Y2, Y2",
     "VXORPD Y3, Y7, Y7",
     "VPCMPEQB Y12, Y7, Y11",
     "VORPD Y12, Y3, Y3",
     "VPADDB Y13, Y3, Y3",
     "VPCMPGTB Y3, Y14, Y3",
     "VPAND Y11, Y3, Y3",
     "VPAND Y15, Y3, Y3",
     "VPSLLW $0x05, Y3, Y3",
     "VPCMPEQB Y7, Y3, Y3",
     "VPAND Y1, Y0, Y0",
     "VPAND Y3, Y2, Y2",
     "VPAND Y2, Y0, Y0",
     "ADDQ $0x80, AX",
     "SUBQ $0x80, DX",
     "VPMOVMSKB Y0, SI",
     "XORL $0xffffffff, SI",
     "JNE done",
     "JMP cmp128"] := by decide

theorem asm_text_equal_fold_cmp64 : ins_asm_equal_fold_cmp64 =
    ["CMPQ DX, $0x40",
     "JB cmp32",
     "VMOVDQU (CX)(AX*1), Y0",
     "VMOVDQU 32(CX)(AX*1), Y1",
     "VMOVDQU (BX)(AX*1), Y2",
     "VMOVDQU 32(BX)(AX*1), Y3",
     "VXORPD Y0, Y2, Y2",
     "VPCMPEQB Y12, Y2, Y4",
     "VORPD Y12, Y0, Y0",
     "VPADDB Y13, Y0, Y0",
     "VPCMPGTB Y0, Y14, Y0",
     "VPAND Y4, Y0, Y0",
     "VPAND Y15, Y0, Y0",
     "VPSLLW $0x05, Y0, Y0",
     "VPCMPEQB Y2, Y0, Y0",
     "VXORPD Y1, Y3, Y3",
     "VPCMPEQB Y12, Y3, Y5",
     "VORPD Y12, Y1, Y1",
     "VPADDB Y13, Y1, Y1",
     "VPCMPGTB Y1, Y14, Y1",
     "VPAND Y5, Y1, Y1",
     "VPAND Y15, Y1, Y1",
     "VPSLLW $0x05, Y1, Y1",
     "VPCMPEQB Y3, Y1, Y1",
     "VPAND Y1, Y0, Y0",
     "ADDQ $0x40, AX",
     "SUBQ $0x40, DX",
     "VPMOVMSKB Y0, SI",
     "XORL $0xffffffff, SI",
     "JNE done"] := by decide

theorem asm_text_equal_fold_cmp32 : ins_asm_equal_fold_cmp32 =
    ["CMPQ DX, $0x20",
     "JB cmp16",
     "VMOVDQU (CX)(AX*1), Y0",
     "VMOVDQU (BX)(AX*1), Y1",
     "VXORPD Y0, Y1, Y1",
     "VPCMPEQB Y12, Y1, Y2",
     "VORPD Y12, Y0, Y0",
     "VPADDB Y13, Y0, Y0",
     "VPCMPGTB Y0, Y14, Y0",
     "VPAND Y2, Y0, Y0",
     "VPAND Y15, Y0, Y0",
     "VPSLLW $0x05, Y0, Y0",
     "VPCMPEQB Y1, Y0, Y0",
     "ADDQ $0x20, AX",
     "SUBQ $0x20, DX",
     "VPMOVMSKB Y0, SI",
     "XORL $0xffffffff, SI",
     "JNE done"] := by decide

theorem asm_text_equal_fold_cmp16 : ins_asm_equal_fold_cmp16 =
    ["CMPQ DX, $0x10",
     "JLE cmp_tail",
     "VMOVDQU (CX)(AX*1), X0",
     "VMOVDQU (BX)(AX*1), X1",
     "VXORPD X0, X1, X1",
     "VPCMPEQB X12, X1, X2",
     "VORPD X12, X0, X0",
     "VPADDB X13, X0, X0",
     "VPCMPGTB X0, X14, X0",
     "VPAND X2, X0, X0",
     "VPAND X15, X0, X0",
     "VPSLLW $0x05, X0, X0",
     "VPCMPEQB X1, X0, X0",
     "ADDQ $0x10, AX",
     "SUBQ $0x10, DX",
     "VPMOVMSKB X0, SI",
     "XORL $0x0000ffff, SI",
     "JNE done"] := by decide

theorem asm_text_equal_fold_cmp_tail : ins_asm_equal_fold_cmp_tail =
    ["SUBQ $0x10, DX",
     "ADDQ DX, AX",
     "VMOVDQU (CX)(AX*1), X0",
     "VMOVDQU (BX)(AX*1), X1",
     "VXORPD X0, X1, X1",
     "VPCMPEQB X12, X1, X2",
     "VORPD X12, X0, X0",
     "VPADDB X13, X0, X0",
     "VPCMPGTB X0, X14, X0",
     "VPAND X2, X0, X0",
     "VPAND X15, X0, X0",
     "VPSLLW $0x05, X0, X0",
     "VPCMPEQB X1, X0, X0",
     "VPMOVMSKB X0, AX",
     "XORL $0x0000ffff, AX",
     "JMP done"] := by decide

theorem asm_text_valid_ValidString : ins_asm_valid_ValidString =
    ["MOVQ s_base+0(FP), AX",
     "MOVQ s_len+8(FP), CX",
     "MOVQ $0x8080808080808080, DX",
     "CMPQ CX, $0x10",
     "JB cmp8",
     "BTL $0x08, github·com∕segmentio∕asm∕cpu·X86+0(SB)",
     "JCS init_avx"] := by decide

theorem asm_text_valid_cmp8 : ins_asm_valid_cmp8 =
    ["CMPQ CX, $0x08",
     "JB cmp4",
     "TESTQ DX, (AX)",
     "JNZ invalid",
     "ADDQ $0x08, AX",
     "SUBQ $0x08, CX",
     "JMP cmp8"] := by decide

theorem asm_text_valid_cmp4 : ins_asm_valid_cmp4 =
    ["CMPQ CX, $0x04",
     "JB cmp3",
     "TESTL $0x80808080, (AX)",
     "JNZ invalid",
     "ADDQ $0x04, AX",
     "SUBQ $0x04, CX"] := by decide

theorem asm_text_valid_cmp3 : ins_asm_valid_cmp3 =
    ["CMPQ CX, $0x03",
     "JB cmp2",
     "MOVWLZX (AX), CX",
     "MOVBLZX 2(AX), AX",
     "SHLL $0x10, AX",
     "ORL CX, AX",
     "TESTL $0x80808080, AX",
     "JMP done"] := by decide

theorem asm_text_valid_cmp2 : ins_asm_valid_cmp2 =
    ["CMPQ CX, $0x02",
     "JB cmp1",
     "TESTW $0x8080, (AX)",
     "JMP done"] := by decide

theorem asm_text_valid_cmp1 : ins_asm_valid_cmp1 =
    ["CMPQ CX, $0x00",
     "JE done",
     "TESTB $0x80, (AX)"] := by decide

theorem asm_text_valid_done : ins_asm_valid_done =
    ["SETEQ ret+16(FP)",
     "RET"] := by decide

theorem asm_text_valid_invalid : ins_asm_valid_invalid =
    ["MOVB $0x00, ret+16(FP)",
     "RET"] := by decide

theorem asm_text_valid_init_avx : ins_asm_valid_init_avx =
    ["PINSRQ $0x00, DX, X4",
     "VPBROADCASTQ X4, Y4"] := by decide

theorem asm_text_valid_cmp256 : ins_asm_valid_cmp256 =
    ["CMPQ CX, $0x00000100",
     "JB cmp128",
     "VMOVDQU (AX), Y0",
     "VPOR 32(AX), Y0, Y0",
     "VMOVDQU 64(AX), Y1",
     "VPOR 96(AX), Y1, Y1",
     "VMOVDQU 128(AX), Y2",
     "VPOR 160(AX), Y2, Y2",
     "VMOVDQU 192(AX), Y3",
     "VPOR 224(AX), Y3, Y3",
     "VPOR Y1, Y0, Y0",
     "VPOR Y3, Y2, Y2",
     "VPOR Y2, Y0, Y0",
     "VPTEST Y0, Y4",
     "JNZ invalid",
     "ADDQ $0x00000100, AX",
     "SUBQ $0x00000100, CX",
     "JMP cmp256"] := by decide

theorem asm_text_valid_cmp128 : ins_asm_valid_cmp128 =
    ["CMPQ CX, $0x80",
     "JB cmp64",
     "VMOVDQU (AX), Y0",
     "VPOR 32(AX), Y0, Y0",
     "VMOVDQU 64(AX), Y1",
     "VPOR 96(AX), Y1, Y1",
     "VPOR Y1, Y0, Y0",
     "VPTEST Y0, Y4",
     "JNZ invalid",
     "ADDQ $0x80, AX",
     "SUBQ $0x80, CX"] := by decide

theorem asm_text_valid_cmp64 : ins_asm_valid_cmp64 =
    ["CMPQ CX, $0x40",
     "JB cmp32",
     "VMOVDQU (AX), Y0",
     "VPOR 32(AX), Y0, Y0",
     "VPTEST Y0, Y4",
     "JNZ invalid",
     "ADDQ $0x40, AX",
     "SUBQ $0x40, CX"] := by decide

theorem asm_text_valid_cmp32 : ins_asm_valid_cmp32 =
    ["CMPQ CX, $0x20",
     "JB cmp16",
     "VPTEST (AX), Y4",
     "JNZ invalid",
     "ADDQ $0x20, AX",
     "SUBQ $0x20, CX"] := by decide

theorem asm_text_valid_cmp16 : ins_asm_valid_cmp16 =
    ["CMPQ CX, $0x10",
     "JLE cmp_tail",
     "VPTEST (AX), X4",
     "JNZ invalid",
     "ADDQ $0x10, AX",
     "SUBQ $0x10, CX"] := by decide

theorem asm_text_valid_cmp_tail : ins_asm_valid_cmp_tail =
    ["SUBQ $0x10, CX",
     "ADDQ CX, AX",
     "VPTEST (AX), X4",
     "JMP done"] := by decide

theorem asm_text_valid_print_ValidPrintString : ins_asm_valid_print_ValidPrintString =
    ["MOVQ s_base+0(FP), AX",
     "MOVQ s_len+8(FP), CX",
     "CMPQ CX, $0x10",
     "JB init_x86",
     "BTL $0x08, github·com∕segmentio∕asm∕cpu·X86+0(SB)",
     "JCS init_avx"] := by decide

theorem asm_text_valid_print_init_x86 : ins_asm_valid_print_init_x86 =
    ["CMPQ CX, $0x08",
     "JB cmp4",
     "MOVQ $0xdfdfdfdfdfdfdfe0, DX",
     "MOVQ $0x0101010101010101, BX",
     "MOVQ $0x8080808080808080, SI"] := by decide

theorem asm_text_valid_print_cmp8 : ins_asm_valid_print_cmp8 =
    ["MOVQ (AX), DI",
     "MOVQ DI, R8",
     "LEAQ (DI)(DX*1), R9",
     "NOTQ R8",
     "ANDQ R8, R9",
     "LEAQ (DI)(BX*1), R8",
     "ORQ R8, DI",
     "ORQ R9, DI",
     "ADDQ $0x08, AX",
     "SUBQ $0x08, CX",
     "TESTQ SI, DI",
     "JNE done",
     "CMPQ CX, $0x08",
     "JB cmp4",
     "JMP cmp8"] := by decide

theorem asm_text_valid_print_cmp4 : ins_asm_valid_print_cmp4 =
    ["CMPQ CX, $0x04",
     "JB cmp3",
     "MOVL (AX), DX",
     "MOVL DX, BX",
     "LEAL 3755991008(DX), SI",
     "NOTL BX",
     "ANDL BX, SI",
     "LEAL 16843009(DX), BX",
     "ORL BX, DX",
     "ORL SI, DX",
     "ADDQ $0x04, AX",
     "SUBQ $0x04, CX",
     "TESTL $0x80808080, DX",
     "JNE done"] := by decide

theorem asm_text_valid_print_cmp3 : ins_asm_valid_print_cmp3 =
    ["CMPQ CX, $0x03",
     "JB cmp2",
     "MOVWLZX (AX), DX",
     "MOVBLZX 2(AX), AX",
     "SHLL $0x10, AX",
     "ORL DX, AX",
     "ORL $0x20000000, AX",
     "JMP final"] := by decide

theorem asm_text_valid_print_cmp2 : ins_asm_valid_print_cmp2 =
    ["CMPQ CX, $0x02",
     "JB cmp1",
     "MOVWLZX (AX), AX",
     "ORL $0x20200000, AX",
     "JMP final"] := by decide

theorem asm_text_valid_print_cmp1 : ins_asm_valid_print_cmp1 =
    ["CMPQ CX, $0x00",
     "JE done",
     "MOVBLZX (AX), AX",
     "ORL $0x20202000, AX"] := by decide

theorem asm_text_valid_print_final : ins_asm_valid_print_final =
    ["MOVL AX, CX",
     "LEAL 3755991008(AX), DX",
     "NOTL CX",
     "ANDL CX, DX",
     "LEAL 16843009(AX), CX",
     "ORL CX, AX",
     "ORL DX, AX",
     "TESTL $0x80808080, AX"] := by decide

theorem asm_text_valid_print_done : ins_asm_valid_print_done =
    ["SETEQ ret+16(FP)",
     "RET"] := by decide

theorem asm_text_valid_print_init_avx : ins_asm_valid_print_init_avx =
    ["MOVB $0x1f, DL",
     "PINSRB $0x00, DX, X8",
     "VPBROADCASTB X8, Y8",
     "MOVB $0x7e, DL",
     "PINSRB $0x00, DX, X9",
     "VPBROADCASTB X9, Y9"] := by decide

theorem asm_text_valid_print_cmp128 : ins_asm_valid_print_cmp128 =
    ["CMPQ CX, $0x80",
     "JB cmp64",
     "VMOVDQU (AX), Y0",
     "VMOVDQU 32(AX), Y1",
     "VMOVDQU 64(AX), Y2",
     "VMOVDQU 96(AX), Y3",
     "VPCMPGTB Y8, Y0, Y4",
     "VPCMPGTB Y9, Y0, Y0",
     "VPANDN Y4, Y0, Y0",
     "VPCMPGTB Y8, Y1, Y5",
     "VPCMPGTB Y9, Y1, Y1",
     "VPANDN Y5, Y1, Y1",
     "VPCMPGTB Y8, Y2, Y6",
     "VPCMPGTB Y9, Y2, Y2",
     "VPANDN Y6, Y2, Y2",
     "VPCMPGTB Y8, Y3, Y7",
     "VPCMPGTB Y9, Y3, Y3",
     "VPANDN Y7, Y3, Y3",
     "VPAND Y1, Y0, Y0",
     "VPAND Y3, Y2, Y2",
     "VPAND Y2, Y0, Y0",
     "ADDQ $0x80, AX",
     "SUBQ $0x80, CX",
     "VPMOVMSKB Y0, DX",
     "XORL $0xffffffff, DX",
     "JNE done",
     "JMP cmp128"] := by decide

theorem asm_text_valid_print_cmp64 : ins_asm_valid_print_cmp64 =
    ["CMPQ CX, $0x40",
     "JB cmp32",
     "VMOVDQU (AX), Y0",
     "VMOVDQU 32(AX), Y1",
     "VPCMPGTB Y8, Y0, Y2",
     "VPCMPGTB Y9, Y0, Y0",
     "VPANDN Y2, Y0, Y0",
     "VPCMPGTB Y8, Y1, Y3",
     "VPCMPGTB Y9, Y1, Y1",
     "VPANDN Y3, Y1, Y1",
     "VPAND Y1, Y0, Y0",
     "ADDQ $0x40, AX",
     "SUBQ $0x40, CX",
     "VPMOVMSKB Y0, DX",
     "XORL $0xffffffff, DX",
     "JNE done"] := by decide

theorem asm_text_valid_print_cmp32 : ins_asm_valid_print_cmp32 =
    ["CMPQ CX, $0x20",
     "JB cmp16",
     "VMOVDQU (AX), Y0",
     "VPCMPGTB Y8, Y0, Y1",
     "VPCMPGTB Y9, Y0, Y0",
     "VPANDN Y1, Y0, Y0",
     "ADDQ $0x20, AX",
     "SUBQ $0x20, CX",
     "VPMOVMSKB Y0, DX",
     "XORL $0xffffffff, DX",
     "JNE done"] := by decide

theorem asm_text_valid_print_cmp16 : ins_asm_valid_print_cmp16 =
    ["CMPQ CX, $0x10",
     "JLE cmp_tail",
     "VMOVDQU (AX), X0",
     "VPCMPGTB X8, X0, X1",
     "VPCMPGTB X9, X0, X0",
     "VPANDN X1, X0, X0",
     "ADDQ $0x10, AX",
     "SUBQ $0x10, CX",
     "VPMOVMSKB X0, DX",
     "XORL $0x0000ffff, DX",
     "JNE done"] := by decide

theorem asm_text_valid_print_cmp_tail : ins_asm_valid_print_cmp_tail =
    ["SUBQ $0x10, CX",
     "ADDQ CX, AX",
     "VMOVDQU (AX), X0",
     "VPCMPGTB X8, X0, X1",
     "VPCMPGTB X9, X0, X0",
     "VPANDN X1, X0, X0",
     "VPMOVMSKB X0, DX",
     "XORL $0x0000ffff, DX",
     "JMP done"] := by decide


end Enc.Model.AsciiAsm.Pins
