import Enc.Model.ThriftEmbed
import Enc.Model.ThriftUnion
/-!
Model of /repo/thrift `structDecoder.decode` for a struct that has BOTH embedded fields and a union field — the two
features of `Enc.Model.ThriftEmbed` (index paths, allocation of nil embedded pointers on the way to a member) and
`Enc.Model.ThriftUnion` (`v.Set(dec.zero)` on every accepted member, `lastField`, and at the end the union interface field
is set to `lastField.Addr()`) combined AS WRITTEN (after fix 62e5e1f).

`forEachStructField` reports the union field like a member, with its index path (`dec.union = f.index`): the interface field
may be promoted from an embedded struct. Since every accepted member first resets the whole struct to its zero value, an
embedded POINTER on the way to the union field is nil at the end unless the walk to the last member happened to allocate it.
Before the fix the closing statement was `v.FieldByIndex(dec.union).Set(lastField.Addr())`: `reflect.Value.FieldByIndex` does
not allocate and PANICKED there ("reflect: indirection through nil pointer to embedded struct"; input 15 0a 00 for
`struct{M; *U}`). Now the path to the union field is walked like the members' paths: nil embedded pointers are allocated,
one that cannot be set (embedded pointer to an unexported struct type) is the error "cannot set embedded field of unexported
type" (`blocked`, the same test as for members), and a member whose address is not assignable to the interface type of the
union field is an error too (only the empty interface `any` exists in the universe: always assignable). The encoder reads
the field with `FieldByIndexErr` and treats the error as "union field is nil".

Representation: the union field holds `.ptr (.list <index path of the member>)` (the address of the member located by its
path); nothing else is added to the universe.
-/
namespace Enc.Model.Thrift
open Enc

mutual
def unionPathsEmb : Ty → List Nat → Option (List (List Nat))
  | .ptr t, index => unionPathsEmb t index
  | .named _ t, index => unionPathsEmb t index
  | .struct fs, index => some (unionPaths fs index 0)
  | _, _ => none
-- go: thrift.forEachStructField — the fields it reports with the `union` flag, with their index paths
def unionPaths : Fields → List Nat → Nat → List (List Nat)
  | .nil, _, _ => []
  | .cons name tag emb t rest, index, i =>
    let tl := unionPaths rest index (i + 1)
    if !isExported name && !emb then tl else
    let fieldIndex := index ++ [i]
    match (if emb then unionPathsEmb t fieldIndex else none) with
    | some l => l ++ tl
    | none => if isUnionTag tag then fieldIndex :: tl else tl
end

/-- `dec.union` (the last field reported with the flag) -/
def unionPathE (fs : Fields) : Option (List Nat) := (unionPaths fs [] 0).getLast?

-- go: reflect.Value.FieldByIndex(Err) — `false` = a nil embedded pointer on the way (the ENCODER's `FieldByIndexErr` fails
-- there; the decoder used to panic there before fix 62e5e1f and no longer uses it)
def fieldByIndexOK : Vals → List Nat → Bool
  | _, [] => true
  | _, [_] => true
  | vs, i :: rest =>
    match Vals.get vs i with
    | .struct ws => fieldByIndexOK ws rest
    | .ptr (.struct ws) => fieldByIndexOK ws rest
    | _ => false

/-- the address of the member at index path `k` -/
def pathRef (k : List Nat) : Val := .ptr (.list (Vals.ofList (k.map fun i => .int (Int.ofNat i))))

abbrev StructOutE := Vals × List Int × Option (List Nat)

-- go: structDecoder.decode via readStruct; `zero` = `some dec.zero` for a union, `lastF` = index path of `lastField`
def decodeStructUE (p : Proto) (strict : Bool) (d : Nat) (fs : Fields) (descs : List FlatField) (zero : Option Vals) :
    Nat → Bytes → Vals → Int → Nat → List Int → Option (List Nat) → R StructOutE
  | 0, _, _, _, _, _, _ => .err "fuel"
  | fuel + 1, b, vs, last, num, seen, lastF =>
    match rField p b with
    | .err e => if num > 0 ∧ e == "eof" then .err "unexpectedEof" else .err e
    | .panic e => .panic e
    | .ok (h, r) =>
      if h.t == .stop then (if h.delta then .err "deltaStop" else .ok ((vs, seen, lastF), r))
      else
        let id := wrap16 (if h.delta then h.id + last else h.id)
        let sk : R Unit :=
          if (h.t == .true_ || h.t == .bool) && p.coalesce then .ok ((), r) else skip p d fuel h.t r
        match findByIdE descs id with
        | none =>
          (dontExpectEOF sk).bind fun (_, r) => decodeStructUE p strict d fs descs zero fuel r vs id (num + 1) seen lastF
        | some fd =>
          let seen := id :: seen
          let ft := typeOf fd.ty
          if h.t != ft && !(h.t == .true_ && ft == .bool) then
            if strict then .err "typeMismatch"
            else (dontExpectEOF sk).bind fun (_, r) =>
              decodeStructUE p strict d fs descs zero fuel r vs id (num + 1) seen lastF
          else
            let vs := resetTo zero vs                                    -- `if union { v.Set(dec.zero) }`
            if blocked fs vs fd.index then .err "cannotSet"
            else
            let lastF := some fd.index                                   -- `lastField = x`
            if p.coalesce && (h.t == .true_ || h.t == .bool) then
              decodeStructUE p strict d fs descs zero fuel r
                (setPathA fs vs fd.index (wrapPtr fd.ty (.bool (h.t == .true_)))) id (num + 1) seen lastF
            else
              let res : R Val :=
                if fd.enum then
                  (match baseOf fd.ty with
                   | .int k => (rI32 p r).bind fun (x, r) => .ok (wrapPtr fd.ty (.int (wrapTo k.bits x)), r)
                   | _ => decode p strict d fuel fd.ty r (getPathA fs vs fd.index))
                else decode p strict d fuel fd.ty r (getPathA fs vs fd.index)
              (dontExpectEOF res).bind fun (v, r) =>
                decodeStructUE p strict d fs descs zero fuel r (setPathA fs vs fd.index v) id (num + 1) seen lastF

/-- the end of structDecoder.decode: required fields, then the walk to the union field (allocating; `blocked` = a nil
embedded pointer that cannot be set, or a union field that cannot) and `u.Set(lastField.Addr())` -/
def structEndUE (fs : Fields) (descs : List FlatField) (up : Option (List Nat)) (x : StructOutE × Bytes) : R Val :=
  if descs.any (fun fd => fd.required && !x.1.2.1.contains fd.id) then .err "missingField"
  else
    match up, x.1.2.2 with
    | some upath, some k =>
      if blocked fs x.1.1 upath then .err "cannotSet"
      else .ok (.struct (setPathA fs x.1.1 upath (pathRef k)), x.2)
    | _, _ => .ok (.struct x.1.1, x.2)

-- go: decodeFuncStructOf / structDecoder.decode for a struct type with embedded fields and a union field (reached through
-- names and pointers); the member types themselves are decoded by `Model.Thrift.decode`
def decodeUE (p : Proto) (strict : Bool) (d : Nat) : Nat → Ty → Bytes → Val → R Val
  | 0, _, _, _ => .err "fuel"
  | fuel + 1, t, b, cur =>
    match t with
    | .struct fs =>
      if tooDeep d then .err "maxDepth"
      else
      match cur with
      | .struct vs =>
        let descs := fieldDescsE fs
        let up := unionPathE fs
        let zero := up.map fun _ => zeroFields fs
        (decodeStructUE p strict (d + 1) fs descs zero fuel b vs 0 0 [] none).bind (structEndUE fs descs up)
      | _ => .err "modelType"
    | .ptr et =>
      let tgt := match cur with | .ptr v => v | _ => zeroOf et
      (decodeUE p strict d fuel et b tgt).bind fun (v, r) => .ok (.ptr v, r)
    | .named _ t' => decodeUE p strict d fuel t' b cur
    | t => decode p strict d (fuel + 1) t b cur

-- go: thrift.Unmarshal
def unmarshalUE (p : Proto) (strict : Bool) (t : Ty) (b : Bytes) : Res Val :=
  match decodeUE p strict 0 (4 * b.length + 64 + depth t) t b (zeroOf t) with
  | .ok (v, rest) => if rest.isEmpty then .ok v else .err "trailing"
  | .err e => .err e
  | .panic e => .panic e

end Enc.Model.Thrift
