import Enc.Driver.Ascii
import Enc.Driver.Proto
import Enc.Driver.ProtoRewrite
import Enc.Driver.ProtoTemplate
import Enc.Driver.Iso
import Enc.Driver.Thrift
import Enc.Driver.ThriftEmbed
import Enc.Driver.ThriftUnionEmbed
import Enc.Driver.Json
import Enc.Driver.JsonBuf
import Enc.Driver.JsonStrHelpers
import Enc.Driver.Conc
import Enc.Driver.JsonRaw
import Enc.Driver.JsonMapKeys
import Enc.Driver.JsonOmit
import Enc.Driver.JsonInlined
import Enc.Driver.JsonEncTyped
/-!
encdriver: reads `op<TAB>arg…` lines on stdin, answers `M<TAB>S<TAB>K` per line
(model observable, spec observable, comma-separated Known classes), `bad-op` for what it cannot parse.
Core-only: links as a native executable.
-/
open Enc

def dispatch (op : String) (args : List String) : Option (String × String × String) :=
  if op.startsWith "ascii." || op.startsWith "asmascii." then Driver.Ascii.handle op args
  else if op == "proto.msgrewrite" || op == "proto.tmplrewrite" then Driver.ProtoRewrite.handle op args
  else if op == "proto.typeof" || op == "proto.tmpltree" || op == "proto.tmplvalue" then Driver.ProtoTemplate.handle op args
  else if op.startsWith "proto." then Driver.Proto.handle op args
  else if op.startsWith "iso." then Driver.Iso.handle op args
  else if op == "thrift.embmarshal" || op == "thrift.embdecode" then Driver.ThriftEmbed.handle op args
  else if op == "thrift.uembdecode" then Driver.ThriftUnionEmbed.handle op args
  else if op.startsWith "thrift." then Driver.Thrift.handle op args
  else if op.startsWith "conc." then Driver.Conc.handle op args
  else if op == "json.mapkeyorder" || op == "json.mapkeydec" then Driver.JsonMapKeys.handle op args
  else if op == "json.enctyped" || op == "json.rttyped" then Driver.JsonEncTyped.handle op args
  else if op == "json.inlined" then Driver.JsonInlined.handle op args
  else if op == "json.omitempty" then Driver.JsonOmit.handle op args
  else if op == "json.rawemit" then Driver.JsonRaw.handle op args
  else if op == "json.bufappend" then Driver.JsonBuf.handle op args
  else if op == "json.strhelper" then Driver.JsonStrHelpers.handle op args
  else if op.startsWith "json." then Driver.Json.handle op args
  else none

def step (line : String) : String :=
  match (String.ofList (line.toList.filter (fun c => c != '\n' && c != '\r'))).splitOn "\t" with
  | op :: args =>
    match dispatch op args with
    | some (m, s, k) => m ++ "\t" ++ s ++ "\t" ++ k
    | none => "bad-op"
  | [] => "bad-op"

partial def loop (hin hout : IO.FS.Stream) : IO Unit := do
  let line ← hin.getLine
  if line.isEmpty then return ()
  hout.putStrLn (step line)
  loop hin hout

def main : IO Unit := do
  let hin ← IO.getStdin
  let hout ← IO.getStdout
  loop hin hout
  hout.flush
