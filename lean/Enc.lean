-- root of the `Enc` library: every property module (which pull in models, specs, lemmas)
import Enc.Props.C20
import Enc.Props.C03
import Enc.Props.C07
import Enc.Props.C12
import Enc.Props.C16
import Enc.Props.C18
import Enc.Props.C05
import Enc.Props.C11
import Enc.Props.C17
import Enc.Driver.Json
import Enc.Props.C04
import Enc.Props.C08
import Enc.Props.C13
import Enc.Driver.Thrift
import Enc.Driver.Iso
import Enc.Driver.Ascii
import Enc.Driver.Proto
