-- root of the `Enc` library: every property module (which pull in models, specs, lemmas)
import Enc.Props.C20
import Enc.Driver.Ascii
