import Lean
/-!
Axiom audit. `lake env lean --run tools/Audit.lean Enc.Props.C20 [more modules]` prints, for every theorem
declared in the namespace equal to the module name (non-internal names), one line
`THEOREM <name> AXIOMS <a1,a2,...>`. The orchestrator compares the axioms with its allow-list.
Own traversal of the kernel environment (no reliance on pre-computed extension data).
-/
open Lean

abbrev AuditM := StateM (NameMap (Array Name))

partial def axiomsOf (env : Environment) (c : Name) : AuditM (Array Name) := do
  if let some r := (← get).find? c then return r
  modify fun s => s.insert c #[]          -- sentinel against cycles (inductive ↔ ctor ↔ rec)
  let ofExpr (e : Expr) : AuditM NameSet := do
    let mut acc : NameSet := {}
    for d in e.getUsedConstants do
      for a in (← axiomsOf env d) do acc := acc.insert a
    return acc
  let merge (a b : NameSet) : NameSet := b.foldl (fun s x => s.insert x) a
  let res : NameSet ← match env.find? c with
    | some (.axiomInfo v)  => do let s ← ofExpr v.type; pure (s.insert c)
    | some (.defnInfo v)   => do pure (merge (← ofExpr v.type) (← ofExpr v.value))
    | some (.thmInfo v)    => do pure (merge (← ofExpr v.type) (← ofExpr v.value))
    | some (.opaqueInfo v) => do pure (merge (← ofExpr v.type) (← ofExpr v.value))
    | some (.ctorInfo v)   => ofExpr v.type
    | some (.recInfo v)    => ofExpr v.type
    | some (.inductInfo v) => do
        let mut s ← ofExpr v.type
        for k in v.ctors do
          for a in (← axiomsOf env k) do s := s.insert a
        pure s
    | _ => pure {}
  let arr := res.toArray.qsort Name.lt
  modify fun s => s.insert c arr
  return arr

def main (args : List String) : IO UInt32 := do
  initSearchPath (← findSysroot)
  if args.isEmpty then IO.eprintln "usage: Audit <Module>..."; return 2
  let mods := args.map String.toName
  let env ← importModules (mods.toArray.map fun m => {module := m}) {} (loadExts := false)
  let mut cache : NameMap (Array Name) := {}
  for modName in mods do
    let mut names : Array Name := #[]
    for (n, ci) in env.constants.map₁.toList do
      if modName.isPrefixOf n && !n.isInternalDetail then
        match ci with
        | .thmInfo _ => names := names.push n
        | _ => pure ()
    let sorted := names.qsort (fun a b => a.toString < b.toString)
    for n in sorted do
      let (axs, c') := (axiomsOf env n).run cache
      cache := c'
      IO.println s!"THEOREM {n} AXIOMS {String.intercalate "," (axs.toList.map toString)}"
  return 0
