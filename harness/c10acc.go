package main

import (
	"bytes"
	"encoding/base64"
	stdjson "encoding/json"
	"io"
	"math"
	"reflect"
	"sort"
	"strconv"
	"strings"
	"sync"
	"unsafe"

	"github.com/segmentio/encoding/json"
)

// C10, retained results — every public json API that hands out memory (or fills memory of the caller) is called repeatedly;
// each result is retained next to a private copy taken at the moment it was returned; then further calls of every kind are made
// on the same object, on other objects and on other goroutines; finally every retained original is compared with its copy.
// Address classification decides where a result may live: documented sub-slices of the input (Tokenizer.Value, the remainder
// of Parse) lie inside the input, documented copies lie neither in an input nor in memory handed out by another call, and
// they survive the inputs being overwritten.
//
//	json.retain <api> <seed> <size 0..3>   -> ok | retained-changed:<api>:<call> | changed-with-input:<api>:<call> |
//	                                          input-modified:<api> | alias:<api>:<call> | alias-input:<api>:<call> |
//	                                          outside-input:<api>:<call> | mismatch:<api>:<call> | error:<api>:<call>
//
// Everything derives from <seed> and <size>: a case replays exactly.

const (
	accSub    = iota // documented sub-slice of the lent input: lies inside it, stays unchanged while the input is
	accFresh         // documented copy: fresh memory, survives everything
	accEither        // a sub-slice of its own input when possible, otherwise a copy (Tokenizer.String, zero-copy decoding)
	accOwned         // appended to a buffer of the caller: may share memory with that buffer only
)

type accLent struct {
	buf     []byte
	snap    []byte
	ro      bool // memory of a Go string or of a value being encoded: compared, never overwritten
	scratch bool // memory the Decoder asked its reader to fill: classified by address and overwritten at the end, not compared
}

type accRec struct {
	api   string
	call  int
	group int // results of one group may share memory with each other
	mem   []byte
	snap  []byte
	in    bool // lies inside a lent buffer (then it need not survive the overwriting of that buffer)
	noal  bool // exempt from the cross-call alias check (one-byte strings live in a static table of the runtime)
}

type accVal struct {
	api       string
	call      int
	ptr, snap reflect.Value
	copied    bool // decoded without zero-copy flags: survives the overwriting of the input
}

type accLog struct {
	lent  []accLent
	recs  []accRec
	vals  []accVal
	call  int
	group int // when not zero: the group of the next results
	bad   string
}

func (lg *accLog) fail(what, api string) {
	if lg.bad == "" {
		lg.bad = what + ":" + api + ":" + strconv.Itoa(lg.call)
	}
}

func accSpan(b []byte) (uintptr, uintptr) {
	lo := uintptr(unsafe.Pointer(unsafe.SliceData(b)))
	return lo, lo + uintptr(len(b))
}

func accOverlap(a, b []byte) bool {
	if len(a) == 0 || len(b) == 0 {
		return false
	}
	al, ah := accSpan(a)
	bl, bh := accSpan(b)
	return al < bh && bl < ah
}

func accWithin(a, home []byte) bool {
	al, ah := accSpan(a)
	hl, hh := accSpan(home)
	return len(home) != 0 && al >= hl && ah <= hh
}

func accStrBytes(s string) []byte { return unsafe.Slice(unsafe.StringData(s), len(s)) }

// lend makes the private input buffer of one call (with spare capacity) and remembers what it must still hold afterwards.
func (lg *accLog) lend(doc []byte, spare int) []byte {
	in := append(make([]byte, 0, len(doc)+spare), doc...)
	lg.lent = append(lg.lent, accLent{buf: in, snap: append([]byte{}, doc...)})
	return in
}

// lendValue registers the memory reachable from a value that is about to be encoded.
func (lg *accLog) lendValue(v reflect.Value) {
	var regs []region
	regions(v, &regs)
	for _, r := range regs {
		if r.n < 2 {
			continue
		}
		b := unsafe.Slice((*byte)(r.p), r.n)
		lg.lent = append(lg.lent, accLent{buf: b, snap: append([]byte{}, b...), ro: true})
	}
}

func (lg *accLog) lendScratch(p []byte) {
	for _, l := range lg.lent {
		if l.scratch && accWithin(p, l.buf) {
			return
		}
	}
	lg.lent = append(lg.lent, accLent{buf: p, scratch: true})
}

// next starts the record of one more API call.
func (lg *accLog) next() { lg.call++ }

// mem retains one piece of memory handed out by api.
func (lg *accLog) mem(api string, class int, b, home []byte) {
	if len(b) == 0 {
		return
	}
	rec := accRec{api: api, call: lg.call, group: lg.call, mem: b, snap: append([]byte{}, b...)}
	if lg.group != 0 {
		rec.group = lg.group
	}
	for _, l := range lg.lent {
		if accOverlap(b, l.buf[:cap(l.buf)]) {
			rec.in = true
			break
		}
	}
	switch class {
	case accSub:
		if !accWithin(b, home) {
			lg.fail("outside-input", api)
		}
	case accEither:
		if rec.in && !accWithin(b, home) {
			lg.fail("alias-input", api)
		}
	default:
		if rec.in {
			lg.fail("alias-input", api)
		}
	}
	lg.recs = append(lg.recs, rec)
}

// val retains a decoded value: the whole value next to a deep copy, and each string / Number / RawMessage / []byte in it.
func (lg *accLog) val(api string, ptr reflect.Value, fl json.ParseFlags, home []byte) {
	lg.vals = append(lg.vals, accVal{api: api, call: lg.call, ptr: ptr, snap: deepCopy(ptr.Elem()), copied: fl&json.ZeroCopy == 0})
	var regs []region
	regions(ptr.Elem(), &regs)
	for _, r := range regs {
		class := accFresh
		switch {
		case r.kind == "string" && fl&json.DontCopyString != 0, r.kind == "number" && fl&json.DontCopyNumber != 0,
			r.kind == "raw" && fl&json.DontCopyRawMessage != 0:
			class = accEither
		}
		lg.mem(api, class, unsafe.Slice((*byte)(r.p), r.n), home)
		if r.n == 1 && (r.kind == "string" || r.kind == "number") {
			lg.recs[len(lg.recs)-1].noal = true
		}
	}
}

func (lg *accLog) checkLent(api string) {
	for _, l := range lg.lent {
		if !l.scratch && !bytes.Equal(l.buf, l.snap) && lg.bad == "" {
			lg.bad = "input-modified:" + api
		}
	}
}

func (lg *accLog) checkRetained(what string, afterOverwrite bool) {
	for _, r := range lg.recs {
		if afterOverwrite && r.in {
			continue
		}
		if !bytes.Equal(r.mem, r.snap) && lg.bad == "" {
			lg.bad = what + ":" + r.api + ":" + strconv.Itoa(r.call)
		}
	}
	for _, v := range lg.vals {
		if afterOverwrite && !v.copied {
			continue
		}
		if !eqVal(v.ptr.Elem(), v.snap) && lg.bad == "" {
			lg.bad = what + ":" + v.api + ":" + strconv.Itoa(v.call)
		}
	}
}

// checkAlias: memory handed out by one call is not handed out again by another call.
func (lg *accLog) checkAlias() {
	var idx []int
	for i, r := range lg.recs {
		if !r.in && !r.noal {
			idx = append(idx, i)
		}
	}
	sort.Slice(idx, func(a, b int) bool {
		la, _ := accSpan(lg.recs[idx[a]].mem)
		lb, _ := accSpan(lg.recs[idx[b]].mem)
		if la != lb {
			return la < lb
		}
		return idx[a] < idx[b]
	})
	var maxHi uintptr
	top := -1
	for _, i := range idx {
		lo, hi := accSpan(lg.recs[i].mem)
		if top >= 0 && lo < maxHi && lg.recs[top].group != lg.recs[i].group && lg.bad == "" {
			later := lg.recs[i]
			if lg.recs[top].call > later.call {
				later = lg.recs[top]
			}
			lg.bad = "alias:" + later.api + ":" + strconv.Itoa(later.call)
		}
		if top < 0 || hi > maxHi {
			maxHi, top = hi, i
		}
	}
}

func (lg *accLog) overwrite() {
	for _, l := range lg.lent {
		if l.ro {
			continue
		}
		b := l.buf[:cap(l.buf)]
		for i := range b {
			b[i] = 0xFF
		}
	}
}

// ---- documents ---------------------------------------------------------------------------------------------------------

type accGen struct {
	r    *H
	size int
}

var accEscapes = []string{`\n`, `\t`, `\"`, `\\`, `\/`, `\b`, `\f`, `\r`, `\u00e9`, `\u2028`, `\u0041`, `\ud83d\ude00`, `\ud800`, `\udc00x`, `\u0000`, `\u003c`, `\u00E9`}
var accRunes = []string{"\u00e9", "\u65e5\u672c", "\U0001F600", "\u2028", "\u00df", "\u00a0"}
var accInvalid = []string{"\xff", "\xc3", "\xe2\x82", "\xed\xa0\x80", "\x80"}

const accASCII = "abcdefghijklmnopqrstuvwxyz ABCXYZ0123456789<>&_-.,:;{}[]/'"

func (g *accGen) strLen() int {
	r := g.r
	switch r.Intn(10) {
	case 0:
		return 0
	case 1, 2, 3:
		return 1 + r.Intn(8)
	case 4, 5, 6:
		return 8 + r.Intn(56)
	case 7, 8:
		if g.size >= 1 {
			return 64 + r.Intn(500)
		}
		return r.Intn(24)
	}
	switch g.size {
	case 0:
		return r.Intn(40)
	case 1:
		return 200 + r.Intn(800)
	case 2:
		return 500 + r.Intn(1500)
	}
	return 3000 + r.Intn(6000)
}

// str writes a JSON string of about n source bytes. style 0: printable ASCII only; 1: escape sequences (the first unit is one);
// 2: non-ASCII UTF-8; 3: all of that and invalid UTF-8.
func (g *accGen) str(b *bytes.Buffer, n, style int) {
	r := g.r
	b.WriteByte('"')
	start := b.Len()
	first := true
	for b.Len()-start < n {
		k := r.Intn(8)
		if first && style != 0 {
			k = style - 1
			if style == 3 {
				k = r.Intn(3)
			}
		} else if style == 1 && k < 3 {
			k = 0
		} else if style == 2 && k < 3 {
			k = 1
		}
		first = false
		switch {
		case style != 0 && k == 0:
			b.WriteString(accEscapes[r.Intn(len(accEscapes))])
		case style != 0 && k == 1:
			b.WriteString(accRunes[r.Intn(len(accRunes))])
		case style == 3 && k == 2:
			b.WriteString(accInvalid[r.Intn(len(accInvalid))])
		default:
			b.WriteByte(accASCII[r.Intn(len(accASCII))])
		}
	}
	b.WriteByte('"')
}

func (g *accGen) anyStr(b *bytes.Buffer) {
	style := 0
	if g.r.Intn(3) != 0 {
		style = 1 + g.r.Intn(3)
	}
	g.str(b, g.strLen(), style)
}

func (g *accGen) num(b *bytes.Buffer) {
	r := g.r
	switch r.Intn(8) {
	case 0:
		b.WriteString(r.Pick([]string{"0", "-0", "1", "-1", "0.5", "1e5", "1E+2", "-2.5e-3", "0.000001", "18446744073709551615", "-9223372036854775808", "9223372036854775808"}))
	case 1, 2:
		b.WriteString(strconv.FormatInt(int64(r.U64()>>uint(r.Intn(64))), 10))
	case 3:
		b.WriteString(strconv.FormatInt(-int64(r.U64()>>uint(1+r.Intn(63))), 10))
	case 4:
		b.WriteString(strconv.FormatFloat(math.Float64frombits(r.U64()&^(0x7ff<<52)|uint64(1000+r.Intn(60))<<52), 'g', -1, 64))
	case 5:
		b.WriteString(strconv.Itoa(r.Intn(1000)) + "." + strconv.Itoa(r.Intn(1000)) + "e" + r.Pick([]string{"", "+", "-"}) + strconv.Itoa(r.Intn(30)))
	default:
		n := 1 + r.Intn(8)
		if g.size > 0 {
			n = 1 + r.Intn(40)
		}
		b.WriteByte(byte('1' + r.Intn(9)))
		for i := 1; i < n; i++ {
			b.WriteByte(byte('0' + r.Intn(10)))
		}
	}
}

func (g *accGen) ws(b *bytes.Buffer) {
	b.WriteString(g.r.Pick([]string{"", "", "", " ", "\n", "\t ", "  ", "\r\n"}))
}

func (g *accGen) value(b *bytes.Buffer, depth int) {
	r := g.r
	k := r.Intn(12)
	if depth >= 4 && k >= 8 {
		k = r.Intn(8)
	}
	switch {
	case k < 5:
		g.anyStr(b)
	case k < 7:
		g.num(b)
	case k < 8:
		b.WriteString(r.Pick([]string{"true", "false", "null"}))
	case k < 10:
		b.WriteByte('[')
		g.ws(b)
		n := r.Intn(5)
		for i := 0; i < n; i++ {
			if i > 0 {
				b.WriteByte(',')
				g.ws(b)
			}
			g.value(b, depth+1)
			g.ws(b)
		}
		b.WriteByte(']')
	default:
		b.WriteByte('{')
		g.ws(b)
		n := r.Intn(4)
		for i := 0; i < n; i++ {
			if i > 0 {
				b.WriteByte(',')
				g.ws(b)
			}
			g.str(b, g.strLen()%40, r.Intn(4))
			g.ws(b)
			b.WriteByte(':')
			g.ws(b)
			g.value(b, depth+1)
			g.ws(b)
		}
		b.WriteByte('}')
	}
}

// doc writes one document: an array (obj 0) or an object (obj 1; -1: either) whose members are any values ("any"), strings
// only ("strings"), numbers only ("numbers") or base64 strings ("b64"). Every other document starts with a ladder of escaped
// strings whose lengths go down and then up again.
func (g *accGen) doc(mode string, obj int) []byte {
	r := g.r
	var b bytes.Buffer
	g.ws(&b)
	if obj < 0 {
		obj = 0
		if r.Intn(3) == 0 {
			obj = 1
		}
	}
	var n int
	switch g.size {
	case 0:
		n = 2 + r.Intn(5)
	case 1:
		n = 8 + r.Intn(24)
	case 2:
		n = 60 + r.Intn(140)
	default:
		n = 4 + r.Intn(8)
	}
	var ladder []int
	if (mode == "any" || mode == "strings") && r.Intn(2) == 0 {
		l := g.strLen() + 8
		ladder = []int{l, l * 3 / 4, l / 2, l / 4, 3, 1, 2 * l, 5, l + 1, l}
	}
	b.WriteString("[{"[obj : obj+1])
	for i := 0; i < n; i++ {
		if i > 0 {
			b.WriteByte(',')
		}
		g.ws(&b)
		if obj == 1 {
			g.str(&b, g.strLen()%40, r.Intn(4))
			g.ws(&b)
			b.WriteByte(':')
			g.ws(&b)
		}
		switch {
		case i < len(ladder):
			g.str(&b, ladder[i], 1+2*r.Intn(2))
		case mode == "strings":
			g.anyStr(&b)
		case mode == "numbers":
			g.num(&b)
		case mode == "b64":
			b.WriteByte('"')
			b.WriteString(base64.StdEncoding.EncodeToString(r.Bytes(g.strLen())))
			b.WriteByte('"')
		default:
			g.value(&b, 1)
		}
		g.ws(&b)
	}
	b.WriteString("]}"[obj : obj+1])
	g.ws(&b)
	return b.Bytes()
}

// ---- the further calls -------------------------------------------------------------------------------------------------

type accCtx struct {
	r    *H
	g    *accGen
	lg   *accLog
	size int
	arg  int
	seed uint64
}

// accExercise calls about everything on a document, retaining nothing.
func accExercise(d []byte) {
	defer func() { recover() }()
	in := append([]byte{}, d...)
	tk := json.NewTokenizer(in)
	for tk.Next() {
		switch tk.Kind().Class() {
		case json.String:
			s := tk.String()
			u := tk.Value.Unquote()
			u = tk.Value.AppendUnquote(u[:0])
			e := json.Escape(string(s))
			json.Unescape(e)
			json.AppendEscape(e[:0], string(u), 0)
		case json.Num:
			tk.Float()
			tk.Int()
			tk.Uint()
		}
	}
	var x any
	json.Unmarshal(in, &x)
	out, _ := json.Marshal(x)
	json.MarshalIndent(x, ">", "\t")
	json.Append(make([]byte, 0, 8), x, 0)
	var sb bytes.Buffer
	enc := json.NewEncoder(&sb)
	enc.SetIndent("", " ")
	enc.Encode(x)
	enc.Encode(x)
	dec := json.NewDecoder(bytes.NewReader(append(out, out...)))
	dec.UseNumber()
	var y, z any
	dec.Decode(&y)
	dec.Decode(&z)
	json.Valid(in)
	var cb bytes.Buffer
	json.Compact(&cb, in)
	json.HTMLEscape(&cb, in)
	var rm any
	json.Parse(in, &rm, json.ZeroCopy)
	tk.Reset(out)
	for tk.Next() {
		if tk.Kind().Class() == json.String {
			tk.String()
		}
	}
}

// further: more calls of every kind on other objects; heavy: also on two other goroutines, and the pools are churned.
func (c *accCtx) further(heavy bool) {
	g2 := &accGen{r: c.r, size: c.size}
	if g2.size > 1 {
		g2.size = 1
	}
	d := g2.doc("any", -1)
	accExercise(d)
	if !heavy {
		return
	}
	var wg sync.WaitGroup
	for _, x := range [][]byte{g2.doc("any", -1), g2.doc("strings", -1)} {
		wg.Add(1)
		go func(x []byte) {
			defer wg.Done()
			for i := 0; i < 3; i++ {
				accExercise(x)
			}
		}(x)
	}
	accExercise(d)
	wg.Wait()
	churn(c.seed)
}

func (c *accCtx) finish() string {
	lg := c.lg
	c.further(true)
	lg.checkLent("later-calls")
	lg.checkRetained("retained-changed", false)
	lg.checkAlias()
	lg.overwrite()
	lg.checkRetained("changed-with-input", true)
	if lg.bad != "" {
		return lg.bad
	}
	return "ok"
}

// ---- the scenarios, one per API family -----------------------------------------------------------------------------------

var accScenarios = map[string]func(c *accCtx){
	"tok.string": func(c *accCtx) {
		// two Tokenizers advance in turns, every String() result is retained; then one of them is Reset on a third document
		lg := c.lg
		in := [3][]byte{}
		for i := range in {
			in[i] = lg.lend(c.g.doc("any", -1), c.r.Intn(3)*8)
		}
		tks := [2]*json.Tokenizer{json.NewTokenizer(in[0]), json.NewTokenizer(in[1])}
		step := func(t *json.Tokenizer, home []byte) bool {
			if !t.Next() {
				return false
			}
			if t.Kind().Class() == json.String {
				lg.next()
				lg.mem("Tokenizer.String", accEither, t.String(), home)
			}
			return true
		}
		live, n, extra := [2]bool{true, true}, 0, 0
		for live[0] || live[1] {
			for i := range tks {
				if live[i] {
					live[i] = step(tks[i], in[i])
				}
			}
			if n++; n%97 == 0 && extra < 2 {
				extra++
				c.further(false)
			}
		}
		lg.checkLent("Tokenizer.String")
		tks[c.r.Intn(2)].Reset(in[2])
		t := tks[0]
		if t.Remaining() == 0 {
			t = tks[1]
		}
		for step(t, in[2]) {
		}
		lg.checkLent("Tokenizer.String")
	},
	"tok.value": func(c *accCtx) {
		// Value is a sub-slice of the input, found where Remaining says it is
		lg := c.lg
		t := json.NewTokenizer(nil)
		for round := 0; round < 3; round++ {
			in := lg.lend(c.g.doc("any", -1), c.r.Intn(3)*8)
			t.Reset(in)
			for t.Next() {
				lg.next()
				v := t.Value
				lg.mem("Tokenizer.Value", accSub, v, in)
				end := len(in) - t.Remaining()
				start := end - len(v)
				if start < 0 || end > len(in) || len(v) == 0 || &in[start] != &v[0] {
					lg.fail("mismatch", "Tokenizer.Remaining")
				}
			}
			if t.Err != nil {
				lg.fail("error", "Tokenizer.Next")
			}
			lg.checkLent("Tokenizer.Next")
			if round == 0 {
				c.further(false)
			}
		}
	},
	"tok.all": func(c *accCtx) {
		// every accessor of the Tokenizer and of its Value on every token
		lg := c.lg
		t := json.NewTokenizer(nil)
		for round := 0; round < 2; round++ {
			in := lg.lend(c.g.doc("any", -1), c.r.Intn(3)*8)
			t.Reset(in)
			n := 0
			for t.Next() {
				lg.next()
				accToken(c, t, in)
				if n++; n == 50 {
					c.further(false)
				}
			}
			if t.Err != nil {
				lg.fail("error", "Tokenizer.Next")
			}
			lg.checkLent("Tokenizer")
		}
	},
	"tok.err": func(c *accCtx) {
		// truncated and damaged documents: what was handed out before the error stays, the input is untouched, Next keeps failing
		lg := c.lg
		t := json.NewTokenizer(nil)
		for round := 0; round < 4; round++ {
			d := c.g.doc("any", -1)
			switch c.r.Intn(3) {
			case 0:
				d = d[:c.r.Intn(len(d))]
			case 1:
				d = c.r.mutateJSON(d)
			default:
				d = append([]byte{}, d...)
				d[c.r.Intn(len(d))] = byte(c.r.U64())
			}
			in := lg.lend(d, c.r.Intn(3)*8)
			t.Reset(in)
			for t.Next() {
				lg.next()
				lg.mem("Tokenizer.Value", accSub, t.Value, in)
				if t.Kind().Class() == json.String {
					lg.mem("Tokenizer.String", accEither, t.String(), in)
				}
			}
			failed := t.Err != nil
			if t.Next() && failed {
				lg.fail("mismatch", "Tokenizer.Next")
			}
			lg.checkLent("Tokenizer.Next")
		}
	},
	"raw.unquote": func(c *accCtx) {
		// RawValue.Unquote / AppendUnquote on the string tokens of a document, as sub-slices of the input and as private copies
		lg := c.lg
		in := lg.lend(c.g.doc("strings", -1), 0)
		var toks []json.RawValue
		for t := json.NewTokenizer(in); t.Next(); {
			if t.Kind().Class() == json.String && len(toks) < 400 {
				toks = append(toks, t.Value)
			}
		}
		for i, v := range toks {
			lg.next()
			if !v.String() || v.Null() || v.True() || v.False() || v.Number() {
				lg.fail("mismatch", "RawValue.String")
			}
			switch c.r.Intn(5) {
			case 0:
				lg.mem("RawValue.Unquote", accFresh, v.Unquote(), nil)
			case 1:
				lg.mem("RawValue.AppendUnquote", accFresh, v.AppendUnquote(nil), nil)
			case 2, 3:
				buf := append(make([]byte, 0, 4+c.r.Intn(2*len(v)+2)), "pre:"...)
				u := v.AppendUnquote(buf)
				if !bytes.HasPrefix(u, []byte("pre:")) || string(buf) != "pre:" {
					lg.fail("mismatch", "RawValue.AppendUnquote")
				}
				lg.mem("RawValue.AppendUnquote", accOwned, u, nil)
			default:
				pv := json.RawValue(lg.lend(v, c.r.Intn(2)*16))
				lg.mem("RawValue.Unquote", accFresh, pv.Unquote(), nil)
			}
			lg.checkLent("RawValue.Unquote")
			if i == 40 {
				c.further(false)
			}
		}
	},
	"parse": func(c *accCtx) {
		// Parse with the zero-copy flags of the api argument; the remainder is a sub-slice of the input
		fl := copyFlags(c.arg)
		for round := 0; round < 3; round++ {
			accDecodeOnce(c, "Parse", fl, true)
			if round == 0 {
				c.further(false)
			}
		}
	},
	"unmarshal": func(c *accCtx) {
		for round := 0; round < 3; round++ {
			accDecodeOnce(c, "Unmarshal", 0, false)
			if round == 0 {
				c.further(false)
			}
		}
	},
	"unmarshal.t": func(c *accCtx) {
		// values of the type-directed generator, each decoded twice from two buffers
		lg := c.lg
		for round := 0; round < 3; round++ {
			t, v, _ := jsonCase(c.r.U64(), true)
			doc, err := stdjson.Marshal(v.Interface())
			if err != nil {
				continue
			}
			for k := 0; k < 2; k++ {
				in := lg.lend(doc, c.r.Intn(3)*8)
				tgt := reflect.New(t)
				lg.next()
				if json.Unmarshal(in, tgt.Interface()) == nil {
					lg.val("Unmarshal", tgt, 0, in)
				}
				lg.checkLent("Unmarshal")
			}
		}
	},
	"decoder": func(c *accCtx) {
		// one Decoder over a stream of documents behind a reader that notes which memory it is asked to fill
		lg := c.lg
		var stream []byte
		type item struct {
			mode string
			obj  int
		}
		var items []item
		want := []int{3, 6, 30, 6}[c.size]
		for len(items) < want || (c.size >= 2 && len(stream) < 70000 && len(items) < 400) {
			it := item{c.r.Pick([]string{"any", "any", "strings", "numbers", "b64"}), c.r.Intn(2)}
			if it.mode == "b64" {
				it.obj = 0
			}
			stream = append(stream, c.g.doc(it.mode, it.obj)...)
			stream = append(stream, c.r.Pick([]string{"\n", " ", "", "\r\n"})...)
			items = append(items, it)
		}
		src := lg.lend(stream, 0)
		rd := &accReader{src: src, lg: lg}
		if c.r.Intn(2) == 0 {
			rd.chunk = 1 + c.r.Intn(5000)
		}
		dec := json.NewDecoder(rd)
		useNumber := c.arg == 1
		if useNumber {
			dec.UseNumber()
		}
		for i, it := range items {
			tgt := accTarget(c.r, it.mode, it.obj)
			lg.next()
			if err := dec.Decode(tgt.Interface()); err != nil {
				lg.fail("error", "Decoder.Decode")
				break
			}
			lg.val("Decoder.Decode", tgt, 0, nil)
			bb, _ := io.ReadAll(dec.Buffered())
			if len(bb) > rd.off || !bytes.Equal(bb, src[rd.off-len(bb):rd.off]) {
				lg.fail("mismatch", "Decoder.Buffered")
			}
			lg.checkLent("Decoder.Decode")
			if i == 1 {
				c.further(false)
			}
		}
	},
	"marshal": func(c *accCtx) {
		accEncode(c, "Marshal", func(x any, _ int) ([]byte, error, int) {
			b, err := json.Marshal(x)
			return b, err, accFresh
		})
	},
	"marshalindent": func(c *accCtx) {
		accEncode(c, "MarshalIndent", func(x any, _ int) ([]byte, error, int) {
			b, err := json.MarshalIndent(x, c.r.Pick([]string{"", ">", "\t"}), c.r.Pick([]string{"", " ", "\t", "    "}))
			return b, err, accFresh
		})
	},
	"append": func(c *accCtx) {
		accEncode(c, "Append", func(x any, _ int) ([]byte, error, int) {
			fl := json.AppendFlags(c.r.Intn(8))
			if c.r.Intn(3) == 0 {
				b, err := json.Append(nil, x, fl)
				return b, err, accFresh
			}
			buf := append(make([]byte, 0, 4+c.r.Intn(600)), "pre:"...)
			b, err := json.Append(buf, x, fl)
			if err == nil && (!bytes.HasPrefix(b, []byte("pre:")) || string(buf) != "pre:") {
				c.lg.fail("mismatch", "Append")
			}
			return b, err, accOwned
		})
	},
	"encoder": func(c *accCtx) {
		// one Encoder for all the values of the case, writing to a writer that keeps what it is given
		w := &accWriter{}
		enc := json.NewEncoder(w)
		prefix, indent := "", ""
		if c.arg == 1 {
			prefix, indent = c.r.Pick([]string{"", ">"}), c.r.Pick([]string{" ", "\t"})
			enc.SetIndent(prefix, indent)
		}
		accEncode(c, "Encoder.Encode", func(x any, _ int) ([]byte, error, int) {
			w.chunks = w.chunks[:0]
			err := enc.Encode(x)
			if err != nil {
				return nil, err, accFresh
			}
			got := bytes.Join(w.chunks, nil)
			var ref []byte
			var rerr error
			if c.arg == 1 {
				ref, rerr = json.MarshalIndent(x, prefix, indent)
			} else {
				ref, rerr = json.Marshal(x)
			}
			if rerr != nil || !bytes.Equal(got, append(ref, '\n')) {
				c.lg.fail("mismatch", "Encoder.Encode")
			}
			return got, nil, accFresh
		})
	},
	"escape": func(c *accCtx) {
		// Escape / AppendEscape of the strings of a document; the string being escaped is lent memory too
		lg := c.lg
		for i, s := range accStrings(c, 200) {
			lg.next()
			sb := lg.lend([]byte(s), 0)
			ls := unsafe.String(unsafe.SliceData(sb), len(sb))
			switch c.r.Intn(3) {
			case 0:
				lg.mem("Escape", accFresh, json.Escape(ls), nil)
			default:
				buf := append(make([]byte, 0, 4+c.r.Intn(2*len(s)+8)), "pre:"...)
				e := json.AppendEscape(buf, ls, json.AppendFlags(c.r.Intn(2)))
				if !bytes.HasPrefix(e, []byte("pre:")) || string(buf) != "pre:" {
					lg.fail("mismatch", "AppendEscape")
				}
				lg.mem("AppendEscape", accOwned, e, nil)
			}
			lg.checkLent("Escape")
			if i == 40 {
				c.further(false)
			}
		}
	},
	"unescape": func(c *accCtx) {
		// Unescape / AppendUnescape (with and without zero-copy flags: both append, so both copy)
		lg := c.lg
		in := c.g.doc("strings", -1)
		n := 0
		for t := json.NewTokenizer(in); t.Next() && n < 300; {
			if t.Kind().Class() != json.String {
				continue
			}
			n++
			lg.next()
			tok := lg.lend(t.Value, c.r.Intn(2)*16)
			switch c.r.Intn(3) {
			case 0:
				lg.mem("Unescape", accFresh, json.Unescape(tok), nil)
			default:
				buf := append(make([]byte, 0, 4+c.r.Intn(2*len(tok)+2)), "pre:"...)
				u := json.AppendUnescape(buf, tok, copyFlags(c.r.Intn(8)))
				if !bytes.HasPrefix(u, []byte("pre:")) || string(buf) != "pre:" {
					lg.fail("mismatch", "AppendUnescape")
				}
				lg.mem("AppendUnescape", accOwned, u, nil)
			}
			lg.checkLent("Unescape")
			if n == 40 {
				c.further(false)
			}
		}
	},
	"compact": func(c *accCtx) {
		// Compact / Indent / HTMLEscape into buffers of the caller (fresh ones, and one that is reused by every call)
		lg := c.lg
		var shared bytes.Buffer
		shared.WriteString("pre:")
		for round := 0; round < 6; round++ {
			src := lg.lend(c.g.doc("any", -1), c.r.Intn(2)*8)
			dst, ref := &bytes.Buffer{}, &bytes.Buffer{}
			lg.next()
			lg.group = 0
			if round%2 == 1 {
				dst = &shared
				lg.group = -1
			}
			before := dst.Len()
			var e1, e2 error
			api := ""
			switch c.r.Intn(3) {
			case 0:
				api = "Compact"
				e1, e2 = json.Compact(dst, src), stdjson.Compact(ref, src)
			case 1:
				api = "Indent"
				p, ind := c.r.Pick([]string{"", ">"}), c.r.Pick([]string{" ", "\t"})
				e1, e2 = json.Indent(dst, src, p, ind), stdjson.Indent(ref, src, p, ind)
			default:
				api = "HTMLEscape"
				json.HTMLEscape(dst, src)
				stdjson.HTMLEscape(ref, src)
			}
			if (e1 == nil) != (e2 == nil) || (e1 == nil && !bytes.Equal(dst.Bytes()[before:], ref.Bytes())) {
				lg.fail("mismatch", api)
			}
			if !bytes.HasPrefix(shared.Bytes(), []byte("pre:")) {
				lg.fail("mismatch", api)
			}
			lg.mem(api, accOwned, dst.Bytes(), nil)
			lg.group = 0
			lg.checkLent(api)
		}
	},
	"valid": func(c *accCtx) {
		// Valid reads only, whether the document is well formed or not
		lg := c.lg
		for round := 0; round < 8; round++ {
			d := c.g.doc("any", -1)
			switch c.r.Intn(4) {
			case 0:
				d = d[:c.r.Intn(len(d))]
			case 1:
				d = c.r.mutateJSON(d)
			}
			in := lg.lend(d, c.r.Intn(3)*8)
			lg.next()
			json.Valid(in)
			lg.checkLent("Valid")
		}
	},
}

// accToken: every accessor on the current token.
func accToken(c *accCtx, t *json.Tokenizer, in []byte) {
	lg := c.lg
	v := t.Value
	lg.mem("Tokenizer.Value", accSub, v, in)
	text := string(v)
	end := len(in) - t.Remaining()
	if start := end - len(v); start < 0 || end > len(in) || len(v) == 0 || &in[start] != &v[0] {
		lg.fail("mismatch", "Tokenizer.Remaining")
	}
	k := t.Kind()
	if t.Delim != 0 {
		if len(v) != 1 || byte(t.Delim) != v[0] || (k == json.Array) != (t.Delim == '[') || (k == json.Object) != (t.Delim == '{') {
			lg.fail("mismatch", "Tokenizer.Delim")
		}
		return
	}
	switch k.Class() {
	case json.Null:
		if !v.Null() || text != "null" {
			lg.fail("mismatch", "RawValue.Null")
		}
	case json.Bool:
		want := text == "true"
		if t.Bool() != want || v.True() != want || v.False() == want {
			lg.fail("mismatch", "Tokenizer.Bool")
		}
	case json.Num:
		if !v.Number() || v.String() {
			lg.fail("mismatch", "RawValue.Number")
		}
		if f, _ := strconv.ParseFloat(text, 64); math.Float64bits(f) != math.Float64bits(t.Float()) {
			lg.fail("mismatch", "Tokenizer.Float")
		}
		if u, err := strconv.ParseUint(text, 10, 64); k == json.Uint && err == nil && t.Uint() != u {
			lg.fail("mismatch", "Tokenizer.Uint")
		}
		if i, err := strconv.ParseInt(text, 10, 64); (k == json.Uint || k == json.Int) && err == nil && t.Int() != i {
			lg.fail("mismatch", "Tokenizer.Int")
		}
	case json.String:
		if !v.String() || v.Number() {
			lg.fail("mismatch", "RawValue.String")
		}
		s := t.String()
		lg.mem("Tokenizer.String", accEither, s, in)
		u := v.Unquote()
		lg.mem("RawValue.Unquote", accFresh, u, nil)
		buf := append(make([]byte, 0, 1+c.r.Intn(2*len(v)+2)), '^')
		a := v.AppendUnquote(buf)
		lg.mem("RawValue.AppendUnquote", accOwned, a, nil)
		if !bytes.Equal(s, u) || len(a) == 0 || a[0] != '^' || !bytes.Equal(a[1:], u) {
			lg.fail("mismatch", "RawValue.Unquote")
		}
	default:
		lg.fail("mismatch", "Tokenizer.Kind")
	}
	if string(v) != text {
		lg.fail("retained-changed", "Tokenizer.Value")
	}
}

// accTarget: a decoding target for a document of the given mode and shape.
func accTarget(r *H, mode string, obj int) reflect.Value {
	var opts []any
	switch {
	case mode == "any" && obj == 0:
		opts = []any{new(any), new([]any), new([]json.RawMessage)}
	case mode == "any":
		opts = []any{new(any), new(map[string]any), new(map[string]json.RawMessage)}
	case mode == "strings" && obj == 0:
		opts = []any{new([]string), new(any), new([]*string)}
	case mode == "strings":
		opts = []any{new(map[string]string), new(any)}
	case mode == "numbers" && obj == 0:
		opts = []any{new([]json.Number), new([]any), new([]float64)}
	case mode == "numbers":
		opts = []any{new(map[string]json.Number), new(any)}
	default:
		opts = []any{new([][]byte)}
	}
	return reflect.ValueOf(opts[r.Intn(len(opts))])
}

// accDecodeOnce: one more document, one more input buffer, one more target.
func accDecodeOnce(c *accCtx, api string, fl json.ParseFlags, tail bool) {
	lg := c.lg
	mode, obj := c.r.Pick([]string{"any", "any", "strings", "numbers", "b64"}), c.r.Intn(2)
	if mode == "b64" {
		obj = 0
	}
	doc := c.g.doc(mode, obj)
	if tail {
		doc = append(doc, c.r.Pick([]string{"", " ", `[1,"rest\n"] `, `"x" 2`})...)
	}
	in := lg.lend(doc, c.r.Intn(3)*8)
	tgt := accTarget(c.r, mode, obj)
	if c.r.Intn(2) == 0 {
		fl |= json.UseNumber
	}
	lg.next()
	var err error
	if api == "Parse" {
		var rest []byte
		rest, err = json.Parse(in, tgt.Interface(), fl)
		lg.mem("Parse", accSub, rest, in)
	} else {
		err = json.Unmarshal(in, tgt.Interface())
		fl = 0
	}
	if err != nil {
		lg.fail("error", api)
	}
	lg.val(api, tgt, fl, in)
	lg.checkLent(api)
}

// accEncode: four values (type-directed ones, and what documents of the grammar decode to) go through one encoding API; the
// values are lent memory, the outputs are retained.
func accEncode(c *accCtx, api string, f func(x any, i int) ([]byte, error, int)) {
	lg := c.lg
	for i := 0; i < 4; i++ {
		var v reflect.Value
		if i%2 == 0 {
			_, v, _ = jsonCase(c.r.U64(), false)
		} else {
			mode, obj := c.r.Pick([]string{"any", "any", "strings", "numbers", "b64"}), c.r.Intn(2)
			if mode == "b64" {
				obj = 0
			}
			tgt := accTarget(c.r, mode, obj)
			dec := stdjson.NewDecoder(bytes.NewReader(c.g.doc(mode, obj)))
			if c.r.Intn(2) == 0 {
				dec.UseNumber()
			}
			if dec.Decode(tgt.Interface()) != nil {
				continue
			}
			v = tgt.Elem()
		}
		var x any
		if v.IsValid() && v.CanInterface() {
			x = v.Interface()
		}
		snap := deepCopy(reflect.ValueOf(&x).Elem())
		comparable := eqVal(reflect.ValueOf(&x).Elem(), snap) // not so for a few values of the generator (copies of unexported state)
		lg.lendValue(reflect.ValueOf(&x).Elem())
		lg.next()
		out, err, class := f(x, i)
		if comparable && !eqVal(reflect.ValueOf(&x).Elem(), snap) && lg.bad == "" {
			lg.bad = "input-modified:" + api
		}
		lg.checkLent(api)
		if err != nil {
			continue
		}
		lg.mem(api, class, out, nil)
		if i == 1 {
			c.further(false)
		}
	}
}

// accStrings: the decoded strings of a document of strings.
func accStrings(c *accCtx, max int) []string {
	var out []string
	var x any
	if stdjson.Unmarshal(c.g.doc("strings", 0), &x) != nil {
		return nil
	}
	for _, e := range x.([]any) {
		if s, ok := e.(string); ok && len(out) < max {
			out = append(out, strings.Clone(s))
		}
	}
	return out
}

type accReader struct {
	src   []byte
	off   int
	chunk int
	lg    *accLog
}

func (r *accReader) Read(p []byte) (int, error) {
	if len(p) > 0 {
		r.lg.lendScratch(p)
	}
	if r.off >= len(r.src) {
		return 0, io.EOF
	}
	n := len(p)
	if r.chunk > 0 && n > r.chunk {
		n = r.chunk
	}
	n = copy(p[:n], r.src[r.off:])
	r.off += n
	return n, nil
}

type accWriter struct{ chunks [][]byte }

func (w *accWriter) Write(p []byte) (int, error) {
	w.chunks = append(w.chunks, append([]byte{}, p...))
	return len(p), nil
}

var accAPIs = []string{"tok.string", "tok.string", "tok.value", "tok.all", "tok.err", "raw.unquote", "parse:0", "parse:1", "parse:2", "parse:3", "parse:4",
	"parse:5", "parse:6", "parse:7", "unmarshal", "unmarshal.t", "decoder:0", "decoder:1", "marshal", "marshalindent", "append", "encoder:0",
	"encoder:1", "escape", "unescape", "compact", "valid"}

func init() {
	ops["json.retain"] = func(a []string) (string, string, string) {
		api, arg := a[0], 0
		if i := strings.IndexByte(api, ':'); i >= 0 {
			api, arg = a[0][:i], atoi(a[0][i+1:])
		}
		f, ok := accScenarios[api]
		if !ok {
			return reuseRetain(a) // reused destinations (c10reuse.go), "no-such-api" otherwise
		}
		seed, _ := strconv.ParseUint(a[1], 10, 64)
		size := atoi(a[2])
		r := &H{rng: seed, Stats: map[string]int64{}}
		c := &accCtx{r: r, g: &accGen{r: r, size: size}, lg: &accLog{}, size: size, arg: arg, seed: seed}
		f(c)
		return c.finish(), "ok", ""
	}
}

// runC10acc: every API family at every size class.
func runC10acc(h *H) {
	per := []int{16, 14, 8, 2}
	if h.Thorough() {
		per = []int{160, 140, 60, 16}
	}
	for _, api := range accAPIs {
		for size, n := range per {
			for i := 0; i < n; i++ {
				h.DoRisky("json.retain", api, strconv.FormatUint(h.U64(), 10), strconv.Itoa(size))
			}
		}
	}
}
