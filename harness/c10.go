package main

import (
	"bytes"
	stdjson "encoding/json"
	"fmt"
	"os"
	"reflect"
	"strconv"
	"strings"
	"sync"
	"unsafe"

	"github.com/segmentio/encoding/json"
)

// C10 — json memory ownership: inputs untouched, results stable, aliasing opt-in.

func copyFlags(m int) (fl json.ParseFlags) {
	if m&1 != 0 {
		fl |= json.DontCopyString
	}
	if m&2 != 0 {
		fl |= json.DontCopyNumber
	}
	if m&4 != 0 {
		fl |= json.DontCopyRawMessage
	}
	return
}

// inside reports whether the n bytes at p lie within buf's backing array (over its whole capacity).
func inside(p unsafe.Pointer, n int, buf []byte) bool {
	if n == 0 || cap(buf) == 0 {
		return false
	}
	lo := uintptr(unsafe.Pointer(unsafe.SliceData(buf[:cap(buf)])))
	hi := lo + uintptr(cap(buf))
	q := uintptr(p)
	return q >= lo && q < hi
}

type region struct {
	kind string // string | number | raw | bytes
	p    unsafe.Pointer
	n    int
}

// regions collects the memory of every string, Number, RawMessage and []byte reachable from v (map keys included).
func regions(v reflect.Value, out *[]region) {
	switch v.Kind() {
	case reflect.String:
		s := v.String()
		k := "string"
		if v.Type() == reflect.TypeOf(json.Number("")) {
			k = "number"
		}
		*out = append(*out, region{k, unsafe.Pointer(unsafe.StringData(s)), len(s)})
	case reflect.Slice:
		if v.Type().Elem().Kind() == reflect.Uint8 {
			k := "bytes"
			if v.Type() == reflect.TypeOf(json.RawMessage(nil)) {
				k = "raw"
			}
			if v.Len() > 0 {
				*out = append(*out, region{k, v.UnsafePointer(), v.Len()})
			}
			return
		}
		for i := 0; i < v.Len(); i++ {
			regions(v.Index(i), out)
		}
	case reflect.Array:
		for i := 0; i < v.Len(); i++ {
			regions(v.Index(i), out)
		}
	case reflect.Ptr, reflect.Interface:
		if !v.IsNil() {
			regions(v.Elem(), out)
		}
	case reflect.Map:
		it := v.MapRange()
		for it.Next() {
			regions(it.Key(), out)
			regions(it.Value(), out)
		}
	case reflect.Struct:
		for i := 0; i < v.NumField(); i++ {
			if v.Type().Field(i).IsExported() {
				regions(v.Field(i), out)
			}
		}
	}
}

// churn makes the library reuse its pooled buffers and scratch memory, also from other goroutines.
func churn(seed uint64) {
	big := map[string]any{"k": strings.Repeat("x", 5000), "a": []any{1.5, "y<", nil, map[string]any{"z": seed}}}
	var wg sync.WaitGroup
	for g := 0; g < 3; g++ {
		wg.Add(1)
		go func(g int) {
			defer wg.Done()
			for i := 0; i < 6; i++ {
				b, _ := json.Marshal(big)
				var x any
				json.Unmarshal(b, &x)
				var sb bytes.Buffer
				json.NewEncoder(&sb).Encode([]int{g, i, int(seed)})
				t := json.NewTokenizer(b)
				for t.Next() {
				}
				json.Marshal(map[string]string{"a": "b", "c": strings.Repeat("q", 100*i)})
			}
		}(g)
	}
	b, _ := json.Marshal([]string{"churn", strings.Repeat("m", 300)})
	var y []json.RawMessage
	json.Unmarshal(b, &y)
	wg.Wait()
}

type provDoc struct {
	target func() any
	doc    func(lit []byte) []byte
	leaf   func(v any) (unsafe.Pointer, int)
}

func strRegion(s string) (unsafe.Pointer, int) { return unsafe.Pointer(unsafe.StringData(s)), len(s) }
func bytRegion(b []byte) (unsafe.Pointer, int) { return unsafe.Pointer(unsafe.SliceData(b)), len(b) }

func wrap(pre, post string) func([]byte) []byte {
	return func(l []byte) []byte { return append(append([]byte(pre), l...), post...) }
}

var provShapes = map[string]provDoc{
	"str": {func() any { return new(string) }, wrap(" ", " "), func(v any) (unsafe.Pointer, int) { return strRegion(*v.(*string)) }},
	"field": {func() any { return new(struct{ S string }) }, wrap(`{"S":`, `}`),
		func(v any) (unsafe.Pointer, int) { return strRegion(v.(*struct{ S string }).S) }},
	"mapval": {func() any { return new(map[string]string) }, wrap(`{"k":`, `}`),
		func(v any) (unsafe.Pointer, int) { return strRegion((*v.(*map[string]string))["k"]) }},
	"mapkey": {func() any { return new(map[string]int) }, wrap(`{`, `:1}`), func(v any) (unsafe.Pointer, int) {
		for k := range *v.(*map[string]int) {
			return strRegion(k)
		}
		return nil, 0
	}},
	"elem": {func() any { return new([]string) }, wrap(`[`, `]`), func(v any) (unsafe.Pointer, int) { return strRegion((*v.(*[]string))[0]) }},
	"any":  {func() any { return new(any) }, wrap(``, ``), func(v any) (unsafe.Pointer, int) { return strRegion((*v.(*any)).(string)) }},
	"anymapkey": {func() any { return new(any) }, wrap(`{`, `:null}`), func(v any) (unsafe.Pointer, int) {
		for k := range (*v.(*any)).(map[string]any) {
			return strRegion(k)
		}
		return nil, 0
	}},
	"ptr": {func() any { return new(*string) }, wrap(``, ``), func(v any) (unsafe.Pointer, int) { return strRegion(**v.(**string)) }},
	"num": {func() any { return new(json.Number) }, wrap(` `, ``), func(v any) (unsafe.Pointer, int) { return strRegion(string(*v.(*json.Number))) }},
	"numfield": {func() any { return new(struct{ N json.Number }) }, wrap(`{"N":`, `}`),
		func(v any) (unsafe.Pointer, int) { return strRegion(string(v.(*struct{ N json.Number }).N)) }},
	"raw": {func() any { return new(json.RawMessage) }, wrap(` `, ` `), func(v any) (unsafe.Pointer, int) { return bytRegion(*v.(*json.RawMessage)) }},
	"rawelem": {func() any { return new([]json.RawMessage) }, wrap(`[1,`, `]`),
		func(v any) (unsafe.Pointer, int) { return bytRegion((*v.(*[]json.RawMessage))[1]) }},
	"bytes": {func() any { return new([]byte) }, wrap(``, ``), func(v any) (unsafe.Pointer, int) { return bytRegion(*v.(*[]byte)) }},
}

func init() {
	registry["C10"] = runC10
	// json.prov <copyflags 0..7> <shape> <hex literal>: where the decoded leaf lives: "in" (the input buffer) or "out"
	ops["json.prov"] = func(a []string) (string, string, string) {
		m, _ := strconv.Atoi(a[0])
		sh := provShapes[a[1]]
		doc := unhx(a[3]) // a[2] is the literal alone, for the Lean model
		in := append(make([]byte, 0, len(doc)+16), doc...)
		tgt := sh.target()
		if _, err := json.Parse(in, tgt, copyFlags(m)); err != nil {
			return "err", "-", ""
		}
		p, n := sh.leaf(tgt)
		if n == 0 {
			return "empty", "-", ""
		}
		want := append([]byte{}, unsafe.Slice((*byte)(p), n)...)
		r := "out"
		if inside(p, n, in) {
			r = "in"
		}
		if !bytes.Equal(in, doc) {
			return r + ";input-modified", "-", ""
		}
		// it shares memory with nothing else: further library calls leave it alone
		churn(uint64(m))
		if !bytes.Equal(unsafe.Slice((*byte)(p), n), want) {
			return r + ";changed-by-later-calls", "-", ""
		}
		// and when it is "out" it survives the input being overwritten
		for i := range in {
			in[i] = 'X'
		}
		if r == "out" && !bytes.Equal(unsafe.Slice((*byte)(p), n), want) {
			return r + ";changed-with-input", "-", ""
		}
		return r, "-", ""
	}
	// json.own <subseed> <mode>: history test over the type-directed generator
	ops["json.own"] = func(a []string) (string, string, string) {
		sub, _ := strconv.ParseUint(a[0], 10, 64)
		t, v, feats := jsonCase(sub, true)
		if os.Getenv("VH_TRACE") != "" {
			fmt.Fprintf(os.Stderr, "TYPE %s\nVALUE %#v\nFEATS %v\n", t, v.Interface(), feats)
		}
		doc, err := stdjson.Marshal(v.Interface())
		if err != nil {
			doc = []byte(`{"a":["x\ny","plain",1.5,{"b":"é"}],"k":"v"}`)
		}
		return ownCheck(a[1], t, v, doc), "ok", ""
	}
}

func ownCheck(mode string, t reflect.Type, v reflect.Value, doc []byte) string {
	in := append(make([]byte, 0, len(doc)+8), doc...)
	switch {
	case mode == "marshalbig":
		// outputs of every size class up to a few hundred KiB (any size-dependent shortcut around the copy-out of the pooled
		// buffer would hand out pooled memory): each result must survive later calls that reuse the pool
		for _, n := range []int{1, 4000, 4096, 4097, 32768, 65535, 65536, 65537, 100000, 262144, 300000} {
			val := map[string]any{"k": strings.Repeat("a", n), "n": n}
			out, err := json.Marshal(val)
			if err != nil {
				return "marshal-error"
			}
			snap := append([]byte{}, out...)
			json.Marshal(map[string]any{"k": strings.Repeat("b", n+100), "n": -1})
			var sb bytes.Buffer
			json.NewEncoder(&sb).Encode([]int{1, 2, 3})
			churn(uint64(n))
			if !bytes.Equal(out, snap) {
				return fmt.Sprintf("result-of-%d-bytes-changed-by-later-calls", len(snap))
			}
		}
		return "ok"
	case mode == "marshal" || mode == "append" || mode == "encoder":
		var out []byte
		var err error
		switch mode {
		case "marshal":
			out, err = json.Marshal(v.Interface())
		case "append":
			out, err = json.Append(make([]byte, 0, 16), v.Interface(), json.EscapeHTML|json.SortMapKeys)
		case "encoder":
			var sb bytes.Buffer
			err = json.NewEncoder(&sb).Encode(v.Interface())
			out = sb.Bytes()
		}
		if err != nil {
			return "ok"
		}
		if mode == "encoder" {
			// what the Encoder hands to its writer stays intact for the whole Write call, whatever the writer does meanwhile
			// (a framing writer that itself encodes a header with this package)
			rw := &reentrantWriter{}
			json.NewEncoder(rw).Encode(v.Interface())
			if rw.changed {
				return "bytes-handed-to-the-writer-changed-during-Write"
			}
			if !bytes.Equal(rw.got, out) {
				return "encoder-output-differs-under-a-reentrant-writer"
			}
		}
		snap := append([]byte{}, out...)
		churn(uint64(len(out)))
		json.Marshal(v.Interface()) // the same codec again, into the pooled buffer
		if !bytes.Equal(out, snap) {
			return "result-changed-by-later-calls"
		}
		// the value that was encoded must not have been written to either
		return "ok"
	case mode == "longkeys":
		// object keys of 1..200 bytes with upper-case letters that match no field exactly: the case-insensitive lookup
		// lower-cases them — in a scratch buffer, never in the caller's input
		type tgt struct {
			A   int
			Key string
		}
		for n := 1; n <= 200; n += 1 + n/40 {
			d := []byte(`{"` + strings.Repeat("K", n) + `":1,"KEY":"v","` + strings.Repeat("aB", n/2+1) + `":{"X":[1]}}`)
			in2 := append([]byte{}, d...)
			var t1 tgt
			json.Unmarshal(in2, &t1)
			if !bytes.Equal(in2, d) {
				return fmt.Sprintf("input-modified key-length-%d", n)
			}
			in3 := append([]byte{}, d...)
			dec := json.NewDecoder(bytes.NewReader(in3))
			dec.Decode(&t1)
			if !bytes.Equal(in3, d) {
				return fmt.Sprintf("decoder-input-modified key-length-%d", n)
			}
			if t1.Key != "v" {
				return "case-insensitive-match-lost"
			}
		}
		return "ok"
	case mode == "tokenizer":
		tk := json.NewTokenizer(in)
		for tk.Next() {
			if tk.Kind().Class() == json.String {
				_ = tk.String()
			}
		}
		if !bytes.Equal(in, doc) {
			return "input-modified"
		}
		return "ok"
	}
	// decoding modes: "unmarshal", "decoder", "parse:<m>", "decoderzc"
	tgt := reflect.New(t)
	var fl json.ParseFlags
	var derr error
	var dec *json.Decoder
	switch {
	case mode == "unmarshal":
		derr = json.Unmarshal(in, tgt.Interface())
	case strings.HasPrefix(mode, "parse:"):
		m, _ := strconv.Atoi(mode[6:])
		fl = copyFlags(m)
		_, derr = json.Parse(in, tgt.Interface(), fl)
	case mode == "decoder":
		// several values on one stream: the first result must survive the decoding of the rest (buffer refills, compaction)
		stream := append(append(append([]byte{}, in...), '\n'), bytes.Repeat(append(append([]byte{}, doc...), ' '), 1+40000/(len(doc)+1))...)
		dec = json.NewDecoder(bytes.NewReader(stream))
		derr = dec.Decode(tgt.Interface())
	}
	if derr != nil {
		if !bytes.Equal(in, doc) {
			return "input-modified-on-error"
		}
		return "ok"
	}
	if !bytes.Equal(in, doc) {
		return "input-modified"
	}
	snap := deepCopy(tgt.Elem())
	var regs []region
	regions(tgt.Elem(), &regs)
	// aliasing is opt-in, per kind
	for _, r := range regs {
		if !inside(r.p, r.n, in) {
			continue
		}
		switch {
		case r.kind == "string" && fl&json.DontCopyString == 0, r.kind == "number" && fl&json.DontCopyNumber == 0,
			r.kind == "raw" && fl&json.DontCopyRawMessage == 0, r.kind == "bytes":
			return "aliases-input-without-flag:" + r.kind
		}
	}
	// later calls (pool reuse, other goroutines, the Decoder moving on) change nothing
	churn(uint64(len(doc)))
	if dec != nil {
		for i := 0; i < 50; i++ {
			x := reflect.New(t)
			if dec.Decode(x.Interface()) != nil {
				break
			}
		}
	}
	if !eqVal(tgt.Elem(), snap) {
		return "result-changed-by-later-calls"
	}
	if fl == 0 {
		// without zero-copy flags the result survives the input buffer being overwritten
		for i := range in {
			in[i] = 0xFF
		}
		if !eqVal(tgt.Elem(), snap) {
			return "result-changed-with-input"
		}
	}
	return "ok"
}

var ownModes = []string{"unmarshal", "decoder", "parse:0", "parse:1", "parse:2", "parse:4", "parse:7", "parse:3", "marshal", "append", "encoder", "tokenizer"}

func runC10(h *H) {
	lits := []string{`"a"`, `"plain ascii"`, `""`, `"with \n escape"`, `"é"`, `"é"`, `"tab\there"`, `"q\"q"`, `"` + strings.Repeat("z", 40) + `"`,
		`"` + strings.Repeat("z", 40) + `\\"`, `"\/"`, "\"\xff\"", `"x y"`, `"~"`, "\"\x7f\""}
	strShapes := []string{"str", "field", "mapval", "mapkey", "elem", "any", "anymapkey", "ptr"}
	for _, l := range lits {
		for _, sh := range strShapes {
			for _, m := range []int{0, 1, 6, 7} {
				h.DoRisky("json.prov", strconv.Itoa(m), sh, hx([]byte(l)), hx(provShapes[sh].doc([]byte(l))))
			}
		}
	}
	for _, l := range []string{"0", "12", "-1.5e3", "123456789012345678901234567890", "1E2"} {
		for _, sh := range []string{"num", "numfield"} {
			for m := 0; m < 8; m++ {
				h.DoRisky("json.prov", strconv.Itoa(m), sh, hx([]byte(l)), hx(provShapes[sh].doc([]byte(l))))
			}
		}
	}
	for _, l := range []string{`{"a":[1,2]}`, `"s"`, `[ 1 , "x" ]`, `12`, `null`, `true`} {
		for _, sh := range []string{"raw", "rawelem"} {
			for m := 0; m < 8; m++ {
				h.DoRisky("json.prov", strconv.Itoa(m), sh, hx([]byte(l)), hx(provShapes[sh].doc([]byte(l))))
			}
		}
	}
	for _, l := range []string{`"AQID"`, `"AQIDBA=="`, `"AQID"`} {
		for m := 0; m < 8; m++ {
			h.DoRisky("json.prov", strconv.Itoa(m), "bytes", hx([]byte(l)), hx([]byte(l)))
		}
	}
	R := 100
	if h.Thorough() {
		R = 2500
	}
	for i := 0; i < R; i++ {
		l := h.genJSONString()
		sh := strShapes[h.Intn(len(strShapes))]
		h.DoRisky("json.prov", strconv.Itoa(h.Intn(8)), sh, hx(l), hx(provShapes[sh].doc(l)))
	}
	N := 600
	if h.Thorough() {
		N = 15000
	}
	for i := 0; i < N; i++ {
		h.DoRisky("json.own", strconv.FormatUint(h.U64(), 10), ownModes[h.Intn(len(ownModes))])
	}
	for i := 0; i < 3; i++ {
		h.DoRisky("json.own", strconv.Itoa(i), "marshalbig")
	}
	h.DoRisky("json.own", "0", "longkeys")
	runC10acc(h) // retained results of every API that hands out memory: c10acc.go
}

// reentrantWriter calls back into the package while it is being written to, then checks that what it was given is unchanged.
type reentrantWriter struct {
	got     []byte
	changed bool
}

func (w *reentrantWriter) Write(p []byte) (int, error) {
	snap := append([]byte{}, p...)
	for i := 0; i < 3; i++ {
		json.Marshal(map[string]any{"frame": strings.Repeat("#", len(p)+i), "n": len(p)})
		var sb bytes.Buffer
		json.NewEncoder(&sb).Encode([]string{strings.Repeat("%", len(p))})
	}
	if !bytes.Equal(p, snap) {
		w.changed = true
	}
	w.got = append(w.got, snap...)
	return len(p), nil
}
