package main

// C01 (float layer) / C15: json.encfloat — encodeFloat of /repo/json/encode.go against the Lean model
// (Enc/Model/Json/EncFloat.lean), the stdlib rule (Enc/Spec/Json/StdEncFloat.lean) and encoding/json.Marshal.
//
//	json.encfloat <float bits hex> <32|64> <prefix hex> <cmp> <hex strconv 'f' digits> <hex strconv 'e' digits>
//
// cmp = seven 0/1 characters: isNaN isInf abs!=0 abs<1e-6 abs>=1e21 float32(abs)<1e-6 float32(abs)>=1e21, computed HERE
// (not by /repo) together with strconv.AppendFloat(nil, f, 'f'|'e', -1, bits): float arithmetic and strconv are shared
// external parameters of model and specification; the Lean side needs no floats. The op recomputes them and refuses
// ("bad-args") a case whose extra arguments are not the ones of the float.
// I = "ok:"+hex(json.Append(prefix, f, 0)) | "err" (UnsupportedValueError; the returned slice must still be the prefix);
// O = "ok:"+hex(prefix ++ encoding/json.Marshal(f)) | "err".
// The destination is passed with no spare capacity, with spare capacity and as a sub-slice of a larger array whose
// following bytes must stay untouched when the result fits elsewhere … all three must give the same bytes (C15).

import (
	"bytes"
	stdjson "encoding/json"
	"errors"
	"fmt"
	"math"
	"strconv"

	"github.com/segmentio/encoding/json"
)

// encFloatArgs: the full argument list of json.encfloat for a float given by its bits (float32 bits when width == 32)
func encFloatArgs(bits uint64, width int, prefix []byte) []string {
	var f float64
	var hexbits string
	if width == 32 {
		f = float64(math.Float32frombits(uint32(bits)))
		hexbits = fmt.Sprintf("%08x", uint32(bits))
	} else {
		f = math.Float64frombits(bits)
		hexbits = fmt.Sprintf("%016x", bits)
	}
	abs := math.Abs(f)
	cmp := b01(math.IsNaN(f)) + b01(math.IsInf(f, 0)) + b01(abs != 0) + b01(abs < 1e-6) + b01(abs >= 1e21) +
		b01(float32(abs) < 1e-6) + b01(float32(abs) >= 1e21)
	df := strconv.AppendFloat(nil, f, 'f', -1, width)
	de := strconv.AppendFloat(nil, f, 'e', -1, width)
	return []string{hexbits, strconv.Itoa(width), hx(prefix), cmp, hx(df), hx(de)}
}

func init() {
	ops["json.encfloat"] = func(a []string) (string, string, string) {
		bits, err := strconv.ParseUint(a[0], 16, 64)
		width, _ := strconv.Atoi(a[1])
		if err != nil || (width != 32 && width != 64) {
			return "bad-args", "-", ""
		}
		prefix := unhx(a[2])
		want := encFloatArgs(bits, width, prefix)
		if len(a) != len(want) {
			return "bad-args", "-", ""
		}
		for i := range want {
			if a[i] != want[i] {
				return "bad-args", "-", ""
			}
		}
		var x any
		if width == 32 {
			x = math.Float32frombits(uint32(bits))
		} else {
			x = math.Float64frombits(bits)
		}
		render := func(b []byte, e error) string {
			if e != nil {
				var u *json.UnsupportedValueError
				if !errors.As(e, &u) {
					return "err:other"
				}
				if !bytes.Equal(b, prefix) {
					return "err;prefix-lost:" + hx(b)
				}
				return "err"
			}
			return "ok:" + hx(b)
		}
		// (1) exact capacity
		d1 := append(make([]byte, 0, len(prefix)), prefix...)
		r1, e1 := json.Append(d1, x, 0)
		i := render(r1, e1)
		// (2) spare capacity (the append happens in place)
		d2 := append(make([]byte, 0, len(prefix)+64), prefix...)
		r2, e2 := json.Append(d2, x, 0)
		if j := render(r2, e2); j != i {
			i += ";cap-differs:" + j
		}
		if !bytes.Equal(d2, prefix) || !bytes.Equal(d1, prefix) {
			i += ";caller-bytes-rewritten"
		}
		// (3) zero-length destination inside a larger array: the bytes BEFORE the slice belong to somebody else
		if len(prefix) > 0 {
			arr := append(make([]byte, 0, len(prefix)+64), prefix...)
			r3, e3 := json.Append(arr[len(prefix):len(prefix)], x, 0)
			r0, e0 := json.Append(nil, x, 0)
			if render3, render0 := fmt.Sprint(hx(r3), e3 != nil), fmt.Sprint(hx(r0), e0 != nil); render3 != render0 {
				i += ";subslice-differs"
			}
			if !bytes.Equal(arr, prefix) {
				i += ";neighbour-bytes-rewritten"
			}
		}
		o := "err"
		if ob, oe := stdjson.Marshal(x); oe == nil {
			o = "ok:" + hx(append(append([]byte{}, prefix...), ob...))
		} else {
			var u *stdjson.UnsupportedValueError
			if !errors.As(oe, &u) {
				o = "err:other"
			}
		}
		return i, o, ""
	}
}

// genEncFloat: thresholds ±ulps for both widths, every exponent form, subnormals, zeros, integers, random bits ×
// destination prefixes ending in every tail of the clean-up pattern.
func genEncFloat(h *H) {
	tails := []string{"", "e", "e-", "e-0", "-0", "0", "e+0", "e+", "1e-0", "1e-", "1e", "zone-0", "e-00", "ee-0", "e-0e-0",
		"7", "12", "-", "1.5", "\"k\":", "[1,", "e-09", "E-0", "e-1", "x-0", "e0", "e--0"}
	prefix := func() []byte {
		switch h.Intn(8) {
		case 0:
			return nil
		case 1:
			return h.Bytes(1 + h.Intn(6))
		case 2:
			return append(h.Bytes(h.Intn(4)), []byte(tails[h.Intn(len(tails))])...)
		default:
			return []byte(tails[h.Intn(len(tails))])
		}
	}
	do := func(bits uint64, width int, p []byte) {
		h.Do("json.encfloat", encFloatArgs(bits, width, p)...)
	}
	var f64s []uint64
	var f32s []uint32
	add64 := func(f float64) {
		b := math.Float64bits(f)
		for d := -2; d <= 2; d++ {
			f64s = append(f64s, b+uint64(int64(d)), (b+uint64(int64(d)))^(1<<63))
		}
	}
	add32 := func(f float32) {
		b := math.Float32bits(f)
		for d := -2; d <= 2; d++ {
			f32s = append(f32s, b+uint32(int32(d)), (b+uint32(int32(d)))^(1<<31))
		}
	}
	for _, f := range []float64{1e-6, 1e21, 1e-7, 1e20, 1e22, 1e-5, 9.999999e-7, 999999999999999900000, float64(float32(1e-6)), float64(float32(1e21))} {
		add64(f)
		add32(float32(f))
	}
	// every exponent from e-12 … e-5 and e+19 … e+23, e-100/e+100 neighbourhood, extremes
	for _, e := range []int{-324, -323, -308, -307, -101, -100, -99, -46, -45, -44, -38, -37, -12, -11, -10, -9, -8, -7, -6, -5, -1, 0, 1, 9, 10, 19, 20, 21, 22, 23, 38, 39, 99, 100, 101, 308} {
		for _, m := range []float64{1, 1.5, 9.999, 1.2345678901234567} {
			f := m * math.Pow(10, float64(e))
			f64s = append(f64s, math.Float64bits(f), math.Float64bits(-f))
			f32s = append(f32s, math.Float32bits(float32(f)), math.Float32bits(float32(-f)))
		}
	}
	for _, f := range []float64{0, math.Copysign(0, -1), 1, -1, 5, 123456789, 1 << 53, 1<<53 + 2, 1 << 63, 1 << 64, 16777216, 16777217, 0.1, 0.5, 1.0 / 3,
		math.MaxFloat64, math.SmallestNonzeroFloat64, math.MaxFloat32, math.SmallestNonzeroFloat32, 2.2250738585072014e-308, 2.225073858507201e-308,
		1.1754943508222875e-38, math.Inf(1), math.Inf(-1), math.NaN()} {
		f64s = append(f64s, math.Float64bits(f))
		f32s = append(f32s, math.Float32bits(float32(f)))
	}
	f64s = append(f64s, 0x7ff8000000000001, 0xfff0000000000001, 1, 2, 0x000fffffffffffff, 0x0010000000000000)
	f32s = append(f32s, 0x7fc00001, 0xff800001, 1, 2, 0x007fffff, 0x00800000)
	for _, b := range f64s {
		do(b, 64, prefix())
	}
	for _, b := range f32s {
		do(uint64(b), 32, prefix())
	}
	// the directed regression: every tail × small positional / exponent values
	for _, t := range tails {
		for _, f := range []float64{5, 0, 7e-9, 1e-7, 1e-10, 1e21, -3} {
			do(math.Float64bits(f), 64, []byte(t))
		}
		do(uint64(math.Float32bits(5)), 32, []byte(t))
		do(uint64(math.Float32bits(5e-9)), 32, []byte(t))
	}
	N := 900
	if h.Thorough() {
		N = 30000
	}
	for i := 0; i < N; i++ {
		switch h.Intn(4) {
		case 0:
			do(h.U64(), 64, prefix())
		case 1:
			do(h.U64()&0xffffffff, 32, prefix())
		case 2: // random mantissa, exponent near a threshold
			e := []int{-7, -6, -5, 20, 21, 22, -10, -9, 9, 10}[h.Intn(10)]
			f := (1 + float64(h.Intn(9000))/1000) * math.Pow(10, float64(e))
			if h.Bool() {
				f = -f
			}
			if h.Bool() {
				do(math.Float64bits(f), 64, prefix())
			} else {
				do(uint64(math.Float32bits(float32(f))), 32, prefix())
			}
		default: // integers and short decimals
			f := float64(int64(h.U64()>>uint(h.Intn(64)))) / []float64{1, 1, 10, 1000, 1e6}[h.Intn(5)]
			do(math.Float64bits(f), 64, prefix())
		}
	}
}
