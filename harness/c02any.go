package main

import (
	"bytes"
	stdjson "encoding/json"
	"fmt"
	"io"
	"math"
	"math/big"
	"reflect"
	"sort"
	"strconv"
	"strings"

	"github.com/segmentio/encoding/json"
)

// C02, `var x any` layer: json.decany <flags 0..15: UseNumber=1 UseBigInt=2 UseInt64=4 UseUint64=8> <hex document>
//
// I = canonical rendering of what the package stores into an empty interface for the WHOLE document (Parse + Unmarshal's
// epilogue; Unmarshal too when flags = 0; a Decoder too when flags ∈ {0,1}; all of them must agree), O = the same rendering
// of what encoding/json stores (flags 0: Unmarshal, flags 1: Decoder with UseNumber, otherwise "-").
//
// Rendering: nil | true | false | s(hex) | f64(lit) | num(lit) | big(dec) | i64(dec) | u64(dec) | [t,…] | {hexkey:t,…}
// (keys sorted bytewise, no white space); errors: err:type (*UnmarshalTypeError) | err:syntax (everything else).
// The literal of a float64 / Number leaf is re-derived from the document by an independent scanner (anyScan below).
//
// Optional third argument: what x HOLDS BEFORE the decode (anyPriorNames; absent = nil). A `*any` held by an interface
// renders as `&` + the pointee (`&!` if it is not the pointer the prior put there, `&self` if it points at x itself).

func init() {
	// json.decany: the PROPERTY-level observable. C02 does not promise error types ("error messages and concrete error
	// types … are not part of the guarantee"), so every error is `err` here.
	ops["json.decany"] = func(a []string) (string, string, string) {
		i, o, k := opDecAny(a)
		return collapseErr(i), collapseErr(o), k
	}
	// json.decanycls: the same call with the error CLASS (syntax / type), compared with the Lean model only
	// (correspondence; no oracle, no specification: it cannot raise a property violation).
	ops["json.decanycls"] = func(a []string) (string, string, string) {
		i, _, _ := opDecAny(a)
		return i, "-", ""
	}
}

func collapseErr(s string) string {
	if strings.HasPrefix(s, "err:") {
		return "err"
	}
	return s
}

// ---- independent document scanner --------------------------------------------------------------

// anyNode is the document as written: kind 'o' object, 'a' array, 'n' number, 's' string, 't' true, 'f' false, 'z' null.
type anyNode struct {
	kind byte
	lit  string     // number literal / string literal with its quotes
	keys []string   // object: key literals with their quotes, document order
	kids []*anyNode // object: member values (parallel to keys); array: elements
	last map[string]int
}

type anyScan struct {
	d []byte
	i int
}

func (s *anyScan) ws() {
	for s.i < len(s.d) {
		switch s.d[s.i] {
		case ' ', '\t', '\n', '\r':
			s.i++
		default:
			return
		}
	}
}

// str: the string literal starting at s.i (which holds the opening quote), "" if unterminated.
func (s *anyScan) str() (string, bool) {
	st := s.i
	s.i++
	for s.i < len(s.d) {
		switch s.d[s.i] {
		case '\\':
			s.i += 2
		case '"':
			s.i++
			return string(s.d[st:s.i]), true
		default:
			s.i++
		}
	}
	return "", false
}

func (s *anyScan) value() *anyNode {
	s.ws()
	if s.i >= len(s.d) {
		return nil
	}
	switch c := s.d[s.i]; {
	case c == '[':
		s.i++
		n := &anyNode{kind: 'a'}
		s.ws()
		if s.i < len(s.d) && s.d[s.i] == ']' {
			s.i++
			return n
		}
		for {
			k := s.value()
			if k == nil {
				return nil
			}
			n.kids = append(n.kids, k)
			s.ws()
			if s.i >= len(s.d) {
				return nil
			}
			if s.d[s.i] == ',' {
				s.i++
				continue
			}
			if s.d[s.i] == ']' {
				s.i++
				return n
			}
			return nil
		}
	case c == '{':
		s.i++
		n := &anyNode{kind: 'o'}
		s.ws()
		if s.i < len(s.d) && s.d[s.i] == '}' {
			s.i++
			return n
		}
		for {
			s.ws()
			if s.i >= len(s.d) || s.d[s.i] != '"' {
				return nil
			}
			key, ok := s.str()
			if !ok {
				return nil
			}
			s.ws()
			if s.i >= len(s.d) || s.d[s.i] != ':' {
				return nil
			}
			s.i++
			k := s.value()
			if k == nil {
				return nil
			}
			n.keys = append(n.keys, key)
			n.kids = append(n.kids, k)
			s.ws()
			if s.i >= len(s.d) {
				return nil
			}
			if s.d[s.i] == ',' {
				s.i++
				continue
			}
			if s.d[s.i] == '}' {
				s.i++
				return n
			}
			return nil
		}
	case c == '"':
		l, ok := s.str()
		if !ok {
			return nil
		}
		return &anyNode{kind: 's', lit: l}
	case c == '-' || (c >= '0' && c <= '9'):
		st := s.i
		for s.i < len(s.d) && strings.IndexByte("+-.eE0123456789", s.d[s.i]) >= 0 {
			s.i++
		}
		return &anyNode{kind: 'n', lit: string(s.d[st:s.i])}
	case bytes.HasPrefix(s.d[s.i:], []byte("true")):
		s.i += 4
		return &anyNode{kind: 't'}
	case bytes.HasPrefix(s.d[s.i:], []byte("false")):
		s.i += 5
		return &anyNode{kind: 'f'}
	case bytes.HasPrefix(s.d[s.i:], []byte("null")):
		s.i += 4
		return &anyNode{kind: 'z'}
	}
	return nil
}

// scanAnyDoc: the tree of a document that holds exactly one value (nil when the scanner cannot read it that way).
func scanAnyDoc(d []byte) *anyNode {
	s := &anyScan{d: d}
	n := s.value()
	if n == nil {
		return nil
	}
	s.ws()
	if s.i != len(s.d) {
		return nil
	}
	return n
}

// lastIndex: unquoted key → index of the LAST member with that key (keys that encoding/json cannot unquote are left out).
func (n *anyNode) lastIndex() map[string]int {
	if n.last == nil {
		n.last = make(map[string]int, len(n.keys))
		for i, kl := range n.keys {
			var s string
			if stdjson.Unmarshal([]byte(kl), &s) == nil {
				n.last[s] = i
			}
		}
	}
	return n.last
}

// hasDupKeys: some object of the tree has two members whose keys unquote to the same string.
func (n *anyNode) hasDupKeys() bool {
	if n == nil {
		return false
	}
	if n.kind == 'o' && len(n.lastIndex()) < len(n.keys) {
		return true
	}
	for _, k := range n.kids {
		if k.hasDupKeys() {
			return true
		}
	}
	return false
}

// ---- rendering ---------------------------------------------------------------------------------

func renderAny(sb *strings.Builder, v any, n *anyNode) {
	if n == nil {
		sb.WriteString("shape!")
		return
	}
	num := func() bool {
		if n.kind != 'n' {
			sb.WriteString("shape!")
			return false
		}
		return true
	}
	switch x := v.(type) {
	case nil:
		if n.kind != 'z' {
			sb.WriteString("shape!")
			return
		}
		sb.WriteString("nil")
	case bool:
		if (x && n.kind != 't') || (!x && n.kind != 'f') {
			sb.WriteString("shape!")
			return
		}
		sb.WriteString(strconv.FormatBool(x))
	case string:
		if n.kind != 's' {
			sb.WriteString("shape!")
			return
		}
		sb.WriteString("s(" + hx([]byte(x)) + ")")
	case float64:
		if !num() {
			return
		}
		if f2, e := strconv.ParseFloat(n.lit, 64); e == nil && math.Float64bits(f2) == math.Float64bits(x) {
			sb.WriteString("f64(" + n.lit + ")")
		} else {
			sb.WriteString("f64!(" + strconv.FormatFloat(x, 'g', -1, 64) + ")")
		}
	case json.Number: // = encoding/json.Number (alias)
		if !num() {
			return
		}
		if string(x) == n.lit {
			sb.WriteString("num(" + n.lit + ")")
		} else {
			sb.WriteString("num!(" + strings.Map(anyPrintable, string(x)) + ")")
		}
	case *big.Int:
		if !num() {
			return
		}
		sb.WriteString("big(" + x.String() + ")")
	case int64:
		if !num() {
			return
		}
		sb.WriteString("i64(" + strconv.FormatInt(x, 10) + ")")
	case uint64:
		if !num() {
			return
		}
		sb.WriteString("u64(" + strconv.FormatUint(x, 10) + ")")
	case []any:
		if n.kind != 'a' || len(n.kids) != len(x) {
			sb.WriteString("shape!")
			return
		}
		sb.WriteByte('[')
		for i, e := range x {
			if i > 0 {
				sb.WriteByte(',')
			}
			renderAny(sb, e, n.kids[i])
		}
		sb.WriteByte(']')
	case map[string]any:
		if n.kind != 'o' {
			sb.WriteString("shape!")
			return
		}
		ks := make([]string, 0, len(x))
		for k := range x {
			ks = append(ks, k)
		}
		sort.Strings(ks)
		last := n.lastIndex()
		if len(last) != len(ks) { // a member of the document is missing from the map (surplus map keys show up below)
			sb.WriteString("shape!")
			return
		}
		sb.WriteByte('{')
		for i, k := range ks {
			if i > 0 {
				sb.WriteByte(',')
			}
			sb.WriteString(hx([]byte(k)))
			sb.WriteByte(':')
			if j, ok := last[k]; ok {
				renderAny(sb, x[k], n.kids[j])
			} else {
				sb.WriteString("shape!")
			}
		}
		sb.WriteByte('}')
	default:
		sb.WriteString(strings.Map(anyPrintable, fmt.Sprintf("other:%T", v)))
	}
}

func anyPrintable(r rune) rune {
	if r <= ' ' || r == 0x7f {
		return '_'
	}
	return r
}

// anyPrior: what the target `var x any` holds before the decode, with the pointers that must still be there afterwards.
type anyPrior struct {
	x     *any   // the target variable
	chain []*any // *x is expected to hold chain[0], *chain[0] to hold chain[1], …
}

var anyPriorNames = []string{"str", "num", "bool", "map", "slice", "nilptr", "self", "p", "pstr", "pmap", "pp", "ppmap"}

// mkAnyPrior builds a FRESH target for the named prior ("" = nil, the plain case).
func mkAnyPrior(name string) *anyPrior {
	x := new(any)
	pr := &anyPrior{x: x}
	switch name {
	case "":
	case "str":
		*x = "old"
	case "num":
		*x = float64(7)
	case "bool":
		*x = true
	case "map":
		*x = map[string]any{"old": 1.0, "a": "z"}
	case "slice":
		*x = []any{1.0, "old", nil, 4.0}
	case "nilptr":
		*x = (*int)(nil)
	case "self":
		*x = x
	case "p", "pstr", "pmap":
		y := new(any)
		switch name {
		case "pstr":
			*y = "old"
		case "pmap":
			*y = map[string]any{"old": 1.0}
		}
		*x = y
		pr.chain = []*any{y}
	case "pp", "ppmap":
		z := new(any)
		if name == "ppmap" {
			*z = map[string]any{"old": 1.0}
		}
		y := new(any)
		*y = z
		*x = y
		pr.chain = []*any{y, z}
	default:
		panic("unknown prior " + name)
	}
	return pr
}

// renderAnyP: renderAny below any number of `*any` levels: `&` for a pointer that is the one the prior put there, `&!` for
// any other pointer, `&self` for a pointer to the target variable itself.
func renderAnyP(sb *strings.Builder, v any, pr *anyPrior, n *anyNode) {
	chain := pr.chain
	for lvl := 0; ; lvl++ {
		p, ok := v.(*any)
		if !ok {
			break
		}
		switch {
		case p == nil:
			sb.WriteString("&nil!")
			return
		case p == pr.x:
			sb.WriteString("&self")
			return
		case lvl >= 8:
			sb.WriteString("&loop!")
			return
		case len(chain) > 0 && chain[0] == p:
			sb.WriteString("&")
			chain = chain[1:]
		default:
			sb.WriteString("&!")
			chain = nil
		}
		v = *p
	}
	renderAny(sb, v, n)
}

// anyOut: one decoding outcome: a value (what the target holds afterwards), or an error class.
type anyOut struct {
	v   any
	cls string // "" = success
	pr  *anyPrior
}

func (o anyOut) render(tree func() *anyNode) string {
	if o.cls != "" {
		return o.cls
	}
	var sb strings.Builder
	if o.pr != nil {
		renderAnyP(&sb, o.v, o.pr, tree())
	} else {
		renderAny(&sb, o.v, tree())
	}
	return sb.String()
}

// segmentio's UnmarshalTypeError IS encoding/json's (type alias), so one classifier serves both sides; the assignment
// below does not compile if that ever stops being true.
var _ *stdjson.UnmarshalTypeError = (*json.UnmarshalTypeError)(nil)
var _ *stdjson.SyntaxError = (*json.SyntaxError)(nil)

func anyErrClass(err error) string {
	if _, ok := err.(*json.UnmarshalTypeError); ok {
		return "err:type"
	}
	return "err:syntax"
}

// anyViaDecoder: the whole document through a Decoder: the first Decode must succeed and the second must report io.EOF.
// A first Decode that fails with a type error has consumed a well-formed value: what follows still decides (anything but
// a clean io.EOF makes the document a syntax error, which is the priority Unmarshal gives to trailing bytes); every other
// first error (syntax, io.EOF, io.ErrUnexpectedEOF) is a syntax error.
func anyViaDecoder(dec interface{ Decode(any) error }, pr *anyPrior) anyOut {
	err := dec.Decode(pr.x)
	if err != nil && anyErrClass(err) != "err:type" {
		return anyOut{cls: "err:syntax"}
	}
	var extra any
	if e2 := dec.Decode(&extra); e2 != io.EOF {
		return anyOut{cls: "err:syntax"}
	}
	if err != nil {
		return anyOut{cls: "err:type"}
	}
	return anyOut{v: *pr.x, pr: pr}
}

func opDecAny(a []string) (string, string, string) {
	m := atoi(a[0])
	doc := unhx(a[1])
	var fl json.ParseFlags
	for i, b := range []json.ParseFlags{json.UseNumber, json.UseBigInt, json.UseInt64, json.UseUint64} {
		if m&(1<<i) != 0 {
			fl |= b
		}
	}
	prior := ""
	if len(a) > 2 {
		prior = a[2]
	}
	cp := func() []byte { return append([]byte{}, doc...) }
	var tr *anyNode
	scanned := false
	tree := func() *anyNode {
		if !scanned {
			tr, scanned = scanAnyDoc(doc), true
		}
		return tr
	}

	// Parse + the epilogue of Unmarshal (json.go)
	var p anyOut
	{
		pr := mkAnyPrior(prior)
		r, err := json.Parse(cp(), pr.x, fl)
		if len(r) != 0 {
			if _, ok := err.(*json.SyntaxError); !ok {
				err = &json.SyntaxError{Offset: int64(len(doc) - len(r))}
			}
		}
		if err != nil {
			p = anyOut{cls: anyErrClass(err)}
		} else {
			p = anyOut{v: *pr.x, pr: pr}
		}
	}
	r1, r2, r3 := p.render(tree), "-", "-"
	if m == 0 {
		pr := mkAnyPrior(prior)
		u := anyOut{pr: pr}
		if err := json.Unmarshal(cp(), pr.x); err != nil {
			u.cls = anyErrClass(err)
		} else {
			u.v = *pr.x
		}
		r2 = u.render(tree)
	}
	if m == 0 || m == 1 {
		dec := json.NewDecoder(bytes.NewReader(cp()))
		if m == 1 {
			dec.UseNumber()
		}
		r3 = anyViaDecoder(dec, mkAnyPrior(prior)).render(tree)
	}
	impl := r1
	if (r2 != "-" && r2 != r1) || (r3 != "-" && r3 != r1) {
		impl = "DISAGREE parse=" + r1 + " unmarshal=" + r2 + " decoder=" + r3
	}

	// oracle
	oracle := "-"
	var o anyOut
	switch m {
	case 0:
		o.pr = mkAnyPrior(prior)
		if err := stdjson.Unmarshal(cp(), o.pr.x); err != nil {
			o.cls = anyErrClass(err)
		} else {
			o.v = *o.pr.x
		}
		oracle = o.render(tree)
	case 1:
		dec := stdjson.NewDecoder(bytes.NewReader(cp()))
		dec.UseNumber()
		o = anyViaDecoder(dec, mkAnyPrior(prior))
		oracle = o.render(tree)
	}
	if oracle != "-" && impl == oracle && p.cls == "" && o.cls == "" && !reflect.DeepEqual(p.v, o.v) {
		impl += ";deepneq"
	}
	return impl, oracle, ""
}

// ---- generators --------------------------------------------------------------------------------

var anyFixedDocs = []string{
	// scalars
	`null`, `true`, `false`, `""`, `"a"`, `0`, `-0`, `1`, `-1`, `1.5`, `1e2`, `1E+2`, `1e-2`, `-0.0`, `0e0`, `1e400`, `-1e400`, `1e-400`,
	`1.7976931348623157e308`, `1.7976931348623158e308`, `1.797693134862315807e308`, `1.797693134862315808e308`, `1.797693134862315809e308`,
	`17976931348623158079372897140530341507993413271003782693617377898044496829276475094664901797758720709633028641669288791094655554785194040263065748867150582068190890200070838367627385484581771153176447573027006985557136695962284291481986083893647529271907416844436551070434271155969950809304288017790417449779`,
	`17976931348623158079372897140530341507993413271003782693617377898044496829276475094664901797758720709633028641669288791094655554785194040263065748867150582068190890200070838367627385484581771153176447573027006985557136695962284291481986083893647529271907416844436551070434271155969950809304288017790417449780`,
	`0.00000000000000000000000000001e400`, `1000000000000000000000000000000000000000000e280`, `0.1e310`, `1e99999999999999999999`,
	`0e99999999999999999999`, `1e-99999999999999999999`, `9223372036854775807`, `9223372036854775808`, `-9223372036854775808`,
	`-9223372036854775809`, `18446744073709551615`, `18446744073709551616`, `12345678901234567890`, `123456789012345678901234567890`,
	`-123456789012345678901234567890`,
	// small containers
	`[]`, `{}`, `[ ]`, `{ }`, `[1]`, `[1,2]`, `[[]]`, `[{}]`, `{"a":1}`, `{"a":[]}`, `{"a":{"b":null}}`,
	// duplicate keys (literal and escaped spellings of the same key; keys that only become equal after U+FFFD replacement)
	`{"a":1,"a":2}`, `{"a":1,"b":2,"a":3}`, `{"a":1,"\u0061":2}`, `{"\u0061":1,"a":2}`, `{"a":1e400,"a":1}`, `{"a":1,"a":1e400}`,
	`{"é":1,"é":2}`, `{"é":1,"\u00e9":2}`, `{"\u00E9":1,"é":2}`, "{\"\\ud800\":1,\"\\udfff\":2,\"\ufffd\":3}",
	"{\"\xff\":1,\"\ufffd\":2}", `{"a":{"a":1,"a":[]},"a":{"a":2,"a":{}}}`, `{"":1,"":2}`, `{"a":1,"a\u0000":2,"a":3}`,
	// key order
	`{"b":1,"a":2,"":3,"ab":4,"B":5}`,
	// escapes in strings
	`"\n\t\"\\\/\b\f\r"`, `"\u0041"`, `"A"`, `"\ud83d\ude00"`, `"😀"`, `"\ud83d"`, `"\ude00"`, `"\ud83dx"`, `"\ud83d\u0041"`, "\"\xff\"",
	"\"a\xc3\"", "\"\xed\xa0\x80\"", `"\u0000"`, "\"\xf0\x9f\x98\x80\"", "\"\x7f\"",
	// white space
	` [ 1 , 2 ] `, "\t{\n\"a\" :\r1 }\n", " \r\n\t1.5\t\n\r ", "\n\"a\"\n", " null ",
	// invalid documents
	``, ` `, `[`, `]`, `[1,]`, `[,1]`, `[1 2]`, `{"a"}`, `{"a":}`, `{"a":1,}`, `{a:1}`, `{"a":1 "b":2}`, `{null:1}`, `{1:1}`, `nul`, `nulll`,
	`tru`, `truex`, `-`, `01`, `1.`, `.5`, `1e`, `+1`, `"abc`, `"\x"`, `"\u12"`, "\"\x1f\"", `1 2`, `1 x`, `[1] x`, `[1e400] x`, `[1e400`,
	`{"a":1e400}`, `[1,1e400,2]`, `[1e400,@]`, `null x`, `nullx`, `[null,nul]`, `{"a":nul}`, `1e400 x`, `1e400 1`, `[1e400]]`, `{"a":1e400}}`,
	"1\x00", "\xef\xbb\xbf1", "\u00a01", "[1]\v", `{"a":1e400,"b":}`, `[1e400,1e]`, `-1e400 -`, `1.5e`, `-01`, `1e+`, `0x1`, `1e1.5`, `--1`,
}

var anyKeyAlphabet = []string{`"a"`, `"b"`, `"\u0061"`, `"a\u0000"`, `""`, `"é"`, `"\u00e9"`, `"\ud800"`, "\"\ufffd\"", "\"\xff\"", `"\udfff"`,
	`"A"`, `"ab"`, `"\u0062"`, "\"\xc3\"", `"a"`, `"b"`}

// anyGen writes one random valid document into buf and remembers where its values and structural bytes are.
type anyGen struct {
	h        *H
	buf      []byte
	spans    [][2]int // every value (start, end)
	structs  []int    // positions of , : [ ] { } and of string quotes
	budget   int      // containers are only opened while positive
	maxDepth int
	pCont    int // per cent: a nested value is a container
	narrow   bool
}

func (g *anyGen) ws() {
	h := g.h
	if h.Intn(10) < 7 {
		return
	}
	for n := 1 + h.Intn(3); n > 0; n-- {
		g.buf = append(g.buf, " \t\n\r"[h.Intn(4)])
	}
}

func (g *anyGen) punct(c byte) {
	g.structs = append(g.structs, len(g.buf))
	g.buf = append(g.buf, c)
}

func (g *anyGen) strLit(s []byte) {
	g.structs = append(g.structs, len(g.buf), len(g.buf)+len(s)-1)
	g.buf = append(g.buf, s...)
}

func (h *H) anyDigits(n int) string {
	b := make([]byte, n)
	for i := range b {
		b[i] = byte('0' + h.Intn(10))
	}
	return string(b)
}

// anyInt: 1..25 digits, no leading zero
func (h *H) anyInt() string {
	n := 1 + h.Intn(25)
	if h.Intn(3) == 0 {
		n = 1 + h.Intn(3)
	}
	s := h.anyDigits(n)
	if n > 1 && s[0] == '0' {
		s = string(rune('1'+h.Intn(9))) + s[1:]
	}
	return s
}

func (h *H) genAnyNumber() string {
	sign := func() string {
		if h.Intn(3) == 0 {
			return "-"
		}
		return ""
	}
	switch r := h.Intn(40); {
	case r < 12:
		return sign() + h.anyInt()
	case r < 14:
		return h.Pick([]string{"-0", "0", "-0.0", "0e0", "-0e-0", "0.0", "0E+5"})
	case r < 17: // the integer boundaries of the dynamic-number flags
		return h.Pick([]string{"9223372036854775807", "9223372036854775808", "-9223372036854775808", "-9223372036854775809", "18446744073709551615",
			"18446744073709551616", "-1", "4294967296", "-18446744073709551615", "99999999999999999999", "9007199254740993", "9007199254740992"})
	case r < 23: // fractions
		return sign() + h.anyInt() + "." + h.anyDigits(1+h.Intn(20))
	case r < 31: // exponents
		mant := h.anyInt()
		if h.Bool() {
			mant += "." + h.anyDigits(1+h.Intn(18))
		}
		return sign() + mant + h.Pick([]string{"e", "E"}) + h.Pick([]string{"", "+", "-"}) + h.anyDigits([]int{1, 1, 2, 2, 2, 3}[h.Intn(6)])
	case r < 34: // near ±MaxFloat64 (the largest finite value and the rounding boundary 1.797693134862315807937e308 just above it)
		switch h.Intn(4) {
		case 0:
			return sign() + h.Pick([]string{"1.7976931348623157e308", "1.7976931348623158e308", "1.7976931348623159e308", "1.797693134862315807e308",
				"1.797693134862315808e308", "1.7976931348623158079e308", "1.79769313486231580793e308", "1.79769313486231580794e308",
				"179769313486231570000e288", "0.17976931348623157e309", "1.797693134862316e308", "1.7976931348623157E+308"})
		case 1:
			return sign() + "1.79769313486231" + h.anyDigits(2+h.Intn(8)) + "e308"
		case 2:
			return sign() + "1.797693134862315" + h.Pick([]string{"7", "8"}) + h.anyDigits(h.Intn(12)) + h.Pick([]string{"e308", "E308", "e+308"})
		default:
			return sign() + "17976931348623" + h.anyDigits(3+h.Intn(6)) + strings.Repeat("0", 292-h.Intn(2)) + h.Pick([]string{"", ".0", "e0", "e-1"})
		}
	case r < 36: // 1e308 .. 1e309
		switch h.Intn(3) {
		case 0:
			return sign() + string(rune('1'+h.Intn(9))) + "." + h.anyDigits(1+h.Intn(6)) + "e308"
		case 1:
			return sign() + h.Pick([]string{"1e308", "1e309", "2e308", "10e307", "0.1e309", "0.1e310", "1" + strings.Repeat("0", 308), "1" + strings.Repeat("0", 309),
				"1e400", "1e1000", "1e99999999999999999999", "0.000000001e318"})
		default:
			return sign() + string(rune('1'+h.Intn(9))) + "e" + h.Pick([]string{"", "+"}) + strconv.Itoa(300+h.Intn(12))
		}
	default: // tiny: around the smallest denormal 4.94e-324 (half of it, 2.47e-324, is the rounding boundary to zero)
		switch h.Intn(3) {
		case 0:
			return sign() + string(rune('1'+h.Intn(9))) + "e-" + strconv.Itoa(320+h.Intn(11))
		case 1:
			return sign() + h.Pick([]string{"4.9e-324", "5e-324", "2.4e-324", "2.5e-324", "2.47e-324", "2.4703282292062327e-324", "2.4703282292062328e-324",
				"2.2250738585072014e-308", "2.2250738585072011e-308", "1e-400", "1e-99999999999999999999", "0." + strings.Repeat("0", 323) + "5",
				"0." + strings.Repeat("0", 323) + "2"})
		default:
			return sign() + h.anyDigits(1) + "." + h.anyDigits(1+h.Intn(5)) + "e-" + strconv.Itoa(318+h.Intn(10))
		}
	}
}

func (g *anyGen) key() []byte {
	if g.h.Intn(10) < 7 {
		return []byte(g.h.Pick(anyKeyAlphabet))
	}
	return g.h.genJSONString()
}

func (g *anyGen) width() int {
	h := g.h
	if g.narrow {
		return 1 + h.Intn(2)
	}
	if h.Intn(30) == 0 {
		return 20 + h.Intn(21)
	}
	return h.Intn(7)
}

func (g *anyGen) value(depth int) {
	h := g.h
	st := len(g.buf)
	defer func() { g.spans = append(g.spans, [2]int{st, len(g.buf)}) }()
	container := depth < g.maxDepth && g.budget > 0 && ((depth == 0 && h.Intn(10) < 8) || (depth > 0 && h.Intn(100) < g.pCont))
	if container {
		n := g.width()
		g.budget -= 1 + n
		if h.Bool() {
			g.punct('[')
			g.ws()
			for i := 0; i < n; i++ {
				if i > 0 {
					g.ws()
					g.punct(',')
					g.ws()
				}
				g.value(depth + 1)
			}
			g.ws()
			g.punct(']')
		} else {
			g.punct('{')
			g.ws()
			for i := 0; i < n; i++ {
				if i > 0 {
					g.ws()
					g.punct(',')
					g.ws()
				}
				g.strLit(g.key())
				g.ws()
				g.punct(':')
				g.ws()
				g.value(depth + 1)
			}
			g.ws()
			g.punct('}')
		}
		return
	}
	switch r := h.Intn(20); {
	case r < 9:
		g.buf = append(g.buf, h.genAnyNumber()...)
	case r < 14:
		g.strLit(h.genJSONString())
	case r < 16:
		g.buf = append(g.buf, "null"...)
	case r < 18:
		g.buf = append(g.buf, "true"...)
	default:
		g.buf = append(g.buf, "false"...)
	}
}

func (h *H) newAnyGen() *anyGen {
	g := &anyGen{h: h, maxDepth: 8}
	g.budget = []int{6, 20, 40, 120}[h.Intn(4)]
	g.pCont = []int{20, 35, 60, 90}[h.Intn(4)]
	g.narrow = g.pCont == 90 && h.Bool()
	g.ws()
	g.value(0)
	g.ws()
	return g
}

// genAnyDoc: a random valid document (duplicate keys frequent, numbers of every shape, white space everywhere).
func (h *H) genAnyDoc() []byte { return h.newAnyGen().buf }

// mutateAny: structure-aware edits of a generated document.
func (g *anyGen) mutateAny() []byte {
	h := g.h
	d := append([]byte{}, g.buf...)
	splice := func(st, en int, repl string) []byte {
		return append(append(append([]byte{}, d[:st]...), repl...), d[en:]...)
	}
	switch h.Intn(9) {
	case 0, 1:
		return h.mutateJSON(d)
	case 2: // delete a comma / colon / bracket / quote
		if len(g.structs) > 0 {
			p := g.structs[h.Intn(len(g.structs))]
			return splice(p, p+1, "")
		}
	case 3: // duplicate one
		if len(g.structs) > 0 {
			p := g.structs[h.Intn(len(g.structs))]
			return splice(p, p, string(d[p:p+1]))
		}
	case 4: // a value becomes a broken token
		sp := g.spans[h.Intn(len(g.spans))]
		return splice(sp[0], sp[1], h.Pick([]string{"nul", "tru", "1e", "-", "fals", "nulll", "truee", "01", "1.", ".5", `"`, `"\x"`, "@", "", "1e+", "-a", "NaN", "Infinity"}))
	case 5: // a value becomes another VALID value (out-of-range floats after / before other members; nested duplicates)
		sp := g.spans[h.Intn(len(g.spans))]
		return splice(sp[0], sp[1], h.Pick([]string{"1e400", "-1e400", "1e309", "null", "[]", "{}", `{"a":1,"a":2}`, "[1e400]", `{"a":1e400,"a":0}`,
			"1.7976931348623158e308", "1.797693134862315808e308", `""`, "0", "18446744073709551616", "-9223372036854775809"}))
	case 6: // trailing garbage
		return append(d, h.Pick([]string{" x", "]", "}", " 1", "x", ",", " null", " []", "\x00", " 1e400", "\"", ":", " -"})...)
	case 7: // truncation
		if len(d) > 0 {
			return d[:h.Intn(len(d))]
		}
	default: // something in front
		return append([]byte(h.Pick([]string{"x", ",", "[", "1 ", "]", "\xef\xbb\xbf", "\x00", "-", "\"", "{"})), d...)
	}
	return h.mutateJSON(d)
}

func (h *H) anyFlags() int {
	switch r := h.Intn(4); r {
	case 0, 1:
		return r
	}
	return 2 + h.Intn(14)
}

func runC02Any(h *H) {
	doP := func(risky bool, flags int, doc []byte, prior string) {
		var i, o string
		args := []string{strconv.Itoa(flags), hx(doc)}
		if prior != "" {
			args = append(args, prior)
			h.Count("decany:prior", 1)
		}
		if risky {
			i, o = h.DoRisky("json.decany", args...)
		} else {
			i, o = h.Do("json.decany", args...)
		}
		if i == "err" { // error: also compare its class with the model
			if risky {
				i, _ = h.DoRisky("json.decanycls", args...)
			} else {
				i, _ = h.Do("json.decanycls", args...)
			}
		}
		switch {
		case strings.HasPrefix(i, "err:type"):
			h.Count("decany:err", 1)
			h.Count("decany:errtype", 1)
		case strings.HasPrefix(i, "err:"):
			h.Count("decany:err", 1)
		case strings.HasPrefix(i, "DISAGREE"):
			h.Count("decany:disagree", 1)
		case strings.HasPrefix(i, "fatal:") || strings.HasPrefix(i, "panic:"):
			h.Count("decany:crash", 1)
		default:
			h.Count("decany:valid", 1)
			if strings.Contains(i, "!") || strings.Contains(i, "other:") {
				h.Count("decany:badleaf", 1)
			}
			if len(doc) < 1<<16 && scanAnyDoc(doc).hasDupKeys() {
				h.Count("decany:dupkeys", 1)
			}
		}
		if o != "-" {
			h.Count("decany:withoracle", 1)
			if i != o {
				h.Count("decany:ineqo", 1)
				if prior != "" {
					h.Count("decany:prior-ineqo", 1)
				}
			}
		}
	}
	do := func(risky bool, flags int, doc []byte) { doP(risky, flags, doc, "") }
	// (1) hand-written documents × all 16 flag values
	for _, d := range anyFixedDocs {
		for m := 0; m < 16; m++ {
			do(false, m, []byte(d))
		}
	}
	// (2) + (3) grammar-directed documents, a third of them mutated
	N := 900
	if h.Thorough() {
		N = 58000
	}
	for i := 0; i < N; i++ {
		g := h.newAnyGen()
		doc := g.buf
		if h.Intn(3) == 0 {
			doc = g.mutateAny()
			if h.Intn(4) == 0 { // a second, byte-level edit on top
				doc = h.mutateJSON(doc)
			}
			h.Count("decany:mutated", 1)
		}
		do(false, h.anyFlags(), doc)
	}
	// (4) the depth limit (10000 in encoding/json), in a supervised child
	rep := strings.Repeat
	type deep struct {
		name string
		mk   func(n int) string
	}
	kinds := []deep{
		{"arr", func(n int) string { return rep("[", n) + rep("]", n) }},
		{"obj", func(n int) string { return rep(`{"a":`, n) + "1" + rep("}", n) }},
		{"arr-big", func(n int) string { return rep("[", n) + "1e400" + rep("]", n) }},
		{"obj-big", func(n int) string { return rep(`{"a":`, n) + "1e400" + rep("}", n) }},
		{"mixed", func(n int) string { return rep("[", n-1) + `[1,{"a":[]}]` + rep("]", n-1) }},            // depth n+2
		{"mixed2", func(n int) string { return rep(`{"a":`, n-2) + `{"a":[2],"a":[[]]}` + rep("}", n-2) }}, // depth n
	}
	flagsOf := []int{0, 1, 13}
	k := 0
	for _, n := range []int{9999, 10000, 10001} {
		for _, kd := range kinds {
			doc := []byte(kd.mk(n))
			if h.Thorough() || (n == 10000 && strings.HasSuffix(kd.name, "-big")) {
				for _, m := range flagsOf {
					do(true, m, doc)
				}
			} else {
				do(true, flagsOf[k%3], doc)
				k++
			}
		}
	}
	// an out-of-range float AFTER a first element that reaches the limit (total depth 10000) / stays below it (9999)
	for _, n := range []int{10000, 9999} {
		doc := []byte("[" + rep("[", n-1) + rep("]", n-1) + ",1e400]")
		doc2 := []byte("[1e400," + rep("[", n-1) + rep("]", n-1) + "]")
		for _, m := range flagsOf {
			if m == 1 && !h.Thorough() {
				continue
			}
			do(true, m, doc)
			if h.Thorough() || m == 0 {
				do(true, m, doc2)
			}
		}
	}
	// (5) the target already holds data left by earlier decodes: every prior × {0,1,13} × fixed documents, then random ones
	for _, pn := range anyPriorNames {
		for _, m := range flagsOf {
			for _, d := range anyPriorDocs {
				doP(false, m, []byte(d), pn)
			}
		}
	}
	NP := 300
	if h.Thorough() {
		NP = 6000
	}
	for i := 0; i < NP; i++ {
		g := h.newAnyGen()
		doc := g.buf
		if h.Intn(3) == 0 {
			doc = g.mutateAny()
		}
		m := h.Intn(2)
		if h.Bool() {
			m = 2 + h.Intn(14)
		}
		doP(false, m, doc, h.Pick(anyPriorNames))
	}
}

var anyPriorDocs = []string{`null`, ` null `, `nullx`, `nul`, `1`, `"s"`, `true`, `false`, `[]`, `[1,{"a":2}]`, `{}`, `{"old":2,"b":[1]}`, `{"a":1e400}`, `1e400`,
	`[1,`, ``, `x`, `{"a":1,"a":2}`, `[null]`, `{"a":null}`, `1 2`, `[1] x`, `null x`, `null null`, `[1e400] x`, `{"old":null}`, `"old"`, `7`,
	`{"old":{"old":1},"a":"z"}`, `[1,"old",null,4,5]`, `[1e400,1]`, `-0`, `12345678901234567890`}
