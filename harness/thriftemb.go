package main

import (
	"bytes"
	"fmt"
	"reflect"

	"github.com/segmentio/encoding/thrift"
)

// Embedded (anonymous) struct fields are flattened by thrift.forEachStructField: a struct with an embedding chain must
// encode to the same bytes as the flat struct with the same (id, value) pairs, and decode back to itself.
// reflect.StructOf cannot build embedded fields of unnamed types, so the shapes are static.

type TE4 struct {
	A int32   `thrift:"11"`
	B string  `thrift:"12"`
	C float64 `thrift:"13"`
}
type TE3 struct {
	TE4
	D int64 `thrift:"21"`
}
type TE2 struct {
	TE3
	E []int32 `thrift:"22"`
	G bool    `thrift:"23"`
}
type TE1 struct {
	H string `thrift:"1"`
	TE2
	I int16 `thrift:"30"`
}

// pointer embedding at two levels, two fields at the deepest level after three hops
type TP3 struct {
	*TE4
	D int64 `thrift:"21"`
}
type TP2 struct {
	TP3
	E []int32 `thrift:"22"`
	G bool    `thrift:"23"`
}
type TP1 struct {
	H string `thrift:"1"`
	*TP2
	I int16 `thrift:"30"`
}

// one level, one field (the only shape the repository's tests have), and a wide deepest level five hops down
type TS1 struct {
	TS0
	Z int32 `thrift:"2"`
}
type TS0 struct {
	Y string `thrift:"1"`
}
type TW5 struct {
	P int32            `thrift:"40"`
	Q int64            `thrift:"41"`
	R string           `thrift:"42"`
	S []string         `thrift:"43"`
	T map[string]int32 `thrift:"44"`
	U float64          `thrift:"45"`
}
type TW4 struct{ TW5 }
type TW3 struct{ TW4 }
type TW2 struct{ TW3 }
type TW1 struct {
	TW2
	V bool `thrift:"3"`
}

type TFlat struct {
	H string  `thrift:"1"`
	A int32   `thrift:"11"`
	B string  `thrift:"12"`
	C float64 `thrift:"13"`
	D int64   `thrift:"21"`
	E []int32 `thrift:"22"`
	G bool    `thrift:"23"`
	I int16   `thrift:"30"`
}
type TSFlat struct {
	Y string `thrift:"1"`
	Z int32  `thrift:"2"`
}
type TWFlat struct {
	V bool             `thrift:"3"`
	P int32            `thrift:"40"`
	Q int64            `thrift:"41"`
	R string           `thrift:"42"`
	S []string         `thrift:"43"`
	T map[string]int32 `thrift:"44"`
	U float64          `thrift:"45"`
}

func init() {
	// thrift.embedded <shape> <seed>: embedding is transparent on the wire, for all three protocol settings
	ops["thrift.embedded"] = func(a []string) (string, string, string) {
		h := &H{rng: uint64(atoi(a[1]))*2654435761 + 1, Stats: map[string]int64{}}
		s := func() string { return string(h.genJSONString()) }
		A, B, C, D := int32(h.U64()), s(), float64(int64(h.U64()>>20))/8, int64(h.U64())
		E, G, Hs, I := []int32{int32(h.U64()), 1, int32(h.Intn(100))}, h.Bool(), s(), int16(h.U64())
		var emb, flat any
		switch a[0] {
		case "value":
			emb = TE1{H: Hs, TE2: TE2{TE3: TE3{TE4: TE4{A, B, C}, D: D}, E: E, G: G}, I: I}
			flat = TFlat{Hs, A, B, C, D, E, G, I}
		case "pointer":
			emb = TP1{H: Hs, TP2: &TP2{TP3: TP3{TE4: &TE4{A, B, C}, D: D}, E: E, G: G}, I: I}
			flat = TFlat{Hs, A, B, C, D, E, G, I}
		case "single":
			emb = TS1{TS0{B}, A}
			flat = TSFlat{B, A}
		default:
			m := map[string]int32{B: A}
			emb = TW1{TW2{TW3{TW4{TW5{A, D, B, []string{Hs, "x"}, m, C}}}}, G}
			flat = TWFlat{G, A, D, B, []string{Hs, "x"}, m, C}
		}
		for _, pn := range thriftProtos {
			p := thriftProto(pn)
			eb, e1 := thrift.Marshal(p, emb)
			fb, e2 := thrift.Marshal(p, flat)
			if e1 != nil || e2 != nil {
				return fmt.Sprintf("%s: marshal error %v / %v", pn, e1, e2), "ok", ""
			}
			if !bytes.Equal(eb, fb) {
				return fmt.Sprintf("%s: embedded %x flat %x", pn, eb, fb), "ok", ""
			}
			out := reflect.New(reflect.TypeOf(emb))
			if err := thrift.Unmarshal(p, eb, out.Interface()); err != nil {
				return pn + ": unmarshal error " + err.Error(), "ok", ""
			}
			if !reflect.DeepEqual(out.Elem().Interface(), emb) {
				return fmt.Sprintf("%s: round trip %+v != %+v", pn, out.Elem().Interface(), emb), "ok", ""
			}
		}
		return "ok", "ok", ""
	}
}
