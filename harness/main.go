// vh: the correspondence / differential harness. Calls the real packages of /repo in-process.
//
//	vh <property> <tier> <seed>     run the property's generators; protocol below on stdout
//	vh exec <op> <arg>…             run ONE op in-process; prints I<TAB>O<TAB>KH (used by replay)
//	vh worker                       child mode: reads op<TAB>arg… lines, answers I<TAB>O<TAB>KH (crash isolation)
//
// stdout protocol (consumed by /verif/check):
//
//	C<TAB>op<TAB>arg…<TAB>#<TAB>I<TAB>O<TAB>KH   a case for the Lean driver: impl observable I, oracle observable O
//	                                            ("-" = none), KH = known classes decided on the Go side ("" = none)
//	F<TAB>…same…                                 an in-process disagreement (impl ≠ oracle) found by a mass sweep
//	S<TAB>{json}                                 statistics (counts, distribution) merged into the evidence
package main

import (
	"bufio"
	"encoding/hex"
	"encoding/json"
	"fmt"
	"io"
	"os"
	"os/exec"
	"runtime"
	"runtime/debug"
	"sort"
	"strconv"
	"strings"
	"syscall"
	"time"
)

type runner func(h *H)

// opFunc executes one operation on the real code (and the Go-side oracle when there is one).
// It returns impl observable, oracle observable ("-" if none) and Go-side known classes.
type opFunc func(args []string) (impl, oracle, known string)

var registry = map[string]runner{}
var ops = map[string]opFunc{}

// huntHooks: per property, generators of directed regression cases for defects that were found and repaired.
var huntHooks = map[string][]runner{}

// H is the per-run context: PRNG, tier, output.
type H struct {
	Tier  string
	Seed  uint64
	rng   uint64
	out   *bufio.Writer
	Stats map[string]int64
	nfail int
	w     *worker
}

func (h *H) Thorough() bool { return h.Tier == "thorough" }

// splitmix64: every random choice derives from the one seed.
func (h *H) U64() uint64 {
	h.rng += 0x9e3779b97f4a7c15
	z := h.rng
	z = (z ^ (z >> 30)) * 0xbf58476d1ce4e5b9
	z = (z ^ (z >> 27)) * 0x94d049bb133111eb
	return z ^ (z >> 31)
}
func (h *H) Intn(n int) int {
	if n <= 0 {
		return 0
	}
	return int(h.U64() % uint64(n))
}
func (h *H) Bool() bool { return h.U64()&1 == 1 }
func (h *H) Bytes(n int) []byte {
	b := make([]byte, n)
	for i := range b {
		b[i] = byte(h.U64())
	}
	return b
}
func (h *H) Pick(xs []string) string { return xs[h.Intn(len(xs))] }

func hx(b []byte) string {
	if len(b) == 0 {
		return "-"
	}
	return hex.EncodeToString(b)
}
func unhx(s string) []byte {
	if s == "-" || s == "" {
		return []byte{}
	}
	b, err := hex.DecodeString(s)
	if err != nil {
		panic("bad hex arg: " + s)
	}
	return b
}
func b01(b bool) string {
	if b {
		return "1"
	}
	return "0"
}
func atoi(s string) int {
	n, err := strconv.Atoi(s)
	if err != nil {
		panic("bad int arg: " + s)
	}
	return n
}

func (h *H) Count(k string, n int64) { h.Stats[k] += n }

func (h *H) emit(tag, op string, args []string, impl, oracle, known string) {
	fmt.Fprintf(h.out, "%s\t%s\t%s\t#\t%s\t%s\t%s\n", tag, op, strings.Join(args, "\t"), impl, oracle, known)
}

// Case emits an already-executed case for the Lean driver.
func (h *H) Case(op string, args []string, impl, oracle string) {
	h.Count("cases", 1)
	h.Count("op:"+op, 1)
	h.emit("C", op, args, impl, oracle, "")
}

// Do executes op in-process through its registered executor and emits the case.
func (h *H) Do(op string, args ...string) (string, string) {
	f, ok := ops[op]
	if !ok {
		panic("no executor for op " + op)
	}
	i, o, k := safeExec(f, args)
	h.Count("cases", 1)
	h.Count("op:"+op, 1)
	h.emit("C", op, args, i, o, k)
	return i, o
}

// DoRisky executes op in a supervised child process (fatal errors, OOM and hangs become observables).
func (h *H) DoRisky(op string, args ...string) (string, string) {
	if h.w == nil {
		h.w = &worker{}
	}
	i, o, k := h.w.run(op, args)
	if strings.HasPrefix(i, "fatal:") {
		// a fatal error is believed only if the case also dies alone in a fresh worker
		h.Count("fatal_first_try", 1)
		h.w.kill()
		i, o, k = h.w.run(op, args)
	}
	h.Count("cases", 1)
	h.Count("op:"+op, 1)
	if strings.HasPrefix(i, "fatal:") {
		h.Count("fatal", 1)
		if f, ok := fatalClass[op]; ok {
			k = f(args) // a dead worker cannot classify its own death
		}
	}
	h.emit("C", op, args, i, o, k)
	return i, o
}

// fatalClass: Go-side known-class labelling for cases that killed the worker.
var fatalClass = map[string]func(args []string) string{}

// Fail reports an in-process disagreement between implementation and oracle (bounded).
func (h *H) Fail(op string, args []string, impl, oracle string) {
	h.nfail++
	if h.nfail > 50 {
		return
	}
	h.emit("F", op, args, impl, oracle, "")
}

// safeExec converts a recoverable panic into the observable "panic:<first words>".
func safeExec(f opFunc, args []string) (i, o, k string) {
	defer func() {
		if r := recover(); r != nil {
			s := fmt.Sprint(r)
			if os.Getenv("VH_TRACE") != "" {
				fmt.Fprintf(os.Stderr, "PANIC %s\n%s\n", s, debug.Stack())
			}
			if len(s) > 60 {
				s = s[:60]
			}
			s = strings.Map(func(r rune) rune {
				if r == '\t' || r == '\n' {
					return ' '
				}
				return r
			}, s)
			i, o, k = "panic:"+s, "-", ""
		}
	}()
	return f(args)
}

// ---- supervised worker -------------------------------------------------------------------------

type worker struct {
	cmd  *exec.Cmd
	in   io.WriteCloser
	out  *bufio.Reader
	used int
}

func (w *worker) start() {
	w.cmd = exec.Command(os.Args[0], "worker")
	w.cmd.Env = append(os.Environ(), "GOMEMLIMIT=1500MiB", "GOTRACEBACK=none", "VH_RLIMIT_AS=6442450944")
	w.cmd.Stderr = nil
	var err error
	w.in, err = w.cmd.StdinPipe()
	if err != nil {
		panic(err)
	}
	rd, err := w.cmd.StdoutPipe()
	if err != nil {
		panic(err)
	}
	w.out = bufio.NewReaderSize(rd, 1<<20)
	if err := w.cmd.Start(); err != nil {
		panic(err)
	}
}

func (w *worker) kill() {
	if w.cmd != nil {
		w.cmd.Process.Kill()
		w.cmd.Wait()
		w.cmd = nil
	}
}

func (w *worker) run(op string, args []string) (string, string, string) {
	// recycle: reflect.StructOf types and the codec caches of the library are never freed
	if w.cmd != nil && w.used >= 3000 {
		w.kill()
	}
	if w.cmd == nil {
		w.start()
		w.used = 0
	}
	w.used++
	line := op
	if len(args) > 0 {
		line += "\t" + strings.Join(args, "\t")
	}
	type res struct {
		s   string
		err error
	}
	ch := make(chan res, 1)
	rd := w.out
	go func() {
		s, err := rd.ReadString('\n')
		ch <- res{s, err}
	}()
	if _, err := io.WriteString(w.in, line+"\n"); err != nil {
		w.kill()
		return "fatal:write", "-", ""
	}
	select {
	case r := <-ch:
		if r.err != nil {
			st := "exit"
			if w.cmd != nil {
				err := w.cmd.Wait()
				if ee, ok := err.(*exec.ExitError); ok {
					if ws, ok := ee.Sys().(syscall.WaitStatus); ok && ws.Signaled() {
						st = "signal-" + ws.Signal().String()
					} else {
						st = fmt.Sprintf("exit-%d", ee.ExitCode())
					}
				}
				w.cmd = nil
			}
			return "fatal:" + strings.ReplaceAll(st, " ", "-"), "-", ""
		}
		p := strings.Split(strings.TrimRight(r.s, "\n"), "\t")
		for len(p) < 3 {
			p = append(p, "")
		}
		return p[0], p[1], p[2]
	case <-time.After(caseTimeout):
		w.kill()
		return "fatal:timeout", "-", ""
	}
}

func workerMain() {
	if v := os.Getenv("VH_RLIMIT_AS"); v != "" {
		if n, err := strconv.ParseUint(v, 10, 64); err == nil {
			syscall.Setrlimit(syscall.RLIMIT_AS, &syscall.Rlimit{Cur: n, Max: n})
		}
	}
	in := bufio.NewReaderSize(os.Stdin, 1<<24)
	out := bufio.NewWriter(os.Stdout)
	for {
		line, err := in.ReadString('\n')
		if line == "" && err != nil {
			return
		}
		p := strings.Split(strings.TrimRight(line, "\n"), "\t")
		f, ok := ops[p[0]]
		if !ok {
			fmt.Fprintf(out, "noop\t-\t\n")
		} else {
			i, o, k := safeExec(f, p[1:])
			fmt.Fprintf(out, "%s\t%s\t%s\n", i, o, k)
		}
		out.Flush()
	}
}

func main() {
	if len(os.Args) >= 2 && os.Args[1] == "worker" {
		workerMain()
		return
	}
	if len(os.Args) >= 6 && os.Args[1] == "concchild" {
		concChild(os.Args[2:])
		return
	}
	if len(os.Args) >= 3 && os.Args[1] == "exec" {
		f, ok := ops[os.Args[2]]
		if !ok {
			fmt.Println("noop\t-\t")
			return
		}
		i, o, k := safeExec(f, os.Args[3:])
		fmt.Printf("%s\t%s\t%s\n", i, o, k)
		return
	}
	if len(os.Args) < 4 {
		fmt.Fprintln(os.Stderr, "usage: vh <property> <tier> <seed> | vh exec <op> <arg>… | vh worker")
		var ks []string
		for k := range registry {
			ks = append(ks, k)
		}
		sort.Strings(ks)
		fmt.Fprintln(os.Stderr, "properties:", ks)
		os.Exit(2)
	}
	seed, _ := strconv.ParseUint(os.Args[3], 10, 64)
	h := &H{Tier: os.Args[2], Seed: seed, rng: seed, out: bufio.NewWriterSize(os.Stdout, 1<<20), Stats: map[string]int64{}}
	r, ok := registry[os.Args[1]]
	if !ok {
		fmt.Fprintln(os.Stderr, "unknown property", os.Args[1])
		os.Exit(2)
	}
	// regression cases of repaired defects (hunt_*.go), run first: minimised past failures are the corpus
	for _, f := range huntHooks[os.Args[1]] {
		f(h)
	}
	r(h)
	if h.w != nil {
		h.w.kill()
	}
	sb, _ := json.Marshal(h.Stats)
	fmt.Fprintf(h.out, "S\t%s\n", sb)
	h.out.Flush()
}

// allocsPerRun: average number of heap allocations per call of f (runtime.MemStats.Mallocs delta).
// caseTimeout: a supervised case that takes longer is reported as fatal:timeout (a hang IS a violation of the
// never-hangs properties). The slowest legitimate cases (documents nested millions of levels deep, race-detector children)
// take a few seconds on an idle machine; the margin is for loaded machines, where a 20 s limit raised false alarms.
const caseTimeout = 90 * time.Second

// allocsPerRun: mallocs per call of f. runtime.MemStats counts the whole process, so mallocs of other goroutines (GC
// workers, the output writer) can fall between the two readings: the MINIMUM over several attempts is reported — a function
// that does not allocate has an attempt without strays, a function that allocates shows at least `runs` mallocs every time.
func allocsPerRun(runs int, f func()) float64 {
	f() // warm up
	best := -1.0
	for attempt := 0; attempt < 7; attempt++ {
		var m0, m1 runtime.MemStats
		runtime.ReadMemStats(&m0)
		for i := 0; i < runs; i++ {
			f()
		}
		runtime.ReadMemStats(&m1)
		a := float64(m1.Mallocs-m0.Mallocs) / float64(runs)
		if best < 0 || a < best {
			best = a
		}
		if best == 0 {
			break
		}
	}
	return best
}
