package main

import (
	"reflect"

	"github.com/segmentio/encoding/thrift"
)

// The embedded shapes of thriftemb.go as transport descriptors (`named TE1 st … f TE2 <tag> 1 named TE2 st …`: the third
// component of a field is the Anonymous flag), so that the model of the flattening (Enc/Model/ThriftEmbed.lean: encodeE /
// decodeE) is corresponded byte for byte on generated values — nil embedded pointers included.
//
//	thrift.embmarshal <proto> <type> <value>        I = Marshal, M = the model's marshalE, S = the model's `encode` of the
//	                                                FLAT struct type on the gathered values when the value is `Transparent`
//	thrift.embdecode  <proto> <strict> <type> <hex>  I = Decode into a zero value, M = the model's unmarshalE

var embShapes = []reflect.Type{
	reflect.TypeOf(TE1{}), reflect.TypeOf(TP1{}), reflect.TypeOf(TS1{}), reflect.TypeOf(TW1{}), reflect.TypeOf(TR1{}),
}

// a required field behind an embedded pointer: the encoder skips it when the pointer is nil
type TR2 struct {
	A int32  `thrift:"5,required"`
	B string `thrift:"6"`
}
type TR1 struct {
	*TR2
	C int64 `thrift:"7"`
	D *bool `thrift:"8"`
}

// unexported embedded types: the decoder cannot allocate the nil *tu2 (reflect: CanSet), it can set the fields of tv2
type tu2 struct {
	A int32  `thrift:"1"`
	B string `thrift:"2"`
}
type tv2 struct {
	C int64 `thrift:"3"`
}
type TU1 struct {
	*tu2
	tv2
	D bool `thrift:"4"`
}
type TUFlat struct {
	A int32  `thrift:"1"`
	B string `thrift:"2"`
	C int64  `thrift:"3"`
	D bool   `thrift:"4"`
}

func tyOfReflect(rt reflect.Type) *Ty {
	switch rt.Kind() {
	case reflect.Bool:
		return &Ty{K: "bool"}
	case reflect.Int8:
		return &Ty{K: "i8"}
	case reflect.Int16:
		return &Ty{K: "i16"}
	case reflect.Int32:
		return &Ty{K: "i32"}
	case reflect.Int64:
		return &Ty{K: "i64"}
	case reflect.Int:
		return &Ty{K: "int"}
	case reflect.Float64:
		return &Ty{K: "f64"}
	case reflect.String:
		return &Ty{K: "str"}
	case reflect.Ptr:
		return &Ty{K: "ptr", Elem: tyOfReflect(rt.Elem())}
	case reflect.Slice:
		return &Ty{K: "sl", Elem: tyOfReflect(rt.Elem())}
	case reflect.Map:
		return &Ty{K: "map", Key: tyOfReflect(rt.Key()), Elem: tyOfReflect(rt.Elem())}
	case reflect.Struct:
		st := &Ty{K: "st"}
		for i := 0; i < rt.NumField(); i++ {
			f := rt.Field(i)
			st.Fields = append(st.Fields, Field{Name: f.Name, Tag: string(f.Tag), Emb: f.Anonymous, T: tyOfReflect(f.Type)})
		}
		namedTypes[rt.Name()] = rt
		return &Ty{K: "named", Name: rt.Name(), Elem: st}
	}
	panic("tyOfReflect: " + rt.String())
}

func init() {
	for _, rt := range embShapes {
		tyOfReflect(rt) // registers the names
	}
	ops["thrift.embmarshal"] = func(a []string) (string, string, string) {
		i, _, _ := ops["thrift.marshal"](a)
		return i, "-", ""
	}
	ops["thrift.embdecode"] = func(a []string) (string, string, string) {
		return thriftDecode(thriftProto(a[0]), a[1] == "1", parseTy(a[2]), unhx(a[3])), "-", ""
	}
}

func (h *H) thriftEmbedded(n int) {
	// unexported embedded types (values with such members cannot be built through reflect: decoding only, from the bytes
	// of the flat struct)
	tU, tF := tyOfReflect(reflect.TypeOf(TU1{})), tyOfReflect(reflect.TypeOf(TUFlat{}))
	for i := 0; i < 2*n; i++ {
		v := h.genVal(tF, 0)
		for _, pn := range thriftProtos {
			if b, err := thrift.Marshal(thriftProto(pn), v.Interface()); err == nil {
				h.Do("thrift.embdecode", pn, "0", tU.String(), hx(b))
			}
		}
	}
	for _, rt := range embShapes {
		t := tyOfReflect(rt)
		ts := t.String()
		for i := 0; i < n; i++ {
			v := h.genVal(t, 0)
			for _, pn := range thriftProtos {
				if !hasMultiMap(t, v) { // the bytes of a map with several entries depend on Go's iteration order
					h.Do("thrift.embmarshal", pn, ts, showVal(t, v, false))
				}
				b, err := thrift.Marshal(thriftProto(pn), v.Interface())
				if err != nil {
					continue
				}
				if h.Intn(3) == 0 && len(b) > 1 { // a damaged input now and then
					b = append([]byte(nil), b...)
					b[h.Intn(len(b))] ^= byte(1 << h.Intn(8))
				}
				strict := "0"
				if h.Intn(2) == 0 {
					strict = "1"
				}
				h.Do("thrift.embdecode", pn, strict, ts, hx(b))
			}
		}
	}
}
