package main

import (
	"bytes"
	"crypto/sha256"
	"encoding/hex"
	stdjson "encoding/json"
	"fmt"
	"os"
	"os/exec"
	"path/filepath"
	"reflect"
	"runtime"
	"strconv"
	"strings"
	"sync"
	"sync/atomic"
	"time"

	"github.com/segmentio/encoding/json"
	"github.com/segmentio/encoding/proto"
	"github.com/segmentio/encoding/thrift"
)

// C09 — safe and deterministic under concurrent first use.
//
// (1) conc.sched / conc.cache: deterministic interleavings of the copy-on-write codec caches, driven through the `verif`
//     yield hooks: thread i runs up to the point just before it publishes its new cache (event L<i>) and is released later
//     (event S<i>). Results must equal the sequential ones; the set of types left in the cache must be what the Lean
//     model of the protocol predicts for that schedule (lost updates included).
// (2) conc.stress: a child process built with the race detector hammers first use of many never-seen types from many
//     goroutines at a given GOMAXPROCS and prints a digest of every result; a second child does the same calls one by one.

var freshCounter uint64

// freshType returns a struct type no call in this process has seen before. Field names are drawn from the counter;
// the field set exercises nested structs, pointers, slices and maps so that codec construction is not trivial.
func freshType(kind string) reflect.Type {
	n := atomic.AddUint64(&freshCounter, 1)
	name := func(s string) string { return fmt.Sprintf("%s%d", s, n) }
	inner := reflect.StructOf([]reflect.StructField{
		{Name: name("X"), Type: reflect.TypeOf(int64(0)), Tag: reflect.StructTag(fmt.Sprintf(`json:"x%d" protobuf:"varint,1,opt" thrift:"1"`, n))},
		{Name: name("Y"), Type: reflect.TypeOf(""), Tag: `protobuf:"bytes,2,opt" thrift:"2"`},
	})
	fields := []reflect.StructField{
		{Name: name("A"), Type: reflect.TypeOf(int32(0)), Tag: `protobuf:"varint,1,opt" thrift:"1"`},
		{Name: name("B"), Type: reflect.TypeOf(""), Tag: `protobuf:"bytes,2,opt" thrift:"2"`},
		{Name: name("C"), Type: inner, Tag: `protobuf:"bytes,3,opt" thrift:"3"`},
		{Name: name("D"), Type: reflect.PointerTo(inner), Tag: `protobuf:"bytes,4,opt" thrift:"4"`},
		{Name: name("E"), Type: reflect.SliceOf(reflect.TypeOf(int64(0))), Tag: `protobuf:"varint,5,rep" thrift:"5"`},
	}
	if kind == "json" {
		fields = append(fields, reflect.StructField{Name: name("M"), Type: reflect.TypeOf(map[string]int(nil))},
			reflect.StructField{Name: name("I"), Type: reflect.TypeOf((*any)(nil)).Elem()})
	}
	// collections whose codecs use pooled or per-type scratch state (map-entry scratch structs, key sort buffers, set
	// decoding): maps with message values, a set, a list of messages
	fields = append(fields,
		reflect.StructField{Name: name("MS"), Type: reflect.MapOf(reflect.TypeOf(""), inner), Tag: `protobuf:"bytes,8,rep" thrift:"8"`},
		reflect.StructField{Name: name("MI"), Type: reflect.MapOf(reflect.TypeOf(int32(0)), reflect.TypeOf("")), Tag: `protobuf:"bytes,9,rep" thrift:"9"`},
		reflect.StructField{Name: name("LS"), Type: reflect.SliceOf(inner), Tag: `protobuf:"bytes,11,rep" thrift:"11"`},
		reflect.StructField{Name: name("F"), Type: reflect.TypeOf(false), Tag: `protobuf:"varint,12,opt" thrift:"12"`})
	if kind != "proto" {
		fields = append(fields, reflect.StructField{Name: name("SET"), Type: reflect.MapOf(reflect.TypeOf(""), reflect.TypeOf(struct{}{})), Tag: `thrift:"10"`})
	}
	return reflect.StructOf(fields)
}

func fillValue(t reflect.Type, seed int) reflect.Value {
	v := reflect.New(t).Elem()
	v.Field(0).SetInt(int64(seed%1000 + 1))
	v.Field(1).SetString(fmt.Sprintf("s%d", seed))
	v.Field(2).Field(0).SetInt(int64(seed + 7))
	v.Field(2).Field(1).SetString("in")
	in := reflect.New(t.Field(3).Type.Elem())
	in.Elem().Field(0).SetInt(int64(seed * 3))
	v.Field(3).Set(in)
	v.Field(4).Set(reflect.ValueOf([]int64{1, int64(seed), 3}))
	k := 5
	if t.Field(5).Type.Kind() == reflect.Map && t.Field(5).Type.Elem().Kind() == reflect.Int {
		v.Field(5).Set(reflect.ValueOf(map[string]int{"k": seed}))
		v.Field(6).Set(reflect.ValueOf([]any{"x", float64(seed)}))
		k = 7
	}
	mk := func(x int, y string) reflect.Value {
		e := reflect.New(t.Field(2).Type).Elem()
		e.Field(0).SetInt(int64(x))
		e.Field(1).SetString(y)
		return e
	}
	ms := reflect.MakeMap(t.Field(k).Type)
	mi := reflect.MakeMap(t.Field(k + 1).Type)
	ls := reflect.MakeSlice(t.Field(k+2).Type, 0, 3)
	var set reflect.Value
	if t.NumField() > k+4 {
		set = reflect.MakeMap(t.Field(k + 4).Type)
	}
	for i := 0; i < 3; i++ {
		key := fmt.Sprintf("k%d-%d", seed, i)
		ms.SetMapIndex(reflect.ValueOf(key), mk(seed*10+i, key))
		mi.SetMapIndex(reflect.ValueOf(int32(seed*4+i)), reflect.ValueOf(key))
		if set.IsValid() {
			set.SetMapIndex(reflect.ValueOf(key), reflect.ValueOf(struct{}{}))
		}
		ls = reflect.Append(ls, mk(i, key))
	}
	v.Field(k).Set(ms)
	v.Field(k + 1).Set(mi)
	v.Field(k + 2).Set(ls)
	v.Field(k + 3).SetBool(seed%2 == 0)
	if set.IsValid() {
		v.Field(k + 4).Set(set)
	}
	return v
}

// call runs one library entry point on value v and returns a canonical rendering of its result.
func concCall(pkg string, v reflect.Value) string {
	switch pkg {
	case "json":
		b, err := json.Marshal(v.Interface())
		if err != nil {
			return "err:" + err.Error()
		}
		out := reflect.New(v.Type())
		if err := json.Unmarshal(b, out.Interface()); err != nil {
			return "uerr:" + err.Error()
		}
		b2, _ := json.Marshal(out.Elem().Interface())
		return string(b) + "|" + string(b2)
	case "proto":
		b, err := proto.Marshal(v.Interface())
		if err != nil {
			return "err:" + err.Error()
		}
		n := proto.Size(v.Interface())
		out := reflect.New(v.Type())
		if err := proto.Unmarshal(b, out.Interface()); err != nil {
			return "uerr:" + err.Error()
		}
		b2, _ := proto.Marshal(out.Elem().Interface())
		// maps are written in iteration order: compare lengths and the decoded value, not the bytes
		rj, _ := stdjson.Marshal(out.Elem().Interface())
		return fmt.Sprintf("%d|%d|%d|%s|%s", len(b), n, len(b2), rj, proto.TypeOf(v.Type()).Name())
	case "thrift", "thriftdec":
		b, err := thrift.Marshal(new(thrift.CompactProtocol), v.Interface())
		if err != nil {
			return "err:" + err.Error()
		}
		out := reflect.New(v.Type())
		if err := thrift.Unmarshal(new(thrift.CompactProtocol), b, out.Interface()); err != nil {
			return "uerr:" + err.Error()
		}
		b2, _ := thrift.Marshal(new(thrift.BinaryProtocol), out.Elem().Interface())
		rj, _ := stdjson.Marshal(out.Elem().Interface())
		return fmt.Sprintf("%d|%d|%s", len(b), len(b2), rj)
	}
	return "?"
}

func goid() string {
	var buf [64]byte
	s := string(buf[:runtime.Stack(buf[:], false)])
	return strings.Fields(strings.TrimPrefix(s, "goroutine "))[0]
}

// schedRun executes the schedule and returns (per-thread results ok?, final cache membership per type).
func schedRun(pkg string, nTypes int, threads []int, sched []string) (string, string) {
	types := make([]reflect.Type, nTypes)
	for i := range types {
		types[i] = freshType(pkg)
	}
	storePoint := "store"
	cached := func(t reflect.Type) bool { return false }
	var gates sync.Map // goid -> chan struct{} (release), and arrival notification
	arrived := make(chan string, 64)
	hook := func(point string, t reflect.Type) {
		if point != storePoint {
			return
		}
		g, ok := gates.Load(goid())
		if !ok {
			return
		}
		arrived <- "blocked"
		<-g.(chan struct{})
	}
	switch pkg {
	case "json":
		json.VerifYield = hook
		defer func() { json.VerifYield = nil }()
		cached = json.VerifCached
	case "proto":
		proto.VerifYield = hook
		defer func() { proto.VerifYield = nil }()
		cached = proto.VerifCached
	case "thrift":
		thrift.VerifYield = hook
		defer func() { thrift.VerifYield = nil }()
		cached = func(t reflect.Type) bool { return thrift.VerifCached(t, false) }
	case "thriftdec":
		storePoint = "dstore"
		thrift.VerifYield = hook
		defer func() { thrift.VerifYield = nil }()
		cached = func(t reflect.Type) bool { return thrift.VerifCached(t, true) }
	}
	results := make([]string, len(threads))
	doneCh := make([]chan struct{}, len(threads))
	release := make([]chan struct{}, len(threads))
	started := make([]bool, len(threads))
	finished := make([]bool, len(threads))
	// for thrift the encoder and the decoder cache are distinct: a thread blocks at most once at the chosen store point
	for _, ev := range sched {
		i := atoi(ev[1:])
		if i >= len(threads) {
			continue
		}
		switch ev[0] {
		case 'L':
			if started[i] {
				continue
			}
			started[i] = true
			doneCh[i] = make(chan struct{})
			release[i] = make(chan struct{})
			ready := make(chan struct{})
			go func(i int) {
				gates.Store(goid(), release[i])
				close(ready)
				results[i] = concCall(pkg, fillValue(types[threads[i]], i))
				gates.Delete(goid())
				arrived <- "done"
				close(doneCh[i])
			}(i)
			<-ready
			if <-arrived == "done" {
				finished[i] = true
			}
		case 'S':
			if !started[i] || finished[i] {
				continue
			}
			close(release[i])
			// the goroutine may block again only at another store point of the same kind (a second first-use inside the
			// call, e.g. Unmarshal after Marshal in json shares the cache: already stored) — drain until done
			for <-arrived != "done" { // later store points of the same call pass straight through the closed gate
			}
			finished[i] = true
		}
	}
	// let every started thread finish
	for i := range threads {
		if started[i] && !finished[i] {
			close(release[i])
			for <-arrived != "done" {
			}
			finished[i] = true
		}
	}
	var mem strings.Builder
	for _, t := range types {
		mem.WriteString(b01(cached(t)))
	}
	var res strings.Builder
	for i := range threads {
		if !started[i] {
			res.WriteString("-")
			continue
		}
		want := concCall(pkg, fillValue(types[threads[i]], i)) // sequentially, afterwards
		res.WriteString(b01(results[i] == want && !strings.Contains(want, "err:")))
	}
	return res.String(), mem.String()
}

func parseInts(s string) []int {
	var out []int
	for _, p := range strings.Split(s, ",") {
		if p != "" {
			out = append(out, atoi(p))
		}
	}
	return out
}

func init() {
	registry["C09"] = runC09
	// conc.sched <pkg> <nTypes> <threads> <schedule>: every call returns what it returns alone
	ops["conc.sched"] = func(a []string) (string, string, string) {
		res, _ := schedRun(a[0], atoi(a[1]), parseInts(a[2]), strings.Split(a[3], ","))
		want := strings.Map(func(r rune) rune {
			if r == '0' {
				return '1'
			}
			return r
		}, res)
		return res, want, ""
	}
	// conc.cache <pkg> <nTypes> <threads> <schedule>: which types the published cache holds afterwards (Lean model predicts)
	ops["conc.cache"] = func(a []string) (string, string, string) {
		_, mem := schedRun(a[0], atoi(a[1]), parseInts(a[2]), strings.Split(a[3], ","))
		return mem, "-", ""
	}
	// conc.stress <seed> <procs> <goroutines> <types>: race-detector child, concurrent vs sequential digests
	ops["conc.stress"] = func(a []string) (string, string, string) {
		exe, _ := os.Executable()
		race := filepath.Join(filepath.Dir(exe), "vh-race")
		if _, err := os.Stat(race); err != nil {
			return "no-race-binary", "ok", ""
		}
		run := func(mode string) (string, string) {
			cmd := exec.Command(race, "concchild", a[0], a[2], a[3], mode)
			cmd.Env = append(os.Environ(), "GOMAXPROCS="+a[1], "GORACE=halt_on_error=1 exitcode=66")
			var out, errb bytes.Buffer
			cmd.Stdout, cmd.Stderr = &out, &errb
			done := make(chan error, 1)
			cmd.Start()
			go func() { done <- cmd.Wait() }()
			select {
			case err := <-done:
				if err != nil {
					if strings.Contains(errb.String(), "DATA RACE") {
						return "", "race:" + firstRaceFrame(errb.String())
					}
					return "", "child-failed:" + strings.TrimSpace(lastLine(errb.String()))
				}
			case <-time.After(120 * time.Second):
				cmd.Process.Kill()
				return "", "child-timeout"
			}
			return strings.TrimSpace(out.String()), ""
		}
		conc, e1 := run("conc")
		if e1 != "" {
			return e1, "ok", ""
		}
		seq, e2 := run("seq")
		if e2 != "" {
			return "seq-" + e2, "ok", ""
		}
		if conc != seq {
			return "results-differ-from-sequential", "ok", ""
		}
		return "ok", "ok", ""
	}
}

func lastLine(s string) string {
	l := strings.Split(strings.TrimSpace(s), "\n")
	return l[len(l)-1]
}

func firstRaceFrame(s string) string {
	for _, l := range strings.Split(s, "\n") {
		l = strings.TrimSpace(l)
		if strings.HasPrefix(l, "github.com/segmentio/encoding") {
			return strings.Fields(l)[0]
		}
	}
	return "?"
}

type concRS []concRS
type concRS1 []concRS1
type concRS2 []concRS2
type concRM1 map[string]concRM1
type concRM2 map[string]concRM2
type concRA1 [1]*concRA1
type concRQ1 []*concRQ1
type concRN1 struct {
	Name string  `json:"name"`
	Kids concRK1 `json:"kids"`
}
type concRK1 []concRN1
type concRP1 *concRP1
type concRM map[string]concRM
type concRA [1]*concRA

// slowWriter copies what it is given, yields the processor a few times (other goroutines Marshal meanwhile and may be
// handed the same pooled buffer if it was released too early), and then checks that the bytes did not change.
type slowWriter struct {
	got     []byte
	changed bool
}

func (w *slowWriter) Write(p []byte) (int, error) {
	snap := append([]byte{}, p...)
	for i := 0; i < 4; i++ {
		runtime.Gosched()
		json.Marshal(map[string]string{"k": "vvvvvvvvvvvvvvvvvvvvvvvvvvvvvvvvvvvvvvvvvvvvvvvvvvvvvvvvvvvvvvvvvvvvvvvvvv"})
	}
	if !bytes.Equal(p, snap) {
		w.changed = true
	}
	w.got = append(w.got, snap...)
	return len(p), nil
}

func (w *slowWriter) verdict() string {
	if w.changed {
		return "encoder-bytes-changed-during-write"
	}
	return string(w.got)
}

// concChild: vh-race concchild <seed> <goroutines> <types> <conc|seq>
func concChild(args []string) {
	seed, _ := strconv.ParseUint(args[0], 10, 64)
	G, T := atoi(args[1]), atoi(args[2])
	mode := args[3]
	h := &H{rng: seed, Stats: map[string]int64{}}
	type job struct {
		pkg  string
		ti   int
		seed int
	}
	pkgs := []string{"json", "proto", "thrift"}
	types := map[string][]reflect.Type{}
	for _, p := range pkgs {
		for i := 0; i < T; i++ {
			types[p] = append(types[p], freshType(p))
		}
	}
	// a recursive type shared by everybody (the per-construction `seen` map must not leak half-built codecs)
	type rec struct {
		V    int64  `protobuf:"varint,1,opt" thrift:"1"`
		Next *rec   `protobuf:"bytes,2,opt" thrift:"2"`
		Kids []*rec `protobuf:"bytes,3,rep" thrift:"3"`
	}
	recVal := &rec{V: 1, Next: &rec{V: 2}, Kids: []*rec{{V: 3}, {V: 4, Next: &rec{V: 5}}}}
	// named slice / map / array types defined in terms of themselves: their inner codec is completed lazily, on first
	// use of a nested value — warm the cache with empty values first, so that the FIRST nested use happens concurrently
	json.Marshal(concRS{})
	json.Marshal(concRM{})
	json.Marshal(concRA{})
	var tmpRS concRS
	json.Unmarshal([]byte(`[]`), &tmpRS)
	rsVal := concRS{concRS{}, concRS{concRS{concRS{}}}, nil}
	rmVal := concRM{"a": concRM{"b": nil}, "c": concRM{}}
	var ra0 concRA
	raVal := concRA{&ra0}
	// phase 0: simultaneous FIRST nested use of self-referential named types whose top-level codec is already cached
	// (their inner codec is completed lazily). One barrier per type: all goroutines enter Marshal / Unmarshal together.
	recCases := []struct {
		warm func()
		use  func() string
	}{
		{func() { json.Marshal(concRS1{}) }, func() string { b, _ := json.Marshal(concRS1{concRS1{}, concRS1{concRS1{}}}); return string(b) }},
		{func() { json.Marshal(concRS2{}) }, func() string {
			var v concRS2
			json.Unmarshal([]byte(`[[],[[]]]`), &v)
			b, _ := json.Marshal(v)
			return string(b)
		}},
		{func() { json.Marshal(concRM1{}) }, func() string { b, _ := json.Marshal(concRM1{"a": concRM1{"b": nil}}); return string(b) }},
		{func() { json.Marshal(concRM2{}) }, func() string {
			var v concRM2
			json.Unmarshal([]byte(`{"a":{"b":{}}}`), &v)
			b, _ := json.Marshal(v)
			return string(b)
		}},
		{func() { json.Marshal(concRA1{}) }, func() string { var z concRA1; b, _ := json.Marshal(concRA1{&z}); return string(b) }},
		{func() { json.Marshal(concRQ1{}) }, func() string { b, _ := json.Marshal(concRQ1{&concRQ1{}, nil}); return string(b) }},
		{func() { json.Marshal(concRK1{}) }, func() string {
			b, _ := json.Marshal(concRK1{{Name: "a", Kids: concRK1{{Name: "b"}}}})
			return string(b)
		}},
		{func() { json.Marshal(concRP1(nil)) }, func() string {
			var p0 concRP1
			p1 := concRP1(&p0)
			b, _ := json.Marshal(concRP1(&p1))
			return string(b)
		}},
	}
	var phase0 []string
	for _, rc := range recCases {
		rc.warm()
		outs := make([]string, G)
		if mode == "conc" {
			var ready, done sync.WaitGroup
			gate := make(chan struct{})
			for g := 0; g < G; g++ {
				ready.Add(1)
				done.Add(1)
				go func(g int) {
					defer done.Done()
					ready.Done()
					<-gate
					outs[g] = rc.use()
				}(g)
			}
			ready.Wait()
			close(gate)
			done.Wait()
		} else {
			for g := 0; g < G; g++ {
				outs[g] = rc.use()
			}
		}
		phase0 = append(phase0, outs...)
	}
	jobs := make([][]job, G)
	for g := range jobs {
		for k := 0; k < 40; k++ {
			jobs[g] = append(jobs[g], job{pkgs[h.Intn(3)], h.Intn(T), h.Intn(1000)})
		}
	}
	results := make([][]string, G)
	work := func(g int) {
		for k, j := range jobs[g] {
			r := concCall(j.pkg, fillValue(types[j.pkg][j.ti], j.seed))
			if k%5 == 0 {
				x, _ := json.Marshal(rsVal)
				y, _ := json.Marshal(rmVal)
				z, _ := json.Marshal(raVal)
				var d concRS
				json.Unmarshal(x, &d)
				x2, _ := json.Marshal(d)
				// an Encoder whose writer is slow: what it is handed must not change while it is being written
				sw := &slowWriter{}
				json.NewEncoder(sw).Encode(map[string]any{"owner": g, "data": strings.Repeat(string(rune('a'+g%26)), 200+k)})
				if sw.changed {
					fmt.Fprintln(os.Stderr, "encoder-bytes-changed-during-write (the pooled encode buffer was visible to two callers)")
					os.Exit(3)
				}
				r += fmt.Sprintf("|%s|%s|%s|%s|%s", x, y, z, x2, sw.verdict())
			}
			if k%8 == 0 {
				b, _ := json.Marshal(recVal)
				pb, _ := proto.Marshal(recVal)
				tb, _ := thrift.Marshal(new(thrift.CompactProtocol), recVal)
				tk := json.NewTokenizer(b)
				n := 0
				for tk.Next() {
					n++
				}
				m, _ := json.Marshal(map[string]any{"z": 1, "a": []any{map[string]any{"q": g, "b": k}}, "m": map[string]string{"x": "y", "k": "v"}})
				r += fmt.Sprintf("|%s|%x|%x|%d|%s", b, pb, tb, n, m)
			}
			results[g] = append(results[g], r)
		}
	}
	if mode == "conc" {
		var wg sync.WaitGroup
		start := make(chan struct{})
		for g := 0; g < G; g++ {
			wg.Add(1)
			go func(g int) { defer wg.Done(); <-start; work(g) }(g)
		}
		close(start)
		wg.Wait()
	} else {
		for g := 0; g < G; g++ {
			work(g)
		}
	}
	hsh := sha256.New()
	for _, r := range phase0 {
		hsh.Write([]byte(r))
		hsh.Write([]byte{1})
	}
	for g := range results {
		for _, r := range results[g] {
			hsh.Write([]byte(r))
			hsh.Write([]byte{0})
		}
	}
	fmt.Println(hex.EncodeToString(hsh.Sum(nil)))
}

func genSchedule(h *H, n int) string {
	// a random interleaving of L_i before S_i for each thread
	var evs []string
	pendingL := make([]int, n)
	for i := range pendingL {
		pendingL[i] = i
	}
	var pendingS []int
	for len(pendingL)+len(pendingS) > 0 {
		if len(pendingL) > 0 && (len(pendingS) == 0 || h.Bool()) {
			k := h.Intn(len(pendingL))
			i := pendingL[k]
			pendingL = append(pendingL[:k], pendingL[k+1:]...)
			evs = append(evs, "L"+strconv.Itoa(i))
			pendingS = append(pendingS, i)
		} else {
			k := h.Intn(len(pendingS))
			i := pendingS[k]
			pendingS = append(pendingS[:k], pendingS[k+1:]...)
			evs = append(evs, "S"+strconv.Itoa(i))
		}
	}
	return strings.Join(evs, ",")
}

func runC09(h *H) {
	pkgs := []string{"json", "proto", "thrift", "thriftdec"}
	// the canonical lost-update and same-type schedules
	fixed := [][3]string{
		{"2", "0,1", "L0,L1,S1,S0"}, {"2", "0,1", "L0,L1,S0,S1"}, {"2", "0,1", "L0,S0,L1,S1"}, {"1", "0,0", "L0,L1,S0,S1"},
		{"1", "0,0,0", "L0,L1,S1,L2,S0"}, {"3", "0,1,2", "L0,L1,L2,S2,S1,S0"}, {"3", "0,1,2,0", "L0,L1,S1,L2,S0,L3,S2,S3"},
	}
	for _, p := range pkgs {
		for _, f := range fixed {
			h.DoRisky("conc.sched", p, f[0], f[1], f[2])
			h.DoRisky("conc.cache", p, f[0], f[1], f[2])
		}
	}
	N := 60
	if h.Thorough() {
		N = 1500
	}
	for i := 0; i < N; i++ {
		nT := 1 + h.Intn(4)
		nTh := 1 + h.Intn(6)
		th := make([]string, nTh)
		for j := range th {
			th[j] = strconv.Itoa(h.Intn(nT))
		}
		s := genSchedule(h, nTh)
		p := pkgs[h.Intn(len(pkgs))]
		h.DoRisky("conc.sched", p, strconv.Itoa(nT), strings.Join(th, ","), s)
		h.DoRisky("conc.cache", p, strconv.Itoa(nT), strings.Join(th, ","), s)
	}
	// pooled tokenizer stacks: histories that return a stack to the pool twice make two live tokenizers share it
	for i := 0; i < 20; i++ {
		h.DoRisky("json.tokpair", hx([]byte([]string{`{"a":[[1,2,`, `[[[`, `[1,2}`}[i%3])), hx(h.genJSONNested()), hx(h.genJSONNested()))
	}
	S := 6
	if h.Thorough() {
		S = 80
	}
	procs := []string{"16", "4", "2", "1"}
	for i := 0; i < S; i++ {
		h.DoRisky("conc.stress", strconv.FormatUint(h.U64(), 10), procs[i%len(procs)], strconv.Itoa(4+h.Intn(28)), strconv.Itoa(2+h.Intn(12)))
	}
	runC09Hist(h)           // c09hist.go: history independence of codec construction
	runC09HistErr(h, "C09") // c09histerr.go: histories with failing calls, damaged and sparse inputs, reused objects
}
