package main

import (
	"fmt"
	"strconv"
	"unsafe"

	"github.com/segmentio/encoding/ascii"
)

// byte-wise definitions (oracle for C20)
func defValid(b []byte) bool {
	for _, c := range b {
		if c >= 0x80 {
			return false
		}
	}
	return true
}
func defValidPrint(b []byte) bool {
	for _, c := range b {
		if c < 0x20 || c > 0x7e {
			return false
		}
	}
	return true
}
func defLower(c byte) byte {
	if c >= 'A' && c <= 'Z' {
		return c + 0x20
	}
	return c
}
func defEqualFold(a, b []byte) bool {
	if len(a) != len(b) {
		return false
	}
	for i := range a {
		if defLower(a[i]) != defLower(b[i]) {
			return false
		}
	}
	return true
}
func defHasPrefixFold(s, p []byte) bool { return len(s) >= len(p) && defEqualFold(s[:len(p)], p) }
func defHasSuffixFold(s, p []byte) bool {
	return len(s) >= len(p) && defEqualFold(s[len(s)-len(p):], p)
}

func init() {
	registry["C20"] = runC20
	both := func(x, y bool) string {
		if x == y {
			return b01(x)
		}
		return b01(x) + b01(y)
	}
	ops["ascii.valid"] = func(a []string) (string, string, string) {
		s := unhx(a[0])
		return both(ascii.Valid(s), ascii.ValidString(string(s))), b01(defValid(s)), ""
	}
	ops["ascii.validprint"] = func(a []string) (string, string, string) {
		s := unhx(a[0])
		return both(ascii.ValidPrint(s), ascii.ValidPrintString(string(s))), b01(defValidPrint(s)), ""
	}
	ops["ascii.equalfold"] = func(a []string) (string, string, string) {
		s, t := unhx(a[0]), unhx(a[1])
		return both(ascii.EqualFold(s, t), ascii.EqualFoldString(string(s), string(t))), b01(defEqualFold(s, t)), ""
	}
	ops["ascii.hasprefixfold"] = func(a []string) (string, string, string) {
		s, t := unhx(a[0]), unhx(a[1])
		return both(ascii.HasPrefixFold(s, t), ascii.HasPrefixFoldString(string(s), string(t))), b01(defHasPrefixFold(s, t)), ""
	}
	ops["ascii.hassuffixfold"] = func(a []string) (string, string, string) {
		s, t := unhx(a[0]), unhx(a[1])
		return both(ascii.HasSuffixFold(s, t), ascii.HasSuffixFoldString(string(s), string(t))), b01(defHasSuffixFold(s, t)), ""
	}
	// ascii.reuse <len> <seed>: the predicates are functions of the CONTENT: one buffer is checked, overwritten in place
	// (one byte made offending / foldable / restored, several rounds), and checked again — as bytes and as an unsafe
	// string view of the same memory; every answer must equal the byte-wise definition on the content at that moment
	ops["ascii.reuse"] = func(a []string) (string, string, string) {
		n, _ := strconv.Atoi(a[0])
		seed, _ := strconv.ParseUint(a[1], 10, 64)
		rnd := func() uint64 {
			seed += 0x9e3779b97f4a7c15
			z := seed
			z = (z ^ (z >> 30)) * 0xbf58476d1ce4e5b9
			z = (z ^ (z >> 27)) * 0x94d049bb133111eb
			return z ^ (z >> 31)
		}
		buf := make([]byte, n)
		other := make([]byte, n)
		for i := range buf {
			buf[i] = "abcXYZ09_ ~"[rnd()%11]
			other[i] = buf[i]
		}
		view := func(b []byte) string {
			if len(b) == 0 {
				return ""
			}
			return unsafe.String(unsafe.SliceData(b), len(b))
		}
		check := func(round int) string {
			if r, d := ascii.Valid(buf), defValid(buf); r != d {
				return fmt.Sprintf("valid-bytes round=%d got=%v", round, r)
			}
			if r, d := ascii.ValidString(view(buf)), defValid(buf); r != d {
				return fmt.Sprintf("valid-string round=%d got=%v", round, r)
			}
			if r, d := ascii.ValidPrint(buf), defValidPrint(buf); r != d {
				return fmt.Sprintf("validprint-bytes round=%d got=%v", round, r)
			}
			if r, d := ascii.ValidPrintString(view(buf)), defValidPrint(buf); r != d {
				return fmt.Sprintf("validprint-string round=%d got=%v", round, r)
			}
			if r, d := ascii.EqualFold(buf, other), defEqualFold(buf, other); r != d {
				return fmt.Sprintf("equalfold-bytes round=%d got=%v", round, r)
			}
			if r, d := ascii.EqualFoldString(view(buf), view(other)), defEqualFold(buf, other); r != d {
				return fmt.Sprintf("equalfold-string round=%d got=%v", round, r)
			}
			if r, d := ascii.HasPrefixFold(buf, other[:n/2]), defHasPrefixFold(buf, other[:n/2]); r != d {
				return fmt.Sprintf("hasprefixfold round=%d got=%v", round, r)
			}
			if r, d := ascii.HasSuffixFold(buf, other[n/2:]), defHasSuffixFold(buf, other[n/2:]); r != d {
				return fmt.Sprintf("hassuffixfold round=%d got=%v", round, r)
			}
			return ""
		}
		if v := check(0); v != "" {
			return v, "ok", ""
		}
		if n == 0 {
			return "ok", "ok", ""
		}
		bad := []byte{0x80, 0xff, 0x00, 0x1f, 0x7f, '@', '[', '`', '{', 'A', 'a', 'Z', 'z'}
		for round := 1; round <= 8; round++ {
			i := int(rnd() % uint64(n))
			old := buf[i]
			buf[i] = bad[rnd()%uint64(len(bad))]
			if v := check(round); v != "" {
				return v, "ok", ""
			}
			if round%2 == 0 {
				buf[i] = old // restored: the answer must come back too
				if v := check(round); v != "" {
					return v + " (restored)", "ok", ""
				}
			}
		}
		return "ok", "ok", ""
	}
	// ascii.foldalias <hex buffer> <i> <j> <a> <b>: both operands are views of ONE buffer (s = buf[i:j], t = buf[a:b]), as bytes
	// and as substrings of one string: identity or address shortcuts must not change any answer
	ops["ascii.foldalias"] = func(a []string) (string, string, string) {
		buf := unhx(a[0])
		i, j, x, y := atoi(a[1]), atoi(a[2]), atoi(a[3]), atoi(a[4])
		s, t := buf[i:j], buf[x:y]
		str := string(buf)
		ss, ts := str[i:j], str[x:y]
		impl := both(ascii.EqualFold(s, t), ascii.EqualFoldString(ss, ts)) + both(ascii.HasPrefixFold(s, t), ascii.HasPrefixFoldString(ss, ts)) +
			both(ascii.HasSuffixFold(s, t), ascii.HasSuffixFoldString(ss, ts))
		sc, tc := append([]byte{}, s...), append([]byte{}, t...)
		want := both(defEqualFold(sc, tc), defEqualFold(sc, tc)) + both(defHasPrefixFold(sc, tc), defHasPrefixFold(sc, tc)) +
			both(defHasSuffixFold(sc, tc), defHasSuffixFold(sc, tc))
		return impl, want, ""
	}
	ops["ascii.validbyte"] = func(a []string) (string, string, string) {
		c := byte(atoi(a[0]))
		return b01(ascii.ValidByte(c)), b01(c < 0x80), ""
	}
	ops["ascii.validprintbyte"] = func(a []string) (string, string, string) {
		c := byte(atoi(a[0]))
		return b01(ascii.ValidPrintByte(c)), b01(c >= 0x20 && c <= 0x7e), ""
	}
	ops["ascii.validrune"] = func(a []string) (string, string, string) {
		r := rune(atoi(a[0]))
		return b01(ascii.ValidRune(r)), b01(r >= 0 && r < 0x80), ""
	}
	ops["ascii.validprintrune"] = func(a []string) (string, string, string) {
		r := rune(atoi(a[0]))
		return b01(ascii.ValidPrintRune(r)), b01(r >= 0x20 && r <= 0x7e), ""
	}
}

func runC20(h *H) {
	runC20Asm(h) // the assembly kernels against the Lean model of the assembly (c20asm.go)
	// one buffer checked, overwritten in place and checked again (lengths around every block size)
	for _, n := range []int{0, 1, 3, 7, 8, 9, 15, 16, 17, 31, 32, 33, 47, 63, 64, 65, 72, 100, 127, 128, 129, 200, 255, 256, 257, 1000, 4096} {
		reps := 6
		if h.Thorough() {
			reps = 60
		}
		for k := 0; k < reps; k++ {
			h.Do("ascii.reuse", strconv.Itoa(n), strconv.FormatUint(h.U64(), 10))
		}
	}
	// aliased operands: views of one buffer made of a short pattern repeated with case flips (so that overlapping views
	// are sometimes equal under folding and sometimes not)
	NA := 1500
	if h.Thorough() {
		NA = 30000
	}
	for n := 0; n < NA; n++ {
		pat := make([]byte, 1+h.Intn(5))
		for k := range pat {
			pat[k] = "abcXYZ09_@`{"[h.Intn(12)]
		}
		L := 1 + h.Intn(40)
		buf := make([]byte, L)
		for k := range buf {
			c := pat[k%len(pat)]
			if h.Intn(3) == 0 && c >= 'a' && c <= 'z' {
				c -= 32
			} else if h.Intn(3) == 0 && c >= 'A' && c <= 'Z' {
				c += 32
			}
			if h.Intn(25) == 0 {
				c = byte(h.U64())
			}
			buf[k] = c
		}
		i := h.Intn(L + 1)
		j := i + h.Intn(L-i+1)
		var x, y int
		switch h.Intn(5) {
		case 0: // t is a prefix view of s
			x, y = i, i+h.Intn(j-i+1)
		case 1: // t is a suffix view of s
			y = j
			x = i + h.Intn(j-i+1)
		case 2: // same start, possibly longer
			x = i
			y = x + h.Intn(L-x+1)
		default:
			x = h.Intn(L + 1)
			y = x + h.Intn(L-x+1)
		}
		h.Do("ascii.foldalias", hx(buf), strconv.Itoa(i), strconv.Itoa(j), strconv.Itoa(x), strconv.Itoa(y))
	}
	L := 72
	if h.Thorough() {
		L = 200
	}
	// Exhaustive sweep: every length 0..L, every alignment 0..15 of the first byte inside a larger backing array,
	// every position of one deviating byte, a set of deviating values (all 256 for short lengths).
	backing := make([]byte, L+64)
	backing2 := make([]byte, L+64)
	interesting := []byte{0x00, 0x1f, 0x20, 0x40, 0x41, 0x5a, 0x5b, 0x60, 0x61, 0x7a, 0x7b, 0x7e, 0x7f, 0x80, 0xc1, 0xe1, 0xff}
	var calls int64
	sample := func() bool { return h.U64()%4099 == 0 }
	for n := 0; n <= L; n++ {
		for off := 0; off < 16; off++ {
			if n > 40 && off%5 != 0 && !h.Thorough() {
				continue
			}
			s := backing[off : off+n]
			t := backing2[(off+3)%16 : (off+3)%16+n]
			for i := range s {
				s[i] = byte('A' + (i % 26))
				t[i] = byte('a' + (i % 26))
			}
			for pos := -1; pos < n; pos++ {
				vals := interesting
				if n <= 20 || h.Thorough() && n <= 48 {
					vals = nil
					for v := 0; v < 256; v++ {
						vals = append(vals, byte(v))
					}
				}
				if pos < 0 {
					vals = []byte{0}
				}
				for _, v := range vals {
					var save byte
					if pos >= 0 {
						save = s[pos]
						s[pos] = v
					}
					// the byte and string variants must agree with the definition
					r1, r2 := ascii.Valid(s), ascii.ValidString(string(s))
					d := defValid(s)
					if r1 != d || r2 != d {
						h.Fail("ascii.valid", []string{hx(s)}, b01(r1)+b01(r2), b01(d))
					}
					p1, p2 := ascii.ValidPrint(s), ascii.ValidPrintString(string(s))
					dp := defValidPrint(s)
					if p1 != dp || p2 != dp {
						h.Fail("ascii.validprint", []string{hx(s)}, b01(p1)+b01(p2), b01(dp))
					}
					e1, e2 := ascii.EqualFold(s, t), ascii.EqualFoldString(string(s), string(t))
					de := defEqualFold(s, t)
					if e1 != de || e2 != de {
						h.Fail("ascii.equalfold", []string{hx(s), hx(t)}, b01(e1)+b01(e2), b01(de))
					}
					calls += 6
					if sample() {
						h.Case("ascii.valid", []string{hx(s)}, b01(r1), b01(d))
						h.Case("ascii.validprint", []string{hx(s)}, b01(p1), b01(dp))
						h.Case("ascii.equalfold", []string{hx(s), hx(t)}, b01(e1), b01(de))
					}
					if pos >= 0 {
						s[pos] = save
					}
				}
			}
			// prefix / suffix: every split point, with a flipped-case needle, a deviating needle, longer needle
			if n <= 40 {
				for k := 0; k <= n+1; k++ {
					for variant := 0; variant < 3; variant++ {
						var needleP, needleS []byte
						if k <= n {
							needleP = append([]byte{}, t[:k]...)
							needleS = append([]byte{}, t[n-k:]...)
						} else {
							needleP = append(append([]byte{}, t...), 'x')
							needleS = append([]byte{'x'}, t...)
						}
						if variant == 1 && k > 0 && k <= n {
							needleP[k-1] ^= 0x01
							needleS[0] ^= 0x01
						}
						if variant == 2 && k > 0 && k <= n {
							needleP[0] = '@' // '@' vs '`' differ by 0x20 but are not letters
							needleS[k-1] = '['
						}
						hp1, hp2 := ascii.HasPrefixFold(s, needleP), ascii.HasPrefixFoldString(string(s), string(needleP))
						dhp := defHasPrefixFold(s, needleP)
						if hp1 != dhp || hp2 != dhp {
							h.Fail("ascii.hasprefixfold", []string{hx(s), hx(needleP)}, b01(hp1)+b01(hp2), b01(dhp))
						}
						hs1, hs2 := ascii.HasSuffixFold(s, needleS), ascii.HasSuffixFoldString(string(s), string(needleS))
						dhs := defHasSuffixFold(s, needleS)
						if hs1 != dhs || hs2 != dhs {
							h.Fail("ascii.hassuffixfold", []string{hx(s), hx(needleS)}, b01(hs1)+b01(hs2), b01(dhs))
						}
						calls += 4
						if h.U64()%61 == 0 {
							h.Case("ascii.hasprefixfold", []string{hx(s), hx(needleP)}, b01(hp1), b01(dhp))
							h.Case("ascii.hassuffixfold", []string{hx(s), hx(needleS)}, b01(hs1), b01(dhs))
						}
					}
				}
			}
		}
	}
	// all pairs of bytes at one position (fold-distinctness), two lengths around the 8-byte block
	for _, n := range []int{1, 7, 8, 9, 17} {
		a := make([]byte, n)
		b := make([]byte, n)
		for i := range a {
			a[i], b[i] = 'q', 'Q'
		}
		for _, pos := range []int{0, n - 1} {
			for x := 0; x < 256; x++ {
				for y := 0; y < 256; y++ {
					a[pos], b[pos] = byte(x), byte(y)
					r := ascii.EqualFold(a, b)
					d := defEqualFold(a, b)
					calls++
					if r != d {
						h.Fail("ascii.equalfold", []string{hx(a), hx(b)}, b01(r), b01(d))
					}
					if h.U64()%8191 == 0 {
						h.Case("ascii.equalfold", []string{hx(a), hx(b)}, b01(r), b01(d))
					}
				}
			}
			a[pos], b[pos] = 'q', 'Q'
		}
	}
	// single-byte and rune predicates: all bytes; runes -2..0x110000 sampled + boundaries
	for v := 0; v < 256; v++ {
		c := byte(v)
		h.Case("ascii.validbyte", []string{strconv.Itoa(v)}, b01(ascii.ValidByte(c)), b01(c < 0x80))
		h.Case("ascii.validprintbyte", []string{strconv.Itoa(v)}, b01(ascii.ValidPrintByte(c)), b01(c >= 0x20 && c <= 0x7e))
		calls += 2
	}
	runes := []int32{0, 1, 0x1f, 0x20, 0x7e, 0x7f, 0x80, 0xff, 0x100, 0x7ff, 0xffff, 0x10ffff, 0x7fffffff}
	for i := 0; i < 200; i++ {
		runes = append(runes, int32(h.U64()%0x110000))
	}
	for _, r := range runes {
		h.Case("ascii.validrune", []string{strconv.Itoa(int(r))}, b01(ascii.ValidRune(r)), b01(r >= 0 && r < 0x80))
		h.Case("ascii.validprintrune", []string{strconv.Itoa(int(r))}, b01(ascii.ValidPrintRune(r)), b01(r >= 0x20 && r <= 0x7e))
		calls += 2
	}
	// random strings, random lengths (mostly-valid stream + arbitrary stream)
	N := 20000
	if h.Thorough() {
		N = 400000
	}
	for i := 0; i < N; i++ {
		n := h.Intn(70)
		s := make([]byte, n)
		t := make([]byte, n)
		for j := range s {
			c := byte(0x20 + h.Intn(0x5f))
			s[j] = c
			t[j] = c
			if c >= 'a' && c <= 'z' && h.Bool() {
				t[j] = c - 0x20
			}
		}
		if n > 0 && h.Intn(3) == 0 {
			s[h.Intn(n)] = byte(h.U64())
		}
		if n > 0 && h.Intn(3) == 0 {
			t[h.Intn(n)] = byte(h.U64())
		}
		r, d := ascii.Valid(s), defValid(s)
		p, dp := ascii.ValidPrint(s), defValidPrint(s)
		e, de := ascii.EqualFold(s, t), defEqualFold(s, t)
		calls += 3
		if r != d {
			h.Fail("ascii.valid", []string{hx(s)}, b01(r), b01(d))
		}
		if p != dp {
			h.Fail("ascii.validprint", []string{hx(s)}, b01(p), b01(dp))
		}
		if e != de {
			h.Fail("ascii.equalfold", []string{hx(s), hx(t)}, b01(e), b01(de))
		}
		if i%40 == 0 {
			h.Case("ascii.valid", []string{hx(s)}, b01(r), b01(d))
			h.Case("ascii.validprint", []string{hx(s)}, b01(p), b01(dp))
			h.Case("ascii.equalfold", []string{hx(s), hx(t)}, b01(e), b01(de))
		}
	}
	h.Count("inprocess_calls", calls)
	h.Count("max_len", int64(L))
}
