package main

// Defined ("named") Go types in proto messages: `type NI32 int32`, `type NHash [4]byte`, `type NMsg struct{…}`,
// `type NInts []int32`, `type NMap map[string]int32` … — the codec looks at reflect.Kind only, so they must behave exactly
// like their underlying types (model: `.named n t` is transparent in codecOf / fieldCodecOf; proofs: Enc/Lemmas/ProtoNamed.lean).

import (
	"reflect"

	"github.com/segmentio/encoding/proto"
)

type NI32 int32
type NI64 int64
type NU32 uint32
type NU64 uint64
type NBool bool
type NF32 float32
type NF64 float64
type NStr string
type NBytes []byte
type NHash [4]byte
type NHash9 [9]byte
type NMsg struct {
	A int32
	B string
}
type NInts []int32
type NStrs []string
type NMsgs []NMsg
type NMap map[string]int32
type NPI32 *int32
type NNI32 NI32 // a defined type whose definition names another defined type

// transport form of each defined type: `named <name> <underlying>`
var protoNamedTys = []string{
	"named NI32 i32", "named NI64 i64", "named NU32 u32", "named NU64 u64", "named NBool bool", "named NF32 f32",
	"named NF64 f64", "named NStr str", "named NBytes bytes", "named NHash arr 4 u8", "named NHash9 arr 9 u8",
	"named NMsg st 2 f A - 0 i32 f B - 0 str", "named NInts sl i32", "named NStrs sl str",
	"named NMsgs sl named NMsg st 2 f A - 0 i32 f B - 0 str", "named NMap map str i32", "named NPI32 ptr i32",
	"named NNI32 named NI32 i32",
}

func init() {
	namedTypes["NI32"] = reflect.TypeOf(NI32(0))
	namedTypes["NI64"] = reflect.TypeOf(NI64(0))
	namedTypes["NU32"] = reflect.TypeOf(NU32(0))
	namedTypes["NU64"] = reflect.TypeOf(NU64(0))
	namedTypes["NBool"] = reflect.TypeOf(NBool(false))
	namedTypes["NF32"] = reflect.TypeOf(NF32(0))
	namedTypes["NF64"] = reflect.TypeOf(NF64(0))
	namedTypes["NStr"] = reflect.TypeOf(NStr(""))
	namedTypes["NBytes"] = reflect.TypeOf(NBytes(nil))
	namedTypes["NHash"] = reflect.TypeOf(NHash{})
	namedTypes["NHash9"] = reflect.TypeOf(NHash9{})
	namedTypes["NMsg"] = reflect.TypeOf(NMsg{})
	namedTypes["NInts"] = reflect.TypeOf(NInts(nil))
	namedTypes["NStrs"] = reflect.TypeOf(NStrs(nil))
	namedTypes["NMsgs"] = reflect.TypeOf(NMsgs(nil))
	namedTypes["NMap"] = reflect.TypeOf(NMap(nil))
	namedTypes["NPI32"] = reflect.TypeOf(NPI32(nil))
	namedTypes["NNI32"] = reflect.TypeOf(NNI32(0))
}

// genProtoNamedStruct: a message whose fields are defined types, directly, behind a pointer, as elements of a repeated
// field or as map values, mixed with ordinary fields.
func (h *H) genProtoNamedStruct(tags bool) *Ty {
	n := 1 + h.Intn(6)
	t := &Ty{K: "st"}
	used := map[int]bool{}
	for i := 0; i < n; i++ {
		var ft *Ty
		nt := parseTy(protoNamedTys[h.Intn(len(protoNamedTys))])
		u := unnamed(nt)
		scalarLike := u.K != "sl" && u.K != "map" && u.K != "ptr" && u.K != "bytes"
		switch r := h.Intn(10); {
		case r < 5:
			ft = nt
		case r < 6 && scalarLike:
			ft = &Ty{K: "ptr", Elem: nt}
		case r < 8 && scalarLike:
			ft = &Ty{K: "sl", Elem: nt}
		case r < 9 && u.K != "sl" && u.K != "map":
			ft = &Ty{K: "map", Key: &Ty{K: []string{"str", "i32", "u64", "bool"}[h.Intn(4)]}, Elem: nt}
		default:
			ft = h.genProtoScalar()
		}
		f := Field{Name: "F" + string(rune('0'+i)), T: ft}
		t.Fields = append(t.Fields, f)
	}
	if tags {
		for i := range t.Fields {
			t.Fields[i].Tag = h.genProtoTag(t.Fields[i].T, used, i+1)
		}
	}
	return t
}

func (h *H) genProtoNamedCase() (*Ty, string) {
	for {
		t := h.genProtoNamedStruct(h.Intn(3) == 0)
		v := h.genVal(t, 0)
		if hasMultiMap(t, v) && nilPtrInCollection(v) {
			continue
		}
		return t, showVal(t, v, false)
	}
}

// protoNamedC03: bytes / Size / round trip of messages with fields of defined types
func (h *H) protoNamedC03() {
	N := 300
	if h.Thorough() {
		N = 4000
	}
	for i := 0; i < N; i++ {
		t, val := h.genProtoNamedCase()
		ts := t.String()
		v := parseVal(t, val)
		op := "proto.marshal"
		if hasMultiMap(t, v) {
			op = "proto.marshalx"
		}
		im, _ := h.DoRisky(op, ts, val)
		if len(im) < 3 || im[:3] != "ok:" {
			h.Fail(op, []string{ts, val}, im, "ok")
			continue
		}
		h.DoRisky("proto.roundtrip", ts, val)
	}
}

// protoNamedC12: the reference decoder reads Marshal's bytes of such messages; mutated inputs decode alike
func (h *H) protoNamedC12() {
	N := 300
	if h.Thorough() {
		N = 4000
	}
	for i := 0; i < N; i++ {
		t, val := h.genProtoNamedCase()
		ts := t.String()
		v := parseVal(t, val)
		b, err := proto.Marshal(v.Interface())
		if err != nil {
			h.Fail("proto.marshal", []string{ts, val}, "err", "ok")
			continue
		}
		h.Do("proto.decode", ts, hx(b), "ok:"+showVal(t, v, true))
		if !hasMultiMap(t, v) {
			h.Do("proto.marshal", ts, val)
		}
		if len(b) > 0 {
			h.Do("proto.decodeany", ts, hx(h.mutate(b)))
		}
	}
}
