package main

import (
	"bytes"
	stdjson "encoding/json"
	"fmt"
	"math"
	"strconv"
	"strings"

	"github.com/segmentio/encoding/json"
)

func init() {
	registry["C17"] = runC17
	ops["json.tokens"] = func(a []string) (string, string, string) {
		return tokStream(json.NewTokenizer(unhx(a[0])), unhx(a[0]), true), "-", ""
	}
	ops["json.tokspec"] = func(a []string) (string, string, string) {
		d := unhx(a[0])
		if !stdjson.Valid(d) {
			return "invalid", "-", ""
		}
		i := tokStream(json.NewTokenizer(d), d, false)
		i = strings.TrimSuffix(strings.TrimSuffix(i, ";END"), "END")
		return i, "-", ""
	}
	// json.tokpair <hex bad> <hex doc1> <hex doc2>: history — a tokenizer fails inside a container and is re-armed with Reset
	// (also: is abandoned half-way); afterwards two tokenizers are alive at once and advanced alternately. Each must produce
	// the stream it produces alone: pooled nesting stacks are never shared.
	ops["json.tokpair"] = func(a []string) (string, string, string) {
		bad, d1, d2 := unhx(a[0]), unhx(a[1]), unhx(a[2])
		alone1 := tokStream(json.NewTokenizer(d1), d1, true)
		alone2 := tokStream(json.NewTokenizer(d2), d2, true)
		for round := 0; round < 3; round++ {
			t0 := json.NewTokenizer(bad)
			for t0.Next() {
			}
			t0.Reset(d1)
			if round == 1 {
				for k := 0; k < 2 && t0.Next(); k++ {
				}
				t0.Reset(bad)
				for t0.Next() {
				}
				t0.Reset(d1)
			}
			ta, tb := json.NewTokenizer(d2), json.NewTokenizer(d1)
			var s0, sa, sb []string
			rec := func(t *json.Tokenizer) string {
				return fmt.Sprintf("%d/%s/%d/%d/%s", t.Delim, hx(t.Value), t.Depth, t.Index, b01(t.IsKey))
			}
			for more := true; more; {
				more = false
				if t0.Next() {
					s0, more = append(s0, rec(t0)), true
				}
				if ta.Next() {
					sa, more = append(sa, rec(ta)), true
				}
				if tb.Next() {
					sb, more = append(sb, rec(tb)), true
				}
			}
			strip := func(s string) string { // alone* carry /remaining and the END marker
				var out []string
				for _, p := range strings.Split(s, ";") {
					if f := strings.Split(p, "/"); len(f) >= 5 {
						out = append(out, strings.Join(f[:5], "/"))
					}
				}
				return strings.Join(out, ";")
			}
			if strings.Join(s0, ";") != strip(alone1) || strings.Join(sb, ";") != strip(alone1) || strings.Join(sa, ";") != strip(alone2) {
				return fmt.Sprintf("interleaved-tokenizers-disturb-each-other round %d", round), "ok", ""
			}
		}
		return "ok", "ok", ""
	}
	// accessor and stdlib-token-stream agreement, compact-concatenation, Reset — all in one composite observable
	ops["json.tokcheck"] = func(a []string) (string, string, string) {
		return tokCheck(unhx(a[0])), "ok", ""
	}
}

// tokStream serialises the tokens `delim/value/depth/index/iskey[/remaining]`, then END or ERR.
func tokStream(t *json.Tokenizer, doc []byte, withRemaining bool) string {
	var sb strings.Builder
	n := 0
	for t.Next() {
		if n > 0 {
			sb.WriteByte(';')
		}
		n++
		fmt.Fprintf(&sb, "%d/%s/%d/%d/%s", t.Delim, hx(t.Value), t.Depth, t.Index, b01(t.IsKey))
		if withRemaining {
			fmt.Fprintf(&sb, "/%d", t.Remaining())
			// each Value is the sub-slice of the input that ends Remaining() bytes before its end
			end := len(doc) - t.Remaining()
			if end < len(t.Value) || !bytes.Equal(doc[end-len(t.Value):end], t.Value) {
				sb.WriteString("!span")
			}
		}
		if n > 1000000 {
			return sb.String() + ";RUNAWAY"
		}
	}
	if n > 0 {
		sb.WriteByte(';')
	}
	if t.Err != nil {
		sb.WriteString("ERR")
		// once Err is set Next keeps returning false
		if t.Next() || t.Next() {
			sb.WriteString("!next-after-err")
		}
	} else {
		sb.WriteString("END")
	}
	return sb.String()
}

type stdTok struct {
	depth, index int
	isKey        bool
	val          any // for scalars: decoded value; for delims: Delim
}

// stdTokens walks encoding/json's token stream and derives depth / index / key role.
func stdTokens(doc []byte) ([]stdTok, bool) {
	dec := stdjson.NewDecoder(bytes.NewReader(doc))
	dec.UseNumber()
	type frame struct {
		obj    bool
		n      int // scalars/containers seen so far at this level
		expKey bool
	}
	var st []frame
	var out []stdTok
	for {
		tok, err := dec.Token()
		if err != nil {
			break
		}
		depth := len(st)
		index, isKey := 0, false
		if depth > 0 {
			f := &st[depth-1]
			if f.obj {
				index = f.n / 2
				isKey = f.expKey
			} else {
				index = f.n
			}
		}
		if d, ok := tok.(stdjson.Delim); ok && (d == '}' || d == ']') {
			st = st[:depth-1]
			continue
		}
		if depth > 0 {
			f := &st[depth-1]
			f.n++
			if f.obj {
				f.expKey = !f.expKey
			}
		}
		out = append(out, stdTok{depth, index, isKey, tok})
		if d, ok := tok.(stdjson.Delim); ok {
			st = append(st, frame{obj: d == '{', expKey: d == '{'})
		}
	}
	return out, len(st) == 0
}

func tokCheck(doc []byte) string {
	if !stdjson.Valid(doc) {
		// only totality: terminates, no panic (a panic is reported by the supervisor), Err sticky
		t := json.NewTokenizer(doc)
		n := 0
		for t.Next() {
			if n++; n > len(doc)+5 {
				return "runaway"
			}
		}
		return "ok"
	}
	want, _ := stdTokens(doc)
	t := json.NewTokenizer(doc)
	var concat []byte
	i := 0
	for t.Next() {
		concat = append(concat, t.Value...)
		if t.Delim == ',' || t.Delim == ':' || t.Delim == '}' || t.Delim == ']' {
			continue
		}
		if i >= len(want) {
			return "more-tokens-than-stdlib"
		}
		w := want[i]
		i++
		if t.Depth != w.depth || t.Index != w.index || t.IsKey != w.isKey {
			return fmt.Sprintf("pos-mismatch at token %d: got d=%d i=%d k=%v want d=%d i=%d k=%v", i, t.Depth, t.Index, t.IsKey, w.depth, w.index, w.isKey)
		}
		switch v := w.val.(type) {
		case stdjson.Delim:
			if byte(t.Delim) != byte(v) {
				return "delim-mismatch"
			}
			if (v == '{' && t.Kind() != json.Object) || (v == '[' && t.Kind() != json.Array) {
				return "kind-mismatch-delim"
			}
		case string:
			if t.Kind().Class() != json.String || string(t.String()) != v {
				return fmt.Sprintf("string-mismatch %q vs %q", t.String(), v)
			}
		case stdjson.Number:
			if t.Kind().Class() != json.Num {
				return "kind-mismatch-num"
			}
			f, _ := v.Float64()
			if g := t.Float(); g != f && !(math.IsInf(f, 0) || math.IsNaN(g)) {
				return fmt.Sprintf("float-mismatch %v vs %v", g, f)
			}
			if n, err := v.Int64(); err == nil && t.Kind() != json.Float {
				if t.Int() != n {
					return fmt.Sprintf("int-mismatch %d vs %d", t.Int(), n)
				}
				if n >= 0 && t.Uint() != uint64(n) {
					return "uint-mismatch"
				}
			}
		case bool:
			if t.Kind().Class() != json.Bool || t.Bool() != v {
				return "bool-mismatch"
			}
		case nil:
			if t.Kind() != json.Null {
				return "null-mismatch"
			}
		}
	}
	if t.Err != nil {
		return "err-on-valid-document"
	}
	if i != len(want) {
		return "fewer-tokens-than-stdlib"
	}
	var cb bytes.Buffer
	stdjson.Compact(&cb, doc)
	if !bytes.Equal(concat, cb.Bytes()) {
		return "concat-not-compact"
	}
	// Reset (pooled stack reuse included): abandon a tokenizer mid-way so that a non-empty stack reaches the pool
	t2 := json.NewTokenizer(doc)
	for k := 0; k < 1+len(doc)/3 && t2.Next(); k++ {
	}
	other := []byte(`[[[[{"a":[1,{"b":[`)
	t3 := json.NewTokenizer(other)
	for t3.Next() {
	}
	t3.Reset(doc)
	t2.Reset(doc)
	fresh := tokStream(json.NewTokenizer(doc), doc, true)
	if tokStream(t2, doc, true) != fresh || tokStream(t3, doc, true) != fresh {
		return "reset-differs-from-new"
	}
	return "ok"
}

func runC17(h *H) {
	N := 3000
	if h.Thorough() {
		N = 60000
	}
	// sizes at which a narrowed counter wraps: more than 65536 siblings in one array / object, nesting deeper than 256
	// and (valid for encoding/json up to 10000) 9000 levels, wide AND deep
	{
		var sb strings.Builder
		sb.WriteString("[")
		for i := 0; i < 65800; i++ {
			if i > 0 {
				sb.WriteString(",")
			}
			sb.WriteString(strconv.Itoa(i % 10))
		}
		sb.WriteString("]")
		h.DoRisky("json.tokcheck", hx([]byte(sb.String())))
		sb.Reset()
		sb.WriteString("{")
		for i := 0; i < 65800; i++ {
			if i > 0 {
				sb.WriteString(",")
			}
			sb.WriteString(`"k":` + strconv.Itoa(i%10))
		}
		sb.WriteString("}")
		h.DoRisky("json.tokcheck", hx([]byte(sb.String())))
		for _, d := range []int{255, 256, 257, 300, 9000} {
			h.DoRisky("json.tokcheck", hx([]byte(strings.Repeat("[", d)+"1,2"+strings.Repeat("]", d))))
			h.DoRisky("json.tokcheck", hx([]byte(strings.Repeat(`{"a":[`, d/2)+"1"+strings.Repeat("]}", d/2))))
		}
		h.DoRisky("json.tokcheck", hx([]byte("["+strings.Repeat("[1,2,3,[4]],", 300)+"[]]")))
	}
	for i := 0; i < N; i++ {
		d := h.genJSONNested()
		if h.Intn(4) == 0 {
			d = h.mutateJSON(d)
		}
		h.DoRisky("json.tokens", hx(d))
		h.DoRisky("json.tokcheck", hx(d))
		if stdjson.Valid(d) {
			h.Do("json.tokspec", hx(d))
			h.Count("valid_docs", 1)
		}
	}
	bads := []string{`{"a":[[1,2,`, `[[[`, `{"a":{"b":[}`, `[1,2}`, `{"k":[{"x":`}
	for i := 0; i < 60; i++ {
		d1, d2 := h.genJSONNested(), h.genJSONNested()
		h.DoRisky("json.tokpair", hx([]byte(bads[i%len(bads)])), hx(d1), hx(d2))
	}
	h.DoRisky("json.tokpair", hx([]byte(`{"a":[[1,2,`)), hx([]byte(`[[[1,2],[3,[4,5]]],[6],7]`)), hx([]byte(`{"a":{"b":[1,{"c":2}]},"d":[[]]}`)))
	for _, s := range []string{`[{},"a"]`, `{"a":{},"b":[{}]}`, `[[],[[]],{}]`, `{"k":[1,{"x":null}],"z":true}`, ``, ` `, `,`, `:`, `]`, `}`, `[}`, `{]`,
		`[1,]`, `{"a"}`, `"abc`, `tru`, `1e`, `-`, `01`, `[,]`, `[1 2]`, strings.Repeat("[", 300) + strings.Repeat("]", 300), `{"a":1,"a":2}`, "\"\\ud800\"", `1 2 3`} {
		h.DoRisky("json.tokens", hx([]byte(s)))
		h.DoRisky("json.tokcheck", hx([]byte(s)))
		if stdjson.Valid([]byte(s)) {
			h.Do("json.tokspec", hx([]byte(s)))
		}
	}
	// arbitrary bytes
	M := 2000
	if h.Thorough() {
		M = 40000
	}
	for i := 0; i < M; i++ {
		n := h.Intn(12)
		d := make([]byte, n)
		for j := range d {
			d[j] = jsonAlphabet[h.Intn(len(jsonAlphabet))]
		}
		h.DoRisky("json.tokens", hx(d))
		h.DoRisky("json.tokcheck", hx(d))
	}
	// the accessors (Kind/Bool/Int/Uint/Float/String, RawValue) against the Lean model, the specification and
	// encoding/json's Decoder.Token() (c17acc.go)
	genTokAcc(h)
}

// genJSONNested: documents with empty containers inside non-empty ones, keys after nested objects, deeper nesting
func (h *H) genJSONNested() []byte {
	var gen func(depth int) string
	gen = func(depth int) string {
		r := h.Intn(10)
		switch {
		case r < 3 && depth < 12:
			n := h.Intn(5)
			parts := make([]string, n)
			for i := range parts {
				parts[i] = gen(depth + 1)
			}
			sep := h.Pick([]string{",", ", ", " ,\n"})
			return "[" + strings.Join(parts, sep) + "]"
		case r < 6 && depth < 12:
			n := h.Intn(5)
			parts := make([]string, n)
			for i := range parts {
				parts[i] = string(h.genJSONString()) + h.Pick([]string{":", " : "}) + gen(depth+1)
			}
			return "{" + strings.Join(parts, ",") + "}"
		default:
			return string(h.genJSON(7)) // scalar (depth >= 6 makes genJSON produce scalars only)
		}
	}
	return []byte(h.Pick([]string{"", " ", "\n"}) + gen(0) + h.Pick([]string{"", " ", "\n"}))
}
