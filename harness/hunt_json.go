package main

// Directed regression cases for the json defects that were found by the defect hunt and repaired in /repo
// (one block per repairing commit; the sha is given with each block). Every operation runs the library and
// encoding/json (stdjson) on the same input and the same Go type; a case is a violation when the two differ.

import (
	"bytes"
	stdjson "encoding/json"
	"errors"
	"fmt"
	"hash/fnv"
	"reflect"
	"strconv"
	"strings"
	"time"
	"unsafe"

	"github.com/segmentio/encoding/json"
)

func init() {
	huntHooks["C01"] = append(huntHooks["C01"], genHuntJSONEncode)
	huntHooks["C02"] = append(huntHooks["C02"], genHuntJSONDecode, genHuntJSONArrElem, genHuntJSONIntKey, genHuntJSONStrTag,
		genHuntJSONFold, genHuntJSONLeftovers, genHuntJSONIfaces)
	huntHooks["C05"] = append(huntHooks["C05"], genHuntJSONDepth)
	huntHooks["C17"] = append(huntHooks["C17"], genHuntJSONUnquote)

	ops["hunt.json.enc"] = opHuntEnc
	ops["hunt.json.time"] = opHuntTime
	ops["hunt.json.cycle"] = opHuntCycle
	ops["hunt.json.encwrite"] = opHuntEncWrite
	ops["hunt.json.dec"] = opHuntDec
	ops["hunt.json.arrelem"] = opHuntArrElem
	ops["hunt.json.intkey"] = opHuntIntKey
	ops["hunt.json.strtag"] = opHuntStrTag
	ops["hunt.json.fold"] = opHuntFold
	ops["hunt.json.emptyarr"] = opHuntEmptyArr
	ops["hunt.json.mssnull"] = opHuntMSSNull
	ops["hunt.json.namedany"] = opHuntNamedAny
	ops["hunt.json.selfptr"] = opHuntSelfPtr
	ops["hunt.json.nullunsup"] = opHuntNullUnsup
	ops["hunt.json.depth"] = opHuntDepth
	ops["hunt.json.unquote"] = opHuntUnquote
}

// ---- observables ------------------------------------------------------------------------------------------

// huntTxt: a JSON text as a one-line observable (hex when it has bytes that would break the line protocol).
func huntTxt(b []byte) string {
	for _, c := range b {
		if c < 0x20 || c == 0x7f {
			return "x" + hx(b)
		}
	}
	return string(b)
}

func huntEncObs(b []byte, err error) string {
	if err != nil {
		return "err"
	}
	return "ok:" + huntTxt(b)
}

// huntDigest: observable of a long output.
func huntDigest(b []byte, err error) string {
	if err != nil {
		return "err"
	}
	f := fnv.New64a()
	f.Write(b)
	return fmt.Sprintf("ok:%d:%016x", len(b), f.Sum64())
}

func huntErrClass(err error) string {
	var se *stdjson.SyntaxError
	var te *stdjson.UnmarshalTypeError
	switch {
	case errors.As(err, &se):
		return "err:syntax"
	case errors.As(err, &te):
		return "err:type"
	}
	return "err:other"
}

func huntStdDump(t any) string {
	b, err := stdjson.Marshal(t)
	if err != nil {
		return "undumpable"
	}
	return huntTxt(b)
}

// huntLog: calls seen by the value-receiver unmarshalers below (which cannot record anything in their receiver).
var huntLog []string

// huntDecBoth decodes doc with the library and with encoding/json into fresh targets given by mk.
// class: tell syntax errors from type errors in the observable (otherwise only "err").
func huntDecBoth(doc []byte, mk func() any, dump func(any) string, class bool) (string, string) {
	if dump == nil {
		dump = huntStdDump
	}
	obs := func(err error, t any) string {
		var s string
		switch {
		case err == nil:
			s = "ok:" + dump(t)
		case class:
			s = huntErrClass(err)
		default:
			s = "err"
		}
		if len(huntLog) != 0 {
			s += ";calls=" + strings.Join(huntLog, ",")
		}
		return s
	}
	t1, t2 := mk(), mk()
	huntLog = nil
	i := obs(json.Unmarshal(doc, t1), t1)
	huntLog = nil
	o := obs(stdjson.Unmarshal(doc, t2), t2)
	huntLog = nil
	return i, o
}

// ---- marshaling methods used by several blocks ----------------------------------------------------------------

type huntPJ struct{ S string } // (*T).MarshalJSON only
type huntPT struct{ S string } // (*T).MarshalText only
type huntJT struct{ S string } // (*T).MarshalJSON and (T).MarshalText
type huntJTB uint8             // the same on a byte kind

func (p *huntPJ) MarshalJSON() ([]byte, error) { return []byte(`"pj:` + p.S + `"`), nil }
func (p *huntPT) MarshalText() ([]byte, error) { return []byte("pt:" + p.S), nil }
func (p *huntJT) MarshalJSON() ([]byte, error) { return []byte(`"json:` + p.S + `"`), nil }
func (p huntJT) MarshalText() ([]byte, error)  { return []byte("text:" + p.S), nil }
func (p *huntJTB) MarshalJSON() ([]byte, error) {
	return []byte(`"json:` + strconv.Itoa(int(*p)) + `"`), nil
}
func (p huntJTB) MarshalText() ([]byte, error) { return []byte("text:" + strconv.Itoa(int(p))), nil }

// HuntIn: a struct whose fields are encoded by pointer-receiver methods only where the struct is addressable.
type HuntIn struct {
	F huntPJ
	G huntPT
}

// f9a1947: the string option and fields with marshaling methods
type huntSI int     // (T).MarshalJSON
type huntSS string  // (T).MarshalText
type huntSB bool    // (*T).MarshalJSON
type huntSF float64 // (*T).MarshalText
type huntSU uint16  // (T).MarshalText

func (v huntSI) MarshalJSON() ([]byte, error) {
	return []byte(`{"i":` + strconv.Itoa(int(v)) + `}`), nil
}
func (v huntSS) MarshalText() ([]byte, error) { return []byte("t:" + string(v)), nil }
func (v *huntSB) MarshalJSON() ([]byte, error) {
	return []byte(`["b",` + strconv.FormatBool(bool(*v)) + `]`), nil
}
func (v *huntSF) MarshalText() ([]byte, error) {
	return []byte("f:" + strconv.FormatFloat(float64(*v), 'g', -1, 64)), nil
}
func (v huntSU) MarshalText() ([]byte, error) { return []byte("u:" + strconv.Itoa(int(v))), nil }

type huntStrOpt struct {
	I  huntSI  `json:",string"`
	S  huntSS  `json:",string"`
	B  huntSB  `json:",string"`
	F  huntSF  `json:",string"`
	U  huntSU  `json:",string"`
	PI *huntSI `json:",string"`
	PB *huntSB `json:",string"`
	PF *huntSF `json:",string"`
	N  int     `json:",string"`
	T  bool    `json:",string"`
}

func huntMkStrOpt(ptrs bool) huntStrOpt {
	v := huntStrOpt{I: 3, S: "s", B: true, F: 1.5, U: 9, N: 4, T: true}
	if ptrs {
		i, b, f := huntSI(-7), huntSB(false), huntSF(-0.25)
		v.PI, v.PB, v.PF = &i, &b, &f
	}
	return v
}

// 0da5b36: the string option and named pointer types
type huntNPI *int
type huntNPS *string
type huntNPB *bool
type huntNPF *float64

type huntNamedPtr struct {
	P huntNPI  `json:",string"`
	Q *int     `json:",string"`
	S huntNPS  `json:",string"`
	B huntNPB  `json:",string"`
	F huntNPF  `json:",string"`
	G *float64 `json:",string"`
}

func huntMkNamedPtr(set bool) huntNamedPtr {
	if !set {
		return huntNamedPtr{}
	}
	i, j, s, b, f, g := 5, 6, "x", true, 1.5, 2.5
	return huntNamedPtr{P: &i, Q: &j, S: &s, B: &b, F: &f, G: &g}
}

func huntDumpNamedPtr(t any) string {
	v := reflect.ValueOf(t).Elem()
	var sb strings.Builder
	for i := 0; i < v.NumField(); i++ {
		if f := v.Field(i); f.IsNil() {
			fmt.Fprintf(&sb, "%s=nil;", v.Type().Field(i).Name)
		} else {
			fmt.Fprintf(&sb, "%s=%#v;", v.Type().Field(i).Name, f.Elem().Interface())
		}
	}
	return sb.String()
}

// 400827f: tag names that encoding/json does not allow
type HuntEmbI struct{ X int }
type HuntBad1 struct {
	X int `json:"'"`
}
type HuntBad2 struct{ X int }
type HuntTagX struct {
	X int `json:"X"`
}
type huntBadEmbed struct {
	HuntEmbI `json:"a'b"`
	Y        int
}
type huntBadEmbedOpt struct {
	HuntEmbI `json:"a\\b,omitempty"`
	Y        int
}
type huntBadEmbedPtr struct {
	*HuntEmbI `json:"q\"r"`
	Y         int
}
type huntBadAmbiguous struct { // both X untagged at the same depth: neither is visible
	HuntBad1
	HuntBad2
	Y int
}
type huntBadVsTagged struct { // the tagged X wins
	HuntBad1
	HuntTagX
}
type huntBadVsShallow struct { // an invalid name gives no precedence over a plain field of the same depth
	HuntBad1
	HuntBad2
	HuntTagX
}
type huntBadPlain struct {
	A int `json:"a'b"`
	B int `json:"b c"` // space is allowed
}

// 7b60b91: embedded fields of unexported non-struct types
type huntMyInt int
type huntMySl []int
type huntMyMap map[string]int
type huntMySt struct{ Z int }
type HuntPubInt int

type huntUnexpInt struct {
	huntMyInt `json:"x"`
	Y         int
}
type huntUnexpPtr struct {
	*huntMyInt `json:"x"`
	Y          int
}
type huntUnexpSl struct {
	huntMySl `json:"x,omitempty"`
	Y        int
}
type huntUnexpMap struct {
	huntMyMap `json:"x"`
	Y         int
}
type huntUnexpStructTag struct { // an unexported embedded struct with a name is an ordinary field
	huntMySt `json:"x"`
	Y        int
}
type huntPubIntTag struct {
	HuntPubInt `json:"x"`
	Y          int
}
type huntUnexpNoTag struct {
	huntMyInt
	Y int
}
type huntUnexpStr struct {
	huntMyInt `json:"x,string"`
	Y         int
}

// e984ffc: map keys of an integer kind whose type has methods for JSON values
type huntKJ int
type huntKJ8 int8
type huntKJU16 uint16
type huntKJU64 uint64
type huntKJP uintptr
type huntKJT int // MarshalJSON and MarshalText: the text is the key
type huntKUJ int // (*T).UnmarshalJSON only
type huntKUJ8 uint8

func (k huntKJ) MarshalJSON() ([]byte, error)    { return []byte(`"j"`), nil }
func (k huntKJ8) MarshalJSON() ([]byte, error)   { return []byte(`{"j":8}`), nil }
func (k huntKJU16) MarshalJSON() ([]byte, error) { return []byte(`16`), nil }
func (k huntKJU64) MarshalJSON() ([]byte, error) { return []byte(`"j64"`), nil }
func (k huntKJP) MarshalJSON() ([]byte, error)   { return []byte(`null`), nil }
func (k huntKJT) MarshalJSON() ([]byte, error)   { return []byte(`"j"`), nil }
func (k huntKJT) MarshalText() ([]byte, error)   { return []byte("t" + strconv.Itoa(int(k))), nil }
func (k *huntKUJ) UnmarshalJSON(b []byte) error {
	huntLog = append(huntLog, "KUJ:"+hx(b))
	*k = 99
	return nil
}
func (k *huntKUJ8) UnmarshalJSON(b []byte) error {
	huntLog = append(huntLog, "KUJ8:"+hx(b))
	*k = 99
	return nil
}

// 2834bcc: kinds held directly in the data word of an interface, with marshaling methods
type huntCh chan int
type huntChT chan int
type huntFn func() int
type huntFnT func() int
type huntUPS struct{ P unsafe.Pointer }
type huntChS struct{ C chan int }
type huntFnA [1]func() int

func (c huntCh) MarshalJSON() ([]byte, error) {
	if c == nil {
		return []byte(`"nilchan"`), nil
	}
	return []byte(strconv.Itoa(cap(c)*100 + len(c))), nil
}
func (c huntChT) MarshalText() ([]byte, error) {
	if c == nil {
		return []byte("nilchan"), nil
	}
	return []byte("chan" + strconv.Itoa(cap(c)*100+len(c))), nil
}
func (f huntFn) MarshalJSON() ([]byte, error) {
	if f == nil {
		return []byte(`"nilfn"`), nil
	}
	return []byte(strconv.Itoa(f())), nil
}
func (f huntFnT) MarshalText() ([]byte, error) {
	if f == nil {
		return []byte("nilfn"), nil
	}
	return []byte("fn" + strconv.Itoa(f())), nil
}
func (u huntUPS) MarshalJSON() ([]byte, error) {
	if u.P == nil {
		return []byte(`"nilptr"`), nil
	}
	return []byte(strconv.Itoa(int(*(*int32)(u.P)))), nil
}
func (c huntChS) MarshalText() ([]byte, error) {
	if c.C == nil {
		return []byte("nilchan"), nil
	}
	return []byte("chan" + strconv.Itoa(cap(c.C)*100+len(c.C))), nil
}
func (f huntFnA) MarshalJSON() ([]byte, error) {
	if f[0] == nil {
		return []byte(`"nilfn"`), nil
	}
	return []byte(strconv.Itoa(f[0]())), nil
}

func huntMkChan() chan int {
	c := make(chan int, 3)
	c <- 1
	c <- 2
	return c
}

var huntInt32 = int32(4242)

// ---- hunt.json.enc <case>: Marshal of a value of a directed shape ----------------------------------------------

type huntEncCase struct {
	name  string
	risky bool // used to fault: run in the supervised child
	mk    func() any
}

var huntEncCases = []huntEncCase{
	// 7718311 (*T).MarshalJSON is preferred to (T).MarshalText where the value is addressable
	{"jt-val", false, func() any { return huntJT{"a"} }},
	{"jt-ptr", false, func() any { return &huntJT{"a"} }},
	{"jt-slice", false, func() any { return []huntJT{{"a"}, {"b"}} }},
	{"jt-slice-ptr", false, func() any { return &[]huntJT{{"a"}} }},
	{"jt-array-val", false, func() any { return [2]huntJT{{"a"}, {"b"}} }},
	{"jt-array-ptr", false, func() any { return &[2]huntJT{{"a"}, {"b"}} }},
	{"jt-field-val", false, func() any { return struct{ F huntJT }{huntJT{"a"}} }},
	{"jt-field-ptr", false, func() any { return &struct{ F huntJT }{huntJT{"a"}} }},
	{"jt-mapval", false, func() any { return map[string]huntJT{"k": {"a"}} }},
	{"jt-mapval-slice", false, func() any { return map[string][]huntJT{"k": {{"a"}}} }},
	{"jt-mapkey", false, func() any { return map[huntJT]int{{"a"}: 1} }},
	{"jt-iface", false, func() any { return []any{huntJT{"a"}, &huntJT{"b"}} }},
	{"jtb-val", false, func() any { return huntJTB(7) }},
	{"jtb-ptr", false, func() any { v := huntJTB(7); return &v }},
	{"jtb-slice", false, func() any { return []huntJTB{1, 2} }},
	{"jtb-slice-empty", false, func() any { return []huntJTB{} }},
	{"jtb-slice-field", false, func() any { return struct{ S []huntJTB }{[]huntJTB{3}} }},
	{"jtb-array-val", false, func() any { return [2]huntJTB{1, 2} }},
	{"jtb-array-ptr", false, func() any { return &[2]huntJTB{1, 2} }},
	{"jtb-mapval", false, func() any { return map[string]huntJTB{"k": 5} }},

	// aa6604c one struct type at an addressable and at a non-addressable place of the same value
	{"mix-val-slice", false, func() any {
		return struct {
			A HuntIn
			B []HuntIn
		}{HuntIn{huntPJ{"a"}, huntPT{"a"}}, []HuntIn{{huntPJ{"b"}, huntPT{"b"}}}}
	}},
	{"mix-slice-val", false, func() any {
		return struct {
			B []HuntIn
			A HuntIn
		}{[]HuntIn{{huntPJ{"b"}, huntPT{"b"}}}, HuntIn{huntPJ{"a"}, huntPT{"a"}}}
	}},
	{"mix-val-ptr", false, func() any {
		return struct {
			A HuntIn
			C *HuntIn
		}{HuntIn{huntPJ{"a"}, huntPT{"a"}}, &HuntIn{huntPJ{"c"}, huntPT{"c"}}}
	}},
	{"mix-ptr-val", false, func() any {
		return struct {
			C *HuntIn
			A HuntIn
		}{&HuntIn{huntPJ{"c"}, huntPT{"c"}}, HuntIn{huntPJ{"a"}, huntPT{"a"}}}
	}},
	{"mix-arr-slice", false, func() any {
		return struct {
			A [1]HuntIn
			B []HuntIn
		}{[1]HuntIn{{huntPJ{"a"}, huntPT{"a"}}}, []HuntIn{{huntPJ{"b"}, huntPT{"b"}}}}
	}},
	{"mix-map-val-addr", false, func() any { // behind the pointer A is addressable, the map elements are not
		return &struct {
			M map[string]HuntIn
			A HuntIn
		}{map[string]HuntIn{"k": {huntPJ{"m"}, huntPT{"m"}}}, HuntIn{huntPJ{"a"}, huntPT{"a"}}}
	}},
	{"mix-val-map-addr", false, func() any {
		return &struct {
			A HuntIn
			M map[string]HuntIn
		}{HuntIn{huntPJ{"a"}, huntPT{"a"}}, map[string]HuntIn{"k": {huntPJ{"m"}, huntPT{"m"}}}}
	}},
	{"mix-nested-val-slice", false, func() any {
		type w struct{ In HuntIn }
		return struct {
			A w
			B []w
		}{w{HuntIn{huntPJ{"a"}, huntPT{"a"}}}, []w{{HuntIn{huntPJ{"b"}, huntPT{"b"}}}}}
	}},
	{"mix-iface", false, func() any {
		v := HuntIn{huntPJ{"a"}, huntPT{"a"}}
		return []any{v, &v, []HuntIn{v}}
	}},

	// dc98557 what an embedded pointer points to is addressable
	{"embptr-val", false, func() any { return struct{ *HuntIn }{&HuntIn{huntPJ{"a"}, huntPT{"a"}}} }},
	{"embptr-ptr", false, func() any { return &struct{ *HuntIn }{&HuntIn{huntPJ{"a"}, huntPT{"a"}}} }},
	{"embptr-mapval", false, func() any {
		return map[string]struct{ *HuntIn }{"k": {&HuntIn{huntPJ{"a"}, huntPT{"a"}}}}
	}},
	{"embptr-nested-val", false, func() any {
		type w struct{ *HuntIn }
		return struct {
			X w
			Y int
		}{w{&HuntIn{huntPJ{"a"}, huntPT{"a"}}}, 1}
	}},
	{"embptr-nil", false, func() any { return struct{ *HuntIn }{} }},
	{"embptr-jt", false, func() any {
		type e struct{ F huntJT }
		return struct{ *e }{&e{huntJT{"a"}}}
	}},
	{"embptr-two-levels", false, func() any {
		type e2 struct{ *HuntIn }
		return struct{ *e2 }{&e2{&HuntIn{huntPJ{"a"}, huntPT{"a"}}}}
	}},
	{"embval-val", false, func() any { return struct{ HuntIn }{HuntIn{huntPJ{"a"}, huntPT{"a"}}} }},
	{"embval-ptr", false, func() any { return &struct{ HuntIn }{HuntIn{huntPJ{"a"}, huntPT{"a"}}} }},

	// f9a1947 the string option does not apply to the result of a marshaling method
	{"stropt-val", false, func() any { return huntMkStrOpt(false) }},
	{"stropt-val-ptrs", false, func() any { return huntMkStrOpt(true) }},
	{"stropt-ptr", false, func() any { v := huntMkStrOpt(false); return &v }},
	{"stropt-ptr-ptrs", false, func() any { v := huntMkStrOpt(true); return &v }},
	{"stropt-slice", false, func() any { return []huntStrOpt{huntMkStrOpt(true)} }},
	{"stropt-mapval", false, func() any { return map[string]huntStrOpt{"k": huntMkStrOpt(true)} }},

	// 0da5b36 the string option is not applied through a named pointer type
	{"namedptr-set", false, func() any { return huntMkNamedPtr(true) }},
	{"namedptr-nil", false, func() any { return huntMkNamedPtr(false) }},
	{"namedptr-set-ptr", false, func() any { v := huntMkNamedPtr(true); return &v }},
	{"namedptr-nil-ptr", false, func() any { v := huntMkNamedPtr(false); return &v }},

	// 400827f an invalid tag name is no name
	{"badtag-embed", false, func() any { return huntBadEmbed{HuntEmbI{1}, 2} }},
	{"badtag-embed-opt", false, func() any { return huntBadEmbedOpt{HuntEmbI{1}, 2} }},
	{"badtag-embed-ptr", false, func() any { return huntBadEmbedPtr{&HuntEmbI{1}, 2} }},
	{"badtag-embed-ptr-nil", false, func() any { return huntBadEmbedPtr{nil, 2} }},
	{"badtag-ambiguous", false, func() any { return huntBadAmbiguous{HuntBad1{1}, HuntBad2{2}, 3} }},
	{"badtag-vs-tagged", false, func() any { return huntBadVsTagged{HuntBad1{1}, HuntTagX{2}} }},
	{"badtag-vs-both", false, func() any { return huntBadVsShallow{HuntBad1{1}, HuntBad2{2}, HuntTagX{3}} }},
	{"badtag-plain", false, func() any { return huntBadPlain{1, 2} }},

	// 7b60b91 an embedded field of an unexported non-struct type is ignored, tag or not
	{"unexp-int", false, func() any { return huntUnexpInt{5, 1} }},
	{"unexp-int-ptr", false, func() any { return &huntUnexpInt{5, 1} }},
	{"unexp-ptr", false, func() any { v := huntMyInt(5); return huntUnexpPtr{&v, 1} }},
	{"unexp-ptr-nil", false, func() any { return huntUnexpPtr{nil, 1} }},
	{"unexp-slice", false, func() any { return huntUnexpSl{huntMySl{1}, 1} }},
	{"unexp-map", false, func() any { return huntUnexpMap{huntMyMap{"a": 1}, 1} }},
	{"unexp-struct-tag", false, func() any { return huntUnexpStructTag{huntMySt{5}, 1} }},
	{"unexp-pubint-tag", false, func() any { return huntPubIntTag{5, 1} }},
	{"unexp-notag", false, func() any { return huntUnexpNoTag{5, 1} }},
	{"unexp-string-opt", false, func() any { return huntUnexpStr{5, 1} }},

	// e984ffc integer map keys are numbers, whatever MarshalJSON says
	{"intkey-mj", false, func() any { return map[huntKJ]int{1: 10, 2: 20} }},
	{"intkey-mj-neg", false, func() any { return map[huntKJ]int{-12: 1} }},
	{"intkey-mj8", false, func() any { return map[huntKJ8]string{-128: "a"} }},
	{"intkey-mju16", false, func() any { return map[huntKJU16]bool{65535: true} }},
	{"intkey-mju64", false, func() any { return map[huntKJU64]int{18446744073709551615: 1} }},
	{"intkey-mjptr", false, func() any { return map[huntKJP]int{7: 1} }},
	{"intkey-mj-and-text", false, func() any { return map[huntKJT]int{3: 1} }},
	{"intkey-mj-field", false, func() any { return struct{ M map[huntKJ]huntKJ }{map[huntKJ]huntKJ{4: 5}} }},
	{"intkey-mj-empty", false, func() any { return map[huntKJ]int{} }},
	{"intkey-uj", false, func() any { return map[huntKUJ]int{8: 1} }},
	{"intkey-mj-asvalue", false, func() any { return map[string]huntKJ{"k": 1} }},

	// 2834bcc chan, func and unsafe.Pointer values reach their methods intact
	{"word-chan-val", true, func() any { return huntCh(huntMkChan()) }},
	{"word-chan-nil", true, func() any { return huntCh(nil) }},
	{"word-chan-ptr", true, func() any { c := huntCh(huntMkChan()); return &c }},
	{"word-chan-mapval", true, func() any { return map[string]huntCh{"a": huntMkChan(), "b": nil} }},
	{"word-chan-iface", true, func() any { return []any{huntCh(huntMkChan()), huntCh(nil)} }},
	{"word-chan-field", true, func() any { return struct{ C huntCh }{huntMkChan()} }},
	{"word-chan-slice", true, func() any { return []huntCh{huntMkChan(), nil} }},
	{"word-chantext-val", true, func() any { return huntChT(huntMkChan()) }},
	{"word-chantext-mapkey", true, func() any { return map[huntChT]int{huntMkChan(): 1} }},
	{"word-chantext-mapkey-nil", true, func() any { return map[huntChT]int{nil: 1} }},
	{"word-chantext-mapval", true, func() any { return map[string]huntChT{"a": huntMkChan()} }},
	{"word-func-val", true, func() any { return huntFn(func() int { return 41 }) }},
	{"word-func-nil", true, func() any { return huntFn(nil) }},
	{"word-func-closure", true, func() any { n := 17; return huntFn(func() int { n++; return n }) }},
	{"word-func-mapval", true, func() any { return map[string]huntFn{"a": func() int { return 1 }, "b": nil} }},
	{"word-func-iface", true, func() any { return []any{huntFn(func() int { return 2 })} }},
	{"word-functext-val", true, func() any { return huntFnT(func() int { return 3 }) }},
	{"word-functext-mapval", true, func() any { return map[string]huntFnT{"a": func() int { return 4 }} }},
	{"word-unsafe-val", true, func() any { return huntUPS{unsafe.Pointer(&huntInt32)} }},
	{"word-unsafe-nil", true, func() any { return huntUPS{} }},
	{"word-unsafe-mapval", true, func() any { return map[string]huntUPS{"a": {unsafe.Pointer(&huntInt32)}} }},
	{"word-unsafe-iface", true, func() any { return []any{huntUPS{unsafe.Pointer(&huntInt32)}} }},
	{"word-chanstruct-val", true, func() any { return huntChS{huntMkChan()} }},
	{"word-chanstruct-mapkey", true, func() any { return map[huntChS]int{{huntMkChan()}: 1} }},
	{"word-chanstruct-mapval", true, func() any { return map[string]huntChS{"a": {huntMkChan()}, "b": {}} }},
	{"word-funcarray-val", true, func() any { return huntFnA{func() int { return 5 }} }},
	{"word-funcarray-nil", true, func() any { return huntFnA{} }},
	{"word-funcarray-mapval", true, func() any { return map[string]huntFnA{"a": {func() int { return 6 }}} }},
}

func opHuntEnc(a []string) (string, string, string) {
	for _, c := range huntEncCases {
		if c.name == a[0] {
			v1, v2 := c.mk(), c.mk()
			b1, e1 := json.Marshal(v1)
			b2, e2 := stdjson.Marshal(v2)
			return huntEncObs(b1, e1), huntEncObs(b2, e2), ""
		}
	}
	panic("hunt.json.enc: unknown case " + a[0])
}

// ---- 17ab411 hunt.json.time <ctx> <year> <zone offset in seconds> ----------------------------------------------

func opHuntTime(a []string) (string, string, string) {
	year, off := atoi(a[1]), atoi(a[2])
	// half an hour before the end of the year in UTC: a positive offset moves the local year forward
	t := time.Date(year, 12, 31, 23, 30, 0, 0, time.UTC).In(time.FixedZone("z", off))
	var v any
	switch a[0] {
	case "val":
		v = t
	case "ptr":
		v = &t
	case "field":
		v = struct {
			A int
			T time.Time
		}{1, t}
	case "fieldptr":
		v = &struct{ T *time.Time }{&t}
	case "mapval":
		v = map[string]time.Time{"k": t}
	case "slice":
		v = []time.Time{{}, t}
	case "iface":
		v = []any{t}
	case "omitempty":
		v = struct {
			T time.Time `json:"t,omitempty"`
		}{t}
	default:
		panic("hunt.json.time: unknown context " + a[0])
	}
	b1, e1 := json.Marshal(v)
	b2, e2 := stdjson.Marshal(v)
	return huntEncObs(b1, e1), huntEncObs(b2, e2), ""
}

// ---- 7a7aaf7 hunt.json.cycle <shape> <depth>: acyclic values that share addresses, below depth pointers -----------

type huntCycElem struct {
	F   int
	P   *int          `json:",omitempty"`
	Sub []huntCycElem `json:",omitempty"`
	M   map[string]*huntCycElem
}
type huntCycDeep struct {
	N *huntCycDeep  `json:"n,omitempty"`
	S []huntCycElem `json:"s,omitempty"`
	A *[2]int       `json:"a,omitempty"`
	Q *int          `json:"q,omitempty"`
	L [][2]int      `json:"l,omitempty"`
}

func opHuntCycle(a []string) (string, string, string) {
	depth := atoi(a[1])
	leaf := &huntCycDeep{}
	switch a[0] {
	case "ptr-to-first-field": // s[0].P = &s[0].F: the pointer has the address of the backing array
		s := make([]huntCycElem, 2)
		s[0].F, s[1].F = 7, 8
		s[0].P = &s[0].F
		leaf.S = s
	case "shorter-slice": // u[1].Sub = u[:1]: the same array, fewer elements
		u := make([]huntCycElem, 2)
		u[1].Sub = u[:1]
		leaf.S = u
	case "shorter-slice-twice":
		u := make([]huntCycElem, 3)
		u[2].Sub = u[:2]
		u[1].Sub = u[:1]
		leaf.S = u
	case "ptr-to-first-elem": // a pointer to the array a slice is made of
		arr := &[2]int{1, 2}
		leaf.A = arr
		leaf.L = [][2]int{*arr}
		leaf.Q = &arr[0]
	case "map-to-elem": // an element's map points back to an element (not to the slice): no cycle
		u := make([]huntCycElem, 2)
		u[1].M = map[string]*huntCycElem{"first": &u[0]}
		leaf.S = u
	case "true-cycle-slice": // u[0].Sub = u: a slice that contains itself
		u := make([]huntCycElem, 1)
		u[0].Sub = u
		leaf.S = u
	case "true-cycle-map":
		u := make([]huntCycElem, 2)
		u[1].M = map[string]*huntCycElem{"self": &u[1]}
		leaf.S = u
	default:
		panic("hunt.json.cycle: unknown shape " + a[0])
	}
	root := leaf
	for i := 0; i < depth; i++ {
		root = &huntCycDeep{N: root}
	}
	b1, e1 := json.Marshal(root)
	b2, e2 := stdjson.Marshal(root)
	return huntDigest(b1, e1), huntDigest(b2, e2), ""
}

// ---- 3dce71f hunt.json.encwrite <first failing write> <calls>: Encoder.Encode on a writer that starts failing --------

type huntFailWriter struct{ n, failFrom int }

func (w *huntFailWriter) Write(b []byte) (int, error) {
	w.n++
	if w.n > w.failFrom {
		return 0, errors.New("write failed")
	}
	return len(b), nil
}

func opHuntEncWrite(a []string) (string, string, string) {
	failFrom, calls := atoi(a[0]), atoi(a[1])
	vals := []any{1, "two", []int{3}, map[string]int{"four": 4}, nil, 6.5}
	run := func(enc func(any) error) string {
		var sb strings.Builder
		for i := 0; i < calls; i++ {
			if enc(vals[i%len(vals)]) != nil {
				sb.WriteByte('E')
			} else {
				sb.WriteByte('o')
			}
		}
		return sb.String()
	}
	return run(json.NewEncoder(&huntFailWriter{failFrom: failFrom}).Encode),
		run(stdjson.NewEncoder(&huntFailWriter{failFrom: failFrom}).Encode), ""
}

func genHuntJSONEncode(h *H) {
	for _, c := range huntEncCases {
		if c.risky {
			h.DoRisky("hunt.json.enc", c.name)
		} else {
			h.Do("hunt.json.enc", c.name)
		}
	}
	// 17ab411: years around 0 and 9999, zone offsets around 24 hours
	for _, ctx := range []string{"val", "ptr", "field", "fieldptr", "mapval", "slice", "iface", "omitempty"} {
		for _, y := range []int{-1, 0, 2024, 9999, 10000} {
			for _, off := range []int{0, 3600, -3600, 86400, -86400} {
				if ctx != "val" && (y == 0 || (off != 0 && y != 2024 && y != 9999)) {
					continue
				}
				h.Do("hunt.json.time", ctx, strconv.Itoa(y), strconv.Itoa(off))
			}
		}
	}
	for _, y := range []int{-292277022397, -10000, -2, 1, 9998, 10001, 99999, 292277026596} {
		h.Do("hunt.json.time", "val", strconv.Itoa(y), "0")
	}
	for _, off := range []int{1, 1799, 1800, 1801, 86399, 86401, -86399, -86401, 23*3600 + 59*60, 24*3600 + 60, 100 * 3600, -100 * 3600} {
		h.Do("hunt.json.time", "field", "2024", strconv.Itoa(off))
		h.Do("hunt.json.time", "val", "9999", strconv.Itoa(off))
	}
	// 7a7aaf7: the cycle detection starts after 1000 pointers
	for _, shape := range []string{"ptr-to-first-field", "shorter-slice", "shorter-slice-twice", "ptr-to-first-elem", "map-to-elem", "true-cycle-slice", "true-cycle-map"} {
		for _, d := range []int{0, 10, 990, 995, 996, 997, 998, 999, 1000, 1001, 1002, 1003, 1010, 1500} {
			h.Do("hunt.json.cycle", shape, strconv.Itoa(d))
		}
	}
	// 3dce71f
	for fail := 0; fail <= 4; fail++ {
		for calls := 1; calls <= 5; calls++ {
			h.Do("hunt.json.encwrite", strconv.Itoa(fail), strconv.Itoa(calls))
		}
	}
}

// ---- hunt.json.dec <case>: Unmarshal of a directed document into a directed type ----------------------------------------

// e375947: byte-kind element types whose VALUE receiver implements an unmarshaler
type huntBVJ uint8 // (T).UnmarshalJSON
type huntBVT uint8 // (T).UnmarshalText
type huntBVB uint8 // (T).UnmarshalJSON and (T).UnmarshalText
type huntBPJ uint8 // (*T).UnmarshalJSON
type huntBPT int8  // (*T).UnmarshalText

func (huntBVJ) UnmarshalJSON(b []byte) error { huntLog = append(huntLog, "J:"+hx(b)); return nil }
func (huntBVT) UnmarshalText(b []byte) error { huntLog = append(huntLog, "T:"+hx(b)); return nil }
func (huntBVB) UnmarshalJSON(b []byte) error { huntLog = append(huntLog, "BJ:"+hx(b)); return nil }
func (huntBVB) UnmarshalText(b []byte) error { huntLog = append(huntLog, "BT:"+hx(b)); return nil }
func (p *huntBPJ) UnmarshalJSON(b []byte) error {
	*p = huntBPJ(len(b))
	return nil
}
func (p *huntBPT) UnmarshalText(b []byte) error {
	*p = huntBPT(len(b))
	return nil
}

type huntDecCase struct {
	name  string
	risky bool
	doc   string
	mk    func() any
	dump  func(any) string
}

var huntDecCases = []huntDecCase{
	// e375947
	{"bytekind-vj", true, `[1,2]`, func() any { return new([]huntBVJ) }, nil},
	{"bytekind-vj-strings", true, `["a",{"b":[1]}]`, func() any { return new([]huntBVJ) }, nil},
	{"bytekind-vj-empty", true, `[]`, func() any { return new([]huntBVJ) }, nil},
	{"bytekind-vj-null", true, `null`, func() any { return &[]huntBVJ{1} }, nil},
	{"bytekind-vj-nullelem", true, `[null,3]`, func() any { return new([]huntBVJ) }, nil},
	{"bytekind-vj-prior", true, `[7]`, func() any { return &[]huntBVJ{1, 2, 3} }, nil},
	{"bytekind-vj-field", true, `{"S":[1],"T":2}`, func() any {
		return new(struct {
			S []huntBVJ
			T int
		})
	}, nil},
	{"bytekind-vj-mapval", true, `{"k":[1,2]}`, func() any { return new(map[string][]huntBVJ) }, nil},
	{"bytekind-vj-array", true, `[1,2]`, func() any { return new([2]huntBVJ) }, nil},
	{"bytekind-vt", true, `["a","b"]`, func() any { return new([]huntBVT) }, nil},
	{"bytekind-vt-number", true, `[1]`, func() any { return new([]huntBVT) }, nil},
	{"bytekind-vt-escape", true, `["é\n"]`, func() any { return new([]huntBVT) }, nil},
	{"bytekind-vt-field", true, `{"S":["x"]}`, func() any { return new(struct{ S []huntBVT }) }, nil},
	{"bytekind-vb", true, `["a",1]`, func() any { return new([]huntBVB) }, nil},
	{"bytekind-pj", true, `[1,"abc"]`, func() any { return new([]huntBPJ) }, nil},
	{"bytekind-pt", true, `["a","abc"]`, func() any { return new([]huntBPT) }, nil},
	{"bytekind-vj-elem", true, `5`, func() any { return new(huntBVJ) }, nil},
	{"bytekind-vj-ptrelem", true, `[5]`, func() any { return new([]*huntBVJ) }, nil},

	// e984ffc (reading side): integer keys are read with strconv, not with UnmarshalJSON
	{"intkey-uj-dec", false, `{"1":10,"-2":20}`, func() any { return new(map[huntKUJ]int) }, nil},
	{"intkey-uj8-dec", false, `{"255":1}`, func() any { return new(map[huntKUJ8]int) }, nil},
	{"intkey-uj8-overflow", false, `{"256":1}`, func() any { return new(map[huntKUJ8]int) }, nil},
	{"intkey-uj-notanumber", false, `{"x":1}`, func() any { return new(map[huntKUJ]int) }, nil},
	{"intkey-uj-asvalue", false, `{"k":1}`, func() any { return new(map[string]huntKUJ) }, nil},
	{"intkey-mj-dec", false, `{"3":4}`, func() any { return new(map[huntKJ]int) }, nil},

	// 7b60b91 (reading side)
	{"unexp-int-dec", false, `{"x":5,"Y":1}`, func() any { return new(huntUnexpInt) }, huntDumpV},
	{"unexp-int-dec-bad", false, `{"x":"notanint","Y":1}`, func() any { return new(huntUnexpInt) }, huntDumpV},
	{"unexp-ptr-dec", false, `{"x":5,"Y":1}`, func() any { return new(huntUnexpPtr) }, huntDumpV},
	{"unexp-slice-dec", false, `{"x":[1,2],"Y":1}`, func() any { return new(huntUnexpSl) }, huntDumpV},
	{"unexp-map-dec", false, `{"x":{"a":1},"Y":1}`, func() any { return new(huntUnexpMap) }, huntDumpV},
	{"unexp-struct-tag-dec", false, `{"x":{"Z":5},"Z":6,"Y":1}`, func() any { return new(huntUnexpStructTag) }, huntDumpV},
	{"unexp-pubint-tag-dec", false, `{"x":5,"Y":1}`, func() any { return new(huntPubIntTag) }, huntDumpV},
	{"unexp-notag-dec", false, `{"huntMyInt":5,"Y":1}`, func() any { return new(huntUnexpNoTag) }, huntDumpV},
	{"unexp-string-opt-dec", false, `{"x":"5","Y":1}`, func() any { return new(huntUnexpStr) }, huntDumpV},

	// 400827f (reading side)
	{"badtag-embed-dec", false, `{"X":1,"Y":2}`, func() any { return new(huntBadEmbed) }, huntDumpV},
	{"badtag-embed-dec-name", false, `{"HuntEmbI":{"X":5},"a'b":{"X":6},"Y":2}`, func() any { return new(huntBadEmbed) }, huntDumpV},
	{"badtag-embed-opt-dec", false, `{"X":1,"a\\b":{"X":6},"Y":2}`, func() any { return new(huntBadEmbedOpt) }, huntDumpV},
	{"badtag-embed-ptr-dec", false, `{"X":1,"Y":2}`, func() any { return new(huntBadEmbedPtr) }, huntStdDump},
	{"badtag-ambiguous-dec", false, `{"X":1,"Y":2}`, func() any { return new(huntBadAmbiguous) }, huntDumpV},
	{"badtag-vs-tagged-dec", false, `{"X":1}`, func() any { return new(huntBadVsTagged) }, huntDumpV},
	{"badtag-vs-both-dec", false, `{"X":1}`, func() any { return new(huntBadVsShallow) }, huntDumpV},
	{"badtag-plain-dec", false, `{"A":1,"a'b":2,"b c":3}`, func() any { return new(huntBadPlain) }, huntDumpV},

	// 0da5b36 (reading side)
	{"namedptr-dec-P-num", false, `{"P":5}`, func() any { return new(huntNamedPtr) }, huntDumpNamedPtr},
	{"namedptr-dec-P-str", false, `{"P":"5"}`, func() any { return new(huntNamedPtr) }, huntDumpNamedPtr},
	{"namedptr-dec-Q-num", false, `{"Q":5}`, func() any { return new(huntNamedPtr) }, huntDumpNamedPtr},
	{"namedptr-dec-Q-str", false, `{"Q":"5"}`, func() any { return new(huntNamedPtr) }, huntDumpNamedPtr},
	{"namedptr-dec-S-plain", false, `{"S":"x"}`, func() any { return new(huntNamedPtr) }, huntDumpNamedPtr},
	{"namedptr-dec-S-quoted", false, `{"S":"\"x\""}`, func() any { return new(huntNamedPtr) }, huntDumpNamedPtr},
	{"namedptr-dec-B-plain", false, `{"B":true}`, func() any { return new(huntNamedPtr) }, huntDumpNamedPtr},
	{"namedptr-dec-B-str", false, `{"B":"true"}`, func() any { return new(huntNamedPtr) }, huntDumpNamedPtr},
	{"namedptr-dec-F-plain", false, `{"F":1.5}`, func() any { return new(huntNamedPtr) }, huntDumpNamedPtr},
	{"namedptr-dec-F-str", false, `{"F":"1.5"}`, func() any { return new(huntNamedPtr) }, huntDumpNamedPtr},
	{"namedptr-dec-G-plain", false, `{"G":1.5}`, func() any { return new(huntNamedPtr) }, huntDumpNamedPtr},
	{"namedptr-dec-G-str", false, `{"G":"1.5"}`, func() any { return new(huntNamedPtr) }, huntDumpNamedPtr},
	{"namedptr-dec-nulls", false, `{"P":null,"Q":null,"S":null,"B":null,"F":null}`, func() any { v := huntMkNamedPtr(true); return &v }, huntDumpNamedPtr},
	{"namedptr-dec-prior", false, `{"P":7,"Q":"8","F":0.5}`, func() any { v := huntMkNamedPtr(true); return &v }, huntDumpNamedPtr},
	{"namedptr-dec-strnull", false, `{"P":"null","Q":"null"}`, func() any { v := huntMkNamedPtr(true); return &v }, huntDumpNamedPtr},
}

// huntDumpV: %+v of the target (for types with unexported fields that Marshal would not show)
func huntDumpV(t any) string {
	return strings.Map(func(r rune) rune {
		if r < 0x20 {
			return ' '
		}
		return r
	}, fmt.Sprintf("%+v", reflect.ValueOf(t).Elem().Interface()))
}

func opHuntDec(a []string) (string, string, string) {
	for _, c := range huntDecCases {
		if c.name == a[0] {
			i, o := huntDecBoth([]byte(c.doc), c.mk, c.dump, false)
			return i, o, ""
		}
	}
	panic("hunt.json.dec: unknown case " + a[0])
}

// ---- 661c0bb hunt.json.arrelem <ctx> <elem> <n> <total> <bad>: [n]elem, a document array of total elements, the
// element at index bad (-1: none) is of the wrong type. The error is a type error, never a syntax error.

func opHuntArrElem(a []string) (string, string, string) {
	n, total, bad := atoi(a[2]), atoi(a[3]), atoi(a[4])
	var et reflect.Type
	var good, wrong string
	switch a[1] {
	case "int":
		et, good, wrong = reflect.TypeOf(0), "1", `"x"`
	case "string":
		et, good, wrong = reflect.TypeOf(""), `"a"`, `1`
	case "bool":
		et, good, wrong = reflect.TypeOf(false), `true`, `{"k":[1,"]"]}`
	case "struct":
		et, good, wrong = reflect.TypeOf(struct{ A int }{}), `{"A":1}`, `[1,2]`
	case "structfield":
		et, good, wrong = reflect.TypeOf(struct{ A int }{}), `{"A":1}`, `{"A":"x"}`
	case "uint8":
		et, good, wrong = reflect.TypeOf(uint8(0)), "1", `256`
	default:
		panic("hunt.json.arrelem: unknown element " + a[1])
	}
	var els []string
	for i := 0; i < total; i++ {
		if i == bad {
			els = append(els, wrong)
		} else {
			els = append(els, good)
		}
	}
	arr := "[" + strings.Join(els, ", ") + "]"
	at := reflect.ArrayOf(n, et)
	var doc string
	var t reflect.Type
	switch a[0] {
	case "top":
		doc, t = arr, at
	case "field":
		doc = `{"A":` + arr + `,"B":2}`
		t = reflect.StructOf([]reflect.StructField{{Name: "A", Type: at}, {Name: "B", Type: reflect.TypeOf(0)}})
	case "lastfield":
		doc = `{"B":2,"A":` + arr + ` }`
		t = reflect.StructOf([]reflect.StructField{{Name: "A", Type: at}, {Name: "B", Type: reflect.TypeOf(0)}})
	case "nested":
		doc, t = `[`+arr+`,`+arr+`]`, reflect.ArrayOf(2, at)
	case "sliceof":
		doc, t = `[`+arr+` ,[]]`, reflect.SliceOf(at)
	case "mapval":
		doc, t = `{"k":`+arr+`,"l":[]}`, reflect.MapOf(reflect.TypeOf(""), at)
	case "ptr":
		doc, t = arr, reflect.PointerTo(at)
	case "malformed-after": // the rest of the array is not JSON: a syntax error for both
		doc, t = strings.TrimSuffix(arr, "]")+",]", at
	case "truncated":
		doc, t = strings.TrimSuffix(arr, "]"), at
	default:
		panic("hunt.json.arrelem: unknown context " + a[0])
	}
	i, o := huntDecBoth([]byte(doc), func() any { return reflect.New(t).Interface() }, nil, true)
	return i, o, ""
}

// ---- 3fe899b hunt.json.intkey <key type> <hex of the key as written between the quotes> -----------------------------

type huntNI16 int16
type huntNU32 uint32

func opHuntIntKey(a []string) (string, string, string) {
	var kt reflect.Type
	switch a[0] {
	case "int":
		kt = reflect.TypeOf(int(0))
	case "int8":
		kt = reflect.TypeOf(int8(0))
	case "int64":
		kt = reflect.TypeOf(int64(0))
	case "uint":
		kt = reflect.TypeOf(uint(0))
	case "uint8":
		kt = reflect.TypeOf(uint8(0))
	case "uint64":
		kt = reflect.TypeOf(uint64(0))
	case "uintptr":
		kt = reflect.TypeOf(uintptr(0))
	case "named-int16":
		kt = reflect.TypeOf(huntNI16(0))
	case "named-uint32":
		kt = reflect.TypeOf(huntNU32(0))
	default:
		panic("hunt.json.intkey: unknown key type " + a[0])
	}
	doc := append(append([]byte(`{"`), unhx(a[1])...), `":7}`...)
	mt := reflect.MapOf(kt, reflect.TypeOf(0))
	i, o := huntDecBoth(doc, func() any { return reflect.New(mt).Interface() }, nil, false)
	return i, o, ""
}

// ---- feda141 hunt.json.strtag <field type> <hex of the string as written between the quotes> ---------------------------

func opHuntStrTag(a []string) (string, string, string) {
	var mk func() any
	switch a[0] {
	case "bool":
		mk = func() any {
			return new(struct {
				V bool `json:",string"`
			})
		}
	case "float64":
		mk = func() any {
			return new(struct {
				V float64 `json:",string"`
			})
		}
	case "float32":
		mk = func() any {
			return new(struct {
				V float32 `json:",string"`
			})
		}
	case "string":
		mk = func() any {
			return new(struct {
				V string `json:",string"`
			})
		}
	case "int":
		mk = func() any {
			return new(struct {
				V int `json:",string"`
			})
		}
	case "uint8":
		mk = func() any {
			return new(struct {
				V uint8 `json:",string"`
			})
		}
	case "ptrfloat64":
		mk = func() any {
			return new(struct {
				V *float64 `json:",string"`
			})
		}
	case "ptrbool":
		mk = func() any {
			return new(struct {
				V *bool `json:",string"`
			})
		}
	default:
		panic("hunt.json.strtag: unknown field type " + a[0])
	}
	doc := append(append([]byte(`{"V":"`), unhx(a[1])...), `"}`...)
	dump := func(t any) string {
		f := reflect.ValueOf(t).Elem().Field(0)
		if f.Kind() == reflect.Ptr {
			if f.IsNil() {
				return "nil"
			}
			f = f.Elem()
		}
		if f.Kind() == reflect.String {
			return "s" + hx([]byte(f.String()))
		}
		return fmt.Sprintf("%v", f.Interface())
	}
	i, o := huntDecBoth(doc, mk, dump, false)
	return i, o, ""
}

// ---- f776a8a hunt.json.fold <hex key>: {"<key>":1} into a struct whose field names have non-ASCII letters --------------

type huntFoldT struct {
	É        int
	Straße   int
	Ключ     int
	Kelvin   int
	Size     int `json:"size"`
	Σίσυφος  int
	Tagged   int `json:"ÀÉÎ"`
	Ǆungla   int // a letter with three cases (Ǆ ǅ ǆ)
	ASCII    int
	İstanbul int // dotted capital I: no simple folding to i
}

func opHuntFold(a []string) (string, string, string) {
	kq, _ := stdjson.Marshal(string(unhx(a[0])))
	doc := append(append([]byte(`{`), kq...), `:1}`...)
	i, o := huntDecBoth(doc, func() any { return new(huntFoldT) }, nil, false)
	return i, o, ""
}

// ---- 90775a6 hunt.json.emptyarr <elem> <n1> <n2>: a slice is decoded three times: n1 elements, [], n2 elements --------------

func opHuntEmptyArr(a []string) (string, string, string) {
	n1, n2 := atoi(a[1]), atoi(a[2])
	var mk func() any
	var first, second func(i int) string
	switch a[0] {
	case "map":
		mk = func() any { return new([]map[string]int) }
		first = func(i int) string { return fmt.Sprintf(`{"a%d":1}`, i) }
		second = func(i int) string { return fmt.Sprintf(`{"b%d":2}`, i) }
	case "struct":
		mk = func() any { return new([]struct{ A, B int }) }
		first = func(i int) string { return fmt.Sprintf(`{"A":%d}`, i+1) }
		second = func(i int) string { return fmt.Sprintf(`{"B":%d}`, i+1) }
	case "ptrstruct":
		mk = func() any { return new([]*struct{ A, B int }) }
		first = func(i int) string { return fmt.Sprintf(`{"A":%d}`, i+1) }
		second = func(i int) string { return fmt.Sprintf(`{"B":%d}`, i+1) }
	case "slice":
		mk = func() any { return new([][]int) }
		first = func(i int) string { return `[1,2,3]` }
		second = func(i int) string { return `[]` }
	case "array":
		mk = func() any { return new([][2]int) }
		first = func(i int) string { return `[1,2]` }
		second = func(i int) string { return `[9]` }
	case "iface":
		mk = func() any { return new([]any) }
		first = func(i int) string { return `{"a":1}` }
		second = func(i int) string { return `{"b":2}` }
	case "field":
		mk = func() any { return new([]struct{ M map[string]int }) }
		first = func(i int) string { return `{"M":{"a":1}}` }
		second = func(i int) string { return `{"M":{"b":2}}` }
	default:
		panic("hunt.json.emptyarr: unknown element " + a[0])
	}
	arr := func(n int, f func(int) string) []byte {
		var els []string
		for i := 0; i < n; i++ {
			els = append(els, f(i))
		}
		return []byte("[" + strings.Join(els, ",") + "]")
	}
	run := func(unmarshal func([]byte, any) error) string {
		t := mk()
		var sb strings.Builder
		for step, doc := range [][]byte{arr(n1, first), []byte(" [ ] "), arr(n2, second)} {
			if err := unmarshal(doc, t); err != nil {
				return "err"
			}
			v := reflect.ValueOf(t).Elem()
			if step == 1 {
				fmt.Fprintf(&sb, "nil=%v,cap=%d;", v.IsNil(), v.Cap())
			} else {
				sb.WriteString(huntStdDump(t) + ";")
			}
		}
		return "ok:" + sb.String()
	}
	return run(json.Unmarshal), run(stdjson.Unmarshal), ""
}

// ---- 22630e8 hunt.json.mssnull <n1> <n2> <mask>: map[string][]string; the first entry has n1 strings, the second n2
// elements of which those in the bit mask are null; a third entry has nulls only.

func opHuntMSSNull(a []string) (string, string, string) {
	n1, n2, mask := atoi(a[0]), atoi(a[1]), atoi(a[2])
	var e1, e2, e3 []string
	for i := 0; i < n1; i++ {
		e1 = append(e1, fmt.Sprintf(`"first%d"`, i))
	}
	for i := 0; i < n2; i++ {
		if mask&(1<<i) != 0 {
			e2 = append(e2, "null")
		} else {
			e2 = append(e2, fmt.Sprintf(`"second%d"`, i))
		}
		e3 = append(e3, "null")
	}
	doc := []byte(`{"a":[` + strings.Join(e1, ",") + `],"b":[` + strings.Join(e2, ",") + `],"c":[` + strings.Join(e3, ",") + `]}`)
	var i, o string
	switch a[3] {
	case "top":
		i, o = huntDecBoth(doc, func() any { return new(map[string][]string) }, nil, false)
	case "prior":
		i, o = huntDecBoth(doc, func() any { return &map[string][]string{"b": {"old0", "old1", "old2"}, "z": {"keep"}} }, nil, false)
	case "field":
		doc = append(append([]byte(`{"H":`), doc...), '}')
		i, o = huntDecBoth(doc, func() any { return new(struct{ H map[string][]string }) }, nil, false)
	default:
		panic("hunt.json.mssnull: unknown context " + a[3])
	}
	return i, o, ""
}

// ---- 2937f9c hunt.json.namedany <ctx> <prior> <hex doc>: a named interface type without methods ------------------------------

type huntAnyI interface{}

func huntNamedAnyPrior(name string) huntAnyI {
	switch name {
	case "nil":
		return nil
	case "int":
		return 5
	case "string":
		return "s"
	case "nilptr":
		return (*int)(nil)
	case "ptr":
		n := 7
		return &n
	case "ptrany":
		var x any = "in"
		return &x
	case "map":
		return map[string]any{"k": 1.0}
	case "slice":
		return []int{1, 2}
	case "struct":
		return HuntEmbI{3}
	case "ptrstruct":
		return &HuntEmbI{3}
	case "nilmap":
		return map[string]int(nil)
	}
	panic("hunt.json.namedany: unknown prior " + name)
}

func opHuntNamedAny(a []string) (string, string, string) {
	doc := unhx(a[2])
	show := func(v huntAnyI) string { return fmt.Sprintf("%T:%s", v, huntStdDump(v)) }
	var i, o string
	switch a[0] {
	case "top":
		i, o = huntDecBoth(doc, func() any { v := huntNamedAnyPrior(a[1]); return &v },
			func(t any) string { return show(*t.(*huntAnyI)) }, false)
	case "field":
		type T struct {
			V huntAnyI
			W int
		}
		doc = append(append([]byte(`{"V":`), doc...), `,"W":1}`...)
		i, o = huntDecBoth(doc, func() any { return &T{V: huntNamedAnyPrior(a[1])} },
			func(t any) string { return show(t.(*T).V) + fmt.Sprint(";W=", t.(*T).W) }, false)
	case "elem":
		doc = append(append([]byte(`[`), doc...), `]`...)
		i, o = huntDecBoth(doc, func() any { return &[1]huntAnyI{huntNamedAnyPrior(a[1])} },
			func(t any) string { return show(t.(*[1]huntAnyI)[0]) }, false)
	case "mapval":
		doc = append(append([]byte(`{"k":`), doc...), `}`...)
		i, o = huntDecBoth(doc, func() any { return &map[string]huntAnyI{"k": huntNamedAnyPrior(a[1])} },
			func(t any) string { return show((*t.(*map[string]huntAnyI))["k"]) }, false)
	default:
		panic("hunt.json.namedany: unknown context " + a[0])
	}
	return i, o, ""
}

// ---- 27feb11 hunt.json.selfptr <shape> <hex doc>: an interface that holds its own address -----------------------------------

func opHuntSelfPtr(a []string) (string, string, string) {
	doc := unhx(a[1])
	show := func(at *any) string {
		if p, ok := (*at).(*any); ok && p == at {
			return "self"
		}
		return fmt.Sprintf("%T:%s", *at, huntStdDump(*at))
	}
	var i, o string
	switch a[0] {
	case "top":
		i, o = huntDecBoth(doc, func() any { var x any; x = &x; return &x },
			func(t any) string { return show(t.(*any)) }, false)
	case "field":
		type T struct {
			V any
			W int
		}
		doc = append(append([]byte(`{"V":`), doc...), `,"W":1}`...)
		i, o = huntDecBoth(doc, func() any { t := &T{}; t.V = &t.V; return t },
			func(t any) string { return show(&t.(*T).V) + fmt.Sprint(";W=", t.(*T).W) }, false)
	case "elem":
		doc = append(append([]byte(`[`), doc...), `]`...)
		i, o = huntDecBoth(doc, func() any { t := &[1]any{}; t[0] = &t[0]; return t },
			func(t any) string { return show(&t.(*[1]any)[0]) }, false)
	case "sliceelem":
		doc = append(append([]byte(`[`), doc...), `,2]`...)
		i, o = huntDecBoth(doc, func() any { t := &[]any{nil, nil}; (*t)[0] = &(*t)[0]; return t },
			func(t any) string { s := *t.(*[]any); return show(&s[0]) + fmt.Sprint(";len=", len(s)) }, false)
	case "other": // control: the interface holds the address of ANOTHER interface, which is decoded into
		i, o = huntDecBoth(doc, func() any { var y any = "old"; var x any = &y; return &x },
			func(t any) string {
				x := *t.(*any)
				if p, ok := x.(*any); ok {
					return "ptr->" + show(p)
				}
				return show(t.(*any))
			}, false)
	default:
		panic("hunt.json.selfptr: unknown shape " + a[0])
	}
	return i, o, ""
}

// ---- ccbe54c hunt.json.nullunsup <ctx> <which> <prior 0/1> <hex of the value text>: types json cannot decode --------------------

type huntUns struct {
	C chan int
	F func()
	Z complex128
	M map[float64]int
	B map[bool]string
	S map[struct{ A int }]int
	X int
}

func huntMkUns(prior bool) *huntUns {
	if !prior {
		return &huntUns{}
	}
	return &huntUns{C: make(chan int), F: func() {}, Z: complex(1, 2), M: map[float64]int{1: 1}, B: map[bool]string{true: "t"},
		S: map[struct{ A int }]int{{1}: 1}, X: 9}
}

func huntDumpUns(t any) string {
	u := t.(*huntUns)
	return fmt.Sprintf("C=%v F=%v Z=%v M=%v/%d B=%v/%d S=%v/%d X=%d", u.C != nil, u.F != nil, u.Z, u.M != nil, len(u.M), u.B != nil, len(u.B), u.S != nil, len(u.S), u.X)
}

func opHuntNullUnsup(a []string) (string, string, string) {
	prior := a[2] == "1"
	val := string(unhx(a[3]))
	var i, o string
	switch a[0] {
	case "field":
		doc := []byte(`{"X":1,"` + a[1] + `":` + val + `,"X":2}`)
		i, o = huntDecBoth(doc, func() any { return huntMkUns(prior) }, huntDumpUns, false)
	case "top":
		doc := []byte(val)
		var mk func() any
		var dump func(any) string
		switch a[1] {
		case "C":
			mk = func() any { return &huntMkUns(prior).C }
			dump = func(t any) string { return fmt.Sprint(*t.(*chan int) != nil) }
		case "F":
			mk = func() any { return &huntMkUns(prior).F }
			dump = func(t any) string { return fmt.Sprint(*t.(*func()) != nil) }
		case "Z":
			mk = func() any { return &huntMkUns(prior).Z }
			dump = func(t any) string { return fmt.Sprint(*t.(*complex128)) }
		case "M":
			mk = func() any { return &huntMkUns(prior).M }
			dump = func(t any) string { m := *t.(*map[float64]int); return fmt.Sprint(m != nil, len(m)) }
		case "B":
			mk = func() any { return &huntMkUns(prior).B }
			dump = func(t any) string { m := *t.(*map[bool]string); return fmt.Sprint(m != nil, len(m)) }
		case "S":
			mk = func() any { return &huntMkUns(prior).S }
			dump = func(t any) string { m := *t.(*map[struct{ A int }]int); return fmt.Sprint(m != nil, len(m)) }
		default:
			panic("hunt.json.nullunsup: unknown field " + a[1])
		}
		i, o = huntDecBoth(doc, mk, dump, false)
	case "elem": // an element of a slice, an array, a map; a pointer
		doc := []byte(`[` + val + `,` + val + `]`)
		switch a[1] {
		case "C":
			i, o = huntDecBoth(doc, func() any { return &[]chan int{huntMkUns(prior).C} },
				func(t any) string { s := *t.(*[]chan int); return fmt.Sprint(len(s), s[0] != nil, s[1] != nil) }, false)
		case "F":
			i, o = huntDecBoth(doc, func() any { return &[2]func(){huntMkUns(prior).F, nil} },
				func(t any) string { s := *t.(*[2]func()); return fmt.Sprint(s[0] != nil, s[1] != nil) }, false)
		case "Z":
			i, o = huntDecBoth(doc, func() any { return &[]*complex128{&huntMkUns(prior).Z} },
				func(t any) string { s := *t.(*[]*complex128); return fmt.Sprint(len(s), s[0] != nil, s[1] != nil) }, false)
		case "M":
			doc = []byte(`{"a":` + val + `,"b":` + val + `}`)
			i, o = huntDecBoth(doc, func() any { return &map[string]map[float64]int{"a": huntMkUns(prior).M} },
				func(t any) string {
					m := *t.(*map[string]map[float64]int)
					_, hasA := m["a"]
					_, hasB := m["b"]
					return fmt.Sprint(len(m), hasA, hasB, m["a"] != nil, m["b"] != nil)
				}, false)
		default:
			panic("hunt.json.nullunsup: unknown element " + a[1])
		}
	default:
		panic("hunt.json.nullunsup: unknown context " + a[0])
	}
	return i, o, ""
}

func genHuntJSONDecode(h *H) {
	for _, c := range huntDecCases {
		if c.risky {
			h.DoRisky("hunt.json.dec", c.name)
		} else {
			h.Do("hunt.json.dec", c.name)
		}
	}
}

// 661c0bb: every array size, document length and position of the misfit
func genHuntJSONArrElem(h *H) {
	for _, ctx := range []string{"top", "field", "lastfield", "nested", "sliceof", "mapval", "ptr", "malformed-after", "truncated"} {
		elems := []string{"int"}
		if ctx == "top" {
			elems = []string{"int", "string", "bool", "struct", "structfield", "uint8"}
		}
		for _, el := range elems {
			for n := 0; n <= 3; n++ {
				if n == 0 && ctx != "top" {
					continue
				}
				for total := n - 1; total <= n+1; total++ {
					for bad := -1; bad < total; bad++ {
						if bad == -1 && !(ctx == "top" && el == "int") {
							continue
						}
						if (ctx != "top" || el != "int") && n == 3 && bad == 1 {
							continue
						}
						h.Do("hunt.json.arrelem", ctx, el, strconv.Itoa(n), strconv.Itoa(total), strconv.Itoa(bad))
					}
				}
			}
		}
	}
}

// 3fe899b: the syntax of integer keys
func genHuntJSONIntKey(h *H) {
	syntax := []string{"1", "+1", "-1", "01", "-01", "+01", "00", "-0", "+0", "0", "", " 1", "1 ", "null", "true", "1e2", "1E2", "1.0", "1.", ".1",
		"0x10", "0b1", "0o7", "1_0", "٣", `\u0031`, `\u00312`, `\u0031\u0020`, `\u002b5`, `\u002d5`, "--1", "+-1", "+", "-", "1,2", "1a", `\"`}
	ranges := []string{"127", "128", "-128", "-129", "255", "256", "32767", "32768", "-32768", "-32769", "4294967295", "4294967296",
		"9223372036854775807", "9223372036854775808", "-9223372036854775808", "-9223372036854775809",
		"18446744073709551615", "18446744073709551616", "+18446744073709551615", "000000000000000000000000001", "99999999999999999999999999"}
	for _, kt := range []string{"int", "uint8", "int64", "named-uint32"} {
		for _, k := range syntax {
			h.Do("hunt.json.intkey", kt, hx([]byte(k)))
		}
	}
	for _, kt := range []string{"int8", "uint", "uint64", "uintptr", "named-int16"} {
		for _, k := range []string{"+1", "01", "-0", "null", "1 ", "", "1e2", `\u0031`} {
			h.Do("hunt.json.intkey", kt, hx([]byte(k)))
		}
	}
	for _, kt := range []string{"int8", "int64", "uint8", "uint64", "uintptr", "named-int16", "named-uint32"} {
		for _, k := range ranges {
			h.Do("hunt.json.intkey", kt, hx([]byte(k)))
		}
	}
}

// feda141: the content of a quoted literal
func genHuntJSONStrTag(h *H) {
	type lit struct {
		types []string
		texts []string
	}
	for _, l := range []lit{
		{[]string{"bool", "ptrbool"}, []string{"true", "false", "true ", " true", "false ", "true\\n", "tru\\u0065", "TRUE", "True", "t", "1", "0", "null", "null ", "", " ", "truefalse", "true,", `\"true\"`}},
		{[]string{"float64", "float32"}, []string{"1", "1.5", "1 ", " 1", "1\\t", "01", "-01", "00", "-.5", ".5", "1.", "-1.", "1.e2", "1e5", "1E+5", "1e", "0x10", "0x10p0", "-0x1p-2", "0X1P3",
			"-Inf", "Inf", "+Inf", "-inf", "-Infinity", "NaN", "-NaN", "nan", "+1", "-", "--1", "-+1", "1_0", "1_000.5", "0_1", "-0", "0", "1e400", "-1e400", "1e-400", "3.4e38", "3.5e38",
			"null", "null ", "", "1,2", "1x", "0b1", "0o7", "infinity", "1f", "١", `\"1\"`, "1\\u0000", "1.5\\u0020"}},
		{[]string{"ptrfloat64"}, []string{"1", "1 ", "01", "-.5", "0x10p0", "-Inf", "null", "null ", ""}},
		{[]string{"int", "uint8"}, []string{"1", "1 ", " 1", "01", "+1", "-1", "-0", "1.0", "1e2", "0x10", "255", "256", "null", "", "1_0", `\"1\"`}},
		{[]string{"string"}, []string{`\"a\"`, `\"a\" `, ` \"a\"`, `\"\"`, `\"`, `\"a`, `a`, `\"a\\tb\"`, `\"a\\\\tb\"`, `\"a\\u0009b\"`, `\"a\\u0000b\"`, `\"a\\u001fb\"`, `\"a\\u007fb\"`,
			`\"a\tb\"`, `\"a\u0009b\"`, `\"a\u0000b\"`, `\"a\u001fb\"`, `\"a\u007fb\"`, `\"a\nb\"`, `\"a\u0020b\"`,
			`\"a\\\\u0009b\"`, `\"a\\\\\\\\b\"`, `\"a\\\\b\"`, `\"a\\\"b\"`, `\"a\\\\\"b\"`, `\"é\"`, `\"a\"\"b\"`, "null", "null ", "", "1", "true", `\"a\"\\n`, `\"\\ud83d\\ude00\"`, `\"\\ud83d\"`, `\"\\\\ud83d\"`}},
	} {
		for _, ty := range l.types {
			for _, tx := range l.texts {
				h.Do("hunt.json.strtag", ty, hx([]byte(tx)))
			}
		}
	}
}

// f776a8a: keys that are equal to a field name under simple case folding (and a few that are not)
func genHuntJSONFold(h *H) {
	for _, k := range []string{"é", "É", "e", "E", "e\u0301", "E\u0301", "straße", "STRAßE", "Straße", "STRASSE", "strasse", "stra\u1e9ee", "STRA\u1e9eE", "\u017ftraße", "\u017ftra\u017f\u017fe",
		"ключ", "КЛЮЧ", "Ключ", "кЛюЧ", "kelvin", "KELVIN", "\u212aelvin", "\u212aELVIN", "size", "SIZE", "\u017fize", "\u017fIZE", "Size",
		"σίσυφος", "ΣΊΣΥΦΟΣ", "σίσυφοσ", "ςίςυφος", "Σίσυφος", "àéî", "ÀÉÎ", "Àéî", "aei", "tagged", "Tagged",
		"\u01c4ungla", "\u01c5ungla", "\u01c6ungla", "\u01c4UNGLA", "džungla", "ascii", "ASCII", "a\u017fcii", "A\u017fCII", "ASC\u0130I", "asc\u0131\u0131",
		"\u0130stanbul", "i\u0307stanbul", "istanbul", "ISTANBUL", "\u0131stanbul", "\u1e9e", "ß", "ss", "", "µ", "\u039c", "\u03bc"} {
		h.Do("hunt.json.fold", hx([]byte(k)))
	}
}

// 90775a6, 22630e8: what an earlier decode (or an earlier entry) left behind
func genHuntJSONLeftovers(h *H) {
	for _, el := range []string{"map", "struct", "ptrstruct", "slice", "array", "iface", "field"} {
		for n1 := 0; n1 <= 3; n1++ {
			for n2 := 0; n2 <= 3; n2++ {
				if (el == "slice" || el == "array" || el == "iface" || el == "field") && (n1 == 3 || n2 == 3) {
					continue
				}
				h.Do("hunt.json.emptyarr", el, strconv.Itoa(n1), strconv.Itoa(n2))
			}
		}
	}
	for _, ctx := range []string{"top", "prior", "field"} {
		for n1 := 0; n1 <= 3; n1++ {
			for n2 := 0; n2 <= 3; n2++ {
				for mask := 0; mask < 1<<n2; mask++ {
					if ctx != "top" && (n1 != 2 || mask == 0) {
						continue
					}
					h.Do("hunt.json.mssnull", strconv.Itoa(n1), strconv.Itoa(n2), strconv.Itoa(mask), ctx)
				}
			}
		}
	}
}

// 2937f9c, 27feb11, ccbe54c: what an interface holds; types without a decoder
func genHuntJSONIfaces(h *H) {
	for _, ctx := range []string{"top", "field", "elem", "mapval"} {
		for _, prior := range []string{"nil", "int", "string", "nilptr", "ptr", "ptrany", "map", "slice", "struct", "ptrstruct", "nilmap"} {
			for _, doc := range []string{`1`, `"x"`, `[2]`, `{"X":4}`, `null`, `true`} {
				if ctx != "field" && doc != `1` && doc != `null` && doc != `{"X":4}` {
					continue
				}
				h.Do("hunt.json.namedany", ctx, prior, hx([]byte(doc)))
			}
		}
	}
	for _, shape := range []string{"top", "field", "elem", "sliceelem", "other"} {
		for _, doc := range []string{`1`, `"a"`, `[1,2]`, `{"a":1}`, `null`, `true`, ` 2.5 `, `[]`, `{}`, `[null]`} {
			h.Do("hunt.json.selfptr", shape, hx([]byte(doc)))
		}
	}
	for _, which := range []string{"C", "F", "Z", "M", "B", "S"} {
		for _, prior := range []string{"0", "1"} {
			for _, val := range []string{"null", " null ", "1", `"s"`, "{}", `{"1":1}`} {
				h.Do("hunt.json.nullunsup", "field", which, prior, hx([]byte(val)))
				if val == "null" || val == "{}" {
					h.Do("hunt.json.nullunsup", "top", which, prior, hx([]byte(val)))
					if which == "C" || which == "F" || which == "Z" || which == "M" {
						h.Do("hunt.json.nullunsup", "elem", which, prior, hx([]byte(val)))
					}
				}
			}
		}
	}
}

// ---- 2fc3b60 hunt.json.depth <outer> <leaf> <k> <m>: k typed levels, then an interface, then m more levels -------------------
// The document is valid JSON exactly when k+m is at most 10000, whatever the interface holds: the levels below a
// pointer held by an interface (or below a named empty interface) count like all others.
// outer "arr": k nested [1]T arrays; outer "chain": k nested structs {N *node; V iface} (decoded in linear time, so that
// almost all of the depth can be spent there: the library needs quadratic time for deep values of interface type).

type huntChainA struct {
	N *huntChainA
	V any
}
type huntChainN struct {
	N *huntChainN
	V huntAnyI
}
type huntRecSlice []huntRecSlice

func opHuntDepth(a []string) (string, string, string) {
	k, m := atoi(a[2]), atoi(a[3])
	named := false
	var held func() any // what the interface holds before decoding
	switch a[1] {
	case "named-nil": // a nil named empty interface
		named, held = true, func() any { return nil }
	case "named-ptr": // a named empty interface holding a pointer
		named, held = true, func() any { return new(any) }
	case "named-ptr-typed":
		named, held = true, func() any { return new(huntRecSlice) }
	case "any-ptr": // a plain interface holding a pointer
		held = func() any { return new(any) }
	case "any-ptr-typed":
		held = func() any { return new(huntRecSlice) }
	case "any-ptr-chain": // each hop through an interface used to start a new count
		held = func() any {
			var x3 any
			var x2 any = &x3
			var x1 any = &x2
			return &x1
		}
	case "any-nil": // control
		held = func() any { return nil }
	default:
		panic("hunt.json.depth: unknown leaf " + a[1])
	}
	inner := strings.Repeat("[", m) + strings.Repeat("]", m)
	if m == 0 {
		inner = "1"
	}
	var mk func() any
	var doc string
	switch a[0] {
	case "arr":
		t := reflect.TypeOf((*any)(nil)).Elem()
		if named {
			t = reflect.TypeOf((*huntAnyI)(nil)).Elem()
		}
		for i := 0; i < k; i++ {
			t = reflect.ArrayOf(1, t)
		}
		mk = func() any {
			p := reflect.New(t)
			v := p.Elem()
			for i := 0; i < k; i++ {
				v = v.Index(0)
			}
			if x := held(); x != nil {
				v.Set(reflect.ValueOf(x))
			}
			return p.Interface()
		}
		doc = strings.Repeat("[", k) + inner + strings.Repeat("]", k)
	case "chain":
		if named {
			mk = func() any {
				root := &huntChainN{V: held()}
				for i := 1; i < k; i++ {
					root = &huntChainN{N: root}
				}
				return root
			}
		} else {
			mk = func() any {
				root := &huntChainA{V: held()}
				for i := 1; i < k; i++ {
					root = &huntChainA{N: root}
				}
				return root
			}
		}
		doc = strings.Repeat(`{"N":`, k-1) + `{"V":` + inner + strings.Repeat("}", k)
	default:
		panic("hunt.json.depth: unknown outer " + a[0])
	}
	i, o := huntDecBoth([]byte(doc), mk, func(any) string { return "" }, false)
	return i, o, ""
}

func genHuntJSONDepth(h *H) {
	// The library needs quadratic time to decode a deep value of interface type, and to report an error from deep inside
	// typed values, so the accepted documents spend their depth in the typed chain and the rejected ones in the interface.
	for _, leaf := range []string{"named-nil", "named-ptr", "any-ptr", "any-ptr-chain", "any-nil"} {
		for m := 97; m <= 100; m++ {
			h.DoRisky("hunt.json.depth", "chain", leaf, "9900", strconv.Itoa(m))
		}
		for k := 1; k <= 3; k++ {
			for total := 10001; total <= 10003; total++ {
				h.DoRisky("hunt.json.depth", "arr", leaf, strconv.Itoa(k), strconv.Itoa(total-k))
			}
		}
		h.DoRisky("hunt.json.depth", "chain", leaf, "3", "0")
		h.DoRisky("hunt.json.depth", "arr", leaf, "2", "0")
		h.DoRisky("hunt.json.depth", "arr", leaf, "40", "10000")
	}
	for _, leaf := range []string{"named-ptr-typed", "any-ptr-typed"} { // typed below the interface
		for _, k := range []int{1, 5000, 9900} {
			for total := 9998; total <= 10000; total++ {
				h.DoRisky("hunt.json.depth", "chain", leaf, strconv.Itoa(k), strconv.Itoa(total-k))
			}
		}
		h.DoRisky("hunt.json.depth", "arr", leaf, "3", "9997")
		h.DoRisky("hunt.json.depth", "chain", leaf, "1", "10000") // rejected (half a second)
	}
	h.DoRisky("hunt.json.depth", "arr", "named-nil", "1", "9999") // accepted (half a second)
}

// ---- 0d659f8 hunt.json.unquote <hex destination> <hex JSON string>: RawValue.AppendUnquote appends, once -------------------

func opHuntUnquote(a []string) (string, string, string) {
	dst, lit := unhx(a[0]), unhx(a[1])
	var want string
	if err := stdjson.Unmarshal(lit, &want); err != nil {
		panic("hunt.json.unquote: not a JSON string: " + string(lit))
	}
	// destination with spare capacity, and with none
	d1 := append(make([]byte, 0, len(dst)+64), dst...)
	d2 := append(make([]byte, 0, len(dst)), dst...)
	r1 := json.RawValue(lit).AppendUnquote(d1)
	r2 := json.RawValue(lit).AppendUnquote(d2)
	r3 := json.RawValue(lit).Unquote()
	exp := append(append([]byte{}, dst...), want...)
	impl := "ok:" + hx(r1) + "/" + hx(r2) + "/" + hx(r3)
	if !bytes.Equal(d1[:len(dst)], dst) || !bytes.Equal(d2[:len(dst)], dst) {
		impl += ";destination-changed"
	}
	return impl, "ok:" + hx(exp) + "/" + hx(exp) + "/" + hx([]byte(want)), ""
}

func genHuntJSONUnquote(h *H) {
	lits := []string{`""`, `"a"`, `"abc"`, `"a\nb"`, `"\n"`, `"é"`, `"\u00e9"`, `"aé"`, `"\\"`, `"\""`, `"a\/b"`, `"😀"`, `"\ud83d\ude00"`, `"\ud83d"`,
		`"x\u0000y"`, `"tab\there"`, `"` + strings.Repeat("a", 70) + `"`, `"` + strings.Repeat("a", 70) + `\n"`, `"\u0041"`, `"\t\t\t\t\t\t\t\t\t"`}
	for _, dst := range []string{"", "X", "XY", "XYZ", "\"q\"", "\\", "é", strings.Repeat("d", 33)} {
		for _, l := range lits {
			h.Do("hunt.json.unquote", hx([]byte(dst)), hx([]byte(l)))
		}
	}
}
