package main

import (
	"bytes"
	stdjson "encoding/json"
	"fmt"
	"os"
	"reflect"
	"strconv"
	"strings"

	"github.com/segmentio/encoding/json"
)

// C06 — json never panics, faults, overflows the stack or hangs. Every case runs in the supervised worker: a recoverable
// panic becomes the observable "panic:…", a fatal fault / stack overflow / time-out "fatal:…"; the expected observable of
// the crash-only ops is "returned".

// buildGraph realises a graph description (json.cycle) as a Go value: p = *any, s = []any, m = map[string]any.
func buildGraph(desc string, root int) any {
	parts := strings.Split(desc, ";")
	type gn struct {
		kind byte
		ch   []int
	}
	var nodes []gn
	for _, p := range parts {
		if p == "" {
			continue
		}
		kv := strings.SplitN(p, ":", 2)
		n := gn{kind: kv[0][0]}
		for _, c := range strings.Split(kv[1], ",") {
			if c != "" {
				n.ch = append(n.ch, atoi(c))
			}
		}
		nodes = append(nodes, n)
	}
	vals := make([]any, len(nodes))
	for i, n := range nodes {
		switch n.kind {
		case 'p':
			vals[i] = new(any)
		case 's':
			vals[i] = make([]any, len(n.ch))
		default:
			vals[i] = map[string]any{}
		}
	}
	val := func(id int) any {
		if id >= len(nodes) {
			return id
		}
		return vals[id]
	}
	for i, n := range nodes {
		switch n.kind {
		case 'p':
			if len(n.ch) > 0 {
				*(vals[i].(*any)) = val(n.ch[0])
			}
		case 's':
			for j, c := range n.ch {
				vals[i].([]any)[j] = val(c)
			}
		default:
			for j, c := range n.ch {
				vals[i].(map[string]any)[strconv.Itoa(j)] = val(c)
			}
		}
	}
	return val(root)
}

type cycT struct {
	Name string
	Next *cycT
	Any  any
	List []*cycT
	Map  map[string]*cycT
	Arr  [1]*cycT
}
type cycShape interface{ Area() int }
type cycRing struct {
	ID   int
	Next cycShape
}

func (r *cycRing) Area() int { return r.ID }

type cycAny interface{}
type cycSL []cycSL
type cycM map[string]cycM
type cycP *cycP

func init() {
	registry["C06"] = runC06
	fatalClass["json.deepmarshal"] = func(args []string) string {
		if atoi(args[0]) >= 500000 {
			return "jsonMarshalDeepAcyclic"
		}
		return ""
	}
	ops["json.cycle"] = func(a []string) (string, string, string) {
		v := buildGraph(a[1], atoi(a[0]))
		_, err := json.Marshal(v)
		if err != nil {
			return "err", "-", ""
		}
		return "ok", "-", ""
	}
	// json.deepmarshal <n>: an acyclic value nested n deep (known finding json-marshal-deep-acyclic: fatal beyond ~1e6)
	ops["json.deepmarshal"] = func(a []string) (string, string, string) {
		var v any = 1
		for i := 0; i < atoi(a[0]); i++ {
			v = []any{v}
		}
		_, err := json.Marshal(v)
		return "returned:" + b01(err == nil), "returned:1", "jsonMarshalDeepAcyclic"
	}
	// json.cyctyped <k>: cycles through typed pointers, slices, maps, arrays, interfaces of a struct; recursive named types
	ops["json.cyctyped"] = func(a []string) (string, string, string) {
		var v any
		switch atoi(a[0]) {
		case 0:
			t := &cycT{Name: "a"}
			t.Next = t
			v = t
		case 1:
			t := &cycT{}
			t.Any = t
			v = t
		case 2:
			t := &cycT{}
			t.List = []*cycT{nil, t}
			v = t
		case 3:
			t := &cycT{}
			t.Map = map[string]*cycT{"k": t}
			v = *t
		case 4:
			t := &cycT{}
			t.Arr[0] = t
			v = t
		case 5:
			t, u := &cycT{}, &cycT{}
			t.Any = []any{map[string]any{"u": u}}
			u.Next = t
			v = []*cycT{t}
		case 6:
			s := make(cycSL, 2)
			s[1] = s
			v = s
		case 7:
			m := cycM{}
			m["x"] = cycM{"y": m}
			v = m
		case 8:
			var p cycP
			p = cycP(&p)
			v = p
		case 9:
			t := &cycT{}
			t.Any = &t.Any
			v = t
		case 10:
			m := map[int]any{}
			m[1] = map[string]any{"a": []any{m}}
			v = m
		case 12: // through a non-empty interface type
			r := &cycRing{ID: 1}
			r.Next = r
			v = r
		case 13:
			r := &cycRing{ID: 2}
			l := []cycShape{nil, r}
			r.Next = &cycRing{ID: 3, Next: r}
			v = l
		case 14:
			r := &cycRing{ID: 4}
			m := map[string]cycShape{"r": r}
			r.Next = &cycRing{Next: m["r"]}
			v = m
		case 15: // through a named empty interface type
			s := []cycAny{nil}
			s[0] = s
			v = s
		default:
			s := make([]any, 1)
			s[0] = &s
			v = &s
		}
		var sb bytes.Buffer
		_, e1 := json.Marshal(v)
		_, e2 := json.Append(make([]byte, 0, 8), v, 0)
		e3 := json.NewEncoder(&sb).Encode(v)
		_, o1 := stdjson.Marshal(v)
		return b01(e1 == nil) + b01(e2 == nil) + b01(e3 == nil), b01(o1 == nil) + b01(o1 == nil) + b01(o1 == nil), ""
	}
	// json.rectype <k>: (acyclic) values of recursive named types, encode and decode, like encoding/json
	ops["json.rectype"] = func(a []string) (string, string, string) {
		var p0 cycP
		p1 := cycP(&p0)
		vals := []any{cycSL(nil), cycSL{}, cycSL{nil, cycSL{cycSL{}}}, cycM(nil), cycM{"a": cycM{"b": nil}, "c": cycM{}}, cycP(nil), p1, cycP(&p1),
			struct {
				A cycSL
				B *cycM
			}{cycSL{nil}, &cycM{"k": nil}}}
		v := vals[atoi(a[0])%len(vals)]
		i, e1 := json.Marshal(v)
		o, e2 := stdjson.Marshal(v)
		if (e1 == nil) != (e2 == nil) {
			return "err-differs", "-", ""
		}
		// decode back into a fresh value of the same type
		t1, t2 := reflect.New(reflect.TypeOf(v)), reflect.New(reflect.TypeOf(v))
		d1, d2 := json.Unmarshal(o, t1.Interface()), stdjson.Unmarshal(o, t2.Interface())
		r1, _ := stdjson.Marshal(t1.Interface())
		r2, _ := stdjson.Marshal(t2.Interface())
		return string(i) + ";" + b01(d1 == nil) + string(r1), string(o) + ";" + b01(d2 == nil) + string(r2), ""
	}
	// json.total.enc <subseed> <val|ptr>: every encode entry point returns
	ops["json.total.enc"] = func(a []string) (string, string, string) {
		sub, _ := strconv.ParseUint(a[0], 10, 64)
		t, v, feats := jsonCase(sub, false)
		if os.Getenv("VH_TRACE") != "" {
			fmt.Fprintf(os.Stderr, "TYPE %s\nVALUE %#v\nFEATS %v\n", t, v.Interface(), feats)
		}
		x := v.Interface()
		if a[1] == "ptr" {
			p := reflect.New(t)
			p.Elem().Set(v)
			x = p.Interface()
		}
		json.Marshal(x)
		json.MarshalIndent(x, "", " ")
		for fl := json.AppendFlags(0); fl < 8; fl++ {
			json.Append(nil, x, fl)
		}
		var sb bytes.Buffer
		en := json.NewEncoder(&sb)
		en.SetIndent(">", "\t")
		en.Encode(x)
		return "returned", "returned", ""
	}
	// json.total.dec <subseed> <hex doc or "-">: every decode entry point returns, whatever the document and the target
	ops["json.total.dec"] = func(a []string) (string, string, string) {
		sub, _ := strconv.ParseUint(a[0], 10, 64)
		hh := &H{rng: sub, Stats: map[string]int64{}}
		g := &jgen{h: hh, feats: map[string]bool{}, decode: true}
		t := g.ty(0)
		if hh.Intn(3) != 0 && t.Kind() != reflect.Struct {
			t = g.structTy(0)
		}
		var doc []byte
		if a[1] != "-" {
			doc = unhx(a[1])
		} else {
			src := g.val(t, 0)
			d, err := stdjson.Marshal(src.Interface())
			if err != nil {
				d = hh.genJSON(0)
			}
			doc = d
			for k := hh.Intn(4); k > 0; k-- {
				switch hh.Intn(3) {
				case 0:
					doc = hh.mutateDoc(doc)
				case 1:
					doc = hh.mutateJSON(doc)
				default: // truncate
					if len(doc) > 0 {
						doc = doc[:hh.Intn(len(doc))]
					}
				}
			}
		}
		if os.Getenv("VH_TRACE") != "" {
			fmt.Fprintf(os.Stderr, "TYPE %s\nDOC %q\n", t, doc)
		}
		prior := reflect.New(t).Elem()
		if hh.Intn(3) == 0 {
			prior = g.val(t, 0)
		}
		for m := 0; m < 7; m++ {
			tgt := reflect.New(t)
			tgt.Elem().Set(deepCopy(prior))
			in := append([]byte{}, doc...)
			switch m {
			case 0:
				json.Unmarshal(in, tgt.Interface())
			case 1:
				json.Parse(in, tgt.Interface(), json.ZeroCopy)
			case 2:
				json.Parse(in, tgt.Interface(), json.DisallowUnknownFields|json.UseNumber|json.DontMatchCaseInsensitiveStructFields)
			case 3:
				json.Parse(in, tgt.Interface(), json.UseBigInt|json.UseInt64|json.UseUint64)
			case 4:
				d := json.NewDecoder(bytes.NewReader(in))
				for i := 0; i < 4 && d.Decode(tgt.Interface()) == nil; i++ {
				}
			case 5:
				json.Unmarshal(in, tgt.Elem().Interface()) // non-pointer / by value
				json.Unmarshal(in, nil)
				var np *int
				json.Unmarshal(in, np)
			case 6:
				json.Valid(in)
				tk := json.NewTokenizer(in)
				for n := 0; tk.Next() && n < len(in)+8; n++ {
					switch tk.Kind().Class() {
					case json.String:
						tk.String()
					case json.Num:
						tk.Float()
						tk.Int()
						tk.Uint()
					case json.Bool:
						tk.Bool()
					}
				}
			}
		}
		return "returned", "returned", ""
	}
	// json.layout <k>: the pointer-shaped ("inlined") type layouts the codec unpacks by hand, by value and by pointer
	ops["json.layout"] = func(a []string) (string, string, string) {
		x := 7
		px := &x
		type one struct{ P *int }
		type oneM struct{ M map[string]int }
		type wrap struct{ O one }
		type fn struct{ F func() }
		type ch struct{ C chan int }
		vals := []any{[1]*int{px}, [1]*int{nil}, one{px}, one{}, wrap{one{px}}, [1]one{{px}}, [1][1]*int{{px}}, oneM{map[string]int{"a": 1}}, oneM{},
			[1]map[string]int{{"k": 2}}, struct{ A [1]*one }{[1]*one{{px}}}, [0]*int{}, struct{}{}, [1]struct{}{}, struct{ E struct{} }{},
			[1]any{px}, [1]any{nil}, struct{ I any }{px}, [1]func(){nil}, fn{}, ch{}, [1]chan int{nil}, struct{ P **int }{&px}, [1]**int{&px},
			struct{ U uintptr }{1}, [1]uintptr{2}, struct{ P *[1]*int }{&[1]*int{px}}}
		v := vals[atoi(a[0])%len(vals)]
		pv := reflect.New(reflect.TypeOf(v))
		pv.Elem().Set(reflect.ValueOf(v))
		var i, o strings.Builder
		for _, y := range []any{v, pv.Interface()} {
			b1, e1 := json.Marshal(y)
			b2, e2 := stdjson.Marshal(y)
			fmt.Fprintf(&i, "%s/%v;", b1, e1 == nil)
			fmt.Fprintf(&o, "%s/%v;", b2, e2 == nil)
			if e2 == nil {
				t1, t2 := reflect.New(reflect.TypeOf(v)), reflect.New(reflect.TypeOf(v))
				d1, d2 := json.Unmarshal(b2, t1.Interface()), stdjson.Unmarshal(b2, t2.Interface())
				r1, _ := stdjson.Marshal(t1.Interface())
				r2, _ := stdjson.Marshal(t2.Interface())
				fmt.Fprintf(&i, "%v%s;", d1 == nil, r1)
				fmt.Fprintf(&o, "%v%s;", d2 == nil, r2)
			}
		}
		return i.String(), o.String(), ""
	}
}

// genGraph: small random graphs (cyclic or not) plus long chains that cross the detection threshold
func (h *H) genGraph() (string, int) {
	n := 1 + h.Intn(9)
	var sb strings.Builder
	acyclic := h.Intn(3) == 0
	for i := 0; i < n; i++ {
		k := "psm"[h.Intn(3)]
		deg := h.Intn(3)
		if k == 'p' {
			deg = 1
		}
		fmt.Fprintf(&sb, "%c:", k)
		for j := 0; j < deg; j++ {
			c := h.Intn(n + 2)
			if acyclic {
				c = i + 1 + h.Intn(n+1-i) // edges go forward only
			}
			if j > 0 {
				sb.WriteByte(',')
			}
			sb.WriteString(strconv.Itoa(c))
		}
		sb.WriteByte(';')
	}
	return sb.String(), 0
}

func chainGraph(n int, kinds string, closeTo int) string {
	var sb strings.Builder
	for i := 0; i < n; i++ {
		next := i + 1
		if i == n-1 && closeTo >= 0 {
			next = closeTo
		}
		fmt.Fprintf(&sb, "%c:%d;", kinds[i%len(kinds)], next)
	}
	return sb.String()
}

func runC06(h *H) {
	for k := 0; k < 17; k++ {
		h.DoRisky("json.cyctyped", strconv.Itoa(k))
	}
	for k := 0; k < 9; k++ {
		h.DoRisky("json.rectype", strconv.Itoa(k))
	}
	for k := 0; k < 27; k++ {
		h.DoRisky("json.layout", strconv.Itoa(k))
	}
	// chains around the detection threshold: acyclic (must encode), closed at the start / in the middle / on itself
	for _, n := range []int{1, 2, 998, 999, 1000, 1001, 1002, 2500} {
		for _, kinds := range []string{"p", "s", "m", "psm", "ms"} {
			h.DoRisky("json.cycle", "0", chainGraph(n, kinds, -1))
			h.DoRisky("json.cycle", "0", chainGraph(n, kinds, 0))
			h.DoRisky("json.cycle", "0", chainGraph(n, kinds, n/2))
			h.DoRisky("json.cycle", "0", chainGraph(n, kinds, n-1))
		}
	}
	G := 300
	if h.Thorough() {
		G = 6000
	}
	for i := 0; i < G; i++ {
		g, r := h.genGraph()
		h.DoRisky("json.cycle", strconv.Itoa(r), g)
	}
	N := 1200
	if h.Thorough() {
		N = 30000
	}
	for i := 0; i < N; i++ {
		h.DoRisky("json.total.enc", strconv.FormatUint(h.U64(), 10), h.Pick([]string{"val", "ptr"}))
		h.DoRisky("json.total.dec", strconv.FormatUint(h.U64(), 10), "-")
		if i%4 == 0 { // arbitrary bytes into a random target
			n := h.Intn(24)
			d := make([]byte, n)
			for j := range d {
				d[j] = jsonAlphabet[h.Intn(len(jsonAlphabet))]
			}
			h.DoRisky("json.total.dec", strconv.FormatUint(h.U64(), 10), hxz(d))
		}
	}
	h.DoRisky("json.deepmarshal", "100000")
	// deep documents through every entry point (was: fatal stack overflow)
	for _, k := range []string{"arr", "obj", "mix"} {
		h.DoRisky("json.depth", k, "2000000")
	}
}
