package main

import (
	"bytes"
	stdjson "encoding/json"
	"fmt"
	"math"
	"math/big"
	"reflect"
	"regexp"
	"sort"
	"strconv"
	"strings"

	"github.com/segmentio/encoding/proto"
)

// Rewrite templates, type-directed (driver: lean/Enc/Driver/ProtoTemplate.lean)
//
//	proto.typeof    <ty>                                                      I = proto.TypeOf(t) as the driver's showTType prints it
//	proto.tmpltree  <ty> <template hex> <rules> <floats>                      I = the REAL rewriter tree (walked with reflect)
//	proto.tmplvalue <ty> <template hex> <rules> <floats> <input hex> [<I>]    I = ok:<output hex> | err | template-err
//	                                                                          O = reflect-based value-level oracle (Go side)
//
//	<rules>  : - | rules <k> (<name hex> X)*k     X = bitor <T> | sub rules … | other       T = int i32 i64 uint u32 u64
//	<floats> : - | <literal hex>:<bits32|e>:<bits64|e>,…   strconv.ParseFloat of every number literal of the template text
//	tree     : raw <hex> | multi <n> R*n | msg <len> <k> (<idx> R)*k | emb <num> <len> <k> (<idx> R)*k | embm … | repl R
//	           | bitor <T> <mask as uint64> <kind name> <field number>
//
// parseRewriteTemplateMap ranges over a Go map: the entries of a templated map come in Go's random order. The model lists
// them sorted bytewise by key text; both ops build the rewriter again (up to 500 times) until every templated map of the
// real tree has its entries in that order.

func init() {
	ops["proto.typeof"] = opTypeOf
	ops["proto.tmpltree"] = opTmplTree
	ops["proto.tmplvalue"] = opTmplValue
}

// ---- proto.typeof ------------------------------------------------------------------------------------------------

func showPType(t proto.Type) string {
	switch t.Kind() {
	case proto.Map:
		return "map<" + showPType(t.Key()) + "," + showPType(t.Elem()) + ">"
	case proto.Struct:
		var sb strings.Builder
		sb.WriteString("msg{")
		for i := 0; i < t.NumField(); i++ {
			f := t.Field(i)
			fmt.Fprintf(&sb, "%s:%d:%s:%s;", hx([]byte(f.Name)), uint64(f.Number), b01(f.Repeated), showPType(f.Type))
		}
		sb.WriteString("}")
		return sb.String()
	}
	return t.Name()
}

func opTypeOf(a []string) (i, o, k string) {
	t := parseTy(a[0])
	defer func() {
		if r := recover(); r != nil {
			i, o, k = "panic", "-", ""
		}
	}()
	return showPType(proto.TypeOf(t.Reflect())), "-", ""
}

// ---- rules -------------------------------------------------------------------------------------------------------

type tvRule struct {
	kind string // bitor sub other
	T    string
	sub  map[string]*tvRule
}

func tvParseRules(p *toks) (proto.RewriterRules, map[string]*tvRule) {
	if p.next() != "rules" {
		panic("expected rules")
	}
	k := atoi(p.next())
	rr, m := proto.RewriterRules{}, map[string]*tvRule{}
	for i := 0; i < k; i++ {
		name := string(unhx(p.next()))
		switch x := p.next(); x {
		case "bitor":
			T := p.next()
			m[name] = &tvRule{kind: "bitor", T: T}
			switch T {
			case "int":
				rr[name] = proto.BitOr[int]{}
			case "i32":
				rr[name] = proto.BitOr[int32]{}
			case "i64":
				rr[name] = proto.BitOr[int64]{}
			case "uint":
				rr[name] = proto.BitOr[uint]{}
			case "u32":
				rr[name] = proto.BitOr[uint32]{}
			case "u64":
				rr[name] = proto.BitOr[uint64]{}
			default:
				panic("bad bitor type " + T)
			}
		case "sub":
			sr, sm := tvParseRules(p)
			rr[name] = sr
			m[name] = &tvRule{kind: "sub", sub: sm}
		case "other":
			rr[name] = 7
			m[name] = &tvRule{kind: "other"}
		default:
			panic("bad rule " + x)
		}
	}
	return rr, m
}

func tvRulesArg(s string) ([]proto.RewriterRules, map[string]*tvRule) {
	if s == "-" {
		return nil, nil
	}
	p := &toks{t: strings.Fields(s)}
	rr, m := tvParseRules(p)
	if p.i != len(p.t) {
		panic("trailing tokens in rules")
	}
	return []proto.RewriterRules{rr}, m
}

// ---- the real rewriter tree ---------------------------------------------------------------------------------------

type rwN struct {
	k    string // raw multi msg emb embm repl bitor
	raw  []byte
	kids []*rwN // multi: the rewriters; repl: one
	num  uint64 // emb / embm: number; bitor: field number
	ln   int    // msg / emb: len(table)
	idx  []int  // msg / emb: indices of the non-nil entries
	ents []*rwN
	bt   string // bitor: T
	mask uint64
	kind string // bitor: name of the proto type
}

func (n *rwN) ent(i int) *rwN {
	for j, x := range n.idx {
		if x == i {
			return n.ents[j]
		}
	}
	return nil
}

// tvTree reads a Rewriter built by ParseRewriteTemplate (the types are unexported: reflect, read-only accessors)
func tvTree(v reflect.Value) *rwN {
	for v.Kind() == reflect.Interface {
		v = v.Elem()
	}
	table := func(n *rwN, m reflect.Value) {
		n.ln = m.Len()
		for i := 0; i < m.Len(); i++ {
			if e := m.Index(i); !e.IsNil() {
				n.idx = append(n.idx, i)
				n.ents = append(n.ents, tvTree(e))
			}
		}
	}
	ts := v.Type().String()
	switch {
	case ts == "proto.RawMessage":
		return &rwN{k: "raw", raw: append([]byte{}, v.Bytes()...)}
	case ts == "*proto.multiRewriter":
		rs := v.Elem().Field(0)
		n := &rwN{k: "multi"}
		for i := 0; i < rs.Len(); i++ {
			n.kids = append(n.kids, tvTree(rs.Index(i)))
		}
		return n
	case ts == "proto.MessageRewriter":
		n := &rwN{k: "msg"}
		table(n, v)
		return n
	case ts == "*proto.embddedRewriter":
		s := v.Elem()
		n := &rwN{k: "emb", num: s.Field(0).Uint()}
		if s.Field(2).Bool() {
			n.k = "embm"
		}
		table(n, s.Field(1))
		return n
	case ts == "proto.replacement":
		return &rwN{k: "repl", kids: []*rwN{tvTree(v.Field(0))}}
	case strings.HasPrefix(ts, "proto.bitOrRW["):
		n := &rwN{k: "bitor", num: v.Field(2).Uint()}
		m := v.Field(0)
		switch m.Kind() {
		case reflect.Int:
			n.bt, n.mask = "int", uint64(m.Int())
		case reflect.Int32:
			n.bt, n.mask = "i32", uint64(m.Int())
		case reflect.Int64:
			n.bt, n.mask = "i64", uint64(m.Int())
		case reflect.Uint:
			n.bt, n.mask = "uint", m.Uint()
		case reflect.Uint32:
			n.bt, n.mask = "u32", m.Uint()
		case reflect.Uint64:
			n.bt, n.mask = "u64", m.Uint()
		}
		// t is a proto.Type holding a *primitiveType{name, …} (BitOrRewriter accepts the integer kinds only)
		n.kind = v.Field(1).Elem().Elem().Field(0).String()
		return n
	}
	panic("unknown rewriter type " + ts)
}

func (n *rwN) show(sb *strings.Builder) {
	switch n.k {
	case "raw":
		sb.WriteString("raw " + hx(n.raw))
	case "multi":
		fmt.Fprintf(sb, "multi %d", len(n.kids))
		for _, c := range n.kids {
			sb.WriteString(" ")
			c.show(sb)
		}
	case "msg":
		fmt.Fprintf(sb, "msg %d %d", n.ln, len(n.idx))
	case "emb", "embm":
		fmt.Fprintf(sb, "%s %d %d %d", n.k, n.num, n.ln, len(n.idx))
	case "repl":
		sb.WriteString("repl ")
		n.kids[0].show(sb)
	case "bitor":
		fmt.Fprintf(sb, "bitor %s %d %s %d", n.bt, n.mask, n.kind, n.num)
	}
	if n.k == "msg" || n.k == "emb" || n.k == "embm" {
		for j, i := range n.idx {
			fmt.Fprintf(sb, " %d ", i)
			n.ents[j].show(sb)
		}
	}
}

func tvFieldByNumber(t proto.Type, num int) (proto.Field, bool) {
	for i := t.NumField() - 1; i >= 0; i-- {
		if f := t.Field(i); int(f.Number) == num {
			return f, true
		}
	}
	return proto.Field{}, false
}

// tvKeyText: the key of a map-entry rewriter as the text a template writes it with
func tvKeyText(entry *rwN, kt proto.Type) string {
	var val uint64
	var str []byte
	if k := entry.ent(1); k != nil && k.k == "raw" {
		if recs, ok := wireParse(k.raw); ok && len(recs) == 1 {
			switch recs[0].wt {
			case 0:
				val, _ = uvarint(recs[0].val)
			case 2:
				str = recs[0].val
			}
		}
	}
	switch kt.Kind() {
	case proto.Bool:
		return strconv.FormatBool(val != 0)
	case proto.Int32, proto.Int64:
		return strconv.FormatInt(int64(val), 10)
	case proto.Uint32, proto.Uint64:
		return strconv.FormatUint(val, 10)
	case proto.String:
		return string(str)
	}
	return "?"
}

// tvSorted: every templated map below the table n (of message type t) has its entries in bytewise key order
func tvSorted(n *rwN, t proto.Type) bool {
	for j, idx := range n.idx {
		f, ok := tvFieldByNumber(t, idx)
		if !ok {
			continue
		}
		e := n.ents[j]
		if e.k == "repl" {
			e = e.kids[0]
		}
		kids := []*rwN{e}
		if e.k == "multi" {
			kids = e.kids
		}
		switch f.Type.Kind() {
		case proto.Map:
			var keys []string
			for _, c := range kids {
				if c.k != "emb" && c.k != "embm" {
					continue
				}
				keys = append(keys, tvKeyText(c, f.Type.Key()))
				if f.Type.Elem().Kind() == proto.Struct {
					if v := c.ent(2); v != nil && (v.k == "emb" || v.k == "embm") && !tvSorted(v, f.Type.Elem()) {
						return false
					}
				}
			}
			if !sort.StringsAreSorted(keys) {
				return false
			}
		case proto.Struct:
			for _, c := range kids {
				if (c.k == "emb" || c.k == "embm") && !tvSorted(c, f.Type) {
					return false
				}
			}
		}
	}
	return true
}

// tvBuild: the rewriter for (type, template, rules), rebuilt until its map entries are in the canonical order
func tvBuild(t *Ty, tmpl []byte, rulesArg string) (proto.Rewriter, *rwN, string) {
	typ := proto.TypeOf(t.Reflect())
	for try := 0; try < 500; try++ {
		rules, _ := tvRulesArg(rulesArg) // fresh rule maps every time
		var rw proto.Rewriter
		var err error
		if rules == nil {
			rw, err = proto.ParseRewriteTemplate(typ, tmpl)
		} else {
			rw, err = proto.ParseRewriteTemplate(typ, tmpl, rules...)
		}
		if err != nil {
			return nil, nil, "template-err"
		}
		tree := tvTree(reflect.ValueOf(rw))
		if tree.k != "msg" || tvSorted(tree, typ) {
			return rw, tree, ""
		}
	}
	return nil, nil, "map-order-unreachable"
}

func opTmplTree(a []string) (string, string, string) {
	t := parseTy(a[0])
	_, tree, st := tvBuild(t, unhx(a[1]), a[2])
	if st != "" {
		return st, "-", ""
	}
	var sb strings.Builder
	tree.show(&sb)
	return sb.String(), "-", ""
}

// ---- proto.tmplvalue ---------------------------------------------------------------------------------------------

func opTmplValue(a []string) (string, string, string) {
	t := parseTy(a[0])
	tmpl := unhx(a[1])
	tmplCopy := append([]byte{}, tmpl...)
	in := unhx(a[4])
	inCopy := append([]byte{}, in...)
	_, rmap := tvRulesArg(a[2])
	known := tvKnown(t, tmplCopy, rmap)
	rw, _, st := tvBuild(t, tmpl, a[2])
	if st != "" {
		return st, "-", known
	}
	out, err := rw.Rewrite(nil, in)
	if err != nil {
		return "err", "-", known
	}
	if !bytes.Equal(in, inCopy) || !bytes.Equal(tmpl, tmplCopy) {
		return "input-modified", "-", known
	}
	snap := append([]byte{}, out...)
	out2, err2 := rw.Rewrite([]byte{0xde, 0xad}, in)
	if err2 != nil || len(out2) < 2 || !bytes.Equal(out2[2:], snap) || !bytes.Equal(out, snap) {
		return "rewriter-not-reusable", "-", known
	}
	impl := "ok:" + hx(out)
	// oracle: the template applied to the decoded input, compared with the decoded output
	cur := reflect.New(t.Reflect())
	if proto.Unmarshal(in, cur.Interface()) != nil {
		return impl, "-", known
	}
	if !tvApply(t, cur.Elem(), tmplCopy, rmap) {
		return impl, "-", known
	}
	got := reflect.New(t.Reflect())
	if proto.Unmarshal(out, got.Interface()) != nil {
		nilDefaults(cur.Elem())
		return impl, "want:" + showVal(t, cur.Elem(), true) + " got:output-invalid", known
	}
	nilDefaults(cur.Elem())
	nilDefaults(got.Elem())
	w, g := showVal(t, cur.Elem(), true), showVal(t, got.Elem(), true)
	if w == g {
		return impl, impl, known
	}
	return impl, "want:" + w, known
}

// tvFieldName: the name a template uses for a field (name= of the protobuf tag, else the Go name)
func tvFieldName(f Field) string {
	if i := strings.Index(f.Tag, `protobuf:"`); i >= 0 {
		v := f.Tag[i+10:]
		if j := strings.IndexByte(v, '"'); j >= 0 {
			name := ""
			for k, p := range strings.Split(v[:j], ",") {
				if k >= 3 && strings.HasPrefix(p, "name=") {
					name = p[5:]
				}
			}
			return name
		}
	}
	return f.Name
}

func tvWire(f Field) string {
	if i := strings.Index(f.Tag, `protobuf:"`); i >= 0 {
		v := f.Tag[i+10:]
		if j := strings.IndexByte(v, ','); j >= 0 {
			return v[:j]
		}
	}
	return ""
}

func tvFieldIndex(st *Ty, name string) int {
	idx := -1
	for i, f := range st.Fields {
		if tvFieldName(f) == name {
			idx = i
		}
	}
	return idx
}

func tvIsNull(j []byte) bool { return string(bytes.TrimSpace(j)) == "null" }

var tvIntBits = map[string]int{"int": 64, "i32": 32, "i64": 64, "uint": 64, "u32": 32, "u64": 64}

func tvSigned(k string) bool { return k == "int" || k == "i32" || k == "i64" }

// tvApply: the documented meaning of a template, on a decoded message (v: addressable struct value of type t)
func tvApply(t *Ty, v reflect.Value, tmpl []byte, rules map[string]*tvRule) bool {
	st := baseOf(t)
	var m map[string]stdjson.RawMessage
	if stdjson.Unmarshal(tmpl, &m) != nil {
		return false
	}
	for k, j := range m {
		i := tvFieldIndex(st, k)
		if i < 0 {
			return false
		}
		if !tvApplyField(st.Fields[i].T, v.Field(i), j, rules[k]) {
			return false
		}
	}
	return true
}

func tvApplyField(ft *Ty, fv reflect.Value, j []byte, rule *tvRule) bool {
	if ft.K == "sl" && !isByteSeq(ft) {
		if rule != nil && rule.kind == "bitor" {
			return false
		}
		var es []stdjson.RawMessage
		if stdjson.Unmarshal(j, &es) != nil {
			return false
		}
		ns := reflect.MakeSlice(fv.Type(), 0, len(es))
		for _, ej := range es {
			e := reflect.New(fv.Type().Elem()).Elem()
			if !tvSetVal(ft.Elem, e, ej, nil) {
				return false
			}
			ns = reflect.Append(ns, e)
		}
		fv.Set(ns)
		return true
	}
	if b := baseOf(ft); b.K == "map" && ft.K == "map" {
		var es map[string]stdjson.RawMessage
		if stdjson.Unmarshal(j, &es) != nil {
			return false
		}
		nm := reflect.MakeMap(fv.Type())
		for k, ej := range es {
			kv := reflect.New(fv.Type().Key()).Elem()
			switch b.Key.K {
			case "str":
				kv.SetString(k)
			case "bool":
				if k != "true" && k != "false" {
					return false
				}
				kv.SetBool(k == "true")
			default:
				bits, ok := tvIntBits[b.Key.K]
				if !ok {
					return false
				}
				if tvSigned(b.Key.K) {
					x, err := strconv.ParseInt(k, 10, bits)
					if err != nil {
						return false
					}
					kv.SetInt(x)
				} else {
					x, err := strconv.ParseUint(k, 10, bits)
					if err != nil {
						return false
					}
					kv.SetUint(x)
				}
			}
			ev := reflect.New(fv.Type().Elem()).Elem()
			if !tvSetVal(b.Elem, ev, ej, nil) {
				return false
			}
			nm.SetMapIndex(kv, ev)
		}
		fv.Set(nm)
		return true
	}
	return tvSetVal(ft, fv, j, rule)
}

func tvSetVal(t *Ty, v reflect.Value, j []byte, rule *tvRule) bool {
	for v.Kind() == reflect.Ptr {
		if v.IsNil() {
			v.Set(reflect.New(v.Type().Elem()))
		}
		v = v.Elem()
	}
	b := baseOf(t)
	lit := string(bytes.TrimSpace(j))
	if rule != nil && rule.kind == "bitor" {
		bits, ok := tvIntBits[b.K]
		if !ok {
			return false
		}
		_ = bits
		if lit == "null" {
			return true
		}
		if tvSigned(rule.T) {
			m, err := strconv.ParseInt(lit, 10, tvIntBits[rule.T])
			if err != nil {
				return false
			}
			if tvSigned(b.K) {
				v.SetInt(v.Int() | m)
			} else {
				v.SetUint(v.Uint() | uint64(m))
			}
		} else {
			m, err := strconv.ParseUint(lit, 10, tvIntBits[rule.T])
			if err != nil {
				return false
			}
			if tvSigned(b.K) {
				v.SetInt(v.Int() | int64(m))
			} else {
				v.SetUint(v.Uint() | m)
			}
		}
		return true
	}
	if b.K == "st" {
		var sub map[string]*tvRule
		if rule != nil && rule.kind == "sub" {
			sub = rule.sub
		}
		return tvApply(b, v, j, sub)
	}
	if lit == "null" {
		v.Set(reflect.Zero(v.Type()))
		return true
	}
	switch {
	case b.K == "bool":
		if lit != "true" && lit != "false" {
			return false
		}
		v.SetBool(lit == "true")
	case b.K == "f32" || b.K == "f64":
		bits := 64
		if b.K == "f32" {
			bits = 32
		}
		if !tvNumRe.MatchString(lit) {
			return false
		}
		f, err := strconv.ParseFloat(lit, bits)
		if err != nil {
			return false
		}
		v.SetFloat(f)
	case b.K == "str" || isByteSeq(b):
		var s string
		if len(lit) == 0 || lit[0] != '"' || stdjson.Unmarshal(j, &s) != nil {
			return false
		}
		if v.Kind() == reflect.String {
			v.SetString(s)
		} else {
			v.SetBytes([]byte(s))
		}
	default:
		bits, ok := tvIntBits[b.K]
		if !ok {
			return false
		}
		if tvSigned(b.K) {
			x, err := strconv.ParseInt(lit, 10, bits)
			if err != nil {
				return false
			}
			v.SetInt(x)
		} else {
			x, err := strconv.ParseUint(lit, 10, bits)
			if err != nil {
				return false
			}
			v.SetUint(x)
		}
	}
	return true
}

// ---- known classes, on the JSON ------------------------------------------------------------------------------------

// tvZeroTmpl: a template value that denotes the zero value of the type t (for a message: all of its values do)
func tvZeroTmpl(t *Ty, j []byte) bool {
	lit := string(bytes.TrimSpace(j))
	b := baseOf(t)
	switch {
	case lit == "null" || lit == "false" || lit == `""`:
		return true
	case lit == "":
		return false
	case lit[0] == '[':
		// a repeated field of an element: the empty list writes nothing (its zero elements are found by tvRepZero)
		var es []stdjson.RawMessage
		return stdjson.Unmarshal(j, &es) == nil && len(es) == 0
	case lit[0] == '{':
		var m map[string]stdjson.RawMessage
		if stdjson.Unmarshal(j, &m) != nil {
			return false
		}
		if b.K == "map" {
			return len(m) == 0
		}
		for k, v := range m {
			var ft *Ty
			if b.K == "st" {
				if i := tvFieldIndex(b, k); i >= 0 {
					ft = b.Fields[i].T
				}
			}
			if ft == nil || !tvZeroTmpl(ft, v) {
				return false
			}
		}
		return true
	case tvNumRe.MatchString(lit):
		bits := 64
		if b.K == "f32" {
			bits = 32
		}
		f, err := strconv.ParseFloat(lit, bits)
		return err == nil && f == 0
	}
	return false
}

func tvRepZero(t *Ty, tmpl []byte) bool {
	st := baseOf(t)
	if st.K != "st" {
		return false
	}
	var m map[string]stdjson.RawMessage
	if stdjson.Unmarshal(tmpl, &m) != nil {
		return false
	}
	for k, j := range m {
		i := tvFieldIndex(st, k)
		if i < 0 {
			continue
		}
		ft := st.Fields[i].T
		b := baseOf(ft)
		switch {
		case ft.K == "sl" && !isByteSeq(ft):
			var es []stdjson.RawMessage
			if stdjson.Unmarshal(j, &es) != nil {
				continue
			}
			for _, e := range es {
				if tvZeroTmpl(ft.Elem, e) || tvRepZero(ft.Elem, e) {
					return true
				}
			}
		case b.K == "map":
			var es map[string]stdjson.RawMessage
			if stdjson.Unmarshal(j, &es) != nil {
				continue
			}
			for key, e := range es {
				// an entry whose key and value are both zero compiles to nothing, like a zero element of a list
				if (key == "" || key == "0" || key == "-0" || key == "false") && tvZeroTmpl(b.Elem, e) {
					return true
				}
				if tvRepZero(b.Elem, e) {
					return true
				}
			}
		case b.K == "st":
			if tvRepZero(b, j) {
				return true
			}
		}
	}
	return false
}

func tvBitOrZF(t *Ty, rules map[string]*tvRule) bool {
	st := baseOf(t)
	if st.K != "st" {
		return false
	}
	for name, r := range rules {
		i := tvFieldIndex(st, name)
		if i < 0 {
			continue
		}
		switch r.kind {
		case "bitor":
			if w := tvWire(st.Fields[i]); strings.HasPrefix(w, "zigzag") || strings.HasPrefix(w, "fixed") {
				return true
			}
		case "sub":
			if tvBitOrZF(st.Fields[i].T, r.sub) {
				return true
			}
		}
	}
	return false
}

func tvKnown(t *Ty, tmpl []byte, rules map[string]*tvRule) string {
	var ks []string
	if tvBitOrZF(t, rules) {
		ks = append(ks, "protoBitOrZigzagFixed")
	}
	if tvRepZero(t, tmpl) {
		ks = append(ks, "protoTemplateRepeatedZero")
	}
	return strings.Join(ks, ",")
}

// ---- <floats> ------------------------------------------------------------------------------------------------------

var tvNumRe = regexp.MustCompile(`^-?[0-9]+(\.[0-9]+)?([eE][+-]?[0-9]+)?$`)

// tvFloats: strconv.ParseFloat of every number literal of the template text (and of every number-looking string)
func tvFloats(text string) string {
	seen := map[string]bool{}
	var lits []string
	add := func(l string) {
		if l != "" && !seen[l] {
			seen[l] = true
			lits = append(lits, l)
		}
	}
	for i := 0; i < len(text); {
		c := text[i]
		switch {
		case c == '"':
			j := i + 1
			for j < len(text) && text[j] != '"' {
				if text[j] == '\\' {
					j++
				}
				j++
			}
			if j < len(text) && tvNumRe.MatchString(text[i+1:j]) {
				add(text[i+1 : j])
			}
			i = j + 1
		case c == '-' || (c >= '0' && c <= '9'):
			j := i
			for j < len(text) && strings.IndexByte("-+.eE0123456789", text[j]) >= 0 {
				j++
			}
			add(text[i:j])
			i = j
		default:
			i++
		}
	}
	if len(lits) == 0 {
		return "-"
	}
	var out []string
	for _, l := range lits {
		b32, b64 := "e", "e"
		if f, err := strconv.ParseFloat(l, 32); err == nil {
			b32 = strconv.FormatUint(uint64(math.Float32bits(float32(f))), 10)
		}
		if f, err := strconv.ParseFloat(l, 64); err == nil {
			b64 = strconv.FormatUint(math.Float64bits(f), 10)
		}
		out = append(out, hx([]byte(l))+":"+b32+":"+b64)
	}
	return strings.Join(out, ",")
}

// ---- generator -----------------------------------------------------------------------------------------------------

var tvNumbers = []int{1, 15, 16, 255, 256, 257, 4095, 65535}

// genTVStruct: a message type for templates; all fields tagged or none
func (h *H) genTVStruct(depth int) *Ty {
	n := 1 + h.Intn(6)
	if depth > 0 {
		n = 1 + h.Intn(4)
	}
	t := &Ty{K: "st"}
	tagged := h.Intn(5) < 2
	used := map[int]bool{}
	scalars := []string{"bool", "i32", "i64", "int", "u32", "u64", "uint", "f32", "f64", "str", "bytes"}
	for i := 0; i < n; i++ {
		var ft *Ty
		switch r := h.Intn(16); {
		case r < 8:
			ft = &Ty{K: scalars[h.Intn(len(scalars))]}
		case r < 10 && depth < 2:
			ft = h.genTVStruct(depth + 1)
			if h.Bool() {
				ft = &Ty{K: "ptr", Elem: ft}
			}
		case r < 11 && depth < 2:
			ft = &Ty{K: "sl", Elem: h.genTVStruct(2)}
			if h.Intn(4) == 0 {
				ft.Elem = &Ty{K: "ptr", Elem: ft.Elem} // []*T
			}
		case r < 13:
			ft = &Ty{K: "sl", Elem: &Ty{K: []string{"i32", "i64", "u32", "u64", "str", "f64", "f32", "bool", "int"}[h.Intn(9)]}}
		case r < 15:
			var et *Ty
			if depth < 2 && h.Intn(4) == 0 {
				et = h.genTVStruct(2)
			} else {
				et = &Ty{K: []string{"i32", "i64", "str", "u64", "u32", "bool", "f64", "bytes"}[h.Intn(8)]}
			}
			ft = &Ty{K: "map", Key: &Ty{K: []string{"str", "str", "i32", "i64", "u32", "u64", "bool"}[h.Intn(7)]}, Elem: et}
		default:
			ft = &Ty{K: scalars[h.Intn(len(scalars))]}
		}
		f := Field{Name: fmt.Sprintf("F%d", i), T: ft}
		if tagged {
			var num int
			for {
				if h.Bool() {
					num = tvNumbers[h.Intn(len(tvNumbers))]
				} else {
					num = 1 + h.Intn(20)
				}
				if !used[num] {
					break
				}
			}
			used[num] = true
			wire, rep := "varint", "opt"
			b := baseOf(ft)
			repeated := ft.K == "sl" && !isByteSeq(ft)
			if repeated {
				rep = "rep"
				b = baseOf(ft.Elem)
			}
			switch b.K {
			case "str", "bytes", "st":
				wire = "bytes"
			case "map":
				wire = "bytes"
				if h.Bool() {
					rep = "rep" // what generated code writes; TypeOf does not make a map field repeated
				}
			case "f32":
				wire = "fixed32"
			case "f64":
				wire = "fixed64"
			case "i32":
				if !repeated {
					wire = []string{"varint", "varint", "zigzag32", "fixed32"}[h.Intn(4)]
				}
			case "i64":
				if !repeated {
					wire = []string{"varint", "varint", "zigzag64", "fixed64"}[h.Intn(4)]
				}
			case "int":
				if !repeated && h.Intn(3) == 0 {
					wire = "zigzag64"
				}
			case "u32":
				if !repeated && h.Intn(3) == 0 {
					wire = "fixed32"
				}
			case "u64":
				if !repeated && h.Intn(3) == 0 {
					wire = "fixed64"
				}
			}
			name := f.Name
			if h.Intn(3) == 0 {
				name = fmt.Sprintf("n%d", i) // the template name is the tag's, not the Go field's
			}
			f.Tag = fmt.Sprintf(`protobuf:"%s,%d,%s,name=%s"`, wire, num, rep, name)
		}
		t.Fields = append(t.Fields, f)
	}
	return t
}

type tvG struct {
	h     *H
	rules bool // rules may be attached at this point (never below a repeated or map field)
	bad   int  // invalid spots still to be placed
}

func tvQuote(s string, escapeNonASCII bool) string {
	var sb strings.Builder
	sb.WriteByte('"')
	for _, r := range s {
		switch {
		case r == '"' || r == '\\':
			sb.WriteByte('\\')
			sb.WriteRune(r)
		case r == '\n':
			sb.WriteString(`\n`)
		case r == '\t':
			sb.WriteString(`\t`)
		case r < 0x20:
			fmt.Fprintf(&sb, `\u%04x`, r)
		case r >= 0x80 && escapeNonASCII:
			if r >= 0x10000 {
				r -= 0x10000
				fmt.Fprintf(&sb, `\u%04x\u%04x`, 0xd800+(r>>10), 0xdc00+(r&0x3ff))
			} else {
				fmt.Fprintf(&sb, `\u%04x`, r)
			}
		default:
			sb.WriteRune(r)
		}
	}
	sb.WriteByte('"')
	return sb.String()
}

var tvIntCands = []string{"1", "-1", "min", "max", "2147483648", "4294967295", "9223372036854775807", "-9223372036854775808",
	"18446744073709551615", "2147483647", "-2147483648", "127", "128", "300", "65536", "4294967296", "-4294967296"}

func tvRange(k string) (lo, hi *big.Int) {
	bits := tvIntBits[k]
	one := big.NewInt(1)
	if tvSigned(k) {
		hi = new(big.Int).Sub(new(big.Int).Lsh(one, uint(bits-1)), one)
		lo = new(big.Int).Neg(new(big.Int).Lsh(one, uint(bits-1)))
	} else {
		lo = big.NewInt(0)
		hi = new(big.Int).Sub(new(big.Int).Lsh(one, uint(bits)), one)
	}
	return
}

// intLit: an integer literal in the range of the Go kind k
func (g *tvG) intLit(k string, allowZero bool) string {
	h := g.h
	lo, hi := tvRange(k)
	for {
		var c string
		switch h.Intn(8) {
		case 0:
			if allowZero {
				return "0"
			}
			continue
		case 1, 2:
			c = strconv.Itoa(1 + h.Intn(300))
		case 3:
			c = strconv.Itoa(-1 - h.Intn(300))
		default:
			c = tvIntCands[h.Intn(len(tvIntCands))]
		}
		if c == "min" {
			c = lo.String()
		}
		if c == "max" {
			c = hi.String()
		}
		x, _ := new(big.Int).SetString(c, 10)
		if x.Sign() == 0 && !allowZero {
			continue
		}
		if x.Cmp(lo) >= 0 && x.Cmp(hi) <= 0 {
			return c
		}
	}
}

var tvStrings = []string{"a", "hello", "line\nbreak", "é", "😀", "<&>", "q\"uote\\", "tab\there", "\x01ctl", "日本"}

// scalar: a template value for a field of scalar kind k (wire = the tag's wire kind, "" when untagged)
func (g *tvG) scalar(k, wire string, allowZero bool) string {
	h := g.h
	if g.bad > 0 && h.Intn(14) == 0 {
		g.bad--
		switch {
		case tvIntBits[k] != 0:
			c := []string{`"5"`, "1.5", "1e2", "true", "[1]", "{}", "oor", "neg", "01", "+1", "1.0"}[h.Intn(11)]
			if c == "oor" {
				_, hi := tvRange(k)
				c = new(big.Int).Add(hi, big.NewInt(1)).String()
				// (a uint32 varint field used to be parsed as uint64, so 2^32 was accepted: repaired by /repo 1e0f504; see
				// tmplBoundaryRegression below)
				if tvIntBits[k] == 32 && h.Bool() {
					c = "8589934592" // 2^33
				}
			}
			if c == "neg" {
				lo, _ := tvRange(k)
				c = new(big.Int).Sub(lo, big.NewInt(1)).String()
			}
			return c
		case k == "bool":
			return []string{"1", `"true"`, "0", "[]"}[h.Intn(4)]
		case k == "f32" || k == "f64":
			return []string{`"1.5"`, "true", "[1.5]", "{}"}[h.Intn(4)]
		default:
			return []string{"5", "true", "[]", "{}", `["a"]`}[h.Intn(5)]
		}
	}
	if allowZero && h.Intn(14) == 0 {
		return "null"
	}
	switch k {
	case "bool":
		if allowZero && h.Intn(3) == 0 {
			return "false"
		}
		return "true"
	case "f32":
		if allowZero && h.Intn(5) == 0 {
			return []string{"0", "0.0", "1e-320", "0e5"}[h.Intn(4)] // not -0: a -0 template yields +0 (recorded separately)
		}
		return []string{"1.5", "3.4e38", "1e39", "-2.5", "100", "1e2", "0.1", "-3.4E+38", "1e-45", "16777217"}[h.Intn(10)]
	case "f64":
		if allowZero && h.Intn(5) == 0 {
			return []string{"0", "0.0", "0e5"}[h.Intn(3)]
		}
		return []string{"1.5", "1e-320", "3.4e38", "1e39", "1e308", "1e400", "-2.5", "100", "0.1", "9007199254740993", "5e-324"}[h.Intn(11)]
	case "str", "bytes":
		if allowZero && h.Intn(5) == 0 {
			return `""`
		}
		return tvQuote(tvStrings[h.Intn(len(tvStrings))], h.Intn(4) == 0)
	}
	return g.intLit(k, allowZero && h.Intn(5) == 0)
}

func (g *tvG) join(parts []string, open, close string) string {
	if g.h.Intn(8) == 0 {
		return open + " " + strings.Join(parts, " ,\n ") + " " + close
	}
	return open + strings.Join(parts, ",") + close
}

// value: a template value for a singular (non-repeated, non-map) type
func (g *tvG) value(t *Ty, wire string, allowZero bool) string {
	b := baseOf(t)
	if b.K == "st" {
		if g.bad > 0 && g.h.Intn(20) == 0 {
			g.bad--
			return []string{"5", `"x"`, "[]", "true"}[g.h.Intn(4)]
		}
		if allowZero && g.h.Intn(16) == 0 {
			return "null"
		}
		j, _ := g.object(b, allowZero)
		return j
	}
	return g.scalar(b.K, wire, allowZero)
}

var tvKeyPool = map[string][]string{
	"str":  {"", "a", "b", "k1", "é", "zz", "10", "9", "A", "key"},
	"bool": {"false", "true"},
	"i32":  {"0", "1", "-1", "7", "10", "2147483647", "-2147483648", "42"},
	"i64":  {"0", "1", "-1", "7", "10", "9223372036854775807", "-9223372036854775808", "4294967296"},
	"u32":  {"0", "1", "7", "10", "4294967295", "42"},
	"u64":  {"0", "1", "7", "10", "18446744073709551615", "4294967296"},
}

func (g *tvG) mapTmpl(m *Ty) string {
	h := g.h
	if h.Intn(14) == 0 {
		return "null"
	}
	if g.bad > 0 && h.Intn(20) == 0 {
		g.bad--
		return []string{"[]", "5", `"m"`}[h.Intn(3)]
	}
	pool := tvKeyPool[m.Key.K]
	n := h.Intn(4)
	if n > len(pool) {
		n = len(pool)
	}
	set := map[string]bool{}
	for len(set) < n {
		set[pool[h.Intn(len(pool))]] = true
	}
	var keys []string
	for k := range set {
		keys = append(keys, k)
	}
	sort.Strings(keys)
	if g.bad > 0 && h.Intn(10) == 0 && m.Key.K != "str" {
		g.bad--
		keys = []string{[]string{"x", "1.5", "maybe", "-0", "", "01", "1e1"}[h.Intn(7)]}
	}
	saved := g.rules
	g.rules = false
	var parts []string
	for _, k := range keys {
		zero := k == "" || k == "0" || k == "false" || k == "-0"
		parts = append(parts, tvQuote(k, h.Intn(6) == 0)+":"+g.value(m.Elem, "", !zero || h.Intn(10) == 0))
	}
	g.rules = saved
	return g.join(parts, "{", "}")
}

func (g *tvG) listTmpl(et *Ty) string {
	h := g.h
	switch r := h.Intn(12); {
	case r == 0:
		return "null"
	case r < 3:
		return "[]"
	}
	if g.bad > 0 && h.Intn(20) == 0 {
		g.bad--
		return []string{"{}", "5", `"l"`, "true"}[h.Intn(4)]
	}
	saved := g.rules
	g.rules = false
	var parts []string
	for i, n := 0, 1+h.Intn(3); i < n; i++ {
		parts = append(parts, g.value(et, "", h.Intn(9) == 0))
	}
	g.rules = saved
	return g.join(parts, "[", "]")
}

var tvBitOrT = []string{"int", "i32", "i64", "uint", "u32", "u64"}

// object: a template for the message type st; returns the JSON text and the rule entries (`<name hex> X`)
func (g *tvG) object(st *Ty, allowZero bool) (string, []string) {
	h := g.h
	var parts, rents []string
	force := -1
	if !allowZero {
		force = h.Intn(len(st.Fields)) // an element of a list: at least this field, with a non-zero value if it is a scalar
	}
	for fi, f := range st.Fields {
		forced := fi == force
		if h.Intn(10) >= 6 && !forced {
			continue
		}
		name := tvFieldName(f)
		b := baseOf(f.T)
		var val, rule string
		switch {
		case f.T.K == "sl" && !isByteSeq(f.T):
			val = g.listTmpl(f.T.Elem)
		case b.K == "map":
			val = g.mapTmpl(b)
		case b.K == "st":
			if g.bad > 0 && h.Intn(20) == 0 {
				g.bad--
				val = []string{"5", `"x"`, "[]"}[h.Intn(3)]
			} else if h.Intn(16) == 0 {
				val = "null"
			} else {
				var sub []string
				val, sub = g.object(b, true)
				if g.rules && len(sub) > 0 {
					rule = fmt.Sprintf("sub rules %d %s", len(sub), strings.Join(sub, " "))
				} else if g.rules && h.Intn(12) == 0 {
					rule = "other"
				}
			}
		case g.rules && tvIntBits[b.K] != 0 && h.Intn(4) != 0:
			// BitOr: the template value is the mask
			// T: the field's own Go kind, or a wider kind of the same signedness with a mask in the field's range (a T that is
			// narrower than the field, or of the other signedness on a 32-bit field, fails on inputs that do not fit T, and a
			// negative or too wide mask on an unsigned / 32-bit field writes a varint the field's decoder rejects: recorded
			// separately, not generated here)
			T := b.K
			if h.Intn(3) == 0 {
				if tvSigned(b.K) {
					T = []string{"i64", "int"}[h.Intn(2)]
				} else {
					T = []string{"u64", "uint"}[h.Intn(2)]
				}
				if tvIntBits[b.K] == 64 && h.Intn(2) == 0 {
					T = []string{"i64", "int", "u64", "uint"}[h.Intn(4)] // 64 bits: the signedness does not matter
				}
			}
			rule = "bitor " + T
			val = g.intLit(b.K, true)
			if tvIntBits[b.K] == 64 {
				val = g.intLit(T, true)
			}
			if g.bad > 0 && h.Intn(10) == 0 {
				g.bad--
				val = []string{`"8"`, "1.5", "true"}[h.Intn(3)]
			}
		default:
			val = g.scalar(b.K, tvWire(f), allowZero || !forced)
			if g.rules && h.Intn(16) == 0 {
				rule = "other"
				if g.bad > 0 && tvIntBits[b.K] == 0 && h.Intn(3) == 0 {
					g.bad--
					rule = "bitor i64" // BitOr on a non-integer field
				}
			}
		}
		qn := tvQuote(name, false)
		if h.Intn(25) == 0 {
			qn = fmt.Sprintf(`"\\u%04x%s"`, name[0], name[1:]) // an escaped member name is the same name
		}
		parts = append(parts, qn+":"+val)
		if rule != "" {
			rents = append(rents, hx([]byte(name))+" "+rule)
		}
	}
	if g.bad > 0 && h.Intn(10) == 0 {
		g.bad--
		parts = append(parts, `"nosuch":1`)
	}
	if g.rules && h.Intn(20) == 0 {
		rents = append(rents, hx([]byte("unused"))+" bitor i32") // a rule for a name the template does not use
	}
	return g.join(parts, "{", "}"), rents
}

// template: JSON text and <rules> for the message type t
func (h *H) genTVTemplate(t *Ty) (string, string) {
	g := &tvG{h: h, rules: h.Intn(10) < 3}
	if h.Intn(8) == 0 {
		g.bad = 1
	}
	tj, rents := g.object(baseOf(t), true)
	rules := "-"
	if g.rules {
		rules = strings.TrimSpace(fmt.Sprintf("rules %d %s", len(rents), strings.Join(rents, " ")))
	}
	if g.bad > 0 && h.Intn(3) == 0 {
		switch h.Intn(7) {
		case 0:
			tj = "[1]"
		case 1:
			tj = "5"
		case 2:
			tj = `"x"`
		case 3:
			if len(tj) > 2 {
				tj = tj[:1+h.Intn(len(tj)-1)] // cut
			}
		case 4:
			tj = tj + " x"
		case 5:
			tj = `{"F0":}`
		case 6:
			tj = ""
		}
	}
	if h.Intn(40) == 0 {
		tj = "null" // a null template: nothing is templated
	}
	return tj, rules
}

// genTVInput: an encoding of a value of t (or something close to one)
func (h *H) genTVInput(t *Ty) []byte {
	var b []byte
	for try := 0; try < 20; try++ {
		v := h.genVal(t, 2)
		if nilPtrInCollection(v) {
			continue
		}
		x, err := proto.Marshal(v.Interface())
		if err == nil {
			b = x
			break
		}
	}
	recsOf := func(b []byte) [][]byte {
		recs, ok := wireParse(b)
		if !ok {
			return [][]byte{b}
		}
		var out [][]byte
		for _, r := range recs {
			out = append(out, encRec(r))
		}
		return out
	}
	cat := func(rs [][]byte) []byte {
		var out []byte
		for _, r := range rs {
			out = append(out, r...)
		}
		return out
	}
	switch h.Intn(10) {
	case 0:
		return []byte{}
	case 1, 2:
		b = splitSubMessages(t, b)
	case 3, 4:
		rs := recsOf(b)
		for i, n := 0, 1+h.Intn(2); i < n; i++ {
			at := h.Intn(len(rs) + 1)
			u := h.genUnknownRecord(t, 1)
			rs = append(rs[:at], append([][]byte{u}, rs[at:]...)...)
		}
		b = cat(rs)
	case 5:
		rs := recsOf(b)
		for i := len(rs) - 1; i > 0; i-- {
			j := h.Intn(i + 1)
			rs[i], rs[j] = rs[j], rs[i]
		}
		b = cat(rs)
	case 6:
		if h.Intn(2) == 0 {
			b = h.mutate(b)
		}
	}
	return b
}

// genTVOddType: types TypeOf refuses or presents in a less obvious way (typeof only: no templates for these)
func (h *H) genTVOddType() *Ty {
	t := h.genTVStruct(1)
	tag := func(w string, n int, name string) string {
		return fmt.Sprintf(`protobuf:"%s,%d,opt,name=%s"`, w, n, name)
	}
	switch h.Intn(9) {
	case 0: // small integer kinds: TypeOf panics
		t.Fields = append(t.Fields, Field{Name: "X", T: &Ty{K: []string{"i8", "i16", "u8", "u16"}[h.Intn(4)]}})
		for i := range t.Fields {
			t.Fields[i].Tag = ""
		}
	case 1: // tagged and naked fields mixed
		for i := range t.Fields {
			t.Fields[i].Tag = ""
		}
		extra := Field{Name: "X", T: &Ty{K: "i32"}, Tag: tag("varint", 5, "X")}
		if h.Bool() {
			t.Fields = append(t.Fields, extra)
		} else {
			t.Fields = append([]Field{extra}, t.Fields...)
			if h.Bool() {
				t.Fields = append(t.Fields, Field{Name: "Y", T: &Ty{K: "str"}, Tag: tag("bytes", 9, "Y")})
			}
		}
	case 2: // byte arrays and slices of byte slices
		t.Fields = append(t.Fields, Field{Name: "X", T: &Ty{K: "arr", N: 4, Elem: &Ty{K: "u8"}}},
			Field{Name: "Y", T: &Ty{K: "sl", Elem: &Ty{K: "bytes"}}})
		for i := range t.Fields {
			t.Fields[i].Tag = ""
		}
	case 3: // zigzag on kinds that have no zig-zag form
		t = &Ty{K: "st", Fields: []Field{{Name: "X", T: &Ty{K: []string{"str", "bool", "f64", "u32", "u64"}[h.Intn(5)]}, Tag: tag("zigzag64", 3, "X")}}}
	case 4: // fixed-width tags on kinds of the other width, on repeated fields, on int
		t = &Ty{K: "st", Fields: []Field{
			{Name: "A", T: &Ty{K: "i32"}, Tag: tag("fixed64", 1, "A")},
			{Name: "B", T: &Ty{K: "u64"}, Tag: tag("fixed32", 2, "B")},
			{Name: "C", T: &Ty{K: "int"}, Tag: tag("fixed64", 3, "C")},
			{Name: "D", T: &Ty{K: "sl", Elem: &Ty{K: "u32"}}, Tag: `protobuf:"fixed32,4,rep,name=D"`},
			{Name: "E", T: &Ty{K: "sl", Elem: &Ty{K: "i64"}}, Tag: tag("varint", 5, "E")}, // a slice tagged opt: not repeated
			{Name: "F", T: &Ty{K: "i64"}, Tag: `protobuf:"fixed64,6,req,name=F,proto3"`},
			{Name: "G", T: &Ty{K: "ptr", Elem: &Ty{K: "u32"}}, Tag: tag("fixed32", 7, "G")},
			{Name: "H", T: &Ty{K: "i32"}, Tag: `protobuf:"zigzag32,8,opt"`}, // no name=
		}}
	case 5: // a bad tag
		t = &Ty{K: "st", Fields: []Field{{Name: "X", T: &Ty{K: "i32"}, Tag: []string{`protobuf:"varint,x,opt,name=X"`, `protobuf:"group,1,opt,name=X"`,
			`protobuf:"varint,1,many,name=X"`, `protobuf:"varint"`, `protobuf:""`}[h.Intn(5)]}}}
	case 6: // two fields of the same name, the same number
		t = &Ty{K: "st", Fields: []Field{
			{Name: "A", T: &Ty{K: "i32"}, Tag: tag("varint", 1, "x")},
			{Name: "B", T: &Ty{K: "str"}, Tag: tag("bytes", 1, "x")},
		}}
	case 7: // interface field
		t.Fields = append(t.Fields, Field{Name: "X", T: &Ty{K: "any"}})
		for i := range t.Fields {
			t.Fields[i].Tag = ""
		}
	case 8: // map with message keys' cousins: map values that are lists are refused
		t.Fields = append(t.Fields, Field{Name: "X", T: &Ty{K: "map", Key: &Ty{K: "str"}, Elem: &Ty{K: "sl", Elem: &Ty{K: "i32"}}}})
		for i := range t.Fields {
			t.Fields[i].Tag = ""
		}
	}
	return t
}

// Behaviours of /repo that are deliberately NOT generated above (they would show as I != S without being defects of the
// property as the maintainers read it):
//   - a non-nil rule (nested RewriterRules or any other value) on a REPEATED-message or MAP field skips the `replacement`
//     wrapper, so new elements are merged over the first old one: by design, a rule needs the old value.
//   - a float template `-0` is elided like `0` (`v == 0`): the field reads back as +0.
//   - BitOr[T] with a T that does not match the field (negative mask on an unsigned field, a 32-bit T on a field holding a
//     wider value): API misuse; the rewriter writes an out-of-range varint or Rewrite returns an error.

// tmplBoundaryRegression: 32-bit integer fields at the limits of their type, for every wire form (regression for /repo
// 1e0f504: `case Uint32` used parseRewriteTemplateUint64, so {"A":4294967296} on a uint32 field was accepted and the
// rewriter wrote a varint that proto.Unmarshal rejects). In range => replaced; out of range => template error.
func (h *H) tmplBoundaryRegression() {
	mk := func(k, tag string) *Ty {
		f := Field{Name: "A", T: &Ty{K: k}}
		if tag != "" {
			f.Tag = `protobuf:"` + tag + `,1,opt,name=A"`
		}
		return &Ty{K: "st", Fields: []Field{f, {Name: "B", T: &Ty{K: "str"}, Tag: map[bool]string{true: `protobuf:"bytes,2,opt,name=B"`, false: ""}[tag != ""]}}}
	}
	uvals := []string{"4294967295", "4294967296", "8589934592", "-1", "1", "0", "18446744073709551615", "18446744073709551616"}
	ivals := []string{"2147483647", "2147483648", "-2147483648", "-2147483649", "4294967295", "4294967296", "8589934592", "-1", "0"}
	cases := []struct {
		t    *Ty
		vals []string
	}{
		{mk("u32", ""), uvals}, {mk("u32", "varint"), uvals}, {mk("u32", "fixed32"), uvals},
		{mk("i32", ""), ivals}, {mk("i32", "varint"), ivals}, {mk("i32", "zigzag32"), ivals}, {mk("i32", "fixed32"), ivals},
	}
	for _, c := range cases {
		ty := c.t.String()
		h.Do("proto.typeof", ty)
		for _, v := range c.vals {
			tj := `{"A":` + v + `}`
			th, fl := hx([]byte(tj)), tvFloats(tj)
			h.Do("proto.tmpltree", ty, th, "-", fl)
			ins := []string{hx(nil), hx(h.genTVInput(c.t)), hx(h.genTVInput(c.t))}
			for _, in := range ins {
				im, _ := h.Do("proto.tmplvalue", ty, th, "-", fl, in)
				h.Do("proto.tmplvalue", ty, th, "-", fl, in, im)
			}
		}
	}
}

func (h *H) tmplValueCases() {
	h.tmplBoundaryRegression()
	N := 180
	if h.Thorough() {
		N = 3600
	}
	for i := 0; i < N; i++ {
		if i%8 == 0 {
			h.Do("proto.typeof", h.genTVOddType().String())
		}
		t := h.genTVStruct(0)
		ty := t.String()
		h.Do("proto.typeof", ty)
		for k := 0; k < 2; k++ {
			tj, rules := h.genTVTemplate(t)
			th := hx([]byte(tj))
			fl := tvFloats(tj)
			h.Do("proto.tmpltree", ty, th, rules, fl)
			for m := 0; m < 2; m++ {
				in := hx(h.genTVInput(t))
				im, _ := h.Do("proto.tmplvalue", ty, th, rules, fl, in)
				h.Do("proto.tmplvalue", ty, th, rules, fl, in, im)
			}
		}
	}
}
