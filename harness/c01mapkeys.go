package main

// C01 (map key layer): json.mapkeyorder — the order (and the text) of the object members json.Marshal writes for a map,
// against the Lean model of constructMapCodec's sortKeys (Enc/Model/Json/MapKeyOrder.lean), the stdlib rule
// (Enc/Spec/Json/MapKeys.lean: sort by the TEXT of resolveKeyName) and encoding/json.Marshal itself.
//
//	json.mapkeyorder <kind> <keys>
//
// kind: int int8 … uint64 uintptr | n<kind> (named type of that kind) | intunm uintunm (integer kind, *K has UnmarshalText
// only) | inttext inttextboth (integer kind with MarshalText: sorted by the text) | string nstring | ss sa sb sl sr (the five
// specialised codecs map[string]string / any / bool / []string / RawMessage) | strtext strunm (string kinds with text
// methods: written and sorted as strings) | text textonly ptext (struct / pointer keys with MarshalText; `~` = nil pointer)
// | unmonly float (unsupported key types: both libraries must fail).
// keys: comma separated; decimal integers (converted to the key type, wrapping) for the kinds sorted as numbers, else hex
// texts (`-` = empty).
// I = "ok:" + the key texts AS WRITTEN (quotes included, hex) in the order of the output, joined by "," | "err";
// O = the same from encoding/json.

import (
	stdjson "encoding/json"
	"math"
	"reflect"
	"strconv"
	"strings"

	"github.com/segmentio/encoding/json"
)

type (
	mkNInt     int
	mkNInt8    int8
	mkNInt16   int16
	mkNInt32   int32
	mkNInt64   int64
	mkNUint    uint
	mkNUint8   uint8
	mkNUint16  uint16
	mkNUint32  uint32
	mkNUint64  uint64
	mkNUintptr uintptr
	mkNString  string

	mkIntUnm      int64
	mkUintUnm     uint64
	mkIntText     int64
	mkIntTextBoth int64
	mkStrText     string
	mkStrUnm      string
	mkText        struct{ S string }
	mkTextOnly    struct{ S string }
	mkPText       struct{ S string }
	mkUnmOnly     struct{ S string }
)

// texts of the integer keys with MarshalText: key i has text mkTexts[i] (set by the op before marshalling)
var mkTexts []string

func (k *mkIntUnm) UnmarshalText(b []byte) error  { return nil }
func (k *mkUintUnm) UnmarshalText(b []byte) error { return nil }
func (k mkIntText) MarshalText() ([]byte, error)  { return []byte(mkTexts[int(k)]), nil }
func (k mkIntTextBoth) MarshalText() ([]byte, error) {
	return []byte(mkTexts[int(k)]), nil
}
func (k *mkIntTextBoth) UnmarshalText(b []byte) error { return nil }
func (k mkStrText) MarshalText() ([]byte, error)      { return []byte("X" + string(k)), nil }
func (k *mkStrUnm) UnmarshalText(b []byte) error      { return nil }
func (k mkText) MarshalText() ([]byte, error)         { return []byte(k.S), nil }
func (k *mkText) UnmarshalText(b []byte) error        { k.S = string(b); return nil }
func (k mkTextOnly) MarshalText() ([]byte, error)     { return []byte(k.S), nil }
func (k *mkPText) MarshalText() ([]byte, error)       { return []byte(k.S), nil }
func (k *mkUnmOnly) UnmarshalText(b []byte) error     { return nil }

var mkIntTypes = map[string]reflect.Type{
	"int": reflect.TypeOf(int(0)), "int8": reflect.TypeOf(int8(0)), "int16": reflect.TypeOf(int16(0)),
	"int32": reflect.TypeOf(int32(0)), "int64": reflect.TypeOf(int64(0)),
	"uint": reflect.TypeOf(uint(0)), "uint8": reflect.TypeOf(uint8(0)), "uint16": reflect.TypeOf(uint16(0)),
	"uint32": reflect.TypeOf(uint32(0)), "uint64": reflect.TypeOf(uint64(0)), "uintptr": reflect.TypeOf(uintptr(0)),
	"nint": reflect.TypeOf(mkNInt(0)), "nint8": reflect.TypeOf(mkNInt8(0)), "nint16": reflect.TypeOf(mkNInt16(0)),
	"nint32": reflect.TypeOf(mkNInt32(0)), "nint64": reflect.TypeOf(mkNInt64(0)),
	"nuint": reflect.TypeOf(mkNUint(0)), "nuint8": reflect.TypeOf(mkNUint8(0)), "nuint16": reflect.TypeOf(mkNUint16(0)),
	"nuint32": reflect.TypeOf(mkNUint32(0)), "nuint64": reflect.TypeOf(mkNUint64(0)), "nuintptr": reflect.TypeOf(mkNUintptr(0)),
	"intunm": reflect.TypeOf(mkIntUnm(0)), "uintunm": reflect.TypeOf(mkUintUnm(0)),
}

// mkBuild: the map value for (kind, keys); ok=false for a malformed case
func mkBuild(kind, keys string) (m reflect.Value, ok bool) {
	var ks []string
	for _, k := range strings.Split(keys, ",") {
		if k != "" {
			ks = append(ks, k)
		}
	}
	intT := reflect.TypeOf(int(0))
	if kt, isInt := mkIntTypes[kind]; isInt {
		m = reflect.MakeMap(reflect.MapOf(kt, intT))
		for i, k := range ks {
			kv := reflect.New(kt).Elem()
			switch kt.Kind() {
			case reflect.Int, reflect.Int8, reflect.Int16, reflect.Int32, reflect.Int64:
				n, err := strconv.ParseInt(k, 10, 64)
				if err != nil {
					u, err2 := strconv.ParseUint(k, 10, 64)
					if err2 != nil {
						return m, false
					}
					n = int64(u)
				}
				kv.SetInt(reflect.ValueOf(n).Convert(kt).Int()) // conversion wraps
			default:
				var u uint64
				if strings.HasPrefix(k, "-") {
					n, err := strconv.ParseInt(k, 10, 64)
					if err != nil {
						return m, false
					}
					u = uint64(n)
				} else {
					var err error
					if u, err = strconv.ParseUint(k, 10, 64); err != nil {
						return m, false
					}
				}
				kv.SetUint(reflect.ValueOf(u).Convert(kt).Uint())
			}
			m.SetMapIndex(kv, reflect.ValueOf(i))
		}
		return m, true
	}
	// text keys: one entry per distinct text
	seen := map[string]bool{}
	var texts []string
	for _, k := range ks {
		t := ""
		if k != "~" {
			t = string(unhx(k))
		}
		if kind == "ptext" && k == "~" {
			t = "\x00nil"
		}
		if !seen[t] {
			seen[t] = true
			texts = append(texts, t)
		}
	}
	if kind == "ptext" && seen["\x00nil"] && seen[""] {
		return m, false // a nil pointer and a pointer to the empty text: two keys with one name, order unspecified
	}
	switch kind {
	case "string":
		mm := map[string]int{}
		for i, t := range texts {
			mm[t] = i
		}
		return reflect.ValueOf(mm), true
	case "nstring":
		mm := map[mkNString]int{}
		for i, t := range texts {
			mm[mkNString(t)] = i
		}
		return reflect.ValueOf(mm), true
	case "ss":
		mm := map[string]string{}
		for i, t := range texts {
			mm[t] = strconv.Itoa(i)
		}
		return reflect.ValueOf(mm), true
	case "sa":
		mm := map[string]any{}
		for i, t := range texts {
			switch i % 3 {
			case 0:
				mm[t] = i
			case 1:
				mm[t] = "v"
			default:
				mm[t] = nil
			}
		}
		return reflect.ValueOf(mm), true
	case "sb":
		mm := map[string]bool{}
		for i, t := range texts {
			mm[t] = i%2 == 0
		}
		return reflect.ValueOf(mm), true
	case "sl":
		mm := map[string][]string{}
		for i, t := range texts {
			if i%2 == 0 {
				mm[t] = []string{"v"}
			} else {
				mm[t] = nil
			}
		}
		return reflect.ValueOf(mm), true
	case "sr":
		mm := map[string]json.RawMessage{}
		for i, t := range texts {
			mm[t] = json.RawMessage(strconv.Itoa(i))
		}
		return reflect.ValueOf(mm), true
	case "strtext":
		mm := map[mkStrText]int{}
		for i, t := range texts {
			mm[mkStrText(t)] = i
		}
		return reflect.ValueOf(mm), true
	case "strunm":
		mm := map[mkStrUnm]int{}
		for i, t := range texts {
			mm[mkStrUnm(t)] = i
		}
		return reflect.ValueOf(mm), true
	case "inttext":
		mkTexts = texts
		mm := map[mkIntText]int{}
		for i := range texts {
			mm[mkIntText(i)] = i
		}
		return reflect.ValueOf(mm), true
	case "inttextboth":
		mkTexts = texts
		mm := map[mkIntTextBoth]int{}
		for i := range texts {
			mm[mkIntTextBoth(i)] = i
		}
		return reflect.ValueOf(mm), true
	case "text":
		mm := map[mkText]int{}
		for i, t := range texts {
			mm[mkText{t}] = i
		}
		return reflect.ValueOf(mm), true
	case "textonly":
		mm := map[mkTextOnly]int{}
		for i, t := range texts {
			mm[mkTextOnly{t}] = i
		}
		return reflect.ValueOf(mm), true
	case "ptext":
		mm := map[*mkPText]int{}
		for i, t := range texts {
			if t == "\x00nil" {
				mm[nil] = i
			} else {
				mm[&mkPText{t}] = i
			}
		}
		return reflect.ValueOf(mm), true
	case "unmonly":
		mm := map[mkUnmOnly]int{}
		for i, t := range texts {
			mm[mkUnmOnly{t}] = i
		}
		return reflect.ValueOf(mm), true
	case "float":
		mm := map[float64]int{}
		for i := range texts {
			mm[float64(i)] = i
		}
		return reflect.ValueOf(mm), true
	}
	return m, false
}

// mkKeysOf: the key texts of a one-level JSON object whose values contain no ',' '{' '}' outside strings
func mkKeysOf(b []byte, err error) string {
	if err != nil {
		return "err"
	}
	if len(b) < 2 || b[0] != '{' || b[len(b)-1] != '}' {
		return "bad:" + hx(b)
	}
	var keys []string
	i := 1
	for i < len(b)-1 {
		if b[i] != '"' {
			return "bad:" + hx(b)
		}
		j := i + 1
		for j < len(b) && b[j] != '"' {
			if b[j] == '\\' {
				j++
			}
			j++
		}
		if j >= len(b) {
			return "bad:" + hx(b)
		}
		keys = append(keys, hx(b[i:j+1]))
		i = j + 1
		if i >= len(b) || b[i] != ':' {
			return "bad:" + hx(b)
		}
		inStr := false
		for i < len(b)-1 {
			c := b[i]
			if inStr {
				if c == '\\' {
					i++
				} else if c == '"' {
					inStr = false
				}
			} else if c == '"' {
				inStr = true
			} else if c == ',' {
				break
			}
			i++
		}
		if i < len(b)-1 {
			i++ // the ','
		}
	}
	return "ok:" + strings.Join(keys, ",")
}

func init() {
	ops["json.mapkeyorder"] = func(a []string) (string, string, string) {
		if len(a) != 2 {
			return "bad-args", "-", ""
		}
		m, ok := mkBuild(a[0], a[1])
		if !ok {
			return "bad-args", "-", ""
		}
		v := m.Interface()
		impl := mkKeysOf(json.Marshal(v))
		oracle := mkKeysOf(stdjson.Marshal(v))
		return impl, oracle, ""
	}
}

// json.mapkeydec <kind> <class> <dochex>: json.Unmarshal(doc, &m) for a nil map m of the key kind (int values);
// class = null | empty | one describes the document (recomputed here); I/O = "ok:<len(m)>" | "err".
func mkDocClass(doc []byte) string {
	t := strings.TrimSpace(string(doc))
	switch {
	case t == "null":
		return "null"
	case strings.HasPrefix(t, "{") && strings.TrimSpace(t[1:len(t)-1]) == "" && strings.HasSuffix(t, "}"):
		return "empty"
	}
	return "one"
}

func init() {
	ops["json.mapkeydec"] = func(a []string) (string, string, string) {
		if len(a) != 3 {
			return "bad-args", "-", ""
		}
		m, ok := mkBuild(a[0], ",")
		doc := unhx(a[2])
		if !ok || mkDocClass(doc) != a[1] || m.Type().Elem().Kind() != reflect.Int {
			return "bad-args", "-", ""
		}
		run := func(unmarshal func([]byte, any) error) string {
			p := reflect.New(m.Type())
			if err := unmarshal(doc, p.Interface()); err != nil {
				return "err"
			}
			return "ok:" + strconv.Itoa(p.Elem().Len())
		}
		return run(json.Unmarshal), run(stdjson.Unmarshal), ""
	}
}

func genMapKeyDec(h *H) {
	for _, kind := range []string{"int", "int8", "uint64", "nuint16", "uintptr", "string", "nstring", "strtext", "strunm", "inttext", "inttextboth",
		"intunm", "uintunm", "text", "textonly", "ptext", "unmonly", "float"} {
		one := `{"a":1}`
		switch kind {
		case "int", "int8", "uint64", "nuint16", "uintptr", "inttext":
			one = `{"1":1}`
		}
		for _, doc := range []string{"{}", " {} ", "{ }", "null", " null ", one, " " + one + " "} {
			h.Do("json.mapkeydec", kind, mkDocClass([]byte(doc)), hx([]byte(doc)))
		}
	}
}

// mkIntPool: decimal keys of interest for a kind: around every power of ten that fits, prefix-related numbers, the
// extremes of the width, both signs for signed kinds.
func mkIntPool(h *H, bits int, signed bool) []string {
	var pool []string
	add := func(s string) { pool = append(pool, s) }
	var maxU uint64 = math.MaxUint64
	if bits < 64 {
		maxU = uint64(1)<<uint(bits) - 1
	}
	if signed {
		maxU = uint64(1)<<uint(bits-1) - 1
	}
	addU := func(u uint64) {
		if u <= maxU {
			add(strconv.FormatUint(u, 10))
			if signed {
				add("-" + strconv.FormatUint(u, 10))
			}
		}
	}
	p := uint64(1)
	for d := 1; d <= 20; d++ {
		// p = 10^(d-1)
		addU(p)
		addU(p + 1)
		addU(p - 1)
		addU(2 * p)
		addU(25 * p / 10)
		if p <= math.MaxUint64/9 {
			addU(9*p + uint64(h.Intn(9)))
		}
		if p > 1 {
			addU(p + h.U64()%p)
			addU(p + h.U64()%(9*p))
		}
		if d == 20 {
			addU(math.MaxUint64)
			addU(math.MaxUint64 - 1)
			addU(18446744073709551610)
			addU(12345678901234567890)
			break
		}
		p *= 10
	}
	addU(maxU)
	addU(maxU - 1)
	addU(0)
	addU(184467440737095516)
	addU(1844674407370955162)
	addU(19)
	addU(2)
	if signed {
		add("-" + strconv.FormatUint(maxU+1, 10)) // the minimum of the width
	}
	return pool
}

var mkStrPool = []string{"", "a", "b", "ab", "abc", "aa", "B", "A", "a\x00", "a b", "-", "-1", "10", "2", "1", "é", "e", "z",
	"\x7f", "\x80", "\xff", "\xc3", "\xc3\xa9x", "\xe2\x80\xa8", "\xe2\x80\xa7", "<", ">", "&", "<a>", "\"", "\\", "\\\\", "a\"",
	"\n", "\t", "\x01", "\x1f", " ", "~", "{", "日本", "日", "\xef\xbf\xbd", "\xf0\x9f\x98\x80", "\xed\xa0\x80", "Z", "az", "a~", "a\xff"}

func genMapKeyOrder(h *H) {
	per := 38
	perStr := 26
	if h.Thorough() {
		per, perStr = 500, 320
	}
	// the pairs the overflowing zero-padding comparator (seeded bug C01e) orders wrongly, and their neighbours
	for _, kind := range []string{"uint64", "uint", "uintptr", "nuint64", "uintunm"} {
		for _, ks := range []string{"2,10000000000000000000", "10000000000000000000,2", "19,10000000000000000000",
			"1844674407370955162,18446744073709551615", "1844674407370955161,18446744073709551615", "2,18446744073709551615,10000000000000000000",
			"184467440737095517,18446744073709551615,18446744073709551614", "9,99,999,9999999999999999999,10000000000000000000,18446744073709551615",
			"1,10,100,1000,10000000000000000000", "3,12345678901234567890,13,2", "0", ","} {
			h.Do("json.mapkeyorder", kind, ks)
		}
	}
	for _, kind := range []string{"int64", "int", "nint64", "intunm"} {
		for _, ks := range []string{"-1,-10", "-9223372036854775808,9223372036854775807,-9223372036854775807,0", "-1,1,-2,2,-10,10,-100,100",
			"-9,-10,-99,-100", "922337203685477580,9223372036854775807,-922337203685477580,-9223372036854775808", "5,-5,50,-50,500"} {
			h.Do("json.mapkeyorder", kind, ks)
		}
	}
	intKinds := []struct {
		name   string
		bits   int
		signed bool
	}{{"int", 64, true}, {"int8", 8, true}, {"int16", 16, true}, {"int32", 32, true}, {"int64", 64, true},
		{"uint", 64, false}, {"uint8", 8, false}, {"uint16", 16, false}, {"uint32", 32, false}, {"uint64", 64, false}, {"uintptr", 64, false},
		{"nint", 64, true}, {"nint8", 8, true}, {"nint16", 16, true}, {"nint32", 32, true}, {"nint64", 64, true},
		{"nuint", 64, false}, {"nuint8", 8, false}, {"nuint16", 16, false}, {"nuint32", 32, false}, {"nuint64", 64, false}, {"nuintptr", 64, false},
		{"intunm", 64, true}, {"uintunm", 64, false}}
	for _, k := range intKinds {
		pool := mkIntPool(h, k.bits, k.signed)
		for c := 0; c < per; c++ {
			n := 2 + h.Intn(11)
			ks := make([]string, 0, n)
			for i := 0; i < n; i++ {
				switch h.Intn(12) {
				case 0: // any word: conversion to the key type wraps
					if k.signed {
						ks = append(ks, strconv.FormatInt(int64(h.U64()), 10))
					} else {
						ks = append(ks, strconv.FormatUint(h.U64(), 10))
					}
				case 1: // a random value with a random digit count
					u := h.U64() >> uint(h.Intn(64))
					if k.signed {
						ks = append(ks, strconv.FormatInt(int64(u)*int64(1-2*h.Intn(2)), 10))
					} else {
						ks = append(ks, strconv.FormatUint(u, 10))
					}
				default:
					ks = append(ks, pool[h.Intn(len(pool))])
				}
			}
			h.Do("json.mapkeyorder", k.name, strings.Join(ks, ","))
		}
	}
	for _, kind := range []string{"string", "nstring", "ss", "sa", "sb", "sl", "sr", "strtext", "strunm", "inttext", "inttextboth", "text", "textonly", "ptext", "unmonly", "float"} {
		for c := 0; c < perStr; c++ {
			n := 1 + h.Intn(10)
			if c == 0 {
				n = 0
			}
			ks := make([]string, 0, n)
			for i := 0; i < n; i++ {
				var s string
				switch h.Intn(5) {
				case 0:
					s = mkStrPool[h.Intn(len(mkStrPool))] + mkStrPool[h.Intn(len(mkStrPool))]
				case 1:
					s = string(h.Bytes(h.Intn(4)))
				default:
					s = mkStrPool[h.Intn(len(mkStrPool))]
				}
				if kind == "ptext" && (s == "" || h.Intn(8) == 0) {
					ks = append(ks, "~")
				} else {
					ks = append(ks, hx([]byte(s)))
				}
			}
			if len(ks) == 0 {
				ks = []string{","} // the empty map (an empty argument would be lost in the line protocol)
			}
			h.Do("json.mapkeyorder", kind, strings.Join(ks, ","))
		}
	}
}
