package main

import (
	"bytes"
	"fmt"
	"os"
	"reflect"
	"strconv"
	"strings"

	"github.com/segmentio/encoding/json"
)

// C15 — Append is oblivious to the destination's length and capacity.
//
// Reference run: Append(nil, v, flags) -> (out, err). Then, for prefix lengths x spare capacities, the destination is carved
// out of one backing array [ prefix | spare | guard ]: the result must be prefix ++ out (or, on error, start with prefix),
// the first len(prefix) bytes of the ORIGINAL backing array must be untouched, and so must the guard bytes beyond cap.

const guardLen = 24

func patternByte(i int) byte { return byte(0xA0 + i%23) }

// obliviousCheck runs f over the (prefix, spare) grid and reports the first deviation, or "ok".
func obliviousCheck(f func(b []byte) ([]byte, error)) string {
	out, err := f(nil)
	n := len(out)
	if err != nil {
		n = 64
	}
	// an empty non-nil destination must behave like nil
	if o2, e2 := f([]byte{}); (e2 == nil) != (err == nil) || (err == nil && !bytes.Equal(o2, out)) {
		return "empty-destination-differs-from-nil"
	}
	spares := []int{0, 1, n / 2, n - 2, n - 1, n, n + 1, n + 2, 2 * n, n + 4096}
	for _, pl := range []int{0, 1, 3, 8, 61, 4095} {
		for _, sp := range spares {
			if sp < 0 {
				continue
			}
			arr := make([]byte, pl+sp+guardLen)
			for i := range arr {
				if i < pl {
					arr[i] = patternByte(i)
				} else {
					arr[i] = 0xEE
				}
			}
			b := arr[: pl : pl+sp]
			res, e := f(b)
			tag := fmt.Sprintf("prefix=%d spare=%d n=%d", pl, sp, n)
			if (e == nil) != (err == nil) {
				return "error-depends-on-destination " + tag
			}
			if len(res) < pl {
				return "result-shorter-than-prefix " + tag
			}
			for i := 0; i < pl; i++ {
				if res[i] != patternByte(i) {
					return "prefix-not-preserved-in-result " + tag
				}
				if arr[i] != patternByte(i) {
					return "wrote-below-len " + tag
				}
			}
			for i := pl + sp; i < len(arr); i++ {
				if arr[i] != 0xEE {
					return "wrote-beyond-cap " + tag
				}
			}
			if e == nil && !bytes.Equal(res[pl:], out) {
				return "remainder-differs-from-append-nil " + tag
			}
		}
	}
	// prefix CONTENT must not matter either: the destination may end in anything, in particular in bytes that look like the
	// tail of a JSON token (an exponent, a sign, a backslash, half a \u escape, a UTF-8 lead byte, a structural byte)
	for _, tail := range adversarialTails {
		for _, extra := range []int{0, 5} {
			for _, sp := range []int{0, n - 1, n, n + 9} {
				if sp < 0 {
					continue
				}
				pl := len(tail) + extra
				arr := make([]byte, pl+sp+guardLen)
				for i := range arr {
					if i < pl {
						arr[i] = patternByte(i)
					} else {
						arr[i] = 0xEE
					}
				}
				copy(arr[extra:pl], tail)
				want := append([]byte(nil), arr[:pl]...)
				res, e := f(arr[: pl : pl+sp])
				tag := fmt.Sprintf("prefixtail=%q prefix=%d spare=%d n=%d", tail, pl, sp, n)
				if (e == nil) != (err == nil) {
					return "error-depends-on-destination " + tag
				}
				if len(res) < pl || !bytes.Equal(res[:pl], want) {
					return "prefix-not-preserved-in-result " + tag
				}
				if !bytes.Equal(arr[:pl], want) {
					return "wrote-below-len " + tag
				}
				for i := pl + sp; i < len(arr); i++ {
					if arr[i] != 0xEE {
						return "wrote-beyond-cap " + tag
					}
				}
				if e == nil && !bytes.Equal(res[pl:], out) {
					return "remainder-differs-from-append-nil " + tag
				}
			}
		}
	}
	return "ok"
}

var adversarialTails = []string{"e-0", "e+0", "E-0", "1e-0", "e-", "e", "-", "0", "0.", ".", "1", "\\", "\\\\", "\"", "\\\"", "\\u00", "\\ud83d",
	",", ":", "[", "{", "}", "]", "tru", "fals", "nul", "null", "<", ">", "&", "\xe2\x80", "\xf0\x9f", "\xff", " ", "\n", "\x00", "=="}

var appendFlagSets = []json.AppendFlags{0, json.EscapeHTML, json.SortMapKeys, json.EscapeHTML | json.SortMapKeys, json.TrustRawMessage,
	json.EscapeHTML | json.TrustRawMessage, json.SortMapKeys | json.TrustRawMessage, json.EscapeHTML | json.SortMapKeys | json.TrustRawMessage}

func init() {
	registry["C15"] = runC15
	// json.oblivious <subseed> <flags 0..7> <val|ptr>
	ops["json.oblivious"] = func(a []string) (string, string, string) {
		sub, _ := strconv.ParseUint(a[0], 10, 64)
		fl, _ := strconv.Atoi(a[1])
		t, v, feats := jsonCase(sub, false)
		if os.Getenv("VH_TRACE") != "" {
			fmt.Fprintf(os.Stderr, "TYPE %s\nVALUE %#v\nFEATS %v\n", t, v.Interface(), feats)
		}
		x := v.Interface()
		if a[2] == "ptr" {
			p := reflect.New(t)
			p.Elem().Set(v)
			x = p.Interface()
		}
		flags := appendFlagSets[fl%len(appendFlagSets)]
		// map iteration order is random without SortMapKeys: only single-entry maps are then comparable byte for byte
		if flags&json.SortMapKeys == 0 && feats["multimap"] {
			flags |= json.SortMapKeys
		}
		return obliviousCheck(func(b []byte) ([]byte, error) { return json.Append(b, x, flags) }), "ok", ""
	}
	// json.oblbytes <len> <flags>: []byte values of every length around the base64 group size, also as struct field / map value / ,string
	ops["json.oblbytes"] = func(a []string) (string, string, string) {
		n, _ := strconv.Atoi(a[0])
		fl, _ := strconv.Atoi(a[1])
		v := make([]byte, n)
		for i := range v {
			v[i] = byte(i*7 + 1)
		}
		type S struct {
			A []byte
			B int    `json:",string"`
			C []byte `json:",omitempty"`
			D string `json:",string"`
		}
		vals := []any{v, &v, S{A: v, B: -n, C: v[:n/2], D: string(v)}, map[string][]byte{"k": v}, []any{v, n, v}, [2][]byte{v, nil}}
		for k, x := range vals {
			x := x
			if r := obliviousCheck(func(b []byte) ([]byte, error) { return json.Append(b, x, appendFlagSets[fl%8]) }); r != "ok" {
				return fmt.Sprintf("shape %d: %s", k, r), "ok", ""
			}
		}
		return "ok", "ok", ""
	}
	// json.oblescape <hex> <flags>: AppendEscape / AppendUnescape
	ops["json.oblescape"] = func(a []string) (string, string, string) {
		s := unhx(a[0])
		fl, _ := strconv.Atoi(a[1])
		if r := obliviousCheck(func(b []byte) ([]byte, error) { return json.AppendEscape(b, string(s), appendFlagSets[fl%8]), nil }); r != "ok" {
			return "escape: " + r, "ok", ""
		}
		q := json.AppendEscape(nil, string(s), 0)
		if r := obliviousCheck(func(b []byte) ([]byte, error) { return json.AppendUnescape(b, q, 0), nil }); r != "ok" {
			return "unescape: " + r, "ok", ""
		}
		if r := obliviousCheck(func(b []byte) ([]byte, error) { return json.AppendUnescape(b, s, 0), nil }); r != "ok" {
			return "unescape-raw: " + r, "ok", ""
		}
		return "ok", "ok", ""
	}
	// json.oblerr <k>: values whose encoding fails part-way through (rollback paths)
	ops["json.oblerr"] = func(a []string) (string, string, string) {
		k, _ := strconv.Atoi(a[0])
		nan := nanValue()
		type E struct {
			A string
			B any
			C []byte
		}
		vals := []any{
			nan, []any{1, "x", nan}, map[string]any{"a": 1, "b": nan}, E{"x", nan, []byte("abc")}, [3]any{"a", nan, 1},
			map[string]any{"k": []any{E{"y", []any{nan}, nil}}}, &E{"p", map[int]any{1: nan}, nil}, []E{{"a", 1, nil}, {"b", nan, nil}},
			failingMarshaler{}, []any{"a", failingMarshaler{}}, map[string]failingMarshaler{"x": {}}, struct{ F failingText }{},
			map[failingText]int{{}: 1}, json.RawMessage("{bad"), []json.RawMessage{json.RawMessage("1"), json.RawMessage("]")},
			json.Number("1x"), struct{ N json.Number }{"--"}, func() {}, []any{1, make(chan int)}, struct {
				A int
				F func() `json:"f"`
			}{},
		}
		x := vals[k%len(vals)]
		for fl := 0; fl < 8; fl++ {
			fl := fl
			if r := obliviousCheck(func(b []byte) ([]byte, error) { return json.Append(b, x, appendFlagSets[fl]) }); r != "ok" {
				return fmt.Sprintf("flags %d: %s", fl, r), "ok", ""
			}
		}
		return "ok", "ok", ""
	}
}

func jvEncodedLen(toks string) (n int) {
	defer func() { recover() }()
	p := &jvParser{toks: strings.Fields(toks)}
	v, _ := p.value()
	if v.Kind() == reflect.Interface && v.IsNil() {
		return 4
	}
	b, _ := json.Append(nil, v.Interface(), 0)
	return len(b)
}

func nanValue() float64 { z := 0.0; return z / z }

type failingMarshaler struct{}

func (failingMarshaler) MarshalJSON() ([]byte, error) {
	return []byte(`{"partial":`), fmt.Errorf("marshal failure")
}

type failingText struct{}

func (failingText) MarshalText() ([]byte, error) {
	return []byte("partial"), fmt.Errorf("text failure")
}

func runC15(h *H) {
	for n := 0; n <= 70; n++ {
		h.DoRisky("json.oblbytes", strconv.Itoa(n), strconv.Itoa(h.Intn(8)))
	}
	for _, n := range []int{255, 256, 257, 1023, 1024, 1025, 4093, 4096, 4099, 65536} {
		h.DoRisky("json.oblbytes", strconv.Itoa(n), strconv.Itoa(h.Intn(8)))
	}
	for k := 0; k < 20; k++ {
		h.DoRisky("json.oblerr", strconv.Itoa(k))
	}
	strs := [][]byte{nil, []byte("a"), []byte("<&>"), []byte("\"\\\n"), []byte("\xff\xfe"), []byte(" x"), bytes.Repeat([]byte("ab<"), 40), bytes.Repeat([]byte("\x01"), 33)}
	for _, s := range strs {
		for fl := 0; fl < 2; fl++ {
			h.DoRisky("json.oblescape", hx(s), strconv.Itoa(fl))
		}
	}
	M := 150
	if h.Thorough() {
		M = 3000
	}
	for i := 0; i < M; i++ {
		s := h.genJSONString()
		if h.Intn(2) == 0 && len(s) >= 2 {
			s = s[1 : len(s)-1]
		}
		h.DoRisky("json.oblescape", hx(s), strconv.Itoa(h.Intn(8)))
	}
	// the Lean buffer model's universe: implementation = slice model = prefix ++ render, over the (prefix, spare) grid
	J := 250
	if h.Thorough() {
		J = 6000
	}
	for i := 0; i < J; i++ {
		var sb strings.Builder
		h.genJV(&sb, 0, i%3 == 0)
		toks := strings.TrimSpace(sb.String())
		n := jvEncodedLen(toks)
		html := h.Pick([]string{"0", "1"})
		for _, pl := range []int{0, 1 + h.Intn(9), 61} {
			for _, sp := range []int{0, n / 2, n - 1, n, n + 1, n + 1 + h.Intn(300)} {
				if sp >= 0 {
					h.DoRisky("json.bufappend", strconv.Itoa(pl), strconv.Itoa(sp), html, toks)
				}
			}
		}
	}
	N := 1200
	if h.Thorough() {
		N = 30000
	}
	for i := 0; i < N; i++ {
		h.DoRisky("json.oblivious", strconv.FormatUint(h.U64(), 10), strconv.Itoa(h.Intn(8)), h.Pick([]string{"val", "ptr"}))
	}
	// the Append-style string helpers on explicit destinations, against the slice model (c15helpers.go)
	runC15Helpers(h)
}
