package main

import (
	"bytes"
	stdjson "encoding/json"
	"io"
	"strconv"
	"strings"

	"github.com/segmentio/encoding/json"
)

type rawMarshaler struct{ b []byte }

func (m rawMarshaler) MarshalJSON() ([]byte, error) { return m.b, nil }

func init() {
	registry["C05"] = runC05
	ops["json.valid"] = func(a []string) (string, string, string) {
		d := unhx(a[0])
		return b01(json.Valid(d)), b01(stdjson.Valid(d)), ""
	}
	ops["json.validdepth"] = func(a []string) (string, string, string) {
		n := atoi(a[0])
		d := []byte(strings.Repeat("[", n) + strings.Repeat("]", n))
		return b01(json.Valid(d)), b01(stdjson.Valid(d)), ""
	}
	// json.depth <kind> <n>: a document nested n deep ([, {"k":, mixed), through every entry point: accepted iff encoding/json accepts
	ops["json.depth"] = func(a []string) (string, string, string) {
		n := atoi(a[1])
		var d []byte
		switch a[0] {
		case "arr":
			d = []byte(strings.Repeat("[", n) + strings.Repeat("]", n))
		case "obj":
			d = []byte(strings.Repeat(`{"C":`, n) + "null" + strings.Repeat("}", n))
		default:
			var sb strings.Builder
			for i := 0; i < n; i++ {
				if i%2 == 0 {
					sb.WriteString(`[1, `)
				} else {
					sb.WriteString(`{"C":`)
				}
			}
			sb.WriteString("0")
			for i := n - 1; i >= 0; i-- {
				if i%2 == 0 {
					sb.WriteString("]")
				} else {
					sb.WriteString("}")
				}
			}
			d = []byte(sb.String())
		}
		type N struct{ C *N }
		type SL []SL
		var i, o strings.Builder
		i.WriteString(b01(json.Valid(d)))
		o.WriteString(b01(stdjson.Valid(d)))
		for _, mk := range []func() any{func() any { return new(any) }, func() any { return new(N) }, func() any { return new(SL) },
			func() any { return new(json.RawMessage) }, func() any { return new(struct{}) }, func() any { return new(map[string]any) }, func() any { return new([]any) }} {
			t1, t2 := mk(), mk()
			i.WriteString(b01(json.Unmarshal(d, t1) == nil))
			o.WriteString(b01(stdjson.Unmarshal(d, t2) == nil))
		}
		var x, y any
		i.WriteString(b01(json.NewDecoder(bytes.NewReader(d)).Decode(&x) == nil))
		o.WriteString(b01(stdjson.NewDecoder(bytes.NewReader(d)).Decode(&y) == nil))
		return i.String(), o.String(), ""
	}
	ops["json.consumer"] = func(a []string) (string, string, string) {
		i, o := consumer(a[0], unhx(a[1]))
		return i, o, ""
	}
	ops["json.edge"] = ops["json.consumer"]
}

// consumer runs one syntax-only path of the package on document d and the corresponding encoding/json path.
func consumer(which string, d []byte) (string, string) {
	switch which {
	case "rawenc": // RawMessage on encode
		_, e1 := json.Marshal(json.RawMessage(d))
		_, e2 := stdjson.Marshal(stdjson.RawMessage(d))
		return b01(e1 == nil), b01(e2 == nil)
	case "rawencptr": // through a struct field and Append with default flags
		type T struct{ R json.RawMessage }
		type U struct{ R stdjson.RawMessage }
		_, e1 := json.Marshal(T{d})
		_, e2 := stdjson.Marshal(U{d})
		return b01(e1 == nil), b01(e2 == nil)
	case "marshaler": // output of a MarshalJSON method
		_, e1 := json.Marshal(rawMarshaler{d})
		_, e2 := stdjson.Marshal(rawMarshaler{d})
		return b01(e1 == nil), b01(e2 == nil)
	case "rawdec": // RawMessage on decode
		var r1 json.RawMessage
		var r2 stdjson.RawMessage
		e1 := json.Unmarshal(d, &r1)
		e2 := stdjson.Unmarshal(d, &r2)
		return b01(e1 == nil), b01(e2 == nil)
	case "skipfield": // value skipped because the target has no matching field (d is the composite document)
		var s1, s2 struct{}
		e1 := json.Unmarshal(d, &s1)
		e2 := stdjson.Unmarshal(d, &s2)
		return b01(e1 == nil), b01(e2 == nil)
	case "arrayslot": // value skipped because the target array has no slot for it (d is the composite document)
		var a1, a2 [1]int
		e1 := json.Unmarshal(d, &a1)
		e2 := stdjson.Unmarshal(d, &a2)
		return b01(e1 == nil), b01(e2 == nil)
	case "ifaceskip": // nested value inside a map[string]struct{} target
		var m1, m2 map[string]struct{}
		e1 := json.Unmarshal(d, &m1)
		e2 := stdjson.Unmarshal(d, &m2)
		return b01(e1 == nil), b01(e2 == nil)
	case "decoder": // framing by Decoder: exactly one value then a clean EOF
		f := func(dec interface{ Decode(any) error }) bool {
			var r stdjson.RawMessage
			if dec.Decode(&r) != nil {
				return false
			}
			var r2 stdjson.RawMessage
			return dec.Decode(&r2) == io.EOF
		}
		return b01(f(json.NewDecoder(bytes.NewReader(d)))), b01(f(stdjson.NewDecoder(bytes.NewReader(d))))
	case "declong": // framing by Decoder after a first value that fills the read buffer with escape-free printable ASCII:
		// d is the SECOND value of the stream; flags computed on one buffer fill must not survive the refill
		f := func(dec interface{ Decode(any) error }) string {
			var r stdjson.RawMessage
			if dec.Decode(&r) != nil {
				return "first-rejected"
			}
			var r2 stdjson.RawMessage
			if dec.Decode(&r2) != nil {
				return "0"
			}
			var r3 stdjson.RawMessage
			if dec.Decode(&r3) != io.EOF {
				return "0"
			}
			return "1"
		}
		stream := append(append(append([]byte{'"'}, bytes.Repeat([]byte{'a'}, declongPad)...), '"', ' '), d...)
		return f(json.NewDecoder(bytes.NewReader(stream))), f(stdjson.NewDecoder(bytes.NewReader(stream)))
	}
	if strings.HasPrefix(which, "decedge:") {
		// framing by Decoder when byte k of the document is the first byte of the SECOND buffer fill: white space in front
		// moves every token of d (literal, number, string, escape, structural byte) across the 32 KiB edge in turn
		k, _ := strconv.Atoi(which[len("decedge:"):])
		f := func(dec interface{ Decode(any) error }, mk func() any) string {
			if dec.Decode(mk()) != nil {
				return "0"
			}
			var r2 stdjson.RawMessage
			if dec.Decode(&r2) != io.EOF {
				return "0"
			}
			return "1"
		}
		stream := append(bytes.Repeat([]byte{' '}, decoderFill-k), d...)
		var i, o strings.Builder
		for _, mk := range []func() any{func() any { return new(stdjson.RawMessage) }, func() any { return new(any) }, func() any { return new(struct{}) },
			func() any { return new([1]int) }, func() any { return new(bool) }} {
			// only acceptance of the FRAMING is compared: a target that cannot hold the value fails in both libraries alike
			i.WriteString(f(json.NewDecoder(bytes.NewReader(stream)), mk))
			o.WriteString(f(stdjson.NewDecoder(bytes.NewReader(stream)), mk))
		}
		return i.String(), o.String()
	}
	panic("unknown consumer " + which)
}

// decoderFill: the Decoder reads 32 KiB at a time into its initial buffer
const decoderFill = 32768

var edgeDocs = []string{`true`, `false`, `null`, `[true]`, `[false,null]`, `{"a":null}`, `{"a":true,"b":false}`, `-12.5e+10`, `1234567890123`, `0`, `"abc"`,
	`"a\"b\\"`, `"\u00e9\ud83d\ude00"`, `"é€😀"`, `[1,"x",null,true,{"k":[false]}]`, `{"key":"value","n":[1,2,3]}`, `[[[[null]]]]`, ` [ true , null ] `,
	`tru`, `nul`, `fals`, `truee`, `[tru]`, `{"a":nul}`, `"abc`, `[1,`, `{"a"`}

// declongPad + 3 bytes precede the second value: it starts right after a 32 KiB buffer fill
var declongPad = 32768 - 3

var directConsumers = []string{"rawenc", "rawencptr", "marshaler", "rawdec", "decoder"}

// representatives of the JSON-significant byte classes
var jsonAlphabet = []byte{'{', '}', '[', ']', ':', ',', '"', '\\', '/', 'u', 'n', 't', 'f', 'e', 'E', '.', '-', '+', '0', '1', '9', 'a', ' ', 0x01, 0x7f, 0x80}

func runC05(h *H) {
	var calls int64
	checkDoc := func(d []byte, sampleEvery uint64) {
		r, o := json.Valid(d), stdjson.Valid(d)
		calls++
		if r != o {
			h.Fail("json.valid", []string{hx(d)}, b01(r), b01(o))
		}
		sample := sampleEvery > 0 && h.U64()%sampleEvery == 0
		if sample {
			h.Case("json.valid", []string{hx(d)}, b01(r), b01(o))
		}
		if len(d) == 0 {
			return
		}
		for _, c := range directConsumers {
			i, oo := consumer(c, d)
			calls++
			if i != oo {
				h.Fail("json.consumer", []string{c, hx(d)}, i, oo)
			}
			if sample {
				h.Case("json.consumer", []string{c, hx(d)}, i, oo)
			}
		}
		if sample || sampleEvery == 7 {
			i, oo := consumer("declong", d)
			calls++
			if i != oo {
				h.Fail("json.consumer", []string{"declong", hx(d)}, i, oo)
			}
		}
		// composites
		for _, cc := range [][2]string{{"skipfield", `{"x":` + string(d) + `}`}, {"arrayslot", `[0,` + string(d) + `]`},
			{"ifaceskip", `{"k":{"x":` + string(d) + `}}`}} {
			i, oo := consumer(cc[0], []byte(cc[1]))
			calls++
			if i != oo {
				h.Fail("json.consumer", []string{cc[0], hx([]byte(cc[1]))}, i, oo)
			}
		}
	}
	for _, doc := range edgeDocs {
		for k := 0; k <= len(doc); k++ {
			c := "decedge:" + strconv.Itoa(k)
			i, oo := consumer(c, []byte(doc))
			calls++
			// op json.edge (no Lean model: oracle = encoding/json's Decoder on the same stream)
			if i != oo {
				h.Fail("json.edge", []string{c, hx([]byte(doc))}, i, oo)
			}
			h.Case("json.edge", []string{c, hx([]byte(doc))}, i, oo)
		}
	}
	for _, k := range []string{"arr", "obj", "mix"} {
		for _, n := range []int{1, 2, 9999, 10000, 10001, 10002, 20000, 300000} {
			h.DoRisky("json.depth", k, strconv.Itoa(n))
		}
		if h.Thorough() {
			h.DoRisky("json.depth", k, strconv.Itoa(6000000))
		}
	}
	// (1) exhaustive over the alphabet: all strings up to length 3 (quick) / 4 (thorough), + sampled length 4/5
	maxLen := 3
	if h.Thorough() {
		maxLen = 4
	}
	var rec func(prefix []byte)
	rec = func(prefix []byte) {
		checkDoc(prefix, 211)
		if len(prefix) == maxLen {
			return
		}
		for _, c := range jsonAlphabet {
			rec(append(prefix, c))
		}
	}
	rec(nil)
	extra := 60000
	if h.Thorough() {
		extra = 1500000
	}
	for i := 0; i < extra; i++ {
		n := maxLen + 1 + h.Intn(4)
		d := make([]byte, n)
		for j := range d {
			d[j] = jsonAlphabet[h.Intn(len(jsonAlphabet))]
		}
		checkDoc(d, 97)
	}
	// (2) generated documents with single-byte mutations placed relative to the 8/16-byte string windows
	N := 4000
	if h.Thorough() {
		N = 80000
	}
	for i := 0; i < N; i++ {
		d := h.genJSON(0)
		checkDoc(d, 13)
		m := h.mutateJSON(d)
		checkDoc(m, 13)
	}
	// strings with a special byte at each offset 0..20 (around the 9/17 length gates)
	specials := []byte{'"', '\\', 0x1f, 0x20, 0x7e, 0x7f, 0x80, 0x00, 'u', '/'}
	for n := 0; n <= 20; n++ {
		for pos := 0; pos < n; pos++ {
			for _, sp := range specials {
				s := bytes.Repeat([]byte("a"), n)
				s[pos] = sp
				d := append(append([]byte{'"'}, s...), '"')
				checkDoc(d, 7)
				checkDoc(append([]byte("  "), d...), 0)
				checkDoc(append(append([]byte{'['}, d...), ']'), 0)
				if sp == '\\' && pos+1 < n {
					for _, e := range []byte{'"', '\\', 'n', 'u', 'x', '0'} {
						s2 := append([]byte{}, s...)
						s2[pos+1] = e
						checkDoc(append(append([]byte{'"'}, s2...), '"'), 11)
					}
				}
			}
		}
	}
	// (3) deep nesting around encoding/json's limit
	for _, depth := range []int{1, 100, 9999, 10000, 10001, 20000} {
		for _, open := range []string{"[", `{"a":`} {
			cl := "]"
			if open != "[" {
				cl = "}"
			}
			d := []byte(strings.Repeat(open, depth) + "1" + strings.Repeat(cl, depth))
			r, o := json.Valid(d), stdjson.Valid(d)
			calls++
			h.Case("json.valid", []string{hx(d)}, b01(r), b01(o))
		}
	}
	h.Count("inprocess_calls", calls)
}

// genJSON: a random valid document
func (h *H) genJSON(depth int) []byte {
	wsp := func() string { return []string{"", "", "", " ", "\n", "\t ", "\r\n"}[h.Intn(7)] }
	switch r := h.Intn(12); {
	case r < 2 && depth < 6:
		n := h.Intn(4)
		var sb bytes.Buffer
		sb.WriteString("[" + wsp())
		for i := 0; i < n; i++ {
			if i > 0 {
				sb.WriteString(wsp() + "," + wsp())
			}
			sb.Write(h.genJSON(depth + 1))
		}
		sb.WriteString(wsp() + "]")
		return sb.Bytes()
	case r < 4 && depth < 6:
		n := h.Intn(4)
		var sb bytes.Buffer
		sb.WriteString("{" + wsp())
		for i := 0; i < n; i++ {
			if i > 0 {
				sb.WriteString(wsp() + "," + wsp())
			}
			sb.Write(h.genJSONString())
			sb.WriteString(wsp() + ":" + wsp())
			sb.Write(h.genJSON(depth + 1))
		}
		sb.WriteString(wsp() + "}")
		return sb.Bytes()
	case r < 7:
		return h.genJSONString()
	case r < 10:
		return []byte(h.Pick([]string{"0", "-0", "1", "-1", "12", "1.5", "0.0", "-0.25", "1e5", "1E-5", "1.5e+10", "123456789012345678901234567890",
			"9223372036854775807", "-9223372036854775808", "18446744073709551615", "1e400", "0e0"}))
	default:
		return []byte(h.Pick([]string{"null", "true", "false"}))
	}
}

func (h *H) genJSONString() []byte {
	n := h.Intn(24)
	var sb bytes.Buffer
	sb.WriteByte('"')
	for i := 0; i < n; i++ {
		switch h.Intn(14) {
		case 0:
			sb.WriteString(h.Pick([]string{`\"`, `\\`, `\/`, `\b`, `\f`, `\n`, `\r`, `\t`}))
		case 1:
			sb.WriteString(h.Pick([]string{`A`, `é`, `😀`, `\ud800`, `\uDFFF`, `\u0000`, ` `}))
		case 2:
			sb.WriteString(h.Pick([]string{"é", "日本", "\x7f", "\xff", "\xc3", "<", ">", "&", " "}))
		default:
			sb.WriteByte(byte('a' + h.Intn(26)))
		}
	}
	sb.WriteByte('"')
	return sb.Bytes()
}

func (h *H) mutateJSON(d []byte) []byte {
	d = append([]byte{}, d...)
	if len(d) == 0 {
		return d
	}
	switch h.Intn(6) {
	case 0:
		d[h.Intn(len(d))] = jsonAlphabet[h.Intn(len(jsonAlphabet))]
	case 1:
		i := h.Intn(len(d))
		d = append(d[:i], d[i+1:]...)
	case 2:
		i := h.Intn(len(d) + 1)
		d = append(d[:i], append([]byte{jsonAlphabet[h.Intn(len(jsonAlphabet))]}, d[i:]...)...)
	case 3:
		d = d[:h.Intn(len(d))]
	case 4:
		d = append(d, []byte(h.Pick([]string{" ", "1", ",", "]", "}", "x", " 2", "\n\n"}))...)
	case 5:
		d[h.Intn(len(d))] = byte(h.U64())
	}
	return d
}
