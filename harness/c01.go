package main

import (
	"bytes"
	stdjson "encoding/json"
	"fmt"
	"math"
	"os"
	"reflect"
	"strconv"
	"strings"
	"time"

	"github.com/segmentio/encoding/json"
)

// ---- static types with methods (receiver kinds) and embedding -----------------------------------------

type jMV struct{ S string } // Marshaler, value receiver
type jMP struct{ S string } // Marshaler, pointer receiver
type jTV struct{ S string } // TextMarshaler, value receiver
type jTP struct{ S string } // TextMarshaler, pointer receiver
type jTKey string           // string kind + TextMarshaler (map keys)
type jIKey int              // int kind + TextMarshaler (map keys)
type jRawM []byte           // MarshalJSON returns the bytes as they are
type jWKey struct{ P *jTP } // pointer-shaped struct + TextMarshaler (map keys)
type jAKey [1]*jTP          // pointer-shaped array + TextMarshaler (map keys)
type JE1 struct {
	X int
	Y string `json:"y,omitempty"`
}
type JE2 struct {
	X int
	Z *int `json:",omitempty"`
}
type JE3 struct {
	JE1
	W bool `json:"w"`
}
type JE4 struct {
	Deep struct{ Q int } `json:"deep"`
	X    int8            `json:"X,string"`
}

func (m jMV) MarshalJSON() ([]byte, error)   { return []byte(`{"mv":` + strconv.Quote(m.S) + `}`), nil }
func (m *jMP) MarshalJSON() ([]byte, error)  { return []byte(`["mp",` + strconv.Quote(m.S) + `]`), nil }
func (m jTV) MarshalText() ([]byte, error)   { return []byte("tv:" + m.S), nil }
func (m *jTP) MarshalText() ([]byte, error)  { return []byte("tp:" + m.S), nil }
func (k jTKey) MarshalText() ([]byte, error) { return []byte("tk:" + string(k)), nil }
func (k jIKey) MarshalText() ([]byte, error) { return []byte("ik:" + strconv.Itoa(int(k))), nil }
func (m jRawM) MarshalJSON() ([]byte, error) { return []byte(m), nil }
func (k jWKey) MarshalText() ([]byte, error) {
	if k.P == nil {
		return []byte("w:nil"), nil
	}
	return []byte("w:" + k.P.S), nil
}
func (k jAKey) MarshalText() ([]byte, error) {
	if k[0] == nil {
		return []byte("a:nil"), nil
	}
	return []byte("a:" + k[0].S), nil
}

var jPtrKeys = []reflect.Type{reflect.TypeOf((*jTP)(nil)), reflect.TypeOf(jWKey{}), reflect.TypeOf(jAKey{})}

func (m *jMV) UnmarshalJSON(b []byte) error {
	var x struct {
		Mv string `json:"mv"`
	}
	if err := stdjson.Unmarshal(b, &x); err != nil {
		return err
	}
	m.S = x.Mv
	return nil
}
func (m *jTV) UnmarshalText(b []byte) error { m.S = strings.TrimPrefix(string(b), "tv:"); return nil }
func (k *jTKey) UnmarshalText(b []byte) error {
	*k = jTKey(strings.TrimPrefix(string(b), "tk:"))
	return nil
}

var jsonStatic = []reflect.Type{
	reflect.TypeOf(jMV{}), reflect.TypeOf(jMP{}), reflect.TypeOf(jTV{}), reflect.TypeOf(jTP{}),
	reflect.TypeOf(json.Number("")), reflect.TypeOf(json.RawMessage(nil)), reflect.TypeOf(time.Time{}),
	reflect.TypeOf(JE1{}), reflect.TypeOf(JE3{}), reflect.TypeOf(JE4{}),
}
var jsonEmbeddable = []reflect.Type{reflect.TypeOf(JE1{}), reflect.TypeOf(JE2{}), reflect.TypeOf(JE3{}), reflect.TypeOf(JE4{})}

var jsonBasic = []reflect.Type{
	reflect.TypeOf(false), reflect.TypeOf(int(0)), reflect.TypeOf(int8(0)), reflect.TypeOf(int16(0)), reflect.TypeOf(int32(0)),
	reflect.TypeOf(int64(0)), reflect.TypeOf(uint(0)), reflect.TypeOf(uint8(0)), reflect.TypeOf(uint16(0)), reflect.TypeOf(uint32(0)),
	reflect.TypeOf(uint64(0)), reflect.TypeOf(float32(0)), reflect.TypeOf(float64(0)), reflect.TypeOf(""), reflect.TypeOf([]byte(nil)),
	reflect.TypeOf(uintptr(0)),
}

type jgen struct {
	h      *H
	feats  map[string]bool
	decode bool // generating a decode target: avoid types that cannot be unmarshalled (pointer-receiver-only marshalers are fine)
}

func (g *jgen) feat(s string) { g.feats[s] = true }

func (g *jgen) ty(depth int) reflect.Type {
	h := g.h
	r := h.Intn(24)
	if depth >= 4 && r >= 10 {
		r = h.Intn(10)
	}
	switch {
	case r < 8:
		return jsonBasic[h.Intn(len(jsonBasic))]
	case r < 10:
		t := jsonStatic[h.Intn(len(jsonStatic))]
		if g.decode && (t == reflect.TypeOf(jMP{}) || t == reflect.TypeOf(jTP{})) {
			return reflect.TypeOf("")
		}
		return t
	case r < 12:
		return reflect.PointerTo(g.ty(depth + 1))
	case r < 14:
		return reflect.SliceOf(g.ty(depth + 1))
	case r < 15:
		return reflect.ArrayOf([]int{0, 1, 2, 3}[h.Intn(4)], g.ty(depth+1))
	case r < 17:
		if h.Intn(3) == 0 { // the map types with hand-specialised encoders and decoders (sorted and unsorted branches)
			g.feat("specialmap")
			return []reflect.Type{reflect.TypeOf(map[string]any(nil)), reflect.TypeOf(map[string]json.RawMessage(nil)),
				reflect.TypeOf(map[string]string(nil)), reflect.TypeOf(map[string][]string(nil)), reflect.TypeOf(map[string]bool(nil))}[h.Intn(5)]
		}
		var k reflect.Type
		switch h.Intn(8) {
		case 0:
			k = reflect.TypeOf(jTKey(""))
			g.feat("tkey")
		case 1:
			k = reflect.TypeOf(jIKey(0))
		case 4:
			// key types whose interface word is the pointer itself (*K, struct{*K}, [1]*K) with MarshalText; encode only:
			// neither library can decode into them. jTV: a struct key with both text methods.
			if g.decode || h.Intn(4) == 0 {
				k = reflect.TypeOf(jTV{})
			} else {
				k = jPtrKeys[h.Intn(len(jPtrKeys))]
			}
			g.feat("textkey")
		case 2, 3:
			k = []reflect.Type{reflect.TypeOf(int(0)), reflect.TypeOf(int8(0)), reflect.TypeOf(uint16(0)), reflect.TypeOf(int64(0)), reflect.TypeOf(uint64(0))}[h.Intn(5)]
		default:
			k = reflect.TypeOf("")
		}
		return reflect.MapOf(k, g.ty(depth+1))
	case r < 19:
		return reflect.TypeOf((*any)(nil)).Elem()
	default:
		return g.structTy(depth)
	}
}

func (g *jgen) structTy(depth int) reflect.Type {
	h := g.h
	n := h.Intn(6)
	if h.Intn(30) == 0 {
		n = 30 + h.Intn(8) // > 32 fields: the decoder switches from keyset to map
	}
	var fs []reflect.StructField
	names := []string{"A", "B", "C", "D", "E", "F", "G", "H", "X", "Y", "Z", "W"}
	used := map[string]bool{}
	if h.Intn(4) == 0 { // embedded static struct (by value or pointer)
		et := jsonEmbeddable[h.Intn(len(jsonEmbeddable))]
		name := et.Name()
		ft := et
		if h.Bool() {
			ft = reflect.PointerTo(et)
			g.feat("embptr")
		}
		fs = append(fs, reflect.StructField{Name: name, Type: ft, Anonymous: true})
		used[name] = true
		g.feat("emb")
	}
	caseAt := -1
	if n >= 2 && h.Intn(5) == 0 {
		caseAt = h.Intn(n - 1) // two fields whose names differ only in case (exact match must win over the case-insensitive one)
		g.feat("casepair")
	}
	longAt := -1
	if n >= 1 && h.Intn(6) == 0 {
		longAt = h.Intn(n) // a field name longer than the decoder's 64-byte lower-casing scratch buffer
	}
	for i := 0; i < n; i++ {
		name := names[h.Intn(len(names))]
		if n > 12 {
			name = fmt.Sprintf("F%d", i)
		}
		if i == caseAt {
			name = "Id"
		} else if i == caseAt+1 && caseAt >= 0 {
			name = "ID"
		} else if i == longAt {
			name = "LongFieldName" + strings.Repeat("Xy", 30+h.Intn(20))
		}
		if used[name] {
			name = fmt.Sprintf("%s%d", name, i)
		}
		used[name] = true
		ft := g.ty(depth + 1)
		tag := ""
		tagKind := h.Intn(10)
		if caseAt >= 0 && (i == caseAt || i == caseAt+1) && tagKind == 0 {
			tagKind = 9 // lower-casing both names of the case pair would make them collide (a different, known, finding)
		}
		switch tagKind {
		case 0:
			tag = `json:"` + strings.ToLower(name) + `"`
		case 1:
			tag = `json:",omitempty"`
			g.feat("omitempty")
		case 2:
			tag = `json:"` + name + `x,omitempty"`
			g.feat("omitempty")
		case 3:
			switch ft.Kind() {
			case reflect.Bool, reflect.Int, reflect.Int8, reflect.Int16, reflect.Int32, reflect.Int64, reflect.Uint, reflect.Uint8,
				reflect.Uint16, reflect.Uint32, reflect.Uint64, reflect.Float32, reflect.Float64, reflect.String, reflect.Uintptr:
				tag = `json:",string"`
				g.feat("stringopt")
			case reflect.Ptr:
				if ft.Elem().Kind() == reflect.Int || ft.Elem().Kind() == reflect.String {
					tag = `json:",string"`
					g.feat("stringopt")
				}
			}
		case 4:
			tag = `json:"-"`
		case 5:
			tag = `json:"dup"` // deliberately colliding names
			g.feat("collide")
		case 6:
			tag = `json:"a b",omitempty` // odd but valid name "a b" (may be used twice)
			g.feat("collide")
		case 7:
			tag = `json:"é$%,omitempty"`
			g.feat("collide")
		}
		fs = append(fs, reflect.StructField{Name: name, Type: ft, Tag: reflect.StructTag(tag)})
	}
	// names of embedded types' fields may collide with ours (X, Y, Z, W): depth-dominance rules
	for _, f := range fs {
		if !f.Anonymous && (f.Name == "X" || f.Name == "Z" || f.Name == "W" || f.Name == "Y") && len(fs) > 0 && fs[0].Anonymous {
			g.feat("shadow")
		}
	}
	return reflect.StructOf(fs)
}

var jsonStrings = []string{"", "a", "héllo", "<&>", "\u2028x\u2029", "\x00\x1f", "\xff\xfe", "q\"uote\\", "tab\there", "longer ascii string 0123456789",
	"1234567<", "12345678\"", "abcdefgh\x7f", "emoji😀", "\xed\xa0\x80", "12", "-5", "1e3", "true", "null"}

func (g *jgen) val(t reflect.Type, depth int) reflect.Value {
	h := g.h
	v := reflect.New(t).Elem()
	switch t {
	case reflect.TypeOf(json.Number("")):
		v.SetString(h.Pick([]string{"", "0", "12", "-3.5e10", "1e400", "007", "1x", "--1", "0x10", " 1", "1 "}))
		return v
	case reflect.TypeOf(json.RawMessage(nil)):
		if h.Intn(3) == 0 {
			v.SetBytes(g.rawDoc(0))
			return v
		}
		if h.Intn(4) != 0 {
			v.SetBytes([]byte(h.Pick([]string{`1`, `"x"`, `{ "a" : [1, 2] }`, ` null `, `{"<":"&"}`, "[\n1\t]", `{`, `1 2`, ``, `tru`, "\"\u2028\""})))
			if !stdjson.Valid(v.Bytes()) {
				g.feat("badraw")
			}
		}
		return v
	case reflect.TypeOf(time.Time{}):
		v.Set(reflect.ValueOf(time.Unix(int64(h.U64()%4102444800), int64(h.Intn(1000000000))).UTC()))
		if h.Intn(4) == 0 {
			v.Set(reflect.ValueOf(time.Unix(int64(h.U64()%4102444800), 0).In(time.FixedZone("", (h.Intn(27)-13)*3600))))
		}
		return v
	}
	switch t.Kind() {
	case reflect.Bool:
		v.SetBool(h.Bool())
	case reflect.Int, reflect.Int8, reflect.Int16, reflect.Int32, reflect.Int64:
		x := int64(edgeInts[h.Intn(len(edgeInts))])
		if h.Bool() {
			x = int64(h.U64() >> uint(h.Intn(64)))
		}
		if h.Intn(3) == 0 {
			x = -x
		}
		if h.Intn(4) == 0 {
			x = 0
		}
		v.SetInt(x)
	case reflect.Uint, reflect.Uint8, reflect.Uint16, reflect.Uint32, reflect.Uint64, reflect.Uintptr:
		x := h.U64() >> uint(h.Intn(64))
		if h.Intn(4) == 0 {
			x = 0
		}
		v.SetUint(x)
	case reflect.Float32, reflect.Float64:
		fs := []float64{0, math.Copysign(0, -1), 1, -1.5, 1e20, 1e21, 1e22, 1e-6, 9.999999e-7, 1e-7, 123456789.125, 0.1, 1e300, 1e-300, math.MaxFloat32, 3.4e38,
			1e-45, math.SmallestNonzeroFloat64, math.Inf(1), math.NaN(), 16777216, 1.0000001, 100000000000000000000, 999999999999999900000}
		f := fs[h.Intn(len(fs))]
		if h.Intn(3) == 0 {
			f = math.Float64frombits(h.U64())
		}
		if t.Kind() == reflect.Float32 && h.Intn(3) == 0 {
			f = float64(math.Float32frombits(uint32(h.U64())))
		}
		v.SetFloat(f)
	case reflect.String:
		s := jsonStrings[h.Intn(len(jsonStrings))]
		if h.Intn(4) == 0 {
			// an escapable byte at a chosen offset relative to the 8-byte scan
			b := []byte("abcdefghijklmnopqrstuvwxyz")[:h.Intn(26)]
			if len(b) > 0 {
				b[h.Intn(len(b))] = []byte{'"', '\\', '<', 0x1f, 0x7f, 0x80, '\n', '&'}[h.Intn(8)]
			}
			s = string(b)
		}
		v.SetString(s)
	case reflect.Slice:
		if h.Intn(5) == 0 {
			return v // nil
		}
		if t.Elem().Kind() == reflect.Uint8 && t.Elem() == reflect.TypeOf(byte(0)) {
			v.SetBytes(h.Bytes(h.Intn(20)))
			return v
		}
		n := h.Intn(4)
		if depth > 3 {
			n = h.Intn(2)
		}
		v.Set(reflect.MakeSlice(t, n, n))
		for i := 0; i < n; i++ {
			v.Index(i).Set(g.val(t.Elem(), depth+1))
		}
	case reflect.Array:
		for i := 0; i < t.Len(); i++ {
			v.Index(i).Set(g.val(t.Elem(), depth+1))
		}
	case reflect.Map:
		if h.Intn(5) == 0 {
			return v
		}
		n := h.Intn(4)
		if n > 1 {
			g.feat("multimap")
		}
		v.Set(reflect.MakeMapWithSize(t, n))
		if kt := t.Key(); kt == jPtrKeys[0] || kt == jPtrKeys[1] || kt == jPtrKeys[2] {
			// distinct pointers with distinct texts (the entry number), so that the sorted output is determined; the
			// first key is sometimes the nil pointer
			for i := 0; i < n; i++ {
				p := &jTP{S: string(rune('a'+h.Intn(3))) + strconv.Itoa(i)}
				if i == 0 && h.Intn(3) == 0 {
					p = nil
				}
				var kv reflect.Value
				switch kt {
				case jPtrKeys[0]:
					kv = reflect.ValueOf(p)
				case jPtrKeys[1]:
					kv = reflect.ValueOf(jWKey{p})
				default:
					kv = reflect.ValueOf(jAKey{p})
				}
				v.SetMapIndex(kv, g.val(t.Elem(), depth+1))
			}
			return v
		}
		for i := 0; i < n; i++ {
			v.SetMapIndex(g.val(t.Key(), depth+1), g.val(t.Elem(), depth+1))
		}
	case reflect.Ptr:
		if h.Intn(4) == 0 {
			return v
		}
		p := reflect.New(t.Elem())
		p.Elem().Set(g.val(t.Elem(), depth+1))
		v.Set(p)
		if t.Elem().Kind() == reflect.Ptr {
			g.feat("ptrptr")
		}
	case reflect.Interface:
		switch h.Intn(9) {
		case 0: // nil
		case 1:
			v.Set(reflect.ValueOf((*int)(nil)))
			g.feat("typednil")
		case 2:
			v.Set(reflect.ValueOf(map[string]any{"k": 1.5, "a": []any{nil, "x"}}))
			g.feat("multimap")
		case 3:
			v.Set(reflect.ValueOf([]any{true, json.Number("12"), "s"}))
		case 4:
			x := 5
			v.Set(reflect.ValueOf(&x))
		case 5:
			v.Set(reflect.ValueOf(jMV{"i"}))
		case 6:
			v.Set(reflect.ValueOf(&jMP{"i"}))
		default:
			v.Set(g.val(jsonBasic[h.Intn(len(jsonBasic)-1)], depth+1))
		}
	case reflect.Struct:
		for i := 0; i < t.NumField(); i++ {
			if t.Field(i).PkgPath != "" {
				continue
			}
			if h.Intn(6) != 0 {
				v.Field(i).Set(g.val(t.Field(i).Type, depth+1))
			}
		}
	}
	return v
}

// ---- the op: regenerate case from its sub-seed ---------------------------------------------------------

func jsonCase(sub uint64, decode bool) (reflect.Type, reflect.Value, map[string]bool) {
	hh := &H{rng: sub, Stats: map[string]int64{}}
	g := &jgen{h: hh, feats: map[string]bool{}, decode: decode}
	t := g.ty(0)
	if hh.Intn(3) != 0 && t.Kind() != reflect.Struct {
		t = g.structTy(0)
	}
	v := g.val(t, 0)
	return t, v, g.feats
}

func marshalWith(setting string, x any) (a []byte, e1 error, b []byte, e2 error) {
	switch setting {
	case "marshal":
		a, e1 = json.Marshal(x)
		b, e2 = stdjson.Marshal(x)
	case "append":
		a, e1 = json.Append(nil, x, json.EscapeHTML|json.SortMapKeys)
		b, e2 = stdjson.Marshal(x)
	case "indent":
		a, e1 = json.MarshalIndent(x, ">", "\t ")
		b, e2 = stdjson.MarshalIndent(x, ">", "\t ")
	default: // enc:<html>:<prefix>:<indent>
		p := strings.Split(setting, ":")
		p[3] = strings.NewReplacer("S", " ", "T", "\t").Replace(p[3])
		var b1, b2 bytes.Buffer
		en1 := json.NewEncoder(&b1)
		en2 := stdjson.NewEncoder(&b2)
		en1.SetEscapeHTML(p[1] == "1")
		en2.SetEscapeHTML(p[1] == "1")
		if p[2] != "" || p[3] != "" {
			en1.SetIndent(p[2], p[3])
			en2.SetIndent(p[2], p[3])
		}
		e1 = en1.Encode(x)
		e2 = en2.Encode(x)
		a, b = b1.Bytes(), b2.Bytes()
	}
	return
}

var jsonSettings = []string{"marshal", "append", "indent", "enc:1::", "enc:0::", "enc:0::S", "enc:1:p:T"}

func init() {
	registry["C01"] = runC01
	ops["json.marshal"] = func(a []string) (string, string, string) {
		sub, _ := strconv.ParseUint(a[0], 10, 64)
		t, v, feats := jsonCase(sub, false)
		if os.Getenv("VH_TRACE") != "" {
			fmt.Fprintf(os.Stderr, "TYPE %s\nVALUE %#v\nFEATS %v\n", t, v.Interface(), feats)
		}
		x := v.Interface()
		if a[2] == "ptr" {
			p := reflect.New(t)
			p.Elem().Set(v)
			x = p.Interface()
		}
		ga, e1, gb, e2 := marshalWith(a[1], x)
		i, o := "err", "err"
		if e1 == nil {
			i = "ok:" + hx(ga)
		}
		if e2 == nil {
			o = "ok:" + hx(gb)
		}
		var ks []string
		for _, f := range []string{"collide", "shadow"} {
			if feats[f] {
				ks = append(ks, "jsonFieldNameCollision")
				break
			}
		}
		return i, o, strings.Join(ks, ",")
	}
	// json.rawmsg <subseed> <setting>: a generated raw JSON text as a RawMessage field and as a MarshalJSON result
	ops["json.rawmsg"] = func(a []string) (string, string, string) {
		sub, _ := strconv.ParseUint(a[0], 10, 64)
		g := &jgen{h: &H{rng: sub, Stats: map[string]int64{}}, feats: map[string]bool{}}
		doc := g.rawDoc(0)
		x := struct {
			A int
			R json.RawMessage
			M jRawM
			Z string
		}{1, json.RawMessage(doc), jRawM(doc), "<z>"}
		ga, e1, gb, e2 := marshalWith(a[1], x)
		i, o := "err", "err"
		if e1 == nil {
			i = "ok:" + hx(ga)
		}
		if e2 == nil {
			o = "ok:" + hx(gb)
		}
		return i, o, ""
	}
	ops["json.collide"] = func(a []string) (string, string, string) {
		t := reflect.StructOf([]reflect.StructField{
			{Name: "A", Type: reflect.TypeOf(0), Tag: `json:"dup"`},
			{Name: "B", Type: reflect.TypeOf(0), Tag: `json:"dup"`},
			{Name: "C", Type: reflect.TypeOf(0)},
		})
		v := reflect.New(t).Elem()
		v.Field(0).SetInt(1)
		v.Field(1).SetInt(2)
		v.Field(2).SetInt(3)
		x, _ := json.Marshal(v.Interface())
		y, _ := stdjson.Marshal(v.Interface())
		return string(x), string(y), "jsonFieldNameCollision"
	}
	ops["json.encstr"] = func(a []string) (string, string, string) {
		s := string(unhx(a[1]))
		fl := json.AppendFlags(0)
		if a[0] == "1" {
			fl = json.EscapeHTML
		}
		b, err := json.Append(nil, s, fl)
		if err != nil {
			return "err", "-", ""
		}
		var ob bytes.Buffer
		en := stdjson.NewEncoder(&ob)
		en.SetEscapeHTML(a[0] == "1")
		en.Encode(s)
		// Escape / AppendEscape must agree with Marshal (default flags)
		if a[0] == "1" {
			if e := json.Escape(s); !bytes.Equal(e, b) {
				return hx(b) + ";escape-differs", hx(bytes.TrimRight(ob.Bytes(), "\n")), ""
			}
			if e := json.AppendEscape([]byte("pfx"), s, json.EscapeHTML); !bytes.Equal(e, append([]byte("pfx"), b...)) {
				return hx(b) + ";appendescape-differs", hx(bytes.TrimRight(ob.Bytes(), "\n")), ""
			}
		}
		return hx(b), hx(bytes.TrimRight(ob.Bytes(), "\n")), ""
	}
	ops["json.encint"] = func(a []string) (string, string, string) {
		if strings.HasPrefix(a[0], "-") {
			n, _ := strconv.ParseInt(a[0], 10, 64)
			b, _ := json.Marshal(n)
			o, _ := stdjson.Marshal(n)
			return hx(b), hx(o), ""
		}
		n, _ := strconv.ParseUint(a[0], 10, 64)
		b, _ := json.Marshal(n)
		o, _ := stdjson.Marshal(n)
		return hx(b), hx(o), ""
	}
	ops["json.duration"] = func(a []string) (string, string, string) {
		n, _ := strconv.ParseInt(a[0], 10, 64)
		b, err := json.Marshal(time.Duration(n))
		if err != nil {
			return "err", "-", ""
		}
		return string(b), strconv.Quote(time.Duration(n).String()), ""
	}
}

func runC01(h *H) {
	// scalar layer through the Lean driver: strings with an escapable byte at every offset 0..24, integers at every width boundary
	specials := []byte{'"', '\\', '<', '>', '&', 0x00, 0x1f, 0x20, 0x7e, 0x7f, 0x80, 0xc3, 0xe2, '\n', '\t', '\b', '\f', '\r', '/'}
	for n := 0; n <= 24; n++ {
		for pos := 0; pos < n; pos++ {
			for _, sp := range specials {
				s := bytes.Repeat([]byte("a"), n)
				s[pos] = sp
				h.Do("json.encstr", "1", hx(s))
				if sp == '<' || sp == 0xe2 || pos%5 == 0 {
					h.Do("json.encstr", "0", hx(s))
				}
			}
		}
		h.Do("json.encstr", "1", hx(bytes.Repeat([]byte("z"), n)))
	}
	for _, s := range []string{"\u2028", "x\u2029y", "abcdefg\u2028", "abcdefgh\u2029", "\xe2\x80", "\xe2\x80\xa7", "\xed\xa0\x80", "\xf4\x90\x80\x80", "\xc0\x80", "😀", "\xf0\x9f\x98"} {
		h.Do("json.encstr", "1", hx([]byte(s)))
		h.Do("json.encstr", "0", hx([]byte("12345678"+s)))
	}
	M := 1500
	if h.Thorough() {
		M = 40000
	}
	for i := 0; i < M/3; i++ {
		h.Do("json.rawmsg", strconv.FormatUint(h.U64(), 10), jsonSettings[h.Intn(len(jsonSettings))])
	}
	for i := 0; i < M; i++ {
		n := h.Intn(30)
		s := make([]byte, n)
		for j := range s {
			switch h.Intn(6) {
			case 0:
				s[j] = byte(h.U64())
			case 1:
				s[j] = specials[h.Intn(len(specials))]
			default:
				s[j] = byte('a' + h.Intn(26))
			}
		}
		h.Do("json.encstr", strconv.Itoa(h.Intn(2)), hx(s))
	}
	for _, x := range edgeInts {
		h.Do("json.encint", strconv.FormatInt(x, 10))
		h.Do("json.encint", strconv.FormatInt(-x, 10))
		h.Do("json.encint", strconv.FormatUint(uint64(x), 10))
	}
	for k := uint(0); k < 64; k++ {
		for _, d := range []uint64{0, 1} {
			h.Do("json.encint", strconv.FormatUint((uint64(1)<<k)-d, 10))
		}
	}
	p10 := uint64(1)
	for k := 0; k < 20; k++ {
		h.Do("json.encint", strconv.FormatUint(p10, 10))
		h.Do("json.encint", strconv.FormatUint(p10-1, 10))
		h.Do("json.encint", strconv.FormatInt(-int64(p10), 10))
		p10 *= 10
	}
	for i := 0; i < 300; i++ {
		h.Do("json.encint", strconv.FormatUint(h.U64()>>uint(h.Intn(64)), 10))
		h.Do("json.duration", strconv.FormatInt(int64(h.U64()>>uint(h.Intn(64))), 10))
	}
	// struct-field resolution against the Lean model / specification (c01fields.go)
	genFields(h)
	// codec construction: marshaler detection, addressability, cache histories (c01codec.go)
	genCodecChoice(h)
	// the decode half of codec construction (c01codecdec.go)
	genFieldsDec(h)
	// type-directed differential against encoding/json (supervised: a crash is an observable)
	N := 2500
	if h.Thorough() {
		N = 60000
	}
	for i := 0; i < N; i++ {
		sub := h.U64()
		setting := jsonSettings[h.Intn(len(jsonSettings))]
		by := "val"
		if h.Intn(3) == 0 {
			by = "ptr"
		}
		h.DoRisky("json.marshal", strconv.FormatUint(sub, 10), setting, by)
	}
	// float layer: encodeFloat against the Lean model / stdlib rule, destination prefixes of every shape (c01float.go)
	genEncFloat(h)
	// map key layer: member order and key texts per key kind (c01mapkeys.go); omitempty decision table (c01omit.go)
	genMapKeyOrder(h)
	genMapKeyDec(h)
	genOmitEmpty(h)
	genInlined(h)
	// typed values: encodeTyped against the Lean model / specification, and the typed round trip (c01typed.go)
	genEncTyped(h)
}

// rawDoc: a VALID JSON text with insignificant white space, strings that end in escaped backslashes or quotes, HTML
// characters and U+2028 inside and outside strings-with-escapes: what the compaction / HTML escaping of RawMessage values
// and MarshalJSON results must get through with its in-string state intact.
func (g *jgen) rawDoc(depth int) []byte {
	h := g.h
	ws := func() string { return h.Pick([]string{"", "", " ", "\n", "\t ", "  "}) }
	str := func() string {
		return h.Pick([]string{`""`, `"a b"`, `"\\"`, `"x\\"`, `"C:\\tmp\\"`, `"\\\""`, `"q\"\\"`, `"<a&b>"`, `"a b <c>"`, `"\u2028 \\"`, "\"\u2028\"", `"\\\\"`,
			`"é \\"`, `"\\ \\"`, `"{ [ , : "`, `"\\u005c"`, `"end\\\\"`})
	}
	var b strings.Builder
	var val func(d int)
	val = func(d int) {
		switch r := h.Intn(10); {
		case r < 4 || d > 2:
			b.WriteString(str())
		case r < 5:
			b.WriteString(h.Pick([]string{"1", "-0.5e+3", "true", "null", "false"}))
		case r < 8:
			b.WriteString("{" + ws())
			n := h.Intn(4)
			for i := 0; i < n; i++ {
				if i > 0 {
					b.WriteString(ws() + "," + ws())
				}
				b.WriteString(str() + ws() + ":" + ws())
				val(d + 1)
			}
			b.WriteString(ws() + "}")
		default:
			b.WriteString("[" + ws())
			n := h.Intn(4)
			for i := 0; i < n; i++ {
				if i > 0 {
					b.WriteString(ws() + "," + ws())
				}
				val(d + 1)
			}
			b.WriteString(ws() + "]")
		}
	}
	b.WriteString(ws())
	val(depth)
	b.WriteString(ws())
	out := []byte(b.String())
	if !stdjson.Valid(out) {
		g.feat("badraw")
	}
	return out
}
