package main

// A zoo of hand-declared Go types that are encoded THROUGH THEIR METHODS: implementers of proto.Message
// (Size / Marshal / Unmarshal) of every kind the library distinguishes (slice, struct, map, scalar; value and pointer
// receivers) and one gogo-style custom type (Size / MarshalTo / Unmarshal, no ProtoMessage). They are exercised through the
// real proto.Marshal / Size / Unmarshal / MarshalTo as top-level value, struct field, pointer field, repeated element,
// pointer element and map value (library fixes 109a14e, 0de7c43, e71f28a, c525b92).
//
// Transport:
//
//	type  : named RawMessage named <ZName> <underlying descriptor>     (the real proto.RawMessage stays `named RawMessage bytes`)
//	value : s <hex>     the PAYLOAD = exactly the bytes the value's Marshal / MarshalTo writes (`s -` = empty payload)
//	        i <n>       at a ZFail leaf only: a value whose Size() is n and whose Marshal fails
//	canonical value (showVal canon): `nil` for the empty payload, else `s <hex>`; `i <n>` for a failing ZFail
//
// Every zoo type keeps:  Size() == len(payload);  Unmarshal RESETS the receiver;  Unmarshal(b) succeeds iff valid_Z(b), and then
// the payload of the result is b again (so a leaf IS its payload);  the payload differs from what the kind-based codec
// would write for the underlying type, so a wrong dispatch shows.
//
//	valid: ZBytes all b | ZRec len ≥ 4 | ZPair len = 8 | ZInts len % 8 = 0 | ZUUID len = 16 | ZFail b[0] ≠ 0xDD (or empty)
//	       ZMap  a sequence of entries (klen byte, klen key bytes, 4 bytes) with strictly ascending keys
//	       ZI64  the canonical decimal text of an int64 ("0", "-12", no sign "+", no leading zero, no "-0")

import (
	"encoding/binary"
	"errors"
	"fmt"
	"io"
	"reflect"
	"sort"
	"strconv"
	"strings"

	"github.com/segmentio/encoding/proto"
)

// ---- the types ---------------------------------------------------------------------------------------------------

// ZBytes: slice-of-bytes kind, receivers like RawMessage; payload = the bytes XOR 0x5a.
type ZBytes []byte

func (z ZBytes) Size() int { return len(z) }
func (z ZBytes) Marshal(b []byte) error {
	if len(b) < len(z) {
		return io.ErrShortBuffer
	}
	for i, c := range z {
		b[i] = c ^ 0x5a
	}
	return nil
}
func (z *ZBytes) Unmarshal(b []byte) error {
	n := make([]byte, len(b))
	for i, c := range b {
		n[i] = c ^ 0x5a
	}
	*z = n
	return nil
}

// ZRec: struct kind, every method on the pointer receiver; payload = A (4 bytes little-endian) then the bytes of S.
type ZRec struct {
	A int32
	S string
}

func (z *ZRec) Size() int { return 4 + len(z.S) }
func (z *ZRec) Marshal(b []byte) error {
	if len(b) < 4+len(z.S) {
		return io.ErrShortBuffer
	}
	binary.LittleEndian.PutUint32(b, uint32(z.A))
	copy(b[4:], z.S)
	return nil
}
func (z *ZRec) Unmarshal(b []byte) error {
	if len(b) < 4 {
		return errors.New("zrec: short")
	}
	*z = ZRec{A: int32(binary.LittleEndian.Uint32(b)), S: string(b[4:])}
	return nil
}

// ZPair: struct kind, Size / Marshal on the value receiver; payload = X, Y big-endian (8 bytes).
type ZPair struct{ X, Y uint32 }

func (z ZPair) Size() int { return 8 }
func (z ZPair) Marshal(b []byte) error {
	if len(b) < 8 {
		return io.ErrShortBuffer
	}
	binary.BigEndian.PutUint32(b, z.X)
	binary.BigEndian.PutUint32(b[4:], z.Y)
	return nil
}
func (z *ZPair) Unmarshal(b []byte) error {
	if len(b) != 8 {
		return errors.New("zpair: length")
	}
	*z = ZPair{X: binary.BigEndian.Uint32(b), Y: binary.BigEndian.Uint32(b[4:])}
	return nil
}

// ZInts: slice kind; payload = 8 bytes little-endian per element.
type ZInts []int64

func (z ZInts) Size() int { return 8 * len(z) }
func (z ZInts) Marshal(b []byte) error {
	if len(b) < 8*len(z) {
		return io.ErrShortBuffer
	}
	for i, x := range z {
		binary.LittleEndian.PutUint64(b[8*i:], uint64(x))
	}
	return nil
}
func (z *ZInts) Unmarshal(b []byte) error {
	if len(b)%8 != 0 {
		return errors.New("zints: length")
	}
	n := make(ZInts, len(b)/8)
	for i := range n {
		n[i] = int64(binary.LittleEndian.Uint64(b[8*i:]))
	}
	*z = n
	return nil
}

// ZMap: map kind (pointer-shaped); payload = the entries sorted by key, each: len(key) byte, key, value 4 bytes little-endian.
// Keys are at most 255 bytes long (the generator stays below 200). Unmarshal always allocates a fresh non-nil map.
type ZMap map[string]int32

func (z ZMap) Size() int {
	n := 0
	for k := range z {
		n += 1 + len(k) + 4
	}
	return n
}
func (z ZMap) Marshal(b []byte) error {
	if len(b) < z.Size() {
		return io.ErrShortBuffer
	}
	ks := make([]string, 0, len(z))
	for k := range z {
		if len(k) > 255 {
			return errors.New("zmap: key too long")
		}
		ks = append(ks, k)
	}
	sort.Strings(ks)
	o := 0
	for _, k := range ks {
		b[o] = byte(len(k))
		o += 1 + copy(b[o+1:], k)
		binary.LittleEndian.PutUint32(b[o:], uint32(z[k]))
		o += 4
	}
	return nil
}
func (z *ZMap) Unmarshal(b []byte) error {
	n := ZMap{}
	prev, first := "", true
	for len(b) > 0 {
		l := int(b[0])
		if len(b) < 1+l+4 {
			return errors.New("zmap: truncated")
		}
		k := string(b[1 : 1+l])
		if !first && k <= prev {
			return errors.New("zmap: keys not ascending")
		}
		prev, first = k, false
		n[k] = int32(binary.LittleEndian.Uint32(b[1+l:]))
		b = b[1+l+4:]
	}
	*z = n
	return nil
}

// ZUUID: gogo-style custom type (Size / MarshalTo / Unmarshal, no Marshal, no ProtoMessage); payload = Hi, Lo big-endian.
type ZUUID struct{ Hi, Lo uint64 }

func (z *ZUUID) Size() int { return 16 }
func (z *ZUUID) MarshalTo(b []byte) (int, error) {
	if len(b) < 16 {
		return 0, io.ErrShortBuffer
	}
	binary.BigEndian.PutUint64(b, z.Hi)
	binary.BigEndian.PutUint64(b[8:], z.Lo)
	return 16, nil
}
func (z *ZUUID) Unmarshal(b []byte) error {
	if len(b) != 16 {
		return errors.New("zuuid: length")
	}
	*z = ZUUID{Hi: binary.BigEndian.Uint64(b), Lo: binary.BigEndian.Uint64(b[8:])}
	return nil
}

// ZI64: scalar kind; payload = the canonical decimal text of the number.
type ZI64 int64

func (z ZI64) Size() int { return len(strconv.FormatInt(int64(z), 10)) }
func (z ZI64) Marshal(b []byte) error {
	s := strconv.FormatInt(int64(z), 10)
	if len(b) < len(s) {
		return io.ErrShortBuffer
	}
	copy(b, s)
	return nil
}
func (z *ZI64) Unmarshal(b []byte) error {
	n, err := strconv.ParseInt(string(b), 10, 64)
	if err != nil || strconv.FormatInt(n, 10) != string(b) {
		return errors.New("zi64: not a canonical decimal")
	}
	*z = ZI64(n)
	return nil
}

// ZFail: the error path. Fail: Size() = N and Marshal fails. Otherwise payload = P. Unmarshal rejects inputs starting with 0xDD.
type ZFail struct {
	N    int
	Fail bool
	P    []byte
}

func (z *ZFail) Size() int {
	if z.Fail {
		return z.N
	}
	return len(z.P)
}
func (z *ZFail) Marshal(b []byte) error {
	if z.Fail {
		return errors.New("zfail")
	}
	if len(b) < len(z.P) {
		return io.ErrShortBuffer
	}
	copy(b, z.P)
	return nil
}
func (z *ZFail) Unmarshal(b []byte) error {
	if len(b) > 0 && b[0] == 0xDD {
		return errors.New("zfail: rejected")
	}
	*z = ZFail{P: append(make([]byte, 0, len(b)), b...)}
	return nil
}

// what proto.go calls the gogo-style interface
type zooCustom interface {
	Size() int
	MarshalTo([]byte) (int, error)
	Unmarshal([]byte) error
}

var (
	_ proto.Message = (*ZBytes)(nil)
	_ proto.Message = (*ZRec)(nil)
	_ proto.Message = (*ZPair)(nil)
	_ proto.Message = (*ZInts)(nil)
	_ proto.Message = (*ZMap)(nil)
	_ zooCustom     = (*ZUUID)(nil)
	_ proto.Message = (*ZI64)(nil)
	_ proto.Message = (*ZFail)(nil)
	// value receivers: the plain type has Size / Marshal too
	_ interface {
		Size() int
		Marshal([]byte) error
	} = ZBytes(nil)
	_ interface {
		Size() int
		Marshal([]byte) error
	} = ZPair{}
	_ interface {
		Size() int
		Marshal([]byte) error
	} = ZInts(nil)
	_ interface {
		Size() int
		Marshal([]byte) error
	} = ZMap(nil)
	_ interface {
		Size() int
		Marshal([]byte) error
	} = ZI64(0)
)

// ---- registry and transport -----------------------------------------------------------------------------------------

type zooType struct {
	name string
	desc string // the full type descriptor
	rt   reflect.Type
	gen  func(h *H) reflect.Value
}

var zooTypes = map[string]*zooType{}
var zooByRType = map[reflect.Type]*zooType{}
var zooNames []string // registration order (the generator picks by index)

func zooRegister(name, underlying string, rt reflect.Type, gen func(h *H) reflect.Value) {
	z := &zooType{name: name, desc: "named RawMessage named " + name + " " + underlying, rt: rt, gen: gen}
	zooTypes[name] = z
	zooByRType[rt] = z
	zooNames = append(zooNames, name)
}

// zooOf: non-nil iff t is a zoo leaf `named RawMessage named Z …`.
func zooOf(t *Ty) *zooType {
	if t == nil || t.K != "named" || t.Name != "RawMessage" || t.Elem == nil || t.Elem.K != "named" {
		return nil
	}
	z := zooTypes[t.Elem.Name]
	if z == nil {
		panic("unknown zoo type " + t.Elem.Name)
	}
	return z
}

// payload: the bytes v's own Marshal / MarshalTo writes; failing = a ZFail whose Marshal fails (n = its Size()).
func (z *zooType) payload(v reflect.Value) (b []byte, failing bool, n int) {
	p := reflect.New(z.rt)
	p.Elem().Set(v)
	switch m := p.Interface().(type) {
	case *ZFail:
		if m.Fail {
			return nil, true, m.N
		}
		return append([]byte{}, m.P...), false, len(m.P)
	case proto.Message:
		b = make([]byte, m.Size())
		if err := m.Marshal(b); err != nil {
			panic("zoo Marshal: " + err.Error())
		}
		return b, false, len(b)
	case zooCustom:
		b = make([]byte, m.Size())
		k, err := m.MarshalTo(b)
		if err != nil || k != len(b) {
			panic("zoo MarshalTo")
		}
		return b, false, len(b)
	}
	panic("zoo type without methods: " + z.name)
}

// fromPayload builds the value from its payload through the type's own Unmarshal.
func (z *zooType) fromPayload(dst reflect.Value, b []byte) {
	u := dst.Addr().Interface().(interface{ Unmarshal([]byte) error })
	if err := u.Unmarshal(b); err != nil {
		panic("bad " + z.name + " payload: " + err.Error())
	}
}

func (z *zooType) parse(p *toks, dst reflect.Value) {
	switch k := p.next(); k {
	case "s":
		z.fromPayload(dst, unhx(p.next()))
	case "nil": // canonical form of the empty payload
		z.fromPayload(dst, []byte{})
	case "i":
		if z.name != "ZFail" {
			panic("i at a " + z.name + " leaf")
		}
		dst.Set(reflect.ValueOf(ZFail{Fail: true, N: atoi(p.next())}))
	default:
		panic("bad value token " + k + " at a " + z.name + " leaf")
	}
}

func (z *zooType) show(v reflect.Value, canon bool) string {
	b, failing, n := z.payload(v)
	if failing {
		return "i " + strconv.Itoa(n)
	}
	if canon && len(b) == 0 {
		return "nil"
	}
	return "s " + hx(b)
}

// hasFailLeaf: the value contains a ZFail whose Marshal fails.
func hasFailLeaf(t *Ty, v reflect.Value) bool {
	if z := zooOf(t); z != nil {
		if z.name != "ZFail" {
			return false
		}
		_, failing, _ := z.payload(v)
		return failing
	}
	tt := unnamed(t)
	switch tt.K {
	case "ptr":
		return !v.IsNil() && hasFailLeaf(tt.Elem, v.Elem())
	case "sl", "arr":
		if isByteSeq(t) {
			return false
		}
		for i := 0; i < v.Len(); i++ {
			if hasFailLeaf(tt.Elem, v.Index(i)) {
				return true
			}
		}
	case "map":
		it := v.MapRange()
		for it.Next() {
			if hasFailLeaf(tt.Elem, it.Value()) {
				return true
			}
		}
	case "st":
		for i := range tt.Fields {
			if hasFailLeaf(tt.Fields[i].T, v.Field(i)) {
				return true
			}
		}
	}
	return false
}

func tyHasZoo(t *Ty, name string) bool {
	if z := zooOf(t); z != nil {
		return z.name == name
	}
	switch t.K {
	case "ptr", "sl", "arr", "named":
		return tyHasZoo(t.Elem, name)
	case "map":
		return tyHasZoo(t.Elem, name)
	case "st":
		for _, f := range t.Fields {
			if tyHasZoo(f.T, name) {
				return true
			}
		}
	}
	return false
}

// ---- per-type value generators ---------------------------------------------------------------------------------------

func (h *H) zooKey() string {
	// keys shorter than 200 bytes (genBytes gives at most 129)
	if h.Intn(3) == 0 {
		return string(h.genBytes())
	}
	return string(rune('a' + h.Intn(6)))
}

func init() {

	zooRegister("ZBytes", "bytes", reflect.TypeOf(ZBytes(nil)), func(h *H) reflect.Value {
		if h.Intn(5) == 0 {
			return reflect.ValueOf(ZBytes(nil))
		}
		return reflect.ValueOf(ZBytes(h.genBytes()))
	})
	zooRegister("ZRec", "st 2 f A - 0 i32 f S - 0 str", reflect.TypeOf(ZRec{}), func(h *H) reflect.Value {
		z := ZRec{}
		if h.Intn(4) != 0 {
			z.A = int32(h.genInt("i32").Int())
		}
		if h.Intn(4) != 0 {
			z.S = string(h.genBytes())
		}
		return reflect.ValueOf(z)
	})
	zooRegister("ZPair", "st 2 f X - 0 u32 f Y - 0 u32", reflect.TypeOf(ZPair{}), func(h *H) reflect.Value {
		return reflect.ValueOf(ZPair{X: uint32(h.genInt("u32").Uint()), Y: uint32(h.genInt("u32").Uint())})
	})
	zooRegister("ZInts", "sl i64", reflect.TypeOf(ZInts(nil)), func(h *H) reflect.Value {
		if h.Intn(5) == 0 {
			return reflect.ValueOf(ZInts(nil))
		}
		n := h.Intn(5)
		if h.Intn(8) == 0 {
			n = 16 + h.Intn(3) // 128 bytes and more: a two-byte length prefix
		}
		z := make(ZInts, n)
		for i := range z {
			z[i] = h.genInt("i64").Int()
		}
		return reflect.ValueOf(z)
	})
	zooRegister("ZMap", "map str i32", reflect.TypeOf(ZMap(nil)), func(h *H) reflect.Value {
		z := ZMap{} // always non-nil: a nil pointer-shaped value in an inlined position is outside the model
		n := h.Intn(4)
		for i := 0; i < n; i++ {
			z[h.zooKey()] = int32(h.genInt("i32").Int())
		}
		return reflect.ValueOf(z)
	})
	zooRegister("ZUUID", "st 2 f Hi - 0 u64 f Lo - 0 u64", reflect.TypeOf(ZUUID{}), func(h *H) reflect.Value {
		return reflect.ValueOf(ZUUID{Hi: h.genInt("u64").Uint(), Lo: h.genInt("u64").Uint()})
	})
	zooRegister("ZI64", "i64", reflect.TypeOf(ZI64(0)), func(h *H) reflect.Value {
		return reflect.ValueOf(ZI64(h.genInt("i64").Int()))
	})
	zooRegister("ZFail", "st 3 f N - 0 int f Fail - 0 bool f P - 0 bytes", reflect.TypeOf(ZFail{}), func(h *H) reflect.Value {
		if h.Intn(6) == 0 {
			return reflect.ValueOf(ZFail{Fail: true, N: h.Intn(6)})
		}
		if h.Intn(5) == 0 {
			return reflect.ValueOf(ZFail{})
		}
		p := h.genBytes()
		if len(p) > 0 && p[0] == 0xDD {
			p[0] = 0xDC // Unmarshal rejects a leading 0xDD
		}
		return reflect.ValueOf(ZFail{P: p})
	})

	// proto.msgmarshal <ty> <val>: I = ok:<hex>:<Size> | err   (a failing Marshal is an outcome, not a crash)
	ops["proto.msgmarshal"] = func(a []string) (string, string, string) {
		t := parseTy(a[0])
		v := parseVal(t, a[1])
		b, err := proto.Marshal(v.Interface())
		if err != nil {
			return "err", "-", ""
		}
		return "ok:" + hx(b) + ":" + strconv.Itoa(proto.Size(v.Interface())), "-", ""
	}
	// proto.msgroundtrip <ty> <val>: I = sz=%d;len=%d;rt=<protoDecode> | marshal-err;  O = sz=len;len=len;rt=ok:<canonical val>,
	// and for a failed Marshal `-` when the value holds a failing ZFail leaf (the expected outcome), else `no-error`
	ops["proto.msgroundtrip"] = func(a []string) (string, string, string) {
		t := parseTy(a[0])
		i, o, _ := protoRoundtrip(t, a[1])
		if i == "marshal-err" && hasFailLeaf(t, parseVal(t, a[1])) {
			o = "-"
		}
		return i, o, ""
	}
	// proto.msgmarshalto <ty> <val> <n>: opMarshalTo (I = marshal-err, O = - when Marshal fails)
	ops["proto.msgmarshalto"] = opMarshalTo
	// proto.msgdecode <ty> <hex>: I = protoDecode, O = -
	ops["proto.msgdecode"] = func(a []string) (string, string, string) {
		return protoDecode(parseTy(a[0]), unhx(a[1])), "-", ""
	}
}

// ---- case generator ----------------------------------------------------------------------------------------------------

// genZooTy: one of the zoo types or the real proto.RawMessage. fail: ZFail is among the choices (one pick in two).
func (h *H) genZooTy(fail bool) *Ty {
	if fail && h.Intn(2) == 0 {
		return parseTy(zooTypes["ZFail"].desc)
	}
	for {
		k := h.Intn(len(zooNames) + 1)
		if k == len(zooNames) {
			return &Ty{K: "named", Name: "RawMessage", Elem: &Ty{K: "bytes"}}
		}
		if zooNames[k] != "ZFail" {
			return parseTy(zooTypes[zooNames[k]].desc)
		}
	}
}

var zooMapKeys = []string{"str", "i32", "u64", "bool"}

// genMsgStruct: 1–5 fields, each Z | *Z | []Z | []*Z | map[K]Z | map[K]*Z | an ordinary scalar | a nested struct (depth ≤ 2).
// A zoo type is never a map key.
func (h *H) genMsgStruct(depth int, tags, fail bool) *Ty {
	n := 1 + h.Intn(5)
	t := &Ty{K: "st"}
	used := map[int]bool{}
	for i := 0; i < n; i++ {
		var ft *Ty
		switch r := h.Intn(8); r {
		case 0:
			ft = h.genZooTy(fail)
		case 1:
			ft = &Ty{K: "ptr", Elem: h.genZooTy(fail)}
		case 2:
			ft = &Ty{K: "sl", Elem: h.genZooTy(fail)}
		case 3:
			ft = &Ty{K: "sl", Elem: &Ty{K: "ptr", Elem: h.genZooTy(fail)}}
		case 4:
			ft = &Ty{K: "map", Key: &Ty{K: zooMapKeys[h.Intn(4)]}, Elem: h.genZooTy(fail)}
		case 5:
			ft = &Ty{K: "map", Key: &Ty{K: zooMapKeys[h.Intn(4)]}, Elem: &Ty{K: "ptr", Elem: h.genZooTy(fail)}}
		case 6:
			ft = h.genProtoScalar()
		default:
			if depth < 2 {
				ft = h.genMsgStruct(depth+1, tags, fail)
			} else {
				ft = h.genZooTy(fail)
			}
		}
		t.Fields = append(t.Fields, Field{Name: fmt.Sprintf("F%d", i), T: ft})
	}
	if tags {
		for i := range t.Fields {
			t.Fields[i].Tag = h.genProtoTag(t.Fields[i].T, used, i+1)
		}
	}
	return t
}

// genMsgVal: nonnil = pointers are set (top level, slice elements, map values); a pointer field is nil one time in four.
func (h *H) genMsgVal(t *Ty, nonnil bool) reflect.Value {
	if z := zooOf(t); z != nil {
		return z.gen(h)
	}
	rt := t.Reflect()
	v := reflect.New(rt).Elem()
	switch t.K {
	case "ptr":
		if nonnil || h.Intn(4) != 0 {
			e := reflect.New(rt.Elem())
			e.Elem().Set(h.genMsgVal(t.Elem, nonnil))
			v.Set(e)
		}
	case "sl":
		if h.Intn(5) == 0 {
			return v
		}
		n := h.Intn(5)
		if h.Intn(10) == 0 {
			n = 9 + h.Intn(4) // around the cap-10 growth step of the decoder
		}
		s := reflect.MakeSlice(rt, n, n)
		for i := 0; i < n; i++ {
			s.Index(i).Set(h.genMsgVal(t.Elem, true))
		}
		v.Set(s)
	case "map":
		if h.Intn(5) == 0 {
			return v
		}
		n := h.Intn(4)
		m := reflect.MakeMapWithSize(rt, n)
		for i := 0; i < n; i++ {
			m.SetMapIndex(h.genVal(t.Key, 2), h.genMsgVal(t.Elem, true))
		}
		v.Set(m)
	case "st":
		for i := range t.Fields {
			v.Field(i).Set(h.genMsgVal(t.Fields[i].T, false))
		}
	default:
		if h.Intn(5) != 0 { // ordinary scalars, byte arrays, the real RawMessage; some stay zero
			v.Set(h.genVal(t, 2))
		}
	}
	return v
}

func marshalsToNothing(x any) (empty bool) {
	defer func() {
		if recover() != nil {
			empty = false // keep the case: the supervised op shows the panic
		}
	}()
	b, err := proto.Marshal(x)
	return err == nil && len(b) == 0
}

// genProtoMsgCase: (a) a top-level zoo value, (b) a top-level pointer to one, (c) a struct of zoo-typed fields (possibly behind
// a pointer), (d) the same with protobuf tags on every field. ZFail only in (a)–(c), in about 15% of the cases.
func (h *H) genProtoMsgCase() (*Ty, string) {
	for {
		shape := h.Intn(4)
		fail := shape != 3 && h.Intn(100) < 15
		var t *Ty
		switch shape {
		case 0:
			t = h.genZooTy(fail)
		case 1:
			t = &Ty{K: "ptr", Elem: h.genZooTy(fail)}
			if h.Intn(6) == 0 {
				t = &Ty{K: "ptr", Elem: t} // **Z
			}
		default:
			t = h.genMsgStruct(0, shape == 3, fail)
			if h.Intn(3) == 0 {
				t = &Ty{K: "ptr", Elem: t}
			}
		}
		v := h.genMsgVal(t, true)
		if hasMultiMap(t, v) && nilPtrInCollection(v) {
			continue
		}
		// not generated: a set top-level pointer whose pointee writes nothing (*ZBytes → empty payload, *struct with every
		// field elided). proto.Unmarshal of the empty input leaves the pointer nil (the known class protoPtrToEmptyEncoding of
		// the struct cases), so the round trip gives `nil` for `p …`.
		if t.K == "ptr" && !hasFailLeaf(t, v) && marshalsToNothing(v.Interface()) {
			continue
		}
		return t, showVal(t, v, false)
	}
}

func (h *H) genProtoMsgCaseNoFail() (*Ty, string, reflect.Value) {
	for {
		t, val := h.genProtoMsgCase()
		v := parseVal(t, val)
		if !hasFailLeaf(t, v) {
			return t, val, v
		}
	}
}

// ---- hooks ---------------------------------------------------------------------------------------------------------------

// protoMsgC03: bytes / Size / round trip; the error of a failing Marshal method comes back as an error
func (h *H) protoMsgC03() {
	N := 350
	if h.Thorough() {
		N = 5000
	}
	for i := 0; i < N; i++ {
		t, val := h.genProtoMsgCase()
		ts := t.String()
		v := parseVal(t, val)
		multi := hasMultiMap(t, v) // Go's map order is random: no byte comparison then
		im := ""
		if !multi {
			im, _ = h.DoRisky("proto.msgmarshal", ts, val)
		} else {
			h.Count("msg_multimap_values", 1)
		}
		h.DoRisky("proto.msgroundtrip", ts, val)
		if p := strings.Split(im, ":"); len(p) == 3 && p[0] == "ok" {
			h.Do("proto.msgdecode", ts, p[1])
		}
		if hasFailLeaf(t, v) {
			h.Count("msg_failing_values", 1)
		}
	}
}

// protoMsgC12: the reference decoder reads Marshal's bytes; mutated inputs decode alike
func (h *H) protoMsgC12() {
	N := 300
	if h.Thorough() {
		N = 4000
	}
	for i := 0; i < N; i++ {
		t, val, v := h.genProtoMsgCaseNoFail()
		ts := t.String()
		b, err := proto.Marshal(v.Interface())
		if err != nil {
			h.Fail("proto.msgmarshal", []string{ts, val}, "err", "ok")
			continue
		}
		h.Do("proto.decode", ts, hx(b), "ok:"+showVal(t, v, true))
		if !hasMultiMap(t, v) {
			h.Do("proto.msgmarshal", ts, val)
		}
		if len(b) > 0 {
			h.Do("proto.msgdecode", ts, hx(h.mutate(b)))
		}
	}
}

// protoMsgC16: MarshalTo for every buffer length
func (h *H) protoMsgC16() {
	N := 60
	if h.Thorough() {
		N = 800
	}
	for i := 0; i < N; i++ {
		t, val, v := h.genProtoMsgCaseNoFail()
		ts := t.String()
		size := proto.Size(v.Interface())
		for n := 0; n <= size+3; n++ {
			h.Do("proto.msgmarshalto", ts, val, strconv.Itoa(n))
		}
	}
}
