package main

// C07, wire-level API of package proto: Parse, Scan, RawValue accessors, EncodeTag/DecodeTag, Append.
//
//	proto.scan <hex>      I = scan=<records><ok|err>|parse=<records><ok|err>   records = number:wiretype:hexpayload;…
//	                      (Scan with a collecting callback, and a loop over Parse; both columns must be equal)
//	                      O = the harness's independent wire parser, M = Model.ProtoScan, S = Spec.Protobuf.records
//	proto.scanerr <hex>   I = scan=<class>|parse=<index>:<f>:<t>:<len(rest)>:<class>|acc=<accessor values>
//	                      error classes, Parse's results on failure, RawValue accessors of every enumerated record (M only)
//	proto.rawvalue <hex>  RawValue(hex).Varint / Fixed32 / Fixed64 on arbitrary bytes (a fault is an observable) (M only)
//	proto.tag <f> <t> <hexpayload>  EncodeTag, DecodeTag, WireType.String, Append, and Parse of the appended record
import (
	"errors"
	"fmt"
	"io"
	"strconv"
	"strings"

	"github.com/segmentio/encoding/proto"
)

func init() {
	ops["proto.scan"] = opScan2
	ops["proto.scanerr"] = opScanErr
	ops["proto.rawvalue"] = opRawValue
	ops["proto.tag"] = opTag
}

func protoErrClass(err error) string {
	switch {
	case err == nil:
		return "ok"
	case errors.Is(err, io.ErrUnexpectedEOF):
		return "unexpectedEof"
	case strings.Contains(err.Error(), "varint overflowed"):
		return "varintOverflow"
	case strings.Contains(err.Error(), "invalid wire type"):
		return "invalidWireType"
	}
	return "other(" + err.Error() + ")"
}

func okErr(err error) string {
	if err != nil {
		return "err"
	}
	return "ok"
}

// subslice: v must be a window of b (Parse allocates nothing): returns the offset of v in b's backing array or -1.
func subsliceOffset(b, v []byte) int {
	if len(v) == 0 {
		return 0
	}
	if cap(b) == 0 {
		return -1
	}
	for i := 0; i+len(v) <= len(b); i++ {
		if &b[i] == &v[0] {
			return i
		}
	}
	return -1
}

func opScan2(a []string) (string, string, string) {
	b := unhx(a[0])
	var sb strings.Builder
	err := proto.Scan(b, func(f proto.FieldNumber, t proto.WireType, v proto.RawValue) (bool, error) {
		fmt.Fprintf(&sb, "%d:%d:%s;", uint64(f), uint64(t), hx(v))
		return true, nil
	})
	var pb strings.Builder
	rest := b
	var perr error
	note := ""
	for len(rest) != 0 {
		f, t, v, m, err := proto.Parse(rest)
		if err != nil {
			perr = err
			break
		}
		// progress and framing: the remainder is a proper suffix, the value a window of the input
		if len(m) >= len(rest) || subsliceOffset(rest, m) != len(rest)-len(m) && len(m) != 0 {
			note = ";parse-no-progress"
			break
		}
		if off := subsliceOffset(rest, v); off < 0 || off+len(v) > len(rest)-len(m) {
			note = ";value-not-a-window"
			break
		}
		fmt.Fprintf(&pb, "%d:%d:%s;", uint64(f), uint64(t), hx(v))
		rest = m
	}
	impl := "scan=" + sb.String() + okErr(err) + "|parse=" + pb.String() + okErr(perr) + note

	// oracle: the independent wire parser (records before the first malformed position)
	var ob strings.Builder
	ok := true
	ob2 := oracleRecords(b, &ob)
	ok = ob2
	s := ob.String()
	st := "ok"
	if !ok {
		st = "err"
	}
	oracle := "scan=" + s + st + "|parse=" + s + st
	return impl, oracle, ""
}

// oracleRecords writes the records read before the first malformed position; reports whether all of b was well formed.
func oracleRecords(b []byte, w *strings.Builder) bool {
	for len(b) > 0 {
		recs, ok := wireParse1(b)
		if !ok {
			return false
		}
		fmt.Fprintf(w, "%d:%d:%s;", recs.num, recs.wt, hx(recs.val))
		b = b[recs.size:]
	}
	return true
}

type wrec1 struct {
	num  uint64
	wt   int
	val  []byte
	size int
}

// wireParse1: ONE record at the front of b, with the same rules as wireParse (written from the wire-format text).
func wireParse1(b []byte) (wrec1, bool) {
	tag, n := uvarint(b)
	if n <= 0 {
		return wrec1{}, false
	}
	r := wrec1{num: tag >> 3, wt: int(tag & 7)}
	p := b[n:]
	switch r.wt {
	case 0:
		_, k := uvarint(p)
		if k <= 0 {
			return r, false
		}
		r.val, r.size = p[:k], n+k
	case 1:
		if len(p) < 8 {
			return r, false
		}
		r.val, r.size = p[:8], n+8
	case 5:
		if len(p) < 4 {
			return r, false
		}
		r.val, r.size = p[:4], n+4
	case 2:
		l, k := uvarint(p)
		if k <= 0 || uint64(len(p)-k) < l {
			return r, false
		}
		r.val, r.size = p[k:k+int(l)], n+k+int(l)
	default:
		return r, false
	}
	return r, true
}

func opScanErr(a []string) (string, string, string) {
	b := unhx(a[0])
	var acc strings.Builder
	err := proto.Scan(b, func(f proto.FieldNumber, t proto.WireType, v proto.RawValue) (bool, error) {
		switch t {
		case proto.Varint:
			fmt.Fprintf(&acc, "v%d,", v.Varint())
		case proto.Fixed32:
			fmt.Fprintf(&acc, "d%d,", v.Fixed32())
		case proto.Fixed64:
			fmt.Fprintf(&acc, "q%d,", v.Fixed64())
		default:
			fmt.Fprintf(&acc, "l%d,", len(v))
		}
		return true, nil
	})
	rest := b
	p := "ok"
	for i := 0; len(rest) != 0; i++ {
		f, t, v, m, err := proto.Parse(rest)
		if err != nil {
			nilv := "nil"
			if v != nil {
				nilv = "nonnil"
			}
			p = fmt.Sprintf("%d:%d:%d:%d:%s:%s", i, uint64(f), uint64(t), len(m), nilv, protoErrClass(err))
			break
		}
		rest = m
	}
	return "scan=" + protoErrClass(err) + "|parse=" + p + "|acc=" + acc.String(), "-", ""
}

func guard(f func() string) (s string) {
	defer func() {
		if r := recover(); r != nil {
			s = "panic"
		}
	}()
	return f()
}

func opRawValue(a []string) (string, string, string) {
	v := proto.RawValue(unhx(a[0]))
	s := "varint=" + guard(func() string { return strconv.FormatUint(v.Varint(), 10) }) +
		"|fixed32=" + guard(func() string { return strconv.FormatUint(uint64(v.Fixed32()), 10) }) +
		"|fixed64=" + guard(func() string { return strconv.FormatUint(v.Fixed64(), 10) })
	return s, "-", ""
}

// proto.tag <f> <t> <hexpayload>: f, t decimal uint64
func opTag(a []string) (string, string, string) {
	f, _ := strconv.ParseUint(a[0], 10, 64)
	t, _ := strconv.ParseUint(a[1], 10, 64)
	v := unhx(a[2])
	tag := proto.EncodeTag(proto.FieldNumber(f), proto.WireType(t))
	df, dt := proto.DecodeTag(tag)
	m := proto.Append(nil, proto.FieldNumber(f), proto.WireType(t), v)
	pf, pt, pv, pm, err := proto.Parse(m)
	back := fmt.Sprintf("%d:%d:%s:%d:%s", uint64(pf), uint64(pt), hx(pv), len(pm), protoErrClass(err))
	return fmt.Sprintf("tag=%d|dec=%d:%d|str=%s|append=%s|parse=%s", tag, uint64(df), uint64(dt), proto.WireType(t).String(), hx(m), back), "-", ""
}

// ---- generators --------------------------------------------------------------------------------------------------

func (h *H) scanCase(b []byte) {
	h.Do("proto.scan", hx(b))
	h.Do("proto.scanerr", hx(b))
}

// a random record with any wire type 0–7 and a field number drawn from the interesting ranges
func (h *H) genWireRecord() []byte {
	var num uint64
	switch h.Intn(8) {
	case 0:
		num = 0
	case 1:
		num = uint64(1)<<29 + uint64(h.Intn(1000))
	case 2:
		num = uint64(1)<<29 - 1
	case 3:
		num = h.U64() >> 3 // up to 2^61-1
	case 4:
		num = uint64([]int{15, 16, 2047, 2048, 65535, 65536}[h.Intn(6)])
	default:
		num = uint64(1 + h.Intn(40))
	}
	wt := uint64(h.Intn(8))
	if h.Intn(3) != 0 {
		wt = uint64([]int{0, 1, 2, 5}[h.Intn(4)])
	}
	b := putUvarint(num<<3|wt, h.Intn(3)/2)
	switch wt {
	case 0:
		b = append(b, putUvarint(h.U64()>>uint(h.Intn(64)), h.Intn(3)/2*h.Intn(9))...)
	case 1:
		b = append(b, h.Bytes(8)...)
	case 5:
		b = append(b, h.Bytes(4)...)
	case 2:
		p := h.Bytes(h.Intn(12))
		if h.Intn(4) == 0 {
			p = h.genWireRecord()
		}
		b = append(b, putUvarint(uint64(len(p)), h.Intn(3)/2*h.Intn(9))...)
		b = append(b, p...)
	default:
		b = append(b, h.Bytes(h.Intn(5))...)
	}
	return b
}

// raw varint spellings: 9, 10, 11 bytes, overflowing last byte, all-continuation
func (h *H) genOddVarint() []byte {
	switch h.Intn(7) {
	case 0: // exactly 10 bytes, last byte 0 or 1 (legal)
		return append(bytesRepeat(byte(0x80|h.Intn(128)), 9), byte(h.Intn(2)))
	case 1: // 10 bytes, last byte 2..127 (overflow)
		return append(bytesRepeat(0xff, 9), byte(2+h.Intn(126)))
	case 2: // 11 bytes
		return append(bytesRepeat(byte(0x80|h.Intn(128)), 10), byte(h.Intn(128)))
	case 3: // continuation bytes only
		return bytesRepeat(0x80, 1+h.Intn(12))
	case 4: // 12+ bytes
		return append(bytesRepeat(0x80, 11+h.Intn(4)), 0)
	case 5: // non-minimal zero
		return append(bytesRepeat(0x80, h.Intn(10)), 0)
	default:
		return putUvarint(h.U64()>>uint(h.Intn(64)), h.Intn(10))
	}
}

func bytesRepeat(c byte, n int) []byte {
	b := make([]byte, n)
	for i := range b {
		b[i] = c
	}
	return b
}

func (h *H) genScanCases() {
	// fixed corpus: every wire type × boundary field numbers, with and without payload
	for wt := uint64(0); wt < 8; wt++ {
		for _, num := range []uint64{0, 1, 15, 16, 1<<29 - 1, 1 << 29, 1<<32 + 5, 1<<61 - 1} {
			tag := putUvarint(num<<3|wt, 0)
			h.scanCase(tag)
			h.scanCase(append(append([]byte{}, tag...), 0x01))
			h.scanCase(append(append([]byte{}, tag...), 1, 2, 3, 4))
			h.scanCase(append(append([]byte{}, tag...), 1, 2, 3, 4, 5, 6, 7, 8, 9))
		}
	}
	// declared lengths around the int / uint64 boundaries
	for _, l := range []uint64{0, 1, 2, 127, 128, 1<<31 - 1, 1 << 31, 1<<31 + 1, 1<<32 - 1, 1 << 32, 1<<63 - 1, 1 << 63, 1<<63 + 1,
		1<<64 - 1, 1<<64 - 2, 1<<64 - 3, 1<<64 - 9, 1<<64 - 10, 1<<64 - 11, 1<<64 - 12} {
		for _, extra := range []int{0, 1, 2, 9, 12} {
			for pad := 0; pad < 2; pad++ {
				b := append([]byte{0x0a}, putUvarint(l, pad)...)
				b = append(b, h.Bytes(extra)...)
				h.scanCase(b)
				// preceded and followed by a good record
				h.scanCase(append(append([]byte{0x08, 0x01}, b...), 0x10, 0x02))
			}
		}
	}
	// odd varints as tag, as varint payload, as length
	for i := 0; i < 40; i++ {
		v := h.genOddVarint()
		h.scanCase(v)
		h.scanCase(append(append([]byte{}, v...), h.Bytes(h.Intn(10))...))
		h.scanCase(append([]byte{0x08}, v...))
		h.scanCase(append(append([]byte{0x08}, v...), 0x10, 0x01))
		h.scanCase(append(append([]byte{0x12}, v...), h.Bytes(h.Intn(4))...))
		h.Do("proto.rawvalue", hx(v))
		h.Do("proto.rawvalue", hx(h.Bytes(h.Intn(10))))
	}
	for n := 0; n <= 12; n++ {
		h.Do("proto.rawvalue", hx(bytesRepeat(0xff, n)))
		h.Do("proto.rawvalue", hx(append(bytesRepeat(0xff, n), 0x01)))
		h.Do("proto.rawvalue", hx(append(bytesRepeat(0x81, n), 0x7f)))
	}
	// tags
	for _, f := range []uint64{0, 1, 15, 16, 1<<29 - 1, 1 << 29, 1<<61 - 1, 1 << 61, 1<<64 - 1} {
		for t := uint64(0); t < 10; t++ {
			p := []byte{}
			switch t {
			case 0:
				p = putUvarint(h.U64()>>uint(h.Intn(64)), 0)
			case 1:
				p = h.Bytes(8)
			case 5:
				p = h.Bytes(4)
			default:
				p = h.Bytes(h.Intn(6))
			}
			h.Do("proto.tag", strconv.FormatUint(f, 10), strconv.FormatUint(t, 10), hx(p))
		}
	}
	N := 40
	if h.Thorough() {
		N = 600
	}
	for i := 0; i < N; i++ {
		h.Do("proto.tag", strconv.FormatUint(h.U64()>>uint(h.Intn(64)), 10), strconv.FormatUint(uint64(h.Intn(8)), 10), hx(h.Bytes(h.Intn(10))))
		// encodings of random typed messages: whole, every prefix, mutations
		t, val := h.genProtoCase()
		v := parseVal(t, val)
		b, err := proto.Marshal(v.Interface())
		if err == nil {
			h.scanCase(b)
			step := 1
			if len(b) > 64 {
				step = 1 + len(b)/48
			}
			for n := 0; n < len(b); n += step {
				h.Do("proto.scan", hx(b[:n]))
			}
			for k := 0; k < 3; k++ {
				h.scanCase(h.mutate(b))
			}
		}
		// sequences of raw records with any wire type / number, prefixes and mutations
		var rb []byte
		for j, n := 0, 1+h.Intn(6); j < n; j++ {
			if h.Intn(6) == 0 {
				rb = append(rb, h.genUnknownRecord(&Ty{K: "st"}, 0)...)
			} else {
				rb = append(rb, h.genWireRecord()...)
			}
		}
		h.scanCase(rb)
		if len(rb) > 0 {
			h.Do("proto.scan", hx(rb[:h.Intn(len(rb))]))
			h.Do("proto.scan", hx(rb[:h.Intn(len(rb))]))
		}
		h.scanCase(h.mutate(rb))
		// a record followed by an odd varint / a huge length
		tail := h.genOddVarint()
		switch h.Intn(3) {
		case 0:
			tail = append([]byte{byte(h.Intn(16))<<3 | 2}, tail...)
		case 1:
			tail = append([]byte{byte(h.Intn(16)) << 3}, tail...)
		}
		h.scanCase(append(append([]byte{}, rb...), tail...))
		h.scanCase(h.Bytes(h.Intn(20)))
	}
}
