package main

import (
	"github.com/segmentio/asm/cpu"
	"github.com/segmentio/asm/cpu/x86"
	"github.com/segmentio/encoding/ascii"
)

// C20, assembly kernels. The default (non-purego) build of /repo/ascii runs valid_amd64.s / valid_print_amd64.s /
// equal_fold_amd64.s of github.com/segmentio/asm v1.1.3. Each kernel has a scalar path and an AVX2 path, selected at run
// time by bit 8 (x86.AVX2) of the exported word cpu.X86 when the length is >= 16. The ops below run the REAL kernel twice:
// once with cpu.X86 as detected on this machine, once with the AVX2 bit cleared (so that the scalar path is exercised for
// long inputs too), and report `I = <as detected>/<AVX2 bit cleared>`. The Lean side answers with the assembly MODEL
// (Enc/Model/AsciiAsm.lean) for hasAVX2 = true / false in the same form, and the byte-wise definition duplicated.
// In a purego build the word is not consulted and both halves come from the portable code.

func withoutAVX2(f func() bool) bool {
	saved := cpu.X86
	cpu.X86 = saved &^ x86.CPU(x86.AVX2)
	defer func() { cpu.X86 = saved }()
	return f()
}

func pair(x, y bool) string { return b01(x) + "/" + b01(y) }

func init() {
	ops["asmascii.valid"] = func(a []string) (string, string, string) {
		s := string(unhx(a[0]))
		d := defValid([]byte(s))
		return pair(ascii.ValidString(s), withoutAVX2(func() bool { return ascii.ValidString(s) })), pair(d, d), ""
	}
	ops["asmascii.validprint"] = func(a []string) (string, string, string) {
		s := string(unhx(a[0]))
		d := defValidPrint([]byte(s))
		return pair(ascii.ValidPrintString(s), withoutAVX2(func() bool { return ascii.ValidPrintString(s) })), pair(d, d), ""
	}
	ops["asmascii.equalfold"] = func(a []string) (string, string, string) {
		s, t := string(unhx(a[0])), string(unhx(a[1]))
		d := defEqualFold([]byte(s), []byte(t))
		return pair(ascii.EqualFoldString(s, t), withoutAVX2(func() bool { return ascii.EqualFoldString(s, t) })), pair(d, d), ""
	}
}

// runC20Asm: all lengths 0..130 without an offending byte; lengths around every threshold of the kernels (scalar 1/2/3/4/8,
// dispatch 16, vector 16/32/64/128/256 and the sums at which the overlapping tail load changes shape) x every position of
// one offending byte x the offending values of the predicate.
func runC20Asm(h *H) {
	hasAVX2 := cpu.X86.Has(x86.AVX2)
	h.Count("asm_cpu_x86_word", int64(cpu.X86))
	if hasAVX2 {
		h.Count("asm_cpu_has_avx2", 1)
	} else {
		h.Count("asm_cpu_has_avx2", 0)
	}
	var nAVX, nScalarShort, nScalarForced int64
	count := func(n int) {
		if n >= 16 {
			if hasAVX2 {
				nAVX++
			}
			nScalarForced++
		} else {
			nScalarShort += 2
		}
	}
	do := func(n int, op string, args ...string) {
		h.Do(op, args...)
		count(n)
	}
	backing := make([]byte, 1100)
	backing2 := make([]byte, 1100)
	mk := func(n, salt int) ([]byte, []byte) {
		off := (n*7 + salt) % 16
		s := backing[off : off+n]
		t := backing2[(off+5)%16 : (off+5)%16+n]
		for i := range s {
			c := byte("AbCdEfGhIjKlMnOpQrStUvWxYz0189 ~!_"[i%34])
			s[i] = c
			t[i] = c
			if c >= 'a' && c <= 'z' {
				t[i] = c - 0x20
			} else if c >= 'A' && c <= 'Z' {
				t[i] = c + 0x20
			}
		}
		return s, t
	}
	for n := 0; n <= 130; n++ {
		s, t := mk(n, 0)
		do(n, "asmascii.valid", hx(s))
		do(n, "asmascii.validprint", hx(s))
		do(n, "asmascii.equalfold", hx(s), hx(t))
		if n > 0 {
			do(n, "asmascii.equalfold", hx(s), hx(t[:n-1])) // length mismatch
		}
	}
	lens := []int{}
	add := func(xs ...int) {
		for _, x := range xs {
			for _, d := range []int{-1, 0, 1} {
				if x+d >= 1 {
					lens = append(lens, x+d)
				}
			}
		}
	}
	add(1, 2, 3, 4, 8, 12, 16, 24, 32, 48, 64, 80, 96, 112, 128)
	if h.Thorough() {
		add(144, 160, 192, 224, 256, 272, 288, 320, 384, 512, 528, 768, 1024)
	} else {
		add(256, 272)
	}
	seen := map[int]bool{}
	validVals := []byte{0x80, 0xFF}
	printVals := []byte{0x80, 0xFF, 0x1f, 0x7f, 0x00}
	foldVals := []byte{'@', '[', '`', '{', 0x00, 0x80, 0xc1, 0xff} // v vs v^0x20: differ by the case bit but are not letters
	for _, n := range lens {
		if seen[n] {
			continue
		}
		seen[n] = true
		for pos := 0; pos < n; pos++ {
			if !h.Thorough() && n > 131 && pos > 40 && pos < n-40 && pos%9 != 0 {
				continue
			}
			s, t := mk(n, pos)
			save, save2 := s[pos], t[pos]
			for _, v := range validVals {
				s[pos] = v
				do(n, "asmascii.valid", hx(s))
			}
			for _, v := range printVals {
				s[pos] = v
				do(n, "asmascii.validprint", hx(s))
			}
			for _, v := range foldVals {
				s[pos], t[pos] = v, v^0x20
				do(n, "asmascii.equalfold", hx(s), hx(t))
			}
			// a letter against a different letter of the other case, and a non-letter against itself
			s[pos], t[pos] = 'k', 'J'
			do(n, "asmascii.equalfold", hx(s), hx(t))
			s[pos], t[pos] = 0x9a, 0x9a
			do(n, "asmascii.equalfold", hx(s), hx(t))
			s[pos], t[pos] = save, save2
		}
	}
	// random strings over all byte values, lengths 0..300
	N := 400
	if h.Thorough() {
		N = 8000
	}
	for i := 0; i < N; i++ {
		n := h.Intn(300)
		s, t := mk(n, i)
		for k := 0; k < h.Intn(3); k++ {
			if n > 0 {
				s[h.Intn(n)] = byte(h.U64())
			}
		}
		if n > 0 && h.Intn(2) == 0 {
			j := h.Intn(n)
			t[j] = s[j] ^ byte(1<<uint(h.Intn(8)))
		}
		do(n, "asmascii.valid", hx(s))
		do(n, "asmascii.validprint", hx(s))
		do(n, "asmascii.equalfold", hx(s), hx(t))
	}
	h.Count("asm_cases_avx2_path", nAVX)
	h.Count("asm_cases_scalar_path_forced_by_clearing_avx2_bit", nScalarForced)
	h.Count("asm_cases_scalar_path_short_input", nScalarShort)
}
