package main

import (
	"bytes"
	"encoding/base64"
	stdjson "encoding/json"
	"fmt"
	"io"
	"math"
	"reflect"
	"sort"
	"strconv"
	"strings"
	"unsafe"

	"github.com/segmentio/encoding/json"
)

// C02, typed-target layer:
//
//	json.dectyped    <type> <flags 0..3: UseNumber=1 DisallowUnknownFields=2> <hex doc>[,<hex doc>…]
//	json.dectypedcls (same arguments; error CLASS of the implementation, compared with the Lean model only)
//
// The documents are decoded one after the other into the SAME target (all but the last are "priors": the data the target
// already holds). I = canonical rendering of the final target for the package — Parse (+ the epilogue of Unmarshal),
// Unmarshal itself when flags = 0, and Decoder.Decode must agree, otherwise I says which differs —, O = the same rendering
// for encoding/json (Unmarshal when flags = 0, otherwise a Decoder with the flags set).
//
// Type descriptor (shared with lean/Enc/Driver/JsonTyped.lean):
//
//	T ::= b | i1 i2 i4 i8 i0 | u1 u2 u4 u8 u0 | f | s | y ([]byte) | L T ([]T) | A <n> : T ([n]T) | M T (map[string]T)
//	    | P T (*T, nil) | N T (*T, initially non-nil) | { Name : T , … } | a (any, nil) | Q T (any holding a non-nil *T)
//
// Rendering: T F | decimal | f<IEEE bits> | s<hex> | N (nil slice / map) | [v,…] | <v,…> | {<hexkey>:v,…} (sorted) | _ (nil
// pointer) | &o v (the pointer existed before the LAST call: addresses compared) | &n v (allocated by it) | &z v (zero-size
// pointee) | (v;…) | a<generic> | a&o v; generic ::= nil | true | false | s(hex) | f64(bits) | num(lit) | [g,…] | {hexkey:g,…}.
// `E<k>`: the k-th call (0-based) returned an error (`E<k>:syntax|type|other` for the cls op).

func init() {
	ops["json.dectyped"] = func(a []string) (string, string, string) { return opDecTyped(a, false) }
	ops["json.dectypedcls"] = func(a []string) (string, string, string) {
		i, _, _ := opDecTyped(a, true)
		return i, "-", ""
	}
}

// ---- type descriptors ---------------------------------------------------------------------------

type tdesc struct {
	kind   byte // b i u f s y L A M P N { a Q
	width  byte // i / u: '1' '2' '4' '8' '0'
	n      int  // A
	elem   *tdesc
	names  []string
	fields []*tdesc
	typ    reflect.Type
}

var tdAnyType = reflect.TypeOf((*any)(nil)).Elem()

func parseTDesc(s string, i *int) *tdesc {
	if *i >= len(s) {
		panic("bad type descriptor: " + s)
	}
	c := s[*i]
	*i++
	d := &tdesc{kind: c}
	switch c {
	case 'b':
		d.typ = reflect.TypeOf(false)
	case 'i', 'u':
		d.width = s[*i]
		*i++
		d.typ = map[string]reflect.Type{"i1": reflect.TypeOf(int8(0)), "i2": reflect.TypeOf(int16(0)), "i4": reflect.TypeOf(int32(0)),
			"i8": reflect.TypeOf(int64(0)), "i0": reflect.TypeOf(int(0)), "u1": reflect.TypeOf(uint8(0)), "u2": reflect.TypeOf(uint16(0)),
			"u4": reflect.TypeOf(uint32(0)), "u8": reflect.TypeOf(uint64(0)), "u0": reflect.TypeOf(uint(0))}[string([]byte{c, d.width})]
		if d.typ == nil {
			panic("bad width in " + s)
		}
	case 'f':
		d.typ = reflect.TypeOf(float64(0))
	case 's':
		d.typ = reflect.TypeOf("")
	case 'y':
		d.typ = reflect.TypeOf([]byte(nil))
	case 'a':
		d.typ = tdAnyType
	case 'L':
		d.elem = parseTDesc(s, i)
		d.typ = reflect.SliceOf(d.elem.typ)
	case 'M':
		d.elem = parseTDesc(s, i)
		d.typ = reflect.MapOf(reflect.TypeOf(""), d.elem.typ)
	case 'P', 'N':
		d.elem = parseTDesc(s, i)
		d.typ = reflect.PointerTo(d.elem.typ)
	case 'Q':
		d.elem = parseTDesc(s, i)
		d.typ = tdAnyType
	case 'A':
		j := *i
		for s[*i] != ':' {
			*i++
		}
		d.n = atoi(s[j:*i])
		*i++
		d.elem = parseTDesc(s, i)
		d.typ = reflect.ArrayOf(d.n, d.elem.typ)
	case '{':
		var sf []reflect.StructField
		if s[*i] == '}' {
			*i++
		} else {
			for {
				j := *i
				for s[*i] != ':' {
					*i++
				}
				name := s[j:*i]
				*i++
				f := parseTDesc(s, i)
				d.names = append(d.names, name)
				d.fields = append(d.fields, f)
				sf = append(sf, reflect.StructField{Name: name, Type: f.typ})
				if s[*i] == '}' {
					*i++
					break
				}
				if s[*i] != ',' {
					panic("bad struct in " + s)
				}
				*i++
			}
		}
		d.typ = reflect.StructOf(sf)
	default:
		panic("bad type descriptor: " + s)
	}
	return d
}

// tdInit stores the initial content described by N / Q (everything else starts as the zero value).
func tdInit(d *tdesc, v reflect.Value) {
	switch d.kind {
	case 'N':
		p := reflect.New(d.elem.typ)
		tdInit(d.elem, p.Elem())
		v.Set(p)
	case 'Q':
		p := reflect.New(d.elem.typ)
		tdInit(d.elem, p.Elem())
		v.Set(p)
	case 'A':
		for i := 0; i < d.n; i++ {
			tdInit(d.elem, v.Index(i))
		}
	case '{':
		for i, f := range d.fields {
			tdInit(f, v.Field(i))
		}
	}
}

// ---- pointer identity + rendering --------------------------------------------------------------

type tdPtrKey struct {
	p unsafe.Pointer
	t reflect.Type
}

func tdCollect(v reflect.Value, set map[tdPtrKey]bool) {
	switch v.Kind() {
	case reflect.Ptr:
		if !v.IsNil() {
			set[tdPtrKey{v.UnsafePointer(), v.Type()}] = true
			tdCollect(v.Elem(), set)
		}
	case reflect.Interface:
		if !v.IsNil() {
			tdCollect(v.Elem(), set)
		}
	case reflect.Slice:
		if !v.IsNil() && v.Type().Elem().Kind() != reflect.Uint8 {
			w := v.Slice(0, v.Cap())
			for i := 0; i < w.Len(); i++ {
				tdCollect(w.Index(i), set)
			}
		}
	case reflect.Array:
		for i := 0; i < v.Len(); i++ {
			tdCollect(v.Index(i), set)
		}
	case reflect.Struct:
		for i := 0; i < v.NumField(); i++ {
			tdCollect(v.Field(i), set)
		}
	case reflect.Map:
		it := v.MapRange()
		for it.Next() {
			tdCollect(it.Value(), set)
		}
	}
}

func tdPtrFlag(v reflect.Value, set map[tdPtrKey]bool) string {
	if v.Type().Elem().Size() == 0 {
		return "z"
	}
	if set[tdPtrKey{v.UnsafePointer(), v.Type()}] {
		return "o"
	}
	return "n"
}

func tdRenderGeneric(sb *strings.Builder, x any) {
	switch t := x.(type) {
	case nil:
		sb.WriteString("nil")
	case bool:
		sb.WriteString(strconv.FormatBool(t))
	case string:
		sb.WriteString("s(" + hx([]byte(t)) + ")")
	case float64:
		fmt.Fprintf(sb, "f64(%016x)", math.Float64bits(t))
	case stdjson.Number:
		sb.WriteString("num(" + string(t) + ")")
	case []any:
		sb.WriteByte('[')
		for i, e := range t {
			if i > 0 {
				sb.WriteByte(',')
			}
			tdRenderGeneric(sb, e)
		}
		sb.WriteByte(']')
	case map[string]any:
		keys := make([]string, 0, len(t))
		for k := range t {
			keys = append(keys, k)
		}
		sort.Strings(keys)
		sb.WriteByte('{')
		for i, k := range keys {
			if i > 0 {
				sb.WriteByte(',')
			}
			sb.WriteString(hx([]byte(k)) + ":")
			tdRenderGeneric(sb, t[k])
		}
		sb.WriteByte('}')
	default:
		fmt.Fprintf(sb, "?%T", x)
	}
}

func tdRender(sb *strings.Builder, v reflect.Value, set map[tdPtrKey]bool) {
	switch v.Kind() {
	case reflect.Bool:
		if v.Bool() {
			sb.WriteByte('T')
		} else {
			sb.WriteByte('F')
		}
	case reflect.Int, reflect.Int8, reflect.Int16, reflect.Int32, reflect.Int64:
		sb.WriteString(strconv.FormatInt(v.Int(), 10))
	case reflect.Uint, reflect.Uint8, reflect.Uint16, reflect.Uint32, reflect.Uint64:
		sb.WriteString(strconv.FormatUint(v.Uint(), 10))
	case reflect.Float64:
		fmt.Fprintf(sb, "f%016x", math.Float64bits(v.Float()))
	case reflect.String:
		sb.WriteString("s" + hx([]byte(v.String())))
	case reflect.Slice:
		if v.IsNil() {
			sb.WriteByte('N')
			return
		}
		sb.WriteByte('[')
		for i := 0; i < v.Len(); i++ {
			if i > 0 {
				sb.WriteByte(',')
			}
			tdRender(sb, v.Index(i), set)
		}
		sb.WriteByte(']')
	case reflect.Array:
		sb.WriteByte('<')
		for i := 0; i < v.Len(); i++ {
			if i > 0 {
				sb.WriteByte(',')
			}
			tdRender(sb, v.Index(i), set)
		}
		sb.WriteByte('>')
	case reflect.Map:
		if v.IsNil() {
			sb.WriteByte('N')
			return
		}
		keys := v.MapKeys()
		sort.Slice(keys, func(i, j int) bool { return keys[i].String() < keys[j].String() })
		sb.WriteByte('{')
		for i, k := range keys {
			if i > 0 {
				sb.WriteByte(',')
			}
			sb.WriteString(hx([]byte(k.String())) + ":")
			tdRender(sb, v.MapIndex(k), set)
		}
		sb.WriteByte('}')
	case reflect.Ptr:
		if v.IsNil() {
			sb.WriteByte('_')
			return
		}
		sb.WriteString("&" + tdPtrFlag(v, set))
		tdRender(sb, v.Elem(), set)
	case reflect.Struct:
		sb.WriteByte('(')
		for i := 0; i < v.NumField(); i++ {
			if i > 0 {
				sb.WriteByte(';')
			}
			tdRender(sb, v.Field(i), set)
		}
		sb.WriteByte(')')
	case reflect.Interface:
		sb.WriteByte('a')
		if v.IsNil() {
			sb.WriteString("nil")
			return
		}
		e := v.Elem()
		if e.Kind() == reflect.Ptr {
			if e.IsNil() {
				sb.WriteString("?nilptr")
				return
			}
			sb.WriteString("&" + tdPtrFlag(e, set))
			tdRender(sb, e.Elem(), set)
			return
		}
		tdRenderGeneric(sb, e.Interface())
	default:
		fmt.Fprintf(sb, "?%s", v.Kind())
	}
}

// ---- the decoders ------------------------------------------------------------------------------

func tdErrClass(err error) string {
	switch err.(type) {
	case *json.SyntaxError:
		return "syntax"
	case *json.UnmarshalTypeError:
		return "type"
	}
	return "other"
}

// tdMethod: one way of decoding a document into x; returns "" (ok) or the class of the error
type tdMethod func(doc []byte, x any) string

func tdViaDecoder(dec interface{ Decode(any) error }, x any) string {
	err := dec.Decode(x)
	var extra any
	e2 := dec.Decode(&extra)
	if err != nil {
		if e2 != io.EOF && tdErrClass(err) != "syntax" {
			return "syntax"
		}
		return tdErrClass(err)
	}
	if e2 != io.EOF {
		return "syntax"
	}
	return ""
}

func tdMethods(m int) (impl map[string]tdMethod, order []string, oracle tdMethod) {
	var fl json.ParseFlags
	if m&1 != 0 {
		fl |= json.UseNumber
	}
	if m&2 != 0 {
		fl |= json.DisallowUnknownFields
	}
	impl = map[string]tdMethod{
		"parse": func(doc []byte, x any) string {
			r, err := json.Parse(doc, x, fl)
			if len(r) != 0 {
				if _, ok := err.(*json.SyntaxError); !ok {
					err = &json.SyntaxError{}
				}
			}
			if err != nil {
				return tdErrClass(err)
			}
			return ""
		},
		"decoder": func(doc []byte, x any) string {
			dec := json.NewDecoder(bytes.NewReader(doc))
			if m&1 != 0 {
				dec.UseNumber()
			}
			if m&2 != 0 {
				dec.DisallowUnknownFields()
			}
			return tdViaDecoder(dec, x)
		},
	}
	order = []string{"parse", "decoder"}
	if m == 0 {
		impl["unmarshal"] = func(doc []byte, x any) string {
			if err := json.Unmarshal(doc, x); err != nil {
				return tdErrClass(err)
			}
			return ""
		}
		order = []string{"parse", "unmarshal", "decoder"}
		oracle = func(doc []byte, x any) string {
			if err := stdjson.Unmarshal(doc, x); err != nil {
				return "err"
			}
			return ""
		}
	} else {
		oracle = func(doc []byte, x any) string {
			dec := stdjson.NewDecoder(bytes.NewReader(doc))
			if m&1 != 0 {
				dec.UseNumber()
			}
			if m&2 != 0 {
				dec.DisallowUnknownFields()
			}
			err := dec.Decode(x)
			var extra any
			if e2 := dec.Decode(&extra); err != nil || e2 != io.EOF {
				return "err"
			}
			return ""
		}
	}
	return
}

// tdRun decodes the documents in turn into one fresh target with the given method.
func tdRun(d *tdesc, docs [][]byte, f tdMethod, cls bool) string {
	x := reflect.New(d.typ)
	tdInit(d, x.Elem())
	set := map[tdPtrKey]bool{}
	for k, doc := range docs {
		set = map[tdPtrKey]bool{}
		tdCollect(x.Elem(), set)
		if e := f(append([]byte{}, doc...), x.Interface()); e != "" {
			if cls {
				return "E" + strconv.Itoa(k) + ":" + e
			}
			return "E" + strconv.Itoa(k)
		}
	}
	var sb strings.Builder
	tdRender(&sb, x.Elem(), set)
	return sb.String()
}

func tdAdjPtr(ty string) bool {
	for i := 0; i+1 < len(ty); i++ {
		if (ty[i] == 'P' || ty[i] == 'N' || ty[i] == 'Q') && (ty[i+1] == 'P' || ty[i+1] == 'N') {
			return true
		}
	}
	return false
}

func opDecTyped(a []string, cls bool) (string, string, string) {
	ty := a[0]
	m := atoi(a[1])
	var docs [][]byte
	for _, h := range strings.Split(a[2], ",") {
		docs = append(docs, unhx(h))
	}
	i := 0
	d := parseTDesc(ty, &i)
	if i != len(ty) {
		panic("trailing characters in type descriptor " + ty)
	}
	impl, order, oracle := tdMethods(m)
	if cls {
		// the class is that of Unmarshal (Parse + its epilogue); a Decoder has its own (io.EOF, no epilogue)
		order = order[:len(order)-1]
	}
	rs := map[string]string{}
	for _, name := range order {
		rs[name] = tdRun(d, docs, impl[name], cls)
	}
	I := rs["parse"]
	for _, name := range order {
		if rs[name] != I {
			I = "DISAGREE"
			for _, n := range order {
				I += " " + n + "=" + rs[n]
			}
			break
		}
	}
	O := tdRun(d, docs, oracle, false)
	known := ""
	if tdAdjPtr(ty) {
		for _, doc := range docs {
			if bytes.Contains(doc, []byte("null")) {
				// `null` onto an already allocated pointer-to-pointer: the repo's own test suite pins "clears the inner pointer only"
				known = "jsonNullNestedPointer"
			}
		}
	}
	return I, O, known
}

// ---- generators --------------------------------------------------------------------------------

type tdGen struct{ h *H }

var tdFieldNames = []string{"A", "B", "Ab", "AB", "K", "S", "Key", "X_1", "Zz"}

func (g *tdGen) ty(depth int) string {
	h := g.h
	leaf := func() string {
		switch h.Intn(9) {
		case 0:
			return "b"
		case 1, 2:
			return h.Pick([]string{"i1", "i2", "i4", "i8", "i0", "u1", "u2", "u4", "u8", "u0"})
		case 3:
			return "f"
		case 4, 5:
			return "s"
		case 6:
			return "y"
		default:
			return "a"
		}
	}
	if depth >= 3 || h.Intn(10) < 3 {
		return leaf()
	}
	switch h.Intn(12) {
	case 0, 1:
		return "L" + g.ty(depth+1)
	case 2:
		return "A" + strconv.Itoa(h.Intn(4)) + ":" + g.ty(depth+1)
	case 3, 4:
		return "M" + g.ty(depth+1)
	case 5, 6:
		return "P" + g.ty(depth+1)
	case 7:
		return "N" + g.ty(depth+1)
	case 8:
		return "Q" + g.ty(depth+1)
	default:
		n := h.Intn(4)
		if n == 0 && h.Intn(3) != 0 {
			n = 2
		}
		perm := append([]string{}, tdFieldNames...)
		for i := range perm {
			j := i + h.Intn(len(perm)-i)
			perm[i], perm[j] = perm[j], perm[i]
		}
		var fs []string
		for i := 0; i < n; i++ {
			fs = append(fs, perm[i]+":"+g.ty(depth+1))
		}
		return "{" + strings.Join(fs, ",") + "}"
	}
}

func (g *tdGen) ws() string {
	if g.h.Intn(6) != 0 {
		return ""
	}
	return g.h.Pick([]string{" ", "\n", "\t", "\r\n", "  "})
}

var tdIntBounds = map[string][2]string{
	"i1": {"-128", "127"}, "i2": {"-32768", "32767"}, "i4": {"-2147483648", "2147483647"}, "i8": {"-9223372036854775808", "9223372036854775807"},
	"i0": {"-9223372036854775808", "9223372036854775807"}, "u1": {"0", "255"}, "u2": {"0", "65535"}, "u4": {"0", "4294967295"},
	"u8": {"0", "18446744073709551615"}, "u0": {"0", "18446744073709551615"},
}

func tdDecAdd(s string, delta int) string {
	// decimal string ± 1 without big numbers
	neg := strings.HasPrefix(s, "-")
	d := []byte(strings.TrimPrefix(s, "-"))
	inc := (delta > 0) != neg
	if inc {
		i := len(d) - 1
		for i >= 0 && d[i] == '9' {
			d[i] = '0'
			i--
		}
		if i < 0 {
			d = append([]byte{'1'}, d...)
		} else {
			d[i]++
		}
	} else {
		if string(d) == "0" {
			return "-1"
		}
		i := len(d) - 1
		for d[i] == '0' {
			d[i] = '9'
			i--
		}
		d[i]--
		if d[0] == '0' && len(d) > 1 {
			d = d[1:]
		}
	}
	if neg && string(d) != "0" {
		return "-" + string(d)
	}
	return string(d)
}

func (g *tdGen) intLit(w string) string {
	h := g.h
	b := tdIntBounds[w]
	switch h.Intn(14) {
	case 0:
		return b[0]
	case 1:
		return b[1]
	case 2:
		return tdDecAdd(b[0], -1)
	case 3:
		return tdDecAdd(b[1], 1)
	case 4:
		return "-0"
	case 5:
		return h.Pick([]string{"1.0", "1e2", "1E0", "0.5", "-1.5", "12e-1", "01", "-", "+1", "1e", "0x1", "99999999999999999999999", "-99999999999999999999999", "18446744073709551616", "9223372036854775808"})
	case 6:
		return strconv.FormatUint(h.U64()>>uint(h.Intn(64)), 10)
	case 7:
		return "-" + strconv.FormatUint(h.U64()>>uint(1+h.Intn(63)), 10)
	default:
		return strconv.Itoa(h.Intn(130))
	}
}

var tdFloats = []string{"0", "-0", "1", "1.5", "-2.25", "1e2", "1E+2", "1e-2", "0.1", "3.141592653589793", "1e308", "1.7976931348623157e308",
	"1.7976931348623158e308", "1.797693134862315808e308", "1e400", "-1e400", "1e-400", "4.9e-324", "2.2250738585072011e-308", "2.4703282292062327e-324",
	"2.4703282292062328e-324", "123456789012345678901234567890", "0.000001", "9007199254740993", "1e23", "8.41e21", "5e-324", "0e0", "-0.0", "1.0e0",
	"100000000000000000000000000000000000000000000000000e-50", "0.3", "1e", "1.", ".5", "-", "00", "1e+", "2e308"}

var tdStrings = []string{`""`, `"a"`, `"hello"`, `"A"`, `"é"`, `"\n\t\"\\\/"`, `"😀"`, `"😀"`, `"\ud83d"`, `"\ude00x"`, "\"\xff\"", "\"a\xc3\"",
	`"\u0000"`, `"null"`, `"true"`, `"12"`, `"a b"`, `"abcdefghijklmnopqrstuvwxyz0123456789"`, `"tab\there"`, `"é"`, `"<>&"`, "\"\x7f\"", `"\u212a"`, `"K"`}

var tdBadStrings = []string{`"abc`, `"\x"`, `"\u12"`, "\"\x1f\"", `"`, `"\`, `"\ud800\u12"`}

// keys for maps and structs: exact names, case variants, KELVIN SIGN / LONG S (fold to k / s), escapes, unknown
func (g *tdGen) key(names []string) string {
	h := g.h
	if len(names) > 0 && h.Intn(10) < 7 {
		n := names[h.Intn(len(names))]
		switch h.Intn(8) {
		case 0:
			return `"` + strings.ToLower(n) + `"`
		case 1:
			return `"` + strings.ToUpper(n) + `"`
		case 2:
			r := []byte(n)
			for i := range r {
				if h.Bool() {
					if r[i] >= 'a' && r[i] <= 'z' {
						r[i] -= 32
					} else if r[i] >= 'A' && r[i] <= 'Z' {
						r[i] += 32
					}
				}
			}
			return `"` + string(r) + `"`
		case 3:
			// escaped spelling of the first letter
			return fmt.Sprintf(`"\u%04x%s"`, n[0], n[1:])
		case 4:
			s := strings.ReplaceAll(strings.ReplaceAll(n, "K", "\u212a"), "k", "\u212a")
			s = strings.ReplaceAll(strings.ReplaceAll(s, "S", "\u017f"), "s", "\u017f")
			return `"` + s + `"`
		default:
			return `"` + n + `"`
		}
	}
	return h.Pick([]string{`"a"`, `"b"`, `"A"`, `"k"`, `""`, `"é"`, `"a"`, `"zz"`, `"a\u0000"`, `"Ab"`, `"ab"`, `"\u212a"`, `"\u017f"`, `"x_1"`, `"key"`, `"unknown"`,
		"\"\xff\"", `"\ud800"`, `"KEY"`, `"a b"`})
}

// doc generates a document for the type described by d; `mut` = probability (per thousand) of a structure-aware mismatch
func (g *tdGen) doc(d *tdesc, depth, mut int) string {
	h := g.h
	if h.Intn(1000) < mut {
		switch h.Intn(6) {
		case 0, 1:
			return "null"
		case 2:
			return string(h.genJSON(4))
		case 3:
			return h.Pick([]string{"true", "1", `"x"`, "[]", "{}", "[1]", `{"A":1}`, "1.5", "-1", `""`, "false", "[null]", `{"a":null}`, "nul", "nulll", "tru", "[", "{", `{"A"}`, "[1,]", "]", "1 2"})
		case 4:
			return g.doc(&tdesc{kind: 'a'}, depth, 0)
		}
	}
	switch d.kind {
	case 'b':
		return h.Pick([]string{"true", "false"})
	case 'i', 'u':
		return g.intLit(string([]byte{d.kind, d.width}))
	case 'f':
		return h.Pick(tdFloats)
	case 's':
		if h.Intn(12) == 0 {
			return h.Pick(tdBadStrings)
		}
		if h.Intn(3) == 0 {
			return string(h.genJSONString())
		}
		return h.Pick(tdStrings)
	case 'y':
		switch h.Intn(8) {
		case 0:
			return h.Pick([]string{`"!!!!"`, `"YQ"`, `"YQ="`, `"YQ==="`, `"YQ==YQ=="`, `"Y Q=="`, `"YQ\n=="`, `"\nYWJj\r\n"`, `"YWJj\u000aZGVm"`, `"=YQ="`, `"YW=j"`, `"YR=="`, `"YWI="`, `"YWJ="`, `"a"`, `"ab"`, `"abc"`, `"-_-_"`, `"+/+/"`})
		case 1:
			var el []string
			for i := h.Intn(4); i > 0; i-- {
				el = append(el, h.Pick([]string{"0", "1", "255", "256", "-1", "null", "1.0", `"a"`, "65"}))
			}
			return "[" + strings.Join(el, ",") + "]"
		default:
			return `"` + base64.StdEncoding.EncodeToString(h.Bytes(h.Intn(50+h.Intn(2)*80))) + `"`
		}
	case 'a':
		if h.Intn(4) == 0 {
			return h.Pick([]string{"1", "1.5", "-0", "1e400", "12345678901234567890", `"s"`, "true", "null", "[]", "{}", `[1,"a",null,{"b":[true]}]`, `{"a":1,"a":2}`, `{"b":{"c":1e2}}`})
		}
		return string(h.genJSON(3))
	case 'L':
		n := h.Intn(4)
		if h.Intn(20) == 0 {
			n = 9 + h.Intn(6) // beyond the first capacity of 10
		}
		return g.seq("[", "]", n, func(int) string { return g.doc(d.elem, depth+1, mut) })
	case 'A':
		n := d.n + h.Intn(3) - 1
		if n < 0 {
			n = 0
		}
		return g.seq("[", "]", n, func(int) string { return g.doc(d.elem, depth+1, mut) })
	case 'M':
		n := h.Intn(4)
		return g.seq("{", "}", n, func(int) string {
			return h.Pick([]string{`"a"`, `"b"`, `"a"`, `"a"`, `""`, `"é"`, `"k2"`, `"B"`}) + g.ws() + ":" + g.ws() + g.doc(d.elem, depth+1, mut)
		})
	case 'P', 'N', 'Q':
		if h.Intn(6) == 0 {
			return "null"
		}
		return g.doc(d.elem, depth+1, mut)
	case '{':
		n := h.Intn(len(d.fields) + 3)
		return g.seq("{", "}", n, func(int) string {
			k := g.key(d.names)
			// find the field the key denotes (roughly: case-insensitive ASCII) to generate a fitting value
			var f *tdesc
			if uq, err := strconv.Unquote(k); err == nil {
				for i, nm := range d.names {
					if strings.EqualFold(nm, uq) {
						f = d.fields[i]
						break
					}
				}
			}
			val := ""
			if f != nil {
				val = g.doc(f, depth+1, mut)
			} else {
				val = string(h.genJSON(4))
			}
			return k + g.ws() + ":" + g.ws() + val
		})
	}
	return "null"
}

func (g *tdGen) seq(open, close string, n int, el func(int) string) string {
	var sb strings.Builder
	sb.WriteString(open + g.ws())
	for i := 0; i < n; i++ {
		if i > 0 {
			sb.WriteString(g.ws() + "," + g.ws())
		}
		sb.WriteString(el(i))
	}
	sb.WriteString(g.ws() + close)
	return sb.String()
}

var tdFixed = [][]string{
	// type, flags, documents…
	{"b", "0", "true"}, {"b", "0", "null"}, {"b", "0", "true", "null"}, {"b", "0", "1"}, {"b", "0", "truex"}, {"b", "0", " false "}, {"b", "0", ""},
	{"i1", "0", "127"}, {"i1", "0", "128"}, {"i1", "0", "-128"}, {"i1", "0", "-129"}, {"i1", "0", "5", "null"}, {"i1", "0", "5", "300"}, {"u1", "0", "-0"}, {"i1", "0", "-0"},
	{"u8", "0", "18446744073709551615"}, {"u8", "0", "18446744073709551616"}, {"i8", "0", "-9223372036854775808"}, {"i8", "0", "-9223372036854775809"}, {"i0", "0", "1.0"}, {"i0", "0", "1e2"},
	{"i0", "0", `"1"`}, {"i0", "0", "01"}, {"i0", "0", "1 "}, {"i0", "0", "1x"}, {"i0", "0", "[1]"}, {"i0", "0", "{}"},
	{"f", "0", "1.5"}, {"f", "0", "1e400"}, {"f", "0", "-0"}, {"f", "0", "1.5", "null"}, {"f", "0", `"1.5"`}, {"f", "1", "1.5"},
	{"s", "0", `"a"`}, {"s", "0", `"a"`, "null"}, {"s", "0", "1"}, {"s", "0", `"\ud800"`}, {"s", "0", "\"\xff\""},
	{"y", "0", `"aGVsbG8="`}, {"y", "0", `"aGVsbG8"`}, {"y", "0", `""`}, {"y", "0", "null"}, {"y", "0", "[1,2,3]"}, {"y", "0", "[1,256]"}, {"y", "0", `"aGVs\nbG8="`}, {"y", "0", `"aGVs\\nbG8="`},
	{"y", "0", `"aGVsbG8="`, "[null]"}, {"y", "0", `"aGVsbG8="`, "[]"}, {"y", "0", "[1,2,3]", "[null,null]"}, {"y", "0", "[1,2,3]", "[9]", "[null,null,null]"}, {"y", "0", "1"}, {"y", "0", `"====" `},
	{"Li0", "0", "[1,2,3]"}, {"Li0", "0", "[]"}, {"Li0", "0", "null"}, {"Li0", "0", "[1,2,3]", "[]"}, {"Li0", "0", "[1,2,3]", "null"}, {"Li0", "0", "[1,2,3]", "[null]"},
	{"Li0", "0", "[1,2,3]", "[7]", "[null,null,null]"}, {"Li0", "0", "[1,2,3]", "[7]", "[null,null,null,null]"}, {"Li0", "0", "[1,2,3,4,5,6,7,8,9,10,11]", "[0]", "[null,null,null,null,null,null,null,null,null,null,null,null]"},
	{"Li0", "0", "[1,\"a\"]"}, {"Li0", "0", "[1,2"}, {"Li0", "0", "[1,]"}, {"Li0", "0", "[,1]"}, {"Li0", "0", "[1 2]"}, {"Li0", "0", "{}"}, {"Li0", "0", `"a"`}, {"Li0", "0", "[ ]"}, {"Li0", "0", "[1,2,3]", "[ ]"},
	{"LPi0", "0", "[1,2]", "[3]"}, {"LPi0", "0", "[1,2]", "[null,5]"}, {"LPi0", "0", "[1,2]", "[3]", "[null,null]"}, {"LPi0", "0", "[1,2]", "[3]", "[4,5]"},
	{"LMi0", "0", `[{"a":1}]`, `[{"b":2}]`}, {"L{A:i0,B:s}", "0", `[{"A":1,"B":"x"}]`, `[{"B":"y"}]`}, {"L{A:i0,B:s}", "0", `[{"A":1},{"A":2}]`, `[{}]`, `[{},{}]`},
	{"A2:i0", "0", "[1,2]"}, {"A2:i0", "0", "[1]"}, {"A2:i0", "0", "[1,2,3]"}, {"A2:i0", "0", "[1,2]", "[]"}, {"A2:i0", "0", "[1,2]", "[null]"}, {"A2:i0", "0", "[1,2]", "null"}, {"A2:i0", "0", "[1,2,\"x\"]"},
	{"A2:i0", "0", "[1,2,]"}, {"A2:i0", "0", "[1,2,3"}, {"A2:i0", "0", "[1,\"x\"]"}, {"A0:i0", "0", "[]"}, {"A0:i0", "0", "[1,2]"}, {"A0:i0", "0", "[1,"}, {"A2:i0", "0", `"ab"`}, {"A2:u1", "0", `"YWI="`},
	{"A2:Pi0", "0", "[1,2]", "[3]"}, {"A2:Ni0", "0", "[1]"}, {"A2:Ni0", "0", "[null,2]"},
	{"Mi0", "0", `{"a":1}`}, {"Mi0", "0", `{}`}, {"Mi0", "0", "null"}, {"Mi0", "0", `{"a":1}`, `{"b":2}`}, {"Mi0", "0", `{"a":1}`, `{"a":2}`}, {"Mi0", "0", `{"a":1}`, `{}`}, {"Mi0", "0", `{"a":1}`, "null"},
	{"Mi0", "0", `{"a":1,"a":2}`}, {"Mi0", "0", `{"a":1,"a":2}`}, {"Mi0", "0", `{"a":1}`, `{"a":null}`}, {"Mi0", "0", `{"a":"x"}`}, {"Mi0", "0", `{"a":1,}`}, {"Mi0", "0", `{null:1}`}, {"Mi0", "0", `{1:1}`}, {"Mi0", "0", `[]`},
	{"MPi0", "0", `{"a":1}`, `{"a":2}`}, {"MPi0", "0", `{"a":1}`, `{"a":null}`}, {"MMi0", "0", `{"a":{"x":1}}`, `{"a":{"y":2}}`}, {"MLi0", "0", `{"a":[1,2]}`, `{"a":[null]}`},
	{"Ms", "0", `{"a":"x","b":null}`}, {"Mb", "0", `{"a":true,"b":null}`}, {"MLs", "0", `{"a":["x",null],"b":null,"c":[]}`}, {"MLs", "0", `{"a":["x","y"],"b":[null]}`}, {"Ma", "0", `{"a":1,"b":[null]}`}, {"Ma", "1", `{"a":1}`},
	{"Ma", "0", `{"a":1}`, `{"b":2}`}, {"Ms", "0", `{"a":"x"}`, `{"a":null}`},
	{"Pi0", "0", "1"}, {"Pi0", "0", "null"}, {"Pi0", "0", "1", "2"}, {"Pi0", "0", "1", "null"}, {"Ni0", "0", "1"}, {"Ni0", "0", "null"}, {"Ni0", "0", `"x"`},
	{"PPi0", "0", "1"}, {"PPi0", "0", "1", "2"}, {"PPi0", "0", "1", "null"}, {"NNi0", "0", "null"}, {"NPi0", "0", "null"}, {"NPi0", "0", "5"}, {"PNi0", "0", "5"},
	{"{A:i0,B:s}", "0", `{"A":1,"B":"x"}`}, {"{A:i0,B:s}", "0", `{"a":1,"b":"x"}`}, {"{A:i0,B:s}", "0", `{"A":1,"a":2}`}, {"{A:i0,B:s}", "0", `{"a":2,"A":1}`}, {"{A:i0,B:s}", "0", `{"C":1}`}, {"{A:i0,B:s}", "2", `{"C":1}`},
	{"{A:i0,B:s}", "2", `{"C":1} x`}, {"{A:i0,B:s}", "0", `{"A":1}`, `{"B":"y"}`}, {"{A:i0,B:s}", "0", `{"A":1}`, "null"}, {"{A:i0,B:s}", "0", `{"A":"x"}`}, {"{A:i0,B:s}", "0", `{"A":1,"B":2}`}, {"{A:i0,B:s}", "0", `{"A":null,"B":null}`},
	{"{Ab:i0,AB:i0}", "0", `{"ab":1}`}, {"{AB:i0,Ab:i0}", "0", `{"ab":1}`}, {"{Ab:i0,AB:i0}", "0", `{"AB":1,"Ab":2,"aB":3}`}, {"{K:i0,S:i0}", "0", `{"\u212a":1,"\u017f":2}`}, {"{K:i0,S:i0}", "0", "{\"\u212a\":1,\"\u017f\":2}"},
	{"{Key:i0}", "0", "{\"\u212aey\":1}"}, {"{Key:i0}", "0", `{"\u212aEY":1,"key":2}`}, {"{K:i0,S:i0}", "0", `{"k":1,"s":2}`}, {"{Key:i0}", "0", `{"KEY":1,"key":2,"kEy":3}`}, {"{X_1:i0}", "0", `{"x_1":1}`}, {"{A:Mi0}", "0", `{"A":{"x":1},"A":{"y":2}}`}, {"{A:Pi0}", "0", `{"A":1,"A":2}`},
	{"{A:Li0}", "0", `{"A":[1,2,3],"A":[null],"A":[null,null,null]}`}, {"{A:Li0}", "0", `{"A":[1,2,3],"A":[],"A":[null]}`}, {"{A:{B:i0,A:i0}}", "0", `{"A":{"B":1},"A":{"A":2}}`}, {"{A:a}", "0", `{"A":{"x":1},"A":{"y":2}}`},
	{"{A:i0}", "0", `{"A":1,"B":[1,{"x":null}],"C":"s"}`}, {"{A:i0}", "0", `{"A":1,"B":[1,}`}, {"{A:i0}", "0", `{"A":1`}, {"{A:i0}", "0", `{"A" 1}`}, {"{A:i0}", "0", `{A:1}`}, {"{A:i0}", "0", `{"A":1,,}`}, {"{A:i0}", "0", `{null:1}`},
	{"{}", "0", `{}`}, {"{}", "0", `{"a":1}`}, {"{}", "2", `{"a":1}`}, {"{}", "0", `[]`}, {"P{}", "0", `{}`, `{}`}, {"PA0:i0", "0", `[]`, `[]`},
	{"a", "0", "1"}, {"a", "1", "1"}, {"a", "0", `{"a":[1,2]}`}, {"a", "0", `{"a":1}`, `{"b":2}`}, {"a", "0", "[1,2]", "[3]"}, {"a", "0", "1e400"}, {"a", "0", "1", "null"},
	{"Qi0", "0", "5"}, {"Qi0", "0", "null"}, {"Qi0", "0", `"x"`}, {"QPi0", "0", "5"}, {"QPi0", "0", "null"}, {"QNi0", "0", "null"}, {"QMi0", "0", `{"a":1}`, `{"b":2}`}, {"Q{A:i0}", "0", `{"A":1}`}, {"QQi0", "0", "7"}, {"QQi0", "0", "null"},
	{"{A:Qi0}", "0", `{"A":5}`}, {"{A:Qi0}", "0", `{"A":5}`, `{"A":6}`}, {"{A:Qi0}", "0", `{"A":null}`, `{"A":6}`}, {"A1:Qs", "0", `["x"]`}, {"LQs", "0", `["x"]`},
	{"{A:i0}", "0", `nullx`}, {"{A:i0}", "0", ` null `}, {"Li0", "0", `nul`}, {"Mi0", "0", `nulll`}, {"Pi0", "0", "nul"}, {"Pi0", "0", "nullx"},
}

func tdDocsArg(docs []string) string {
	var hs []string
	for _, d := range docs {
		hs = append(hs, hx([]byte(d)))
	}
	return strings.Join(hs, ",")
}

func runC02Typed(h *H) {
	for _, c := range tdFixed {
		h.Do("json.dectyped", c[0], c[1], tdDocsArg(c[2:]))
		h.Do("json.dectypedcls", c[0], c[1], tdDocsArg(c[2:]))
	}
	// nesting limit: the deep part is skipped syntactically (unknown key, extra array element, type mismatch)
	for _, n := range []int{9998, 9999, 10000, 10001} {
		deep := strings.Repeat("[", n) + strings.Repeat("]", n)
		h.Do("json.dectyped", "{A:i0}", "0", tdDocsArg([]string{`{"B":` + deep + `}`}))
		h.Do("json.dectyped", "A0:i0", "0", tdDocsArg([]string{"[" + deep + "]"}))
		h.Do("json.dectyped", "i0", "0", tdDocsArg([]string{deep}))
		h.Do("json.dectyped", "Li0", "0", tdDocsArg([]string{"[1," + deep + "]"}))
	}
	g := &tdGen{h: h}
	N := 2600
	if h.Thorough() {
		N = 50000
	}
	for i := 0; i < N; i++ {
		ty := g.ty(0)
		j := 0
		d := parseTDesc(ty, &j)
		var docs []string
		for k := h.Intn(3); k > 0; k-- {
			docs = append(docs, g.doc(d, 0, 30)) // priors: mostly fitting
		}
		mut := []int{0, 60, 60, 200}[h.Intn(4)]
		last := g.doc(d, 0, mut)
		if h.Intn(12) == 0 {
			last = string(h.mutateJSON([]byte(last)))
		}
		docs = append(docs, g.ws()+last+g.ws())
		m := []int{0, 0, 0, 1, 2, 3}[h.Intn(6)]
		h.Do("json.dectyped", ty, strconv.Itoa(m), tdDocsArg(docs))
		if i%4 == 0 {
			h.Do("json.dectypedcls", ty, strconv.Itoa(m), tdDocsArg(docs))
		}
	}
}
