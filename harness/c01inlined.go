package main

// C01 (value passing layer): json.inlined — the unexported json.inlined(t) of /repo (reached with go:linkname; the empty
// stub_linkname.s lets this package declare a function without a body) against the Lean model (Enc/Model/Json/Inlined.lean),
// the compiler's rule (Enc/Spec/Json/DirectIface.lean) and the Go runtime itself.
//
//	json.inlined <how> <type>
//
// how = r: the type is built with reflect.StructOf / ArrayOf; c: a type of the same shape that the COMPILER built (table
// below). type := p (*int) | m (map[string]int) | c (chan int) | f (func()) | u (unsafe.Pointer) | o0…o6 (int, string, []int,
// any, float64, bool, error) | S{type;…} | A<n>:type.
// I = json.inlined(t); O = the runtime's answer, observed twice and required to agree ("mismatch" otherwise):
// abi.KindDirectIface in the type descriptor, and whether the data word of any(zero value of t) is the (nil) value itself.

import (
	"reflect"
	"sort"
	"strconv"
	"strings"
	"unsafe"
)

//go:linkname jsonInlined github.com/segmentio/encoding/json.inlined
func jsonInlined(t reflect.Type) bool

var inlLeaves = map[byte]reflect.Type{
	'p': reflect.TypeOf((*int)(nil)), 'm': reflect.TypeOf(map[string]int(nil)), 'c': reflect.TypeOf((chan int)(nil)),
	'f': reflect.TypeOf((func())(nil)), 'u': reflect.TypeOf(unsafe.Pointer(nil)),
}
var inlOthers = []reflect.Type{reflect.TypeOf(0), reflect.TypeOf(""), reflect.TypeOf([]int(nil)), reflect.TypeOf((*any)(nil)).Elem(),
	reflect.TypeOf(0.5), reflect.TypeOf(false), reflect.TypeOf((*error)(nil)).Elem()}

// inlParse: recursive descent over the descriptor; returns the type and the rest
func inlParse(s string) (reflect.Type, string, bool) {
	if s == "" {
		return nil, s, false
	}
	switch s[0] {
	case 'p', 'm', 'c', 'f', 'u':
		return inlLeaves[s[0]], s[1:], true
	case 'o':
		if len(s) < 2 || s[1] < '0' || int(s[1]-'0') >= len(inlOthers) {
			return nil, s, false
		}
		return inlOthers[s[1]-'0'], s[2:], true
	case 'S':
		if !strings.HasPrefix(s, "S{") {
			return nil, s, false
		}
		s = s[2:]
		var fs []reflect.StructField
		if strings.HasPrefix(s, "}") {
			return reflect.StructOf(nil), s[1:], true
		}
		for {
			t, rest, ok := inlParse(s)
			if !ok || rest == "" {
				return nil, s, false
			}
			fs = append(fs, reflect.StructField{Name: "F" + strconv.Itoa(len(fs)), Type: t})
			if rest[0] == '}' {
				return reflect.StructOf(fs), rest[1:], true
			}
			if rest[0] != ';' {
				return nil, s, false
			}
			s = rest[1:]
		}
	case 'A':
		i := 1
		for i < len(s) && s[i] >= '0' && s[i] <= '9' {
			i++
		}
		n, err := strconv.Atoi(s[1:i])
		if err != nil || i >= len(s) || s[i] != ':' || n > 64 {
			return nil, s, false
		}
		t, rest, ok := inlParse(s[i+1:])
		if !ok {
			return nil, s, false
		}
		return reflect.ArrayOf(n, t), rest, true
	}
	return nil, s, false
}

// types of the same shapes built by the compiler (blank and zero-size fields included)
var inlCompiled = map[string]any{
	"p": (*int)(nil), "m": map[string]int(nil), "c": (chan int)(nil), "f": (func())(nil), "u": unsafe.Pointer(nil),
	"o0": 0, "o1": "", "o2": []int(nil), "o4": 0.5, "o5": false,
	"S{}": struct{}{}, "S{p}": struct{ P *int }{}, "S{m}": struct{ M map[string]int }{}, "S{c}": struct{ C chan int }{},
	"S{f}": struct{ F func() }{}, "S{u}": struct{ U unsafe.Pointer }{}, "S{o0}": struct{ A int }{}, "S{o3}": struct{ A any }{},
	"S{o2}": struct{ A []int }{}, "S{o1}": struct{ A string }{},
	"S{S{p}}": struct{ S struct{ P *int } }{}, "S{S{S{m}}}": struct {
		S struct{ S struct{ M map[string]int } }
	}{},
	"A1:p": [1]*int{}, "A1:A1:p": [1][1]*int{}, "A2:p": [2]*int{}, "A0:p": [0]*int{}, "A1:o0": [1]int{}, "A1:o3": [1]any{},
	"S{A1:p}": struct{ A [1]*int }{}, "A1:S{m}": [1]struct{ M map[string]int }{}, "A1:S{S{A1:S{f}}}": [1]struct {
		S struct{ A [1]struct{ F func() } }
	}{},
	"S{p;o0}": struct {
		P *int
		A int
	}{}, "S{S{};p}": struct {
		_ struct{}
		P *int
	}{}, "S{p;S{}}": struct {
		P *int
		_ struct{}
	}{}, "S{p;A0:o0}": struct {
		P *int
		_ [0]int
	}{}, "S{A0:p}": struct{ A [0]*int }{}, "S{A2:p}": struct{ A [2]*int }{}, "S{p;p}": struct{ P, Q *int }{},
	"S{S{}}": struct{ S struct{} }{}, "A1:S{}": [1]struct{}{}, "S{A1:c}": struct{ A [1]chan int }{}, "A1:u": [1]unsafe.Pointer{},
}

func inlRuntimeDirect(t reflect.Type) string {
	// (1) abi.Type.Kind_ (byte 23 of the descriptor on 64-bit: Size_, PtrBytes, Hash, TFlag, Align_, FieldAlign_, Kind_), bit 5
	rt := (*[2]unsafe.Pointer)(unsafe.Pointer(&t))[1]
	kindByte := (*[24]byte)(rt)[23]
	if reflect.Kind(kindByte&31) != t.Kind() {
		return "layout?"
	}
	flag := kindByte&(1<<5) != 0
	if t.Kind() == reflect.Interface {
		return b01(flag) // an interface value is not boxed into `any`: there is no data word of this type to look at
	}
	// (2) the data word of an interface holding the zero value: the nil value itself, or a pointer to a copy
	x := reflect.Zero(t).Interface()
	word := (*[2]unsafe.Pointer)(unsafe.Pointer(&x))[1]
	if flag != (word == nil) {
		return "mismatch"
	}
	return b01(flag)
}

func init() {
	ops["json.inlined"] = func(a []string) (string, string, string) {
		if len(a) != 2 {
			return "bad-args", "-", ""
		}
		var t reflect.Type
		switch a[0] {
		case "r":
			var rest string
			var ok bool
			if t, rest, ok = inlParse(a[1]); !ok || rest != "" {
				return "bad-args", "-", ""
			}
		case "c":
			v, ok := inlCompiled[a[1]]
			if !ok {
				return "bad-args", "-", ""
			}
			t = reflect.TypeOf(v)
		default:
			return "bad-args", "-", ""
		}
		return b01(jsonInlined(t)), inlRuntimeDirect(t), ""
	}
}

func genInlined(h *H) {
	names := make([]string, 0, len(inlCompiled))
	for k := range inlCompiled {
		names = append(names, k)
	}
	sort.Strings(names) // map iteration order must not leak into the case stream
	for _, k := range names {
		h.Do("json.inlined", "c", k)
		if k != "o3" {
			h.Do("json.inlined", "r", k)
		}
	}
	h.Do("json.inlined", "r", "o3")
	h.Do("json.inlined", "r", "o6")
	N := 250
	if h.Thorough() {
		N = 5000
	}
	var gen func(d int) string
	gen = func(d int) string {
		if d <= 0 || h.Intn(4) == 0 {
			return h.Pick([]string{"p", "m", "c", "f", "u", "p", "m", "o0", "o1", "o2", "o3", "o4", "o5", "o6", "S{}"})
		}
		switch h.Intn(5) {
		case 0, 1: // a struct, mostly of one field
			n := 1
			if h.Intn(3) == 0 {
				n = h.Intn(4)
			}
			fs := make([]string, n)
			for i := range fs {
				fs[i] = gen(d - 1)
			}
			return "S{" + strings.Join(fs, ";") + "}"
		case 2, 3:
			n := 1
			if h.Intn(3) == 0 {
				n = h.Intn(4)
			}
			return "A" + strconv.Itoa(n) + ":" + gen(d-1)
		}
		return gen(d - 1)
	}
	for i := 0; i < N; i++ {
		h.Do("json.inlined", "r", gen(1+h.Intn(5)))
	}
}
