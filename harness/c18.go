package main

import (
	"fmt"
	"regexp"
	"strconv"
	"time"

	"github.com/segmentio/encoding/iso8601"
	"github.com/segmentio/encoding/json"
)

func init() {
	registry["C18"] = runC18
	ops["iso.parse"] = func(a []string) (string, string, string) {
		s := string(unhx(a[0]))
		return isoImpl(s), isoOracle(s), ""
	}
	ops["iso.valid"] = func(a []string) (string, string, string) {
		s := string(unhx(a[0]))
		f := atoi(a[1])
		ok := iso8601.Valid(s, iso8601.ValidFlags(f))
		allocs := testingAllocs(func() { iso8601.Valid(s, iso8601.ValidFlags(f)) })
		i := b01(ok)
		if allocs != 0 {
			i += ";allocs"
		}
		return i, b01(validOracle(s, f)), ""
	}
	ops["iso.jsontime"] = func(a []string) (string, string, string) {
		s := string(unhx(a[0]))
		var t time.Time
		err := json.Unmarshal([]byte(strconv.Quote(s)), &t)
		i := "err"
		if err == nil {
			_, off := t.Zone()
			i = fmt.Sprintf("ok:%d:%d:%d", t.Unix(), t.Nanosecond(), off)
		}
		return i, isoOracle(s), ""
	}
}

func isoImpl(s string) string {
	t, err := iso8601.Parse(s)
	if err != nil {
		return "err"
	}
	_, off := t.Zone()
	return fmt.Sprintf("ok:%d:%d:%d", t.Unix(), t.Nanosecond(), off)
}

func isoOracle(s string) string {
	t, err := time.Parse(time.RFC3339Nano, s)
	if err != nil {
		return "err"
	}
	_, off := t.Zone()
	return fmt.Sprintf("ok:%d:%d:%d", t.Unix(), t.Nanosecond(), off)
}

// the grammar of the property statement as regular expressions, one per flag subset (Go-side oracle, independent
// of both the implementation and the Lean grammar)
var validRE = map[int]*regexp.Regexp{}

func validOracle(s string, f int) bool {
	re, ok := validRE[f]
	if !ok {
		space, mtime, msub, mtz, numtz := f&2 != 0, f&4 != 0, f&8 != 0, f&16 != 0, f&32 != 0
		sep := "T"
		if space {
			sep = "[T ]"
		}
		frac := `\.[0-9]{1,9}`
		if msub {
			frac = `(?:\.[0-9]{1,9})?`
		}
		sp := ""
		if space {
			sp = " ?"
		}
		colon := ":"
		if numtz {
			colon = ":?"
		}
		zone := `(?:Z|` + sp + `[+-][0-9]{2}` + colon + `[0-9]{2})`
		if mtz {
			zone += "?"
		}
		rest := sep + `[0-9]{2}:[0-9]{2}:[0-9]{2}` + frac + zone
		if mtime {
			rest = "(?:" + rest + ")?"
		}
		re = regexp.MustCompile(`^[0-9]{4}-[0-9]{2}-[0-9]{2}` + rest + `$`)
		validRE[f] = re
	}
	// regexp works on UTF-8; arbitrary bytes are fine for a byte-wise ASCII grammar because every construct is ASCII
	return re.MatchString(s)
}

func testingAllocs(f func()) int {
	return int(allocsPerRun(5, f))
}

func daysIn(y, m int) int {
	switch m {
	case 4, 6, 9, 11:
		return 30
	case 2:
		if y%4 == 0 && (y%100 != 0 || y%400 == 0) {
			return 29
		}
		return 28
	}
	return 31
}

func runC18(h *H) {
	var calls int64
	check := func(s string, sample bool) {
		i, o := isoImpl(s), isoOracle(s)
		calls++
		if i != o {
			h.Fail("iso.parse", []string{hx([]byte(s))}, i, o)
		}
		if sample {
			h.Case("iso.parse", []string{hx([]byte(s))}, i, o)
		}
	}
	// (1) every calendar date of years 0000-9999 (quick: every date of 400 sampled years + all century/leap boundaries)
	for y := 0; y <= 9999; y++ {
		if !h.Thorough() && !(y%100 <= 1 || y%100 == 99 || y%400 == 0 || y < 5 || y > 9995 || h.Intn(25) == 0) {
			continue
		}
		for m := 1; m <= 12; m++ {
			for d := 1; d <= daysIn(y, m)+1; d++ { // +1: the first invalid day too
				s := fmt.Sprintf("%04d-%02d-%02dT12:34:56Z", y, m, d)
				check(s, h.U64()%997 == 0)
			}
		}
		check(fmt.Sprintf("%04d-00-10T00:00:00Z", y), false)
		check(fmt.Sprintf("%04d-13-10T00:00:00Z", y), false)
		check(fmt.Sprintf("%04d-02-00T00:00:00Z", y), false)
	}
	// (2) every second of a day (+ the first invalid hour/minute/second)
	for hh := 0; hh <= 24; hh++ {
		for mm := 0; mm <= 60; mm++ {
			for ss := 0; ss <= 60; ss++ {
				if !h.Thorough() && ss%7 != 0 && ss < 58 && mm%11 != 0 {
					continue
				}
				check(fmt.Sprintf("2023-06-15T%02d:%02d:%02d.5Z", hh, mm, ss), h.U64()%499 == 0)
			}
		}
	}
	// (3) every byte value at every position of templates of every length 20..31
	templates := []string{"2006-01-02T15:04:05Z"}
	for k := 1; k <= 11; k++ {
		templates = append(templates, "2006-01-02T15:04:05."+("1234567890123")[:k]+"Z")
	}
	templates = append(templates, "2006-01-02T15:04:05,123Z", "2006-01-02T1:04:05.123Z", "1999-12-31T23:59:59.999999999Z",
		"2006-01-02T15:04:05+07:00", "2006-01-02T15:04:05.123456789-07:00", "2006-01-02T15:04:05.1+00:00", "2006-01-02T15:04:05.12-23:59")
	for _, tpl := range templates {
		b := []byte(tpl)
		for pos := 0; pos < len(b); pos++ {
			save := b[pos]
			for v := 0; v < 256; v++ {
				b[pos] = byte(v)
				check(string(b), h.U64()%1499 == 0)
			}
			b[pos] = save
		}
		// deletions and insertions
		for pos := 0; pos <= len(b); pos++ {
			if pos < len(b) {
				check(string(b[:pos])+string(b[pos+1:]), h.U64()%97 == 0)
			}
			for _, ins := range []byte{'0', '9', '.', ',', 'Z', ':', '-', 'T', ' ', '+'} {
				check(string(b[:pos])+string(ins)+string(b[pos:]), h.U64()%197 == 0)
			}
		}
		h.Do("iso.parse", hx(b))
		h.Do("iso.jsontime", hx(b))
	}
	// (4) zones: every hour/minute combination incl. out of range, with and without fraction
	for zh := 0; zh <= 25; zh++ {
		for zm := 0; zm <= 61; zm += 1 {
			if !h.Thorough() && zm%13 != 0 && zm < 58 {
				continue
			}
			for _, sign := range []string{"+", "-"} {
				check(fmt.Sprintf("2010-10-10T10:10:10%s%02d:%02d", sign, zh, zm), h.U64()%97 == 0)
				check(fmt.Sprintf("2010-10-10T10:10:10.25%s%02d:%02d", sign, zh, zm), false)
			}
		}
	}
	// (5) random mutations of valid timestamps
	N := 30000
	if h.Thorough() {
		N = 600000
	}
	for i := 0; i < N; i++ {
		y, m := h.Intn(10000), 1+h.Intn(12)
		d := 1 + h.Intn(daysIn(y, m))
		s := fmt.Sprintf("%04d-%02d-%02dT%02d:%02d:%02d", y, m, d, h.Intn(24), h.Intn(60), h.Intn(60))
		if k := h.Intn(12); k > 0 {
			s += "." + fmt.Sprintf("%012d", h.U64()%1000000000000)[:k]
		}
		switch h.Intn(4) {
		case 0:
			s += fmt.Sprintf("%s%02d:%02d", []string{"+", "-"}[h.Intn(2)], h.Intn(24), h.Intn(60))
		default:
			s += "Z"
		}
		b := []byte(s)
		if h.Intn(2) == 0 {
			b = h.mutateASCII(b)
		}
		check(string(b), i%60 == 0)
		if i%500 == 0 {
			h.Do("iso.jsontime", hx(b))
		}
	}
	h.Count("parse_inprocess_calls", calls)

	// ---- Valid: all 32 flag subsets x grammar-directed strings with one-edit mutations ----
	var vcalls int64
	flagsets := []int{}
	for f := 0; f < 64; f += 2 {
		flagsets = append(flagsets, f)
	}
	gen := func() []byte {
		s := fmt.Sprintf("%04d-%02d-%02d", h.Intn(10000), h.Intn(100), h.Intn(100))
		if h.Intn(6) == 0 {
			return []byte(s)
		}
		s += []string{"T", "T", " ", "t"}[h.Intn(4)]
		s += fmt.Sprintf("%02d:%02d:%02d", h.Intn(100), h.Intn(100), h.Intn(100))
		if h.Intn(3) != 0 {
			k := []int{0, 1, 2, 3, 6, 8, 9, 9, 10, 11}[h.Intn(10)]
			s += "." + ("12345678901234")[:k]
		}
		switch h.Intn(8) {
		case 0:
		case 1, 2:
			s += "Z"
		case 3:
			s += " Z"
		case 4:
			s += fmt.Sprintf(" %s%02d:%02d", []string{"+", "-"}[h.Intn(2)], h.Intn(100), h.Intn(100))
		case 5:
			s += fmt.Sprintf("%s%02d%02d", []string{"+", "-"}[h.Intn(2)], h.Intn(100), h.Intn(100))
		case 6:
			s += fmt.Sprintf(" %s%02d%02d", []string{"+", "-"}[h.Intn(2)], h.Intn(100), h.Intn(100))
		default:
			s += fmt.Sprintf("%s%02d:%02d", []string{"+", "-"}[h.Intn(2)], h.Intn(100), h.Intn(100))
		}
		return []byte(s)
	}
	M := 6000
	if h.Thorough() {
		M = 120000
	}
	for i := 0; i < M; i++ {
		b := gen()
		if h.Intn(3) == 0 {
			b = h.mutateASCII(b)
		}
		for _, f := range flagsets {
			r := iso8601.Valid(string(b), iso8601.ValidFlags(f))
			o := validOracle(string(b), f)
			vcalls++
			if r != o {
				h.Fail("iso.valid", []string{hx(b), strconv.Itoa(f)}, b01(r), b01(o))
			}
		}
		if i%3 == 0 {
			h.Do("iso.valid", hx(b), strconv.Itoa(flagsets[h.Intn(len(flagsets))]))
		}
	}
	// every prefix of a long valid string under Flexible and Strict (never panics, consistent)
	full := []byte("2018-01-01 23:42:59.123456789 +07:00")
	for n := 0; n <= len(full); n++ {
		for _, f := range []int{0, 62, 2, 34} {
			h.Do("iso.valid", hx(full[:n]), strconv.Itoa(f))
		}
	}
	h.Count("valid_inprocess_calls", vcalls)
	h.Count("inprocess_calls", calls+vcalls)
}

func (h *H) mutateASCII(b []byte) []byte {
	b = append([]byte{}, b...)
	if len(b) == 0 {
		return b
	}
	alphabet := []byte("0123456789-:.,TZ +tz_/")
	switch h.Intn(5) {
	case 0:
		b[h.Intn(len(b))] = alphabet[h.Intn(len(alphabet))]
	case 1:
		i := h.Intn(len(b))
		b = append(b[:i], b[i+1:]...)
	case 2:
		i := h.Intn(len(b) + 1)
		b = append(b[:i], append([]byte{alphabet[h.Intn(len(alphabet))]}, b[i:]...)...)
	case 3:
		b[h.Intn(len(b))] = byte(h.U64())
	case 4:
		i, j := h.Intn(len(b)), h.Intn(len(b))
		b[i], b[j] = b[j], b[i]
	}
	return b
}
