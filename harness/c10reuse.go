package main

import (
	"bytes"
	"encoding/base64"
	stdjson "encoding/json"
	"fmt"
	"math"
	"os"
	"reflect"
	"sort"
	"strconv"
	"strings"
	"unicode/utf8"
	"unsafe"

	"github.com/segmentio/encoding/json"
)

// C10, reused destinations — json.retain (c10acc.go) decodes every document into a fresh target, so memory obtained from an
// EARLIER decode into the SAME target is never looked at again after a later decode. Here one target is decoded into two to seven
// times (the usual `var m T; for { dec.Decode(&m); keep(m.Payload) }` loop, two Unmarshal / Parse calls on one struct, a [][]byte
// whose slots survive in the capacity of the slice). After every decode the caller "copies out" what the property says it may
// keep: the header of every string, Number, RawMessage, []byte and map key reachable from the target (leaf pieces: the bytes next
// to a private copy), every map and pointer (deep pieces: next to a deep copy of what they reach) and the element slots of every
// slice (slot pieces; see reusePiece). At the end — after the later decodes, further calls of every kind on other objects and
// goroutines, and the overwriting of the input buffers — every piece is compared with its copy.
//
// Decoding into a target legitimately overwrites parts of the target itself (a slice's backing array receives the new elements,
// a map gains entries, a pointee is decoded into: `s := t.Items; Unmarshal(doc2, &t)` may change s[0] with encoding/json too).
// The oracle for each piece is therefore the SAME piece of the SAME sequence under encoding/json:
//
//	json.retain reuse.<method>.<family> <seed> <size 0..3>
//	   impl   = <vector of segmentio>;<v|e per step>;<ok | mismatch:<step> | input-modified[:<step>] | alias-input:<path> | pieces-differ>
//	   oracle = <vector of encoding/json>;<v|e per step>;ok
//
// One character per piece, in harvest order (run-length encoded: `0{12}` = twelve times `0`): `0` unchanged, `1` changed,
// `-` changed under encoding/json but not under segmentio (written in both vectors: segmentio is the stricter one). A
// RawMessage is the one leaf that encoding/json itself overwrites (RawMessage.UnmarshalJSON appends into the old capacity) while
// the property promises that it keeps its contents: there the oracle reads `-` whatever segmentio does, so that `1` on the left
// differs. A piece that reads `1` on the left and `0` or `-` on the right is memory the library handed out and kept writing to.
// The state of the target is compared with that under encoding/json after every step (mismatch:<step>); a sequence ends at the
// first step where either library reports an error (the documents are valid for the type: none does).
//
// Methods: unmarshal (Unmarshal per document), parse (Parse over the concatenated documents, following the remainder; flags 0,
// UseNumber, or zero-copy flags — then the leaves may lie in the input, which is not overwritten), decoder (one Decoder loop over
// the stream, behind a chunked reader), mixed (per step one of Unmarshal / Parse / a new Decoder).
// Families: flat (a []byte, [][]byte, [N][]byte, map[string][]byte, *[]byte, []string, RawMessage, Number, any … as the target
// itself, or the {ID, Payload, Name} struct), many (one wide struct with a field of every shape), nested (those inside structs,
// pointers, slices, arrays, maps, embedded structs), iface (interfaces holding pointers to those), ladder (the wide structs;
// every payload of document k has the k-th length of a ladder that goes down and up again: L, 3L/4, L/2, L, 1, 2L, L).
// Documents are directed by the type of the target, with the leaf generators of c10acc.go: base64 payloads (also with an escaped
// character, also the integer-array form), strings with and without escapes, non-ASCII and invalid UTF-8, lengths around one
// length per case (shorter, equal, one longer, twice as long), null, missing / repeated / unknown members, keys in another case
// or with an escape, fewer / more array elements, shared map keys.
//
// Everything derives from <seed> and <size>: a case replays exactly (VH_TRACE=1 prints the documents and the differing pieces,
// VH_TRACE=full the documents in full).

type reuseNamedBytes []byte
type reuseNamedString string

type reuseBytes struct {
	ID      int
	Payload []byte `json:"payload"`
	Name    string `json:"name,omitempty"`
}

type ReuseEmb struct {
	EB []byte
	ES string
}

type ReuseEmbP struct {
	QB []byte `json:"qb"`
	QS []string
}

type reuseMany struct {
	B   []byte
	NB  reuseNamedBytes
	BB  [][]byte
	A3  [3][]byte
	MB  map[string][]byte
	PB  *[]byte
	PPB **[]byte
	S   string
	NS  reuseNamedString
	PS  *string
	SS  []string
	A2S [2]string
	MS  map[string]string
	MSS map[string][]string
	R   json.RawMessage
	PR  *json.RawMessage
	RR  []json.RawMessage
	MR  map[string]json.RawMessage
	N   json.Number
	NN  []json.Number
	MN  map[string]json.Number
	I   any
	II  []any
	MI  map[string]any
	F   float64
	On  bool
}

type reuseDeep struct {
	X []reuseBytes
	Y map[string][]json.RawMessage
	Z [][]json.Number
}

type reuseNested struct {
	ReuseEmb
	*ReuseEmbP
	In  reuseBytes
	PIn *reuseBytes
	L   []reuseBytes
	PL  []*reuseBytes
	A2  [2]reuseBytes
	M   map[string]reuseBytes
	MP  map[string]*reuseBytes
	LL  [][]string
	LBB [][][]byte
	ML  map[string][][]byte
	LM  []map[string][]byte
	PLB *[][]byte
	LP  []*[]byte
	D   *reuseDeep
}

type reuseIface struct {
	IB   any
	IR   any
	IS   any
	IN   any
	ISS  any
	IBB  any
	IT   any
	IM   any
	IPB  any
	Free any
	LI   []any
}

var (
	reuseBytesT  = reflect.TypeOf([]byte(nil))
	reuseRawT    = reflect.TypeOf(json.RawMessage(nil))
	reuseNumberT = reflect.TypeOf(json.Number(""))
	reuseAnyT    = reflect.TypeOf((*any)(nil)).Elem()
	reuseIfaceT  = reflect.TypeOf(reuseIface{})
)

// reuseHeld: what the interface fields of reuseIface point to before the first decode.
var reuseHeld = map[string]reflect.Type{
	"IB": reuseBytesT, "IR": reuseRawT, "IS": reflect.TypeOf(""), "IN": reuseNumberT, "ISS": reflect.TypeOf([]string(nil)),
	"IBB": reflect.TypeOf([][]byte(nil)), "IT": reflect.TypeOf(reuseBytes{}), "IM": reflect.TypeOf(map[string][]byte(nil)),
	"IPB": reflect.TypeOf((*[]byte)(nil)),
}

// reuseSpec: the type of the target variable and the type that directs its documents (for an interface target: what the pointer
// it holds points to).
type reuseSpec struct{ t, doc reflect.Type }

func reuseSame(x any) reuseSpec {
	t := reflect.TypeOf(x).Elem()
	return reuseSpec{t, t}
}

var reuseFamilies = map[string][]reuseSpec{
	"flat": {reuseSame(new(reuseBytes)), reuseSame(new(reuseBytes)), reuseSame(new(reuseBytes)), reuseSame(new(reuseBytes)),
		reuseSame(new([]byte)), reuseSame(new(reuseNamedBytes)), reuseSame(new([][]byte)), reuseSame(new([3][]byte)),
		reuseSame(new(map[string][]byte)), reuseSame(new(*[]byte)), reuseSame(new([]string)), reuseSame(new(string)),
		reuseSame(new(*string)), reuseSame(new(json.RawMessage)), reuseSame(new([]json.RawMessage)), reuseSame(new(json.Number)),
		reuseSame(new([]json.Number)), reuseSame(new(any)), reuseSame(new([]any)), reuseSame(new(map[string]any)),
		reuseSame(new(map[string]string)), reuseSame(new(map[string]json.RawMessage)), reuseSame(new(map[string][]string)),
		reuseSame(new(map[string]json.Number)), reuseSame(new([]reuseBytes)), reuseSame(new([]*reuseBytes)),
		reuseSame(new(map[string]*reuseBytes)), reuseSame(new([2]reuseBytes)), reuseSame(new(*reuseBytes)), reuseSame(new([]reuseNamedBytes)),
		reuseSame(new(ReuseEmb)), reuseSame(new(struct{ P *[]byte }))},
	"many":   {reuseSame(new(reuseMany))},
	"nested": {reuseSame(new(reuseNested)), reuseSame(new(reuseNested)), reuseSame(new([]reuseNested)), reuseSame(new(map[string]*reuseMany))},
	"iface": {reuseSame(new(reuseIface)), reuseSame(new(reuseIface)), reuseSame(new(reuseIface)),
		{reuseAnyT, reuseBytesT}, {reuseAnyT, reuseRawT}, {reuseAnyT, reflect.TypeOf("")}, {reuseAnyT, reflect.TypeOf(reuseBytes{})},
		{reuseAnyT, reflect.TypeOf([][]byte(nil))}, {reuseAnyT, reflect.TypeOf(reuseMany{})}, {reuseAnyT, reflect.TypeOf([]string(nil))},
		{reuseAnyT, reflect.TypeOf(map[string][]byte(nil))}, {reuseAnyT, reuseIfaceT}},
	"ladder": {reuseSame(new(reuseMany)), reuseSame(new(reuseMany)), reuseSame(new(reuseBytes)), reuseSame(new(reuseNested))},
}

// reuseNew: a new target of the spec (interfaces hold their pointers).
func reuseNew(s reuseSpec) reflect.Value {
	p := reflect.New(s.t)
	if s.t.Kind() == reflect.Interface && s.doc != s.t {
		h := reflect.New(s.doc)
		reuseFill(h.Elem())
		p.Elem().Set(h)
	}
	reuseFill(p.Elem())
	return p
}

func reuseFill(v reflect.Value) {
	if v.Type() != reuseIfaceT {
		return
	}
	for name, et := range reuseHeld {
		v.FieldByName(name).Set(reflect.New(et))
	}
}

// ---- documents, directed by the type of the target ------------------------------------------------------------------------

type reuseGen struct {
	r      *H
	g      *accGen
	base   int      // the payload length of the case: the lengths of the leaves are drawn around it
	fixed  int      // ladder: when >= 0 every payload of the document has this length
	keys   []string // the object keys of the case (source text), so that documents share keys
	inv    bool     // invalid UTF-8 allowed in strings
	nonull int      // when not zero: no null here
	k      int      // the number of the document
}

func (rg *reuseGen) plen() int {
	if rg.fixed >= 0 {
		return rg.fixed
	}
	l := rg.base
	switch rg.r.Intn(12) {
	case 0:
		return 0
	case 1:
		return 1 + rg.r.Intn(3)
	case 2:
		return l / 2
	case 3:
		return l * 3 / 4
	case 4:
		if l > 0 {
			return l - 1
		}
	case 5, 6, 7:
		return l
	case 8:
		return l + 1
	case 9:
		return 2*l + 1
	}
	return rg.g.strLen()
}

func (rg *reuseGen) null(b *bytes.Buffer, one int) bool {
	if rg.fixed < 0 && rg.nonull == 0 && rg.r.Intn(one) == 0 {
		b.WriteString("null")
		return true
	}
	return false
}

func (rg *reuseGen) str(b *bytes.Buffer) {
	style := rg.r.Intn(3)
	if rg.inv && rg.r.Intn(6) == 0 {
		style = 3
	}
	rg.g.str(b, rg.plen(), style)
}

func (rg *reuseGen) bytesLit(b *bytes.Buffer) {
	r := rg.r
	n := rg.plen()
	k := r.Intn(16)
	if rg.fixed >= 0 && k == 0 {
		k = 2
	}
	if k == 0 {
		// Go 1.7- form: an array of integers
		b.WriteByte('[')
		salt := r.Intn(50)
		for i := 0; i < 2+n%24; i++ {
			if i > 0 {
				b.WriteByte(',')
			}
			b.WriteString(strconv.Itoa((61*rg.k + 7*i + salt) % 256)) // differs from what the other documents have in this slot
		}
		b.WriteByte(']')
		return
	}
	e := base64.StdEncoding.EncodeToString(r.Bytes(n))
	if k == 1 && len(e) > 0 {
		// one character written as an escape sequence
		i := r.Intn(len(e))
		esc := fmt.Sprintf(`\u%04x`, e[i])
		if e[i] == '/' {
			esc = `\/`
		}
		e = e[:i] + esc + e[i+1:]
	}
	b.WriteByte('"')
	b.WriteString(e)
	b.WriteByte('"')
}

func (rg *reuseGen) number(b *bytes.Buffer) {
	r := rg.r
	if rg.fixed < 0 && r.Intn(2) == 0 {
		rg.g.num(b)
		return
	}
	n := 1 + rg.plen()%60
	b.WriteByte(byte('1' + r.Intn(9)))
	for i := 1; i < n; i++ {
		b.WriteByte(byte('0' + r.Intn(10)))
	}
}

func (rg *reuseGen) free(b *bytes.Buffer, depth int) {
	if rg.fixed >= 0 || rg.r.Intn(3) == 0 {
		switch rg.r.Intn(4) {
		case 0:
			rg.number(b)
		case 1:
			b.WriteByte('[')
			rg.str(b)
			b.WriteByte(',')
			rg.number(b)
			b.WriteString(`,{"k":`)
			rg.str(b)
			b.WriteString("}]")
		default:
			rg.str(b)
		}
		return
	}
	if !rg.inv {
		// the free-form values of the grammar, without invalid UTF-8 and lone surrogates
		var t bytes.Buffer
		rg.g.value(&t, depth)
		if s := strings.ToLower(t.String()); !utf8.ValidString(s) || strings.Contains(s, `\ud8`) || strings.Contains(s, `\udc`) {
			rg.str(b)
			return
		}
		b.Write(t.Bytes())
		return
	}
	rg.g.value(b, depth)
}

type reuseField struct {
	key  string
	typ  reflect.Type
	held reflect.Type // interface field of reuseIface: the type its pointer points to
}

var reuseFieldCache = map[reflect.Type][]reuseField{}

func reuseFields(t reflect.Type) []reuseField {
	if fs, ok := reuseFieldCache[t]; ok {
		return fs
	}
	var fs []reuseField
	for i := 0; i < t.NumField(); i++ {
		f := t.Field(i)
		if f.Anonymous {
			et := f.Type
			if et.Kind() == reflect.Ptr {
				et = et.Elem()
			}
			fs = append(fs, reuseFields(et)...)
			continue
		}
		key := f.Name
		if tag := f.Tag.Get("json"); tag != "" {
			if n := strings.Split(tag, ",")[0]; n != "" {
				key = n
			}
		}
		rf := reuseField{key: key, typ: f.Type}
		if t == reuseIfaceT {
			rf.held = reuseHeld[f.Name]
		}
		fs = append(fs, rf)
	}
	reuseFieldCache[t] = fs
	return fs
}

func (rg *reuseGen) key(b *bytes.Buffer, k string) {
	r := rg.r
	switch r.Intn(16) {
	case 0:
		k = strings.ToLower(k)
	case 1:
		k = strings.ToUpper(k)
	case 2:
		b.WriteString(fmt.Sprintf(`"\u%04x%s"`, k[0], k[1:]))
		return
	}
	b.WriteByte('"')
	b.WriteString(k)
	b.WriteByte('"')
}

func (rg *reuseGen) val(b *bytes.Buffer, t reflect.Type, held reflect.Type, depth int) {
	r, g := rg.r, rg.g
	switch {
	case t == reuseRawT:
		if rg.fixed >= 0 {
			rg.str(b)
			return
		}
		rg.free(b, 2)
		return
	case t == reuseNumberT:
		if !rg.null(b, 12) {
			rg.number(b)
		}
		return
	}
	switch t.Kind() {
	case reflect.String:
		if !rg.null(b, 12) {
			rg.str(b)
		}
	case reflect.Bool:
		b.WriteString(r.Pick([]string{"true", "false"}))
	case reflect.Int:
		b.WriteString(strconv.Itoa(r.Intn(2000) - 1000))
	case reflect.Float64:
		b.WriteString(strconv.FormatFloat(float64(r.Intn(100000))/64, 'g', -1, 64))
	case reflect.Interface:
		if held != nil {
			if !rg.null(b, 10) {
				rg.val(b, held, nil, depth+1)
			}
			return
		}
		rg.free(b, 2)
	case reflect.Ptr:
		// (null onto an allocated pointer to a pointer clears the inner pointer only: pinned by the suite of the repo, known class
		// jsonNullNestedPointer of C02; kept out of these documents)
		if t.Elem().Kind() == reflect.Ptr {
			rg.nonull++
			rg.val(b, t.Elem().Elem(), nil, depth)
			rg.nonull--
		} else if !rg.null(b, 6) {
			rg.val(b, t.Elem(), nil, depth)
		}
	case reflect.Slice:
		if t.Elem().Kind() == reflect.Uint8 {
			if !rg.null(b, 10) {
				rg.bytesLit(b)
			}
			return
		}
		if rg.null(b, 10) {
			return
		}
		n := r.Intn(6)
		if g.size >= 1 && depth == 0 && r.Intn(3) == 0 {
			n = r.Intn(14)
		}
		if depth >= 2 && n > 3 {
			n = 3
		}
		b.WriteByte('[')
		g.ws(b)
		for i := 0; i < n; i++ {
			if i > 0 {
				b.WriteByte(',')
				g.ws(b)
			}
			rg.val(b, t.Elem(), nil, depth+1)
			g.ws(b)
		}
		b.WriteByte(']')
	case reflect.Array:
		n := t.Len() - 1 + r.Intn(3)
		if rg.fixed < 0 && r.Intn(8) == 0 {
			n = 0
		}
		b.WriteByte('[')
		for i := 0; i < n; i++ {
			if i > 0 {
				b.WriteByte(',')
				g.ws(b)
			}
			rg.val(b, t.Elem(), nil, depth+1)
		}
		g.ws(b)
		b.WriteByte(']')
	case reflect.Map:
		if rg.null(b, 10) {
			return
		}
		n := r.Intn(5)
		if depth >= 2 && n > 2 {
			n = 2
		}
		b.WriteByte('{')
		g.ws(b)
		for i := 0; i < n; i++ {
			if i > 0 {
				b.WriteByte(',')
				g.ws(b)
			}
			b.WriteString(rg.keys[r.Intn(len(rg.keys))])
			g.ws(b)
			b.WriteByte(':')
			g.ws(b)
			rg.val(b, t.Elem(), nil, depth+1)
			g.ws(b)
		}
		b.WriteByte('}')
	case reflect.Struct:
		if depth > 0 && rg.null(b, 14) {
			return
		}
		var fs []reuseField
		for _, f := range reuseFields(t) {
			if rg.fixed >= 0 || r.Intn(4) != 0 {
				fs = append(fs, f)
				if rg.fixed < 0 && r.Intn(12) == 0 {
					fs = append(fs, f) // the same member twice
				}
			}
		}
		for i := len(fs) - 1; i > 0; i-- {
			j := r.Intn(i + 1)
			fs[i], fs[j] = fs[j], fs[i]
		}
		b.WriteByte('{')
		g.ws(b)
		for i, f := range fs {
			if i > 0 {
				b.WriteByte(',')
				g.ws(b)
			}
			if r.Intn(10) == 0 {
				b.WriteString(`"unknown` + strconv.Itoa(r.Intn(3)) + `":`)
				rg.free(b, 3)
				b.WriteByte(',')
			}
			rg.key(b, f.key)
			g.ws(b)
			b.WriteByte(':')
			g.ws(b)
			rg.val(b, f.typ, f.held, depth+1)
			g.ws(b)
		}
		b.WriteByte('}')
	default:
		panic("reuse: no documents for " + t.String())
	}
}

func (rg *reuseGen) doc(t reflect.Type) []byte {
	var b bytes.Buffer
	rg.g.ws(&b)
	rg.val(&b, t, nil, 0)
	rg.g.ws(&b)
	return b.Bytes()
}

// ---- what the caller keeps ------------------------------------------------------------------------------------------------

// A piece is one of
//   - leaf: the bytes of a string / Number / RawMessage / []byte / map key, next to a private copy. Never to be written again;
//     the oracle is the same piece under encoding/json (which appends a RawMessage into the old capacity, and decodes the Go 1.7
//     integer-array form of a []byte in place).
//   - deep: a map or a pointer copied out of the target, next to a deep copy of what it reaches now. Decoding into the target
//     again may add entries / decode into the pointee; the oracle is the same piece under encoding/json.
//   - slots: the element slots of a slice copied out of the target (the raw memory of s[0:len]), next to a raw copy. The target
//     owns that backing array as long as one of its slices points into it: a decode into the target may then write the slots
//     (both libraries decode the new elements in place; WHICH decode does so depends on the capacities, where the growth policies
//     differ: 10, 20, 40 … here, append-like there). Once no slice of the target points into the array any more — and between
//     the decodes — the slots must not change: `1` when they did. The same rule gives the character of the oracle.
type reusePiece struct {
	path  string
	step  int
	kind  byte          // 'l'eaf, 'd'eep, 's'lots
	raw   bool          // leaf: a RawMessage
	mem   []byte        // leaf, slots: the memory …
	snap  []byte        // … and its private copy
	hdr   reflect.Value // deep: a copy of the map / pointer …
	deep  reflect.Value // … and a deep copy of what it reaches
	owned bool          // slots: a slice of the target pointed into the array when the latest decode began
	bad   bool          // slots: changed although not owned, or while nothing was being decoded
}

func (p *reusePiece) changed() bool {
	switch p.kind {
	case 'd':
		return !reuseEq(p.hdr, p.deep)
	case 's':
		return p.bad
	}
	return !bytes.Equal(p.mem, p.snap)
}

func reuseLeaf(out *[]reusePiece, path string, step int, p unsafe.Pointer, n int) {
	if n == 0 {
		return
	}
	m := unsafe.Slice((*byte)(p), n)
	*out = append(*out, reusePiece{path: path, step: step, kind: 'l', mem: m, snap: append([]byte{}, m...)})
}

func reuseKeepDeep(out *[]reusePiece, path string, step int, v reflect.Value) {
	h := reflect.New(v.Type()).Elem()
	h.Set(v)
	*out = append(*out, reusePiece{path: path, step: step, kind: 'd', hdr: h, deep: reuseCopy(v)})
}

// reuseHarvest takes the header of everything reachable from v, in an order that depends on the value only.
func reuseHarvest(v reflect.Value, path string, step int, out *[]reusePiece) {
	switch v.Kind() {
	case reflect.String:
		p, n := strRegion(v.String())
		reuseLeaf(out, path, step, p, n)
	case reflect.Slice:
		if v.IsNil() || v.Len() == 0 {
			return
		}
		if v.Type().Elem().Kind() == reflect.Uint8 {
			p, n := bytRegion(v.Bytes())
			reuseLeaf(out, path, step, p, n)
			(*out)[len(*out)-1].raw = v.Type() == reuseRawT
			return
		}
		m := unsafe.Slice((*byte)(v.UnsafePointer()), v.Len()*int(v.Type().Elem().Size()))
		*out = append(*out, reusePiece{path: path + "[:]", step: step, kind: 's', mem: m, snap: append([]byte{}, m...), owned: true})
		for i := 0; i < v.Len(); i++ {
			reuseHarvest(v.Index(i), path+"["+strconv.Itoa(i)+"]", step, out)
		}
	case reflect.Array:
		for i := 0; i < v.Len(); i++ {
			reuseHarvest(v.Index(i), path+"["+strconv.Itoa(i)+"]", step, out)
		}
	case reflect.Ptr:
		if v.IsNil() {
			return
		}
		reuseKeepDeep(out, path+"*", step, v)
		reuseHarvest(v.Elem(), "(*"+path+")", step, out)
	case reflect.Interface:
		if !v.IsNil() {
			reuseHarvest(v.Elem(), path+".("+v.Elem().Type().String()+")", step, out)
		}
	case reflect.Map:
		if v.IsNil() {
			return
		}
		reuseKeepDeep(out, path+"{}", step, v)
		keys := v.MapKeys()
		sort.Slice(keys, func(i, j int) bool { return keys[i].String() < keys[j].String() })
		for _, k := range keys {
			ks := strconv.Quote(k.String())
			if len(ks) > 20 {
				ks = ks[:20] + "…"
			}
			reuseHarvest(k, path+"{key "+ks+"}", step, out)
			reuseHarvest(v.MapIndex(k), path+"{"+ks+"}", step, out)
		}
	case reflect.Struct:
		for i := 0; i < v.NumField(); i++ {
			reuseHarvest(v.Field(i), path+"."+v.Type().Field(i).Name, step, out)
		}
	}
}

// reuseArrays: the backing arrays (over their whole capacity) of the slices reachable from v, []byte excepted; stale slots included.
func reuseArrays(v reflect.Value, out *[][2]uintptr) {
	switch v.Kind() {
	case reflect.Slice:
		if v.IsNil() || v.Type().Elem().Kind() == reflect.Uint8 {
			return
		}
		if lo, n := uintptr(v.UnsafePointer()), uintptr(v.Cap())*v.Type().Elem().Size(); n > 0 {
			*out = append(*out, [2]uintptr{lo, lo + n})
		}
		v = v.Slice(0, v.Cap()) // the slots beyond the length still hold what earlier decodes left there, and are decoded into again
		fallthrough
	case reflect.Array:
		switch v.Type().Elem().Kind() {
		case reflect.Slice, reflect.Array, reflect.Ptr, reflect.Interface, reflect.Map, reflect.Struct:
			for i := 0; i < v.Len(); i++ {
				reuseArrays(v.Index(i), out)
			}
		}
	case reflect.Ptr, reflect.Interface:
		if !v.IsNil() {
			reuseArrays(v.Elem(), out)
		}
	case reflect.Map:
		for it := v.MapRange(); it.Next(); {
			reuseArrays(it.Value(), out)
		}
	case reflect.Struct:
		for i := 0; i < v.NumField(); i++ {
			reuseArrays(v.Field(i), out)
		}
	}
}

// reuseSlots looks at the slot pieces: after a decode into tgt (decoded), or after calls that do not concern the target.
func reuseSlots(ps []reusePiece, tgt reflect.Value, decoded bool) {
	var arrays [][2]uintptr
	if decoded {
		reuseArrays(tgt, &arrays)
	}
	for i := range ps {
		p := &ps[i]
		if p.kind != 's' {
			continue
		}
		if !bytes.Equal(p.mem, p.snap) {
			if decoded && p.owned {
				copy(p.snap, p.mem)
			} else {
				p.bad = true
			}
		}
		if decoded {
			lo, hi := accSpan(p.mem)
			p.owned = false
			for _, a := range arrays {
				if lo < a[1] && a[0] < hi {
					p.owned = true
					break
				}
			}
		}
	}
}

// reuseEq is eqVal (floats by their bits, pointer identity plays no role, nil differs from empty) with a fast path for bytes.
func reuseEq(a, b reflect.Value) bool {
	if a.Type() != b.Type() {
		return false
	}
	switch a.Kind() {
	case reflect.String:
		return a.String() == b.String()
	case reflect.Bool:
		return a.Bool() == b.Bool()
	case reflect.Int, reflect.Int8, reflect.Int16, reflect.Int32, reflect.Int64:
		return a.Int() == b.Int()
	case reflect.Uint, reflect.Uint8, reflect.Uint16, reflect.Uint32, reflect.Uint64, reflect.Uintptr:
		return a.Uint() == b.Uint()
	case reflect.Float32, reflect.Float64:
		return math.Float64bits(a.Float()) == math.Float64bits(b.Float())
	case reflect.Ptr, reflect.Interface:
		if a.IsNil() || b.IsNil() {
			return a.IsNil() == b.IsNil()
		}
		return reuseEq(a.Elem(), b.Elem())
	case reflect.Slice:
		if a.IsNil() != b.IsNil() || a.Len() != b.Len() {
			return false
		}
		if a.Type().Elem().Kind() == reflect.Uint8 {
			return bytes.Equal(a.Bytes(), b.Bytes())
		}
		fallthrough
	case reflect.Array:
		for i := 0; i < a.Len(); i++ {
			if !reuseEq(a.Index(i), b.Index(i)) {
				return false
			}
		}
		return true
	case reflect.Map:
		if a.IsNil() != b.IsNil() || a.Len() != b.Len() {
			return false
		}
		for it := a.MapRange(); it.Next(); {
			bv := b.MapIndex(it.Key())
			if !bv.IsValid() || !reuseEq(it.Value(), bv) {
				return false
			}
		}
		return true
	case reflect.Struct:
		for i := 0; i < a.NumField(); i++ {
			if !reuseEq(a.Field(i), b.Field(i)) {
				return false
			}
		}
		return true
	}
	return eqVal(a, b)
}

// reuseCopy is deepCopy with a fast path for bytes (all fields of the types of this file are exported).
func reuseCopy(v reflect.Value) reflect.Value {
	out := reflect.New(v.Type()).Elem()
	switch v.Kind() {
	case reflect.Ptr:
		if !v.IsNil() {
			p := reflect.New(v.Type().Elem())
			p.Elem().Set(reuseCopy(v.Elem()))
			out.Set(p)
		}
	case reflect.Interface:
		if !v.IsNil() {
			out.Set(reuseCopy(v.Elem()))
		}
	case reflect.Slice:
		if !v.IsNil() {
			s := reflect.MakeSlice(v.Type(), v.Len(), v.Len())
			if v.Type().Elem().Kind() == reflect.Uint8 {
				reflect.Copy(s, v)
			} else {
				for i := 0; i < v.Len(); i++ {
					s.Index(i).Set(reuseCopy(v.Index(i)))
				}
			}
			out.Set(s)
		}
	case reflect.Array:
		for i := 0; i < v.Len(); i++ {
			out.Index(i).Set(reuseCopy(v.Index(i)))
		}
	case reflect.Map:
		if !v.IsNil() {
			m := reflect.MakeMapWithSize(v.Type(), v.Len())
			for it := v.MapRange(); it.Next(); {
				m.SetMapIndex(reuseCopy(it.Key()), reuseCopy(it.Value()))
			}
			out.Set(m)
		}
	case reflect.Struct:
		for i := 0; i < v.NumField(); i++ {
			out.Field(i).Set(reuseCopy(v.Field(i)))
		}
	case reflect.String:
		out.SetString(strings.Clone(v.String()))
	default:
		out.Set(v)
	}
	return out
}

func reuseRLE(v []byte) string {
	var sb strings.Builder
	for i := 0; i < len(v); {
		j := i
		for j < len(v) && v[j] == v[i] {
			j++
		}
		if j-i > 3 {
			sb.WriteByte(v[i])
			sb.WriteString("{" + strconv.Itoa(j-i) + "}")
		} else {
			sb.Write(v[i:j])
		}
		i = j
	}
	return sb.String()
}

// ---- the scenario ---------------------------------------------------------------------------------------------------------

var reuseMethods = map[string]bool{"unmarshal": true, "parse": true, "decoder": true, "mixed": true}

var reuseAPIs = func() (out []string) {
	for _, fam := range []string{"flat", "many", "nested", "iface", "ladder"} {
		for _, m := range []string{"unmarshal", "parse", "decoder", "mixed"} {
			out = append(out, "reuse."+m+"."+fam)
		}
	}
	return
}()

func init() {
	// the reuse scenarios run with the other retained-result scenarios: same op, same size classes (runC10acc)
	accAPIs = append(accAPIs, reuseAPIs...)
}

// reuseRetain executes json.retain for the reuse.* apis (hooked into the op where it does not know the api).
func reuseRetain(a []string) (string, string, string) {
	p := strings.Split(a[0], ".")
	if len(p) != 3 || p[0] != "reuse" || !reuseMethods[p[1]] || reuseFamilies[p[2]] == nil {
		return "no-such-api", "ok", ""
	}
	seed, _ := strconv.ParseUint(a[1], 10, 64)
	size := atoi(a[2])
	r := &H{rng: seed, Stats: map[string]int64{}}
	c := &accCtx{r: r, g: &accGen{r: r, size: size}, lg: &accLog{}, size: size, seed: seed}
	i, o := reuseScenario(c, p[1], p[2])
	return i, o, ""
}

func reuseScenario(c *accCtx, method, family string) (string, string) {
	r, lg := c.r, c.lg
	trace := os.Getenv("VH_TRACE") != ""
	specs := reuseFamilies[family]
	spec := specs[r.Intn(len(specs))]
	rg := &reuseGen{r: r, g: c.g, fixed: -1, inv: r.Intn(4) == 0}
	rg.base = 1 + c.g.strLen()
	if c.size == 3 && spec.doc.Kind() == reflect.Struct && spec.doc != reflect.TypeOf(reuseBytes{}) {
		rg.base = 1 + rg.base%2000 // many leaves: a few KiB each are enough
	}
	for i := 0; i < 5; i++ {
		var kb bytes.Buffer
		switch i {
		case 0:
			kb.WriteString(`"k"`)
		case 1:
			kb.WriteString(`"key\n1"`)
		default:
			c.g.str(&kb, 1+c.g.strLen()%40, r.Intn(3))
		}
		rg.keys = append(rg.keys, kb.String())
	}

	// the documents
	steps := 2 + r.Intn(2)
	if r.Intn(8) == 0 {
		steps = 4 + r.Intn(2)
	}
	var ladder []int
	if family == "ladder" {
		l := rg.base + 7
		ladder = []int{l, l * 3 / 4, l / 2, l, 1, 2 * l, l}
		if c.size >= 2 {
			ladder = ladder[:4+r.Intn(2)]
		}
		steps = len(ladder)
	}
	docs := make([][]byte, steps)
	for k := range docs {
		if ladder != nil {
			rg.fixed = ladder[k]
		}
		rg.k = k
		docs[k] = rg.doc(spec.doc)
	}
	var stream []byte
	for _, d := range docs {
		stream = append(append(stream, d...), r.Pick([]string{"\n", " ", "\r\n", "\n"})...)
	}

	// how each step decodes: U(nmarshal), P(arse), D(ecoder); UseNumber and zero-copy flags where the API has them
	var fl json.ParseFlags
	if method != "unmarshal" && r.Intn(2) == 0 {
		fl |= json.UseNumber
	}
	if method == "parse" && r.Intn(4) == 0 {
		fl |= copyFlags(1 + r.Intn(7))
	}
	zeroCopy := fl&json.ZeroCopy != 0
	how := make([]byte, steps)
	for k := range how {
		switch method {
		case "unmarshal":
			how[k] = 'U'
		case "parse":
			how[k] = 'P'
		case "decoder":
			how[k] = 'D'
		default:
			how[k] = "UPD"[r.Intn(3)]
		}
	}
	useNumber := func(k int) bool { return how[k] != 'U' && fl&json.UseNumber != 0 }

	seg, std := reuseNew(spec), reuseNew(spec)
	var rest []byte
	var segDec *json.Decoder
	var stdDec *stdjson.Decoder
	switch method {
	case "parse":
		rest = lg.lend(stream, r.Intn(3)*8)
		stdDec = stdjson.NewDecoder(bytes.NewReader(append([]byte{}, stream...)))
	case "decoder":
		rd := &accReader{src: lg.lend(stream, 0), lg: lg}
		if r.Intn(2) == 0 {
			rd.chunk = 1 + r.Intn(5000)
		}
		segDec = json.NewDecoder(rd)
		stdDec = stdjson.NewDecoder(bytes.NewReader(append([]byte{}, stream...)))
	}
	if stdDec != nil && fl&json.UseNumber != 0 {
		stdDec.UseNumber()
		if segDec != nil {
			segDec.UseNumber()
		}
	}
	segStep := func(k int) (err error) {
		switch {
		case method == "parse":
			rest, err = json.Parse(rest, seg.Interface(), fl)
		case method == "decoder":
			err = segDec.Decode(seg.Interface())
		case how[k] == 'U':
			err = json.Unmarshal(lg.lend(docs[k], r.Intn(3)*8), seg.Interface())
		case how[k] == 'P':
			_, err = json.Parse(lg.lend(docs[k], r.Intn(3)*8), seg.Interface(), fl)
		default:
			d := json.NewDecoder(&accReader{src: lg.lend(docs[k], 0), lg: lg})
			if useNumber(k) {
				d.UseNumber()
			}
			err = d.Decode(seg.Interface())
		}
		return
	}
	stdStep := func(k int) error {
		switch {
		case stdDec != nil:
			return stdDec.Decode(std.Interface())
		case how[k] == 'U':
			return stdjson.Unmarshal(append([]byte{}, docs[k]...), std.Interface())
		}
		d := stdjson.NewDecoder(bytes.NewReader(append([]byte{}, docs[k]...)))
		if useNumber(k) {
			d.UseNumber()
		}
		return d.Decode(std.Interface())
	}

	if trace {
		fmt.Fprintf(os.Stderr, "TARGET %s (documents of %s) steps %s flags %#x\n", spec.t, spec.doc, how, uint(fl))
	}
	var segP, stdP []reusePiece
	status := ""
	var errI, errO []byte
	for k := 0; k < steps && status == ""; k++ {
		if trace {
			d := docs[k]
			if len(d) > 600 && os.Getenv("VH_TRACE") != "full" {
				d = append(append([]byte{}, d[:600]...), "…"...)
			}
			fmt.Fprintf(os.Stderr, "DOC %d %q\n", k+1, d)
		}
		e1, e2 := segStep(k), stdStep(k)
		errI, errO = append(errI, "ve"[btoi(e1 != nil)]), append(errO, "ve"[btoi(e2 != nil)])
		if trace && (e1 != nil || e2 != nil) {
			fmt.Fprintf(os.Stderr, "ERR %d segmentio: %v; encoding/json: %v\n", k+1, e1, e2)
		}
		lg.next()
		lg.checkLent("step")
		if lg.bad != "" {
			status = "input-modified:" + strconv.Itoa(k+1)
			break
		}
		reuseSlots(segP, seg.Elem(), true)
		reuseSlots(stdP, std.Elem(), true)
		if e1 != nil || e2 != nil {
			break // after an error the state of the target is not specified any further
		}
		if !reuseEq(seg.Elem(), std.Elem()) {
			status = "mismatch:" + strconv.Itoa(k+1)
			if trace {
				fmt.Fprintf(os.Stderr, "MISMATCH %d at %s\n", k+1, reuseDiff(seg.Elem(), std.Elem(), "t"))
			}
			break
		}
		reuseHarvest(seg.Elem(), "t", k+1, &segP)
		reuseHarvest(std.Elem(), "t", k+1, &stdP)
		if k+1 < steps && r.Intn(4) == 0 {
			c.further(false)
			reuseSlots(segP, seg.Elem(), false)
			reuseSlots(stdP, std.Elem(), false)
		}
	}

	// nothing that was decoded without zero-copy flags lies in an input buffer (or in the buffer of the Decoder)
	if status == "" && len(segP) != len(stdP) {
		status = "pieces-differ"
	}
	if status == "" && !zeroCopy {
		for _, p := range segP {
			for _, l := range lg.lent {
				if p.kind == 'l' && accOverlap(p.mem, l.buf[:cap(l.buf)]) && status == "" {
					status = "alias-input:" + p.path
				}
			}
		}
	}
	// later calls of every kind; then the inputs are overwritten
	switch r.Intn(8) {
	case 0:
		c.further(true)
	case 1, 2:
		c.further(false)
	default:
		reuseLater(r)
	}
	lg.checkLent("later-calls")
	if lg.bad != "" && status == "" {
		status = "input-modified"
	}
	n := len(segP)
	if len(stdP) < n {
		n = len(stdP)
	}
	chI, chO := make([]bool, n), make([]bool, n)
	look := func() {
		reuseSlots(segP, seg.Elem(), false)
		reuseSlots(stdP, std.Elem(), false)
		for i := 0; i < n; i++ {
			chI[i] = chI[i] || segP[i].changed()
			chO[i] = chO[i] || stdP[i].changed()
		}
	}
	look()
	if !zeroCopy {
		lg.overwrite()
		look()
	}
	vi, vo := make([]byte, n), make([]byte, n)
	for i := 0; i < n; i++ {
		vi[i], vo[i] = "01"[btoi(chI[i])], "01"[btoi(chO[i])]
		if chO[i] && (!chI[i] || segP[i].raw) {
			vo[i] = '-' // encoding/json changes it, segmentio need not (any piece) or must not (RawMessage: the property says so)
			if !chI[i] {
				vi[i] = '-'
			}
		}
		if trace && vi[i] != vo[i] {
			fmt.Fprintf(os.Stderr, "PIECE %d %s (kept after step %d): changed under segmentio %v, under encoding/json %v\n", i, segP[i].path, segP[i].step, chI[i], chO[i])
			if segP[i].kind == 'l' && chI[i] {
				a, b := segP[i].snap, segP[i].mem
				if len(a) > 48 {
					a, b = a[:48], b[:48]
				}
				fmt.Fprintf(os.Stderr, "   was %q\n   is  %q\n", a, b)
			}
		}
	}
	if status == "" {
		status = "ok"
	}
	return reuseRLE(vi) + ";" + string(errI) + ";" + status, reuseRLE(vo) + ";" + string(errO) + ";ok"
}

// reuseLater: a few cheap calls on other objects that go through the pooled buffers of the library.
func reuseLater(r *H) {
	x := map[string]any{"payload": r.Bytes(40 + r.Intn(200)), "name": strings.Repeat("n\n", 1+r.Intn(60)), "l": []any{1.5, "s", nil}}
	b, _ := json.Marshal(x)
	var y struct {
		Payload []byte
		Name    string
		L       []json.RawMessage
	}
	json.Unmarshal(b, &y)
	var z any
	json.NewDecoder(bytes.NewReader(b)).Decode(&z)
	var sb bytes.Buffer
	json.NewEncoder(&sb).Encode(y)
	json.Parse(sb.Bytes(), &y, json.ZeroCopy)
}

// reuseDiff: where two values differ first (for the trace).
func reuseDiff(a, b reflect.Value, path string) string {
	show := func(v reflect.Value) string {
		s := fmt.Sprintf("%#v", v.Interface())
		if len(s) > 200 {
			s = s[:200] + "…"
		}
		return s
	}
	if reuseEq(a, b) {
		return ""
	}
	switch a.Kind() {
	case reflect.Struct:
		for i := 0; i < a.NumField(); i++ {
			if d := reuseDiff(a.Field(i), b.Field(i), path+"."+a.Type().Field(i).Name); d != "" {
				return d
			}
		}
	case reflect.Ptr, reflect.Interface:
		if !a.IsNil() && !b.IsNil() && a.Elem().Type() == b.Elem().Type() {
			return reuseDiff(a.Elem(), b.Elem(), "(*"+path+")")
		}
	case reflect.Slice, reflect.Array:
		if a.Len() == b.Len() && (a.Kind() == reflect.Array || a.IsNil() == b.IsNil()) {
			for i := 0; i < a.Len(); i++ {
				if d := reuseDiff(a.Index(i), b.Index(i), path+"["+strconv.Itoa(i)+"]"); d != "" {
					return d
				}
			}
		}
	case reflect.Map:
		if a.Len() == b.Len() && a.IsNil() == b.IsNil() {
			for _, k := range a.MapKeys() {
				if bv := b.MapIndex(k); bv.IsValid() {
					if d := reuseDiff(a.MapIndex(k), bv, path+"{"+fmt.Sprint(k.Interface())+"}"); d != "" {
						return d
					}
				}
			}
		}
	}
	return path + ": segmentio " + show(a) + "; encoding/json " + show(b)
}

func btoi(b bool) int {
	if b {
		return 1
	}
	return 0
}
