package main

import (
	"bytes"
	stdjson "encoding/json"
	"reflect"
	"strconv"
	"strings"

	"github.com/segmentio/encoding/json"
)

// C14 / C01 / C05 (raw JSON re-emitted by the encoder): RawMessage values and the output of MarshalJSON methods are
// validated, compacted and HTML-escaped exactly like encoding/json's compact(dst, src, escape) does.
// Lean side: Driver/JsonRaw.lean `json.rawemit` (model Model/Json/RawEmit.lean, specification Spec/Json/Compact.lean);
// theorems: Props.C14Raw.

type rawMJ struct{ b []byte }

func (m rawMJ) MarshalJSON() ([]byte, error) { return m.b, nil }

type rawMJPtr struct{ b []byte }

func (m *rawMJPtr) MarshalJSON() ([]byte, error) { return m.b, nil }

// rawemitValue builds the Go value handed to Append / Marshal.
func rawemitValue(kind, pos string, b []byte, isNil bool) (any, bool) {
	var x any
	switch kind {
	case "raw":
		r := json.RawMessage(append([]byte{}, b...))
		if isNil {
			r = nil
		}
		switch pos {
		case "top":
			return r, true
		case "field":
			return struct {
				A json.RawMessage `json:"a"`
			}{r}, true
		case "map":
			return map[string]json.RawMessage{"k": r}, true
		case "slice":
			return []json.RawMessage{r}, true
		case "iface":
			return []any{r}, true
		}
		return nil, false
	case "mj":
		v := rawMJ{append([]byte{}, b...)}
		if isNil {
			v.b = nil
		}
		switch pos {
		case "top":
			return v, true
		case "field":
			return struct {
				A rawMJ `json:"a"`
			}{v}, true
		case "map":
			return map[string]rawMJ{"k": v}, true
		case "slice":
			return []rawMJ{v}, true
		case "iface":
			return []any{v}, true
		}
		return nil, false
	case "mjptr":
		v := &rawMJPtr{append([]byte{}, b...)}
		if isNil {
			v = nil
		}
		switch pos {
		case "top":
			return v, true
		case "field":
			return struct {
				A *rawMJPtr `json:"a"`
			}{v}, true
		case "map":
			return map[string]*rawMJPtr{"k": v}, true
		case "slice":
			return []*rawMJPtr{v}, true
		case "iface":
			return []any{v}, true
		}
		return nil, false
	}
	return x, false
}

func init() {
	// json.rawemit <flags 0..7> <kind>.<pos> <hex | nil>
	//   I = ok:<hex of Append's output> | err   (with `;trusted-differs` when TrustRawMessage is set, the raw message is
	//       valid JSON, and the output is not valid JSON meaning what the default flags' output means;
	//       `;flags-change-error` when the error status differs from that of the default flags on a flag subset
	//       that must not change it)
	//   O = encoding/json: Marshal (EscapeHTML on) / Encoder.SetEscapeHTML(false) (off); "-" for RawMessage values under
	//       TrustRawMessage (no equivalent)
	ops["json.rawemit"] = func(a []string) (string, string, string) {
		m, _ := strconv.Atoi(a[0])
		kp := strings.SplitN(a[1], ".", 2)
		kind, pos := kp[0], kp[1]
		isNil := a[2] == "nil"
		var b []byte
		if !isNil {
			b = unhx(a[2])
		}
		x, ok := rawemitValue(kind, pos, b, isNil)
		if !ok {
			return "bad-mode", "-", ""
		}
		var fl json.AppendFlags
		if m&1 != 0 {
			fl |= json.EscapeHTML
		}
		if m&2 != 0 {
			fl |= json.SortMapKeys
		}
		if m&4 != 0 {
			fl |= json.TrustRawMessage
		}
		out, err := json.Append(nil, x, fl)
		i := "err"
		if err == nil {
			i = "ok:" + hx(out)
		}
		trusted := kind == "raw" && m&4 != 0
		o := "-"
		if !trusted {
			x2, _ := rawemitValue(kind, pos, b, isNil)
			var so []byte
			var serr error
			if m&1 != 0 {
				so, serr = stdjson.Marshal(x2)
			} else {
				var ob bytes.Buffer
				en := stdjson.NewEncoder(&ob)
				en.SetEscapeHTML(false)
				serr = en.Encode(x2)
				so = bytes.TrimSuffix(ob.Bytes(), []byte("\n"))
			}
			if serr != nil {
				o = "err"
			} else {
				o = "ok:" + hx(so)
			}
		}
		// against the default flags
		x3, _ := rawemitValue(kind, pos, b, isNil)
		def, derr := json.Append(nil, x3, json.EscapeHTML|json.SortMapKeys)
		contract := !trusted || isNil || stdjson.Valid(b)
		if contract {
			if (err != nil) != (derr != nil) {
				i += ";flags-change-error"
			} else if err == nil {
				g1, ok1 := generic(out)
				g2, ok2 := generic(def)
				if !ok1 || !ok2 || !stdjson.Valid(out) || !reflect.DeepEqual(g1, g2) {
					i += ";trusted-differs"
				}
			}
		}
		return i, o, ""
	}
}

// ---- generators ----

var rawWS = []string{" ", "\n", "\r", "\t"}

func (h *H) rawWs() string {
	switch h.Intn(5) {
	case 0, 1, 2:
		return ""
	case 3:
		return h.Pick(rawWS)
	}
	n := 1 + h.Intn(3)
	s := ""
	for i := 0; i < n; i++ {
		s += h.Pick(rawWS)
	}
	return s
}

// rawString: a valid JSON string literal exercising every escape form, backslash runs before the closing quote,
// HTML characters and the bytes of U+2028 / U+2029 (whole, split, truncated).
func (h *H) rawString() string {
	frags := []string{
		`\"`, `\\`, `\/`, `\b`, `\f`, `\n`, `\r`, `\t`, `A`, `<`, `<`, ` `, ` `, `😀`, `\ud800`, `\udc00x`, `\u0000`,
		"<", ">", "&", "<script>", "&amp;", "</", "\xe2\x80\xa8", "\xe2\x80\xa9", "\xe2\x80\x41", "\xe2\x80", "\xe2", "\x80\xa8", "\xe2\x80\xa7", "\xe2\x80\xaa",
		"\xe2\x41\xa8", "\xe2\xe2\x80\xa8", "\xe2\x80\xe2\x80\xa9", "\xe2\x80\xa8\xe2\x80\xa9", "\xe2\x80\\\"", "\xe2\\u0080\xa8", "\xe2\x80\\\\\xa8",
		"a", "dir", " ", "  ", "\x7f", "\xff", "\xc3\xa9", "\xf0\x9f\x98\x80", "[", "]", "{", "}", ",", ":", "0", "null", "/",
	}
	var sb strings.Builder
	sb.WriteByte('"')
	n := h.Intn(6)
	for i := 0; i < n; i++ {
		sb.WriteString(h.Pick(frags))
	}
	// backslash run before the closing quote
	switch h.Intn(4) {
	case 0: // even run of length 2..10: k escaped backslashes
		k := 1 + h.Intn(5)
		sb.WriteString(strings.Repeat(`\\`, k))
	case 1: // odd run of length 1..5 in front of an escaped quote, then the real closing quote
		k := h.Intn(3)
		sb.WriteString(strings.Repeat(`\\`, k))
		sb.WriteString(`\"`)
	}
	sb.WriteByte('"')
	return sb.String()
}

func (h *H) rawNumber() string {
	return h.Pick([]string{"0", "-0", "1", "-1", "12", "1.5", "-0.25", "1e2", "1E+2", "2e-3", "0.0", "10", "123456789012345678901234567890", "1e999", "0e0"})
}

func (h *H) rawDoc(depth int) string {
	k := h.Intn(10)
	if depth <= 0 && k >= 6 {
		k = h.Intn(6)
	}
	switch k {
	case 0:
		return h.Pick([]string{"null", "true", "false"})
	case 1, 2:
		return h.rawNumber()
	case 3, 4, 5:
		return h.rawString()
	case 6, 7:
		n := h.Intn(4)
		s := "[" + h.rawWs()
		for i := 0; i < n; i++ {
			if i > 0 {
				s += "," + h.rawWs()
			}
			s += h.rawDoc(depth-1) + h.rawWs()
		}
		return s + "]"
	default:
		n := h.Intn(4)
		s := "{" + h.rawWs()
		for i := 0; i < n; i++ {
			if i > 0 {
				s += "," + h.rawWs()
			}
			s += h.rawString() + h.rawWs() + ":" + h.rawWs() + h.rawDoc(depth-1) + h.rawWs()
		}
		return s + "}"
	}
}

var rawKinds = []string{"raw", "mj", "mjptr"}
var rawPoss = []string{"top", "field", "map", "slice", "iface"}

func (h *H) rawMode() string { return h.Pick(rawKinds) + "." + h.Pick(rawPoss) }

// all 8 flag subsets, one mode per subset
func (h *H) rawAllFlags(doc []byte) {
	for m := 0; m < 8; m++ {
		h.Do("json.rawemit", strconv.Itoa(m), h.rawMode(), hx(doc))
	}
}

// a few flag subsets (always including a trusted and an untrusted one)
func (h *H) rawSomeFlags(doc []byte, n int) {
	for k := 0; k < n; k++ {
		h.Do("json.rawemit", strconv.Itoa(h.Intn(8)), h.rawMode(), hx(doc))
	}
}

func rawMutate(h *H, d []byte) []byte {
	sp := []byte{'"', '\\', '<', '>', '&', 0xe2, 0x80, 0xa8, 0xa9, ' ', '\n', '\t', '\r', ',', ':', ']', '[', '{', '}', '0', '1', 'e', '.', '-', 'n', 'u', 'x', 0x00, 0x1f, 0x7f, 0xff}
	out := append([]byte{}, d...)
	p := 0
	if len(out) > 0 {
		p = h.Intn(len(out) + 1)
	}
	c := sp[h.Intn(len(sp))]
	switch h.Intn(3) {
	case 0: // insert
		out = append(out[:p], append([]byte{c}, out[p:]...)...)
	case 1: // delete
		if p < len(out) {
			out = append(out[:p], out[p+1:]...)
		}
	default: // replace
		if p < len(out) {
			out[p] = c
		}
	}
	return out
}

func genRawEmit(h *H) {
	// directed documents, every flag subset × every kind (position rotating)
	directed := []string{
		`"dir\\"`, `"dir\\\\"`, `"\\"`, `"\\\\"`, `"\\\""`, `"a\"b"`, `"\""`, `"\"\\"`, `["dir\\", "x" ]`, `{"k\\" : "v\\" , "<" : "\\<" }`,
		`"<>&"`, "\"\xe2\x80\xa8\"", "\"\xe2\x80\xa9\"", "\"\xe2\x80\x41\"", "\"\xe2\x80\"", "\"\xe2\"", "\"\\\xe2\x80\xa8\"", "\"\\\\\xe2\x80\xa8\"",
		"\"\xe2\x80\xa8\xe2\x80\xa9<\"", "\"x\xe2\x80\xaa\"", "\"\xe2\x80\xa7\"", `"< "`, ` "a" `, "\t\r\n [ 1 , 2 ]\n", `null`, ` null `, `nul`, `nulll`, `true`, `false`,
		``, ` `, "\n", `0`, `-0`, `01`, `1 2`, `1,`, `[1,]`, `[`, `]`, `{`, `{"a"}`, `{"a":}`, `{"a":1,}`, `"`, `"\`, `"\"`, `"abc`, `"\x"`, `"\u12"`, `"\u12g4"`, "\"\x01\"", "\"\t\"",
		`[]`, `{}`, `[ ]`, `{ }`, `[[],{}]`, `{"a":{"b":[1,{"c":null}]}}`, `{"a" :1 , "a": 2}`, `1e999`, `-`, `1.`, `1e`, `.5`, `+1`, `1.0e+5`,
		"<", "[<]", "\xe2\x80\xa8", "[\xe2\x80\xa8]", "1 \xe2\x80\xa8", "\xe2\x80\xa8 1", "1<", "<1", "[1]&", `"a"x`, `"a" "b"`, `{} []`, `[1] ,`, "\x00", "1\x00", "\"a\"\x00",
		"\xef\xbb\xbf1", "\"\xff\"", "\"\xed\xa0\x80\"", `"\ud800"`, `"😀"`, `  "  <  "  `, "[\"\xe2\", \"\x80\xa8\"]", "[\"a\\\\\",\"<\"]", "[\"a\\\",\"<\"]",
	}
	for i, d := range directed {
		for m := 0; m < 8; m++ {
			h.Do("json.rawemit", strconv.Itoa(m), rawKinds[(i+m)%3]+"."+rawPoss[(i+m/3)%len(rawPoss)], hx([]byte(d)))
		}
	}
	for m := 0; m < 8; m++ {
		for _, k := range rawKinds {
			for _, p := range rawPoss {
				h.Do("json.rawemit", strconv.Itoa(m), k+"."+p, "nil")
				h.Do("json.rawemit", strconv.Itoa(m), k+"."+p, hx([]byte(`{"a<":[1, "\\"]}`)))
			}
		}
	}
	// truncations at every offset of small documents
	small := []string{`{"a\\":[1,"b\"<",null] }`, " [\"\xe2\x80\xa8\", -1.5e+3 ,true]\n", `"<\\\""`, `{"k":{"k":[[],{}]}}`}
	for _, d := range small {
		for n := 0; n <= len(d); n++ {
			h.rawSomeFlags([]byte(d[:n]), 2)
			if n > 0 {
				h.rawSomeFlags([]byte(d[len(d)-n:]), 1)
			}
		}
	}
	N := 110
	if h.Thorough() {
		N = 3600
	}
	garbage := []string{"x", ",", "]", "}", "1", "\"\"", "<", "&", "\xe2\x80\xa8", "\x00", "null", "[", "{", ":", "\\", "\"", "/", "\xff", "\x0b", "\x0c", "\xc2\xa0"}
	for i := 0; i < N; i++ {
		d := []byte(h.rawDoc(1 + h.Intn(3)))
		// valid, with white space of all four kinds around
		h.rawAllFlags([]byte(h.rawWs() + string(d) + h.rawWs()))
		// one-edit mutations (mostly invalid)
		for k := 0; k < 3; k++ {
			h.rawSomeFlags(rawMutate(h, d), 2)
		}
		// leading / trailing garbage
		g := h.Pick(garbage)
		if h.Bool() {
			h.rawSomeFlags([]byte(g+h.rawWs()+string(d)), 2)
		} else {
			h.rawSomeFlags([]byte(string(d)+h.rawWs()+g), 2)
		}
	}
	// nesting at the limit (10000 accepted, 10001 rejected)
	if h.Thorough() {
		for _, n := range []int{10000, 10001} {
			d := []byte(strings.Repeat("[ ", n) + "\"<\"" + strings.Repeat("]", n))
			for _, m := range []int{0, 1, 5} {
				// top level only: a wrapper would add an 10001st level, which no decoder accepts
				h.Do("json.rawemit", strconv.Itoa(m), h.Pick(rawKinds)+".top", hx(d))
			}
		}
	}
}
