package main

import (
	"bytes"
	stdjson "encoding/json"
	"io"
	"math"
	"reflect"
	"sort"
	"strconv"
	"strings"

	"github.com/segmentio/encoding/json"
)

// C01 / C14, typed-value layer (Lean: Model/Json/EncTyped.lean, Spec/Json/EncTypedSpec.lean, Driver/JsonEncTyped.lean):
//
//	json.enctyped <type> <html 0|1> <sort 0|1> <hex doc>
//	json.rttyped  <type> <flags 0|1: UseNumber> <hex doc>
//
// Type descriptors and renderings are those of c02typed.go. The document only COMMUNICATES the typed value: it is decoded with
// encoding/json into a fresh target (initial content of the descriptor: `N`, `Q`) to obtain `v`; the Lean driver obtains the
// same value with its specification of that decoder.
//
// enctyped: I = hex of json.Append(nil, v, flags) (html = sort = 1: json.Marshal must agree), O = hex of what an
// encoding/json Encoder with SetEscapeHTML(html) writes, `E` for an error. With sort = 0 the map iteration order is random:
// both columns are canonicalised (members of every object sorted by their text), i.e. compared as member multisets.
//
// rttyped: I = rendering of v `>` rendering of a fresh zero target after Unmarshal(Marshal(v)) with the package
// (Parse with UseNumber when flags = 1), O = the same with encoding/json.

func init() {
	ops["json.enctyped"] = opEncTyped
	ops["json.rttyped"] = opRtTyped
}

// ---- member-multiset canonicalisation of a compact JSON text ----------------------------------------

func etStrEnd(b []byte, i int) int { // b[i] == '"': index after the closing quote
	i++
	for i < len(b) {
		if b[i] == '\\' {
			i += 2
			continue
		}
		if b[i] == '"' {
			return i + 1
		}
		i++
	}
	return len(b)
}

func etCanonVal(b []byte, i int) (string, int) {
	if i >= len(b) {
		return "?", i
	}
	switch b[i] {
	case '[':
		i++
		var el []string
		if i < len(b) && b[i] == ']' {
			return "[]", i + 1
		}
		for {
			var s string
			s, i = etCanonVal(b, i)
			el = append(el, s)
			if i < len(b) && b[i] == ',' {
				i++
				continue
			}
			break
		}
		return "[" + strings.Join(el, ",") + "]", i + 1
	case '{':
		i++
		var ms []string
		if i < len(b) && b[i] == '}' {
			return "{}", i + 1
		}
		for {
			j := etStrEnd(b, i)
			k := string(b[i:j])
			var s string
			s, i = etCanonVal(b, j+1)
			ms = append(ms, k+":"+s)
			if i < len(b) && b[i] == ',' {
				i++
				continue
			}
			break
		}
		sort.Strings(ms)
		return "{" + strings.Join(ms, ",") + "}", i + 1
	case '"':
		j := etStrEnd(b, i)
		return string(b[i:j]), j
	}
	j := i
	for j < len(b) && b[j] != ',' && b[j] != ']' && b[j] != '}' {
		j++
	}
	return string(b[i:j]), j
}

func etCanon(b []byte) []byte {
	s, i := etCanonVal(b, 0)
	if i != len(b) {
		return append([]byte("?"), b...)
	}
	return []byte(s)
}

// ---- the value -----------------------------------------------------------------------------------

// etValue decodes doc with encoding/json into a fresh target of the described type
func etValue(d *tdesc, doc []byte, useNumber bool) (reflect.Value, map[tdPtrKey]bool, bool) {
	x := reflect.New(d.typ)
	tdInit(d, x.Elem())
	set := map[tdPtrKey]bool{}
	tdCollect(x.Elem(), set)
	if useNumber {
		dec := stdjson.NewDecoder(bytes.NewReader(doc))
		dec.UseNumber()
		if err := dec.Decode(x.Interface()); err != nil {
			return x, set, false
		}
		var extra any
		if err := dec.Decode(&extra); err != io.EOF {
			return x, set, false
		}
	} else if err := stdjson.Unmarshal(doc, x.Interface()); err != nil {
		return x, set, false
	}
	return x, set, true
}

func etStdEncode(v any, html bool) ([]byte, error) {
	var buf bytes.Buffer
	enc := stdjson.NewEncoder(&buf)
	enc.SetEscapeHTML(html)
	if err := enc.Encode(v); err != nil {
		return nil, err
	}
	return bytes.TrimSuffix(buf.Bytes(), []byte("\n")), nil
}

func opEncTyped(a []string) (string, string, string) {
	ty := a[0]
	html := a[1] == "1"
	srt := a[2] == "1"
	doc := unhx(a[3])
	i := 0
	d := parseTDesc(ty, &i)
	if i != len(ty) {
		panic("trailing characters in type descriptor " + ty)
	}
	x, _, ok := etValue(d, doc, false)
	if !ok {
		return "baddoc", "-", ""
	}
	v := x.Elem().Interface()
	post := func(b []byte) string {
		if !srt {
			b = etCanon(b)
		}
		return hx(b)
	}
	var fl json.AppendFlags
	if html {
		fl |= json.EscapeHTML
	}
	if srt {
		fl |= json.SortMapKeys
	}
	I := "E"
	prefix := []byte("prefix-0")
	if b, err := json.Append(nil, v, fl); err == nil {
		I = post(b)
		// the same into a non-empty destination with spare capacity
		b2, err2 := json.Append(append(make([]byte, 0, 64), prefix...), v, fl)
		if err2 != nil || !bytes.HasPrefix(b2, prefix) || post(b2[len(prefix):]) != I {
			I = "DISAGREE append-prefix " + I
		}
	}
	if html && srt {
		m := "E"
		if b, err := json.Marshal(v); err == nil {
			m = hx(b)
		}
		if m != I {
			I = "DISAGREE append=" + I + " marshal=" + m
		}
	}
	O := "E"
	if b, err := etStdEncode(v, html); err == nil {
		O = post(b)
	}
	return I, O, ""
}

func opRtTyped(a []string) (string, string, string) {
	ty := a[0]
	m := atoi(a[1])
	doc := unhx(a[2])
	i := 0
	d := parseTDesc(ty, &i)
	if i != len(ty) {
		panic("trailing characters in type descriptor " + ty)
	}
	x, set, ok := etValue(d, doc, m&1 != 0)
	if !ok {
		return "baddoc", "-", ""
	}
	var sb strings.Builder
	tdRender(&sb, x.Elem(), set)
	left := sb.String()
	v := x.Elem().Interface()
	back := func(marshal func(any) ([]byte, error), unmarshal func([]byte, any) error) string {
		b, err := marshal(v)
		if err != nil {
			return "E"
		}
		y := reflect.New(d.typ)
		if err := unmarshal(b, y.Interface()); err != nil {
			return "Edec"
		}
		var sb strings.Builder
		tdRender(&sb, y.Elem(), map[tdPtrKey]bool{})
		return sb.String()
	}
	I := back(json.Marshal, func(b []byte, y any) error {
		if m&1 == 0 {
			return json.Unmarshal(b, y)
		}
		r, err := json.Parse(b, y, json.UseNumber)
		if err == nil && len(r) != 0 {
			return &json.SyntaxError{}
		}
		return err
	})
	O := back(stdjson.Marshal, func(b []byte, y any) error {
		if m&1 == 0 {
			return stdjson.Unmarshal(b, y)
		}
		dec := stdjson.NewDecoder(bytes.NewReader(b))
		dec.UseNumber()
		return dec.Decode(y)
	})
	return left + ">" + I, left + ">" + O, ""
}

// ---- generators ----------------------------------------------------------------------------------

var etFixed = [][]string{
	// type, document
	{"b", "true"}, {"b", "false"}, {"i1", "-128"}, {"i8", "-9223372036854775808"}, {"u8", "18446744073709551615"}, {"u0", "0"}, {"i0", "-1"}, {"i4", "100"}, {"u1", "255"}, {"u2", "99"},
	{"f", "0"}, {"f", "-0"}, {"f", "1"}, {"f", "1.5"}, {"f", "1e21"}, {"f", "1e20"}, {"f", "999999999999999900000"}, {"f", "1e-6"}, {"f", "9.99e-7"}, {"f", "1e-7"}, {"f", "1.5e-10"}, {"f", "1e-100"}, {"f", "5e-324"},
	{"f", "1.7976931348623157e308"}, {"f", "0.1"}, {"f", "0.3"}, {"f", "100"}, {"f", "123456789012345678"}, {"f", "9007199254740993"}, {"f", "1e23"}, {"f", "8.41e21"}, {"f", "2.2250738585072011e-308"},
	{"f", "3.141592653589793"}, {"f", "0.000001"}, {"f", "123456.789e3"}, {"f", "-2.5e-8"}, {"f", "4.35"}, {"f", "1e22"}, {"f", "9.5e-7"}, {"f", "2e-7"}, {"f", "1.0e+0"}, {"f", "1E+2"},
	{"s", `""`}, {"s", `"a"`}, {"s", `"<a&b>"`}, {"s", `"  "`}, {"s", `"\ud800"`}, {"s", `"\n\t\"\\\/"`}, {"s", "\"\xff\""}, {"s", `"😀é"`}, {"s", `"\u0000\u001f\u007f"`},
	{"y", `"aGVsbG8="`}, {"y", `""`}, {"y", "null"}, {"y", "[1,2,255]"}, {"y", "[]"}, {"y", `"AA=="`}, {"y", `"AAE="`}, {"y", `"AAEC"`}, {"y", `"AAECAw=="`}, {"y", `"/+/+"`},
	{"Li0", "[1,2,3]"}, {"Li0", "[]"}, {"Li0", "null"}, {"Ls", `["a","<"]`}, {"LLi0", "[[1],[],null,[2,3]]"}, {"Ly", `["YQ==",null,""]`}, {"A2:i0", "[1,2]"}, {"A0:s", "[]"}, {"A3:Pi0", "[1,null,3]"}, {"A2:u1", "[1,2]"},
	{"Mi0", `{"b":1,"a":2}`}, {"Mi0", `{}`}, {"Mi0", "null"}, {"Ms", `{"b":"1","a":"<","":"e","é":"x","ab":"y"}`}, {"MMi0", `{"z":{"b":1,"a":2},"y":{},"x":null}`}, {"Mb", `{"t":true,"f":false}`},
	{"MLs", `{"b":["x"],"a":null,"c":[]}`}, {"Ma", `{"b":[1,{"d":1,"c":2}],"a":null,"c":"s"}`}, {"M{A:i0}", `{"k":{"A":1},"j":{"A":2}}`}, {"Ms", `{" ":"a","<":"b","\"":"c"}`},
	{"Pi0", "1"}, {"Pi0", "null"}, {"Ni0", "5"}, {"PLi0", "[1]"}, {"PMi0", `{"a":1}`}, {"P{A:Pi0}", `{"A":1}`}, {"PPi0", "1"}, {"PPi0", "null"}, {"NPi0", "null"}, {"NNi0", "7"},
	{"{A:i0,B:s}", `{"A":1,"B":"x"}`}, {"{A:i0,B:s}", `{}`}, {"{}", `{}`}, {"{A:{B:{K:Li0}}}", `{"A":{"B":{"K":[1,2]}}}`}, {"{X_1:f,Zz:a,Ab:y,AB:Ms}", `{"X_1":1.5,"Zz":[1,"a"],"Ab":"YQ==","AB":{"q":"r"}}`},
	{"{A:Pi0,B:Li0,K:Mi0,S:a}", `{}`}, {"{A:Pi0,B:Li0,K:Mi0,S:a}", `{"A":1,"B":[],"K":{},"S":null}`},
	{"a", "null"}, {"a", "true"}, {"a", "1"}, {"a", "1.5"}, {"a", "-0"}, {"a", "1e21"}, {"a", `"s<"`}, {"a", "[]"}, {"a", "{}"}, {"a", `[1,"a",null,{"b":[true,false],"a":{}}]`}, {"a", `{"b":1,"a":[{"d":null,"c":1e-7}]}`},
	{"a", "12345678901234567890"}, {"a", "0.000001"}, {"a", `{"a":1,"a":2}`}, {"La", `[1,"x",null,[],{}]`}, {"Pa", "[1]"}, {"Pa", "null"},
	{"Qi0", "5"}, {"Qi0", "null"}, {"QLi0", "[1,2]"}, {"Q{A:i0}", `{"A":1}`}, {"QPi0", "5"}, {"{A:Qs}", `{"A":"x"}`}, {"LQs", `["x"]`}, {"QMi0", `{"b":1,"a":2}`},
}

// etDoc: a document that encoding/json decodes into the type without error (a few attempts; the last resort is `null`)
func (g *tdGen) etDoc(d *tdesc, useNumber bool) string {
	for try := 0; try < 6; try++ {
		doc := g.doc(d, 0, []int{0, 0, 20}[g.h.Intn(3)])
		if _, _, ok := etValue(d, []byte(doc), useNumber); ok {
			return doc
		}
	}
	return "null"
}

func genEncTyped(h *H) {
	for _, c := range etFixed {
		for _, hs := range [][2]string{{"1", "1"}, {"0", "1"}, {"1", "0"}, {"0", "0"}} {
			h.Do("json.enctyped", c[0], hs[0], hs[1], hx([]byte(c[1])))
		}
		h.Do("json.rttyped", c[0], "0", hx([]byte(c[1])))
		h.Do("json.rttyped", c[0], "1", hx([]byte(c[1])))
	}
	g := &tdGen{h: h}
	N := 1100
	if h.Thorough() {
		N = 25000
	}
	for i := 0; i < N; i++ {
		ty := g.ty(0)
		j := 0
		d := parseTDesc(ty, &j)
		doc := g.etDoc(d, false)
		hs := [][2]string{{"1", "1"}, {"1", "1"}, {"0", "1"}, {"1", "0"}, {"0", "0"}}[h.Intn(5)]
		h.Do("json.enctyped", ty, hs[0], hs[1], hx([]byte(doc)))
		if i%2 == 0 {
			m := h.Intn(3) / 2
			if m == 1 {
				doc = g.etDoc(d, true)
			}
			h.Do("json.rttyped", ty, strconv.Itoa(m), hx([]byte(doc)))
		}
	}
	// floats: every literal of the decoder's pool that is in range, as float64 and inside an interface
	for _, f := range tdFloats {
		for _, ty := range []string{"f", "a", "Lf"} {
			doc := f
			if ty == "Lf" {
				doc = "[" + f + "," + f + "]"
			}
			j := 0
			d := parseTDesc(ty, &j)
			if _, _, ok := etValue(d, []byte(doc), false); ok {
				h.Do("json.enctyped", ty, "1", "1", hx([]byte(doc)))
				h.Do("json.rttyped", ty, "0", hx([]byte(doc)))
			}
		}
	}
	M := 150
	if h.Thorough() {
		M = 4000
	}
	for i := 0; i < M; i++ {
		var f float64
		switch h.Intn(4) {
		case 0:
			f = float64(int64(h.U64()>>uint(h.Intn(64)))) / float64(uint64(1)<<uint(h.Intn(60)))
		case 1:
			f = reflectFloatBits(h.U64())
		case 2:
			f = float64(h.Intn(2000000)) / 1000
		default:
			f = float64(h.Intn(1000)) * []float64{1e-9, 1e-7, 1e-6, 1e18, 1e20, 1e21, 1e-300, 1e300}[h.Intn(8)]
		}
		b, err := stdjson.Marshal(f)
		if err != nil {
			continue
		}
		// also a non-canonical spelling of the same number
		doc := string(b)
		if h.Bool() {
			doc = strconv.FormatFloat(f, 'e', 20, 64)
		}
		h.Do("json.enctyped", "f", "1", "1", hx([]byte(doc)))
		h.Do("json.rttyped", h.Pick([]string{"f", "a"}), "0", hx([]byte(doc)))
	}
}

func reflectFloatBits(u uint64) float64 { return math.Float64frombits(u) }
