package main

// Thrift unions through the Lean driver (C04 / C13 / C08).
//
// Go shape of a union (thrift/struct.go): a struct whose members are ordinary fields with ids plus one interface-typed
// field tagged `thrift:",union"`. Transport of the interface field's value: `nil` or `p i <k>` = the address of the field
// at position k of the same struct value (see univ.go parseValInto / showUnionRef).
//
// A PROPER union value: exactly one member set (zero or non-zero value, a pointer member non-nil), the union field holds
// its address, every other field holds its zero value. For those the property's oracle applies (Unmarshal(Marshal(u)) = u).
// IMPROPER values (union field nil, no member, several members, the union field designating another member, a required
// member, a non-zero untagged field) go through `thrift.rtm` and `thrift.marshal`: the model has to say what the code does.

import (
	"fmt"
	"reflect"
	"strconv"
	"strings"

	"github.com/segmentio/encoding/thrift"
)

func init() {
	// thrift.rtm: Unmarshal(Marshal(v)) as an observable, no oracle
	ops["thrift.rtm"] = func(a []string) (string, string, string) {
		i, _, k := ops["thrift.roundtrip"](a)
		return i, "-", k
	}
}

var unionKinds = []string{"bool", "i8", "i16", "i32", "i64", "int", "f64", "str", "bytes", "enum", "list", "set", "map", "struct",
	"ptrscalar", "ptrstruct", "union", "ptrunion"}

func thriftTag(s string) string { return `thrift:"` + s + `"` }

func (h *H) unionMemberTy(kind string, depth int) *Ty {
	sc := func(k string) *Ty { return &Ty{K: k} }
	switch kind {
	case "enum":
		return sc("i32")
	case "list":
		return &Ty{K: "sl", Elem: sc(h.Pick([]string{"i32", "str", "bool", "i64"}))}
	case "set":
		return &Ty{K: "map", Key: sc(h.Pick([]string{"i32", "str", "i8"})), Elem: &Ty{K: "st"}}
	case "map":
		return &Ty{K: "map", Key: sc(h.Pick([]string{"i32", "str"})), Elem: sc(h.Pick([]string{"i64", "str", "bool"}))}
	case "struct":
		return &Ty{K: "st", Fields: []Field{
			{Name: "A", Tag: thriftTag("1"), T: sc("i32")},
			{Name: "B", Tag: thriftTag(strconv.Itoa(2 + h.Intn(30))), T: sc("str")},
			{Name: "C", Tag: thriftTag("40"), T: sc("bool")}}}
	case "ptrscalar":
		return &Ty{K: "ptr", Elem: sc(h.Pick([]string{"i32", "str", "bool", "f64"}))}
	case "ptrstruct":
		return &Ty{K: "ptr", Elem: h.unionMemberTy("struct", depth)}
	case "union":
		return h.genThriftUnionTy(depth+1, "")
	case "ptrunion":
		return &Ty{K: "ptr", Elem: h.genThriftUnionTy(depth+1, "")}
	}
	return sc(kind)
}

// genThriftUnionTy: a union type with 1..7 members; `must` (a kind, or "") is among them. Options: duplicate member types,
// an untagged field, the union field first / in the middle / last.
func (h *H) genThriftUnionTy(depth int, must string) *Ty {
	n := 1 + h.Intn(6)
	var kinds []string
	if must != "" {
		kinds = append(kinds, must)
	}
	pool := unionKinds
	if depth >= 2 {
		pool = unionKinds[:len(unionKinds)-2]
	}
	for len(kinds) < n {
		k := pool[h.Intn(len(pool))]
		dup := false
		for _, x := range kinds {
			dup = dup || x == k
		}
		if !dup {
			kinds = append(kinds, k)
		}
	}
	t := &Ty{K: "st"}
	used := map[int]bool{}
	newID := func() int {
		for {
			var id int
			switch h.Intn(6) {
			case 0:
				id = []int{15, 16, 17, 127, 128, 255, 256, 1000, 32767}[h.Intn(9)]
			default:
				id = 1 + h.Intn(20)
			}
			if !used[id] {
				used[id] = true
				return id
			}
		}
	}
	for _, k := range kinds {
		tag := strconv.Itoa(newID())
		if k == "enum" {
			tag += ",enum"
		} else if h.Intn(10) == 0 {
			tag += ",optional"
		}
		t.Fields = append(t.Fields, Field{Tag: thriftTag(tag), T: h.unionMemberTy(k, depth)})
	}
	if h.Intn(6) == 0 { // a second member of the Go type of an existing scalar member (the zeroMember ambiguity)
		for _, f := range t.Fields {
			if f.T.K != "st" && f.T.K != "ptr" && f.T.K != "map" && f.T.K != "sl" && !strings.Contains(f.Tag, "enum") {
				t.Fields = append(t.Fields, Field{Tag: thriftTag(strconv.Itoa(newID())), T: &Ty{K: f.T.K}})
				break
			}
		}
	}
	if h.Intn(5) == 0 { // an untagged field
		t.Fields = append(t.Fields, Field{T: &Ty{K: h.Pick([]string{"i32", "str"})}})
	}
	// shuffle, then insert the union field
	for i := len(t.Fields) - 1; i > 0; i-- {
		j := h.Intn(i + 1)
		t.Fields[i], t.Fields[j] = t.Fields[j], t.Fields[i]
	}
	u := Field{Tag: thriftTag(",union"), T: &Ty{K: "any"}}
	at := []int{0, len(t.Fields), h.Intn(len(t.Fields) + 1)}[h.Intn(3)]
	t.Fields = append(t.Fields[:at], append([]Field{u}, t.Fields[at:]...)...)
	for i := range t.Fields {
		t.Fields[i].Name = fmt.Sprintf("F%d", i)
	}
	return t
}

func unionFieldPos(t *Ty) int {
	for i, f := range t.Fields {
		if strings.Contains(f.Tag, ",union") {
			return i
		}
	}
	return -1
}

func isUnionTy(t *Ty) bool { return t.K == "st" && unionFieldPos(t) >= 0 }

func unionMembers(t *Ty) []int {
	var m []int
	for i, f := range t.Fields {
		if f.Tag != "" && !strings.Contains(f.Tag, ",union") {
			m = append(m, i)
		}
	}
	return m
}

// fillNonZero sets dst (of type t) to a non-zero value of the universe (unions inside: proper values)
func (h *H) fillNonZero(t *Ty, dst reflect.Value) {
	if isUnionTy(t) {
		h.fillUnion(t, dst, -1, h.Intn(3) == 0)
		return
	}
	if t.K == "ptr" {
		e := reflect.New(dst.Type().Elem())
		if isUnionTy(t.Elem) {
			h.fillUnion(t.Elem, e.Elem(), -1, h.Bool())
		} else if h.Bool() {
			h.fillNonZero(t.Elem, e.Elem())
		}
		dst.Set(e) // a non-nil pointer is a non-zero value, whatever it points to
		return
	}
	for try := 0; ; try++ {
		v := h.genVal(t, 2)
		if !v.IsZero() {
			h.clampEnums(t, v)
			dst.Set(v)
			return
		}
		if try > 50 {
			panic("fillNonZero: no non-zero value for " + t.String())
		}
	}
}

// fillUnion makes dst (addressable, zero) a proper union value: member k (-1: random) set to its zero value or not
func (h *H) fillUnion(t *Ty, dst reflect.Value, k int, zero bool) int {
	ms := unionMembers(t)
	if k < 0 {
		k = ms[h.Intn(len(ms))]
	}
	f := dst.Field(k)
	ft := t.Fields[k].T
	switch {
	case zero && ft.K == "ptr":
		f.Set(reflect.New(f.Type().Elem())) // the member is set: a pointer to the zero value
	case zero:
	default:
		h.fillNonZero(ft, f)
	}
	dst.Field(unionFieldPos(t)).Set(f.Addr())
	return k
}

// a union type around `must`, placed at the top, in a struct field, behind a pointer or in a list
func (h *H) genThriftUnionCase(must string, zero bool) (*Ty, string) {
	u := h.genThriftUnionTy(0, must)
	k := -1
	if must != "" {
		for _, i := range unionMembers(u) {
			if i < len(u.Fields) && k < 0 {
				// the member generated for `must` is the one with the matching type shape: find it by regenerating is not
				// possible — kinds[0] was shuffled; identify by kind
				if unionKindOf(u.Fields[i]) == must {
					k = i
				}
			}
		}
	}
	var t *Ty
	switch h.Intn(5) {
	case 0:
		t = &Ty{K: "st", Fields: []Field{
			{Name: "X", Tag: thriftTag("1"), T: &Ty{K: "i32"}},
			{Name: "U", Tag: thriftTag("2"), T: u},
			{Name: "P", Tag: thriftTag("3"), T: &Ty{K: "ptr", Elem: u}},
			{Name: "L", Tag: thriftTag("4"), T: &Ty{K: "sl", Elem: u}}}}
		v := reflect.New(t.Reflect()).Elem()
		v.Field(0).SetInt(int64(h.Intn(3)))
		h.fillUnion(u, v.Field(1), k, zero)
		if h.Bool() {
			e := reflect.New(u.Reflect())
			h.fillUnion(u, e.Elem(), -1, h.Bool())
			v.Field(2).Set(e)
		}
		n := h.Intn(3)
		l := reflect.MakeSlice(v.Field(3).Type(), n, n)
		for i := 0; i < n; i++ {
			h.fillUnion(u, l.Index(i), -1, h.Bool())
		}
		v.Field(3).Set(l)
		return t, showVal(t, v, false)
	default:
		t = u
		v := reflect.New(t.Reflect()).Elem()
		h.fillUnion(u, v, k, zero)
		return t, showVal(t, v, false)
	}
}

func unionKindOf(f Field) string {
	t := f.T
	switch {
	case strings.Contains(f.Tag, ",enum"):
		return "enum"
	case t.K == "sl":
		return "list"
	case t.K == "map" && t.Elem.K == "st" && len(t.Elem.Fields) == 0:
		return "set"
	case t.K == "map":
		return "map"
	case isUnionTy(t):
		return "union"
	case t.K == "st":
		return "struct"
	case t.K == "ptr" && isUnionTy(t.Elem):
		return "ptrunion"
	case t.K == "ptr" && t.Elem.K == "st":
		return "ptrstruct"
	case t.K == "ptr":
		return "ptrscalar"
	}
	return t.K
}

// improper union values (top level): what the code does with them
func (h *H) genThriftImproperUnion() (t *Ty, val string, specOK bool) {
	specOK = true
	u := h.genThriftUnionTy(1, "")
	v := reflect.New(u.Reflect()).Elem()
	ms := unionMembers(u)
	up := unionFieldPos(u)
	pick := func() int { return ms[h.Intn(len(ms))] }
	switch h.Intn(8) {
	case 0: // union field nil, one member non-zero
		k := pick()
		h.fillNonZero(u.Fields[k].T, v.Field(k))
	case 1: // nothing set
	case 2: // several members non-zero
		for _, j := range ms {
			if h.Bool() {
				h.fillNonZero(u.Fields[j].T, v.Field(j))
			}
		}
		v.Field(up).Set(v.Field(pick()).Addr())
	case 3: // the union field designates a zero member, another member is non-zero
		k := pick()
		h.fillNonZero(u.Fields[k].T, v.Field(k))
		v.Field(up).Set(v.Field(pick()).Addr())
	case 4: // the designated member is a nil pointer / any zero member
		v.Field(up).Set(v.Field(pick()).Addr())
	case 5: // a non-zero untagged field (or the union field designating a non-member)
		h.fillUnion(u, v, -1, h.Bool())
		for i, f := range u.Fields {
			if f.Tag == "" {
				h.fillNonZero(f.T, v.Field(i))
			}
		}
		if h.Intn(3) == 0 {
			v.Field(up).Set(v.Field(h.Intn(len(u.Fields))).Addr())
		}
	case 6: // a required member (IDL unions have none: no specification opinion)
		specOK = false
		k := pick()
		u.Fields[k].Tag = strings.TrimSuffix(strings.TrimSuffix(u.Fields[k].Tag, `"`), ",optional") + `,required"`
		u.rt = nil
		v = reflect.New(u.Reflect()).Elem()
		if f := v.Field(k); f.Kind() == reflect.Ptr {
			f.Set(reflect.New(f.Type().Elem()))
		}
		if h.Bool() {
			h.fillUnion(u, v, -1, h.Bool())
		}
	default: // the union field holds the address of a member while every member is zero and two share its type
		k := pick()
		u.Fields = append(u.Fields, Field{Name: fmt.Sprintf("F%d", len(u.Fields)), Tag: thriftTag("3000"), T: u.Fields[k].T})
		u.rt = nil
		v = reflect.New(u.Reflect()).Elem()
		v.Field(up).Set(v.Field(k).Addr())
	}
	return u, showVal(u, v, false), specOK
}

// plainTwin: the same struct type without the union option (the union field becomes an untagged `any` field): what it
// marshals is a wire stream that may carry several members
func plainTwin(u *Ty) *Ty {
	t := &Ty{K: "st"}
	for _, f := range u.Fields {
		if strings.Contains(f.Tag, ",union") {
			f.Tag = ""
		}
		t.Fields = append(t.Fields, f)
	}
	return t
}

// the wire carries several members: the last one wins
func (h *H) thriftUnionMulti(n int) {
	for i := 0; i < n; i++ {
		u := h.genThriftUnionTy(1, "")
		ms := unionMembers(u)
		tw := plainTwin(u)
		v := reflect.New(tw.Reflect()).Elem()
		// expected: the member with the largest id among those written (the encoder sorts by id)
		last, lastID := -1, -1
		for _, j := range ms {
			if h.Intn(3) != 0 {
				h.fillNonZero(u.Fields[j].T, v.Field(j))
				id, _ := strconv.Atoi(strings.Split(strings.TrimSuffix(strings.TrimPrefix(u.Fields[j].Tag, `thrift:"`), `"`), ",")[0])
				if id > lastID {
					last, lastID = j, id
				}
			}
		}
		want := reflect.New(u.Reflect()).Elem()
		if last >= 0 {
			want.Field(last).Set(v.Field(last))
			want.Field(unionFieldPos(u)).Set(want.Field(last).Addr())
		}
		nested := false // a member that is itself a union value: its own union field was copied, not re-aimed
		for _, j := range ms {
			if k := unionKindOf(u.Fields[j]); k == "union" || k == "ptrunion" {
				nested = true
			}
		}
		for _, pn := range thriftProtos {
			b, err := thrift.Marshal(thriftProto(pn), v.Interface())
			if err != nil {
				continue
			}
			o := "ok:" + showVal(u, want, true)
			if nested {
				o = "-"
			}
			for _, strict := range []string{"0", "1"} {
				h.DoRisky("thrift.decode", pn, strict, u.String(), hx(b), o)
			}
		}
		// a member arriving with another type: skipped without touching the struct (non-strict), an error (strict)
		if len(ms) >= 2 {
			bad := ms[h.Intn(len(ms))]
			tw2 := plainTwin(u)
			if unionKindOf(u.Fields[bad]) == "str" || unionKindOf(u.Fields[bad]) == "bytes" {
				tw2.Fields[bad].T = &Ty{K: "i64"}
			} else {
				tw2.Fields[bad].T = &Ty{K: "str"}
			}
			tw2.Fields[bad].Tag = strings.Replace(tw2.Fields[bad].Tag, ",enum", "", 1)
			v2 := reflect.New(tw2.Reflect()).Elem()
			for _, j := range ms {
				if j == bad {
					h.fillNonZero(tw2.Fields[j].T, v2.Field(j))
				} else if h.Bool() {
					v2.Field(j).Set(v.Field(j))
				}
			}
			for _, pn := range thriftProtos {
				b, err := thrift.Marshal(thriftProto(pn), v2.Interface())
				if err != nil {
					continue
				}
				h.DoRisky("thrift.decode", pn, "0", u.String(), hx(b))
				h.DoRisky("thrift.decode", pn, "1", u.String(), hx(b))
			}
		}
	}
}

// every member kind × zero / non-zero × protocols × strictness
func (h *H) thriftUnionSweep(prop string, rounds int) {
	for r := 0; r < rounds; r++ {
		for _, kind := range unionKinds {
			for _, zero := range []bool{true, false} {
				t, val := h.genThriftUnionCase(kind, zero)
				ts := t.String()
				v := parseVal(t, val)
				multi := hasMultiMap(t, v)
				want := "ok:" + showVal(t, v, true)
				for _, pn := range thriftProtos {
					op := "thrift.marshal"
					if multi {
						op = "thrift.marshalx"
					}
					im, _ := h.DoRisky(op, pn, ts, val)
					switch prop {
					case "C04":
						h.DoRisky("thrift.roundtrip", pn, ts, val)
					case "C13":
						if !multi && strings.HasPrefix(im, "ok:") {
							b := unhx(im[3:])
							for _, strict := range []string{"0", "1"} {
								h.DoRisky("thrift.decode", pn, strict, ts, hx(b), want)
							}
							if alt, ok := compactLongForms(h, b); pn == "c" && ok {
								h.DoRisky("thrift.decode", pn, "0", ts, hx(alt), want)
							}
						}
					case "C08":
						if !multi && strings.HasPrefix(im, "ok:") {
							b := unhx(im[3:])
							for n := 0; n < len(b) && n < 40; n++ {
								o := "err:unexpectedEof"
								if n == 0 {
									o = "err:eof"
								}
								h.DoRisky("thrift.decode", pn, "0", ts, hx(b[:n]), o)
							}
							for k := 0; k < 3; k++ {
								h.DoRisky("thrift.decode", pn, strconv.Itoa(h.Intn(2)), ts, hx(h.mutate(b)))
							}
						}
					}
				}
				if prop == "C04" {
					h.DoRisky("thrift.cross", ts, val)
					h.DoRisky("thrift.reset", thriftProtos[h.Intn(3)], thriftProtos[h.Intn(3)], ts, val)
				}
			}
		}
	}
}

func (h *H) thriftUnionImproper(n int) {
	for i := 0; i < n; i++ {
		t, val, specOK := h.genThriftImproperUnion()
		ts := t.String()
		if hasMultiMap(t, parseVal(t, val)) {
			continue
		}
		for _, pn := range thriftProtos {
			if specOK {
				h.DoRisky("thrift.marshal", pn, ts, val)
			}
			h.DoRisky("thrift.rtm", pn, ts, val)
		}
	}
}
