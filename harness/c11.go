package main

import (
	"bytes"
	stdjson "encoding/json"
	"errors"
	"fmt"
	"io"
	"strings"

	"github.com/segmentio/encoding/json"
)

var errScripted = errors.New("scripted reader failure")

// scriptedReader delivers a fixed sequence of Read results; once the script is over it keeps returning `final`.
type scriptedReader struct {
	evs   []sev
	final error
}
type sev struct {
	data    []byte
	withErr bool
}

func (r *scriptedReader) Read(p []byte) (int, error) {
	if len(r.evs) == 0 {
		return 0, r.final
	}
	e := &r.evs[0]
	n := copy(p, e.data)
	if n < len(e.data) {
		e.data = e.data[n:]
		return n, nil
	}
	we := e.withErr
	r.evs = r.evs[1:]
	if we {
		return n, r.final
	}
	return n, nil
}

func (r *scriptedReader) rest() []byte {
	var b []byte
	for _, e := range r.evs {
		b = append(b, e.data...)
	}
	return b
}

func parseEvents(s string) ([]sev, []byte) {
	var evs []sev
	var all []byte
	for _, p := range strings.Split(s, ",") {
		if p == "" {
			continue
		}
		kv := strings.SplitN(p, ":", 2)
		d := unhx(kv[1])
		evs = append(evs, sev{data: append([]byte{}, d...), withErr: kv[0] == "e"})
		all = append(all, d...)
	}
	return evs, all
}

func endClass(err error, final error) string {
	switch {
	case err == io.EOF:
		return "EOF"
	case final != io.EOF && errors.Is(err, final):
		return "RERR"
	}
	return "ERR"
}

func init() {
	registry["C11"] = runC11
	ops["json.stream"] = func(a []string) (string, string, string) {
		evs, all := parseEvents(a[0])
		final := error(io.EOF)
		if a[1] != "eof" {
			final = errScripted
		}
		rd := &scriptedReader{evs: evs, final: final}
		dec := json.NewDecoder(rd)
		var out []string
		offOK, bufOK := true, true
		lastOff := int64(0)
		pos := 0 // end of the previous value in `all`
		for {
			var v json.RawMessage
			err := dec.Decode(&v)
			if err != nil {
				out = append(out, endClass(err, final))
				break
			}
			out = append(out, hx(v))
			// locate the value: it starts after the white space following the previous value
			start := pos
			for start < len(all) && (all[start] == ' ' || all[start] == '\t' || all[start] == '\n' || all[start] == '\r') {
				start++
			}
			end := start + len(v)
			next := end
			for next < len(all) && (all[next] == ' ' || all[next] == '\t' || all[next] == '\n' || all[next] == '\r') {
				next++
			}
			off := dec.InputOffset()
			if off < lastOff || off < int64(end) || off > int64(next) {
				offOK = false
			}
			lastOff = off
			pos = end
			// Buffered ++ unread remainder == unconsumed input
			buffered, _ := io.ReadAll(dec.Buffered())
			unconsumed := all[min(int(off), len(all)):]
			if !bytes.Equal(append(buffered, rd.rest()...), unconsumed) {
				bufOK = false
			}
			if len(out) > 200000 {
				break
			}
		}
		impl := strings.Join(out, ",") + ";off=" + b01(offOK) + ";buf=" + b01(bufOK)
		// retention: the same script decoded into `any` values that are all KEPT until the stream is over and only then
		// compared with encoding/json's (a value that aliases the Decoder's buffer is overwritten by later refills)
		{
			evs2, _ := parseEvents(a[0])
			dec2 := json.NewDecoder(&scriptedReader{evs: evs2, final: final})
			sd2 := stdjson.NewDecoder(bytes.NewReader(all))
			var kept, wantKept []any
			for len(kept) < 200000 {
				var v any
				if err := dec2.Decode(&v); err != nil {
					break
				}
				kept = append(kept, v)
			}
			for len(wantKept) < len(kept) {
				var v any
				if err := sd2.Decode(&v); err != nil {
					break
				}
				wantKept = append(wantKept, v)
			}
			for i := range kept {
				if i >= len(wantKept) {
					break // the value lists themselves are compared above
				}
				x, _ := stdjson.Marshal(kept[i])
				y, _ := stdjson.Marshal(wantKept[i])
				if !bytes.Equal(x, y) {
					impl = fmt.Sprintf("retained-value-%d-changed-after-later-Decode-calls(%s)", i, hx(x))
					break
				}
			}
		}
		// oracle: encoding/json on one clean, EOF-terminated read of the same bytes
		sd := stdjson.NewDecoder(bytes.NewReader(all))
		var want []string
		for {
			var v stdjson.RawMessage
			err := sd.Decode(&v)
			if err != nil {
				want = append(want, endClass(err, io.EOF))
				break
			}
			want = append(want, hx(v))
		}
		// failing reader with a known INTENDED stream (third argument): what was yielded before the failure must be a prefix
		// of the values of the intended stream — in particular a number cut by the failure must not be yielded
		if len(a) > 2 && a[1] != "eof" {
			full := unhx(a[2])
			fd := stdjson.NewDecoder(bytes.NewReader(full))
			var wantFull []string
			for {
				var v stdjson.RawMessage
				if err := fd.Decode(&v); err != nil {
					break
				}
				wantFull = append(wantFull, hx(v))
			}
			k := len(out) - 1
			okp := k <= len(wantFull)
			for i := 0; i < k && okp; i++ {
				okp = out[i] == wantFull[i]
			}
			if !okp {
				return impl, "values-before-the-failure-are-not-a-prefix-of-the-intended-stream(" + strings.Join(wantFull, ",") + ")", ""
			}
		}
		clean := a[1] == "eof"
		for _, e := range evs {
			if e.withErr {
				clean = clean && a[1] == "eof"
			}
		}
		if clean {
			return impl, strings.Join(want, ",") + ";off=1;buf=1", ""
		}
		// failing reader: a prefix of the oracle's values, then the reader's error, nothing after
		k := len(out) - 1
		okPrefix := k <= len(want)-1+0 && out[k] == "RERR"
		for i := 0; i < k && okPrefix; i++ {
			if i >= len(want) || out[i] != want[i] {
				okPrefix = false
			}
		}
		// … unless the delivered bytes themselves contain a syntax error at that point (the oracle's list ends with ERR
		// right there): then that error, which precedes the reader's failure, is the correct outcome
		if !okPrefix && len(out) == len(want) && want[len(want)-1] == "ERR" {
			okPrefix = true
			for i := range out {
				if out[i] != want[i] {
					okPrefix = false
				}
			}
		}
		if okPrefix {
			return impl, impl, ""
		}
		// a reader that fails after delivering everything up to a clean point may also legitimately end with RERR only
		return impl, "prefix-of(" + strings.Join(want, ",") + ")+RERR", ""
	}
	ops["json.parserem"] = func(a []string) (string, string, string) {
		b := unhx(a[0])
		var v json.RawMessage
		rest, err := json.Parse(b, &v, 0)
		i := "err"
		if err == nil {
			i = "ok:" + hx(rest)
		}
		// oracle through encoding/json's Decoder: end of the first value, then skip white space
		sd := stdjson.NewDecoder(bytes.NewReader(b))
		var raw stdjson.RawMessage
		o := "err"
		if sd.Decode(&raw) == nil {
			end := int(sd.InputOffset())
			for end < len(b) && (b[end] == ' ' || b[end] == '\t' || b[end] == '\n' || b[end] == '\r') {
				end++
			}
			o = "ok:" + hx(b[end:])
		}
		return i, o, ""
	}
}

func evString(chunks [][]byte, errAt int) string {
	var sb strings.Builder
	for i, c := range chunks {
		if i > 0 {
			sb.WriteByte(',')
		}
		if i == errAt {
			sb.WriteString("e:" + hx(c))
		} else {
			sb.WriteString("d:" + hx(c))
		}
	}
	return sb.String()
}

func (h *H) chunk(all []byte, mode int) [][]byte {
	var out [][]byte
	switch mode {
	case 0: // one read
		out = append(out, all)
	case 1: // one byte at a time (bounded)
		for i := 0; i < len(all); i++ {
			out = append(out, all[i:i+1])
		}
	case 2: // primes
		sizes := []int{2, 3, 5, 7, 11, 13, 4093, 4099, 32749, 32771}
		for i := 0; i < len(all); {
			n := sizes[h.Intn(len(sizes))]
			if i+n > len(all) {
				n = len(all) - i
			}
			out = append(out, all[i:i+n])
			i += n
		}
	case 3: // exactly to the buffer edges, with zero-length reads in between
		for i := 0; i < len(all); {
			n := []int{4096, 32768, 28672, 1}[h.Intn(4)]
			if i+n > len(all) {
				n = len(all) - i
			}
			out = append(out, all[i:i+n])
			if h.Intn(3) == 0 {
				out = append(out, []byte{})
			}
			i += n
		}
	default: // random
		for i := 0; i < len(all); {
			n := 1 + h.Intn(9000)
			if i+n > len(all) {
				n = len(all) - i
			}
			out = append(out, all[i:i+n])
			i += n
		}
	}
	return out
}

func runC11(h *H) {
	N := 150
	if h.Thorough() {
		N = 2500
	}
	for i := 0; i < N; i++ {
		// a sequence of values with white space; some members placed to straddle the 32 KiB / 64 KiB edges
		var all []byte
		nv := 1 + h.Intn(12)
		target := []int{0, 0, 32768, 65536, 4096, 36864}[h.Intn(6)]
		for k := 0; k < nv; k++ {
			var v []byte
			switch h.Intn(8) {
			case 0:
				v = []byte(fmt.Sprintf("%d", h.U64()))
			case 1:
				v = []byte(`"` + strings.Repeat("x", h.Intn(9000)) + `"`)
			case 2:
				v = []byte("[" + strings.Repeat("1234567890,", h.Intn(4000)) + "1]")
			case 3:
				v = []byte(h.Pick([]string{"true", "false", "null", "0", "-1.5e10", "12345"}))
			default:
				v = h.genJSON(0)
			}
			if target > 0 && k == nv/2 {
				// pad with white space so that this value straddles (or ends exactly at) the target offset
				want := target - len(all) - h.Intn(len(v)+1)
				if want > 0 {
					all = append(all, bytes.Repeat([]byte{' '}, want)...)
				}
			}
			all = append(all, v...)
			all = append(all, []byte(h.Pick([]string{" ", "\n", "\n\n", " \t ", "", ""}))...)
			if len(v) > 0 && (v[len(v)-1] >= '0' && v[len(v)-1] <= '9' || v[len(v)-1] == 'e' || v[len(v)-1] == 'l') && !bytes.HasSuffix(all, []byte(" ")) && !bytes.HasSuffix(all, []byte("\n")) {
				all = append(all, ' ') // scalars need a separator
			}
		}
		if h.Intn(5) == 0 { // stream that ends or fails inside a value
			all = h.mutateJSON(all)
		}
		if len(all) > 300000 {
			all = all[:300000]
		}
		modes := []int{0, 2, 3, 4}
		if len(all) < 3000 {
			modes = append(modes, 1)
		}
		for _, m := range modes {
			ch := h.chunk(all, m)
			h.Do("json.stream", evString(ch, -1), "eof")
		}
		// data delivered together with io.EOF, and a terminal non-EOF error at a random chunk
		ch := h.chunk(all, 4)
		h.Do("json.stream", evString(ch, len(ch)-1), "eof")
		cut := h.Intn(len(ch) + 1)
		h.Do("json.stream", evString(ch[:cut], -1), "other", hx(all))
		if cut > 0 {
			h.Do("json.stream", evString(ch[:cut], cut-1), "other", hx(all))
		}
		// a failure in the middle of a value (numbers included): cut the byte stream at a random offset
		if len(all) > 1 {
			k := 1 + h.Intn(len(all)-1)
			h.Do("json.stream", "d:"+hx(all[:k]), "other", hx(all))
		}
	}
	// numbers cut by a failing reader at every offset
	for _, s := range []string{`12345 678`, `{"a":1} 12345`, `[1,2] -1.5e10 7`, `1`, `10 20 30`} {
		b := []byte(s)
		for k := 1; k < len(b); k++ {
			h.Do("json.stream", "d:"+hx(b[:k]), "other", hx(b))
			h.Do("json.stream", "e:"+hx(b[:k]), "other", hx(b))
		}
	}
	// short streams: terminal error / EOF at every offset, 1-byte reads
	for _, s := range []string{`{"a":[1,2,{"b":null}]} 12 "x" true`, `123 456`, `"abc" [] {}`, ` 1 `, `nul`, `[1,2`, `{"a"`, `1e`, `-`} {
		b := []byte(s)
		for cut := 0; cut <= len(b); cut++ {
			var ch [][]byte
			for i := 0; i < cut; i++ {
				ch = append(ch, b[i:i+1])
			}
			h.Do("json.stream", evString(ch, -1), "eof")
			h.Do("json.stream", evString(ch, -1), "other")
			if cut > 0 {
				h.Do("json.stream", evString(ch, cut-1), "other")
			}
		}
	}
	// Parse remainder
	M := 600
	if h.Thorough() {
		M = 12000
	}
	for i := 0; i < M; i++ {
		d := h.genJSON(0)
		d = append([]byte(h.Pick([]string{"", " ", "\n "})), d...)
		d = append(d, []byte(h.Pick([]string{"", " ", " \n", " 1", " x", ",", "]", " \t[1]", "\"", " null"}))...)
		if h.Intn(6) == 0 {
			d = h.mutateJSON(d)
		}
		h.Do("json.parserem", hx(d))
	}
	// InputOffset / Buffered per call (c11off.go)
	runC11off(h)
}
