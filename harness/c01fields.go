package main

// C01/C02 — struct-field resolution (json/codec.go appendStructFields vs encoding/json typeFields/dominantField).
//
// op json.fields <descriptor>: builds the Go struct type described by the descriptor, stores a distinct number (the
// index path) in every int leaf, allocates every pointer, marshals with segmentio (I) and encoding/json (O) and reports
// the members of the object in output order as `key=leafid;…` (struct-valued members as `key={…}`, a value written
// inside a JSON string as `s<leafid>`). The Lean driver answers the same descriptor with Model.Json.Fields.segFields (M)
// and Spec.Json.Fields.stdFields (S).
//
// Further ops on the same descriptors: json.fieldsnil (every embedded struct pointer nil: the members behind one are
// omitted), json.fieldsdec (Unmarshal of a flat object: which leaf receives which number; see below).
// KH = jsonFieldNameCollision iff two candidate fields of one object share a JSON name (fdCollides), otherwise "".
//
// Descriptor grammar (no blanks; the same parser exists in lean/Enc/Driver/JsonFields.lean):
//
//	struct := '{' [ field { ';' field } ] '}'
//	field  := [ '@' ] NAME [ '"' TAG '"' ] ':' type       '@' = anonymous (embedded) field
//	type   := 'i' (int) | 'p' (*int) | struct | '*' struct
//	NAME   := Go identifier (ASCII); exported iff it starts with A-Z
//	TAG    := raw value of the json struct tag (no '"', no blank); absent = no json tag
//
// Types are built with reflect.StructOf, which refuses unexported anonymous fields: descriptors that have one are
// looked up in a zoo of hand-declared types (their descriptor is DERIVED from the Go type by fdescOf, not written by hand).
// Every struct node of a descriptor must be a distinct Go type (encoding/json keys `visited`/`count` by type and the
// tree universe of the model has no type identity): the generator appends an ignored field `Z<k> int "json:\"-\""` to
// every struct; the op refuses descriptors with a repeated struct type.

import (
	"bytes"
	stdjson "encoding/json"
	"fmt"
	"os"
	"reflect"
	"sort"
	"strconv"
	"strings"
	"unsafe"

	"github.com/segmentio/asm/keyset"
	"github.com/segmentio/encoding/json"
)

type fdField struct {
	Name   string
	Tag    string
	HasTag bool
	Anon   bool
	Kind   byte // 'i' int, 'p' *int, 's' struct, 'P' *struct
	Sub    []*fdField
}

func (f *fdField) exported() bool { return f.Name[0] >= 'A' && f.Name[0] <= 'Z' }
func (f *fdField) isStruct() bool { return f.Kind == 's' || f.Kind == 'P' }

// ---- descriptor text -------------------------------------------------------------------------------------------------

func fdPrint(fs []*fdField) string {
	var b strings.Builder
	var rec func(fs []*fdField)
	rec = func(fs []*fdField) {
		b.WriteByte('{')
		for i, f := range fs {
			if i > 0 {
				b.WriteByte(';')
			}
			if f.Anon {
				b.WriteByte('@')
			}
			b.WriteString(f.Name)
			if f.HasTag {
				b.WriteByte('"')
				b.WriteString(f.Tag)
				b.WriteByte('"')
			}
			b.WriteByte(':')
			switch f.Kind {
			case 'i', 'p':
				b.WriteByte(f.Kind)
			case 'P':
				b.WriteByte('*')
				rec(f.Sub)
			default:
				rec(f.Sub)
			}
		}
		b.WriteByte('}')
	}
	rec(fs)
	return b.String()
}

type fdParser struct {
	s string
	p int
}

func (q *fdParser) peek() byte {
	if q.p < len(q.s) {
		return q.s[q.p]
	}
	return 0
}
func (q *fdParser) expect(c byte) {
	if q.peek() != c {
		panic(fmt.Sprintf("descriptor: expected %q at %d", c, q.p))
	}
	q.p++
}
func isNameByte(c byte, first bool) bool {
	return c == '_' || (c >= 'A' && c <= 'Z') || (c >= 'a' && c <= 'z') || (!first && c >= '0' && c <= '9')
}
func (q *fdParser) structure() []*fdField {
	q.expect('{')
	fs := []*fdField{}
	if q.peek() == '}' {
		q.p++
		return fs
	}
	for {
		f := &fdField{}
		if q.peek() == '@' {
			f.Anon = true
			q.p++
		}
		st := q.p
		for q.p < len(q.s) && isNameByte(q.s[q.p], q.p == st) {
			q.p++
		}
		if q.p == st {
			panic("descriptor: name expected at " + strconv.Itoa(q.p))
		}
		f.Name = q.s[st:q.p]
		if q.peek() == '"' {
			q.p++
			e := strings.IndexByte(q.s[q.p:], '"')
			if e < 0 {
				panic("descriptor: unterminated tag")
			}
			f.Tag, f.HasTag = q.s[q.p:q.p+e], true
			q.p += e + 1
		}
		q.expect(':')
		switch q.peek() {
		case 'i', 'p':
			f.Kind = q.peek()
			q.p++
		case '*':
			q.p++
			f.Kind = 'P'
			f.Sub = q.structure()
		default:
			f.Kind = 's'
			f.Sub = q.structure()
		}
		fs = append(fs, f)
		if q.peek() == ';' {
			q.p++
			continue
		}
		q.expect('}')
		return fs
	}
}

func fdParse(s string) []*fdField {
	q := &fdParser{s: s}
	fs := q.structure()
	if q.p != len(s) {
		panic("descriptor: trailing text")
	}
	return fs
}

// ---- Go types --------------------------------------------------------------------------------------------------------

var intType = reflect.TypeOf(0)

// fdescOf derives the descriptor of a Go struct type (leaves of kind int, *int; structs; *structs).
func fdescOf(t reflect.Type) []*fdField {
	fs := []*fdField{}
	for i := 0; i < t.NumField(); i++ {
		sf := t.Field(i)
		f := &fdField{Name: sf.Name, Anon: sf.Anonymous}
		f.Tag, f.HasTag = sf.Tag.Lookup("json")
		ft := sf.Type
		switch {
		case ft.Kind() == reflect.Int:
			f.Kind = 'i'
		case ft.Kind() == reflect.Pointer && ft.Elem().Kind() == reflect.Int:
			f.Kind = 'p'
		case ft.Kind() == reflect.Struct:
			f.Kind, f.Sub = 's', fdescOf(ft)
		case ft.Kind() == reflect.Pointer && ft.Elem().Kind() == reflect.Struct:
			f.Kind, f.Sub = 'P', fdescOf(ft.Elem())
		default:
			panic("fdescOf: unsupported field type " + ft.String())
		}
		fs = append(fs, f)
	}
	return fs
}

func fdNeedsZoo(fs []*fdField) bool {
	for _, f := range fs {
		if f.Anon && !f.exported() {
			return true
		}
		if f.isStruct() && fdNeedsZoo(f.Sub) {
			return true
		}
	}
	return false
}

func fdStructOf(fs []*fdField) reflect.Type {
	sfs := make([]reflect.StructField, len(fs))
	for i, f := range fs {
		sf := reflect.StructField{Name: f.Name, Anonymous: f.Anon}
		if !f.exported() {
			sf.PkgPath = "main"
		}
		if f.HasTag {
			sf.Tag = reflect.StructTag("json:" + strconv.Quote(f.Tag))
		}
		switch f.Kind {
		case 'i':
			sf.Type = intType
		case 'p':
			sf.Type = reflect.PointerTo(intType)
		case 's':
			sf.Type = fdStructOf(f.Sub)
		case 'P':
			sf.Type = reflect.PointerTo(fdStructOf(f.Sub))
		}
		sfs[i] = sf
	}
	return reflect.StructOf(sfs)
}

// every struct node must be its own Go type
func fdDistinctTypes(t reflect.Type, seen map[reflect.Type]bool) bool {
	if seen[t] {
		return false
	}
	seen[t] = true
	for i := 0; i < t.NumField(); i++ {
		ft := t.Field(i).Type
		if ft.Kind() == reflect.Pointer {
			ft = ft.Elem()
		}
		if ft.Kind() == reflect.Struct && !fdDistinctTypes(ft, seen) {
			return false
		}
	}
	return true
}

// ---- the zoo: what reflect.StructOf cannot build (unexported embedded fields) ------------------------------------------

type fzInt int
type FzInt int
type fzA struct {
	X int
	Y int `json:"y"`
	z int
}
type fzB struct {
	X int `json:"X"`
	W int
}
type FzC struct {
	V int
	fzD
}
type fzD struct {
	U int `json:"u,omitempty"`
	Y int
}
type fzE struct{ K int }
type fzF struct{ K int }
type fzG struct {
	Q int
	*fzH
}
type fzH struct {
	R int `json:",string"`
	Q int `json:"q"`
}
type fzI struct{ S int }
type fzJ struct{ S int }
type fzK struct{ M int }
type fzL struct{ N int }
type fzM struct{ O int }

// unexported embedded struct, pointer to unexported embedded struct, exported and unexported embedded non-structs
type FzT1 struct {
	fzA
	*fzB
	FzInt
	fzInt
	T int
}

// nesting: exported embeds unexported; a direct field shadows a promoted one
type FzT2 struct {
	FzC
	V int `json:"v"`
	Y int
}

// unexported embedded struct with a (valid) tag name: an ordinary member in both libraries
type FzT3 struct {
	fzE `json:"e"`
	L   int
}

// two unexported embedded structs with the same field name at the same depth (collision)
type FzT4 struct {
	fzI
	*fzJ
}

// unexported pointer embedding below unexported embedding
type FzT5 struct {
	fzG
	P int `json:"-,"`
}

// a non-empty but invalid tag name on an embedded struct: embedded all the same (former finding jsonAnonymousTagMismatch, repaired)
type FzT6 struct {
	fzK `json:"'"`
	L   int
}

// a tag name on an unexported embedded non-struct: ignored all the same (former finding, repaired)
type FzT7 struct {
	fzInt `json:"n"`
	L     int
}

// the same two with pointers / exported types
type FzT8 struct {
	*fzL `json:"',omitempty"`
	*fzM `json:",omitempty"`
	L    int
}
type FzT9 struct {
	fzF `json:"-"`
	L   int `json:"fzF"`
}

var fieldsZoo = map[string]reflect.Type{}
var fieldsZooOrder []string

func init() {
	for _, v := range []any{FzT1{}, FzT2{}, FzT3{}, FzT4{}, FzT5{}, FzT6{}, FzT7{}, FzT8{}, FzT9{}} {
		t := reflect.TypeOf(v)
		d := fdPrint(fdescOf(t))
		fieldsZoo[d] = t
		fieldsZooOrder = append(fieldsZooOrder, d)
	}
}

func fdType(desc string, fs []*fdField) reflect.Type {
	if t, ok := fieldsZoo[desc]; ok {
		return t
	}
	if fdNeedsZoo(fs) {
		panic("descriptor has an unexported embedded field and is not in the zoo")
	}
	t := fdStructOf(fs)
	if back := fdPrint(fdescOf(t)); back != desc {
		panic("descriptor does not round-trip through the Go type: " + back)
	}
	return t
}

// ---- values and observables --------------------------------------------------------------------------------------------

// writable view of a field even when it is unexported
func fdSettable(v reflect.Value) reflect.Value {
	if v.CanSet() {
		return v
	}
	return reflect.NewAt(v.Type(), unsafe.Pointer(v.UnsafeAddr())).Elem()
}

// leaf id of an index path: every position + 1 as one decimal digit
func fdLeafID(path []int) int64 {
	n := int64(0)
	for _, i := range path {
		n = n*10 + int64(i+1)
	}
	return n
}

// nilEmb: leave the embedded struct pointers nil (anonymous *struct fields without a valid tag name)
var fdNilEmb bool

func fdEmbeddedPtr(sf reflect.StructField) bool {
	name, _, _ := strings.Cut(sf.Tag.Get("json"), ",")
	return sf.Anonymous && sf.Type.Kind() == reflect.Pointer && sf.Type.Elem().Kind() == reflect.Struct && !fdValidTagName(name)
}

func fdFill(v reflect.Value, path []int) {
	t := v.Type()
	if t.NumField() > 9 {
		panic("more than 9 fields in one struct")
	}
	for i := 0; i < t.NumField(); i++ {
		f := fdSettable(v.Field(i))
		p := append(append([]int{}, path...), i)
		switch {
		case f.Kind() == reflect.Int:
			f.SetInt(fdLeafID(p))
		case f.Kind() == reflect.Pointer && f.Type().Elem().Kind() == reflect.Int:
			x := reflect.New(f.Type().Elem())
			x.Elem().SetInt(fdLeafID(p))
			f.Set(x)
		case f.Kind() == reflect.Struct:
			fdFill(f, p)
		case f.Kind() == reflect.Pointer:
			if fdNilEmb && fdEmbeddedPtr(t.Field(i)) {
				continue
			}
			x := reflect.New(f.Type().Elem())
			fdFill(x.Elem(), p)
			f.Set(x)
		}
	}
}

// the members of a JSON object text, in order, by a token loop (duplicate keys stay visible)
func fdObserve(data []byte) string {
	dec := stdjson.NewDecoder(bytes.NewReader(data))
	dec.UseNumber()
	var obj func() string
	obj = func() string {
		var parts []string
		for dec.More() {
			kt, err := dec.Token()
			if err != nil {
				return "badjson"
			}
			key, ok := kt.(string)
			if !ok || strings.ContainsAny(key, ";={}\t\n ") {
				return "badkey"
			}
			vt, err := dec.Token()
			if err != nil {
				return "badjson"
			}
			switch x := vt.(type) {
			case stdjson.Delim:
				if x != '{' {
					return "badvalue"
				}
				parts = append(parts, key+"={"+obj()+"}")
			case stdjson.Number:
				parts = append(parts, key+"="+x.String())
			case string:
				parts = append(parts, key+"=s"+x)
			case nil:
				parts = append(parts, key+"=null")
			default:
				return "badvalue"
			}
		}
		if _, err := dec.Token(); err != nil { // '}'
			return "badjson"
		}
		return strings.Join(parts, ";")
	}
	if t, err := dec.Token(); err != nil || t != stdjson.Delim('{') {
		return "badjson"
	}
	return obj()
}

// ---- Go-side classification ---------------------------------------------------------------------------------------------

func fdValidTagName(s string) bool {
	if s == "" {
		return false
	}
	for i := 0; i < len(s); i++ {
		c := s[i]
		if !(strings.IndexByte("!#$%&()*+-./:;<=>?@[]^_{|}~ ", c) >= 0 || c >= '0' && c <= '9' || c >= 'a' && c <= 'z' || c >= 'A' && c <= 'Z') {
			return false
		}
	}
	return true
}

// fdCandidates: the JSON names of the candidate fields of one object (documented encoding/json rule) and the
// struct-valued candidates (objects of their own).
func fdCandidates(fs []*fdField, names *[]string, nested *[][]*fdField) {
	for _, f := range fs {
		if !f.Anon && !f.exported() {
			continue
		}
		if f.Anon && !f.exported() && !f.isStruct() {
			continue
		}
		if f.Tag == "-" {
			continue
		}
		name, _, _ := strings.Cut(f.Tag, ",")
		tagged := fdValidTagName(name)
		if f.Anon && f.isStruct() && !tagged {
			fdCandidates(f.Sub, names, nested)
			continue
		}
		if !tagged {
			name = f.Name
		}
		*names = append(*names, name)
		if f.isStruct() {
			*nested = append(*nested, f.Sub)
		}
	}
}

// any object of the value (the root or a struct-valued member) with two candidates of one JSON name
func fdCollides(fs []*fdField) bool {
	var names []string
	var nested [][]*fdField
	fdCandidates(fs, &names, &nested)
	sort.Strings(names)
	for i := 1; i < len(names); i++ {
		if names[i] == names[i-1] {
			return true
		}
	}
	for _, n := range nested {
		if fdCollides(n) {
			return true
		}
	}
	return false
}

func fdKnown(fs []*fdField) string {
	if fdCollides(fs) {
		return "jsonFieldNameCollision"
	}
	return ""
}

func init() {
	registry["C01fieldsdec"] = genFieldsDec
	registry["C01fields"] = genFields // the field-resolution cases alone (agreement runs; VH_FIELDS_N = number of random descriptors)
	// json.fieldsnil: the same with every embedded struct pointer left nil (the members behind it must be omitted)
	ops["json.fieldsnil"] = func(a []string) (string, string, string) {
		fdNilEmb = true
		defer func() { fdNilEmb = false }()
		return ops["json.fields"](a)
	}
	ops["json.fields"] = func(a []string) (string, string, string) {
		fs := fdParse(a[0])
		t := fdType(a[0], fs)
		if !fdDistinctTypes(t, map[reflect.Type]bool{}) {
			return "err:duptype", "err:duptype", ""
		}
		v := reflect.New(t).Elem()
		fdFill(v, nil)
		x := v.Interface()
		i, o := "err", "err"
		if b, err := json.Marshal(x); err == nil {
			i = fdObserve(b)
		}
		if b, err := stdjson.Marshal(x); err == nil {
			o = fdObserve(b)
		}
		return i, o, fdKnown(fs)
	}
}

// ---- generator ---------------------------------------------------------------------------------------------------------

type fgen struct {
	h    *H
	uniq int
}

var fgGoNames = []string{"A", "B", "C", "D", "E", "F", "G", "H", "I", "J"}
var fgTagNames = []string{"A", "B", "C", "D", "a", "-", "A.b", "<", "'", "A'"}
var fgTagOpts = []string{"", "", ",omitempty", ",string", ",omitempty,string", ",", ",bogus,omitempty", ",omitempty,"}

func (g *fgen) tag(f *fdField) {
	h := g.h
	switch r := h.Intn(20); {
	case r < 9: // no tag
	case r < 10:
		f.HasTag, f.Tag = true, "-"
	case r < 12:
		f.HasTag, f.Tag = true, h.Pick(fgTagOpts)
	default:
		name := fgTagNames[h.Intn(len(fgTagNames))]
		switch h.Intn(5) {
		case 0, 1:
			name = strings.ToLower(f.Name) + "_" // the usual renaming: collides only with the same renaming elsewhere
		case 2:
			name = fgTagNames[h.Intn(4)]
		}
		f.HasTag, f.Tag = true, name+h.Pick(fgTagOpts)
	}
}

func (g *fgen) structure(depth int) []*fdField {
	h := g.h
	n := h.Intn(5) + 1
	if depth > 0 && h.Intn(4) == 0 {
		n = h.Intn(2)
	}
	perm := []int{0, 1, 2, 3, 4, 5, 6, 7, 8, 9}
	for i := len(perm) - 1; i > 0; i-- {
		j := h.Intn(i + 1)
		perm[i], perm[j] = perm[j], perm[i]
	}
	sort.Ints(perm[:n])
	fs := []*fdField{}
	for i := 0; i < n; i++ {
		f := &fdField{Name: fgGoNames[perm[i]]}
		r := h.Intn(20)
		switch {
		case depth < 3 && r < 6:
			f.Anon = true
			f.Kind = 's'
			if h.Bool() {
				f.Kind = 'P'
			}
			f.Sub = g.structure(depth + 1)
		case depth < 3 && r < 8:
			f.Kind = 's'
			if h.Bool() {
				f.Kind = 'P'
			}
			f.Sub = g.structure(depth + 1)
		case r < 9:
			f.Anon, f.Kind = true, 'i'
			if h.Bool() {
				f.Kind = 'p'
			}
		case r < 10:
			f.Name = strings.ToLower(f.Name) // unexported, not embedded: ignored by both
			f.Kind = 'i'
		case r < 12:
			f.Kind = 'p'
		default:
			f.Kind = 'i'
		}
		g.tag(f)
		fs = append(fs, f)
	}
	g.uniq++
	fs = append(fs, &fdField{Name: "Z" + strconv.Itoa(g.uniq), Tag: "-", HasTag: true, Kind: 'i'})
	return fs
}

var fieldsDirected = []string{
	// agreement: embedding, pointer embedding, tags, shadowing by a direct field, one tagged among equals
	`{A:i;B"b,omitempty":i;@C:{X:i;Y"-":i;A:i};@D"d":*{X:i};e:i;F",string":p;@G:*{H:{I:i}}}`,
	`{@A:{X"X":i};@B:{X:i}}`,
	`{X:i;@A:{X"X":i;Y:i}}`,
	`{A"-,":i;B"-":i;C",":i;D"'":i;@E:i;@F:p;@G"g":i}`,
	// known finding json-field-name-collision, one case per kind
	`{A"x":i;B"x":i;C:i}`,                                       // duplicates at one level: all emitted / all dropped
	`{A"B":i;B:i}`,                                              // … one of them tagged: both emitted / the tagged one
	`{@A:{X:i;P"-":i};@B:{@C:{X:i}}}`,                           // different depths through different embedded structs: dropped / shallowest
	`{@A:{X"X":i};@B:{@C:{X:i}}}`,                               // … agreement when the shallowest is tagged
	`{@A:{@C:{X"X":i}};@B:{@D:{X:i}}}`,                          // equal depth ≥ 3, one tagged: flag lost on promotion / tagged wins
	`{@A:{X"'":i};@B:{X:i}}`,                                    // invalid tag name: untagged in both (agreement since the repair)
	`{@A:{@B:{X:i;P"-":i};@C:{X:i;Q"-":i}};@D:{@E:{@F:{X:i}}}}`, // annihilated pair no longer hides the deeper field / hides it
	`{@A:{X:i;Y:i};@B:{X:i;Y"Y":i};@C:{Y"Y":i}}`,                // equal depth: none tagged, two tagged — agreement (all dropped)
	`{A"abcdefghijklmnopq":i;B"abcdefghijklmnopq":i;C:i}`,       // duplicates with a name longer than 16 bytes: decoding finds the LAST (map), otherwise the FIRST (keyset)
	// invalid tag name on an embedded struct / pointer (former finding jsonAnonymousTagMismatch, repaired: agreement)
	`{@A"'":{Y:i};L:i}`,
	`{@A"',omitempty":*{Y:i};L:i}`,
}

func genFields(h *H) {
	for _, d := range fieldsDirected {
		h.Do("json.fields", d)
	}
	for _, d := range fieldsZooOrder {
		h.Do("json.fields", d)
		h.Do("json.fieldsnil", d)
	}
	n := 400
	if h.Thorough() {
		n = 5000
	}
	if e := os.Getenv("VH_FIELDS_N"); e != "" {
		n = atoi(e)
	}
	g := &fgen{h: h}
	for i := 0; i < n; i++ {
		g.uniq = 0
		fs := g.structure(0)
		d := fdPrint(fs)
		h.Do("json.fields", d)
		if i%4 == 0 && strings.Contains(d, ":*{") {
			h.Do("json.fieldsnil", d)
		}
		if fdCollides(fs) {
			h.Count("fields:collision", 1)
		} else {
			h.Count("fields:collisionfree", 1)
		}
	}
}

// ---- decoding through the same field list (constructStructType: keyset / fieldsIndex / ficaseIndex) --------------------------
//
// op json.fieldsdec <cpu> <descriptor> <k1=n1;k2=n2;…>: the flat object {"k1":n1,…} unmarshalled into a zero value of
// the type; observable = which int leaf holds which number afterwards (`leafid=n;…`, declaration order), `err` on an
// error. <cpu> = 1 when segmentio/asm keyset.New works on this machine (then the FIRST of several fields of one name is
// found, otherwise the map finds the LAST): the Lean model takes it as a parameter; the op refuses a wrong value.

func fdKeysetCPU() string {
	return b01(keyset.New([][]byte{[]byte("a")}) != nil)
}

type fdCand struct {
	name string
	f    *fdField
}

func fdCandList(fs []*fdField, out *[]fdCand) {
	for _, f := range fs {
		if (!f.Anon && !f.exported()) || (f.Anon && !f.exported() && !f.isStruct()) || f.Tag == "-" {
			continue
		}
		name, _, _ := strings.Cut(f.Tag, ",")
		tagged := fdValidTagName(name)
		if f.Anon && f.isStruct() && !tagged {
			fdCandList(f.Sub, out)
			continue
		}
		if !tagged {
			name = f.Name
		}
		*out = append(*out, fdCand{name, f})
	}
}

// one key per candidate name (first appearance), none for a name that a struct-valued candidate bears
func fdDecObject(fs []*fdField) string {
	var cs []fdCand
	fdCandList(fs, &cs)
	isStruct := map[string]bool{}
	for _, c := range cs {
		if c.f.isStruct() {
			isStruct[c.name] = true
		}
	}
	seen := map[string]bool{}
	var parts []string
	n := 1000
	for _, c := range cs {
		if seen[c.name] || isStruct[c.name] || strings.ContainsAny(c.name, ";=") {
			continue
		}
		seen[c.name] = true
		n++
		parts = append(parts, c.name+"="+strconv.Itoa(n))
	}
	return strings.Join(parts, ";")
}

func fdLeaves(v reflect.Value, path []int, out *[]string) {
	t := v.Type()
	for i := 0; i < t.NumField(); i++ {
		f := v.Field(i)
		p := append(append([]int{}, path...), i)
		switch {
		case f.Kind() == reflect.Int:
			if f.Int() != 0 {
				*out = append(*out, strconv.FormatInt(fdLeafID(p), 10)+"="+strconv.FormatInt(f.Int(), 10))
			}
		case f.Kind() == reflect.Pointer && f.Type().Elem().Kind() == reflect.Int:
			if !f.IsNil() {
				*out = append(*out, strconv.FormatInt(fdLeafID(p), 10)+"="+strconv.FormatInt(f.Elem().Int(), 10))
			}
		case f.Kind() == reflect.Struct:
			fdLeaves(f, p, out)
		case f.Kind() == reflect.Pointer:
			if !f.IsNil() {
				fdLeaves(f.Elem(), p, out)
			}
		}
	}
}

func init() {
	ops["json.fieldsdec"] = func(a []string) (string, string, string) {
		if a[0] != fdKeysetCPU() {
			return "err:cpuflag", "err:cpuflag", ""
		}
		fs := fdParse(a[1])
		t := fdType(a[1], fs)
		if !fdDistinctTypes(t, map[reflect.Type]bool{}) {
			return "err:duptype", "err:duptype", ""
		}
		var doc bytes.Buffer
		doc.WriteByte('{')
		for i, kv := range strings.Split(a[2], ";") {
			if kv == "" {
				continue
			}
			k, v, _ := strings.Cut(kv, "=")
			if i > 0 {
				doc.WriteByte(',')
			}
			kb, _ := stdjson.Marshal(k)
			doc.Write(kb)
			doc.WriteByte(':')
			doc.WriteString(v)
		}
		doc.WriteByte('}')
		run := func(unmarshal func([]byte, any) error) string {
			p := reflect.New(t)
			if err := unmarshal(doc.Bytes(), p.Interface()); err != nil {
				return "err"
			}
			var out []string
			fdLeaves(p.Elem(), nil, &out)
			return strings.Join(out, ";")
		}
		return run(json.Unmarshal), run(stdjson.Unmarshal), fdKnown(fs)
	}
}

func fdHasStringOpt(fs []*fdField) bool {
	for _, f := range fs {
		if _, opts, _ := strings.Cut(f.Tag, ","); strings.Contains(","+opts+",", ",string,") {
			return true
		}
		if f.isStruct() && fdHasStringOpt(f.Sub) {
			return true
		}
	}
	return false
}

func fdStripStringOpt(fs []*fdField) {
	for _, f := range fs {
		f.Tag = strings.ReplaceAll(f.Tag, ",string", ",strin")
		if f.isStruct() {
			fdStripStringOpt(f.Sub)
		}
	}
}

// decode cases: the descriptors of genFields without the `string` option (a bare number would not be accepted),
// without names that differ by case only being an issue (the model has the case-insensitive fallback too)
func genFieldsDec(h *H) {
	cpu := fdKeysetCPU()
	for _, d := range fieldsDirected {
		fs := fdParse(d)
		if fdHasStringOpt(fs) {
			continue
		}
		h.Do("json.fieldsdec", cpu, d, fdDecObject(fs))
	}
	n := 200
	if h.Thorough() {
		n = 2500
	}
	if e := os.Getenv("VH_FIELDS_N"); e != "" {
		n = atoi(e)
	}
	g := &fgen{h: h}
	for i := 0; i < n; i++ {
		g.uniq = 0
		fs := g.structure(0)
		fdStripStringOpt(fs)
		h.Do("json.fieldsdec", cpu, fdPrint(fs), fdDecObject(fs))
	}
}
