package main

// C01/C09 — codec CONSTRUCTION: which encoder a Go type gets (json/codec.go constructCodec / constructCachedCodec) and
// its independence from what the codec cache has seen before.
//
// op json.codecchoice <descriptor>: the descriptor names a value of a hand-declared ZOO of Go types (reflect cannot
// attach methods): ~30 leaf types with MarshalJSON / MarshalText on value or pointer receivers (every method returns
// a text that says WHICH method ran: "MJ-val", "MJ-ptr", "MT-val", "MT-ptr"), used as top-level value, behind a pointer,
// as slice / array element, map value, map key, field of an addressable and of a non-addressable struct, with the
// `string` option, embedded, inside an interface, and all of that nested two deep (generic wrappers).
// The descriptor is DERIVED from the Go value by reflection (czDesc): the method facts are what reflect.Implements
// answers for T and *T. The Lean driver parses it into the type-descriptor universe of Model/Json/CodecChoice.lean and
// answers with the JSON text the model's encoder tree (M) and encoding/json's rule (S) write for the canonical value.
//   I = json.Marshal of the value — computed under THREE cache histories on three copies of the zoo instantiated with
//       different tag types (so that each copy has its own, cold, codecs): (A) the value alone; (B) every component
//       of the value marshalled first, innermost first (T before []T); (C) containers of the value's type marshalled
//       first ([]X, *X, [2]X, map[string]X, struct{F X} built with reflect, then X). If the three differ: "HIST:…".
//   O = encoding/json.Marshal of the value.
//
// Descriptor grammar (no blanks; parser in lean/Enc/Driver/JsonCodec.lean):
//
//	desc   := type { '|' def }
//	def    := '#' id '=' m m m m ':' type       m = '-' | 'v' | 'p': MarshalJSON, MarshalText, UnmarshalJSON, UnmarshalText
//	                                            declared with a value receiver (T and *T implement), pointer receiver, not at all
//	type   := 'nil' | 'any{' type '}' | 'if' b b '{' type '}' | '[]' type | '[' n ']' type | 'map[' type ']' type
//	        | '*' type | '{' [ field { ';' field } ] '}' | '#' id | kind | special
//	field  := [ '@' ] NAME [ ',s' ] ':' type
//
// Canonical values: true, 7, 1.5, "s", Number "1", Duration 7, zero Time, RawMessage `[1]`; one element per slice/map,
// non-nil pointers — except that pointers, slices and maps are nil below czMaxIndir indirections (pointer targets,
// slice elements, map entries) from the root: recursive types are unrolled that far (czFill); czDesc panics if a zoo
// value does not follow the rule.

import (
	stdjson "encoding/json"
	"fmt"
	"reflect"
	"sort"
	"strings"
	"sync"
	"time"

	"github.com/segmentio/encoding/json"
)

// ---- the zoo: leaf types ---------------------------------------------------------------------------------------------

type czA struct{}
type czB struct{}
type czC struct{}

var (
	czMJv = []byte(`"MJ-val"`)
	czMJp = []byte(`"MJ-ptr"`)
	czMTv = []byte(`MT-val`)
	czMTp = []byte(`MT-ptr`)
)

// struct kind
type LN[G any] struct{ X int }
type LJv[G any] struct{ X int }
type LJp[G any] struct{ X int }
type LTv[G any] struct{ X int }
type LTp[G any] struct{ X int }
type LJvTv[G any] struct{ X int }
type LJpTv[G any] struct{ X int }
type LJvTp[G any] struct{ X int }
type LJpTp[G any] struct{ X int }

func (LJv[G]) MarshalJSON() ([]byte, error)    { return czMJv, nil }
func (*LJp[G]) MarshalJSON() ([]byte, error)   { return czMJp, nil }
func (LTv[G]) MarshalText() ([]byte, error)    { return czMTv, nil }
func (*LTp[G]) MarshalText() ([]byte, error)   { return czMTp, nil }
func (LJvTv[G]) MarshalJSON() ([]byte, error)  { return czMJv, nil }
func (LJvTv[G]) MarshalText() ([]byte, error)  { return czMTv, nil }
func (*LJpTv[G]) MarshalJSON() ([]byte, error) { return czMJp, nil }
func (LJpTv[G]) MarshalText() ([]byte, error)  { return czMTv, nil }
func (LJvTp[G]) MarshalJSON() ([]byte, error)  { return czMJv, nil }
func (*LJvTp[G]) MarshalText() ([]byte, error) { return czMTp, nil }
func (*LJpTp[G]) MarshalJSON() ([]byte, error) { return czMJp, nil }
func (*LJpTp[G]) MarshalText() ([]byte, error) { return czMTp, nil }

// integer kind (map keys, `string` option)
type IN[G any] int
type IJv[G any] int
type IJp[G any] int
type ITv[G any] int
type ITp[G any] int
type IJpTv[G any] int
type IUp[G any] int // UnmarshalText only

func (IJv[G]) MarshalJSON() ([]byte, error)    { return czMJv, nil }
func (*IJp[G]) MarshalJSON() ([]byte, error)   { return czMJp, nil }
func (ITv[G]) MarshalText() ([]byte, error)    { return czMTv, nil }
func (*ITp[G]) MarshalText() ([]byte, error)   { return czMTp, nil }
func (*IJpTv[G]) MarshalJSON() ([]byte, error) { return czMJp, nil }
func (IJpTv[G]) MarshalText() ([]byte, error)  { return czMTv, nil }
func (*IUp[G]) UnmarshalText([]byte) error     { return nil }

// string kind
type SN[G any] string
type STv[G any] string
type STp[G any] string
type SJp[G any] string

func (STv[G]) MarshalText() ([]byte, error)  { return czMTv, nil }
func (*STp[G]) MarshalText() ([]byte, error) { return czMTp, nil }
func (*SJp[G]) MarshalJSON() ([]byte, error) { return czMJp, nil }

// uint8 kind (elements of byte slices)
type BN[G any] uint8
type BJp[G any] uint8
type BTv[G any] uint8
type BTp[G any] uint8

func (*BJp[G]) MarshalJSON() ([]byte, error) { return czMJp, nil }
func (BTv[G]) MarshalText() ([]byte, error)  { return czMTv, nil }
func (*BTp[G]) MarshalText() ([]byte, error) { return czMTp, nil }

// bool / float kind
type ON[G any] bool
type FJp[G any] float64

func (*FJp[G]) MarshalJSON() ([]byte, error) { return czMJp, nil }

// slice, map, array, pointer, chan, interface kinds with methods
type VJp[G any] []int
type VTv[G any] []int
type MJv[G any] map[string]int
type MTp[G any] map[string]int
type AJp[G any] [1]int
type CJv[G any] chan int
type CN[G any] chan int
type XN[G any] complex128

func (*VJp[G]) MarshalJSON() ([]byte, error) { return czMJp, nil }
func (VTv[G]) MarshalText() ([]byte, error)  { return czMTv, nil }
func (MJv[G]) MarshalJSON() ([]byte, error)  { return czMJv, nil }
func (*MTp[G]) MarshalText() ([]byte, error) { return czMTp, nil }
func (*AJp[G]) MarshalJSON() ([]byte, error) { return czMJp, nil }
func (CJv[G]) MarshalJSON() ([]byte, error)  { return czMJv, nil }

type czMarshalerIface interface{ MarshalJSON() ([]byte, error) }
type czNamedAny[G any] interface{}

// struct-kind key with UnmarshalText only (repaired by 0a9d40c: like encoding/json the map type itself is unsupported for
// encoding, also when the map is empty or nil)
type KUp[G any] struct{ X int }

func (*KUp[G]) UnmarshalText([]byte) error { return nil }

// wrappers
type W[T any] struct{ F T }
type WP[T any] struct{ P *T }
type WS[T any] struct {
	Q T `json:",string"`
}
type WSP[T any] struct {
	Q *T `json:",string"`
}
type WA[T any] struct{ V any }              // holds a T
type WI[T any] struct{ V czMarshalerIface } // holds a T (or *T) that implements Marshaler
type WNA[T any, G any] struct{ V czNamedAny[G] }

// embedding (an embedded field cannot be a type parameter: declared one by one)
type EN[G any] struct {
	LN[G]
	Y int
}
type EPN[G any] struct {
	*LN[G]
	Y int
}
type EJp[G any] struct{ LJp[G] } // promoted (*T).MarshalJSON: the struct has the method on its pointer
type ETv[G any] struct{ LTv[G] } // promoted MarshalText: the struct has the method
type EInner[G any] struct {
	A LJp[G]
	B LTp[G]
	C IJp[G] `json:",string"`
}
type EV[G any] struct {
	EInner[G]
	Z int
}
type EP[G any] struct {
	*EInner[G]
	Z int
}
type EVV[G any] struct{ EV[G] }
type EVP[G any] struct{ EP[G] }

// recursive types
type RS[G any] struct {
	V    LJp[G]
	Next *RS[G]
	L    []RS[G]
	M    map[string]RS[G]
}
type RL[G any] []RL[G]
type RLp[G any] []RLp[G]
type RP[G any] *RP[G]
type RM[G any] map[string]RM[G]
type RA[G any] [1]*RA[G]
type RT[G any] struct {
	A LJpTv[G]
	S []struct{ B RT[G] }
}
type RE1[G any] struct {
	X LJp[G]
	O *RE2[G]
}
type RE2[G any] struct {
	Y LTp[G]
	I []RE1[G]
}

func (*RLp[G]) MarshalJSON() ([]byte, error) { return czMJp, nil }

// formerly the finding jsonEmbeddedStructUnderConstruction (repaired: structType.root): a struct that embeds a struct
// type which is under construction at that moment used to lose the promoted fields
type RB[G any] struct {
	X int
	F []struct{ RB[G] }
}
type RN[G any] struct {
	Y LJp[G]
	P *struct{ RN[G] }
}

// Since the repair of jsonEmbeddedStructUnderConstruction (structType.root) RB and RN agree with encoding/json, like the
// other shapes of a cycle through a REGULAR field below; what still differs are cycles made of EMBEDDED structs only
// (X2/Y2, X3/Y3/Z3, X4/U4: the struct types built inside the cycle, with the cut, are kept as THE struct types of
// their keys). The model has no ambiguity filter for promoted fields: the forms below are those in which the JSON
// names stay unique in what segmentio builds.
type RBp[G any] struct { // []struct{*T}
	X int
	F []struct{ *RBp[G] }
}
type RBm[G any] struct { // map value
	X int
	M map[string]struct{ RBm[G] }
}
type RM1[G any] struct { // mutual recursion
	A int
	F []struct{ RM2[G] }
}
type RM2[G any] struct {
	B int
	G []struct{ RM1[G] }
}
type RD0[G any] struct { // double embedding
	X LJp[G]
	F []struct{ RD1[G] }
}
type RD1[G any] struct{ RD0[G] }
type RQ[G any] struct { // tags, omitempty, string on promoted fields
	N int    `json:"n,string"`
	O int    `json:"o,omitempty"`
	S IJp[G] `json:",string"`
	F []struct{ RQ[G] }
}
type X2[G any] struct {
	*Y2[G]
	A int
	L []Y2[G]
}
type Y2[G any] struct {
	*X2[G]
	B int
}
type X3[G any] struct {
	*Y3[G]
	*Z3[G]
}
type Y3[G any] struct {
	*X3[G]
	B int
}
type Z3[G any] struct{ C int }
type X4[G any] struct{ *U4[G] }
type U4[G any] struct {
	*X4[G]
	B int
	F []struct{ X4[G] }
}

// czAddrForms: a value of type T in addressable positions only
func czAddrForms[T any](z T) []any {
	z2 := z
	return []any{&z, []T{z}, []*T{&z2}, map[string]*T{"s": &z2}, WP[T]{&z2}, &W[T]{z}, &[1]T{z}, []any{&z2}}
}

// ---- building the zoo ------------------------------------------------------------------------------------------------

// czForms: a value of type T in every position
func czForms[T any](z T) []any {
	z2 := z
	return []any{
		z, &z, []T{z}, [2]T{z, z}, [1]T{z}, [0]T{}, map[string]T{"s": z},
		W[T]{z}, &W[T]{z}, WP[T]{&z2}, WA[T]{z}, WA[*T]{&z2}, map[string]any{"s": z}, []any{z}, []any{&z2},
		[]*T{&z2}, map[string]*T{"s": &z2}, [1]*T{&z2}, W[[1]T]{[1]T{z}}, &W[[1]T]{[1]T{z}},
	}
}

// czForms2: two deep
func czForms2[T any](z T) []any {
	r := czForms(z)
	r = append(r, czForms([]T{z})...)
	r = append(r, czForms([2]T{z, z})...)
	r = append(r, czForms(map[string]T{"s": z})...)
	z2 := z
	r = append(r, czForms(&z2)...)
	r = append(r, czForms(W[T]{z})...)
	r = append(r, czForms(WP[T]{&z2})...)
	return r
}

// czKeyForms: T as a map key
func czKeyForms[T comparable](z T) []any {
	z2 := z
	return []any{map[T]int{z: 7}, map[*T]int{&z2: 7}, W[map[T]int]{map[T]int{z: 7}}, map[T]T{z: z}, []map[T]int{{z: 7}}}
}

// czStrForms: T (of a scalar kind) with the `string` option
func czStrForms[T any](z T) []any {
	z2 := z
	return []any{WS[T]{z}, &WS[T]{z}, WSP[T]{&z2}, &WSP[T]{&z2}, []WS[T]{{z}}, map[string]WS[T]{"s": {z}}, W[WS[T]]{WS[T]{z}}}
}

func czZoo[G any]() []any {
	var r []any
	// struct-kind leaves, two deep
	r = append(r, czForms2(LN[G]{7})...)
	r = append(r, czForms2(LJv[G]{7})...)
	r = append(r, czForms2(LJp[G]{7})...)
	r = append(r, czForms2(LTv[G]{7})...)
	r = append(r, czForms2(LTp[G]{7})...)
	r = append(r, czForms2(LJvTv[G]{7})...)
	r = append(r, czForms2(LJpTv[G]{7})...)
	r = append(r, czForms2(LJvTp[G]{7})...)
	r = append(r, czForms2(LJpTp[G]{7})...)
	// other kinds
	r = append(r, czForms2(IN[G](7))...)
	r = append(r, czForms2(IJp[G](7))...)
	r = append(r, czForms(IJv[G](7))...)
	r = append(r, czForms(ITv[G](7))...)
	r = append(r, czForms(ITp[G](7))...)
	r = append(r, czForms(IJpTv[G](7))...)
	r = append(r, czForms(IUp[G](7))...)
	r = append(r, czForms(SN[G]("s"))...)
	r = append(r, czForms(STv[G]("s"))...)
	r = append(r, czForms(STp[G]("s"))...)
	r = append(r, czForms(SJp[G]("s"))...)
	r = append(r, czForms2(BN[G](7))...)
	r = append(r, czForms2(BJp[G](7))...)
	r = append(r, czForms2(BTv[G](7))...)
	r = append(r, czForms(BTp[G](7))...)
	r = append(r, czForms(ON[G](true))...)
	r = append(r, czForms(FJp[G](1.5))...)
	r = append(r, czForms(VJp[G]{7})...)
	r = append(r, czForms(VTv[G]{7})...)
	r = append(r, czForms(MJv[G]{"s": 7})...)
	r = append(r, czForms(MTp[G]{"s": 7})...)
	r = append(r, czForms(AJp[G]{7})...)
	r = append(r, czForms(CJv[G](make(chan int)))...)
	r = append(r, czForms(CN[G](make(chan int)))...)
	r = append(r, czForms(XN[G](1))...)
	r = append(r, czForms(KUp[G]{7})...)
	// specials
	r = append(r, czForms(time.Time{})...)
	r = append(r, czForms(json.Number("1"))...)
	r = append(r, czForms(json.RawMessage(`[1]`))...)
	r = append(r, czForms(time.Duration(7))...)
	r = append(r, czForms([]byte{7})...)
	r = append(r, czForms(7)...)
	r = append(r, czForms("s")...)
	r = append(r, czForms(true)...)
	r = append(r, czForms(1.5)...)
	// map keys
	r = append(r, czKeyForms(IN[G](7))...)
	r = append(r, czKeyForms(IJv[G](7))...)
	r = append(r, czKeyForms(IJp[G](7))...)
	r = append(r, czKeyForms(ITv[G](7))...)
	r = append(r, czKeyForms(ITp[G](7))...)
	r = append(r, czKeyForms(IJpTv[G](7))...)
	r = append(r, czKeyForms(IUp[G](7))...)
	r = append(r, czKeyForms(SN[G]("s"))...)
	r = append(r, czKeyForms(STv[G]("s"))...)
	r = append(r, czKeyForms(STp[G]("s"))...)
	r = append(r, czKeyForms(LN[G]{7})...)
	r = append(r, czKeyForms(LTv[G]{7})...)
	r = append(r, czKeyForms(LTp[G]{7})...)
	r = append(r, czKeyForms(LJvTv[G]{7})...)
	r = append(r, czKeyForms(KUp[G]{7})...)
	r = append(r, czKeyForms(7)...)
	r = append(r, czKeyForms("s")...)
	r = append(r, czKeyForms(uint8(7))...)
	r = append(r, czKeyForms(time.Time{})...)
	r = append(r, czKeyForms(1.5)...)
	// `string` option
	r = append(r, czStrForms(7)...)
	r = append(r, czStrForms("s")...)
	r = append(r, czStrForms(true)...)
	r = append(r, czStrForms(1.5)...)
	r = append(r, czStrForms(IN[G](7))...)
	r = append(r, czStrForms(IJv[G](7))...)
	r = append(r, czStrForms(IJp[G](7))...)
	r = append(r, czStrForms(ITv[G](7))...)
	r = append(r, czStrForms(ITp[G](7))...)
	r = append(r, czStrForms(IJpTv[G](7))...)
	r = append(r, czStrForms(STp[G]("s"))...)
	r = append(r, czStrForms(FJp[G](1.5))...)
	r = append(r, czStrForms(json.Number("1"))...)
	r = append(r, czStrForms(LJp[G]{7})...)
	r = append(r, czStrForms([]int{7})...)
	// interfaces
	jp := LJp[G]{7}
	r = append(r, WI[LJv[G]]{LJv[G]{7}}, WI[*LJp[G]]{&jp}, WI[int]{}, []czMarshalerIface{LJv[G]{7}}, map[string]czMarshalerIface{"s": &jp},
		WNA[LJp[G], G]{jp}, WNA[*LJp[G], G]{&jp}, WA[int]{}, []any{nil}, map[string]any{"s": nil}, W[any]{[]LJp[G]{jp}}, W[any]{map[string]LJp[G]{"s": jp}},
		W[any]{W[LJp[G]]{jp}}, W[any]{&W[LJp[G]]{jp}}, W[any]{[2]LJp[G]{jp, jp}}, W[any]{&[2]LJp[G]{jp, jp}})
	// embedding
	inner := EInner[G]{LJp[G]{7}, LTp[G]{7}, 7}
	r = append(r, czForms(EN[G]{LN[G]{7}, 7})...)
	r = append(r, czForms(EPN[G]{&LN[G]{7}, 7})...)
	r = append(r, czForms(EJp[G]{LJp[G]{7}})...)
	r = append(r, czForms(ETv[G]{LTv[G]{7}})...)
	r = append(r, czForms(EV[G]{inner, 7})...)
	r = append(r, czForms(EP[G]{&inner, 7})...)
	r = append(r, czForms(EVV[G]{EV[G]{inner, 7}})...)
	r = append(r, czForms(EVP[G]{EP[G]{&inner, 7}})...)
	// recursive types: unrolled as far as the canonical rule says
	r = append(r, czForms(czFilled[RS[G]]())...)
	r = append(r, czForms(czFilled[RL[G]]())...)
	r = append(r, czForms(czFilled[RLp[G]]())...)
	r = append(r, czForms(czFilled[RP[G]]())...)
	r = append(r, czForms(czFilled[RM[G]]())...)
	r = append(r, czForms(czFilled[RA[G]]())...)
	r = append(r, czForms(czFilled[RT[G]]())...)
	r = append(r, czForms(czFilled[RE1[G]]())...)
	r = append(r, czForms(czFilled[RE2[G]]())...)
	// finding jsonEmbeddedStructUnderConstruction
	r = append(r, czForms(czFilled[RB[G]]())...)
	r = append(r, czForms(czFilled[RN[G]]())...)
	// more cycles through a regular field: agree since the repair
	r = append(r, czForms(czFilled[RBp[G]]())...)
	r = append(r, czForms(czFilled[RBm[G]]())...)
	r = append(r, czForms(czFilled[RM1[G]]())...)
	r = append(r, czForms(czFilled[RM2[G]]())...)
	r = append(r, czForms(czFilled[RD0[G]]())...)
	r = append(r, czForms(czFilled[RD1[G]]())...)
	r = append(r, czForms(czFilled[RQ[G]]())...)
	// cycles of embedded structs only: still differ (known class jsonEmbeddedStructUnderConstruction)
	r = append(r, czAddrForms(czFilled[X2[G]]())...)
	r = append(r, czAddrForms(czFilled[X3[G]]())...)
	r = append(r, czAddrForms(czFilled[X4[G]]())...)
	return r
}

// czMaxIndir: pointers, slices and maps at this many indirections from the root are nil
const czMaxIndir = 5

// czFilled: a filled value of a (recursive) type; czCanon cuts or extends it to the canonical depth of its position
func czFilled[T any]() T {
	var x T
	czFill(reflect.ValueOf(&x).Elem(), 0)
	return x
}

// czCanonical: x with every pointer, slice and map nil exactly below czMaxIndir indirections (and filled above)
func czCanonical(x any) any {
	if x == nil {
		return nil
	}
	v := reflect.New(reflect.TypeOf(x)).Elem()
	v.Set(reflect.ValueOf(x))
	czCanon(v, 0)
	return v.Interface()
}

func czCanon(v reflect.Value, indir int) {
	if v.Type() == reflect.TypeOf(json.RawMessage(nil)) {
		return // a special type: a leaf
	}
	switch v.Kind() {
	case reflect.Ptr:
		if indir >= czMaxIndir {
			v.Set(reflect.Zero(v.Type()))
			return
		}
		if v.IsNil() {
			czFill(v, indir)
			return
		}
		e := reflect.New(v.Type().Elem())
		e.Elem().Set(v.Elem())
		czCanon(e.Elem(), indir+1)
		v.Set(e)
	case reflect.Slice:
		if indir >= czMaxIndir {
			v.Set(reflect.Zero(v.Type()))
			return
		}
		if v.Len() == 0 {
			czFill(v, indir)
			return
		}
		n := reflect.MakeSlice(v.Type(), 1, 1)
		n.Index(0).Set(v.Index(0))
		czCanon(n.Index(0), indir+1)
		v.Set(n)
	case reflect.Map:
		if indir >= czMaxIndir {
			v.Set(reflect.Zero(v.Type()))
			return
		}
		if v.Len() == 0 {
			czFill(v, indir)
			return
		}
		it := v.MapRange()
		it.Next()
		k := reflect.New(v.Type().Key()).Elem()
		k.Set(it.Key())
		czCanon(k, indir+1)
		e := reflect.New(v.Type().Elem()).Elem()
		e.Set(it.Value())
		czCanon(e, indir+1)
		n := reflect.MakeMap(v.Type())
		n.SetMapIndex(k, e)
		v.Set(n)
	case reflect.Array:
		for i := 0; i < v.Len(); i++ {
			czCanon(v.Index(i), indir)
		}
	case reflect.Struct:
		for i := 0; i < v.NumField(); i++ {
			if v.Field(i).CanSet() {
				czCanon(v.Field(i), indir)
			}
		}
	case reflect.Interface:
		if !v.IsNil() {
			e := reflect.New(v.Elem().Type()).Elem()
			e.Set(v.Elem())
			czCanon(e, indir)
			v.Set(e)
		}
	}
}

func czFill(v reflect.Value, indir int) {
	switch v.Kind() {
	case reflect.Bool:
		v.SetBool(true)
	case reflect.Int, reflect.Int8, reflect.Int16, reflect.Int32, reflect.Int64:
		v.SetInt(7)
	case reflect.Uint, reflect.Uint8, reflect.Uint16, reflect.Uint32, reflect.Uint64, reflect.Uintptr:
		v.SetUint(7)
	case reflect.Float32, reflect.Float64:
		v.SetFloat(1.5)
	case reflect.String:
		v.SetString("s")
	case reflect.Ptr:
		if indir < czMaxIndir {
			v.Set(reflect.New(v.Type().Elem()))
			czFill(v.Elem(), indir+1)
		}
	case reflect.Slice:
		if indir < czMaxIndir {
			v.Set(reflect.MakeSlice(v.Type(), 1, 1))
			czFill(v.Index(0), indir+1)
		}
	case reflect.Map:
		if indir < czMaxIndir {
			v.Set(reflect.MakeMap(v.Type()))
			k := reflect.New(v.Type().Key()).Elem()
			czFill(k, indir+1)
			e := reflect.New(v.Type().Elem()).Elem()
			czFill(e, indir+1)
			v.SetMapIndex(k, e)
		}
	case reflect.Array:
		for i := 0; i < v.Len(); i++ {
			czFill(v.Index(i), indir)
		}
	case reflect.Struct:
		for i := 0; i < v.NumField(); i++ {
			if v.Field(i).CanSet() {
				czFill(v.Field(i), indir)
			}
		}
	}
}

// ---- descriptor of a value -------------------------------------------------------------------------------------------

var (
	czJSONMarshaler   = reflect.TypeOf((*stdjson.Marshaler)(nil)).Elem()
	czJSONUnmarshaler = reflect.TypeOf((*stdjson.Unmarshaler)(nil)).Elem()
	czTextMarshaler   = reflect.TypeOf((*interface{ MarshalText() ([]byte, error) })(nil)).Elem()
	czTextUnmarshaler = reflect.TypeOf((*interface{ UnmarshalText([]byte) error })(nil)).Elem()
)

type czCtx struct {
	ids  map[reflect.Type]int
	defs []string
}

func czRecv(t reflect.Type, it reflect.Type) byte {
	switch {
	case t.Implements(it):
		return 'v'
	case t.Kind() != reflect.Ptr && t.Kind() != reflect.Interface && reflect.PointerTo(t).Implements(it):
		return 'p'
	}
	return '-'
}

// typ: the descriptor of type t, looking at the value v (invalid = no value: below a nil pointer / empty slice) for
// the dynamic types held by interfaces; indir = the indirections passed from the root
func (c *czCtx) typ(t reflect.Type, v reflect.Value, indir int) string {
	if t == nil {
		return "nil"
	}
	switch t {
	case reflect.TypeOf(json.Number("")):
		return "number"
	case reflect.TypeOf(time.Duration(0)):
		return "duration"
	case reflect.TypeOf(time.Time{}):
		return "time"
	case reflect.TypeOf(json.RawMessage(nil)):
		return "raw"
	}
	if t.Name() != "" && t.PkgPath() != "" {
		id, ok := c.ids[t]
		if !ok {
			id = len(c.ids) + 1
			c.ids[t] = id
			c.defs = append(c.defs, "") // reserve the position: definitions are listed in order of first visit
			pos := len(c.defs) - 1
			m := string([]byte{czRecv(t, czJSONMarshaler), czRecv(t, czTextMarshaler), czRecv(t, czJSONUnmarshaler), czRecv(t, czTextUnmarshaler)})
			c.defs[pos] = fmt.Sprintf("#%d=%s:%s", id, m, c.under(t, v, indir))
		} else if v.IsValid() {
			c.under(t, v, indir) // checks the canonical rule on this occurrence too
		}
		return fmt.Sprintf("#%d", id)
	}
	return c.under(t, v, indir)
}

func (c *czCtx) under(t reflect.Type, v reflect.Value, indir int) string {
	has := v.IsValid()
	mustNil := indir >= czMaxIndir
	switch t.Kind() {
	case reflect.Bool:
		return "bool"
	case reflect.Int, reflect.Int8, reflect.Int16, reflect.Int32, reflect.Int64, reflect.Uint, reflect.Uint8, reflect.Uint16,
		reflect.Uint32, reflect.Uint64, reflect.Uintptr, reflect.Float32, reflect.Float64, reflect.String:
		return t.Kind().String()
	case reflect.Complex64, reflect.Complex128:
		return "complex"
	case reflect.Chan, reflect.Func, reflect.UnsafePointer:
		return "chan"
	case reflect.Interface:
		dyn := "nil"
		if has && !v.IsNil() {
			dyn = c.typ(v.Elem().Type(), v.Elem(), indir)
		}
		if t.NumMethod() == 0 {
			return "any{" + dyn + "}"
		}
		return "if" + b01(t.Implements(czJSONMarshaler)) + b01(t.Implements(czTextMarshaler)) + "{" + dyn + "}"
	case reflect.Slice:
		var e reflect.Value
		if has {
			if mustNil != (v.Len() == 0) || (!mustNil && v.Len() < 1) {
				panic(fmt.Sprintf("zoo: slice %v does not follow the canonical rule (len %d)", t, v.Len()))
			}
			if v.Len() > 0 {
				e = v.Index(0)
			}
		}
		return "[]" + c.typ(t.Elem(), e, indir+1)
	case reflect.Array:
		var e reflect.Value
		if has && v.Len() > 0 {
			e = v.Index(0)
		}
		return fmt.Sprintf("[%d]%s", t.Len(), c.typ(t.Elem(), e, indir))
	case reflect.Map:
		var k, e reflect.Value
		if has {
			if mustNil != (v.Len() == 0) {
				panic(fmt.Sprintf("zoo: map %v does not follow the canonical rule (len %d)", t, v.Len()))
			}
			if it := v.MapRange(); it.Next() {
				k, e = it.Key(), it.Value()
			}
		}
		return "map[" + c.typ(t.Key(), k, indir+1) + "]" + c.typ(t.Elem(), e, indir+1)
	case reflect.Ptr:
		var e reflect.Value
		if has {
			if mustNil != v.IsNil() {
				panic(fmt.Sprintf("zoo: pointer %v does not follow the canonical rule (nil %v)", t, v.IsNil()))
			}
			if !v.IsNil() {
				e = v.Elem()
			}
		}
		return "*" + c.typ(t.Elem(), e, indir+1)
	case reflect.Struct:
		var fs []string
		for i := 0; i < t.NumField(); i++ {
			f := t.Field(i)
			if f.PkgPath != "" {
				panic("zoo: unexported field in " + t.String())
			}
			name, opts, _ := strings.Cut(f.Tag.Get("json"), ",")
			tagged := name != ""
			if !tagged {
				name = f.Name
				if f.Anonymous {
					// the JSON name of an embedded non-struct field is the name of its type, without type arguments
					name = strings.SplitN(name, "[", 2)[0]
				}
			}
			s := ""
			if f.Anonymous && !tagged {
				s += "@"
			}
			s += name
			if opts == "string" {
				s += ",s"
			}
			var fv reflect.Value
			if has {
				fv = v.Field(i)
			}
			fs = append(fs, s+":"+c.typ(f.Type, fv, indir))
		}
		return "{" + strings.Join(fs, ";") + "}"
	}
	panic("zoo: kind " + t.Kind().String())
}

func czDesc(x any) string {
	c := &czCtx{ids: map[reflect.Type]int{}}
	v := reflect.ValueOf(x)
	var root string
	if !v.IsValid() {
		root = "nil"
	} else {
		root = c.typ(v.Type(), v, 0)
	}
	return strings.Join(append([]string{root}, c.defs...), "|")
}

// ---- the three histories ---------------------------------------------------------------------------------------------

type czEntry struct{ a, b, c any }

var (
	czOnce  sync.Once
	czIndex map[string]czEntry
	czOrder []string
)

func czInit() {
	czOnce.Do(func() {
		za, zb, zc := czZoo[czA](), czZoo[czB](), czZoo[czC]()
		for i := range za {
			za[i], zb[i], zc[i] = czCanonical(za[i]), czCanonical(zb[i]), czCanonical(zc[i])
		}
		czIndex = map[string]czEntry{}
		for i := range za {
			d := czDesc(za[i])
			if db := czDesc(zb[i]); db != d {
				panic("zoo: copies differ: " + d + " / " + db)
			}
			if _, dup := czIndex[d]; dup {
				continue
			}
			czIndex[d] = czEntry{za[i], zb[i], zc[i]}
			czOrder = append(czOrder, d)
		}
	})
}

func czOut(b []byte, err error) string {
	if err != nil {
		return "err"
	}
	return string(b)
}

// czComponents: the values inside v, innermost first
func czComponents(v reflect.Value, out *[]any, depth int) {
	if !v.IsValid() || depth > 12 {
		return
	}
	switch v.Kind() {
	case reflect.Ptr, reflect.Interface:
		if v.IsNil() {
			return
		}
		czComponents(v.Elem(), out, depth+1)
	case reflect.Slice, reflect.Array:
		for i := 0; i < v.Len(); i++ {
			czComponents(v.Index(i), out, depth+1)
		}
	case reflect.Map:
		keys := v.MapKeys()
		sort.Slice(keys, func(i, j int) bool { return fmt.Sprint(keys[i]) < fmt.Sprint(keys[j]) })
		for _, k := range keys {
			czComponents(k, out, depth+1)
			czComponents(v.MapIndex(k), out, depth+1)
		}
	case reflect.Struct:
		for i := 0; i < v.NumField(); i++ {
			czComponents(v.Field(i), out, depth+1)
		}
	}
	if v.CanInterface() {
		*out = append(*out, v.Interface())
	}
}

// czContainers: values of container types of x built with reflect (types no other case has used in this order)
func czContainers(x any) []any {
	v := reflect.ValueOf(x)
	if !v.IsValid() {
		return nil
	}
	t := v.Type()
	var r []any
	s := reflect.MakeSlice(reflect.SliceOf(t), 1, 1)
	s.Index(0).Set(v)
	r = append(r, s.Interface())
	p := reflect.New(t)
	p.Elem().Set(v)
	r = append(r, p.Interface())
	a := reflect.New(reflect.ArrayOf(2, t)).Elem()
	a.Index(0).Set(v)
	a.Index(1).Set(v)
	r = append(r, a.Interface())
	m := reflect.MakeMap(reflect.MapOf(reflect.TypeOf(""), t))
	m.SetMapIndex(reflect.ValueOf("s"), v)
	r = append(r, m.Interface())
	st := reflect.New(reflect.StructOf([]reflect.StructField{{Name: "F", Type: t}})).Elem()
	st.Field(0).Set(v)
	r = append(r, st.Interface(), st.Addr().Interface())
	return r
}

func init() {
	ops["json.codecchoice"] = func(a []string) (string, string, string) {
		czInit()
		e, ok := czIndex[a[0]]
		if !ok {
			return "no-such-zoo-value", "-", ""
		}
		// (A) alone
		ia := czOut(json.Marshal(e.a))
		// (B) components first, innermost first
		var comps []any
		czComponents(reflect.ValueOf(e.b), &comps, 0)
		for _, c := range comps {
			json.Marshal(c)
		}
		ib := czOut(json.Marshal(e.b))
		// (C) containers first
		for _, c := range czContainers(e.c) {
			json.Marshal(c)
		}
		ic := czOut(json.Marshal(e.c))
		impl := ia
		if ib != ia || ic != ia {
			impl = "HIST:" + ia + "|" + ib + "|" + ic
		}
		oracle := czOut(stdjson.Marshal(e.a))
		if strings.Contains(a[0], "duration") {
			oracle = "-" // the sanctioned difference: time.Duration is written as a quoted duration string
		}
		return impl, oracle, ""
	}
}

func genCodecChoice(h *H) {
	czInit()
	for _, d := range czOrder {
		h.DoRisky("json.codecchoice", d)
	}
	h.Count("codecchoice_zoo", int64(len(czOrder)))
}
