package main

import (
	"fmt"
	"reflect"
	"strconv"

	"github.com/segmentio/encoding/proto"
)

// Nesting limit of proto.Unmarshal (proto.maxDepth = 10000, commit b70a382) on RECURSIVE message types, which
// reflect.StructOf cannot build: hand-declared here.
//
//	proto.deepr <levels> <mode>                 recR chain built at the byte level; mode r = decode into recR,
//	                                            u = the same bytes as an unknown field of a flat message (skipped, no recursion)
//	proto.deep <leafTy> <levels> <pre> <post> <inner>
//	                                            recG[leaf]: `inner` wrapped levels-1 times as field 1; compared with the model
//	                                            (Lean driver: the unrolled type), so the counting rule — which levels count:
//	                                            messages, repeated elements, map entries and their values, not pointers —
//	                                            is checked at the limit
//	proto.recycle <ty> <val1> <val2>            decoding val2 into a target recycled from val1 (slices cut to [:0], spare
//	                                            capacity holding old elements / stale pointers) = decoding into a fresh target

type recR struct {
	Next *recR
	V    int32
}

type flatU struct {
	V int32 `protobuf:"varint,2,opt,name=v"`
}

type recG[T any] struct {
	Next *recG[T]
	V    int32
	Leaf T
}

type leafA struct{ A int32 }
type leafB struct{ B leafA }
type leafDeep struct {
	S []*struct {
		M map[string]*leafA
	}
}

// deepLeaves: Ty text (for the model) → decoder of the Go instantiation. The Ty text must describe T exactly.
var deepLeaves = map[string]func(b []byte) (string, bool){
	"i32":                           deepRun[int32],
	"st 1 f A - 0 i32":              deepRun[leafA],
	"ptr st 1 f A - 0 i32":          deepRun[*leafA],
	"ptr ptr st 1 f A - 0 i32":      deepRun[**leafA],
	"sl st 1 f A - 0 i32":           deepRun[[]leafA],
	"sl ptr st 1 f A - 0 i32":       deepRun[[]*leafA],
	"map i32 st 1 f A - 0 i32":      deepRun[map[int32]leafA],
	"map str ptr st 1 f A - 0 i32":  deepRun[map[string]*leafA],
	"map i32 i64":                   deepRun[map[int32]int64],
	"st 1 f B - 0 st 1 f A - 0 i32": deepRun[leafB],
	"st 1 f S - 0 sl ptr st 1 f M - 0 map str ptr st 1 f A - 0 i32": deepRun[leafDeep],
}

func deepRun[T any](b []byte) (string, bool) {
	var r recG[T]
	if err := proto.Unmarshal(b, &r); err != nil {
		return "", false
	}
	n := 1
	p := &r
	for p.Next != nil {
		p = p.Next
		n++
	}
	key := leafKeyOf[T]()
	return fmt.Sprintf("n=%d;v=%d;leaf=%s", n, p.V, showVal(parseTy(key), reflect.ValueOf(&p.Leaf).Elem(), true)), true
}

var leafKeys = map[reflect.Type]string{}

func leafKeyOf[T any]() string {
	var z T
	return leafKeys[reflect.TypeOf(&z).Elem()]
}

func regLeaf[T any](k string) {
	var z T
	leafKeys[reflect.TypeOf(&z).Elem()] = k
}

func init() {
	regLeaf[int32]("i32")
	regLeaf[leafA]("st 1 f A - 0 i32")
	regLeaf[*leafA]("ptr st 1 f A - 0 i32")
	regLeaf[**leafA]("ptr ptr st 1 f A - 0 i32")
	regLeaf[[]leafA]("sl st 1 f A - 0 i32")
	regLeaf[[]*leafA]("sl ptr st 1 f A - 0 i32")
	regLeaf[map[int32]leafA]("map i32 st 1 f A - 0 i32")
	regLeaf[map[string]*leafA]("map str ptr st 1 f A - 0 i32")
	regLeaf[map[int32]int64]("map i32 i64")
	regLeaf[leafB]("st 1 f B - 0 st 1 f A - 0 i32")
	regLeaf[leafDeep]("st 1 f S - 0 sl ptr st 1 f M - 0 map str ptr st 1 f A - 0 i32")

	ops["proto.deepr"] = opDeepR
	ops["proto.deep"] = opDeep
	ops["proto.recycle"] = opRecycle
}

// nestBytes wraps `inner` (the body of the innermost message) levels-1 times as field 1 (wire type 2); every enclosing
// message carries `pre` before and `post` after that field. Written backwards into one buffer (linear time).
func nestBytes(levels int, pre, post, inner []byte) []byte {
	if levels < 1 {
		levels = 1
	}
	size := len(inner) + (levels-1)*(len(pre)+len(post)+1+5) + 16
	buf := make([]byte, size)
	end := size
	// suffixes
	end -= (levels - 1) * len(post)
	for i := 0; i < levels-1; i++ {
		copy(buf[end+i*len(post):], post)
	}
	tail := size
	pos := end - len(inner)
	copy(buf[pos:], inner)
	bodyEnd := end // end of the current body (exclusive of the posts of enclosing levels)
	for i := 0; i < levels-1; i++ {
		l := uint64(bodyEnd - pos)
		var tmp [10]byte
		n := 0
		for l >= 0x80 {
			tmp[n] = byte(l) | 0x80
			l >>= 7
			n++
		}
		tmp[n] = byte(l)
		n++
		pos -= n
		copy(buf[pos:], tmp[:n])
		pos--
		buf[pos] = 0x0a
		pos -= len(pre)
		copy(buf[pos:], pre)
		bodyEnd += len(post)
	}
	return buf[pos:tail]
}

func byteSum(b []byte) uint32 {
	var s uint32
	for _, x := range b {
		s += uint32(x)
	}
	return s
}

func opDeepR(a []string) (string, string, string) {
	levels := atoi(a[0])
	b := nestBytes(levels, nil, nil, []byte{0x10, 0x07})
	want := "err"
	if levels <= 10000 {
		want = fmt.Sprintf("ok:n=%d;v=7", levels)
	}
	switch a[1] {
	case "r":
		var r recR
		if err := proto.Unmarshal(b, &r); err != nil {
			return "err", want, ""
		}
		n := 1
		p := &r
		for p.Next != nil {
			p = p.Next
			n++
		}
		return fmt.Sprintf("ok:n=%d;v=%d", n, p.V), want, ""
	case "u":
		// field 1 is not declared by flatU: the whole nest is one unknown length-delimited field, skipped without descent;
		// V (field 2) follows it
		in := append(append([]byte{}, b...), 0x10, 0x09)
		if levels > 1 {
			// b = 0a len body: already a record of field 1
		} else {
			in = append([]byte{0x0a, byte(len(b))}, in...)
		}
		var f flatU
		if err := proto.Unmarshal(in, &f); err != nil {
			return "err", "ok:v=9", ""
		}
		return fmt.Sprintf("ok:v=%d", f.V), "ok:v=9", ""
	case "s":
		// Size / Marshal of the decoded value have no limit of their own: re-encode what was decoded
		var r recR
		if err := proto.Unmarshal(b, &r); err != nil {
			return "err", want, ""
		}
		out, err := proto.Marshal(&r)
		if err != nil || proto.Size(&r) != len(out) || string(out) != string(b) {
			return "remarshal-differs", want, ""
		}
		return fmt.Sprintf("ok:n=%d;v=7", levels), want, ""
	}
	return "badmode", "-", ""
}

func opDeep(a []string) (string, string, string) {
	f, ok := deepLeaves[a[0]]
	if !ok {
		return "badleaf", "-", ""
	}
	b := nestBytes(atoi(a[1]), unhx(a[2]), unhx(a[3]), unhx(a[4]))
	hd := fmt.Sprintf("len=%d;sum=%d;", len(b), byteSum(b))
	s, ok := f(b)
	if !ok {
		return hd + "err", "-", ""
	}
	return hd + "ok:" + s, "-", ""
}

// deepInner: body of the innermost recG[T] message: V = 7 and field 3 = the leaf value, marshalled by the library itself
// from a flat wrapper with the same field numbers.
func deepInner(leafTy string, val string) []byte {
	t := parseTy("st 3 f Next - 0 ptr st 0 f V - 0 i32 f Leaf - 0 " + leafTy)
	v := parseVal(t, "t 3 nil i 7 "+val)
	b, err := proto.Marshal(v.Interface())
	if err != nil {
		panic(err)
	}
	return b
}

func (h *H) protoDeep() {
	// (1) the pure chain at the limit, as a known field and as an unknown one; Size/Marshal of the deepest accepted value
	lv := []int{1, 2, 9999, 10000, 10001, 10002, 200000}
	for _, n := range lv {
		h.DoRisky("proto.deepr", strconv.Itoa(n), "r")
		h.DoRisky("proto.deepr", strconv.Itoa(n), "u")
	}
	h.DoRisky("proto.deepr", "10000", "s")
	h.DoRisky("proto.deepr", "1000000", "r")
	h.DoRisky("proto.deepr", "1000000", "u")
	// (2) counting rule at the limit, against the model: the leaf adds 0…4 further levels
	type lc struct {
		ty, val string
		extra   int // levels the leaf value adds below the message that holds it
	}
	leaves := []lc{
		{"i32", "i 5", 0},
		{"st 1 f A - 0 i32", "t 1 i 5", 1},
		{"ptr st 1 f A - 0 i32", "p t 1 i 5", 1},
		{"ptr ptr st 1 f A - 0 i32", "p p t 1 i 5", 1},
		{"sl st 1 f A - 0 i32", "l 2 t 1 i 5 t 1 i 6", 1},
		{"sl ptr st 1 f A - 0 i32", "l 1 p t 1 i 5", 1},
		{"map i32 st 1 f A - 0 i32", "m 1 i 3 t 1 i 5", 2},
		{"map str ptr st 1 f A - 0 i32", "m 1 s 6b p t 1 i 5", 2},
		{"map i32 i64", "m 1 i 3 i 4", 1},
		{"st 1 f B - 0 st 1 f A - 0 i32", "t 1 t 1 i 5", 2},
		{"st 1 f S - 0 sl ptr st 1 f M - 0 map str ptr st 1 f A - 0 i32", "t 1 l 1 p t 1 m 1 s 6b p t 1 i 5", 4},
	}
	small := []int{1, 2, 3}
	for _, l := range leaves {
		inner := hx(deepInner(l.ty, l.val))
		for _, n := range small {
			h.Do("proto.deep", l.ty, strconv.Itoa(n), "-", "-", inner)
		}
	}
	// at the limit: levels + extra straddles maxDepth. Each such case costs the list-based model one to five seconds, so the
	// quick tier takes one depth per leaf (alternately the last accepted and the first rejected one, shifted by the seed)
	// and the thorough tier the whole window, with fields before / after the nested one.
	for i, l := range leaves {
		inner := hx(deepInner(l.ty, l.val))
		var ds []int
		if h.Thorough() {
			for d := 10000 - l.extra - 1; d <= 10001; d++ {
				ds = append(ds, d)
			}
		} else {
			ds = []int{10000 - l.extra + (i+int(h.Seed))%2}
		}
		for _, d := range ds {
			pre, post := "-", "-"
			if h.Thorough() || i == int(h.Seed)%len(leaves) {
				switch (i + d) % 3 {
				case 1:
					pre = "1003" // V before Next in every enclosing message
				case 2:
					post = "1004" // V after Next: the parents go on decoding after the deep return
				}
			}
			h.DoRisky("proto.deep", l.ty, strconv.Itoa(d), pre, post, inner)
		}
	}
}

// ---- recycled targets ----------------------------------------------------------------------------------

// recycle cuts every slice reachable from v to length 0 keeping its capacity (what a caller reusing a message does:
// m.Items = m.Items[:0]); scalars, strings, maps and pointers that stay reachable are cleared like a Reset would.
func recycle(v reflect.Value) {
	switch v.Kind() {
	case reflect.Struct:
		for i := 0; i < v.NumField(); i++ {
			recycle(v.Field(i))
		}
	case reflect.Slice:
		if v.Type().Elem().Kind() == reflect.Uint8 {
			v.Set(reflect.Zero(v.Type()))
			return
		}
		if !v.IsNil() {
			v.Set(v.Slice(0, 0)) // old elements (and the pointers in them) stay in the spare capacity
		}
	case reflect.Ptr, reflect.Map:
		v.Set(reflect.Zero(v.Type()))
	default:
		v.Set(reflect.Zero(v.Type()))
	}
}

func opRecycle(a []string) (string, string, string) {
	t := parseTy(a[0])
	v1 := parseVal(t, a[1])
	v2 := parseVal(t, a[2])
	b1, err1 := proto.Marshal(v1.Interface())
	b2, err2 := proto.Marshal(v2.Interface())
	if err1 != nil || err2 != nil {
		return "marshal-err", "-", ""
	}
	fresh := reflect.New(t.Reflect())
	ef := proto.Unmarshal(b2, fresh.Interface())
	tgt := reflect.New(t.Reflect())
	if err := proto.Unmarshal(b1, tgt.Interface()); err != nil {
		return "first-decode-err", "-", ""
	}
	// keep what the caller may still hold: the old elements
	recycle(tgt.Elem())
	if len(b2) == 0 {
		// Unmarshal of an empty input resets the target (documented): nothing to compare beyond that
		er := proto.Unmarshal(b2, tgt.Interface())
		return fmt.Sprintf("%v:%s", er == nil, showVal(t, tgt.Elem(), true)), fmt.Sprintf("%v:%s", ef == nil, showVal(t, fresh.Elem(), true)), ""
	}
	er := proto.Unmarshal(b2, tgt.Interface())
	return fmt.Sprintf("%v:%s", er == nil, showVal(t, tgt.Elem(), true)), fmt.Sprintf("%v:%s", ef == nil, showVal(t, fresh.Elem(), true)), ""
}

// genRecycleType: messages with repeated message / pointer fields (where spare capacity matters), nested two levels
func (h *H) genRecycleType(depth int) *Ty {
	t := &Ty{K: "st"}
	n := 1 + h.Intn(4)
	for i := 0; i < n; i++ {
		var ft *Ty
		switch r := h.Intn(10); {
		case r < 3:
			ft = &Ty{K: protoScalars[h.Intn(len(protoScalars))]}
		case r < 6 && depth < 2:
			ft = &Ty{K: "sl", Elem: h.genRecycleType(depth + 1)}
		case r < 8 && depth < 2:
			ft = &Ty{K: "sl", Elem: &Ty{K: "ptr", Elem: h.genRecycleType(depth + 1)}}
		case r < 9:
			ft = &Ty{K: "sl", Elem: &Ty{K: "ptr", Elem: &Ty{K: []string{"i32", "str", "u64", "bool"}[h.Intn(4)]}}}
		default:
			ft = &Ty{K: "sl", Elem: &Ty{K: []string{"i32", "str", "bytes", "f64"}[h.Intn(4)]}}
		}
		t.Fields = append(t.Fields, Field{Name: fmt.Sprintf("F%d", i), T: ft})
	}
	return t
}

func (h *H) protoRecycle() {
	N := 300
	if h.Thorough() {
		N = 4000
	}
	for i := 0; i < N; i++ {
		t := h.genRecycleType(0)
		v1 := h.genVal(t, 0)
		v2 := h.genVal(t, 0)
		if nilPtrInCollection(v1) || nilPtrInCollection(v2) {
			continue
		}
		h.DoRisky("proto.recycle", t.String(), showVal(t, v1, false), showVal(t, v2, false))
		// the sparse variant: the second message has the same shape with every scalar zeroed, so whatever the old
		// elements held shows through absent fields
		h.DoRisky("proto.recycle", t.String(), showVal(t, v1, false), showVal(t, zeroLeaves(v1), false))
	}
}
