package main

// C01/C02/C09 — codec CONSTRUCTION, the DECODE half: which decoder a Go type gets (json/codec.go constructCodec: the
// unmarshaler switch, map keys, the `string` option, embedded pointers, interfaces) and its independence from what the
// codec cache has seen before.
//
// op json.codecchoicedec <descriptor> <variant>: the descriptor (grammar and derivation: c01codec.go) names a value of
// the zoo — here the zoo of c01codec.go instantiated with new tag types plus leaf types with UnmarshalJSON /
// UnmarshalText methods, in every position. Every method RECORDS a code in the value it is called on: 101 UnmarshalJSON
// on a pointer receiver (111 when called with `null`), 102 UnmarshalText on a pointer receiver, 103 / 113 / 104 the same
// on value receivers (visible only through a non-nil slice or map).
// The CANONICAL DOCUMENT of the value is written by kind alone (dzDoc; the Lean driver computes the same text from the
// descriptor; of the members with the same name — cycles of embedded pointers — the shallowest one is written) and
// unmarshalled
//   full   into a fresh target          fullp  into a target pre-filled with the canonical value
//   n0/n1/n2  pre-filled target, every value at JSON depth 0/1/2 replaced by null
//   alt    fresh target, the two forms of byte slices (base64 string / array of numbers) swapped
//   I = "<doc> => <dump of the target>" (or "err") after segmentio json.Unmarshal, under THREE cache histories on three
//       copies of the zoo: (A) alone; (B) every component of the value unmarshalled first, innermost first; (C) containers
//       of the value's type unmarshalled first. If the three differ: "HIST:…".
//   O = the same after encoding/json.Unmarshal.
// Dump (dzDump): nil, &v, [a,b], {k:v,…} (maps sorted by key dump), {Name:v,…} (JSON names), <kind:v> (interfaces).

import (
	stdjson "encoding/json"
	"fmt"
	"reflect"
	"sort"
	"strconv"
	"strings"
	"sync"
	"time"

	"github.com/segmentio/encoding/json"
)

type dzA struct{}
type dzB struct{}
type dzC struct{}

func dzCode(b []byte, base int) int {
	if string(b) == "null" {
		return base + 10
	}
	return base
}

// ---- leaf types with unmarshaling methods ----------------------------------------------------------------------------

// struct kind
type DLJp[G any] struct{ X int }
type DLTp[G any] struct{ X int }
type DLJpTp[G any] struct{ X int }
type DLJv[G any] struct{ X int }
type DLTv[G any] struct{ X int }

func (p *DLJp[G]) UnmarshalJSON(b []byte) error   { p.X = dzCode(b, 101); return nil }
func (p *DLTp[G]) UnmarshalText(b []byte) error   { p.X = 102; return nil }
func (p *DLJpTp[G]) UnmarshalJSON(b []byte) error { p.X = dzCode(b, 101); return nil }
func (p *DLJpTp[G]) UnmarshalText(b []byte) error { p.X = 102; return nil }
func (DLJv[G]) UnmarshalJSON(b []byte) error      { return nil }
func (DLTv[G]) UnmarshalText(b []byte) error      { return nil }

// integer kind
type DIJp[G any] int
type DITp[G any] int
type DIJpTp[G any] int

func (p *DIJp[G]) UnmarshalJSON(b []byte) error   { *p = DIJp[G](dzCode(b, 101)); return nil }
func (p *DITp[G]) UnmarshalText(b []byte) error   { *p = 102; return nil }
func (p *DIJpTp[G]) UnmarshalJSON(b []byte) error { *p = DIJpTp[G](dzCode(b, 101)); return nil }
func (p *DIJpTp[G]) UnmarshalText(b []byte) error { *p = 102; return nil }

// string kind
type DSJp[G any] string
type DSTp[G any] string

func (p *DSJp[G]) UnmarshalJSON(b []byte) error {
	*p = DSJp[G](strconv.Itoa(dzCode(b, 101)))
	return nil
}
func (p *DSTp[G]) UnmarshalText(b []byte) error { *p = "102"; return nil }

// uint8 kind (elements of byte slices), float kind
type DBJp[G any] uint8
type DBTp[G any] uint8
type DFJp[G any] float64

func (p *DBJp[G]) UnmarshalJSON(b []byte) error { *p = DBJp[G](dzCode(b, 101)); return nil }
func (p *DBTp[G]) UnmarshalText(b []byte) error { *p = 102; return nil }
func (p *DFJp[G]) UnmarshalJSON(b []byte) error { *p = DFJp[G](dzCode(b, 101)); return nil }

// slice, map, array kinds
type DVJp[G any] []int
type DVTp[G any] []int
type DVJv[G any] []int
type DMJp[G any] map[string]int
type DMTp[G any] map[string]int
type DMJv[G any] map[string]int
type DMTv[G any] map[string]int
type DAJp[G any] [1]int

func (p *DVJp[G]) UnmarshalJSON(b []byte) error { *p = DVJp[G]{dzCode(b, 101)}; return nil }
func (p *DVTp[G]) UnmarshalText(b []byte) error { *p = DVTp[G]{102}; return nil }
func (v DVJv[G]) UnmarshalJSON(b []byte) error {
	if len(v) > 0 {
		v[0] = dzCode(b, 103)
	}
	return nil
}
func (p *DMJp[G]) UnmarshalJSON(b []byte) error { *p = DMJp[G]{"s": dzCode(b, 101)}; return nil }
func (p *DMTp[G]) UnmarshalText(b []byte) error { *p = DMTp[G]{"s": 102}; return nil }
func (m DMJv[G]) UnmarshalJSON(b []byte) error {
	if m != nil {
		m["s"] = dzCode(b, 103)
	}
	return nil
}
func (m DMTv[G]) UnmarshalText(b []byte) error {
	if m != nil {
		m["s"] = 104
	}
	return nil
}
func (p *DAJp[G]) UnmarshalJSON(b []byte) error { p[0] = dzCode(b, 101); return nil }

type dzUnmarshalerIface interface{ UnmarshalJSON([]byte) error }

type WUI[T any] struct{ V dzUnmarshalerIface } // holds a *T

// embedding
type DEJp[G any] struct{ DLJp[G] } // promoted (*T).UnmarshalJSON
type DETp[G any] struct{ DLTp[G] }
type DInner[G any] struct {
	A DLJp[G]
	B DLTp[G]
	C DIJp[G] `json:",string"`
	D *DLJp[G]
}
type DEV[G any] struct {
	DInner[G]
	Z int
}
type DEP[G any] struct {
	*DInner[G]
	Z int
}
type DEVV[G any] struct{ DEV[G] }
type DEVP[G any] struct{ DEP[G] }

// recursive types with unmarshaler leaves
type DRS[G any] struct {
	V    DLJp[G]
	T    DLTp[G]
	Next *DRS[G]
	L    []DRS[G]
	M    map[string]DRS[G]
}
type DRT[G any] struct {
	A DLJpTp[G]
	S []struct{ B DRT[G] }
}
type DRE1[G any] struct {
	X DLJp[G]
	O *DRE2[G]
}
type DRE2[G any] struct {
	Y DLTp[G]
	I []DRE1[G]
}

// the repair of jsonEmbeddedStructUnderConstruction (json/codec.go structType.root): a struct that embeds a struct type
// which is under construction further up, through a REGULAR field, lists its fields a second time
type DRB[G any] struct { // T struct{ X; F []struct{ T } } with unmarshaler leaves
	X int
	V DLJp[G]
	F []struct{ DRB[G] }
}
type DRBp[G any] struct { // []struct{ *T }
	X int
	F []struct{ *DRBp[G] }
}
type DRM1[G any] struct { // mutual recursion
	X int
	F []struct{ DRM2[G] }
}
type DRM2[G any] struct {
	Y DLTp[G]
	H map[string]struct{ *DRM1[G] }
}
type DD1[G any] struct { // double embedding: DD2 embeds DD3 embeds DD1
	X int
	F []DD2[G]
}
type DD2[G any] struct{ DD3[G] }
type DD3[G any] struct {
	*DD1[G]
	Z int
}
type DRQ[G any] struct { // promoted fields with the `string` option
	X int      `json:",string"`
	P *int     `json:",string"`
	C DIJp[G]  `json:",string"`
	S *DSTp[G] `json:",string"`
	F []struct{ DRQ[G] }
}
type DRNp[G any] struct { // through a pointer field
	Y DLJp[G]
	P *struct{ DRNp[G] }
	M map[string]*struct{ *DRNp[G] }
}

// what still differs from encoding/json: cycles made of EMBEDDED structs only (nothing is promoted where the cycle
// closes, and the struct types built on the way are kept)
type DX2[G any] struct {
	*DY2[G]
	A int
	L []DY2[G]
}
type DY2[G any] struct {
	*DX2[G]
	B int
}
type DX3[G any] struct {
	*DY3[G]
	*DZ3[G]
}
type DY3[G any] struct {
	*DX3[G]
	B int
}
type DZ3[G any] struct{ C int }
type DX4[G any] struct{ *DU4[G] }
type DU4[G any] struct {
	*DX4[G]
	B int
	F []struct{ DX4[G] }
}

type DP3[G any] struct { // the struct type of X3 built on the way (inside Y3) is kept for the regular field Q
	P *DY3[G]
	Q *DX3[G]
}
type DP4[G any] struct {
	P *DU4[G]
	Q *DX4[G]
}

// ---- the zoo -----------------------------------------------------------------------------------------------------------

// dzPPForms: pointers to pointers to T
func dzPPForms[T any, G any](z T) []any {
	p := &z
	pp := &p
	p2 := &z
	pp2 := &p2
	return []any{pp, &pp, W[**T]{pp}, []**T{pp}, map[string]**T{"s": pp}, WA[**T]{pp2}, WNA[**T, G]{pp2}, WA[***T]{&pp2}, [1]**T{pp}}
}

// dzAddrForms: a value of type T in the positions where it is addressable for the construction (behind a pointer, as a
// slice element, in an addressable struct). The cycles of embedded structs are decoded in these positions only: as a
// non-addressable value the struct type of (T, false) promotes the fields of (T, true) again — the same JSON names at two
// depths, which appendStructFields then filters (the shallower one wins); that filter is not part of the construction model
// (Model/Json/Fields.lean). A pointer held by an interface is decoded through the cache entry of T itself: (T, false).
func dzAddrForms[T any](z T) []any {
	z2 := z
	return []any{
		&z, []T{z}, &W[T]{z}, WP[T]{&z2}, []*T{&z2}, map[string]*T{"s": &z2}, [1]*T{&z2},
		&W[[1]T]{[1]T{z}}, &[]T{z}, W[[]T]{[]T{z}}, &[2]T{z, z},
	}
}

func dzZoo[G any]() []any {
	var r []any
	// struct-kind leaves, two deep
	r = append(r, czForms2(DLJp[G]{7})...)
	r = append(r, czForms2(DLTp[G]{7})...)
	r = append(r, czForms2(DLJpTp[G]{7})...)
	r = append(r, czForms(DLJv[G]{7})...)
	r = append(r, czForms(DLTv[G]{7})...)
	// other kinds
	r = append(r, czForms2(DIJp[G](7))...)
	r = append(r, czForms(DITp[G](7))...)
	r = append(r, czForms(DIJpTp[G](7))...)
	r = append(r, czForms(DSJp[G]("s"))...)
	r = append(r, czForms(DSTp[G]("s"))...)
	r = append(r, czForms2(DBJp[G](7))...)
	r = append(r, czForms2(DBTp[G](7))...)
	r = append(r, czForms(DFJp[G](1.5))...)
	r = append(r, czForms(DVJp[G]{7})...)
	r = append(r, czForms(DVTp[G]{7})...)
	r = append(r, czForms(DVJv[G]{7})...)
	r = append(r, czForms(DMJp[G]{"s": 7})...)
	r = append(r, czForms(DMTp[G]{"s": 7})...)
	r = append(r, czForms(DMJv[G]{"s": 7})...)
	r = append(r, czForms(DMTv[G]{"s": 7})...)
	r = append(r, czForms(DAJp[G]{7})...)
	// map keys
	r = append(r, czKeyForms(DIJp[G](7))...)
	r = append(r, czKeyForms(DITp[G](7))...)
	r = append(r, czKeyForms(DIJpTp[G](7))...)
	r = append(r, czKeyForms(DSJp[G]("s"))...)
	r = append(r, czKeyForms(DSTp[G]("s"))...)
	r = append(r, czKeyForms(DLJp[G]{7})...)
	r = append(r, czKeyForms(DLTp[G]{7})...)
	r = append(r, czKeyForms(DLJpTp[G]{7})...)
	r = append(r, czKeyForms(DLTv[G]{7})...)
	r = append(r, czKeyForms(json.Number("1"))...)
	r = append(r, czKeyForms(time.Duration(7))...)
	// `string` option
	r = append(r, czStrForms(DIJp[G](7))...)
	r = append(r, czStrForms(DITp[G](7))...)
	r = append(r, czStrForms(DIJpTp[G](7))...)
	r = append(r, czStrForms(DSJp[G]("s"))...)
	r = append(r, czStrForms(DSTp[G]("s"))...)
	r = append(r, czStrForms(DFJp[G](1.5))...)
	r = append(r, czStrForms(DLJp[G]{7})...)
	r = append(r, czStrForms(time.Duration(7))...)
	// pointers to pointers
	r = append(r, dzPPForms[DLJp[G], G](DLJp[G]{7})...)
	r = append(r, dzPPForms[DLTp[G], G](DLTp[G]{7})...)
	r = append(r, dzPPForms[int, G](7)...)
	r = append(r, dzPPForms[DMTp[G], G](DMTp[G]{"s": 7})...)
	r = append(r, dzPPForms[[]int, G]([]int{7})...)
	// interfaces
	jp := DLJp[G]{7}
	jpp := &jp
	r = append(r, WUI[DLJp[G]]{&jp}, WUI[int]{}, []dzUnmarshalerIface{&jp}, map[string]dzUnmarshalerIface{"s": &jp},
		WNA[DLJp[G], G]{jp}, WNA[*DLJp[G], G]{&jp}, WNA[**DLJp[G], G]{&jpp},
		W[any]{[]DLJp[G]{jp}}, W[any]{&[]DLJp[G]{jp}}, W[any]{map[string]DLJp[G]{"s": jp}}, W[any]{&map[string]DLJp[G]{"s": jp}},
		W[any]{&W[DLJp[G]]{jp}}, W[any]{&[2]DLJp[G]{jp, jp}}, W[any]{&WA[*DLJp[G]]{&jp}})
	// embedding
	inner := DInner[G]{DLJp[G]{7}, DLTp[G]{7}, 7, &DLJp[G]{7}}
	r = append(r, czForms(DEJp[G]{DLJp[G]{7}})...)
	r = append(r, czForms(DETp[G]{DLTp[G]{7}})...)
	r = append(r, czForms(DEV[G]{inner, 7})...)
	r = append(r, czForms(DEP[G]{&inner, 7})...)
	r = append(r, czForms(DEVV[G]{DEV[G]{inner, 7}})...)
	r = append(r, czForms(DEVP[G]{DEP[G]{&inner, 7}})...)
	// unnamed structs with promoted methods
	r = append(r, czForms(struct{ DLJp[G] }{DLJp[G]{7}})...)
	r = append(r, czForms(struct{ DLTp[G] }{DLTp[G]{7}})...)
	r = append(r, czForms(struct {
		DLJp[G]
		Z int
	}{DLJp[G]{7}, 7})...)
	r = append(r, czKeyForms(struct{ DLTp[G] }{DLTp[G]{7}})...)
	// recursive types
	r = append(r, czForms(czFilled[DRS[G]]())...)
	r = append(r, czForms(czFilled[DRT[G]]())...)
	r = append(r, czForms(czFilled[DRE1[G]]())...)
	r = append(r, czForms(czFilled[DRE2[G]]())...)
	// embedded struct types under construction: listed a second time
	r = append(r, czForms(czFilled[DRB[G]]())...)
	r = append(r, czForms(czFilled[DRBp[G]]())...)
	r = append(r, czForms(czFilled[DRM1[G]]())...)
	r = append(r, czForms(czFilled[DRM2[G]]())...)
	r = append(r, czForms(czFilled[DD1[G]]())...)
	r = append(r, czForms(czFilled[DD2[G]]())...)
	r = append(r, czForms(czFilled[DD3[G]]())...)
	r = append(r, czForms(czFilled[DRQ[G]]())...)
	r = append(r, czForms(czFilled[DRNp[G]]())...)
	// cycles of embedded structs: still different from encoding/json
	r = append(r, dzAddrForms(czFilled[DX2[G]]())...)
	r = append(r, dzAddrForms(czFilled[DY2[G]]())...)
	r = append(r, dzAddrForms(czFilled[DX3[G]]())...)
	r = append(r, dzAddrForms(czFilled[DY3[G]]())...)
	r = append(r, dzAddrForms(czFilled[DX4[G]]())...)
	r = append(r, dzAddrForms(czFilled[DU4[G]]())...)
	r = append(r, dzAddrForms(czFilled[DP3[G]]())...)
	r = append(r, dzAddrForms(czFilled[DP4[G]]())...)
	return r
}

// ---- canonical document ------------------------------------------------------------------------------------------------

type dzJ struct {
	kind byte // 'n' null, 'l' literal (text as written), 'a' array, 'o' object
	text string
	elts []dzJ
	keys []string
}

func (j dzJ) render() string {
	switch j.kind {
	case 'n':
		return "null"
	case 'l':
		return j.text
	case 'a':
		s := make([]string, len(j.elts))
		for i, e := range j.elts {
			s[i] = e.render()
		}
		return "[" + strings.Join(s, ",") + "]"
	}
	s := make([]string, len(j.elts))
	for i, e := range j.elts {
		s[i] = strconv.Quote(j.keys[i]) + ":" + e.render()
	}
	return "{" + strings.Join(s, ",") + "}"
}

func (j dzJ) nullAt(k int) dzJ {
	if k == 0 {
		return dzJ{kind: 'n'}
	}
	if j.kind != 'a' && j.kind != 'o' {
		return j
	}
	r := dzJ{kind: j.kind, keys: j.keys, elts: make([]dzJ, len(j.elts))}
	for i, e := range j.elts {
		r.elts[i] = e.nullAt(k - 1)
	}
	return r
}

func dzFieldName(f reflect.StructField) (name string, emb, str bool) {
	nm, opts, _ := strings.Cut(f.Tag.Get("json"), ",")
	tagged := nm != ""
	if !tagged {
		nm = f.Name
		if f.Anonymous {
			nm = strings.SplitN(nm, "[", 2)[0]
		}
	}
	return nm, f.Anonymous && !tagged, opts == "string"
}

func dzIsInt(k reflect.Kind) bool {
	switch k {
	case reflect.Int, reflect.Int8, reflect.Int16, reflect.Int32, reflect.Int64, reflect.Uint, reflect.Uint8, reflect.Uint16,
		reflect.Uint32, reflect.Uint64, reflect.Uintptr:
		return true
	}
	return false
}

func dzIsScalar(k reflect.Kind) bool {
	return dzIsInt(k) || k == reflect.Bool || k == reflect.Float32 || k == reflect.Float64 || k == reflect.String
}

func dzLit(s string) dzJ { return dzJ{kind: 'l', text: s} }

// dzDoc: the canonical document of the canonical value v, by kind alone
func dzDoc(v reflect.Value, alt bool) dzJ {
	t := v.Type()
	switch t {
	case reflect.TypeOf(json.Number("")):
		return dzLit("1")
	case reflect.TypeOf(time.Duration(0)):
		return dzLit("7")
	case reflect.TypeOf(time.Time{}):
		return dzLit(`"0001-01-01T00:00:00Z"`)
	case reflect.TypeOf(json.RawMessage(nil)):
		return dzJ{kind: 'a', elts: []dzJ{dzLit("1")}}
	}
	switch k := t.Kind(); k {
	case reflect.Bool:
		return dzLit("true")
	case reflect.Float32, reflect.Float64:
		return dzLit("1.5")
	case reflect.String:
		return dzLit(`"s"`)
	case reflect.Ptr:
		if v.IsNil() {
			return dzJ{kind: 'n'}
		}
		return dzDoc(v.Elem(), alt)
	case reflect.Interface:
		if v.IsNil() {
			return dzJ{kind: 'n'}
		}
		return dzDoc(v.Elem(), alt)
	case reflect.Slice:
		if v.IsNil() {
			return dzJ{kind: 'n'}
		}
		if t.Elem().Kind() == reflect.Uint8 {
			p := reflect.PointerTo(t.Elem())
			hasUnm := p.Implements(czJSONUnmarshaler) || p.Implements(czTextUnmarshaler)
			if hasUnm == alt {
				return dzLit(`"Bw=="`)
			}
		}
		return dzJ{kind: 'a', elts: []dzJ{dzDoc(v.Index(0), alt)}}
	case reflect.Array:
		j := dzJ{kind: 'a'}
		for i := 0; i < v.Len(); i++ {
			j.elts = append(j.elts, dzDoc(v.Index(i), alt))
		}
		return j
	case reflect.Map:
		if v.IsNil() {
			return dzJ{kind: 'n'}
		}
		key := "s"
		if dzIsInt(t.Key().Kind()) {
			key = "7"
		}
		it := v.MapRange()
		it.Next()
		return dzJ{kind: 'o', keys: []string{key}, elts: []dzJ{dzDoc(it.Value(), alt)}}
	case reflect.Struct:
		j := dzJ{kind: 'o'}
		var depths []int
		dzDocFields(v, alt, &j, &depths, 0)
		return dzShallowest(j, depths)
	default:
		if dzIsInt(k) {
			return dzLit("7")
		}
	}
	return dzJ{kind: 'n'}
}

// dzShallowest: of the members with the same name (promoted through a cycle of embedded pointers) the shallowest one
// is written, the first one of these
func dzShallowest(j dzJ, depths []int) dzJ {
	r := dzJ{kind: 'o'}
	for i, k := range j.keys {
		keep := true
		for i2, k2 := range j.keys {
			if k2 == k && (depths[i2] < depths[i] || (depths[i2] == depths[i] && i2 < i)) {
				keep = false
			}
		}
		if keep {
			r.keys = append(r.keys, k)
			r.elts = append(r.elts, j.elts[i])
		}
	}
	return r
}

func dzDocFields(v reflect.Value, alt bool, j *dzJ, depths *[]int, depth int) {
	t := v.Type()
	for i := 0; i < t.NumField(); i++ {
		f := t.Field(i)
		name, emb, str := dzFieldName(f)
		typ := f.Type
		if typ.Kind() == reflect.Ptr && typ.Name() == "" {
			typ = typ.Elem()
		}
		if emb && typ.Kind() == reflect.Struct && typ != reflect.TypeOf(time.Time{}) {
			fv := v.Field(i)
			if f.Type.Kind() == reflect.Ptr {
				if fv.IsNil() {
					continue
				}
				fv = fv.Elem()
			}
			dzDocFields(fv, alt, j, depths, depth+1)
			continue
		}
		d := dzDoc(v.Field(i), alt)
		if str && dzIsScalar(typ.Kind()) && d.kind != 'n' {
			d = dzLit(strconv.Quote(d.render()))
		}
		j.keys = append(j.keys, name)
		j.elts = append(j.elts, d)
		*depths = append(*depths, depth)
	}
}

// ---- dump ----------------------------------------------------------------------------------------------------------------

func dzDump(v reflect.Value) string {
	t := v.Type()
	switch t {
	case reflect.TypeOf(json.Number("")):
		return strconv.Quote(v.String())
	case reflect.TypeOf(time.Time{}):
		return "T" + v.Interface().(time.Time).Format(time.RFC3339)
	case reflect.TypeOf(json.RawMessage(nil)):
		if v.IsNil() {
			return "nil"
		}
		return "raw:" + string(v.Bytes())
	}
	switch t.Kind() {
	case reflect.Bool:
		return strconv.FormatBool(v.Bool())
	case reflect.Int, reflect.Int8, reflect.Int16, reflect.Int32, reflect.Int64:
		return strconv.FormatInt(v.Int(), 10)
	case reflect.Uint, reflect.Uint8, reflect.Uint16, reflect.Uint32, reflect.Uint64, reflect.Uintptr:
		return strconv.FormatUint(v.Uint(), 10)
	case reflect.Float32, reflect.Float64:
		return strconv.FormatFloat(v.Float(), 'g', -1, 64)
	case reflect.String:
		return strconv.Quote(v.String())
	case reflect.Ptr:
		if v.IsNil() {
			return "nil"
		}
		return "&" + dzDump(v.Elem())
	case reflect.Interface:
		if v.IsNil() {
			return "nil"
		}
		return "<" + v.Elem().Kind().String() + ":" + dzDump(v.Elem()) + ">"
	case reflect.Slice, reflect.Array:
		if t.Kind() == reflect.Slice && v.IsNil() {
			return "nil"
		}
		s := make([]string, v.Len())
		for i := range s {
			s[i] = dzDump(v.Index(i))
		}
		return "[" + strings.Join(s, ",") + "]"
	case reflect.Map:
		if v.IsNil() {
			return "nil"
		}
		var es [][2]string
		for it := v.MapRange(); it.Next(); {
			es = append(es, [2]string{dzDump(it.Key()), dzDump(it.Value())})
		}
		sort.Slice(es, func(i, j int) bool { return es[i][0] < es[j][0] })
		s := make([]string, len(es))
		for i, e := range es {
			s[i] = e[0] + ":" + e[1]
		}
		return "{" + strings.Join(s, ",") + "}"
	case reflect.Struct:
		var s []string
		for i := 0; i < t.NumField(); i++ {
			name, _, _ := dzFieldName(t.Field(i))
			s = append(s, name+":"+dzDump(v.Field(i)))
		}
		return "{" + strings.Join(s, ",") + "}"
	}
	return "nil" // chan, func, complex: not in this zoo
}

// ---- the op --------------------------------------------------------------------------------------------------------------

var dzVariants = []string{"full", "fullp", "n0", "n1", "n2", "alt"}

type dzEntry struct {
	a, b, c any
	own     bool                 // a value of dzZoo (false: of the zoo of the encode side)
	res     map[string][2]string // variant -> impl, oracle (computed on first use)
}

var (
	dzOnce  sync.Once
	dzIndex map[string]*dzEntry
	dzOrder []string
)

// dzEmbCycle: the struct type t lies on a cycle of embedded structs (through at most one unnamed pointer each)
func dzEmbCycle(t reflect.Type) bool {
	seen := map[reflect.Type]bool{}
	var walk func(s reflect.Type) bool
	walk = func(s reflect.Type) bool {
		for i := 0; i < s.NumField(); i++ {
			f := s.Field(i)
			_, emb, _ := dzFieldName(f)
			typ := f.Type
			if typ.Kind() == reflect.Ptr && typ.Name() == "" {
				typ = typ.Elem()
			}
			if !emb || typ.Kind() != reflect.Struct {
				continue
			}
			if typ == t {
				return true
			}
			if !seen[typ] {
				seen[typ] = true
				if walk(typ) {
					return true
				}
			}
		}
		return false
	}
	return walk(t)
}

// dzHeldCycle: an interface in v holds a pointer to a struct type on a cycle of embedded structs. Such a pointer is
// decoded through the cache entry of the struct type itself — the non-addressable construction, which promotes the
// fields of the addressable one again: the same JSON names at two depths, left to the ambiguity filter of
// appendStructFields (not part of the construction model, see dzAddrForms). Not decoded here.
func dzHeldCycle(v reflect.Value) bool {
	switch v.Kind() {
	case reflect.Interface:
		if v.IsNil() {
			return false
		}
		e := v.Elem()
		if e.Kind() == reflect.Ptr && e.Type().Elem().Kind() == reflect.Struct && dzEmbCycle(e.Type().Elem()) {
			return true
		}
		return dzHeldCycle(e)
	case reflect.Ptr:
		return !v.IsNil() && dzHeldCycle(v.Elem())
	case reflect.Slice, reflect.Array:
		for i := 0; i < v.Len(); i++ {
			if dzHeldCycle(v.Index(i)) {
				return true
			}
		}
	case reflect.Map:
		for it := v.MapRange(); it.Next(); {
			if dzHeldCycle(it.Value()) {
				return true
			}
		}
	case reflect.Struct:
		for i := 0; i < v.NumField(); i++ {
			if dzHeldCycle(v.Field(i)) {
				return true
			}
		}
	}
	return false
}

func dzInit() {
	dzOnce.Do(func() {
		za, zb, zc := dzZoo[dzA](), dzZoo[dzB](), dzZoo[dzC]()
		nOwn := len(za)
		// the zoo of the encode side too (decoded by kind: no unmarshaling methods but IUp, KUp), without chan / complex
		za, zb, zc = append(za, czZoo[dzA]()...), append(zb, czZoo[dzB]()...), append(zc, czZoo[dzC]()...)
		dzIndex = map[string]*dzEntry{}
		for i := range za {
			if za[i] == nil {
				continue
			}
			za[i], zb[i], zc[i] = czCanonical(za[i]), czCanonical(zb[i]), czCanonical(zc[i])
			d := czDesc(za[i])
			if strings.Contains(d, "chan") || strings.Contains(d, "complex") {
				continue
			}
			if dzHeldCycle(reflect.ValueOf(&za[i]).Elem()) {
				continue
			}
			if db := czDesc(zb[i]); db != d {
				panic("zoo: copies differ: " + d + " / " + db)
			}
			if _, dup := dzIndex[d]; dup {
				continue
			}
			dzIndex[d] = &dzEntry{a: za[i], b: zb[i], c: zc[i], own: i < nOwn}
			dzOrder = append(dzOrder, d)
		}
	})
}

// dzVariantDoc: the document of a variant; ok = false when the variant adds nothing (same document as `full`)
func dzVariantDoc(x any, variant string) (doc string, prefilled, ok bool) {
	v := reflect.ValueOf(x)
	full := dzDoc(v, false)
	switch variant {
	case "full":
		return full.render(), false, true
	case "fullp":
		return full.render(), true, true
	case "alt":
		d := dzDoc(v, true).render()
		return d, false, d != full.render()
	case "n0", "n1", "n2":
		d := full.nullAt(int(variant[1] - '0')).render()
		return d, true, d != full.render()
	}
	return "", false, false
}

type dzUnmarshal func([]byte, any) error

// dzRun: unmarshal the document of the variant into a fresh / pre-filled target of the type of x
func dzRun(um dzUnmarshal, x any, variant string) string {
	doc, prefilled, _ := dzVariantDoc(x, variant)
	t := reflect.TypeOf(x)
	p := reflect.New(t)
	if prefilled {
		p.Elem().Set(reflect.ValueOf(czCanonical(x)))
	}
	if err := um([]byte(doc), p.Interface()); err != nil {
		return doc + " => err"
	}
	return doc + " => " + dzDump(p.Elem())
}

// dzWarm: unmarshal the canonical document of x into a fresh value of its type (cache history)
func dzWarm(x any) {
	if x == nil {
		return
	}
	v := reflect.ValueOf(x)
	json.Unmarshal([]byte(dzDoc(v, false).render()), reflect.New(v.Type()).Interface())
}

func (e *dzEntry) compute() {
	e.res = map[string][2]string{}
	var ia, ib, ic = map[string]string{}, map[string]string{}, map[string]string{}
	// (A) alone
	for _, v := range dzVariants {
		ia[v] = dzRun(json.Unmarshal, e.a, v)
	}
	// (B) components first, innermost first
	var comps []any
	czComponents(reflect.ValueOf(e.b), &comps, 0)
	for _, c := range comps {
		dzWarm(c)
	}
	for _, v := range dzVariants {
		ib[v] = dzRun(json.Unmarshal, e.b, v)
	}
	// (C) containers first
	for _, c := range czContainers(e.c) {
		dzWarm(c)
	}
	for _, v := range dzVariants {
		ic[v] = dzRun(json.Unmarshal, e.c, v)
	}
	for _, v := range dzVariants {
		impl := ia[v]
		if ib[v] != impl || ic[v] != impl {
			impl = "HIST:" + ia[v] + "|" + ib[v] + "|" + ic[v]
		}
		e.res[v] = [2]string{impl, dzRun(stdjson.Unmarshal, e.a, v)}
	}
}

func init() {
	ops["json.codecchoicedec"] = func(a []string) (string, string, string) {
		dzInit()
		e, ok := dzIndex[a[0]]
		if !ok {
			return "no-such-zoo-value", "-", ""
		}
		if e.res == nil {
			e.compute()
		}
		r, ok := e.res[a[1]]
		if !ok {
			return "no-such-variant", "-", ""
		}
		return r[0], r[1], ""
	}
}

func genCodecChoiceDec(h *H) {
	dzInit()
	n := 0
	for _, d := range dzOrder {
		// quick tier: the values of the encode-side zoo are sampled (one in four)
		if !h.Thorough() && !dzIndex[d].own && h.Intn(4) != 0 {
			continue
		}
		for _, v := range dzVariants {
			if _, _, ok := dzVariantDoc(dzIndex[d].a, v); !ok {
				continue
			}
			h.DoRisky("json.codecchoicedec", d, v)
			n++
		}
	}
	h.Count("codecchoicedec_zoo", int64(len(dzOrder)))
	h.Count("codecchoicedec_cases", int64(n))
}

var _ = fmt.Sprint
