package main

import (
	"bytes"
	"fmt"
	"io"
	"strings"

	"github.com/segmentio/encoding/json"
)

// C11, second half: InputOffset / Buffered.
//
//	json.streamoff <events> <final>
//
// Decode is called on a Decoder over the scripted reader until the THIRD call that does not return a value (so a Decoder
// that has already failed is called again). Observable: per call `InputOffset/len(Buffered)/class` (class V, EOF, ERR,
// RERR), then three checks made here on the real code:
//
//	mono   : InputOffset never decreased from one call to the next (successful or not)
//	bounds : after each successful Decode, end of the value just returned <= InputOffset <= start of the next value
//	         (positions found by scanning the concatenated input: white space, the value's bytes, white space)
//	cons   : after every call, input[:InputOffset] ++ Buffered ++ what the reader has not delivered yet == whole input
//
// Oracle: the same per-call list with all three checks true (the property only bounds the offset, so encoding/json's own
// InputOffset is not comparable; its Decoder is the oracle of the value stream in json.stream).
func init() {
	ops["json.streamoff"] = func(a []string) (string, string, string) {
		evs, all := parseEvents(a[0])
		final := error(io.EOF)
		if a[1] != "eof" {
			final = errScripted
		}
		rd := &scriptedReader{evs: evs, final: final}
		dec := json.NewDecoder(rd)
		var out []string
		mono, bounds, cons := true, true, true
		lastOff := int64(0)
		pos := 0 // end of the previous value in `all`
		fails := 0
		isWS := func(c byte) bool { return c == ' ' || c == '\t' || c == '\n' || c == '\r' }
		for len(out) < 200000 {
			var v json.RawMessage
			err := dec.Decode(&v)
			off := dec.InputOffset()
			buffered, _ := io.ReadAll(dec.Buffered())
			cl := "V"
			if err != nil {
				cl = endClass(err, final)
			}
			out = append(out, fmt.Sprintf("%d/%d/%s", off, len(buffered), cl))
			if off < lastOff {
				mono = false
			}
			lastOff = off
			if off < 0 || off > int64(len(all)) || !bytes.Equal(append(append([]byte{}, buffered...), rd.rest()...), all[off:]) {
				cons = false
			}
			if err == nil {
				start := pos
				for start < len(all) && isWS(all[start]) {
					start++
				}
				end := start + len(v)
				next := end
				for next < len(all) && isWS(all[next]) {
					next++
				}
				if end > len(all) || !bytes.Equal(all[start:end], v) || off < int64(end) || off > int64(next) {
					bounds = false
				}
				pos = end
			} else {
				fails++
				if fails == 3 {
					break
				}
			}
		}
		list := strings.Join(out, ",")
		impl := list + ";mono=" + b01(mono) + ";bounds=" + b01(bounds) + ";cons=" + b01(cons)
		return impl, list + ";mono=1;bounds=1;cons=1", ""
	}
}

// the chunking scripts of runC11 (values straddling 4096 / 32768 / 65536, chunk sizes 1.., zero-length reads, data
// delivered together with EOF, failing readers), observed through json.streamoff
func runC11off(h *H) {
	N := 120
	if h.Thorough() {
		N = 2000
	}
	for i := 0; i < N; i++ {
		var all []byte
		nv := 1 + h.Intn(12)
		target := []int{0, 0, 32768, 65536, 4096, 36864}[h.Intn(6)]
		for k := 0; k < nv; k++ {
			var v []byte
			switch h.Intn(8) {
			case 0:
				v = []byte(fmt.Sprintf("%d", h.U64()))
			case 1:
				v = []byte(`"` + strings.Repeat("x", h.Intn(9000)) + `"`)
			case 2:
				v = []byte("[" + strings.Repeat("1234567890,", h.Intn(4000)) + "1]")
			case 3:
				v = []byte(h.Pick([]string{"true", "false", "null", "0", "-1.5e10", "12345"}))
			default:
				v = h.genJSON(0)
			}
			if target > 0 && k == nv/2 {
				want := target - len(all) - h.Intn(len(v)+1)
				if want > 0 {
					all = append(all, bytes.Repeat([]byte{' '}, want)...)
				}
			}
			all = append(all, v...)
			// white space runs between values, some long enough to straddle a refill on their own
			all = append(all, []byte(h.Pick([]string{" ", "\n", "\n\n", " \t ", "", "", "  \r\n  "}))...)
			if h.Intn(12) == 0 {
				all = append(all, bytes.Repeat([]byte{'\n'}, h.Intn(5000))...)
			}
			if len(v) > 0 && (v[len(v)-1] >= '0' && v[len(v)-1] <= '9' || v[len(v)-1] == 'e' || v[len(v)-1] == 'l') && !bytes.HasSuffix(all, []byte(" ")) && !bytes.HasSuffix(all, []byte("\n")) {
				all = append(all, ' ')
			}
		}
		if h.Intn(5) == 0 {
			all = h.mutateJSON(all)
		}
		if len(all) > 300000 {
			all = all[:300000]
		}
		modes := []int{0, 2, 3, 4}
		if len(all) < 3000 {
			modes = append(modes, 1)
		}
		for _, m := range modes {
			ch := h.chunk(all, m)
			h.Do("json.streamoff", evString(ch, -1), "eof")
		}
		ch := h.chunk(all, 4)
		h.Do("json.streamoff", evString(ch, len(ch)-1), "eof")
		cut := h.Intn(len(ch) + 1)
		h.Do("json.streamoff", evString(ch[:cut], -1), "other")
		if cut > 0 {
			h.Do("json.streamoff", evString(ch[:cut], cut-1), "other")
		}
		if len(all) > 1 {
			k := 1 + h.Intn(len(all)-1)
			h.Do("json.streamoff", "d:"+hx(all[:k]), "other")
		}
	}
	// short streams: terminal error / EOF at every offset, 1-byte reads, zero-length reads in between
	for _, s := range []string{`{"a":[1,2,{"b":null}]} 12 "x" true`, `123 456`, `"abc" [] {}`, ` 1 `, `  [1]  {}  `, `nul`, `[1,2`, `{"a"`, `1e`, `-`, `1 x 2`, "\n\n7\n\n8\n\n"} {
		b := []byte(s)
		for cut := 0; cut <= len(b); cut++ {
			var ch [][]byte
			for i := 0; i < cut; i++ {
				ch = append(ch, b[i:i+1])
				if i%3 == 2 {
					ch = append(ch, []byte{})
				}
			}
			h.Do("json.streamoff", evString(ch, -1), "eof")
			h.Do("json.streamoff", evString(ch, -1), "other")
			if len(ch) > 0 {
				h.Do("json.streamoff", evString(ch, len(ch)-1), "other")
				h.Do("json.streamoff", evString(ch, len(ch)-1), "eof")
			}
		}
	}
}
