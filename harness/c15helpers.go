package main

import (
	"bytes"
	stdjson "encoding/json"
	"fmt"
	"strconv"
	"strings"

	"github.com/segmentio/encoding/json"
)

// C15 / C01 — the Append-style string helpers of the json package on explicit destinations.
//
// json.strhelper <api> <hex input> <html 0/1> <prefix len> <spare>
//   api = escape | appendescape | unescape | appendunescape | unquote | appendunquote
// The destination of the append* forms is carved out of one backing array [ prefix | spare | guard ] exactly as in
// obliviousCheck; escape / unescape / unquote take no destination (prefix len and spare are 0).
//   I = ok:<hex of the whole result> | panic | wrote-below-len | wrote-beyond-cap | oblivious:<first deviation>
//       (for prefix 0 / spare 0 the call is also swept by obliviousCheck over its prefix x spare grid and adversarial tails)
//   O = the encoding/json equivalent where there is one: Marshal of the string (SetEscapeHTML per flag) for the escapers;
//       Unmarshal into a string for the unescapers when it succeeds; for unquote, `panic` when the token starts with a
//       quote and Unmarshal rejects it
//   M = slice model (Model/Json/StrHelpers.lean), S = prefix ++ specification (Spec/Json/StrHelpers.lean)

func stdEscape(s string, html bool) []byte {
	var bb bytes.Buffer
	e := stdjson.NewEncoder(&bb)
	e.SetEscapeHTML(html)
	if err := e.Encode(s); err != nil {
		return nil
	}
	return bytes.TrimSuffix(bb.Bytes(), []byte("\n"))
}

// strHelperCall runs one helper on destination b (ignored by the forms without destination); panics are reported.
func strHelperCall(api string, in []byte, html bool, b []byte) (res []byte, panicked bool) {
	defer func() {
		if r := recover(); r != nil {
			res, panicked = nil, true
		}
	}()
	fl := json.AppendFlags(0)
	if html {
		fl = json.EscapeHTML
	}
	switch api {
	case "escape":
		return json.Escape(string(in)), false
	case "appendescape":
		return json.AppendEscape(b, string(in), fl), false
	case "unescape":
		return json.Unescape(in), false
	case "appendunescape":
		return json.AppendUnescape(b, in, 0), false
	case "unquote":
		return json.RawValue(in).Unquote(), false
	case "appendunquote":
		return json.RawValue(in).AppendUnquote(b), false
	}
	panic("json.strhelper: unknown api " + api)
}

func init() {
	ops["json.strhelper"] = func(a []string) (string, string, string) {
		api := a[0]
		in := unhx(a[1])
		html := a[2] == "1"
		pl, _ := strconv.Atoi(a[3])
		sp, _ := strconv.Atoi(a[4])
		hasDst := strings.HasPrefix(api, "append")

		arr := make([]byte, pl+sp+guardLen)
		for i := range arr {
			if i < pl {
				arr[i] = patternByte(i)
			} else {
				arr[i] = 0xEE
			}
		}
		prefix := append([]byte(nil), arr[:pl]...)
		input := append([]byte(nil), in...)
		res, panicked := strHelperCall(api, input, html, arr[:pl:pl+sp])
		impl := ""
		switch {
		case panicked:
			impl = "panic"
		default:
			impl = "ok:" + hx(res)
		}
		for i := 0; i < pl; i++ {
			if arr[i] != patternByte(i) {
				impl = "wrote-below-len"
			}
		}
		for i := pl + sp; i < len(arr); i++ {
			if arr[i] != 0xEE {
				impl = "wrote-beyond-cap"
			}
		}
		if !bytes.Equal(input, in) {
			impl = "wrote-into-input"
		}
		if hasDst && pl == 0 && sp == 0 {
			r := obliviousCheck(func(b []byte) ([]byte, error) {
				out, p := strHelperCall(api, append([]byte(nil), in...), html, b)
				if p {
					return b, fmt.Errorf("panic")
				}
				return out, nil
			})
			if r != "ok" {
				impl = "oblivious:" + r
			}
		}

		oracle := "-"
		switch api {
		case "escape", "appendescape":
			h := html || api == "escape"
			if q := stdEscape(string(in), h); q != nil {
				oracle = "ok:" + hx(append(prefix, q...))
			}
		case "unescape", "appendunescape":
			var s string
			if err := stdjson.Unmarshal(in, &s); err == nil && len(in) > 0 && (in[0] == '"' || in[0] == 'n') {
				oracle = "ok:" + hx(append(prefix, s...))
			}
		case "unquote", "appendunquote":
			if len(in) > 0 && in[0] == '"' {
				var s string
				if err := stdjson.Unmarshal(in, &s); err != nil {
					oracle = "panic"
				} else if in[len(in)-1] == '"' {
					oracle = "ok:" + hx(append(prefix, s...))
				}
			}
		}
		return impl, oracle, ""
	}
}

// strHelperInputs: raw strings (to be escaped; their quoted forms are then unescaped / unquoted) chosen for the buffer
// arithmetic of appendRune (a \uXXXX escape within the last 1..4 bytes of the output), surrogate pairs, invalid UTF-8,
// every two-character escape, and every length 0..40.
func strHelperFixed() (raws [][]byte, quoted [][]byte) {
	raws = [][]byte{
		nil, []byte("a"), []byte("café"), []byte("\"\\/\b\f\n\r\t"), []byte("<>&"), []byte("  "), []byte("\xff"), []byte("ab\xc3"),
		[]byte("\xe2\x80"), []byte("\xf0\x9f\x98"), []byte("\xed\xa0\x80"), []byte("\U0001F600"), []byte("12345678"), []byte("1234567\""),
		[]byte("12345678\x01"), []byte("abcdefghé"), []byte("\x00\x1f\x7f"), []byte("null"), []byte("\"quoted\""),
	}
	for n := 0; n <= 40; n++ {
		b := make([]byte, n)
		for i := range b {
			b[i] = byte('a' + i%26)
		}
		raws = append(raws, b)
		if n%4 == 1 {
			c := append([]byte(nil), b...)
			c[n-1] = 0x01 // control byte at the very end: \u0001
			raws = append(raws, c)
		}
	}
	quoted = [][]byte{
		[]byte(`"caf\u00e9"`), []byte(`"\u00e9"`), []byte(`"a\u00e9"`), []byte(`"ab\u00e9"`), []byte(`"abc\u00e9"`), []byte(`"\u0041"`), []byte(`"abc\u0041"`),
		[]byte(`"abcd\u20ac"`), []byte(`"\u20acx"`), []byte(`"\u20acxy"`), []byte(`"\u20acxyz"`), []byte(`"\u00e9z"`), []byte(`"\u00e9zz"`), []byte(`"\u00e9zzz"`),
		[]byte(`"\ud83d\ude00"`), []byte(`"x\ud83d\ude00"`), []byte(`"\ud83d"`), []byte(`"\ud83dx"`), []byte(`"\ude00\ud83d"`), []byte(`"\ud83d\u0041"`), []byte(`"\ud83d\ud83d\ude00"`),
		[]byte(`"\"\\\/\b\f\n\r\t"`), []byte(`"\u0000"`), []byte(`"\uD83D\uDE00"`), []byte(`"\uFFFD"`), []byte("\"\xff\""), []byte("\"a\xc3\""), []byte("\"\xe2\x80\\n\""),
		[]byte("\"caf\xc3\xa9\""), []byte(`""`), []byte(`"plain ascii"`), []byte(`"12345678"`), []byte(`"1234567\n"`), []byte(`"123456789012345\t"`),
		// malformed / not a lone string token
		nil, []byte(`"`), []byte(`"abc`), []byte(`abc"`), []byte(`"\x"`), []byte(`"\u12"`), []byte(`"\u12G4"`), []byte(`"\ud83d\u12"`), []byte(`"\`), []byte(`"a\"`),
		[]byte("\"a\nb\""), []byte("\"a\x01\""), []byte(`"a"x`), []byte(`"a" `), []byte(` "a"`), []byte(`"a""b"`), []byte(`"a\n"x`), []byte(`null`), []byte(`nullx`), []byte(`nul`),
		[]byte(`123`), []byte(`true`), []byte(`{"a":1}`), []byte(`"caf\u00e9"]`), []byte(`"\u00e9`), []byte("\"\xc3\xa9\"\"\\"),
	}
	return
}

func (h *H) strHelperCases(api string, in []byte, html string) {
	arg := hx(in)
	switch api {
	case "escape", "unescape", "unquote":
		h.DoRisky("json.strhelper", api, arg, html, "0", "0")
		return
	}
	out, _ := strHelperCall(api, append([]byte(nil), in...), html == "1", nil)
	n := len(out)
	pls := []int{0, 1 + h.Intn(9)}
	if h.Intn(4) == 0 {
		pls = append(pls, 61)
	}
	seen := map[[2]int]bool{}
	for _, pl := range pls {
		for _, sp := range []int{0, n - 1, n, n + 1, n + 2, n + 3, 2 * n} {
			if sp < 0 || seen[[2]int{pl, sp}] {
				continue
			}
			if pl != 0 && sp != 0 && h.Intn(2) == 0 { // thin the non-empty-prefix grid
				continue
			}
			seen[[2]int{pl, sp}] = true
			h.DoRisky("json.strhelper", api, arg, html, strconv.Itoa(pl), strconv.Itoa(sp))
		}
	}
}

func runC15Helpers(h *H) {
	raws, quoted := strHelperFixed()
	R, Q := 10, 10
	if h.Thorough() {
		R, Q = 600, 1500
	} else {
		// quick: a rotating third of the length ladder, every special string
		var keep [][]byte
		for i, r := range raws {
			if i < 19 || (i+int(h.Seed))%3 == 0 {
				keep = append(keep, r)
			}
		}
		raws = keep
	}
	for i := 0; i < R; i++ {
		s := h.genJSONString()
		if len(s) >= 2 {
			s = s[1 : len(s)-1]
		}
		raws = append(raws, s)
	}
	for i := 0; i < Q; i++ {
		s := h.genJSONString()
		switch h.Intn(8) {
		case 0: // a \u escape close to the end
			tail := []string{`\u00e9`, `\u0041`, `\u20ac`, `\ud83d\ude00`, `\ud83d`}[h.Intn(5)] + strings.Repeat("z", h.Intn(4))
			s = append(append(s[:len(s)-1:len(s)-1], tail...), '"')
		case 1: // damage
			if len(s) > 2 {
				s = s[:1+h.Intn(len(s)-1)]
			}
		case 2:
			s = append(s, []byte{' ', 'x', '"', ','}[h.Intn(4)])
		}
		quoted = append(quoted, s)
	}
	for _, r := range raws {
		html := h.Pick([]string{"0", "1"})
		h.strHelperCases("escape", r, "1")
		h.strHelperCases("appendescape", r, html)
		q := json.AppendEscape(nil, string(r), json.AppendFlags(0))
		h.strHelperCases("unescape", q, "0")
		if h.Intn(3) == 0 {
			h.strHelperCases("appendunquote", q, "0")
		}
	}
	for _, q := range quoted {
		h.strHelperCases("unescape", q, "0")
		h.strHelperCases("unquote", q, "0")
		h.strHelperCases("appendunescape", q, "0")
		h.strHelperCases("appendunquote", q, "0")
	}
}
