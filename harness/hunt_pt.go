package main

// Directed regression cases for defects of the proto and thrift packages that were found and repaired (one group per
// repair commit; the commit is named at each group). Expected observables are written from the wire-format
// specifications (hand-assembled bytes) or from Go values rendered by this file's own renderer, never from the library.

import (
	"bytes"
	"encoding/binary"
	"errors"
	"fmt"
	"io"
	"reflect"
	"sort"
	"strconv"
	"strings"

	"github.com/segmentio/encoding/proto"
	"github.com/segmentio/encoding/thrift"
)

func init() {
	ops["hunt.proto"] = huntProtoOp
	ops["hunt.thrift"] = huntThriftOp
	huntHooks["C03"] = append(huntHooks["C03"], genHuntC03)
	huntHooks["C07"] = append(huntHooks["C07"], genHuntC07)
	huntHooks["C12"] = append(huntHooks["C12"], genHuntC12)
	huntHooks["C19"] = append(huntHooks["C19"], genHuntC19)
	huntHooks["C04"] = append(huntHooks["C04"], genHuntC04)
	huntHooks["C08"] = append(huntHooks["C08"], genHuntC08)
	huntHooks["C13"] = append(huntHooks["C13"], genHuntC13)
}

// ---- renderer -----------------------------------------------------------------------------------

// huntShow renders a Go value canonically: pointers are followed (nil pointer "nil"), nil and empty slices / maps are
// the same, map entries are sorted, byte sequences are hex.
func huntShow(x any) string {
	var sb strings.Builder
	huntShowV(&sb, reflect.ValueOf(x))
	return sb.String()
}

func huntShowV(sb *strings.Builder, v reflect.Value) {
	switch v.Kind() {
	case reflect.Invalid:
		sb.WriteString("nil")
	case reflect.Ptr, reflect.Interface:
		if v.IsNil() {
			sb.WriteString("nil")
			return
		}
		if v.Kind() == reflect.Ptr {
			sb.WriteString("&")
		}
		huntShowV(sb, v.Elem())
	case reflect.Struct:
		sb.WriteString("{")
		for i := 0; i < v.NumField(); i++ {
			if i > 0 {
				sb.WriteString(" ")
			}
			sb.WriteString(v.Type().Field(i).Name + ":")
			huntShowV(sb, v.Field(i))
		}
		sb.WriteString("}")
	case reflect.Slice, reflect.Array:
		if v.Type().Elem().Kind() == reflect.Uint8 {
			sb.WriteString("x'")
			for i := 0; i < v.Len(); i++ {
				fmt.Fprintf(sb, "%02x", v.Index(i).Uint())
			}
			sb.WriteString("'")
			return
		}
		sb.WriteString("[")
		for i := 0; i < v.Len(); i++ {
			if i > 0 {
				sb.WriteString(" ")
			}
			huntShowV(sb, v.Index(i))
		}
		sb.WriteString("]")
	case reflect.Map:
		var es []string
		it := v.MapRange()
		for it.Next() {
			var e strings.Builder
			huntShowV(&e, it.Key())
			e.WriteString(":")
			huntShowV(&e, it.Value())
			es = append(es, e.String())
		}
		sort.Strings(es)
		sb.WriteString("map[" + strings.Join(es, " ") + "]")
	case reflect.String:
		sb.WriteString(strconv.Quote(v.String()))
	case reflect.Bool:
		sb.WriteString(strconv.FormatBool(v.Bool()))
	case reflect.Int, reflect.Int8, reflect.Int16, reflect.Int32, reflect.Int64:
		sb.WriteString(strconv.FormatInt(v.Int(), 10))
	case reflect.Uint, reflect.Uint8, reflect.Uint16, reflect.Uint32, reflect.Uint64, reflect.Uintptr:
		sb.WriteString(strconv.FormatUint(v.Uint(), 10))
	case reflect.Float32, reflect.Float64:
		sb.WriteString(strconv.FormatFloat(v.Float(), 'g', -1, 64))
	default:
		sb.WriteString("?" + v.Kind().String())
	}
}

// ---- protobuf wire format, from the encoding specification -------------------------------------------

func huntUv(v uint64) []byte {
	var b []byte
	for v >= 0x80 {
		b = append(b, byte(v)|0x80)
		v >>= 7
	}
	return append(b, byte(v))
}

func huntCat(bs ...[]byte) []byte {
	var out []byte
	for _, b := range bs {
		out = append(out, b...)
	}
	return out
}

// field of wire type 0 / 2 / 5 / 1
func huntPV(num int, v uint64) []byte { return huntCat(huntUv(uint64(num)<<3|0), huntUv(v)) }
func huntPLD(num int, p []byte) []byte {
	return huntCat(huntUv(uint64(num)<<3|2), huntUv(uint64(len(p))), p)
}
func huntPS(num int, s string) []byte { return huntPLD(num, []byte(s)) }
func huntPF32(num int, v uint32) []byte {
	return binary.LittleEndian.AppendUint32(huntUv(uint64(num)<<3|5), v)
}
func huntPF64(num int, v uint64) []byte {
	return binary.LittleEndian.AppendUint64(huntUv(uint64(num)<<3|1), v)
}
func huntFill(n int, first byte) []byte { // n distinct-looking bytes
	b := make([]byte, n)
	for i := range b {
		b[i] = first + byte(i*7)
	}
	return b
}

// ---- types with their own encoding methods ---------------------------------------------------------

func huntKV(m map[string]string) []byte { // "k=v;" in key order
	ks := make([]string, 0, len(m))
	for k := range m {
		ks = append(ks, k)
	}
	sort.Strings(ks)
	var b []byte
	for _, k := range ks {
		b = append(b, k+"="+m[k]+";"...)
	}
	return b
}

func huntUnKV(b []byte) map[string]string {
	m := map[string]string{}
	for _, e := range strings.Split(string(b), ";") {
		if k, v, ok := strings.Cut(e, "="); ok {
			m[k] = v
		}
	}
	return m
}

// huntMapMsg / huntMapCus: map kind (pointer-shaped), proto.Message / gogoproto custom methods
type huntMapMsg map[string]string

func (m huntMapMsg) Size() int                 { return len(huntKV(m)) }
func (m huntMapMsg) Marshal(b []byte) error    { copy(b, huntKV(m)); return nil }
func (m *huntMapMsg) Unmarshal(b []byte) error { *m = huntUnKV(b); return nil }

type huntMapCus map[string]string

func (m huntMapCus) Size() int                       { return len(huntKV(m)) }
func (m huntMapCus) MarshalTo(b []byte) (int, error) { return copy(b, huntKV(m)), nil }
func (m *huntMapCus) Unmarshal(b []byte) error       { *m = huntUnKV(b); return nil }

// huntPtrMsg / huntPtrCus: struct whose only field is a pointer (pointer-shaped)
type huntPtrMsg struct{ p *string }

func (m huntPtrMsg) text() string {
	if m.p == nil {
		return ""
	}
	return *m.p
}
func (m huntPtrMsg) Size() int              { return len(m.text()) }
func (m huntPtrMsg) Marshal(b []byte) error { copy(b, m.text()); return nil }
func (m *huntPtrMsg) Unmarshal(b []byte) error {
	s := string(b)
	m.p = &s
	return nil
}

type huntPtrCus struct{ p *string }

func (m huntPtrCus) text() string {
	if m.p == nil {
		return ""
	}
	return *m.p
}
func (m huntPtrCus) Size() int                       { return len(m.text()) }
func (m huntPtrCus) MarshalTo(b []byte) (int, error) { return copy(b, m.text()), nil }
func (m *huntPtrCus) Unmarshal(b []byte) error {
	s := string(b)
	m.p = &s
	return nil
}

func huntIDText(ids []int64) []byte {
	var ss []string
	for _, i := range ids {
		ss = append(ss, strconv.FormatInt(i, 10))
	}
	return []byte(strings.Join(ss, ","))
}

func huntUnIDText(b []byte) ([]int64, error) {
	var ids []int64
	if len(b) == 0 {
		return ids, nil
	}
	for _, s := range strings.Split(string(b), ",") {
		i, err := strconv.ParseInt(s, 10, 64)
		if err != nil {
			return nil, err
		}
		ids = append(ids, i)
	}
	return ids, nil
}

// huntIDs / huntIDsC: slice kind with methods (payload: decimal numbers separated by commas)
type huntIDs []int64

func (m huntIDs) Size() int              { return len(huntIDText(m)) }
func (m huntIDs) Marshal(b []byte) error { copy(b, huntIDText(m)); return nil }
func (m *huntIDs) Unmarshal(b []byte) error {
	ids, err := huntUnIDText(b)
	*m = ids
	return err
}

type huntIDsC []int64

func (m huntIDsC) Size() int                       { return len(huntIDText(m)) }
func (m huntIDsC) MarshalTo(b []byte) (int, error) { return copy(b, huntIDText(m)), nil }
func (m *huntIDsC) Unmarshal(b []byte) error {
	ids, err := huntUnIDText(b)
	*m = ids
	return err
}

// huntSM / huntSC: struct kind (three fields: not pointer-shaped) with methods; payload "A/B/Pad"
type huntSM struct {
	A, B int64
	Pad  string
}

func huntSText(a, b int64, pad string) []byte {
	return []byte(strconv.FormatInt(a, 10) + "/" + strconv.FormatInt(b, 10) + "/" + pad)
}

func huntUnSText(p []byte) (a, b int64, pad string, err error) {
	s := strings.SplitN(string(p), "/", 3)
	if len(s) != 3 {
		return 0, 0, "", errors.New("bad payload")
	}
	if a, err = strconv.ParseInt(s[0], 10, 64); err != nil {
		return
	}
	b, err = strconv.ParseInt(s[1], 10, 64)
	return a, b, s[2], err
}

func (m huntSM) Size() int              { return len(huntSText(m.A, m.B, m.Pad)) }
func (m huntSM) Marshal(b []byte) error { copy(b, huntSText(m.A, m.B, m.Pad)); return nil }
func (m *huntSM) Unmarshal(b []byte) (err error) {
	m.A, m.B, m.Pad, err = huntUnSText(b)
	return err
}

type huntSC struct {
	A, B int64
	Pad  string
}

func (m huntSC) Size() int                       { return len(huntSText(m.A, m.B, m.Pad)) }
func (m huntSC) MarshalTo(b []byte) (int, error) { return copy(b, huntSText(m.A, m.B, m.Pad)), nil }
func (m *huntSC) Unmarshal(b []byte) (err error) {
	m.A, m.B, m.Pad, err = huntUnSText(b)
	return err
}

// huntUUID: array kind, custom methods
type huntUUID [16]byte

func (u huntUUID) Size() int                       { return 16 }
func (u huntUUID) MarshalTo(b []byte) (int, error) { return copy(b, u[:]), nil }
func (u *huntUUID) Unmarshal(b []byte) error {
	if len(b) != 16 {
		return errors.New("bad uuid length")
	}
	copy(u[:], b)
	return nil
}

// huntMarshalCheck: Marshal and Size of val against the expected bytes, and Unmarshal of the EXPECTED bytes (not of the
// library's own output) against val.
func huntMarshalCheck(val any, exp []byte) (string, string, string) {
	shown := reflect.ValueOf(val)
	t := shown.Type()
	if t.Kind() == reflect.Ptr {
		shown, t = shown.Elem(), t.Elem()
	}
	oracle := fmt.Sprintf("ok:%s:sz=%d:rt=%s", hx(exp), len(exp), huntShow(shown.Interface()))
	b, err := proto.Marshal(val)
	if err != nil {
		return "marshal-err", oracle, ""
	}
	sz := proto.Size(val)
	rt := "err"
	tgt := reflect.New(t)
	if err := proto.Unmarshal(exp, tgt.Interface()); err == nil {
		rt = huntShow(tgt.Elem().Interface())
	}
	return fmt.Sprintf("ok:%s:sz=%d:rt=%s", hx(b), sz, rt), oracle, ""
}

// ---- message types of the cases ----------------------------------------------------------------------

type huntItem struct {
	A int64
	B string
	C *int64
}
type huntItems struct {
	Items []huntItem
	Ptrs  []*huntItem
}

type huntSub struct {
	A int64
	B string
	C int64
}
type huntRepMsg struct {
	X     int64
	Items []huntSub
	M     map[string]huntSub
}
type huntSplit struct {
	S huntSub
	X int64
}
type huntFix struct {
	A uint32 `protobuf:"fixed32,1,opt,name=A"`
	B int32  `protobuf:"fixed32,2,opt,name=B"`
	C uint64 `protobuf:"fixed64,3,opt,name=C"`
	D int64  `protobuf:"fixed64,4,opt,name=D"`
}
type huntMKi32 struct{ M map[int32]string }
type huntMKi64 struct{ M map[int64]string }
type huntMKu32 struct{ M map[uint32]string }
type huntMKu64 struct{ M map[uint64]string }
type huntMKbool struct{ M map[bool]string }
type huntMKstr struct{ M map[string]string }
type huntMKi64v struct{ M map[int64]int64 }

type huntPB struct {
	A uint64
	P *[]byte
	B uint64
	R *proto.RawMessage
	C uint64
}

type huntRec struct {
	Next *huntRec
	V    int64
}
type huntRecS struct {
	Kids []huntRecS
	V    int64
}
type huntRecM struct {
	M map[string]huntRecM
	V int64
}

type huntTree struct {
	V    int64
	Kids []*huntTree
}
type huntTreeM struct {
	V int64
	M map[string]*huntTreeM
}
type huntTreeTop struct{ Root *huntTree }
type huntTreeTopS struct{ Trees []*huntTree }
type huntTreeTopM struct{ Root *huntTreeM }

// huntNode: an ordered tree written with brackets, "[[][[]]]"
type huntNode struct{ kids []*huntNode }

func huntParseTree(s string) *huntNode {
	var stack []*huntNode
	var root *huntNode
	for _, c := range s {
		switch c {
		case '[':
			n := &huntNode{}
			if len(stack) > 0 {
				p := stack[len(stack)-1]
				p.kids = append(p.kids, n)
			} else {
				root = n
			}
			stack = append(stack, n)
		case ']':
			stack = stack[:len(stack)-1]
		}
	}
	return root
}

// huntTrees: the bracket texts of all ordered trees with n nodes
func huntTrees(n int) []string {
	if n == 1 {
		return []string{"[]"}
	}
	var out []string
	for _, f := range huntForests(n - 1) {
		out = append(out, "["+f+"]")
	}
	return out
}

func huntForests(n int) []string {
	if n == 0 {
		return []string{""}
	}
	var out []string
	for k := 1; k <= n; k++ {
		for _, t := range huntTrees(k) {
			for _, f := range huntForests(n - k) {
				out = append(out, t+f)
			}
		}
	}
	return out
}

// huntNested: L message levels; level i (< L) holds level i+1 in field 1, the innermost level is `inner`. With entry, each
// level is wrapped in a map entry (key "" omitted, value in field 2): two wire levels per step.
func huntNested(L int, entry bool, inner []byte) []byte {
	// headers inside-out, then the bytes outside-in
	hdrs := make([][]byte, 0, L)
	size := len(inner)
	for i := L - 1; i >= 1; i-- {
		num := 1
		if entry && i%2 == 0 {
			num = 2
		}
		h := huntCat(huntUv(uint64(num)<<3|2), huntUv(uint64(size)))
		hdrs = append(hdrs, h)
		size += len(h)
	}
	out := make([]byte, 0, size)
	for i := len(hdrs) - 1; i >= 0; i-- {
		out = append(out, hdrs[i]...)
	}
	return append(out, inner...)
}

func huntTemplate(typ reflect.Type, tmpl string, in []byte) (string, string) {
	rw, err := proto.ParseRewriteTemplate(proto.TypeOf(typ), []byte(tmpl))
	if err != nil {
		return "", "template-err"
	}
	out, err := rw.Rewrite(nil, in)
	if err != nil {
		return "", "rewrite-err"
	}
	tgt := reflect.New(typ)
	if err := proto.Unmarshal(out, tgt.Interface()); err != nil {
		return "", "output-invalid:" + hx(out)
	}
	return huntShow(tgt.Elem().Interface()), ""
}

func huntEncTree(n *huntTree) []byte {
	var b []byte
	if n.V != 0 {
		b = huntPV(1, uint64(n.V))
	}
	for _, k := range n.Kids {
		b = append(b, huntPLD(2, huntEncTree(k))...)
	}
	return b
}

func huntEncTreeM(n *huntTreeM) []byte {
	b := huntPV(1, uint64(n.V))
	for k, v := range n.M { // single-entry maps only
		if v == nil {
			b = append(b, huntPLD(2, huntPS(1, k))...) // an entry without a value
		} else {
			b = append(b, huntPLD(2, huntCat(huntPS(1, k), huntPLD(2, huntEncTreeM(v))))...)
		}
	}
	return b
}

func huntBuildTree(n *huntNode, next *int64) *huntTree {
	*next++
	t := &huntTree{V: *next}
	for _, k := range n.kids {
		t.Kids = append(t.Kids, huntBuildTree(k, next))
	}
	return t
}

// ---- the proto op ------------------------------------------------------------------------------------

func huntProtoOp(a []string) (string, string, string) {
	switch a[0] {

	// b8a3669: spare <val|ptr> <n old elements> <k kept> <m new>
	case "spare":
		ptr, n, k, m := a[1] == "ptr", atoi(a[2]), atoi(a[3]), atoi(a[4])
		mk := func(i int) huntItem {
			c := int64(200 + i)
			return huntItem{A: int64(100 + i), B: "old" + strconv.Itoa(i), C: &c}
		}
		var tgt, want huntItems
		var keep []*huntItem // the caller's own references to the old objects
		var in []byte
		num := 1
		if ptr {
			num = 2
			old := make([]*huntItem, n)
			for i := range old {
				x := mk(i)
				old[i] = &x
				keep = append(keep, &x)
			}
			tgt.Ptrs = old[:k]
			for i := 0; i < k; i++ {
				x := mk(i)
				want.Ptrs = append(want.Ptrs, &x)
			}
		} else {
			old := make([]huntItem, n)
			for i := range old {
				old[i] = mk(i)
			}
			tgt.Items = old[:k]
			for i := 0; i < k; i++ {
				want.Items = append(want.Items, mk(i))
			}
		}
		for j := 0; j < m; j++ {
			var e huntItem
			var eb []byte
			if j%2 == 0 {
				e.A = int64(j + 1)
				eb = huntPV(1, uint64(j+1))
			} else {
				e.B = "n" + strconv.Itoa(j)
				eb = huntPS(2, e.B)
			}
			in = append(in, huntPLD(num, eb)...)
			if ptr {
				x := e
				want.Ptrs = append(want.Ptrs, &x)
			} else {
				want.Items = append(want.Items, e)
			}
		}
		var wantKeep []*huntItem
		if ptr {
			for i := 0; i < n; i++ {
				x := mk(i)
				wantKeep = append(wantKeep, &x)
			}
		}
		oracle := "ok:" + huntShow(want) + "|old=" + huntShow(wantKeep)
		if err := proto.Unmarshal(in, &tgt); err != nil {
			return "err", oracle, ""
		}
		return "ok:" + huntShow(tgt) + "|old=" + huntShow(keep), oracle, ""

	// d55a964: tmpl-rep <old elements> <template elements>
	case "tmpl-rep":
		nOld, nNew := atoi(a[1]), atoi(a[2])
		in := huntPV(1, 4)
		for i := 0; i < nOld; i++ {
			in = append(in, huntPLD(2, huntCat(huntPV(1, uint64(10+i)), huntPS(2, "old"+strconv.Itoa(i)), huntPV(3, uint64(20+i))))...)
		}
		want := huntRepMsg{X: 4}
		var es []string
		for j := 0; j < nNew; j++ {
			es = append(es, fmt.Sprintf(`{"A":%d}`, 5+j))
			want.Items = append(want.Items, huntSub{A: int64(5 + j)})
		}
		got, e := huntTemplate(reflect.TypeOf(huntRepMsg{}), `{"Items":[`+strings.Join(es, ",")+`]}`, in)
		return e + got, huntShow(want), ""

	// d55a964: tmpl-mapmsg <old entries> <template entries>
	case "tmpl-mapmsg":
		nOld, nNew := atoi(a[1]), atoi(a[2])
		in := huntPV(1, 4)
		for i := 0; i < nOld; i++ {
			v := huntCat(huntPV(1, uint64(10+i)), huntPS(2, "old"+strconv.Itoa(i)), huntPV(3, uint64(20+i)))
			in = append(in, huntPLD(3, huntCat(huntPS(1, "o"+strconv.Itoa(i)), huntPLD(2, v)))...)
		}
		want := huntRepMsg{X: 4, M: map[string]huntSub{}}
		var es []string
		for j := 0; j < nNew; j++ {
			k := "x" + strconv.Itoa(j)
			es = append(es, fmt.Sprintf(`%q:{"A":%d}`, k, 5+j))
			want.M[k] = huntSub{A: int64(5 + j)}
		}
		got, e := huntTemplate(reflect.TypeOf(huntRepMsg{}), `{"M":{`+strings.Join(es, ",")+`}}`, in)
		return e + got, huntShow(want), ""

	// d55a964: tmpl-mapkey <key kind> <key text> <old entries>
	case "tmpl-mapkey":
		key, nOld := a[2], atoi(a[3])
		tmpl := fmt.Sprintf(`{"M":{%q:"v"}}`, key)
		var in []byte
		var typ reflect.Type
		var want any
		oldKey := huntPV(1, 9)
		switch a[1] {
		case "i32":
			n, _ := strconv.ParseInt(key, 10, 32)
			typ, want = reflect.TypeOf(huntMKi32{}), huntMKi32{M: map[int32]string{int32(n): "v"}}
		case "i64":
			n, _ := strconv.ParseInt(key, 10, 64)
			typ, want = reflect.TypeOf(huntMKi64{}), huntMKi64{M: map[int64]string{n: "v"}}
		case "u32":
			n, _ := strconv.ParseUint(key, 10, 32)
			typ, want = reflect.TypeOf(huntMKu32{}), huntMKu32{M: map[uint32]string{uint32(n): "v"}}
		case "u64":
			n, _ := strconv.ParseUint(key, 10, 64)
			typ, want = reflect.TypeOf(huntMKu64{}), huntMKu64{M: map[uint64]string{n: "v"}}
		case "bool":
			typ, want = reflect.TypeOf(huntMKbool{}), huntMKbool{M: map[bool]string{key == "true": "v"}}
			oldKey = huntPV(1, 1)
		case "str":
			typ, want = reflect.TypeOf(huntMKstr{}), huntMKstr{M: map[string]string{key: "v"}}
			oldKey = huntPS(1, "o")
		case "i64v": // integer value as well
			n, _ := strconv.ParseInt(key, 10, 64)
			typ, want = reflect.TypeOf(huntMKi64v{}), huntMKi64v{M: map[int64]int64{n: 77}}
			tmpl = fmt.Sprintf(`{"M":{%q:77}}`, key)
		}
		for i := 0; i < nOld; i++ {
			val := huntPS(2, "old")
			if a[1] == "i64v" {
				val = huntPV(2, 55)
			}
			in = append(in, huntPLD(1, huntCat(oldKey, val))...)
		}
		got, e := huntTemplate(typ, tmpl, in)
		return e + got, huntShow(want), ""

	// c0f6ba5: tmpl-split <layout>: a S{A:1}  b S{B:"b"}  c S{C:3}  d S{B:"d"}  e S{}  x X=4
	case "tmpl-split":
		var in []byte
		want := huntSplit{S: huntSub{A: 9}}
		for _, c := range a[1] {
			switch c {
			case 'a':
				in = append(in, huntPLD(1, huntPV(1, 1))...)
			case 'b':
				in = append(in, huntPLD(1, huntPS(2, "b"))...)
				want.S.B = "b"
			case 'c':
				in = append(in, huntPLD(1, huntPV(3, 3))...)
				want.S.C = 3
			case 'd':
				in = append(in, huntPLD(1, huntPS(2, "d"))...)
				want.S.B = "d"
			case 'e':
				in = append(in, huntPLD(1, nil)...)
			case 'x':
				in = append(in, huntPV(2, 4)...)
				want.X = 4
			}
		}
		got, e := huntTemplate(reflect.TypeOf(huntSplit{}), `{"S":{"A":9}}`, in)
		return e + got, huntShow(want), ""

	// d57430f: tmpl-fixed <field> <value> <old value present 0|1>
	case "tmpl-fixed":
		var in, exp []byte
		switch a[1] {
		case "A":
			v, _ := strconv.ParseUint(a[2], 10, 32)
			in, exp = huntPF32(1, 0x01020304), huntPF32(1, uint32(v))
		case "B":
			v, _ := strconv.ParseInt(a[2], 10, 32)
			in, exp = huntPF32(2, 0x01020304), huntPF32(2, uint32(int32(v)))
		case "C":
			v, _ := strconv.ParseUint(a[2], 10, 64)
			in, exp = huntPF64(3, 0x0102030405060708), huntPF64(3, v)
		case "D":
			v, _ := strconv.ParseInt(a[2], 10, 64)
			in, exp = huntPF64(4, 0x0102030405060708), huntPF64(4, uint64(v))
		}
		if a[3] == "0" {
			in = nil
		}
		rw, err := proto.ParseRewriteTemplate(proto.TypeOf(reflect.TypeOf(huntFix{})), []byte(`{"`+a[1]+`":`+a[2]+`}`))
		if err != nil {
			return "template-err", "ok:" + hx(exp), ""
		}
		out, err := rw.Rewrite(nil, in)
		if err != nil {
			return "rewrite-err", "ok:" + hx(exp), ""
		}
		return "ok:" + hx(out), "ok:" + hx(exp), ""

	// c525b92: ptrshape <mapmsg|mapcus|ptrmsg|ptrcus> <top|ptrtop|only|two> <payload length>
	case "ptrshape":
		text := strings.Repeat("v", atoi(a[3]))
		var val any
		var payload []byte
		switch a[1] + "-" + a[2] {
		case "mapmsg-top":
			val = huntMapMsg{"k": text}
		case "mapmsg-ptrtop":
			val = &huntMapMsg{"k": text}
		case "mapmsg-only":
			val = struct{ M huntMapMsg }{huntMapMsg{"k": text}}
		case "mapmsg-two":
			val = struct {
				X int64
				M huntMapMsg
			}{1, huntMapMsg{"k": text}}
		case "mapcus-top":
			val = huntMapCus{"k": text}
		case "mapcus-ptrtop":
			val = &huntMapCus{"k": text}
		case "mapcus-only":
			val = struct{ M huntMapCus }{huntMapCus{"k": text}}
		case "mapcus-two":
			val = struct {
				X int64
				M huntMapCus
			}{1, huntMapCus{"k": text}}
		case "ptrmsg-top":
			val = huntPtrMsg{&text}
		case "ptrmsg-ptrtop":
			val = &huntPtrMsg{&text}
		case "ptrmsg-only":
			val = struct{ M huntPtrMsg }{huntPtrMsg{&text}}
		case "ptrmsg-two":
			val = struct {
				X int64
				M huntPtrMsg
			}{1, huntPtrMsg{&text}}
		case "ptrcus-top":
			val = huntPtrCus{&text}
		case "ptrcus-ptrtop":
			val = &huntPtrCus{&text}
		case "ptrcus-only":
			val = struct{ M huntPtrCus }{huntPtrCus{&text}}
		case "ptrcus-two":
			val = struct {
				X int64
				M huntPtrCus
			}{1, huntPtrCus{&text}}
		}
		if strings.HasPrefix(a[1], "map") {
			payload = []byte("k=" + text + ";")
		} else {
			payload = []byte(text)
		}
		exp := payload
		switch a[2] {
		case "only":
			exp = huntPLD(1, payload)
		case "two":
			exp = huntCat(huntPV(1, 1), huntPLD(2, payload))
		}
		return huntMarshalCheck(val, exp)

	// e71f28a: kindmsg <ids|idsc|mapmsg|mapcus> <field|elem|mapval> <n>
	case "kindmsg":
		n := atoi(a[3])
		ids := make([]int64, n)
		kv := map[string]string{}
		for i := range ids {
			ids[i] = int64(i*300 + 1)
			kv["k"+strconv.Itoa(i)] = "v" + strconv.Itoa(i)
		}
		payload := huntIDText(ids)
		if strings.HasPrefix(a[1], "map") {
			payload = huntKV(kv)
		}
		var val any
		switch a[1] + "-" + a[2] {
		case "ids-field":
			val = struct {
				X int64
				F huntIDs
				Y int64
			}{1, huntIDs(ids), 2}
		case "idsc-field":
			val = struct {
				X int64
				F huntIDsC
				Y int64
			}{1, huntIDsC(ids), 2}
		case "mapmsg-field":
			val = struct {
				X int64
				F huntMapMsg
				Y int64
			}{1, huntMapMsg(kv), 2}
		case "mapcus-field":
			val = struct {
				X int64
				F huntMapCus
				Y int64
			}{1, huntMapCus(kv), 2}
		case "ids-elem":
			val = struct {
				X int64
				F []huntIDs
			}{1, []huntIDs{huntIDs(ids), huntIDs(ids)}}
		case "ids-mapval":
			val = struct {
				X int64
				F map[string]huntIDs
			}{1, map[string]huntIDs{"k": huntIDs(ids)}}
		}
		var mid []byte
		switch a[2] {
		case "field":
			mid = huntPLD(2, payload)
		case "elem":
			mid = huntCat(huntPLD(2, payload), huntPLD(2, payload))
		case "mapval":
			mid = huntPLD(2, huntCat(huntPS(1, "k"), huntPLD(2, payload)))
		}
		if a[2] != "field" { // repeated fields are written after the others: nothing follows them here
			return huntMarshalCheck(val, huntCat(huntPV(1, 1), mid))
		}
		return huntMarshalCheck(val, huntCat(huntPV(1, 1), mid, huntPV(3, 2)))

	// 0de7c43: oneprefix <msg|cus> <field|ptrfield|elem|mapval> <pad length>
	case "oneprefix":
		pad := strings.Repeat("p", atoi(a[3]))
		payload := huntSText(3, -4, pad)
		sm, sc := huntSM{3, -4, pad}, huntSC{3, -4, pad}
		var val any
		switch a[1] + "-" + a[2] {
		case "msg-field":
			val = struct {
				X int64
				S huntSM
			}{1, sm}
		case "msg-ptrfield":
			val = struct {
				X int64
				S *huntSM
			}{1, &sm}
		case "msg-elem":
			val = struct {
				X int64
				S []huntSM
			}{1, []huntSM{sm, sm}}
		case "msg-mapval":
			val = struct {
				X int64
				S map[string]huntSM
			}{1, map[string]huntSM{"k": sm}}
		case "cus-field":
			val = struct {
				X int64
				S huntSC
			}{1, sc}
		case "cus-ptrfield":
			val = struct {
				X int64
				S *huntSC
			}{1, &sc}
		case "cus-elem":
			val = struct {
				X int64
				S []huntSC
			}{1, []huntSC{sc, sc}}
		case "cus-mapval":
			val = struct {
				X int64
				S map[string]huntSC
			}{1, map[string]huntSC{"k": sc}}
		}
		var rest []byte
		switch a[2] {
		case "field", "ptrfield":
			rest = huntPLD(2, payload)
		case "elem":
			rest = huntCat(huntPLD(2, payload), huntPLD(2, payload))
		case "mapval":
			rest = huntPLD(2, huntCat(huntPS(1, "k"), huntPLD(2, payload)))
		}
		return huntMarshalCheck(val, huntCat(huntPV(1, 1), rest))

	// b70a382: deep <ptr|rep|map> <wire levels>
	case "deep":
		L := atoi(a[2])
		in := huntNested(L, a[1] == "map", huntPV(2, 7))
		oracle := "err"
		if L <= 10000 {
			oracle = fmt.Sprintf("ok:7:%d", L)
		}
		var v int64
		levels := 1
		switch a[1] {
		case "ptr":
			var m huntRec
			if err := proto.Unmarshal(in, &m); err != nil {
				return "err", oracle, ""
			}
			p := &m
			for p.Next != nil {
				p = p.Next
				levels++
			}
			v = p.V
		case "rep":
			var m huntRecS
			if err := proto.Unmarshal(in, &m); err != nil {
				return "err", oracle, ""
			}
			p := &m
			for len(p.Kids) == 1 {
				p = &p.Kids[0]
				levels++
			}
			v = p.V
		case "map":
			var m huntRecM
			if err := proto.Unmarshal(in, &m); err != nil {
				return "err", oracle, ""
			}
			p := m
			for len(p.M) == 1 {
				p = p.M[""]
				levels += 2
			}
			v = p.V
		}
		return fmt.Sprintf("ok:%d:%d", v, levels), oracle, ""

	// 18b907f: ptrbytes <P|R|both|none> <n>
	case "ptrbytes":
		n := atoi(a[2])
		pb, rb := huntFill(n, 0x41), proto.RawMessage(huntFill(n, 0x61))
		val := huntPB{A: 1, B: 2, C: 3}
		exp := huntPV(1, 1)
		if a[1] == "P" || a[1] == "both" {
			val.P = &pb
			exp = append(exp, huntPLD(2, pb)...)
		}
		exp = append(exp, huntPV(3, 2)...)
		if a[1] == "R" || a[1] == "both" {
			val.R = &rb
			exp = append(exp, huntPLD(4, rb)...)
		}
		exp = append(exp, huntPV(5, 3)...)
		return huntMarshalCheck(val, exp)

	// 109a14e: ptrmsg <variant> <n>
	case "ptrmsg":
		n := atoi(a[2])
		raw := proto.RawMessage(huntFill(n, 0x30))
		var uuid huntUUID
		copy(uuid[:], huntFill(16, byte(n)))
		sm := huntSM{int64(n), 2, "p"}
		mm := huntMapMsg{"k": strconv.Itoa(n)}
		switch a[1] {
		case "top-raw":
			return huntMarshalCheck(&raw, raw)
		case "top-uuid":
			return huntMarshalCheck(&uuid, uuid[:])
		case "top-sm":
			return huntMarshalCheck(&sm, huntSText(sm.A, sm.B, sm.Pad))
		case "field-uuid":
			return huntMarshalCheck(struct {
				X int64
				U *huntUUID
			}{1, &uuid}, huntCat(huntPV(1, 1), huntPLD(2, uuid[:])))
		case "field-nil":
			return huntMarshalCheck(struct {
				X int64
				U *huntUUID
				R *proto.RawMessage
				S *huntSM
			}{X: 1}, huntPV(1, 1))
		case "field-raw":
			return huntMarshalCheck(struct {
				X int64
				R *proto.RawMessage
			}{1, &raw}, huntCat(huntPV(1, 1), huntPLD(2, raw)))
		case "field-mapmsg":
			return huntMarshalCheck(struct {
				X int64
				M *huntMapMsg
			}{1, &mm}, huntCat(huntPV(1, 1), huntPLD(2, huntKV(mm))))
		case "rep-raw":
			return huntMarshalCheck(struct {
				X int64
				R []*proto.RawMessage
			}{1, []*proto.RawMessage{&raw, &raw}}, huntCat(huntPV(1, 1), huntPLD(2, raw), huntPLD(2, raw)))
		case "rep-sm":
			p := huntSText(sm.A, sm.B, sm.Pad)
			return huntMarshalCheck(struct {
				X int64
				S []*huntSM
			}{1, []*huntSM{&sm, &sm}}, huntCat(huntPV(1, 1), huntPLD(2, p), huntPLD(2, p)))
		case "map-sm":
			p := huntSText(sm.A, sm.B, sm.Pad)
			return huntMarshalCheck(struct {
				X int64
				M map[string]*huntSM
			}{1, map[string]*huntSM{"k": &sm}}, huntCat(huntPV(1, 1), huntPLD(2, huntCat(huntPS(1, "k"), huntPLD(2, p)))))
		case "map-uuid":
			return huntMarshalCheck(struct {
				X int64
				M map[string]*huntUUID
			}{1, map[string]*huntUUID{"k": &uuid}}, huntCat(huntPV(1, 1), huntPLD(2, huntCat(huntPS(1, "k"), huntPLD(2, uuid[:])))))
		}

	// b481c22: rectree <kids|slice|map> <bracket tree | depth>
	case "rectree":
		if a[1] == "map" {
			// a chain of single-entry maps; the last map holds a nil value (a nil or empty map would be another matter)
			root := &huntTreeM{V: 1}
			p := root
			for i := 0; i < atoi(a[2]); i++ {
				c := &huntTreeM{V: int64(i + 2)}
				p.M = map[string]*huntTreeM{"k" + strconv.Itoa(i): c}
				p = c
			}
			p.M = map[string]*huntTreeM{"z": nil}
			return huntMarshalCheck(huntTreeTopM{Root: root}, huntPLD(1, huntEncTreeM(root)))
		}
		var next int64
		root := huntBuildTree(huntParseTree(a[2]), &next)
		if a[1] == "slice" {
			return huntMarshalCheck(huntTreeTopS{Trees: []*huntTree{root, root}},
				huntCat(huntPLD(1, huntEncTree(root)), huntPLD(1, huntEncTree(root))))
		}
		return huntMarshalCheck(huntTreeTop{Root: root}, huntPLD(1, huntEncTree(root)))
	}
	return "bad-case", "-", ""
}

// ---- proto generators --------------------------------------------------------------------------------

func genHuntC03(h *H) {
	// b8a3669: recycled slices
	for _, kind := range []string{"val", "ptr"} {
		for n := 1; n <= 4; n++ {
			for k := 0; k <= n; k++ {
				for m := 1; m <= 3; m++ {
					h.DoRisky("hunt.proto", "spare", kind, strconv.Itoa(n), strconv.Itoa(k), strconv.Itoa(m))
				}
			}
		}
	}
	// 18b907f: *[]byte and *RawMessage fields
	for _, which := range []string{"P", "R", "both", "none"} {
		for _, n := range []int{1, 2, 3, 7, 8, 9, 15, 16, 17, 24, 25, 32, 40, 127, 128, 300} {
			if which == "none" && n > 1 {
				continue
			}
			h.DoRisky("hunt.proto", "ptrbytes", which, strconv.Itoa(n))
		}
	}
	// 109a14e: pointers to Message and custom types
	for _, v := range []string{"top-raw", "top-uuid", "top-sm", "field-uuid", "field-nil", "field-raw", "field-mapmsg", "rep-raw", "rep-sm", "map-sm", "map-uuid"} {
		for _, n := range []int{1, 2, 127, 128} {
			h.DoRisky("hunt.proto", "ptrmsg", v, strconv.Itoa(n))
		}
	}
	// c525b92: pointer-shaped Message and custom types
	for _, kind := range []string{"mapmsg", "mapcus", "ptrmsg", "ptrcus"} {
		for _, pos := range []string{"top", "ptrtop", "only", "two"} {
			for _, n := range []int{1, 2, 5, 123, 124, 125, 126, 127, 128, 129, 300} {
				h.DoRisky("hunt.proto", "ptrshape", kind, pos, strconv.Itoa(n))
			}
		}
	}
	// e71f28a: slice- and map-kind types with methods as struct fields
	for _, v := range [][2]string{{"ids", "field"}, {"idsc", "field"}, {"mapmsg", "field"}, {"mapcus", "field"}, {"ids", "elem"}, {"ids", "mapval"}} {
		for n := 1; n <= 5; n++ {
			h.DoRisky("hunt.proto", "kindmsg", v[0], v[1], strconv.Itoa(n))
		}
	}
}

func genHuntC12(h *H) {
	// 0de7c43: one length prefix
	for _, kind := range []string{"msg", "cus"} {
		for _, pos := range []string{"field", "ptrfield", "elem", "mapval"} {
			for _, n := range []int{0, 1, 2, 119, 120, 121, 122, 123, 124, 125, 126, 127, 128, 300} {
				h.DoRisky("hunt.proto", "oneprefix", kind, pos, strconv.Itoa(n))
			}
		}
	}
	// b481c22: recursive type reached through a pointer
	for n := 1; n <= 5; n++ {
		for _, t := range huntTrees(n) {
			h.DoRisky("hunt.proto", "rectree", "kids", t)
			if n <= 3 {
				h.DoRisky("hunt.proto", "rectree", "slice", t)
			}
		}
	}
	for d := 0; d <= 5; d++ {
		h.DoRisky("hunt.proto", "rectree", "map", strconv.Itoa(d))
	}
}

func genHuntC07(h *H) {
	// b70a382: nesting depth
	for _, L := range []int{1, 2, 3, 100, 9997, 9998, 9999, 10000, 10001, 10002, 10003, 10004, 20000} {
		h.DoRisky("hunt.proto", "deep", "ptr", strconv.Itoa(L))
		h.DoRisky("hunt.proto", "deep", "rep", strconv.Itoa(L))
	}
	for _, L := range []int{1, 3, 5, 101, 9995, 9997, 9999, 10001, 10003, 10005, 20001} {
		h.DoRisky("hunt.proto", "deep", "map", strconv.Itoa(L))
	}
	h.DoRisky("hunt.proto", "deep", "ptr", "2000000")
	h.DoRisky("hunt.proto", "deep", "rep", "2000000")
	h.DoRisky("hunt.proto", "deep", "map", "2000001")
}

func genHuntC19(h *H) {
	// d55a964: templates of repeated messages and maps
	for nOld := 0; nOld <= 3; nOld++ {
		for nNew := 1; nNew <= 3; nNew++ {
			h.DoRisky("hunt.proto", "tmpl-rep", strconv.Itoa(nOld), strconv.Itoa(nNew))
			h.DoRisky("hunt.proto", "tmpl-mapmsg", strconv.Itoa(nOld), strconv.Itoa(nNew))
		}
	}
	keys := map[string][]string{
		"i32":  {"1", "7", "-3", "127", "128", "300", "2147483647", "-2147483648"},
		"i64":  {"1", "7", "-3", "128", "9223372036854775807", "-9223372036854775808"},
		"u32":  {"1", "7", "128", "4294967295"},
		"u64":  {"1", "7", "128", "18446744073709551615"},
		"bool": {"true"},
		"str":  {"x", "7", "true", "a b"},
		"i64v": {"1", "-3", "300"},
	}
	for _, kind := range []string{"i32", "i64", "u32", "u64", "bool", "str", "i64v"} {
		for _, k := range keys[kind] {
			for nOld := 0; nOld <= 1; nOld++ {
				h.DoRisky("hunt.proto", "tmpl-mapkey", kind, k, strconv.Itoa(nOld))
			}
		}
	}
	// c0f6ba5: sub-message in several occurrences
	var layouts []string
	var rec func(s string)
	rec = func(s string) {
		if s != "" {
			layouts = append(layouts, s)
		}
		if len(s) == 3 {
			return
		}
		for _, c := range "bcdx" {
			rec(s + string(c))
		}
	}
	rec("")
	layouts = append(layouts, "", "a", "abc", "bac", "bca", "e", "be", "ebc", "bec", "bxcxd", "bbbb", "bcbc", "xbxcx", "aaaa")
	for _, l := range layouts {
		if l == "" {
			l = "-"
		}
		h.DoRisky("hunt.proto", "tmpl-split", l)
	}
	// d57430f: fixed-width integer fields
	vals := map[string][]string{
		"A": {"1", "2", "127", "128", "255", "65536", "2147483648", "4294967295"},
		"B": {"1", "127", "128", "2147483647", "-1", "-2", "-128", "-2147483648"},
		"C": {"1", "128", "4294967296", "9223372036854775808", "18446744073709551615"},
		"D": {"1", "128", "9223372036854775807", "-1", "-2", "-9223372036854775808"},
	}
	for _, f := range []string{"A", "B", "C", "D"} {
		for _, v := range vals[f] {
			h.DoRisky("hunt.proto", "tmpl-fixed", f, v, "0")
			h.DoRisky("hunt.proto", "tmpl-fixed", f, v, "1")
		}
	}
}

// ---- thrift wire formats, from the protocol specifications ---------------------------------------------

// huntTV: a thrift value for building test vectors. t: bool i8 i16 i32 i64 double binary list set map struct
type huntTV struct {
	t      string
	i      int64      // bool (0/1), integers
	s      string     // binary; double: 8 raw bytes
	et     string     // list / set element type
	kt, vt string     // map key / value types
	elems  []huntTV   // list / set elements; map: k0 v0 k1 v1 …
	fields []huntTFld // struct
}
type huntTFld struct {
	id int
	v  huntTV
}

// The library numbers the types alike in both protocols (the codes of the compact protocol); the binary protocol
// specification has bool 2, byte 3, double 4, i16 6, i32 8, i64 10, string 11, struct 12, map 13, set 14, list 15. The
// vectors follow the library here (the existing C13 model does too), and in the three-byte stop field of its binary
// protocol; everything else is as specified.
var huntBinID = map[string]byte{"bool": 2, "i8": 3, "i16": 4, "i32": 5, "i64": 6, "double": 7, "binary": 8, "list": 9, "set": 10, "map": 11, "struct": 12}
var huntCmpID = map[string]byte{"bool": 2, "i8": 3, "i16": 4, "i32": 5, "i64": 6, "double": 7, "binary": 8, "list": 9, "set": 10, "map": 11, "struct": 12}

func huntZig(n int64) []byte { return huntUv(uint64(n<<1) ^ uint64(n>>63)) }

func huntBE(n int64, size int) []byte {
	b := make([]byte, 8)
	binary.BigEndian.PutUint64(b, uint64(n))
	return b[8-size:]
}

func huntTEnc(compact bool, v huntTV) []byte {
	if compact {
		return huntTEncC(v)
	}
	return huntTEncB(v)
}

func huntTEncB(v huntTV) []byte {
	switch v.t {
	case "bool", "i8":
		return huntBE(v.i, 1)
	case "i16":
		return huntBE(v.i, 2)
	case "i32":
		return huntBE(v.i, 4)
	case "i64":
		return huntBE(v.i, 8)
	case "double":
		return []byte(v.s)
	case "binary":
		return huntCat(huntBE(int64(len(v.s)), 4), []byte(v.s))
	case "list", "set":
		b := huntCat([]byte{huntBinID[v.et]}, huntBE(int64(len(v.elems)), 4))
		for _, e := range v.elems {
			b = append(b, huntTEncB(e)...)
		}
		return b
	case "map":
		b := huntCat([]byte{huntBinID[v.kt], huntBinID[v.vt]}, huntBE(int64(len(v.elems)/2), 4))
		for _, e := range v.elems {
			b = append(b, huntTEncB(e)...)
		}
		return b
	case "struct":
		var b []byte
		for _, f := range v.fields {
			b = append(b, huntBinID[f.v.t])
			b = append(b, huntBE(int64(f.id), 2)...)
			b = append(b, huntTEncB(f.v)...)
		}
		return append(b, 0, 0, 0) // the library's stop field is a whole field header (type 0, id 0), not the single byte 0
	}
	panic("bad thrift type " + v.t)
}

func huntTEncC(v huntTV) []byte {
	switch v.t {
	case "bool": // as an element of a collection
		if v.i != 0 {
			return []byte{1}
		}
		return []byte{2}
	case "i8":
		return huntBE(v.i, 1)
	case "i16", "i32", "i64":
		return huntZig(v.i)
	case "double":
		return []byte(v.s)
	case "binary":
		return huntCat(huntUv(uint64(len(v.s))), []byte(v.s))
	case "list", "set":
		var b []byte
		if n := len(v.elems); n < 15 {
			b = []byte{byte(n)<<4 | huntCmpID[v.et]}
		} else {
			b = huntCat([]byte{0xF0 | huntCmpID[v.et]}, huntUv(uint64(n)))
		}
		for _, e := range v.elems {
			b = append(b, huntTEncC(e)...)
		}
		return b
	case "map":
		if len(v.elems) == 0 {
			return []byte{0}
		}
		b := huntCat(huntUv(uint64(len(v.elems)/2)), []byte{huntCmpID[v.kt]<<4 | huntCmpID[v.vt]})
		for _, e := range v.elems {
			b = append(b, huntTEncC(e)...)
		}
		return b
	case "struct":
		var b []byte
		last := 0
		for _, f := range v.fields {
			ct := huntCmpID[f.v.t]
			if f.v.t == "bool" { // the value is in the field header
				ct = 2
				if f.v.i != 0 {
					ct = 1
				}
			}
			if d := f.id - last; d > 0 && d <= 15 {
				b = append(b, byte(d)<<4|ct)
			} else {
				b = append(b, ct)
				b = append(b, huntZig(int64(f.id))...)
			}
			last = f.id
			if f.v.t != "bool" {
				b = append(b, huntTEncC(f.v)...)
			}
		}
		return append(b, 0)
	}
	panic("bad thrift type " + v.t)
}

func huntI(t string, i int64) huntTV              { return huntTV{t: t, i: i} }
func huntStructV(fs ...huntTFld) huntTV           { return huntTV{t: "struct", fields: fs} }
func huntListV(t, et string, es ...huntTV) huntTV { return huntTV{t: t, et: et, elems: es} }
func huntMapV(kt, vt string, es ...huntTV) huntTV { return huntTV{t: "map", kt: kt, vt: vt, elems: es} }

// huntSample: a value of each wire type, used where a value of the WRONG type is sent
func huntSample(t string) huntTV {
	switch t {
	case "bool":
		return huntI("bool", 1)
	case "i8":
		return huntI("i8", 0x11)
	case "i16":
		return huntI("i16", 0x0812)
	case "i32":
		return huntI("i32", 0x08000305)
	case "i64":
		return huntI("i64", 0x0800010000000009)
	case "double":
		return huntTV{t: "double", s: "\x08\x00\x05\x00\x00\x00\x03\x3f"}
	case "binary":
		return huntTV{t: "binary", s: "\x08\x00\x05xyz"}
	case "list":
		return huntListV("list", "i32", huntI("i32", 1), huntI("i32", 2))
	case "set":
		return huntListV("set", "i8", huntI("i8", 8))
	case "map":
		return huntMapV("i8", "i8", huntI("i8", 8), huntI("i8", 0))
	case "struct":
		return huntStructV(huntTFld{5, huntI("i32", 9)})
	}
	panic("bad thrift type " + t)
}

var huntTTypes = []string{"bool", "i8", "i16", "i32", "i64", "double", "binary", "list", "set", "map", "struct"}

// ---- thrift types of the cases ------------------------------------------------------------------------

type huntL []huntL
type huntM map[string]huntM

func huntShowL(l huntL) string {
	s := "["
	for _, e := range l {
		s += huntShowL(e)
	}
	return s + "]"
}

func huntNodeL(n *huntNode) huntL {
	l := huntL{}
	for _, k := range n.kids {
		l = append(l, huntNodeL(k))
	}
	return l
}

func huntNodeTV(n *huntNode) huntTV {
	v := huntTV{t: "list", et: "list"}
	for _, k := range n.kids {
		v.elems = append(v.elems, huntNodeTV(k))
	}
	return v
}

type huntSD struct {
	A int32 `thrift:"1"`
	B int32 `thrift:"2"`
}

type huntInner struct {
	A int32 `thrift:"1"`
}
type huntEmbPtr struct {
	*huntInner
	B int32 `thrift:"2"`
}
type huntEmbVal struct {
	huntInner
	B int32 `thrift:"2"`
}
type huntI32 int32
type huntEmbInt struct {
	huntI32 `thrift:"1"`
	B       int32 `thrift:"2"`
}

type huntTRec struct {
	Next *huntTRec `thrift:"1"`
	V    int32     `thrift:"2"`
}

type huntUnion struct {
	A bool   `thrift:"1"`
	B int32  `thrift:"2"`
	C string `thrift:"3"`
	D int64  `thrift:"4"`
	F any    `thrift:",union"`
}

// HuntUIn is exported: reflect only allocates embedded pointers to exported types
type HuntUIn struct {
	A int32  `thrift:"1"`
	B string `thrift:"2"`
}
type huntUEmb struct {
	*HuntUIn
	F any `thrift:",union"`
}

type huntReq1 struct {
	O1 int32 `thrift:"1,optional"`
	R2 int32 `thrift:"2,required"`
	R3 int32 `thrift:"3,required"`
	R5 int32 `thrift:"5,required"`
}
type huntReq2 struct {
	R3 int32 `thrift:"3,required"`
	O4 int32 `thrift:"4"`
	R6 int32 `thrift:"6,required"`
}
type huntReq3 struct {
	R1  int32 `thrift:"1,required"`
	O2  int32 `thrift:"2,optional"`
	R65 int32 `thrift:"65,required"`
	R70 int32 `thrift:"70,required"`
}
type huntReq4 struct {
	R2 int32 `thrift:"2,required"`
	R1 int32 `thrift:"1,required"`
}

type huntMis struct {
	A int32              `thrift:"1"`
	L []int32            `thrift:"2"`
	M map[string]int32   `thrift:"3"`
	S map[int32]struct{} `thrift:"4"`
	T huntInner          `thrift:"5"`
	Z int32              `thrift:"6"`
}

func huntTErr(err error) string {
	var mf *thrift.MissingField
	var tm *thrift.TypeMismatch
	switch {
	case errors.As(err, &mf):
		return fmt.Sprintf("missing:%d:%d", mf.Field.ID, mf.Field.Type)
	case errors.As(err, &tm):
		return "err:typeMismatch"
	case errors.Is(err, io.ErrUnexpectedEOF):
		return "err:unexpectedEof"
	case errors.Is(err, io.EOF):
		return "err:eof"
	}
	return "err"
}

// huntTDecode: Unmarshal (strict: a Decoder with SetStrict) of in into tgt, a pointer
func huntTDecode(p thrift.Protocol, strict bool, tgt any, in []byte) string {
	if !strict {
		if err := thrift.Unmarshal(p, in, tgt); err != nil {
			return huntTErr(err)
		}
		return "ok"
	}
	r := bytes.NewReader(in)
	d := thrift.NewDecoder(p.NewReader(r))
	d.SetStrict(true)
	if err := d.Decode(tgt); err != nil {
		return huntTErr(err)
	}
	if r.Len() != 0 {
		return "err:trailing"
	}
	return "ok"
}

func huntRep(n int, b ...byte) []byte {
	if n < 0 {
		n = 0
	}
	return bytes.Repeat(b, n)
}

// ---- the thrift op -----------------------------------------------------------------------------------

func huntThriftOp(a []string) (string, string, string) {
	switch a[0] {

	// dc5a411: selfrec <proto> <list|map> <bracket tree | depth>
	case "selfrec":
		p, compact := thriftProto(a[1]), a[1] == "c"
		if a[2] == "list" {
			n := huntParseTree(a[3])
			exp := huntTEnc(compact, huntNodeTV(n))
			oracle := "ok:" + hx(exp) + ";rt=" + a[3]
			b, err := thrift.Marshal(p, huntNodeL(n))
			if err != nil {
				return "marshal-err", oracle, ""
			}
			var back huntL
			if st := huntTDecode(p, false, &back, exp); st != "ok" {
				return "ok:" + hx(b) + ";rt=" + st, oracle, ""
			}
			return "ok:" + hx(b) + ";rt=" + huntShowL(back), oracle, ""
		}
		val, tv := huntM{}, huntMapV("binary", "map")
		for i := atoi(a[3]); i > 0; i-- {
			k := "k" + strconv.Itoa(i)
			val, tv = huntM{k: val}, huntMapV("binary", "map", huntTV{t: "binary", s: k}, tv)
		}
		exp := huntTEnc(compact, tv)
		oracle := "ok:" + hx(exp) + ";rt=" + huntShow(val)
		b, err := thrift.Marshal(p, val)
		if err != nil {
			return "marshal-err", oracle, ""
		}
		var back huntM
		if st := huntTDecode(p, false, &back, exp); st != "ok" {
			return "ok:" + hx(b) + ";rt=" + st, oracle, ""
		}
		return "ok:" + hx(b) + ";rt=" + huntShow(back), oracle, ""

	// 7d9da57: stopdelta <first|after|skip|inner> <header byte> <stops follow 0|1>   (compact protocol)
	case "stopdelta":
		hb := byte(atoi(a[2]))
		var in []byte
		want := huntSD{}
		stops := 1
		switch a[1] {
		case "first":
			in = []byte{hb}
		case "after":
			in = []byte{0x15, 0x02, hb}
			want.A = 1
		case "skip": // first header of an unknown struct field
			in = []byte{0x5c, hb}
			stops = 2
		case "skipl": // … of a struct in an unknown list
			in = []byte{0x59, 0x1c, hb}
			stops = 2
		}
		if hb == 0 {
			stops--
		}
		if a[3] == "1" || hb == 0 {
			in = append(in, huntRep(stops, 0)...)
		}
		oracle := "err"
		if hb == 0 {
			oracle = "ok:" + huntShow(want)
		}
		var got huntSD
		d := thrift.NewDecoder(thriftProto("c").NewReader(bytes.NewReader(in)))
		if err := d.Decode(&got); err != nil {
			return huntTErr(err), oracle, ""
		}
		return "ok:" + huntShow(got), oracle, ""

	// 00c74d7: embunexp <proto> <variant>
	case "embunexp":
		p, compact := thriftProto(a[1]), a[1] == "c"
		both := huntTEnc(compact, huntStructV(huntTFld{1, huntI("i32", 5)}, huntTFld{2, huntI("i32", 6)}))
		onlyB := huntTEnc(compact, huntStructV(huntTFld{2, huntI("i32", 6)}))
		var tgt any
		var in []byte
		var oracle string
		switch a[2] {
		case "ptr-nil-a":
			tgt, in, oracle = &huntEmbPtr{}, both, "err"
		case "ptr-nil-b":
			tgt, in, oracle = &huntEmbPtr{}, onlyB, "ok:"+huntShow(huntEmbPtr{B: 6})
		case "ptr-set-a":
			tgt, in, oracle = &huntEmbPtr{huntInner: &huntInner{A: 1}}, both, "ok:"+huntShow(huntEmbPtr{huntInner: &huntInner{A: 5}, B: 6})
		case "val-a":
			tgt, in, oracle = &huntEmbVal{}, both, "ok:"+huntShow(huntEmbVal{huntInner: huntInner{A: 5}, B: 6})
		case "int-a":
			tgt, in, oracle = &huntEmbInt{}, both, "err"
		case "int-b":
			tgt, in, oracle = &huntEmbInt{}, onlyB, "ok:"+huntShow(huntEmbInt{B: 6})
		}
		if st := huntTDecode(p, false, tgt, in); st != "ok" {
			return st, oracle, ""
		}
		return "ok:" + huntShow(reflect.ValueOf(tgt).Elem().Interface()), oracle, ""

	// 6527322: negseq <proto> <name hex> <seq id>: the bytes after the message type, and what is read back
	case "negseq":
		p := thriftProto(a[1])
		name := string(unhx(a[2]))
		seq64, _ := strconv.ParseInt(a[3], 10, 32)
		seq := int32(seq64)
		var exp []byte
		skip := 2 // protocol id, version and type
		switch a[1] {
		case "c":
			exp = huntCat(huntUv(uint64(uint32(seq))), huntUv(uint64(len(name))), []byte(name))
		case "bs":
			exp, skip = huntCat(huntBE(int64(len(name)), 4), []byte(name), huntBE(int64(seq), 4)), 4
		case "bn":
			exp, skip = huntBE(int64(seq), 4), 4+len(name)+1
		}
		oracle := fmt.Sprintf("ok:%s;seq=%d;name=%s", hx(exp), seq, a[2])
		var buf bytes.Buffer
		if err := p.NewWriter(&buf).WriteMessage(thrift.Message{Type: 1, Name: name, SeqID: seq}); err != nil {
			return "write-err", oracle, ""
		}
		if buf.Len() < skip {
			return "short:" + hx(buf.Bytes()), oracle, ""
		}
		m, err := p.NewReader(bytes.NewReader(buf.Bytes())).ReadMessage()
		if err != nil {
			return "ok:" + hx(buf.Bytes()[skip:]) + ";read-" + huntTErr(err), oracle, ""
		}
		return fmt.Sprintf("ok:%s;seq=%d;name=%s", hx(buf.Bytes()[skip:]), m.SeqID, hx([]byte(m.Name))), oracle, ""

	// 3d53304: eofmsg <bs|bn> <name length> <cut>: a message header cut after <cut> bytes
	case "eofmsg":
		n, cut := atoi(a[2]), atoi(a[3])
		name := strings.Repeat("n", n)
		var full []byte
		if a[1] == "bs" {
			full = huntCat([]byte{0x80, 0x01, 0x00, 0x02}, huntBE(int64(n), 4), []byte(name), huntBE(0x01020304, 4))
		} else {
			full = huntCat(huntBE(int64(n), 4), []byte(name), []byte{0x02}, huntBE(0x01020304, 4))
		}
		oracle := "err:unexpectedEof"
		switch {
		case cut == 0:
			oracle = "err:eof"
		case cut >= len(full):
			cut = len(full)
			oracle = fmt.Sprintf("ok:2:%s:%d", name, 0x01020304)
		}
		m, err := thriftProto(a[1]).NewReader(bytes.NewReader(full[:cut])).ReadMessage()
		if err != nil {
			return huntTErr(err), oracle, ""
		}
		return fmt.Sprintf("ok:%d:%s:%d", m.Type, m.Name, m.SeqID), oracle, ""

	// 988f9bb: cwfield <id> <delta 0|1> <type>: compact field header
	case "cwfield":
		id, delta, t := atoi(a[1]), a[2] == "1", atoi(a[3])
		var exp []byte
		if delta { // the generator only asks for deltas in 1..15
			exp = []byte{byte(id)<<4 | byte(t)}
		} else {
			exp = huntCat([]byte{byte(t)}, huntZig(int64(id)))
		}
		oracle := fmt.Sprintf("ok:%s;rb=%d:%d:%v", hx(exp), id, t, delta)
		var buf bytes.Buffer
		p := thriftProto("c")
		if err := p.NewWriter(&buf).WriteField(thrift.Field{ID: int16(id), Type: thrift.Type(t), Delta: delta}); err != nil {
			return "write-err", oracle, ""
		}
		f, err := p.NewReader(bytes.NewReader(buf.Bytes())).ReadField()
		if err != nil {
			return "ok:" + hx(buf.Bytes()) + ";rb=" + huntTErr(err), oracle, ""
		}
		return fmt.Sprintf("ok:%s;rb=%d:%d:%v", hx(buf.Bytes()), f.ID, f.Type, f.Delta), oracle, ""

	// 9c8d6b4: tdeep <proto> <shape> <L>: L containers (structs, lists, maps) inside each other, the outermost included
	case "tdeep":
		p, compact, L := thriftProto(a[1]), a[1] == "c", atoi(a[3])
		var in []byte
		fieldB := []byte{0x05, 0x00, 0x02, 0, 0, 0, 7} // B = 7, after the unknown field
		if compact {
			fieldB = []byte{0x05, 0x04, 0x0e} // long form: the id goes down
		}
		tooDeep := L > 10000
		switch a[2] {
		case "skiplist": // unknown field 3: list<list<…list<i8>>>
			if compact {
				in = huntCat([]byte{0x39}, huntRep(L-2, 0x19), []byte{0x03}, fieldB, []byte{0})
			} else {
				in = huntCat([]byte{0x09, 0, 3}, huntRep(L-2, 0x09, 0, 0, 0, 1), []byte{0x03, 0, 0, 0, 0}, fieldB, []byte{0, 0, 0})
			}
		case "skipstruct": // unknown field 3: struct{1: struct{1: …}}
			if compact {
				in = huntCat([]byte{0x3c}, huntRep(L-2, 0x1c), huntRep(L-1, 0), fieldB, []byte{0})
			} else {
				in = huntCat([]byte{0x0c, 0, 3}, huntRep(L-2, 0x0c, 0, 1), huntRep(L-1, 0, 0, 0), fieldB, []byte{0, 0, 0})
			}
		case "skipmap": // unknown field 3: map<i8,map<i8,…map<i8,i8>>>
			if compact {
				in = huntCat([]byte{0x3b}, huntRep(L-2, 0x01, 0x3b, 0x01), []byte{0}, fieldB, []byte{0})
			} else {
				in = huntCat([]byte{0x0b, 0, 3}, huntRep(L-2, 0x03, 0x0b, 0, 0, 0, 1, 0x01), []byte{0x03, 0x03, 0, 0, 0, 0}, fieldB, []byte{0, 0, 0})
			}
		case "recstruct": // declared: struct{1: struct{1: … struct{2: 7}}}
			if compact {
				in = huntCat(huntRep(L-1, 0x1c), []byte{0x25, 0x0e}, huntRep(L, 0))
			} else {
				in = huntCat(huntRep(L-1, 0x0c, 0, 1), []byte{0x05, 0, 2, 0, 0, 0, 7}, huntRep(L, 0, 0, 0))
			}
			oracle := fmt.Sprintf("ok:7:%d", L)
			if tooDeep {
				oracle = "err"
			}
			var m huntTRec
			if st := huntTDecode(p, false, &m, in); st != "ok" {
				return st, oracle, ""
			}
			n, q := 1, &m
			for q.Next != nil {
				q = q.Next
				n++
			}
			return fmt.Sprintf("ok:%d:%d", q.V, n), oracle, ""
		case "reclist": // declared: list<list<…list<>>>
			if compact {
				in = huntCat(huntRep(L-1, 0x19), []byte{0x09})
			} else {
				in = huntCat(huntRep(L-1, 0x09, 0, 0, 0, 1), []byte{0x09, 0, 0, 0, 0})
			}
			oracle := fmt.Sprintf("ok:%d", L)
			if tooDeep {
				oracle = "err"
			}
			var l huntL
			if st := huntTDecode(p, false, &l, in); st != "ok" {
				return st, oracle, ""
			}
			n := 1
			for len(l) == 1 {
				l = l[0]
				n++
			}
			return fmt.Sprintf("ok:%d", n), oracle, ""
		}
		oracle := "ok:" + huntShow(huntSD{B: 7})
		if tooDeep {
			oracle = "err"
		}
		var got huntSD
		if st := huntTDecode(p, false, &got, in); st != "ok" {
			return st, oracle, ""
		}
		return "ok:" + huntShow(got), oracle, ""

	// fb0bd25: union <proto> <member> <zero 0|1>
	case "union":
		p, compact := thriftProto(a[1]), a[1] == "c"
		zero := a[3] == "1"
		u := &huntUnion{}
		var fld huntTFld
		var f string
		switch a[2] {
		case "A":
			u.A, u.F = !zero, &u.A
			fld, f = huntTFld{1, huntI("bool", int64(huntB2i(u.A)))}, "*bool:&"+strconv.FormatBool(u.A)
		case "B":
			if !zero {
				u.B = 5
			}
			u.F = &u.B
			fld, f = huntTFld{2, huntI("i32", int64(u.B))}, "*int32:&"+strconv.Itoa(int(u.B))
		case "C":
			if !zero {
				u.C = "x"
			}
			u.F = &u.C
			fld, f = huntTFld{3, huntTV{t: "binary", s: u.C}}, "*string:&"+strconv.Quote(u.C)
		case "D":
			if !zero {
				u.D = 6
			}
			u.F = &u.D
			fld, f = huntTFld{4, huntI("i64", u.D)}, "*int64:&"+strconv.Itoa(int(u.D))
		}
		exp := huntTEnc(compact, huntStructV(fld))
		oracle := "ok:" + hx(exp) + ";F=" + f
		b, err := thrift.Marshal(p, u)
		if err != nil {
			return "marshal-err", oracle, ""
		}
		var back huntUnion
		if st := huntTDecode(p, false, &back, exp); st != "ok" {
			return "ok:" + hx(b) + ";" + st, oracle, ""
		}
		return fmt.Sprintf("ok:%s;F=%T:%s", hx(b), back.F, huntShow(back.F)), oracle, ""

	// fb0bd25: unionemb <proto> <field 1|2>: the member is in a struct embedded by pointer
	case "unionemb":
		p, compact := thriftProto(a[1]), a[1] == "c"
		var in []byte
		var oracle string
		if a[2] == "1" {
			in = huntTEnc(compact, huntStructV(huntTFld{1, huntI("i32", 5)}))
			oracle = `ok:emb=&{A:5 B:""};F=*int32:&5;inside=true`
		} else {
			in = huntTEnc(compact, huntStructV(huntTFld{2, huntTV{t: "binary", s: "x"}}))
			oracle = `ok:emb=&{A:0 B:"x"};F=*string:&"x";inside=true`
		}
		var got huntUEmb
		if st := huntTDecode(p, false, &got, in); st != "ok" {
			return st, oracle, ""
		}
		inside := false
		if got.HuntUIn != nil {
			switch f := got.F.(type) {
			case *int32:
				inside = f == &got.HuntUIn.A
			case *string:
				inside = f == &got.HuntUIn.B
			}
		}
		return fmt.Sprintf("ok:emb=%s;F=%T:%s;inside=%v", huntShow(got.HuntUIn), got.F, huntShow(got.F), inside), oracle, ""

	// cf738bd: missing <proto> <type 1..4> <mask of the fields present, in id order>
	case "missing":
		p, compact := thriftProto(a[1]), a[1] == "c"
		mask := atoi(a[3])
		var tgt any
		var ids []int
		var req []bool
		switch a[2] {
		case "1":
			tgt, ids, req = &huntReq1{}, []int{1, 2, 3, 5}, []bool{false, true, true, true}
		case "2":
			tgt, ids, req = &huntReq2{}, []int{3, 4, 6}, []bool{true, false, true}
		case "3":
			tgt, ids, req = &huntReq3{}, []int{1, 2, 65, 70}, []bool{true, false, true, true}
		case "4":
			tgt, ids, req = &huntReq4{}, []int{1, 2}, []bool{true, true}
		}
		var fs []huntTFld
		oracle := "ok"
		for i, id := range ids {
			if mask&(1<<uint(i)) != 0 {
				fs = append(fs, huntTFld{id, huntI("i32", 1)})
			} else if req[i] && oracle == "ok" {
				oracle = fmt.Sprintf("missing:%d:%d", id, thrift.I32)
			}
		}
		return huntTDecode(p, false, tgt, huntTEnc(compact, huntStructV(fs...))), oracle, ""

	// d1e2b54: mismatch <proto> <strict 0|1> <what> <wire type sent> <n>
	case "mismatch":
		p, compact := thriftProto(a[1]), a[1] == "c"
		strict, t, n := a[2] == "1", a[4], atoi(a[5])
		var bad huntTFld
		samples := func(ts ...string) []huntTV {
			var es []huntTV
			for i := 0; i < n; i++ {
				for _, t := range ts {
					if t == "key" {
						es = append(es, huntTV{t: "binary", s: "k" + strconv.Itoa(i)})
					} else {
						es = append(es, huntSample(t))
					}
				}
			}
			return es
		}
		switch a[3] {
		case "field": // A int32
			bad = huntTFld{1, huntSample(t)}
		case "fieldL": // L []int32
			bad = huntTFld{2, huntSample(t)}
		case "fieldM": // M map[string]int32
			bad = huntTFld{3, huntSample(t)}
		case "fieldT": // T struct
			bad = huntTFld{5, huntSample(t)}
		case "list":
			bad = huntTFld{2, huntListV("list", t, samples(t)...)}
		case "set":
			bad = huntTFld{4, huntListV("set", t, samples(t)...)}
		case "mapkey":
			bad = huntTFld{3, huntMapV(t, "i32", samples(t, "i32")...)}
		case "mapval":
			bad = huntTFld{3, huntMapV("binary", t, samples("key", t)...)}
		case "inner": // the field of T
			bad = huntTFld{5, huntStructV(huntTFld{1, huntSample(t)})}
		}
		in := huntTEnc(compact, huntStructV(bad, huntTFld{6, huntI("i32", 7)}))
		oracle := "ok:" + huntShow(huntMis{Z: 7})
		if strict {
			oracle = "err:typeMismatch"
		}
		var got huntMis
		if st := huntTDecode(p, strict, &got, in); st != "ok" {
			return st, oracle, ""
		}
		return "ok:" + huntShow(got), oracle, ""
	}
	return "bad-case", "-", ""
}

func huntB2i(b bool) int {
	if b {
		return 1
	}
	return 0
}

// ---- thrift generators -------------------------------------------------------------------------------

var huntProtos = []string{"bs", "bn", "c"}

func genHuntC04(h *H) {
	// dc5a411: types which contain themselves. A type whose encoder or decoder cannot be built kills the
	// worker in every case (seconds each): after the first death the other cases of that type are not run.
	deadL, deadM := false, false
	for _, p := range huntProtos {
		for n := 1; n <= 5; n++ {
			for _, t := range huntTrees(n) {
				if !deadL {
					i, _ := h.DoRisky("hunt.thrift", "selfrec", p, "list", t)
					deadL = strings.HasPrefix(i, "fatal:")
				}
			}
		}
		for d := 0; d <= 5; d++ {
			if !deadM {
				i, _ := h.DoRisky("hunt.thrift", "selfrec", p, "map", strconv.Itoa(d))
				deadM = strings.HasPrefix(i, "fatal:")
			}
		}
	}
	// fb0bd25: union members holding their zero value; embedded pointer
	for _, p := range huntProtos {
		for _, m := range []string{"A", "B", "C", "D"} {
			h.Do("hunt.thrift", "union", p, m, "0")
			h.Do("hunt.thrift", "union", p, m, "1")
		}
		h.Do("hunt.thrift", "unionemb", p, "1")
		h.Do("hunt.thrift", "unionemb", p, "2")
	}
}

func genHuntC08(h *H) {
	// 7d9da57: compact field headers with a delta and type 0
	for _, pos := range []string{"first", "after", "skip", "skipl"} {
		for hb := 0; hb <= 0xF0; hb += 0x10 {
			h.Do("hunt.thrift", "stopdelta", pos, strconv.Itoa(hb), "0")
			if hb != 0 {
				h.Do("hunt.thrift", "stopdelta", pos, strconv.Itoa(hb), "1")
			}
		}
	}
	// 00c74d7: embedded fields of unexported types
	for _, p := range huntProtos {
		for _, v := range []string{"ptr-nil-a", "ptr-nil-b", "ptr-set-a", "val-a", "int-a", "int-b"} {
			h.Do("hunt.thrift", "embunexp", p, v)
		}
	}
	// 3d53304: message headers cut at every position
	for _, p := range []string{"bs", "bn"} {
		for _, n := range []int{0, 1, 3} {
			for cut := 0; cut <= 13+n; cut++ {
				h.Do("hunt.thrift", "eofmsg", p, strconv.Itoa(n), strconv.Itoa(cut))
			}
		}
	}
	// 9c8d6b4: nesting depth
	dead := map[string]bool{} // shapes whose type cannot be built (the worker dies at depth 2): one report each
	for _, p := range huntProtos {
		for _, shape := range []string{"skiplist", "skipstruct", "skipmap", "recstruct", "reclist"} {
			for _, L := range []int{2, 3, 9998, 9999, 10000, 10001, 10002, 10003, 30000} {
				if dead[shape] {
					continue
				}
				if i, _ := h.DoRisky("hunt.thrift", "tdeep", p, shape, strconv.Itoa(L)); L == 2 && strings.HasPrefix(i, "fatal:") {
					dead[shape] = true
				}
			}
		}
	}
	for _, shape := range []string{"skiplist", "skipstruct", "skipmap", "recstruct", "reclist"} {
		if !dead[shape] {
			h.DoRisky("hunt.thrift", "tdeep", "bs", shape, "1500000")
			h.DoRisky("hunt.thrift", "tdeep", "c", shape, "1500000")
		}
	}
	// cf738bd: the required field reported missing
	for _, p := range huntProtos {
		for k, nf := range []int{4, 3, 4, 2} { // fixed order: the case list does not depend on map iteration
			ty := strconv.Itoa(k + 1)
			for mask := 0; mask < 1<<uint(nf); mask++ {
				h.Do("hunt.thrift", "missing", p, ty, strconv.Itoa(mask))
			}
		}
	}
	// d1e2b54: values whose wire type does not match
	for _, p := range huntProtos {
		for _, strict := range []string{"0", "1"} {
			for _, t := range huntTTypes {
				for _, wo := range [][2]string{{"field", "i32"}, {"fieldL", "list"}, {"fieldM", "map"}, {"fieldT", "struct"}, {"inner", "i32"}} {
					what, own := wo[0], wo[1]
					if t != own {
						h.Do("hunt.thrift", "mismatch", p, strict, what, t, "1")
					}
				}
				if t == "bool" {
					continue // bool elements: not used in collections here
				}
				for n := 0; n <= 3; n++ {
					if n == 0 && strict == "1" {
						continue
					}
					if t != "i32" {
						h.Do("hunt.thrift", "mismatch", p, strict, "list", t, strconv.Itoa(n))
						h.Do("hunt.thrift", "mismatch", p, strict, "set", t, strconv.Itoa(n))
						h.Do("hunt.thrift", "mismatch", p, strict, "mapval", t, strconv.Itoa(n))
					}
					if t != "binary" {
						h.Do("hunt.thrift", "mismatch", p, strict, "mapkey", t, strconv.Itoa(n))
					}
				}
			}
		}
	}
}

func genHuntC13(h *H) {
	// 6527322: negative sequence ids
	for _, p := range huntProtos {
		for _, seq := range []int{0, 1, 127, 128, 2147483647, -1, -2, -64, -65, -128, -129, -16384, -2147483647, -2147483648} {
			for _, name := range []string{"-", "6e", "6e616d65"} {
				h.Do("hunt.thrift", "negseq", p, name, strconv.Itoa(seq))
			}
		}
	}
	// 988f9bb: compact field headers
	for _, t := range []int{5, 8, 12} {
		for _, id := range []int{-32768, -129, -128, -65, -64, -3, -2, -1, 0, 1, 2, 3, 7, 14, 15, 16, 17, 63, 64, 127, 128, 300, 32767} {
			h.Do("hunt.thrift", "cwfield", strconv.Itoa(id), "0", strconv.Itoa(t))
		}
		for id := 1; id <= 15; id++ {
			h.Do("hunt.thrift", "cwfield", strconv.Itoa(id), "1", strconv.Itoa(t))
		}
	}
}
