package main

import (
	"bytes"
	stdjson "encoding/json"
	"reflect"
	"sort"
	"strconv"
	"strings"
	"unicode/utf8"

	"github.com/segmentio/encoding/json"
)

// C14 (cross-model round trip): what the string ENCODER writes, the DECODER reads back — for every byte string and
// both EscapeHTML settings. Lean side: Driver/Json.lean `json.strrt` (model composition
// unmarshalString ∘ encodeString, specification = Go's UTF-8 coercion of the original string);
// theorems: Props.C14.string_round_trip and friends.

func init() {
	// json.strrt <html 0|1> <hex of s>
	//   I = what Unmarshal(Append(nil, string(s), flags)) into a string gives with segmentio's package, and the same through
	//       Parse with every subset of the copy flags (all must be equal; the first different one is reported)
	//   O = the same with encoding/json (Encoder with SetEscapeHTML, then Unmarshal)
	ops["json.strrt"] = func(a []string) (string, string, string) {
		s := string(unhx(a[1]))
		html := a[0] == "1"
		fl := json.AppendFlags(0)
		if html {
			fl = json.EscapeHTML
		}
		enc, err := json.Append(nil, s, fl)
		if err != nil {
			return "err:append", "-", ""
		}
		var ob bytes.Buffer
		en := stdjson.NewEncoder(&ob)
		en.SetEscapeHTML(html)
		if err := en.Encode(s); err != nil {
			return "-", "err:stdencode", ""
		}
		var so string
		o := "err"
		if err := stdjson.Unmarshal(ob.Bytes(), &so); err == nil {
			o = "ok:" + hx([]byte(so))
		}
		if !json.Valid(enc) {
			return "err:output-not-valid", o, ""
		}
		var s1 string
		if err := json.Unmarshal(enc, &s1); err != nil {
			return "err", o, ""
		}
		i := "ok:" + hx([]byte(s1))
		// the copy flags (and the field-matching flag) never change the value
		for m := 1; m < 16; m++ {
			var pf json.ParseFlags
			for k, f := range parseFlagBits {
				if m>>uint(k)&1 == 1 {
					pf |= f
				}
			}
			doc := append([]byte(nil), enc...)
			var s2 string
			rem, err := json.Parse(doc, &s2, pf)
			if err != nil || len(rem) != 0 {
				return i + ";parse-err-flags=" + strconv.Itoa(m), o, ""
			}
			if s2 != s1 {
				return i + ";flags=" + strconv.Itoa(m) + ":" + hx([]byte(s2)), o, ""
			}
		}
		// a single token for the Tokenizer, whose text is the whole output
		tk := json.NewTokenizer(enc)
		n := 0
		for tk.Next() {
			n++
			if !bytes.Equal(tk.Value, enc) {
				return i + ";token-differs", o, ""
			}
		}
		if n != 1 || tk.Err != nil {
			return i + ";tokens=" + strconv.Itoa(n), o, ""
		}
		return i, o, ""
	}
}

// genStrRT: byte strings biased to invalid UTF-8, surrogate encodings, U+2028/2029, HTML characters, control bytes,
// quotes / backslashes at 8-byte word boundaries.
func strrtString(h *H) []byte {
	frags := [][]byte{
		{0xed, 0xa0, 0x80}, {0xed, 0xbf, 0xbf}, {0xed, 0xa0, 0x80, 0xed, 0xb0, 0x80}, // UTF-8 encoded surrogates
		{0xe2, 0x80, 0xa8}, {0xe2, 0x80, 0xa9}, {0xe2, 0x80}, {0xe2, 0x80, 0xa7}, {0xe2, 0x80, 0xaa},
		{0xef, 0xbf, 0xbd}, {0xef, 0xbf, 0xbe}, {0xef, 0xbf}, // U+FFFD itself, U+FFFE, truncated
		{0xc0, 0x80}, {0xc1, 0xbf}, {0xe0, 0x80, 0x80}, {0xe0, 0x9f, 0xbf}, {0xf0, 0x80, 0x80, 0x80}, {0xf0, 0x8f, 0xbf, 0xbf}, // overlong
		{0xf4, 0x8f, 0xbf, 0xbf}, {0xf4, 0x90, 0x80, 0x80}, {0xf5, 0x80, 0x80, 0x80}, {0xf8}, {0xff}, {0xfe}, {0x80}, {0xbf},
		{0xf0, 0x9f, 0x98, 0x80}, {0xf0, 0x9f, 0x98}, {0xf0, 0x9f}, {0xc3, 0xa9}, {0xc3}, {0xdf, 0xbf}, {0xe0, 0xa0, 0x80},
		[]byte("<"), []byte(">"), []byte("&"), []byte("<script>"), []byte("&amp;"),
		[]byte(`"`), []byte(`\`), []byte(`\"`), []byte(`\\`), []byte(`A`), []byte(`😀`), []byte(`\n`), []byte("/"),
		{0x00}, {0x01}, {0x08}, {0x09}, {0x0a}, {0x0c}, {0x0d}, {0x1f}, {0x20}, {0x7e}, {0x7f},
		[]byte("a"), []byte("hello"), []byte("12345678"), []byte("1234567"), []byte("é"), []byte("日本語"), []byte("‧"),
	}
	var s []byte
	switch h.Intn(10) {
	case 0: // uniformly random bytes
		s = h.Bytes(h.Intn(41))
	case 1: // one special byte at a word boundary inside plain ASCII
		n := 8*(1+h.Intn(4)) + h.Intn(3) - 1
		s = bytes.Repeat([]byte("x"), n+h.Intn(10))
		sp := []byte{'"', '\\', '<', '>', '&', 0x00, 0x1f, 0x7f, 0x80, 0xff, 0xe2, 0xc3}
		pos := []int{0, 7, 8, 9, 15, 16, 17, 23, 24, len(s) - 1}
		p := pos[h.Intn(len(pos))]
		if p >= 0 && p < len(s) {
			s[p] = sp[h.Intn(len(sp))]
		}
	case 2: // long
		n := 1000 + h.Intn(4000)
		for len(s) < n {
			if h.Intn(6) == 0 {
				s = append(s, frags[h.Intn(len(frags))]...)
			} else {
				s = append(s, bytes.Repeat([]byte{byte(0x20 + h.Intn(0x5f))}, 1+h.Intn(30))...)
			}
		}
	default: // concatenation of fragments
		k := h.Intn(9)
		for j := 0; j < k && len(s) < 40; j++ {
			if h.Intn(5) == 0 {
				s = append(s, byte(h.U64()))
			} else {
				s = append(s, frags[h.Intn(len(frags))]...)
			}
		}
	}
	return s
}

func genStrRT(h *H) {
	fixed := []string{"", "a", `"`, `\`, "<>&", " ", " ", "\xed\xa0\x80", "\xff", "12345678", "1234567\"", "12345678\\",
		"\xe2\x80", "1234567\xe2\x80\xa8", "\x00", "\x7f", "\xef\xbf\xbd", "é", "\xf0\x9f\x98\x80"}
	for _, f := range fixed {
		h.Do("json.strrt", "0", hx([]byte(f)))
		h.Do("json.strrt", "1", hx([]byte(f)))
	}
	N := 1000
	if h.Thorough() {
		N = 25000
	}
	for i := 0; i < N; i++ {
		s := strrtString(h)
		if utf8.Valid(s) {
			h.Count("strrt_valid_utf8", 1)
		} else {
			h.Count("strrt_invalid_utf8", 1)
		}
		h.Do("json.strrt", "0", hx(s))
		h.Do("json.strrt", "1", hx(s))
	}
}

// json.maporder <html 0|1> <entries>: entries = "nil" | "empty" | comma-separated khex:vhex (distinct keys)
//
//	I = hex of Append(map[string]string, SortMapKeys[|EscapeHTML]) + ";perm" when the output WITHOUT SortMapKeys has the
//	    same length, is valid and decodes (encoding/json) to the same map as the sorted output
//	O = the same bytes from encoding/json (which always sorts) + ";perm"
//
// Lean side: Model/Json/MapOrder.lean (theorems Props.C14.sortMapKeys_*).
func init() {
	ops["json.maporder"] = func(a []string) (string, string, string) {
		html := a[0] == "1"
		var m map[string]string
		switch a[1] {
		case "nil":
		case "empty":
			m = map[string]string{}
		default:
			m = map[string]string{}
			for _, e := range strings.Split(a[1], ",") {
				kv := strings.SplitN(e, ":", 2)
				m[string(unhx(kv[0]))] = string(unhx(kv[1]))
			}
		}
		fl := json.AppendFlags(0)
		if html {
			fl = json.EscapeHTML
		}
		sorted, err := json.Append(nil, m, fl|json.SortMapKeys)
		if err != nil {
			return "err", "-", ""
		}
		var ob bytes.Buffer
		en := stdjson.NewEncoder(&ob)
		en.SetEscapeHTML(html)
		en.Encode(m)
		o := hx(bytes.TrimRight(ob.Bytes(), "\n")) + ";perm"
		i := hx(sorted)
		for try := 0; try < 3; try++ { // the iteration order is random: look at a few
			uns, err := json.Append(nil, m, fl)
			if err != nil || len(uns) != len(sorted) || !json.Valid(uns) {
				return i + ";notperm", o, ""
			}
			// same multiset of (key, value) members (distinct Go keys may coerce to the same JSON key: compare pairs, not maps)
			p0, ok0 := memberPairs(uns)
			p1, ok1 := memberPairs(sorted)
			if !ok0 || !ok1 || !reflect.DeepEqual(p0, p1) {
				return i + ";notperm", o, ""
			}
		}
		return i + ";perm", o, ""
	}
}

// memberPairs: the (key, value) members of a flat object of strings, sorted
func memberPairs(b []byte) ([]string, bool) {
	if string(b) == "null" {
		return nil, true
	}
	d := stdjson.NewDecoder(bytes.NewReader(b))
	var toks []string
	for {
		t, err := d.Token()
		if err != nil {
			break
		}
		if s, ok := t.(string); ok {
			toks = append(toks, s)
		}
	}
	if len(toks)%2 != 0 {
		return nil, false
	}
	var ps []string
	for i := 0; i < len(toks); i += 2 {
		ps = append(ps, strconv.Quote(toks[i])+":"+strconv.Quote(toks[i+1]))
	}
	sort.Strings(ps)
	return ps, true
}

func genMapOrder(h *H) {
	N := 300
	if h.Thorough() {
		N = 6000
	}
	h.Do("json.maporder", "1", "nil")
	h.Do("json.maporder", "0", "empty")
	alphabet := [][]byte{[]byte("a"), []byte("b"), []byte("A"), []byte("aa"), []byte("ab"), []byte("<"), []byte("\""), {0xff}, {0xc3, 0xa9}, {0x00}, []byte("é"), {}, []byte("z")}
	for i := 0; i < N; i++ {
		n := h.Intn(9)
		seen := map[string]bool{}
		var es []string
		for j := 0; j < n; j++ {
			var k []byte
			for l := h.Intn(4); l >= 0; l-- {
				if h.Intn(6) == 0 {
					k = append(k, byte(h.U64()))
				} else {
					k = append(k, alphabet[h.Intn(len(alphabet))]...)
				}
			}
			if seen[string(k)] {
				continue
			}
			seen[string(k)] = true
			es = append(es, hx(k)+":"+hx(strrtString(h)))
		}
		arg := strings.Join(es, ",")
		if len(es) == 0 {
			arg = "empty"
		}
		h.Do("json.maporder", strconv.Itoa(h.Intn(2)), arg)
	}
}
