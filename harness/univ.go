package main

// Shared type/value universe (mirror of lean/Enc/Base/Univ.lean) and its text transport.
//
//	types : bool int i8 i16 i32 i64 uint u8 u16 u32 u64 f32 f64 str bytes any
//	        arr <n> T | ptr T | sl T | map K V | st <n> (f <name> <taghex> <emb> T)*n | named <name> T
//	values: b0 b1 | i <int> | f <bits> | s <hex> | nil | p V | l <n> V*n | m <n> (K V)*n | t <n> V*n

import (
	"fmt"
	"math"
	"reflect"
	"sort"
	"strconv"
	"strings"
)

type Ty struct {
	K      string // bool int i8 … f32 f64 str bytes any arr ptr sl map st named
	N      int
	Elem   *Ty
	Key    *Ty
	Fields []Field
	Name   string
	rt     reflect.Type
}

type Field struct {
	Name string
	Tag  string
	Emb  bool
	T    *Ty
}

var intKinds = map[string]reflect.Kind{
	"int": reflect.Int, "i8": reflect.Int8, "i16": reflect.Int16, "i32": reflect.Int32, "i64": reflect.Int64,
	"uint": reflect.Uint, "u8": reflect.Uint8, "u16": reflect.Uint16, "u32": reflect.Uint32, "u64": reflect.Uint64,
}

var namedTypes = map[string]reflect.Type{}

func (t *Ty) String() string {
	switch t.K {
	case "arr":
		return fmt.Sprintf("arr %d %s", t.N, t.Elem)
	case "ptr":
		return "ptr " + t.Elem.String()
	case "sl":
		return "sl " + t.Elem.String()
	case "map":
		return "map " + t.Key.String() + " " + t.Elem.String()
	case "named":
		return "named " + t.Name + " " + t.Elem.String()
	case "st":
		var sb strings.Builder
		fmt.Fprintf(&sb, "st %d", len(t.Fields))
		for _, f := range t.Fields {
			e := "0"
			if f.Emb {
				e = "1"
			}
			fmt.Fprintf(&sb, " f %s %s %s %s", f.Name, hx([]byte(f.Tag)), e, f.T)
		}
		return sb.String()
	}
	return t.K
}

func (t *Ty) Reflect() reflect.Type {
	if t.rt != nil {
		return t.rt
	}
	var r reflect.Type
	if t.K == "named" && t.Name == "RawMessage" && t.Elem != nil && t.Elem.K == "named" {
		// a zoo type (protomsg.go): `named RawMessage named <Z> <underlying>` = the declared Go type Z, encoded through its methods
		z, ok := zooTypes[t.Elem.Name]
		if !ok {
			panic("unknown zoo type " + t.Elem.Name)
		}
		t.rt = z.rt
		return z.rt
	}
	switch t.K {
	case "bool":
		r = reflect.TypeOf(false)
	case "f32":
		r = reflect.TypeOf(float32(0))
	case "f64":
		r = reflect.TypeOf(float64(0))
	case "str":
		r = reflect.TypeOf("")
	case "bytes":
		r = reflect.TypeOf([]byte(nil))
	case "any":
		r = reflect.TypeOf((*any)(nil)).Elem()
	case "arr":
		r = reflect.ArrayOf(t.N, t.Elem.Reflect())
	case "ptr":
		r = reflect.PointerTo(t.Elem.Reflect())
	case "sl":
		r = reflect.SliceOf(t.Elem.Reflect())
	case "map":
		r = reflect.MapOf(t.Key.Reflect(), t.Elem.Reflect())
	case "named":
		var ok bool
		r, ok = namedTypes[t.Name]
		if !ok {
			panic("unknown named type " + t.Name)
		}
	case "st":
		var fs []reflect.StructField
		for _, f := range t.Fields {
			fs = append(fs, reflect.StructField{Name: f.Name, Type: f.T.Reflect(), Tag: reflect.StructTag(f.Tag), Anonymous: f.Emb})
		}
		r = reflect.StructOf(fs)
	default:
		k, ok := intKinds[t.K]
		if !ok {
			panic("unknown type kind " + t.K)
		}
		r = map[reflect.Kind]reflect.Type{
			reflect.Int: reflect.TypeOf(int(0)), reflect.Int8: reflect.TypeOf(int8(0)), reflect.Int16: reflect.TypeOf(int16(0)),
			reflect.Int32: reflect.TypeOf(int32(0)), reflect.Int64: reflect.TypeOf(int64(0)),
			reflect.Uint: reflect.TypeOf(uint(0)), reflect.Uint8: reflect.TypeOf(uint8(0)), reflect.Uint16: reflect.TypeOf(uint16(0)),
			reflect.Uint32: reflect.TypeOf(uint32(0)), reflect.Uint64: reflect.TypeOf(uint64(0)),
		}[k]
	}
	t.rt = r
	return r
}

func isByteSeq(t *Ty) bool {
	t = unnamed(t) // defined types are transparent (type Hash [4]byte, type RawMessage []byte); a zoo leaf stays `named`: false
	return t.K == "bytes" || (t.K == "sl" && t.Elem.K == "u8") || (t.K == "arr" && t.Elem.K == "u8")
}

// ---- parsing ----

type toks struct {
	t []string
	i int
}

func (p *toks) next() string {
	if p.i >= len(p.t) {
		panic("unexpected end of tokens")
	}
	s := p.t[p.i]
	p.i++
	return s
}

func parseTy(s string) *Ty {
	p := &toks{t: strings.Fields(s)}
	t := parseTyT(p)
	if p.i != len(p.t) {
		panic("trailing tokens in type")
	}
	return t
}

func parseTyT(p *toks) *Ty {
	k := p.next()
	switch k {
	case "arr":
		n := atoi(p.next())
		return &Ty{K: "arr", N: n, Elem: parseTyT(p)}
	case "ptr", "sl":
		return &Ty{K: k, Elem: parseTyT(p)}
	case "map":
		key := parseTyT(p)
		return &Ty{K: "map", Key: key, Elem: parseTyT(p)}
	case "named":
		n := p.next()
		return &Ty{K: "named", Name: n, Elem: parseTyT(p)}
	case "st":
		n := atoi(p.next())
		t := &Ty{K: "st"}
		for i := 0; i < n; i++ {
			if p.next() != "f" {
				panic("expected f")
			}
			name := p.next()
			tag := string(unhx(p.next()))
			emb := p.next() == "1"
			t.Fields = append(t.Fields, Field{Name: name, Tag: tag, Emb: emb, T: parseTyT(p)})
		}
		return t
	}
	return &Ty{K: k}
}

// parseVal builds a reflect.Value of type t from value text.
func parseVal(t *Ty, s string) reflect.Value {
	p := &toks{t: strings.Fields(s)}
	v := reflect.New(t.Reflect()).Elem()
	parseValInto(t, p, v)
	if p.i != len(p.t) {
		panic("trailing tokens in value")
	}
	return v
}

func parseValInto(t *Ty, p *toks, dst reflect.Value) {
	if z := zooOf(t); z != nil {
		z.parse(p, dst) // a zoo leaf travels as its payload: `s <hex>` (ZFail also `i <n>`)
		return
	}
	k := p.next()
	switch k {
	case "b0":
		dst.SetBool(false)
	case "b1":
		dst.SetBool(true)
	case "i":
		n := p.next()
		if dst.CanInt() {
			x, _ := strconv.ParseInt(n, 10, 64)
			dst.SetInt(x)
		} else {
			x, _ := strconv.ParseUint(n, 10, 64)
			dst.SetUint(x)
		}
	case "f":
		x, _ := strconv.ParseUint(p.next(), 10, 64)
		if dst.Kind() == reflect.Float32 {
			dst.SetFloat(float64(math.Float32frombits(uint32(x))))
		} else {
			dst.SetFloat(math.Float64frombits(x))
		}
	case "s":
		b := unhx(p.next())
		switch dst.Kind() {
		case reflect.String:
			dst.SetString(string(b))
		case reflect.Slice:
			dst.SetBytes(append(make([]byte, 0, len(b)), b...))
		case reflect.Array:
			reflect.Copy(dst, reflect.ValueOf(b))
		default:
			panic("s into " + dst.Kind().String())
		}
	case "nil":
		dst.Set(reflect.Zero(dst.Type()))
	case "p":
		e := reflect.New(dst.Type().Elem())
		parseValInto(elemTy(t), p, e.Elem())
		dst.Set(e)
	case "l":
		n := atoi(p.next())
		et := elemTy(t)
		if dst.Kind() == reflect.Slice {
			dst.Set(reflect.MakeSlice(dst.Type(), n, n))
		}
		for i := 0; i < n; i++ {
			parseValInto(et, p, dst.Index(i))
		}
	case "m":
		n := atoi(p.next())
		dst.Set(reflect.MakeMapWithSize(dst.Type(), n))
		tt := unnamed(t)
		for i := 0; i < n; i++ {
			kv := reflect.New(dst.Type().Key()).Elem()
			parseValInto(tt.Key, p, kv)
			ev := reflect.New(dst.Type().Elem()).Elem()
			parseValInto(tt.Elem, p, ev)
			dst.SetMapIndex(kv, ev)
		}
	case "t":
		n := atoi(p.next())
		tt := unnamed(t)
		type ref struct{ f, k int }
		var refs []ref
		for i := 0; i < n; i++ {
			// thrift union field: `p i <k>` = a pointer to the field at position k of this very struct value
			if dst.Field(i).Kind() == reflect.Interface && p.i < len(p.t) && p.t[p.i] == "p" {
				p.next()
				if p.next() != "i" {
					panic("union reference: expected `p i <k>`")
				}
				refs = append(refs, ref{i, atoi(p.next())})
				continue
			}
			parseValInto(tt.Fields[i].T, p, dst.Field(i))
		}
		for _, r := range refs {
			dst.Field(r.f).Set(dst.Field(r.k).Addr())
		}
	default:
		panic("bad value token " + k)
	}
}

// unnamed strips the defined-type markers. A zoo leaf (protomsg.go) is opaque: it is returned as it is, never looked into.
func unnamed(t *Ty) *Ty {
	for t.K == "named" && zooOf(t) == nil {
		t = t.Elem
	}
	return t
}
func elemTy(t *Ty) *Ty { return unnamed(t).Elem }

// ---- printing ----

// showVal prints v (of type t) in the transport format. canon: nil≡empty for slices/maps/[]byte, map entries sorted.
func showVal(t *Ty, v reflect.Value, canon bool) string {
	var sb strings.Builder
	showValTo(&sb, t, v, canon)
	return sb.String()
}

func showValTo(sb *strings.Builder, t *Ty, v reflect.Value, canon bool) {
	if z := zooOf(t); z != nil {
		sb.WriteString(z.show(v, canon)) // before the kind switch: the kinds are struct / slice / map / int
		return
	}
	tt := unnamed(t)
	switch v.Kind() {
	case reflect.Bool:
		if v.Bool() {
			sb.WriteString("b1")
		} else {
			sb.WriteString("b0")
		}
	case reflect.Int, reflect.Int8, reflect.Int16, reflect.Int32, reflect.Int64:
		sb.WriteString("i " + strconv.FormatInt(v.Int(), 10))
	case reflect.Uint, reflect.Uint8, reflect.Uint16, reflect.Uint32, reflect.Uint64:
		sb.WriteString("i " + strconv.FormatUint(v.Uint(), 10))
	case reflect.Float32:
		// exact bit pattern: v.Float() widens to float64, which quiets signalling NaNs
		var bits uint32
		if v.CanAddr() {
			bits = *(*uint32)(v.Addr().UnsafePointer())
		} else if f, ok := v.Interface().(float32); ok {
			bits = math.Float32bits(f)
		} else {
			bits = math.Float32bits(float32(v.Float()))
		}
		sb.WriteString("f " + strconv.FormatUint(uint64(bits), 10))
	case reflect.Float64:
		sb.WriteString("f " + strconv.FormatUint(math.Float64bits(v.Float()), 10))
	case reflect.String:
		sb.WriteString("s " + hx([]byte(v.String())))
	case reflect.Ptr:
		if v.IsNil() {
			sb.WriteString("nil")
		} else {
			sb.WriteString("p ")
			showValTo(sb, tt.Elem, v.Elem(), canon)
		}
	case reflect.Interface:
		sb.WriteString("nil") // only nil interfaces travel in this format
	case reflect.Slice:
		if isByteSeq(t) {
			if v.IsNil() || (canon && v.Len() == 0) {
				sb.WriteString("nil")
			} else {
				sb.WriteString("s " + hx(v.Bytes()))
			}
			return
		}
		if v.IsNil() || (canon && v.Len() == 0) {
			sb.WriteString("nil")
			return
		}
		fmt.Fprintf(sb, "l %d", v.Len())
		for i := 0; i < v.Len(); i++ {
			sb.WriteString(" ")
			showValTo(sb, tt.Elem, v.Index(i), canon)
		}
	case reflect.Array:
		if isByteSeq(t) {
			b := make([]byte, v.Len())
			reflect.Copy(reflect.ValueOf(b), v)
			sb.WriteString("s " + hx(b))
			return
		}
		fmt.Fprintf(sb, "l %d", v.Len())
		for i := 0; i < v.Len(); i++ {
			sb.WriteString(" ")
			showValTo(sb, tt.Elem, v.Index(i), canon)
		}
	case reflect.Map:
		if v.IsNil() || (canon && v.Len() == 0) {
			sb.WriteString("nil")
			return
		}
		type kv struct{ k, v string }
		var kvs []kv
		it := v.MapRange()
		for it.Next() {
			kvs = append(kvs, kv{showVal(tt.Key, it.Key(), canon), showVal(tt.Elem, it.Value(), canon)})
		}
		sort.Slice(kvs, func(i, j int) bool { return kvs[i].k < kvs[j].k })
		fmt.Fprintf(sb, "m %d", len(kvs))
		for _, e := range kvs {
			sb.WriteString(" " + e.k + " " + e.v)
		}
	case reflect.Struct:
		fmt.Fprintf(sb, "t %d", v.NumField())
		for i := 0; i < v.NumField(); i++ {
			sb.WriteString(" ")
			if fv := v.Field(i); fv.Kind() == reflect.Interface && !fv.IsNil() && strings.Contains(tt.Fields[i].Tag, ",union") {
				sb.WriteString(showUnionRef(v, fv))
				continue
			}
			showValTo(sb, tt.Fields[i].T, v.Field(i), canon)
		}
	default:
		panic("showVal: unsupported kind " + v.Kind().String())
	}
}

// ---- random values ----

var edgeInts = []int64{0, 1, -1, 2, 63, 64, 127, 128, 129, 255, 256, 16383, 16384, 32767, 32768, 65535, 65536,
	1<<21 - 1, 1 << 21, 1<<28 - 1, 1 << 28, 1<<31 - 1, 1 << 31, 1<<32 - 1, 1 << 32, 1<<35 - 1, 1 << 35, 1 << 42, 1 << 49, 1 << 56,
	1<<63 - 1, -1 << 63, -128, -129, -32768, -32769, -1 << 31, -1<<31 - 1}

func (h *H) genInt(k string) reflect.Value {
	rt := (&Ty{K: k}).Reflect()
	v := reflect.New(rt).Elem()
	var x int64
	switch h.Intn(4) {
	case 0:
		x = 0
	case 1:
		x = edgeInts[h.Intn(len(edgeInts))]
		if h.Bool() {
			x = -x
		}
	case 2:
		x = int64(h.Intn(200)) - 20
	default:
		x = int64(h.U64() >> uint(h.Intn(64)))
		if h.Bool() {
			x = -x
		}
	}
	if v.CanInt() {
		v.SetInt(x) // truncates to the width
		v.SetInt(v.Int())
	} else {
		v.SetUint(uint64(x))
	}
	return v
}

var edgeF64 = []uint64{0, 1 << 63, 0x3ff0000000000000, 0xbff0000000000000, 0x7ff0000000000000, 0xfff0000000000000, 0x7ff8000000000001,
	1, 0x7fefffffffffffff, 0x4059000000000000, 0x3fb999999999999a}

// genVal generates a random value of type t. depth bounds collection sizes.
func (h *H) genVal(t *Ty, depth int) reflect.Value {
	if z := zooOf(t); z != nil {
		return z.gen(h)
	}
	rt := t.Reflect()
	v := reflect.New(rt).Elem()
	tt := unnamed(t)
	switch rt.Kind() {
	case reflect.Bool:
		v.SetBool(h.Bool())
	case reflect.Int, reflect.Int8, reflect.Int16, reflect.Int32, reflect.Int64, reflect.Uint, reflect.Uint8, reflect.Uint16, reflect.Uint32, reflect.Uint64:
		v.Set(h.genInt(tt.K).Convert(rt))
	case reflect.Float32:
		switch h.Intn(3) {
		case 0:
			v.SetFloat(float64(math.Float32frombits(uint32(h.U64()))))
		case 1:
			v.SetFloat(float64(math.Float32frombits([]uint32{0, 1 << 31, 0x3f800000, 0x7f800000, 0xff800000, 0x7fc00000}[h.Intn(6)])))
		default:
			v.SetFloat(float64(h.Intn(100)) / 4)
		}
	case reflect.Float64:
		switch h.Intn(3) {
		case 0:
			v.SetFloat(math.Float64frombits(h.U64()))
		case 1:
			v.SetFloat(math.Float64frombits(edgeF64[h.Intn(len(edgeF64))]))
		default:
			v.SetFloat(float64(h.Intn(100)) / 4)
		}
	case reflect.String:
		v.SetString(string(h.genBytes()))
	case reflect.Ptr:
		if h.Intn(4) != 0 {
			e := reflect.New(rt.Elem())
			e.Elem().Set(h.genVal(tt.Elem, depth+1))
			v.Set(e)
		}
	case reflect.Slice:
		if isByteSeq(t) {
			if h.Intn(4) != 0 {
				v.SetBytes(h.genBytes())
			}
			return v
		}
		if h.Intn(5) == 0 {
			return v
		}
		n := h.sizeHint(depth)
		s := reflect.MakeSlice(rt, n, n)
		for i := 0; i < n; i++ {
			s.Index(i).Set(h.genVal(tt.Elem, depth+1))
		}
		v.Set(s)
	case reflect.Array:
		for i := 0; i < rt.Len(); i++ {
			if isByteSeq(t) {
				if h.Intn(3) == 0 {
					v.Index(i).SetUint(uint64(h.Intn(256)))
				}
			} else {
				v.Index(i).Set(h.genVal(tt.Elem, depth+1))
			}
		}
		if isByteSeq(t) && h.Intn(3) == 0 {
			reflect.Copy(v, reflect.ValueOf(make([]byte, rt.Len()))) // all zero
		}
	case reflect.Map:
		if h.Intn(5) == 0 {
			return v
		}
		n := h.sizeHint(depth)
		if n > 4 {
			n = 4
		}
		m := reflect.MakeMapWithSize(rt, n)
		for i := 0; i < n; i++ {
			m.SetMapIndex(h.genVal(tt.Key, depth+1), h.genVal(tt.Elem, depth+1))
		}
		v.Set(m)
	case reflect.Struct:
		for i := range tt.Fields {
			if h.Intn(5) != 0 || zooOf(tt.Fields[i].T) != nil { // leave some fields zero (never a zoo leaf: a nil ZMap is outside the transport)
				v.Field(i).Set(h.genVal(tt.Fields[i].T, depth+1))
			}
		}
	case reflect.Interface:
		// nil
	}
	return v
}

func (h *H) sizeHint(depth int) int {
	if depth > 2 {
		return h.Intn(3)
	}
	switch h.Intn(10) {
	case 0:
		return 0
	case 1:
		return 1
	case 2:
		return 9 + h.Intn(4) // around the cap-10 growth step
	case 4:
		return 13 + h.Intn(6) // 14/15/16: the compact-protocol short list header ends, 4-bit counters wrap
	case 5:
		if depth <= 1 && h.Intn(2) == 0 {
			return 126 + h.Intn(5) // 127/128: one-byte varint counts end
		}
		return 1 + h.Intn(4)
	case 3:
		if depth > 1 {
			return 1 + h.Intn(4) // large collections only near the top: sizes multiply with nesting
		}
		if h.Thorough() {
			return 100 + h.Intn(200)
		}
		return 20 + h.Intn(10)
	default:
		return 1 + h.Intn(4)
	}
}

func (h *H) genBytes() []byte {
	switch h.Intn(8) {
	case 0:
		return []byte{}
	case 1:
		return h.Bytes(1 + h.Intn(3))
	case 2:
		return h.Bytes(126 + h.Intn(4)) // around the 1→2 byte length varint
	case 3:
		return []byte("héllo, wörld")
	default:
		n := 1 + h.Intn(12)
		b := make([]byte, n)
		for i := range b {
			b[i] = byte('a' + h.Intn(26))
		}
		return b
	}
}

// showUnionRef prints the content of a thrift union field: `p i <k>` when it holds the address of field k of the same
// struct value v; `p i -(k+1)` when it holds a pointer of field k's pointer type that points elsewhere (first such k);
// `p i -32768` otherwise.
func showUnionRef(v, fv reflect.Value) string {
	e := fv.Elem()
	if e.Kind() != reflect.Ptr {
		return "p i -32768"
	}
	if v.CanAddr() {
		for k := 0; k < v.NumField(); k++ {
			if f := v.Field(k); f.CanAddr() && f.Addr().Type() == e.Type() && f.Addr().Pointer() == e.Pointer() {
				return "p i " + strconv.Itoa(k)
			}
		}
	}
	for k := 0; k < v.NumField(); k++ {
		if reflect.PointerTo(v.Field(k).Type()) == e.Type() {
			return "p i " + strconv.Itoa(-(k + 1))
		}
	}
	return "p i -32768"
}
