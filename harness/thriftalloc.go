package main

// C08, allocation clause: "memory allocated stays within a constant factor of the bytes actually available" — FALSE for the
// code as written (known finding thrift-wire-size-alloc): list / set / map sizes and binary lengths are reserved before
// the elements are read.
//
// op thrift.allocm <proto> <type> <hex> <measured>
//
//	I = sz=<reflect size>;<verdict>: "ok" when the TotalAlloc delta of thrift.Unmarshal on the real code is within the
//	    nominal linear bound 64·len·(size+64)+65536 (the bound of thrift.alloc), else "alloc=…>bound=…"; O = …;ok.
//	M (Enc/Driver/Thrift.lean) = the same verdict computed from <measured> — the number measured when the case was
//	    generated — provided <measured> agrees with the count of the accounting model Enc/Model/ThriftAlloc.lean (both
//	    directions, with slack), else the disagreement. The known class thriftWireSizeAlloc is attached by the MODEL,
//	    exactly when its own count exceeds the bound: a violation is excused only where the model pre-allocates too.
//
// Sizes that do not fit the worker's memory limit kill it: I = fatal:…, labelled by the model / by declaresOversize.

import (
	"fmt"
	"reflect"
	"runtime"
	"strconv"

	"github.com/segmentio/encoding/thrift"
)

func init() {
	ops["thrift.allocm"] = opThriftAllocM
	ops["thrift.allocmeas"] = func(a []string) (string, string, string) {
		return strconv.FormatUint(tamMeasure(thriftProto(a[0]), parseTy(a[1]), unhx(a[2])), 10), "-", ""
	}
	fatalClass["thrift.allocm"] = func(a []string) string {
		if len(a) > 2 && declaresOversize(unhx(a[2])) {
			return "thriftWireSizeAlloc"
		}
		return ""
	}
}

func tamMeasure(p thrift.Protocol, t *Ty, b []byte) uint64 {
	rt := t.Reflect()
	thrift.Unmarshal(p, b, reflect.New(rt).Interface())
	best := ^uint64(0)
	var m0, m1 runtime.MemStats
	for k := 0; k < 3; k++ {
		x := reflect.New(rt).Interface()
		runtime.ReadMemStats(&m0)
		thrift.Unmarshal(p, b, x)
		runtime.ReadMemStats(&m1)
		if d := m1.TotalAlloc - m0.TotalAlloc; d < best {
			best = d
		}
		runtime.KeepAlive(x)
		x = nil
		if best > 1<<26 {
			runtime.GC()
		}
	}
	return best
}

func tamVerdict(t *Ty, b []byte, meas uint64) (string, string) {
	sz := uint64(t.Reflect().Size())
	pre := fmt.Sprintf("sz=%d;", sz)
	bound := uint64(len(b))*64*(sz+64) + 65536
	if meas <= bound {
		return pre + "ok", pre + "ok"
	}
	return pre + fmt.Sprintf("alloc=%d>bound=%d", meas, bound), pre + "ok"
}

func opThriftAllocM(a []string) (string, string, string) {
	t := parseTy(a[1])
	b := unhx(a[2])
	i, o := tamVerdict(t, b, tamMeasure(thriftProto(a[0]), t, b))
	return i, o, ""
}

func (h *H) thriftAllocm(pn, ts string, b []byte) {
	if h.w == nil {
		h.w = &worker{}
	}
	ms, _, _ := h.w.run("thrift.allocmeas", []string{pn, ts, hx(b)})
	meas, err := strconv.ParseUint(ms, 10, 64)
	h.Count("cases", 1)
	h.Count("op:thrift.allocm", 1)
	t := parseTy(ts)
	if err != nil {
		_, o := tamVerdict(t, b, 0)
		k := ""
		if declaresOversize(b) {
			k = "thriftWireSizeAlloc"
		}
		h.Count("fatal", 1)
		h.emit("C", "thrift.allocm", []string{pn, ts, hx(b), "0"}, ms, o, k)
		return
	}
	i, o := tamVerdict(t, b, meas)
	h.emit("C", "thrift.allocm", []string{pn, ts, hx(b), ms}, i, o, "")
}

func be32(n uint32) []byte { return []byte{byte(n >> 24), byte(n >> 16), byte(n >> 8), byte(n)} }

// thriftAllocCases: hooked at the end of the C08 runner.
func (h *H) thriftAllocCases() {
	// 1. valid encodings and mutations of generated values: measured and model agree, within the bound
	N := 60
	if h.Thorough() {
		N = 600
	}
	for i := 0; i < N; i++ {
		t, val := h.genThriftCase()
		ts := t.String()
		v := parseVal(t, val)
		for _, pn := range thriftProtos {
			b, err := thrift.Marshal(thriftProto(pn), v.Interface())
			if err != nil {
				continue
			}
			h.thriftAllocm(pn, ts, b)
			h.thriftAllocm(pn, ts, h.mutate(b))
			if len(b) > 0 {
				h.thriftAllocm(pn, ts, b[:h.Intn(len(b))])
			}
		}
	}
	// 2. the witness family of Props.C08.thrift_alloc_unbounded: a list header announcing n int64 and nothing else
	//    (binary: 5 bytes, compact: ≤ 6 bytes), then the other wire-sized sites. The sizes are moderate so that the
	//    worker survives and the NUMBERS are visible; the last ones do not fit and kill it.
	sizes := []uint32{0, 1, 1000, 1 << 16, 1 << 20, 1 << 24}
	if h.Thorough() {
		sizes = append(sizes, 3<<20, 1<<25)
	}
	sizes = append(sizes, 0x7fffffff)
	elem := "st 3 f A 7468726966743a223122 0 i64 f B 7468726966743a223222 0 str f C 7468726966743a223322 0 f64"
	for _, n := range sizes {
		// type ids of this library on both wires: I32 5, I64 6, BINARY 8, LIST 9, SET 10, MAP 11, STRUCT 12
		h.thriftAllocm("bs", "sl i64", append([]byte{6}, be32(n)...))
		h.thriftAllocm("bn", "sl i64", append([]byte{6}, be32(n)...))
		h.thriftAllocm("c", "sl i64", append([]byte{0xf6}, putUvarint(uint64(n), 0)...))
		h.thriftAllocm("bs", "sl "+elem, append([]byte{12}, be32(n)...))
		h.thriftAllocm("bs", "str", be32(n))
		h.thriftAllocm("bs", "bytes", append(be32(n), 'a', 'b'))
		h.thriftAllocm("c", "str", putUvarint(uint64(n), 0))
		h.thriftAllocm("bs", "map i64 st 0", append([]byte{6}, be32(n)...))                                    // set
		h.thriftAllocm("bs", "map i64 i64", append([]byte{6, 6}, be32(n)...))                                  // map
		h.thriftAllocm("bs", "map str "+elem, append([]byte{8, 12}, be32(n)...))                               // map with a 32-byte element
		h.thriftAllocm("bs", "st 1 f A 7468726966743a223122 0 sl i64", append([]byte{9, 0, 1, 6}, be32(n)...)) // inside a field
		h.thriftAllocm("bs", "sl sl i64", append(append([]byte{9}, be32(2)...), append([]byte{6}, be32(n)...)...))
		h.thriftAllocm("bs", "sl i64", append([]byte{5}, be32(n)...)) // mismatch: skipped, nothing reserved
	}
}
