package main

import (
	"bytes"
	"fmt"

	"github.com/segmentio/encoding/thrift"
)

// Unions whose interface field is PROMOTED from an embedded struct (model: lean/Enc/Model/ThriftUnionEmbed.lean).
// Regression cases for fix 62e5e1f (before it the shapes `ptr` and `stringer` PANICKED as soon as a member arrived).
//
//	ptr     the union field lives in an embedded POINTER struct that holds no member: structDecoder.decode resets the
//	        struct on every accepted member (`v.Set(dec.zero)`: the embedded pointer is nil again); the closing walk to the
//	        union field now allocates it
//	val     the same with a value embedding: no pointer on the way
//	shared  members and union field in the SAME embedded pointer struct: the walk to the member allocates it
//	stringer  (no model: outside the universe) the union field has a non-empty interface type the members' pointer types do
//	        not implement; struct.go only checks `Kind() == reflect.Interface`; now an error when a member arrives
//
//	thrift.uembdecode <proto> <strict> <ptr|val|shared|stringer> <hex>
//	    I = the outcome of Decode: `ok:A=<int> B=<hex> F=<A|B|nil>` (F: the member the union field points at, by address),
//	        `err:<class>`, `panic:<msg>`
//	    O = embedding is transparent: the outcome of decoding the same bytes into the FLAT union
//	        `struct{A int32 "1"; B string "2"; F any ",union"}` (a path that never had the defect) — in particular no panic,
//	        and on success F points at the member decoded last; for `stringer`: the outcome of the flat union with the one
//	        member A, where a success with F set becomes `err:other`
type TUEMembers struct {
	A int32  `thrift:"1"`
	B string `thrift:"2"`
}
type TUEUnion struct {
	F any `thrift:",union"`
}
type TUEOuter struct {
	TUEMembers
	*TUEUnion
}
type TUEOuterV struct {
	TUEMembers
	TUEUnion
}
type TUEInner struct {
	A int32  `thrift:"1"`
	B string `thrift:"2"`
	F any    `thrift:",union"`
}
type TUEShared struct {
	*TUEInner
}
type TUEStringer struct {
	A int32        `thrift:"1"`
	F fmt.Stringer `thrift:",union"`
}

type TUEStrFlat struct {
	A int32 `thrift:"1"`
	F any   `thrift:",union"`
}

func uembShow(err error, left int, A *int32, B *string, F any) string {
	if err != nil {
		return thriftErrClass(err)
	}
	if left != 0 {
		return "err:trailing"
	}
	f := "nil"
	switch x := F.(type) {
	case *int32:
		if x == A {
			f = "A"
		} else {
			f = "?"
		}
	case *string:
		if x == B {
			f = "B"
		} else {
			f = "?"
		}
	case nil:
	default:
		f = "?"
	}
	return fmt.Sprintf("ok:A=%d B=%x F=%s", *A, *B, f)
}

// the flat union decoded from the same bytes
func uembOracle(a []string) (o string) {
	defer func() {
		if r := recover(); r != nil {
			o = "oracle-panic"
		}
	}()
	br := bytes.NewReader(unhx(a[3]))
	dec := thrift.NewDecoder(thriftProto(a[0]).NewReader(br))
	dec.SetStrict(a[1] == "1")
	if a[2] == "stringer" {
		var out TUEStrFlat
		var b0 string
		err := dec.Decode(&out)
		if err == nil && out.F != nil { // the error comes from Decode, before the trailing-bytes check
			return "err:other"
		}
		return uembShow(err, br.Len(), &out.A, &b0, out.F)
	}
	var out TUEInner
	err := dec.Decode(&out)
	return uembShow(err, br.Len(), &out.A, &out.B, out.F)
}

// generated regression cases: valid messages of the flat union (no member, one member, several members — the last one
// wins —, a member of another wire type, an unknown field), every proper prefix of each, a trailing byte, a few bit flips;
// all four shapes, the three protocol settings, strict or not
func (h *H) thriftUnionEmbedded(n int) {
	for _, pn := range thriftProtos {
		p := thriftProto(pn)
		var inputs [][]byte
		enc := func(v any) []byte {
			b, err := thrift.Marshal(p, v)
			if err != nil {
				panic(err)
			}
			return b
		}
		stop := len(enc(struct{}{}))
		body := func(v any) []byte { b := enc(v); return b[:len(b)-stop] }
		end := enc(struct{}{})
		cat := func(parts ...[]byte) []byte { return bytes.Join(parts, nil) }
		for i := 0; i < n; i++ {
			A := int32(h.U64())
			if h.Intn(4) == 0 {
				A = int32(h.Intn(3)) - 1
			}
			B := string(h.genJSONString())
			mA := body(struct {
				A int32 `thrift:"1,required"`
			}{A})
			mB := body(struct {
				B string `thrift:"2,required"`
			}{B})
			wrongA := body(struct {
				A int64 `thrift:"1,required"`
			}{int64(A)}) // field 1 with another wire type
			unk := body(struct {
				X []int16 `thrift:"7,required"`
			}{[]int16{1, int16(A)}})
			inputs = append(inputs, end, cat(mA, end), cat(mB, end), cat(mA, mB, end), cat(mB, mA, end), cat(unk, mA, end),
				cat(wrongA, end), cat(mB, wrongA, end), cat(mA, unk, end), cat(mA, end, []byte{0}))
		}
		seen := map[string]bool{}
		do := func(b []byte) {
			k := hx(b)
			if seen[k] {
				return
			}
			seen[k] = true
			for _, sh := range []string{"ptr", "val", "shared", "stringer"} {
				h.Do("thrift.uembdecode", pn, "0", sh, k)
				h.Do("thrift.uembdecode", pn, "1", sh, k)
			}
		}
		for _, b := range inputs {
			do(b)
			for k := 0; k < len(b); k++ {
				do(b[:k])
			}
			if len(b) > 1 && h.Intn(2) == 0 {
				c := append([]byte(nil), b...)
				c[h.Intn(len(c))] ^= byte(1 << h.Intn(8))
				do(c)
			}
		}
	}
}

func init() {
	ops["thrift.uembdecode"] = func(a []string) (res string, oracle string, known string) {
		oracle = uembOracle(a)
		defer func() {
			if r := recover(); r != nil {
				msg := fmt.Sprint(r)
				if msg == "reflect: indirection through nil pointer to embedded struct" {
					res = "panic:nilEmbeddedPointer"
				} else {
					res = "panic:" + msg
				}
			}
		}()
		p := thriftProto(a[0])
		br := bytes.NewReader(unhx(a[3]))
		dec := thrift.NewDecoder(p.NewReader(br))
		dec.SetStrict(a[1] == "1")
		show := func(err error, A *int32, B *string, F any) string { return uembShow(err, br.Len(), A, B, F) }
		switch a[2] {
		case "ptr":
			var out TUEOuter
			err := dec.Decode(&out)
			var F any
			if out.TUEUnion != nil {
				F = out.F
			}
			return show(err, &out.A, &out.B, F), oracle, ""
		case "val":
			var out TUEOuterV
			err := dec.Decode(&out)
			return show(err, &out.A, &out.B, out.F), oracle, ""
		case "shared":
			var out TUEShared
			err := dec.Decode(&out)
			if out.TUEInner == nil {
				var a0 int32
				var b0 string
				return show(err, &a0, &b0, nil), oracle, ""
			}
			return show(err, &out.A, &out.B, out.F), oracle, ""
		default:
			var out TUEStringer
			err := dec.Decode(&out)
			var b0 string
			return show(err, &out.A, &b0, nil), oracle, ""
		}
	}
}
